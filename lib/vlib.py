"""Shared machinery of the /verif checks (python3 stdlib only).

Pipeline per property:  (G) TLC model-checks / generates from specs/<Family>,
(R) a Go driver built from /repo's working tree runs the real code and writes
ndjson traces, (V) TLC validates the traces against the same specification.

Exit codes of a check: 0 = held on everything explored, 1 = VIOLATION printed,
2 = the machinery itself failed (build error, TLC error, timeout) -- never a verdict.
"""
import json, os, re, shutil, subprocess, sys, time, hashlib, threading

VERIF = os.path.dirname(os.path.dirname(os.path.abspath(__file__)))
REPO = os.environ.get("VERIF_REPO", "/repo")
WORK = os.path.join(VERIF, "work")
BIN = os.path.join(WORK, "bin")
HARNESS = os.path.join(VERIF, "harness")
SPECS = os.path.join(VERIF, "specs")
EVID = os.path.join(VERIF, "evidence")
REPLAYS = os.path.join(VERIF, "replays")
if REPO != "/repo":     # runs against a scratch worktree (mutants, proposed repairs) keep their scratch, evidence and replays apart
    WORK = os.path.join(VERIF, "work", "alt-" + hashlib.sha1(REPO.encode()).hexdigest()[:10])
    EVID = os.path.join(WORK, "evidence")
    REPLAYS = os.path.join(WORK, "replays")
KNOWN = os.path.join(VERIF, "known_findings.txt")
TLA_CP = "/opt/veriftools/tla/tla2tools.jar:/opt/veriftools/tla/CommunityModules-deps.jar"
NCPU = os.cpu_count() or 4


class MachineryError(Exception):
    """Anything that prevents a verdict (exit 2)."""


def log(*a):
    print(*a, flush=True)


def goenv():
    e = dict(os.environ)
    e.update(GOFLAGS="-mod=mod", GOPROXY="off", GOSUMDB="off", GOTOOLCHAIN="local", GOWORK="off",
             CGO_ENABLED="0")
    e.setdefault("GOCACHE", os.path.join(WORK, "gocache"))
    return e


def go_bin():
    for c in ("go1.26", "go"):
        p = shutil.which(c)
        if p:
            return p
    raise MachineryError("no go toolchain")


_HARNESS_LOCK, _HARNESS_DIR = threading.Lock(), []


def prepare_harness():
    """go.mod of the harness points at REPO (VERIF_REPO override for self-tests); go.sum is copied from it. Once per process
    (parts of a check run on threads and all of them build drivers)."""
    with _HARNESS_LOCK:
        if _HARNESS_DIR:
            return _HARNESS_DIR[0]
        os.makedirs(BIN, exist_ok=True)
        if REPO == "/repo":
            moddir = HARNESS
        else:  # private copy of the harness module that points at the alternative repository
            tag = hashlib.sha1(REPO.encode()).hexdigest()[:10]
            moddir = os.path.join(WORK, "harness-" + tag)
            if os.path.exists(moddir):
                shutil.rmtree(moddir)
            shutil.copytree(HARNESS, moddir)
            gm = open(os.path.join(moddir, "go.mod")).read().replace("=> /repo", "=> " + REPO)
            open(os.path.join(moddir, "go.mod"), "w").write(gm)
        shutil.copy(os.path.join(REPO, "go.sum"), os.path.join(moddir, "go.sum"))
        _HARNESS_DIR.append(moddir)
        return moddir


_BUILD_GUARD, _BUILD_LOCKS, _BUILT = threading.Lock(), {}, set()


def build(pkg, name=None, tags="purego,verif", testmode=False, race=False):
    """Build harness package ./cmd/<pkg> (or, testmode, `go test -c ./<pkg>`) against REPO's working tree."""
    moddir = prepare_harness()
    name = name or pkg.replace("/", "_")
    suffix = ("" if REPO == "/repo" else "-" + hashlib.sha1(REPO.encode()).hexdigest()[:6])
    out = os.path.join(BIN, name + (".test" if testmode else "") + ("-race" if race else "") + suffix)
    if testmode:
        cmd = [go_bin(), "test", "-c", "-tags", tags, "-o", out, "./" + pkg]
    else:
        cmd = [go_bin(), "build", "-tags", tags, "-o", out, "./cmd/" + pkg]
    env = goenv()
    if race:
        cmd.insert(2, "-race")
        env["CGO_ENABLED"] = "1"
    # one build per binary and process: parts of a check that run on threads (prod_common.background) ask for the same driver
    with _BUILD_GUARD:
        lock = _BUILD_LOCKS.setdefault(out, threading.Lock())
    with lock:
        if out in _BUILT:
            return out
        t = time.time()
        r = subprocess.run(cmd, cwd=moddir, env=env, capture_output=True, text=True)
        if r.returncode != 0:
            raise MachineryError("go build failed: %s\n%s" % (" ".join(cmd), r.stderr[-4000:]))
        log("[build] %s in %.1fs" % (os.path.basename(out), time.time() - t))
        _BUILT.add(out)
    return out


def run_driver(binary, args, timeout=3600, testmode=False, env_extra=None, ok_codes=(0,)):
    cmd = [binary] + (["-test.run", "^$", "--"] if False else []) + list(args)
    if testmode:
        cmd = [binary, "-test.timeout", "0", "--"] + list(args)
    env = dict(os.environ)
    if env_extra:
        env.update(env_extra)
    t = time.time()
    try:
        r = subprocess.run(cmd, capture_output=True, text=True, timeout=timeout, env=env)
    except subprocess.TimeoutExpired:
        raise MachineryError("driver timeout: %s" % " ".join(cmd))
    if r.returncode not in ok_codes:
        raise MachineryError("driver failed (%d): %s\n%s\n%s" % (r.returncode, " ".join(cmd), r.stdout[-2000:], r.stderr[-4000:]))
    log("[drv] %s %s : %.1fs" % (os.path.basename(binary), " ".join(args)[:140], time.time() - t))
    return r


def scratch(prop, name):
    d = os.path.join(WORK, "run", prop, name)
    if os.path.exists(d):
        shutil.rmtree(d)
    os.makedirs(d)
    return d


class TLCResult:
    def __init__(self):
        self.generated = 0
        self.distinct = 0
        self.depth = 0
        self.violation = None      # name of violated invariant / property / "deadlock" / "assert"
        self.cex = []              # list of state dicts (var -> text) of the counterexample
        self.error = None          # machinery-level error text
        self.out = ""
        self.wall = 0.0
        self.coverage_zero = []

    def __repr__(self):
        return "TLC(gen=%d distinct=%d depth=%d viol=%s err=%s %.1fs)" % (
            self.generated, self.distinct, self.depth, self.violation, (self.error or "")[:80], self.wall)


def tlc(specdir, module, cfg, extra_files=(), workers=None, timeout=1800, simulate=None, depth=None,
        seed=None, java_opts=(), dfs=False, coverage=False, deadlock=False, rundir=None, defines=None,
        heap="8g", tool_args=()):
    """Run TLC on a scratch copy of specdir. Returns TLCResult. extra_files: paths copied next to the spec."""
    rundir = rundir or scratch("_tlc", module + "-" + os.path.basename(cfg).replace(".cfg", ""))
    for f in os.listdir(specdir):
        if f.endswith((".tla", ".cfg")):
            shutil.copy(os.path.join(specdir, f), rundir)
    common = os.path.join(SPECS, "common")
    if os.path.isdir(common):
        for f in os.listdir(common):
            if f.endswith(".tla") and not os.path.exists(os.path.join(rundir, f)):
                shutil.copy(os.path.join(common, f), rundir)
    for f in extra_files:
        shutil.copy(f, rundir)
    meta = os.path.join(rundir, "meta")
    cmd = ["java", "-XX:+UseParallelGC", "-XX:ParallelGCThreads=%d" % (2 if workers == 1 else 4), "-Xmx" + heap, "-Xss256m"]
    if dfs:
        cmd.append("-Dtlc2.tool.queue.IStateQueue=StateDeque")
    cmd += list(java_opts)
    cmd += ["-cp", TLA_CP, "tlc2.TLC", "-metadir", meta, "-config", os.path.basename(cfg),
            "-workers", str(workers or "auto")]
    if not deadlock:
        cmd.append("-deadlock")  # -deadlock = do NOT check deadlock
    if simulate:
        cmd += ["-simulate", simulate]
    if depth:
        cmd += ["-depth", str(depth)]
    if seed is not None:
        cmd += ["-seed", str(seed)]
    if coverage:
        cmd += ["-coverage", "1"]
    cmd += list(tool_args)
    cmd.append(module)
    env = dict(os.environ)
    if defines:
        env.update({k: str(v) for k, v in defines.items()})
    res = TLCResult()
    t = time.time()
    try:
        p = subprocess.run(["timeout", str(timeout)] + cmd, cwd=rundir, capture_output=True, text=True, env=env)
    except Exception as ex:  # pragma: no cover
        res.error = "cannot run TLC: %r" % ex
        return res
    res.wall = time.time() - t
    out = p.stdout + p.stderr
    res.out = out
    open(os.path.join(rundir, "tlc.out"), "w").write(out)
    m = re.findall(r"(\d+) states generated, (\d+) distinct states found", out)
    if m:
        res.generated, res.distinct = int(m[-1][0]), int(m[-1][1])
    m = re.findall(r"depth of the complete state graph search is (\d+)", out)
    if m:
        res.depth = int(m[-1])
    mv = re.search(r"Error: Invariant (\S+) is violated", out)
    if mv:
        res.violation = mv.group(1)
    elif re.search(r"Error: Action property (\S+) is violated", out):
        res.violation = re.search(r"Error: Action property (\S+) is violated", out).group(1)
    elif "Temporal properties were violated" in out:
        res.violation = "temporal"
    elif "Error: Deadlock reached" in out:
        res.violation = "deadlock"
    elif re.search(r"Error: The postcondition|Error: Evaluating postcondition|POSTCONDITION.*(violated|false)", out, re.I):
        res.violation = "postcondition"
    elif "The first argument of Assert evaluated to FALSE" in out:
        res.violation = "assert"
    if res.violation:
        res.cex = parse_states(out)
    elif p.returncode == 124:
        res.error = "TLC timeout after %ds" % timeout
    elif p.returncode != 0 or "Error:" in out:
        # anything else (parse errors, evaluation errors, OOM) is a machinery failure
        em = re.search(r"Error:.*", out, re.S)
        res.error = "TLC exit %d: %s" % (p.returncode, (em.group(0) if em else out)[-3000:])
    elif "Model checking completed. No error has been found" not in out and not simulate:
        res.error = "TLC did not complete: " + out[-1500:]
    return res


def parse_states(out):
    states = []
    cur = None
    for line in out.splitlines():
        m = re.match(r"^State (\d+):", line)
        if m:
            cur = {}
            states.append(cur)
            continue
        if cur is None:
            continue
        m = re.match(r"^(/\\ )?(\w+) = (.*)$", line)
        if m:
            cur[m.group(2)] = m.group(3)
            last = m.group(2)
        elif line.strip() == "" or line.startswith("Finished") or re.match(r"^\d+ states", line):
            pass
        elif cur and line.startswith(" ") or line.startswith("\t"):
            if cur:
                k = list(cur.keys())[-1]
                cur[k] += " " + line.strip()
    return states


def need(res, what):
    """Raise MachineryError unless the TLC run finished cleanly or with a property violation."""
    if res.error:
        raise MachineryError("%s: %s" % (what, res.error))
    return res


def read_ndjson(path):
    with open(path) as f:
        return [json.loads(x) for x in f if x.strip()]


def write_ndjson(path, rows):
    with open(path, "w") as f:
        for r in rows:
            f.write(json.dumps(r, separators=(",", ":"), sort_keys=True) + "\n")


# ---------------------------------------------------------------- known findings

def load_known(prop):
    """known_findings.txt lines:  finding: property=<id> key=<key> <text>   |   fixed: property=<id> <commit> <text>"""
    out = {}
    if not os.path.exists(KNOWN) or os.environ.get("VERIF_NO_KNOWN"):      # development aid: show the listed findings as violations again
        return out
    for line in open(KNOWN):
        line = line.strip()
        m = re.match(r"^finding:\s+property=(\S+)\s+key=(\S+)\s+(.*)$", line)
        if m and m.group(1) == prop:
            out[m.group(2)] = m.group(3)
    return out


# ---------------------------------------------------------------- check context

class Check:
    def __init__(self, prop, tier, seed):
        self.prop, self.tier, self.seed = prop, tier, seed
        self.t0 = time.time()
        self.cov = {"states": 0, "transitions": 0, "traces_validated_against_impl": 0, "samples": [],
                    "evaluations": 0, "distinct_nontrivial": 0, "rule": "", "exhaustive": False,
                    "parts": {}}
        self.assumptions = []
        self.violations = []       # (key, text, replay)
        self.known_hits = {}
        self.known = load_known(prop)
        os.makedirs(os.path.join(REPLAYS, prop), exist_ok=True)

    @property
    def quick(self):
        return self.tier == "quick"

    def add_mc(self, name, res):
        need(res, name)
        self.cov["states"] += res.distinct
        self.cov["transitions"] += res.generated
        self.cov["parts"][name] = {"distinct": res.distinct, "generated": res.generated, "depth": res.depth,
                                   "wall_s": round(res.wall, 1)}
        log("[tlc] %s: %r" % (name, res))

    def sample(self, s, cap=6):
        if len(self.cov["samples"]) < cap:
            self.cov["samples"].append(s)

    def replay_path(self, name):
        return os.path.join(REPLAYS, self.prop, name)

    def violation(self, key, text, replay_obj):
        """Report a violation unless `key` is a listed known finding."""
        if key in self.known:
            if key not in self.known_hits:
                self.known_hits[key] = self.known[key]
            return
        for v in self.violations:      # one report per distinct key
            if v[0] == key:
                self.dup_violations = getattr(self, "dup_violations", 0) + 1
                return
        path = self.replay_path("violation-%d.json" % (len(self.violations) + 1))
        with open(path, "w") as f:
            json.dump({"property": self.prop, "key": key, "what": text, "case": replay_obj}, f, indent=1, default=str)
        self.violations.append((key, text, path))

    def finish(self, level="model_checking"):
        wall = time.time() - self.t0
        for k, v in self.known_hits.items():
            log("KNOWN-FINDING: property=%s %s (%s)" % (self.prop, v, k))
        if not self.cov["samples"]:
            self.cov["samples"].append("no sample recorded")
        ev = {"property_id": self.prop, "tier": self.tier, "seed": self.seed, "level": level,
              "coverage": self.cov, "assumptions": self.assumptions, "wall_s": round(wall, 1),
              "violations": len(self.violations)}
        os.makedirs(EVID, exist_ok=True)
        with open(os.path.join(EVID, self.prop + ".json"), "w") as f:
            json.dump(ev, f, indent=1, default=str)
        for key, text, path in self.violations[:20]:
            log("VIOLATION property=%s replay=%s  # %s: %s" % (self.prop, path, key, text[:300]))
        log("[done] %s tier=%s seed=%d states=%d transitions=%d traces=%d evaluations=%d violations=%d %.1fs" % (
            self.prop, self.tier, self.seed, self.cov["states"], self.cov["transitions"],
            self.cov["traces_validated_against_impl"], self.cov["evaluations"], len(self.violations), wall))
        return 1 if self.violations else 0


def validate_trace(chk, name, specdir, module, cfg, tracefile, events=None, timeout=1800, dfs=False, extra=(),
                   key_of=None, heap="3g"):
    """Function-shaped trace validation: the trace spec walks `l` over the lines of trace.ndjson and
    the invariant(s) of cfg must hold for every line. On an invariant violation the failing line is
    Trace[l] of the last counterexample state; the run is repeated with that line removed so that
    the rest of the trace is still examined (bounded number of rounds).  Returns number of lines validated."""
    rows = events if events is not None else read_ndjson(tracefile)
    total = len(rows)
    rounds = 0
    bad = 0
    while True:
        rounds += 1
        rd = scratch(chk.prop, name)
        tf = os.path.join(rd, "trace.ndjson")
        write_ndjson(tf, rows)
        res = tlc(specdir, module, cfg, workers=1, timeout=timeout, dfs=dfs, rundir=rd, extra_files=extra, heap=heap)
        if res.error:
            raise MachineryError("%s: %s" % (name, res.error))
        if not res.violation:
            if res.distinct < len(rows) + 1:
                raise MachineryError("%s: trace spec consumed %d of %d lines without reporting why:\n%s" % (
                    name, res.distinct - 1, len(rows), res.out[-1500:]))
            chk.cov["states"] += res.distinct
            chk.cov["transitions"] += res.generated
            chk.cov["parts"][name] = {"lines": total, "rejected_lines": bad, "distinct": res.distinct,
                                      "wall_s": round(res.wall, 1)}
            log("[trace] %s: %d lines validated, %d rejected (%.1fs, %d rounds)" % (name, total, bad, res.wall, rounds))
            return total
        # locate the failing line
        l = None
        if res.cex:
            mm = re.match(r"^(\d+)", res.cex[-1].get("l", ""))
            if mm:
                l = int(mm.group(1))
        if l is None or l < 1 or l > len(rows):
            raise MachineryError("%s: violation of %s but cannot locate the line:\n%s" % (name, res.violation, res.out[-2000:]))
        row = rows[l - 1]
        key = key_of(row) if key_of else "%s:%s" % (row.get("a", "?"), row.get("k", ""))
        chk.violation(key, "trace line rejected by %s (%s): %s" % (module, res.violation, json.dumps(row)[:600]), row)
        bad += 1
        del rows[l - 1]
        if bad >= 25 or rounds > 30:
            log("[trace] %s: stopping after %d rejected lines" % (name, bad))
            return total


def main_wrapper(fn):
    try:
        rc = fn()
    except MachineryError as ex:
        log("MACHINERY-ERROR: %s" % ex)
        sys.exit(2)
    sys.exit(rc)


# ---------------------------------------------------------------- parallel helpers

def parallel(tasks, max_workers=None):
    """tasks: list of (name, fn). Runs them on threads (they spawn subprocesses); returns {name: result}.
    The first MachineryError is re-raised after all finished."""
    from concurrent.futures import ThreadPoolExecutor
    out, errs = {}, []
    with ThreadPoolExecutor(max_workers=max_workers or min(len(tasks), NCPU)) as ex:
        futs = {name: ex.submit(fn) for name, fn in tasks}
        for name, f in futs.items():
            try:
                out[name] = f.result()
            except MachineryError as e:
                errs.append(e)
    if errs:
        raise errs[0]
    return out


def validate_chunks(chk, name, specdir, module, cfg, rows, header=None, chunk=20000, timeout=1800, key_of=None,
                    max_workers=None, extra=()):
    """Split a function-shaped trace into chunks (each prefixed with `header`) and validate them concurrently."""
    chunks = [rows[i:i + chunk] for i in range(0, len(rows), chunk)] or [[]]
    def mk(i, part):
        def fn():
            ev = ([header] if header is not None else []) + part
            return validate_trace(chk, "%s-%d" % (name, i), specdir, module, cfg, None, events=ev, timeout=timeout,
                                  key_of=key_of, extra=extra)
        return fn
    res = parallel([("%s-%d" % (name, i), mk(i, p)) for i, p in enumerate(chunks)], max_workers=max_workers or NCPU)
    return sum(res.values()) - (len(chunks) if header is not None else 0)


# ---------------------------------------------------------------- stateful traces made of histories

def validate_histories(chk, name, specdir, module, cfg, header, histories, key_of=None, timeout=1800, heap="4g",
                       max_rejects=3, extra=()):
    """Stateful trace validation. `histories` is a list of lists of rows; each history starts with a line the
    trace spec treats as a reset. The trace spec has variable `l` (next line to consume, 1-based) and consumes a
    line per step. A history is rejected when an invariant fails right after one of its lines, or when no action
    of the spec explains one of its lines (search depth stops there). Rejected histories are reported as
    violations (key_of(history, row, why)), removed, and validation continues. Returns #histories accepted."""
    hs = list(histories)
    rejected = 0
    rounds = 0
    while True:
        rounds += 1
        rows = [header]
        owner = [None]
        for hi, h in enumerate(hs):
            for r in h:
                rows.append(r)
                owner.append(hi)
        rd = scratch(chk.prop, name)
        write_ndjson(os.path.join(rd, "trace.ndjson"), rows)
        res = tlc(specdir, module, cfg, workers=1, timeout=timeout, rundir=rd, heap=heap, extra_files=extra)
        if res.error:
            raise MachineryError("%s: %s" % (name, res.error))
        line = None
        why = None
        if res.violation:
            mm = re.match(r"^(\d+)", (res.cex[-1].get("l", "") if res.cex else ""))
            if not mm:
                raise MachineryError("%s: violation of %s without l:\n%s" % (name, res.violation, res.out[-2000:]))
            line = int(mm.group(1)) - 1          # the state after consuming line l-1 violates
            why = "invariant %s violated after this line" % res.violation
        elif res.depth < len(rows) + 1:
            line = res.depth                     # Trace[depth] has no explaining action
            why = "no action of the specification explains this line"
        if line is None:
            chk.cov["states"] += res.distinct
            chk.cov["transitions"] += res.generated
            chk.cov["parts"][name] = {"lines": len(rows), "histories": len(hs), "rejected_histories": rejected,
                                      "distinct": res.distinct, "wall_s": round(res.wall, 1)}
            log("[trace] %s: %d histories / %d lines accepted, %d rejected (%.1fs, %d rounds)" % (
                name, len(hs), len(rows), rejected, res.wall, rounds))
            return len(hs)
        if line < 1 or line >= len(rows) + 1 or owner[min(line, len(rows)) - 1 if line == len(rows) else line] is None and line != 0:
            pass
        idx = min(max(line, 1), len(rows)) - 1
        hi = owner[idx]
        if hi is None:
            raise MachineryError("%s: the header line was rejected (%s):\n%s" % (name, why, res.out[-1500:]))
        row = rows[idx]
        hist = hs[hi]
        key = key_of(hist, row, why) if key_of else "%s" % row.get("a", "?")
        chk.violation(key, "%s: %s: %s" % (module, why, json.dumps(row)[:500]), {"failing_line": row, "why": why, "history": hist})
        rejected += 1
        del hs[hi]
        if rejected >= max_rejects:
            log("[trace] %s: stopping after %d rejected histories" % (name, rejected))
            return len(hs)


def split_histories(rows, is_reset):
    hs = []
    for r in rows:
        if is_reset(r) or not hs:
            hs.append([])
        hs[-1].append(r)
    return hs

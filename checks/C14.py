"""C14 Curve, field and pairing arithmetic equal the mathematical operations (device W).

G: GroupProg (TLC) explores register programmes over an abstract cyclic group whose elements are their discrete
   logarithms (small integers, never reduced; order-1 = -1 and order = 0 as explicit scalar constants), checks the
   window / algebraic-law invariants on every reachable register file and prints every transition (programme step
   with its predicted result) as JSON; a second family generates pairing programmes e([a]G1,[b]G2) = e(G1,G2)^(ab).
R: harness/cmd/groupprog replays every generated step on every public curve type (k256, p256, edwards25519 and its
   prime subgroup, curve25519 and its prime subgroup, pallas, vesta, BLS12-381 G1, G2, GT), projects each real
   register to its integer through a reference table [k]G (|k| <= 4096) built by addition chains and cross-checked
   against independent math/big models / crypto/elliptic / double-and-add / ScalarMul / ScalarBaseMul; also the
   pairing programmes (both API sides) and small-window scalar/base field operations.
V: GroupProgTrace (TLC) re-decides every replayed step: exact equality of every register after every step."""
import os, json
import vlib

SPEC = os.path.join(vlib.SPECS, "GroupProg")
KS = [5, 7, 11, 13]


def cfg_text(K, menus, inits, family, trace=False):
    if trace:
        return ("CONSTANTS\n  K = %d\n  W = 4096\n  Menus <- MenusF\n  Inits = \"full\"\n  Family = \"trace\"\n"
                "INIT TInit\nNEXT TNext\nINVARIANT CaseOK\nCHECK_DEADLOCK FALSE\n" % K)
    return ("CONSTANTS\n  K = %d\n  W = 4096\n  Menus <- %s\n  Inits = \"%s\"\n  Family = \"%s\"\n"
            "INIT Init\nNEXT Next\nINVARIANTS InWindow Laws LongLaw\nCHECK_DEADLOCK FALSE\n" % (K, menus, inits, family))


def key_of(row):
    a = row.get("a")
    if a == "edge":
        if row.get("what") == "msm_empty":
            return "msm-empty:Curve.MultiScalarMul"
        if row.get("what") == "msmu_empty":
            return "msm-empty:algebrautils.MultiScalarMul"
        return "edge:%s:%s" % (row.get("what"), row.get("curve"))
    if a == "table":
        return "table:%s" % row.get("curve")
    if a in ("step", "pred") and isinstance(row.get("args"), list) and len(row["args"]) > 12:
        return "%s:%s:long:n=%d:pre=%s" % (a, row.get("op"), len(row["args"]), row.get("pre"))
    if a in ("step", "pred"):
        return "%s:%s:%s:pre=%s" % (a, row.get("op"), json.dumps(row.get("args"), separators=(",", ":")), row.get("pre"))
    if a in ("pstep", "pgt", "ppred"):
        return "%s:%s:%s:g1=%s:g2=%s:gt=%s" % (a, row.get("op"), json.dumps(row.get("args"), separators=(",", ":")), row.get("g1"), row.get("g2"), row.get("gt"))
    if a in ("fop", "ftable"):
        return "%s:%s:%s:x=%s:y=%s" % (a, row.get("field"), row.get("op"), row.get("x"), row.get("y"))
    return "%s" % a


def run(chk):
    binary = vlib.build("groupprog")
    quick = chk.quick
    K = KS[chk.seed % len(KS)]
    rd = vlib.scratch(chk.prop, "cfg")
    tcfg = os.path.join(rd, "GroupProgTrace_k.cfg")
    open(tcfg, "w").write(cfg_text(K, None, None, None, trace=True))
    if quick:
        gens = [("quick", "MenusFS", "small", "group", "bls-g2=8"), ("pair", "MenusFS", "full", "pair", ""), ("long", "MenusF", "small", "long", "bls-g2=3")]
    else:
        gens = [("fs-full", "MenusFS", "full", "group", "bls-g2=4"), ("ff-small", "MenusFF", "small", "group", "bls-g2=4"),
                ("fss-small", "MenusFSS", "small", "group", "bls-g2=8"), ("pair", "MenusFS", "full", "pair", ""), ("long", "MenusF", "small", "long", "")]
    stats = {"lines": 0, "by_action": {}, "generated": {}, "replayed_per_curve": {}, "jobs": 0}

    def validate(tag, hdr, rows, chunk=30000):
        n = vlib.validate_chunks(chk, "trace-" + tag, SPEC, "GroupProgTrace", "GroupProgTrace_k.cfg", rows, header=hdr, chunk=chunk,
                                 key_of=key_of, max_workers=4, timeout=3000, extra=(tcfg,))
        stats["lines"] += n
        return n

    def pipeline(tag, menus, inits, family, stride):
        def fn():
            # (G) generate
            cfg = os.path.join(rd, "GroupProgMC_%s.cfg" % tag)
            open(cfg, "w").write(cfg_text(K, menus, inits, family))
            r = vlib.tlc(SPEC, "GroupProg", os.path.basename(cfg), workers=4, timeout=3000, extra_files=(cfg,), rundir=vlib.scratch(chk.prop, "gen-" + tag))
            if r.error or r.violation:
                return r, 0
            d = vlib.scratch(chk.prop, "drv-" + tag)
            prog = os.path.join(d, "prog.ndjson")
            n = 0
            with open(prog, "w") as f:
                for line in r.out.splitlines():
                    if line.startswith('"{'):
                        f.write(json.loads(line) + "\n")
                        n += 1
            r.out = ""
            if n == 0:
                raise vlib.MachineryError("%s: TLC printed no programme step" % tag)
            stats["generated"][tag] = n
            # (R) replay
            out = os.path.join(d, "trace.ndjson")
            args = ["-mode", "pair" if family == "pair" else "prog", "-in", prog, "-out", out, "-k", str(K), "-seed", str(chk.seed),
                    "-offset", str(chk.seed)]
            if stride:
                args += ["-stride", stride]
            vlib.run_driver(binary, args, timeout=3000)
            rows = vlib.read_ndjson(out)
            hdr, rows = rows[0], rows[1:]
            steps = [x for x in rows if x["a"] in ("step", "pred", "pstep", "pgt", "ppred")]
            meta = [x for x in rows if x["a"] not in ("step", "pred", "pstep", "pgt", "ppred")]
            if len(steps) != n:
                raise vlib.MachineryError("%s: %d programme steps generated but %d replayed" % (tag, n, len(steps)))
            for x in rows:
                stats["by_action"][x["a"]] = stats["by_action"].get(x["a"], 0) + 1
            if family != "pair":
                names = [c["name"] for c in hdr["curves"]]
                done = [0] * len(names)
                for x in steps:
                    for i, rr in enumerate(x["real"]):
                        if rr:
                            done[i] += 1
                stats["replayed_per_curve"][tag] = dict(zip(names, done))
            for x in steps[:1] + steps[len(steps) // 2: len(steps) // 2 + 1]:
                chk.sample({"job": tag, "event": x}, cap=8)
            stats["jobs"] += 1
            # (V) validate: tables / edge cases on their own (few lines), programme steps in chunks
            validate(tag + "-meta", hdr, meta)
            validate(tag, hdr, steps)
            return r, n
        return fn

    def fields():
        d = vlib.scratch(chk.prop, "drv-field")
        out = os.path.join(d, "trace.ndjson")
        vlib.run_driver(binary, ["-mode", "field", "-out", out, "-k", str(K)], timeout=3000)
        rows = vlib.read_ndjson(out)
        for x in rows[1:]:
            stats["by_action"][x["a"]] = stats["by_action"].get(x["a"], 0) + 1
        chk.sample({"job": "field", "event": rows[len(rows) // 2]}, cap=8)
        stats["jobs"] += 1
        return validate("field", rows[0], rows[1:])

    tasks = [("gen:" + g[0], pipeline(*g)) for g in gens] + [("field", fields)]
    only = os.environ.get("VERIF_ONLY")     # development aid: run only the named pipelines
    if only:
        gens = [g for g in gens if g[0] in only.split(",")]
        tasks = [t for t in tasks if t[0].split(":")[-1] in only.split(",")]
    res = vlib.parallel(tasks, max_workers=5)
    for g in gens:
        r, n = res["gen:" + g[0]]
        chk.add_mc("GroupProg/" + g[0], r)
        if r.violation:
            raise vlib.MachineryError("the specification itself is inconsistent (%s violates %s): %s" % (g[0], r.violation, r.cex[-1:]))
    chk.cov["traces_validated_against_impl"] = stats["jobs"]
    chk.cov["evaluations"] = stats["lines"]
    chk.cov["distinct_nontrivial"] = stats["lines"]
    chk.cov["by_action"] = stats["by_action"]
    chk.cov["programme_steps_generated"] = stats["generated"]
    chk.cov["steps_replayed_per_curve"] = stats["replayed_per_curve"]
    chk.cov["K"] = K
    chk.cov["rule"] = ("one trace line = one TLC-generated programme step replayed on all 11 group types (exact equality of all three registers on each), "
                       "or one pairing step evaluated through both API sides, or one field operation; programmes: every initial register file over "
                       "{0,1,-1,2,(-2),K}^3, every operation of the menu (Add, Sub, Double, Neg, ScalarMul x 10 scalar constants incl. 0, order, order-1, "
                       "ScalarBaseMul, MultiScalarMul / algebrautils.MultiScalarMul of lengths 1,2,3,8,9, Equal, IsOpIdentity) at the first step, a "
                       "reduced menu at the later steps; states merged by (values, producing operation)")
    chk.cov["exhaustive"] = True
    chk.assumptions += [
        "device W: the statement is decided for operands [v]G with |v| <= 4096 and the scalar constants {0, 1, 2, 3, K, order-1, order-2, order, order+2}; "
        "'every pair/triple of points' and 'every scalar' of the property are NOT decided beyond that window",
        "base-field arithmetic is reached through point operations and through the small-window field operations only; 'all field elements' is not decided",
        "programmes are complete for <= 2 operations up to the stated menu (thorough: <= 3 with a reduced menu for the later steps), not 'all programmes of <= 4 "
        "operations': a full-length scalar multiplication per step on 11 curve types bounds the count; register files are merged by value and producing operation",
        "trusted base: TLC; the reference tables (addition chains of the library's own Add from the generator) are cross-checked against independent math/big "
        "affine arithmetic for secp256k1, P-256 (also crypto/elliptic), Pallas, Vesta, BLS12-381 G1 and edwards25519; for curve25519, BLS12-381 G2 and GT there "
        "is no second model in the sandbox: Add-chain, Sub-chain, Double-and-add, ScalarMul and ScalarBaseMul are only cross-checked against each other; "
        "projection uses the library's own encoders (ToCompressed / ToUncompressed / Bytes)",
        "BLS12-381 G2 replays a declared fraction of the initial register files (stride), GT has no scalar multiplication in its API",
        "the pairing engine refuses identity arguments with an error instead of returning 1; the specification models that refusal (PairOK)",
        "cgo/BoringSSL variants are out of reach (purego build)",
    ]
    return chk.finish()


def replay(chk, path):
    case = json.load(open(path))["case"]
    print(json.dumps(case))
    return 0

"""C06 Refresh, recovery and redistribution never change the key.

G: KeyLifecycleMC (TLC): every history of <= MaxOps operations over small threshold/unanimity structures on Z_5,
   every qualified driving set; invariants PkConstant, SharesVerify, ZeroSharingsAreZero, BlindedSumIsSecret,
   QualifiedReconstruct.
R: harness/cmd/lifecycle: seeded histories {deal, refresh, recover, redistribute (with/without anchor), unqualified
   driver, reconstruct from every subset, mixed-epoch reconstruction} on the real code (toy group; real session setup,
   HJKY and redistribute participants over CBOR bytes).
V: KeyLifecycleTrace (TLC): each logged round = the spec action with all parameters bound; the resulting epoch must
   equal the shards the parties output; invariants at every step."""
import os, json
import vlib

SPEC = os.path.join(vlib.SPECS, "Lifecycle")


def key_of(hist, row, why):
    a = row.get("a", "?")
    kind = ""
    for r in hist:
        if r.get("a") == "redistR1":
            kind = r.get("kind", "")
    return "%s:%s" % (a, kind)


def run(chk):
    binary = vlib.build("lifecycle")
    if chk.quick:
        jobs = [("q251", ["-q", "251", "-n", "150", "-ops", "4", "-parties", "4"]),
                ("q45971", ["-q", "45971", "-n", "100", "-ops", "4", "-parties", "4"]),
                ("q11", ["-q", "11", "-n", "100", "-ops", "3", "-parties", "3"])]
        mcs = [("KeyLifecycleMC_quick.cfg", 4)]
    else:
        jobs = [("q251-%d" % i, ["-q", "251", "-n", "400", "-ops", "6", "-parties", "5"]) for i in range(4)] + \
               [("q45971-%d" % i, ["-q", "45971", "-n", "400", "-ops", "6", "-parties", "5"]) for i in range(4)] + \
               [("q11-%d" % i, ["-q", "11", "-n", "400", "-ops", "5", "-parties", "4"]) for i in range(2)] + \
               [("q7", ["-q", "7", "-n", "300", "-ops", "5", "-parties", "3"])]
        mcs = [("KeyLifecycleMC_quick.cfg", 4), ("KeyLifecycleMC_ops3.cfg", 6), ("KeyLifecycleMC_rand.cfg", 6)]

    tasks = []
    for cfg, wk in mcs:
        tasks.append(("mc:" + cfg, (lambda cfg=cfg, wk=wk: vlib.tlc(SPEC, "KeyLifecycleMC", cfg, workers=wk, timeout=3000))))
    stats = {"hist": 0, "lines": 0, "by_action": {}, "kinds": {}}

    def rv(tag, args, sub):
        def fn():
            rd = vlib.scratch(chk.prop, "drv-" + tag)
            out = os.path.join(rd, "trace.ndjson")
            vlib.run_driver(binary, args + ["-out", out, "-seed", str(chk.seed * 1000 + sub)])
            rows = vlib.read_ndjson(out)
            hdr, rows = rows[0], rows[1:]
            hs = vlib.split_histories(rows, lambda r: r.get("a") == "reset")
            for r in rows:
                stats["by_action"][r["a"]] = stats["by_action"].get(r["a"], 0) + 1
                if r["a"] == "redistR1":
                    stats["kinds"][r["kind"]] = stats["kinds"].get(r["kind"], 0) + 1
            if hs:
                chk.sample({"job": tag, "history": [dict((k, v) for k, v in r.items() if k not in ("certs",)) for r in hs[0][:6]]}, cap=3)
            n = vlib.validate_histories(chk, "trace-" + tag, SPEC, "KeyLifecycleTrace", "KeyLifecycleTrace.cfg", hdr, hs, key_of=key_of)
            stats["hist"] += n
            stats["lines"] += len(rows)
            return n
        return fn
    for i, (tag, args) in enumerate(jobs):
        tasks.append(("rv:" + tag, rv(tag, args, i)))
    res = vlib.parallel(tasks, max_workers=10)
    for cfg, _ in mcs:
        r = res["mc:" + cfg]
        chk.add_mc("KeyLifecycleMC/" + cfg, r)
        if r.violation:
            chk.violation("model:" + r.violation, "the design model itself violates %s (%s)" % (r.violation, cfg), {"cex": r.cex})
    chk.cov["traces_validated_against_impl"] = stats["hist"]
    chk.cov["evaluations"] = stats["lines"]
    chk.cov["distinct_nontrivial"] = stats["by_action"].get("redistR3", 0)
    chk.cov["by_action"] = stats["by_action"]
    chk.cov["redistribution_kinds"] = stats["kinds"]
    chk.cov["rule"] = ("a trace = one seeded history on the real code; counted non-trivial = completed redistributions (refresh / recover / "
                       "new structure, with and without anchor), each followed by reconstruction from every subset")
    chk.assumptions += ["toy group (order-q subgroup of Z_p^*) instantiates the generic protocol code; production curves run the same generic code",
                        "span certificates are computed by the harness but verified by TLC",
                        "signing with the post-epoch shards is covered by C01"]
    return chk.finish()


def replay(chk, path):
    case = json.load(open(path))["case"]
    rd = vlib.scratch(chk.prop, "replay")
    rows = [{"a": "hdr", "q": case.get("q", 251)}] + case["history"]
    print(json.dumps(case["failing_line"])[:2000])
    print(case["why"])
    return 0

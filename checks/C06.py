"""C06 Refresh, recovery and redistribution never change the key.

G: KeyLifecycleMC (TLC): every history of <= MaxOps operations over small threshold/unanimity structures on Z_5,
   every qualified driving set; invariants PkConstant, SharesVerify, ZeroSharingsAreZero, BlindedSumIsSecret,
   QualifiedReconstruct, SignAlgebra.
R: harness/cmd/lifecycle: seeded histories {deal | Gennaro | Canetti (rounds or runners), refresh, recover, redistribute
   (with/without anchor), unqualified driver, reconstruct from every subset, mixed-epoch reconstruction, threshold signing}
   on the real code (toy group; real session setup, HJKY, redistribute, DKG and Lindell22 participants over CBOR bytes).
V: KeyLifecycleTrace (TLC): each logged round = the spec action with all parameters bound; the resulting epoch must
   equal the shards the parties output; invariants at every step."""
import json
import lifecycle_common as lc


def run(chk):
    if chk.quick:
        jobs = [("q251", ["-q", "251", "-n", "120", "-ops", "4", "-parties", "4"]),
                ("q45971", ["-q", "45971", "-n", "100", "-ops", "4", "-parties", "4"]),
                ("q11", ["-q", "11", "-n", "80", "-ops", "3", "-parties", "3"])]
        mcs = [("KeyLifecycleMC_quick.cfg", 4)]
    else:
        jobs = [("q251-%d" % i, ["-q", "251", "-n", "300", "-ops", "6", "-parties", "5"]) for i in range(4)] + \
               [("q45971-%d" % i, ["-q", "45971", "-n", "300", "-ops", "6", "-parties", "5"]) for i in range(4)] + \
               [("q11-%d" % i, ["-q", "11", "-n", "300", "-ops", "5", "-parties", "4"]) for i in range(2)] + \
               [("q23", ["-q", "23", "-n", "300", "-ops", "5", "-parties", "3"])]
        mcs = [("KeyLifecycleMC_quick.cfg", 4), ("KeyLifecycleMC_ops3.cfg", 6), ("KeyLifecycleMC_rand.cfg", 6)]
    return lc.run(chk, jobs, mcs, ["redistR3"],
                  "a trace = one seeded history on the real code; counted non-trivial = completed redistributions (refresh / recover / new structure, "
                  "with and without anchor), each followed by reconstruction from every subset and signing with random quorums",
                  ["toy group (order-q subgroup of Z_p^*) instantiates the generic protocol code; production curves run the same generic code",
                   "span certificates are computed by the harness but verified by TLC",
                   "1/q events of the toy group (identity public key, identity effective partial key, zero aggregated response) are guards of the specification"])


def replay(chk, path):
    case = json.load(open(path))["case"]
    print(json.dumps(case.get("failing_line", case))[:3000])
    return 0

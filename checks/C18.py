"""C18 Commitments open only to what was committed.

G: CommitMC (TLC) checks the commitment algebra on every value of small fields (Pedersen exactly: the promised
   opening opens, (m2, w2) opens iff w2 is the Equivocate witness, every single-component change fails up to the
   exact 1/q guards, the ElGamal-based commitment opens to exactly one pair) and over all programmes of homomorphic
   steps, which it prints.
R: harness/cmd/commit runs the real pkg/commitments code: Pedersen and indcpacom-over-ElGamal in the toy group
   (every value a discrete log; exhaustive single-commitment cases and the printed programmes), hashcom / Pedersen /
   ElGamal-based commitments over secp256k1 with tokens, ring-Pedersen (intcom) over a toy safe-prime modulus, and
   commitment keys derived from hagrid transcripts.
V: CommitTrace (TLC) re-decides every line from CommitDefs (and the Transcript framing for derived keys)."""
import os, json, random
import vlib
import C19

SPEC = os.path.join(vlib.SPECS, "Commit")
ENC = os.path.join(vlib.SPECS, "Transcript", "TranscriptEnc.tla")


def parse_progs(out):
    progs = []
    for line in out.splitlines():
        if line.startswith('"{'):
            try:
                progs.append(json.loads(json.loads(line)))
            except ValueError:
                raise vlib.MachineryError("cannot parse exported programme: " + line[:200])
    return progs


def random_progs(rng, q, n, maxsteps=5):
    out = []
    for _ in range(n):
        steps = []
        for i in range(rng.randrange(1, maxsteps + 1)):
            last = 2 + i
            st = {"op": rng.choice(["op", "op", "opn", "inv", "scal", "rerand", "shift", "equiv"]), "i": rng.choice([last, rng.randrange(1, last + 1)]),
                  "j": rng.randrange(1, last + 1), "s": rng.choice([0, 1, q - 1, rng.randrange(q)])}
            if st["op"] == "opn":       # one variadic call with three to five operands
                st["js"] = [rng.randrange(1, last + 1) for _ in range(rng.randrange(2, 5))]
            steps.append(st)
        out.append({"lam": rng.randrange(2, q), "base": [[rng.randrange(q), rng.randrange(q)], [rng.choice([0, rng.randrange(q)]), rng.randrange(q)]], "steps": steps})
    return out


def key_cases(rng, n_random):
    A = C19.A
    cs = []
    def kc(tag, prog, label=(0x6b,), name="T"):
        cs.append({"k": tag, "name": name, "prog": prog, "label": list(label)})
    kc("empty", [])
    kc("empty-again", [])                       # equal history: equal key
    kc("empty-label2", [], label=(0x6b, 0x32))
    kc("empty-nolabel", [], label=())
    kc("empty-name", [], name="U")
    kc("ds1", [A("ds", [1])])
    kc("ds1-again", [A("ds", [1])])
    kc("ds1-ds", [A("ds", [1]), A("ds", [])])
    kc("ab-split-a", [A("ab", [1, 2], [[3]])])
    kc("ab-split-b", [A("ab", [1], [[2, 3]])])
    kc("ab-msgs-a", [A("ab", [9], [[1, 2], [3]])])
    kc("ab-msgs-b", [A("ab", [9], [[1], [2, 3]])])
    kc("ab-msgs-c", [A("ab", [9], [[1]]), A("ab", [9], [[2, 3]])])
    kc("ex-before", [A("ex", [9], n=32)])
    kc("ex-before-other", [A("ex", [9], n=16)])
    kc("ex-same-label-as-key", [A("ex", [0x6b], n=32)])
    for i in range(n_random):
        prog = []
        for _ in range(rng.randrange(0, 4)):
            c = rng.random()
            s = lambda mx: [rng.choice([0, 1, 0xa1, 0xa3, 0xa5, rng.randrange(256)]) for _ in range(rng.randrange(mx + 1))]
            if c < 0.3:
                prog.append(A("ds", s(3)))
            elif c < 0.8:
                prog.append(A("ab", s(3), [s(4) for _ in range(rng.randrange(3))]))
            else:
                prog.append(A("ex", s(2), n=rng.choice([16, 32])))
        kc("r%d" % i, prog, label=[rng.choice([0x6b, 0x6c])] + ([rng.randrange(256)] if rng.random() < 0.3 else []), name=rng.choice(["T", "T", "U"]))
        if rng.random() < 0.3:
            kc("r%d-again" % i, prog, label=cs[-1]["label"], name=cs[-1]["name"])
    return cs


def run(chk):
    binary = vlib.build("commit")
    rng = random.Random(chk.seed)
    quick = chk.quick
    if quick:
        mcs = [("q11", False), ("q3p", True)]
        toy_jobs = [("toy-q11", ["-q", "11", "-what", "ped,keys,elg", "-lams", "2,10"]),
                    ("toy-q5", ["-q", "5", "-what", "ped,keys,elg"])]
        rand_jobs = [(251, 150), (45971, 40)]
        tok_n, key_n, int_args = 12, 40, [("int-47x59", ["-q", "0", "-n", "60"])]
    else:
        # CommitMC_q5p3.cfg / CommitMC_q5all.cfg (0.7M / 45k states, no export) are kept for manual runs: too slow for a shared machine
        mcs = [("q11", False), ("q11s", False), ("q3p", True), ("q3p3", True), ("q5p", True), ("q7p", False)]
        toy_jobs = [("toy-q11", ["-q", "11", "-what", "ped,keys,elg"]),
                    ("toy-q3", ["-q", "3", "-what", "ped,keys,elg"]),
                    ("toy-q5", ["-q", "5", "-what", "ped,keys,elg"]),
                    ("toy-q23", ["-q", "23", "-what", "ped,keys,elg", "-lams", "2,22"])]   # q and 2q+1 must be prime
        rand_jobs = [(11, 3000), (251, 3000), (45971, 300)]
        tok_n, key_n, int_args = 150, 400, [("int-47x59", ["-q", "0", "-n", "600"]), ("int-83x107", ["-q", "1", "-n", "600"])]
    stats = {"lines": 0, "by_action": {}, "programmes_from_tlc": 0}

    def drive(tag, args, rows_in=None, chunk=4000):
        rd = vlib.scratch(chk.prop, "drv-" + tag)
        out = os.path.join(rd, "trace.ndjson")
        if rows_in is not None:
            inp = os.path.join(rd, "in.ndjson")
            vlib.write_ndjson(inp, rows_in)
            args = args + ["-in", inp]
        vlib.run_driver(binary, args + ["-out", out, "-seed", str(chk.seed)])
        rows = vlib.read_ndjson(out)
        hdr, rows = rows[0], rows[1:]
        for r in rows:
            stats["by_action"][r["a"]] = stats["by_action"].get(r["a"], 0) + 1
        if rows:
            chk.sample({"job": tag, "event": rows[len(rows) // 2]}, cap=6)
        n = 0
        for i in range(0, max(len(rows), 1), chunk):
            n += C19.validate(chk, "trace-%s-%d" % (tag, i // chunk), "CommitTrace", "CommitTrace.cfg", rows[i:i + chunk], hdr,
                              "global-token-map:" + tag, specdir=SPEC, extra=(ENC,))
        stats["lines"] += n
        return n

    def mc_pipeline(name, export):
        def fn():
            r = vlib.tlc(SPEC, "CommitMC", "CommitMC_%s.cfg" % name, workers=2, timeout=2400)
            if r.error:
                raise vlib.MachineryError("CommitMC/%s: %s" % (name, r.error))
            if export and not r.violation:
                progs = parse_progs(r.out)
                r.out = ""
                stats["programmes_from_tlc"] += len(progs)
                q = {"q3p": 3, "q3p3": 3, "q5p": 5}[name]
                drive("prog-" + name, ["-mode", "toy", "-q", str(q), "-what", "prog"], rows_in=progs)
            return r
        return fn

    tasks = [("mc:" + n, mc_pipeline(n, ex)) for n, ex in mcs]
    for tag, args in toy_jobs:
        tasks.append((tag, (lambda tag=tag, args=args: drive(tag, ["-mode", "toy"] + args))))
    for q, n in rand_jobs:
        progs = random_progs(rng, q, n)
        tasks.append(("rand-q%d" % q, (lambda q=q, progs=progs: drive("rand-q%d" % q, ["-mode", "toy", "-q", str(q), "-what", "prog"], rows_in=progs))))
    kcs = key_cases(rng, key_n)
    tasks.append(("tok", lambda: drive("tok", ["-mode", "tok", "-n", str(tok_n)], rows_in=kcs)))
    for tag, args in int_args:
        tasks.append((tag, (lambda tag=tag, args=args: drive(tag, ["-mode", "int"] + args))))
    res = vlib.parallel(tasks, max_workers=3)
    for n, _ in mcs:
        r = res["mc:" + n]
        chk.add_mc("CommitMC/" + n, r)
        if r.violation:
            raise vlib.MachineryError("the specification itself is inconsistent (%s violates %s): %s" % (n, r.violation, r.cex[-1:]))
    chk.cov["traces_validated_against_impl"] = len(tasks) - len(mcs) + sum(1 for _, ex in mcs if ex)
    chk.cov["evaluations"] = stats["lines"]
    chk.cov["distinct_nontrivial"] = stats["lines"]
    chk.cov["by_action"] = stats["by_action"]
    chk.cov["programmes_from_tlc"] = stats["programmes_from_tlc"]
    chk.cov["rule"] = ("one line = one case on the real pkg/commitments code: `ped`/`elg` = one (key, message, witness) of the toy group with "
                       "every single-component change and every equivocation (exhaustive over the listed q), `prog` = one homomorphic programme "
                       "(all programmes TLC generated at q = 5 / 7, seeded samples at larger q), `tcase`/`tprog`/`xkey` = production parameters "
                       "with tokens, `int*` = ring-Pedersen over a toy safe-prime modulus")
    chk.cov["exhaustive"] = True
    chk.assumptions += [
        "toy group: the generic pedersencom / indcpacom / elgamal code production groups use, with discrete logs by table; 1/q events (w = 0 under a changed h, m = 0 under a changed g, r = 0 under a changed ElGamal key) are exact guards of the specification",
        "token cases: equal bytes <=> equal token; BLAKE2b / cSHAKE collisions would be reported as violations",
        "indcpacom over Paillier is not driven here (needs the test-mode binary; the wrapper code is the same generic indcpacom driven over ElGamal); intcom is driven over toy safe-prime moduli where TLC can recompute residues",
    ]
    return chk.finish()


def replay(chk, path):
    """re-validate the recorded line with CommitTrace (the recorded line carries arguments and real results; to re-run
    the real code on the current tree run the check itself: every case key is deterministic for a given seed)."""
    case = json.load(open(path))["case"]
    if "lines" in case:          # a whole-file report (GlobalOK)
        rows = case["lines"]
    else:
        rows = [case]
    q = 3
    for r in rows:
        if r.get("a") in ("ped", "elg", "prog", "pkeynew", "ptrapnew") and ":q=" in r.get("k", ""):
            q = int(r["k"].split(":q=")[1].split(":")[0])
    hdr = {"a": "hdr", "k": "hdr", "q": q}
    C19.validate(chk, "replay", "CommitTrace", "CommitTrace.cfg", rows, hdr, "global-token-map:replay", specdir=SPEC, extra=(ENC,))
    return chk.finish()

"""C02 Exactly the qualified sets can reconstruct; unqualified sets learn nothing.

G: SharingMC (TLC) checks on the model alone, for every small policy of the simple constructions
   (Vandermonde threshold, unanimity, CNF clause vectors) over Z_5 / Z_7: Spans <=> Qualified, agreement of the
   independent definitions of acceptance, perfect privacy by counting, dealing / reconstruction / additive
   conversion / linearity.
R: harness/cmd/sharing -mode c02 runs the real pkg/mpc/sharing code on the toy field Z_q: every enumerated policy
   of the five families x identifier assignments x every subset x secrets x dealer columns, for KW/MSP, Shamir,
   additive, ISN, Tassa, Feldman and Pedersen.
V: SharingTrace (TLC) takes the code's own MSP matrix and row labelling from the log and re-decides every line.

This module also holds the helpers shared with C05 (validation with `tlc -continue`, job runner, replay)."""
import os, json, re, hashlib, threading
import vlib

SPEC = os.path.join(vlib.SPECS, "Sharing")
MACHINERY_INVARIANTS = ("CertOK",)      # harness-made certificates: a failure is a harness fault, never a verdict


# ---------------------------------------------------------------- shared helpers (also used by C05)

def policy_key(row):
    """Stable name of a case: action, family and either the degeneracy class of the policy or the policy itself."""
    a = row.get("a", "?")
    pol = row.get("pol") or {}
    fam = pol.get("fam", "?")
    deg = "+".join(row.get("deg") or [])
    if deg:
        return "%s:%s:%s" % (a, fam, deg)
    h = hashlib.sha1(json.dumps(pol, sort_keys=True).encode()).hexdigest()[:10]
    return "%s:%s:%s" % (a, fam, h)


def validate_all(chk, name, module, cfg, header, rows, key_of, replay_meta, timeout=3000):
    """One TLC run (`-continue`) over header+rows: every line is an initial state of the trace spec and every
    rejected line is reported (key_of(row)).  Returns the number of lines decided."""
    rd = vlib.scratch(chk.prop, name)
    vlib.write_ndjson(os.path.join(rd, "trace.ndjson"), [header] + rows)
    res = vlib.tlc(SPEC, module, cfg, workers=1, timeout=timeout, rundir=rd, tool_args=["-continue"], heap="3g")
    if res.error and not res.violation:
        raise vlib.MachineryError("%s: %s" % (name, res.error))
    if "Model checking completed" not in res.out:
        raise vlib.MachineryError("%s: TLC did not finish:\n%s" % (name, res.out[-1500:]))
    if res.distinct < len(rows) + 2:
        raise vlib.MachineryError("%s: trace spec decided %d of %d lines:\n%s" % (name, res.distinct - 1, len(rows) + 1, res.out[-1500:]))
    bad = 0
    segs = re.split(r"Error: Invariant (\S+) is violated", res.out)
    for k in range(1, len(segs), 2):
        inv = segs[k]
        m = re.findall(r"^(?:/\\ )?l = (\d+)", segs[k + 1], re.M)
        if not m:
            raise vlib.MachineryError("%s: violation of %s without a line number" % (name, inv))
        ln = int(m[-1])
        if ln < 2 or ln > len(rows) + 1:
            raise vlib.MachineryError("%s: violation of %s at impossible line %d" % (name, inv, ln))
        row = rows[ln - 2]
        if inv in MACHINERY_INVARIANTS:
            raise vlib.MachineryError("%s: harness certificate rejected (%s): %s" % (name, inv, json.dumps(row)[:800]))
        bad += 1
        obj = dict(replay_meta)
        obj["row"] = row
        chk.violation(key_of(row), "trace line rejected by %s (%s): %s" % (module, inv, json.dumps(row)[:700]), obj)
    if re.search(r"Error: (?!Invariant|The behavior)", res.out):
        em = re.search(r"Error: (?!Invariant|The behavior).*", res.out, re.S)
        raise vlib.MachineryError("%s: TLC error: %s" % (name, em.group(0)[:2000]))
    with _lock:
        chk.cov["states"] += res.distinct
        chk.cov["transitions"] += res.generated
        chk.cov["parts"][name] = {"lines": len(rows), "rejected_lines": bad, "wall_s": round(res.wall, 1)}
    vlib.log("[trace] %s: %d lines decided, %d rejected (%.1fs)" % (name, len(rows), bad, res.wall))
    return len(rows)


_lock = threading.Lock()


def run_pipeline(chk, mode, module, cfg, jobs, mcs, chunk, key_of, mc_workers=3, pool=6):
    """jobs: [(tag, driver args)], mcs: [cfg of SharingMC].  Drivers first (fast), then MC and trace validation
    share a pool of `pool` TLC processes."""
    # self-test knobs (mutation runs): restrict the driver jobs / leave the model-checking part out
    only = [x for x in os.environ.get("VERIF_ONLY_JOBS", "").split(",") if x]
    if only:
        jobs = [j for j in jobs if j[0] in only]
    if os.environ.get("VERIF_SKIP_MC") == "1":
        mcs = []
    binary = vlib.build("sharing")
    stats = {"lines": 0, "by_action": {}, "policies": 0, "by_family": {}}
    traces = {}

    def drv(tag, args):
        def fn():
            rd = vlib.scratch(chk.prop, "drv-" + tag)
            out = os.path.join(rd, "trace.ndjson")
            vlib.run_driver(binary, ["-mode", mode] + args + ["-out", out, "-seed", str(chk.seed)])
            rows = vlib.read_ndjson(out)
            os.remove(out)
            return rows
        return fn
    res = vlib.parallel([("drv:" + t, drv(t, a)) for t, a in jobs], max_workers=6)
    tasks = []
    for c in mcs:
        tasks.append(("mc:" + c, (lambda c=c: vlib.tlc(SPEC, "SharingMC", c, workers=mc_workers, timeout=3000))))
    for tag, args in jobs:
        rows = res["drv:" + tag]
        hdr, body = rows[0], rows[1:]
        traces[tag] = len(body)
        pols = set()
        for r in body:
            stats["by_action"][r["a"]] = stats["by_action"].get(r["a"], 0) + 1
            if "pol" in r:
                pk = json.dumps(r["pol"], sort_keys=True)
                if pk not in pols:
                    pols.add(pk)
                    f = r["pol"]["fam"]
                    stats["by_family"][f] = stats["by_family"].get(f, 0) + 1
        stats["policies"] += len(pols)
        for r in body[:1] + body[len(body) // 2: len(body) // 2 + 1]:
            chk.sample({"job": tag, "event": json.loads(json.dumps(r)[:1500]) if len(json.dumps(r)) < 1500 else {"a": r["a"], "k": r["k"], "pol": r.get("pol")}})
        meta = {"q": hdr["q"], "mode": mode, "job": tag}
        parts = [body[i:i + chunk] for i in range(0, len(body), chunk)] or [[]]
        for i, part in enumerate(parts):
            nm = "trace-%s-%d" % (tag, i)
            tasks.append((nm, (lambda nm=nm, hdr=hdr, part=part, meta=meta:
                               validate_all(chk, nm, module, cfg, hdr, part, key_of, meta))))
    out = vlib.parallel(tasks, max_workers=pool)
    for c in mcs:
        r = out["mc:" + c]
        chk.add_mc("SharingMC/" + c, r)
        if r.violation:
            raise vlib.MachineryError("the specification itself is inconsistent (%s violates %s): %s" % (c, r.violation, r.cex[-1:]))
    stats["lines"] = sum(v for k, v in out.items() if k.startswith("trace-"))
    chk.cov["traces_validated_against_impl"] = len(jobs)
    chk.cov["evaluations"] = stats["lines"]
    chk.cov["distinct_nontrivial"] = stats["lines"]
    chk.cov["by_action"] = stats["by_action"]
    chk.cov["policies"] = stats["policies"]
    chk.cov["policies_by_family"] = stats["by_family"]
    chk.cov["lines_by_job"] = traces
    return stats


def replay_case(chk, path, mode, module, cfg, key_of):
    """Re-run the policy of a recorded case through the real code and re-decide its lines."""
    case = json.load(open(path))["case"]
    row = case["row"]
    binary = vlib.build("sharing")
    rd = vlib.scratch(chk.prop, "replay")
    pf = os.path.join(rd, "pol.json")
    json.dump(row["pol"], open(pf, "w"))
    out = os.path.join(rd, "trace.ndjson")
    vlib.run_driver(binary, ["-mode", mode, "-q", str(case["q"]), "-pol", pf, "-out", out, "-seed", str(chk.seed),
                             "-exh", "30", "-deals", "2"])
    rows = vlib.read_ndjson(out)
    validate_all(chk, "replay-trace", module, cfg, rows[0], rows[1:], key_of, {"q": case["q"], "mode": mode, "job": "replay"})
    hit = [v for v in chk.violations] + list(chk.known_hits.items())
    vlib.log("replay of %s (%s): %d line(s) rejected on the real code" % (row.get("k"), json.dumps(row["pol"])[:200], len(hit)))
    for v in chk.violations[:5]:
        vlib.log("  " + v[0] + ": " + v[1][:400])
    return 1 if hit else 0


# ---------------------------------------------------------------- C02

def run(chk):
    T, U, C, H, G = "threshold", "unanimity", "cnf", "hier", "tree"
    if chk.quick:
        jobs = [
            ("q5", ["-q", "5", "-fams", ",".join([T, U, C, G]), "-maxn", "4", "-cnfn", "3", "-leaves", "4", "-cap", "30", "-exh", "25", "-deals", "1"]),
            ("q11-tu", ["-q", "11", "-fams", T + "," + U, "-maxn", "4", "-exh", "11", "-deals", "1"]),
            ("q11-cnf", ["-q", "11", "-fams", C, "-cnfn", "4", "-cap", "60", "-exh", "0", "-deals", "1"]),
            ("q11-tree", ["-q", "11", "-fams", G, "-maxn", "4", "-leaves", "4", "-cap", "60", "-exh", "0", "-deals", "1"]),
            ("q251", ["-q", "251", "-fams", ",".join([H, T, U]), "-maxn", "4", "-exh", "0", "-deals", "1"]),
            ("q45971", ["-q", "45971", "-fams", ",".join([T, H, G, C]), "-maxn", "4", "-cnfn", "3", "-leaves", "3", "-cap", "30", "-exh", "0", "-deals", "1", "-ids", "dense,large"]),
        ]
        mcs = ["SharingMC_q5.cfg", "SharingMC_q7.cfg"]
        chunk = 2000
    else:
        jobs = [
            ("q5", ["-q", "5", "-fams", ",".join([T, U, C, G]), "-maxn", "4", "-cnfn", "4", "-leaves", "5", "-cap", "200", "-exh", "25", "-deals", "2"]),
            ("q11-tu", ["-q", "11", "-fams", T + "," + U, "-maxn", "6", "-exh", "121", "-deals", "3"]),
            ("q11-cnf4", ["-q", "11", "-fams", C, "-cnfn", "4", "-exh", "11", "-deals", "2"]),
            ("q11-cnf5", ["-q", "11", "-fams", C, "-cnfn", "5", "-exh", "0", "-deals", "1", "-ids", "dense,large", "-cap", "1200"]),
            ("q11-tree", ["-q", "11", "-fams", G, "-maxn", "5", "-leaves", "5", "-cap", "600", "-exh", "0", "-deals", "1"]),
            ("q23", ["-q", "23", "-fams", ",".join([T, U, C, G]), "-maxn", "6", "-cnfn", "4", "-leaves", "4", "-cap", "150", "-exh", "0", "-deals", "1", "-ids", "dense,sparse,unsorted"]),
            ("q251-hier", ["-q", "251", "-fams", H, "-maxn", "5", "-exh", "0", "-deals", "2"]),
            ("q251", ["-q", "251", "-fams", ",".join([T, U, C, G]), "-maxn", "6", "-cnfn", "4", "-leaves", "5", "-cap", "150", "-exh", "0", "-deals", "1", "-ids", "dense,large"]),
            ("q45971-hier", ["-q", "45971", "-fams", H, "-maxn", "5", "-exh", "0", "-deals", "2"]),
            ("q45971", ["-q", "45971", "-fams", ",".join([T, U, C, G]), "-maxn", "6", "-cnfn", "4", "-leaves", "5", "-cap", "150", "-exh", "0", "-deals", "1", "-ids", "sparse,large"]),
        ]
        mcs = ["SharingMC_q5.cfg", "SharingMC_q7.cfg", "SharingMC_q5_thorough.cfg", "SharingMC_q7_thorough.cfg"]
        chunk = 4000
    run_pipeline(chk, "c02", "SharingTrace", "SharingTrace.cfg", jobs, mcs, chunk, policy_key)
    chk.cov["rule"] = ("one trace line = the real calls for one policy (IsQualified / InducedMSP+Accepts+CanReconstruct+ReconstructionVector "
                       "over every subset) or one dealing (NewDealerFunc with a chosen column, Scheme.Deal, Feldman, Pedersen, Shamir, additive, ISN, "
                       "Tassa: shares, Reconstruct and ConvertShareToAdditive over every subset, share Add/ScalarMul); policies: all (t,n), unanimity, "
                       "every antichain CNF, every hierarchical level layout, depth<=2 gate trees with repeated leaves, each under dense/sparse/"
                       "unsorted/large identifier assignments; dealer columns exhaustive where q^(d-1) is small, sampled otherwise")
    chk.cov["exhaustive"] = True
    chk.assumptions += [
        "device X: the generic sharing code runs on the toy field Z_q (q in {5,11,23,251,45971}; q=7 has no toy group because 15 is not prime, it is covered by the model-checking part only)",
        "privacy is decided structurally (a verified witness kappa with kappa[1]=1, M_S kappa=0 for every unqualified S) and by counting on the model; "
        "the distribution of the library's randomness is not examined (Shamir/Tassa draw a non-zero leading coefficient, a 1/q deviation)",
        "certificates (reconstruction vector / privacy witness) are produced by the harness's own elimination and verified by TLC",
        "Tassa: regularity of the quorum's square Birkhoff matrix beyond the top threshold and non-vanishing leading coefficients are 1/q guards",
        "ISN (and the brute-force maximal-unqualified-set iterator) are exercised with identifiers 1..64 only: the library keys pieces by 64-bit sets, a documented representation limit",
    ]
    return chk.finish()


def replay(chk, path):
    return replay_case(chk, path, "c02", "SharingTrace", "SharingTrace.cfg", policy_key)

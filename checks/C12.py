"""C12 Wire formats round-trip deterministically; decoding validates like construction.

G: CborMC (TLC) checks the Cbor state machine (Choose, Encode, Mutate, Decode, Reencode) on every value of the model
   schemas: decode(encode(v)) = v, canonical key order, every malformed container rejected, type tags required where
   the decoder needs them, normal form of whatever is accepted; and exports every (schema, value, mutation) behaviour.
R: harness/cbor replays those behaviours through the real pkg/base/serde on Go types realising the schemas, captures
   real values of the library's serialisable types by running real code (constructors, key generation, signing,
   proving, protocols round by round), round-trips them and applies structure mutations / field swaps / truncations /
   bit flips to their encodings; crafted encodings violate one constructor rule each.
V: CborTrace (TLC) re-decides every logged line: model lines against Dec/Enc of the specification, campaign lines
   against the property (malformed => rejected, accepted => validity predicate and normal form, never a panic) and
   the per-type summary lines against its own count of the exercised (class, position) sites."""
import os, json, re, shutil, time
import vlib

SPEC = os.path.join(vlib.SPECS, "Cbor")
MAL = ("dupkey", "unkkey", "indef", "trailing", "bignum")

# capture groups run as separate driver processes: (tag, groups, shards in the quick tier, shards in the thorough tier);
# a shard captures the whole group and runs the campaign on every n-th type
JOBS = [("zkp2", "zkp2", 2, 6), ("zkp", "zkp", 1, 3), ("shards", "shards", 1, 3), ("proto", "proto", 2, 4),
        ("access-sharing", "access,sharing", 1, 3),
        ("curves-num", "curves,num,znstar,mat", 1, 1),
        ("sig", "sig", 1, 1), ("enc", "enc", 1, 2), ("commit", "commit", 1, 2),
        ("sigma", "sigma", 1, 1)]


def base(typ):
    """Type name without its instantiation: ecdsa.Signature[k256] -> ecdsa.Signature, modular.Arithmetic(opf) -> modular.Arithmetic."""
    return re.sub(r"(\[.*\]|\(.*\))$", "", typ or "")


def key_of(row):
    """Stable identification of a rejected line by ROOT CAUSE, not by mutation instance:
       panic:<decoding entry point that panicked>          (innermost UnmarshalCBOR / Validate frame of the library)
       novalidate:<type>        the decoder accepted an object that breaks a rule of the type's constructor
                                (includes panics of Equal / accessors / MarshalCBOR on such an object)
       no-normal-form:<type>    encoding not deterministic, or decode+encode is not the identity / not a fixed point
       malformed-accepted:<class>:<type>, tag-not-required:<type>, truncation-accepted:<type>, honest-encoding-rejected:<type>,
       not-equal:<type>, craft:<type>:<rule> (a crafted rule violation was rejected with a panic-free error: never a key),
       model:<schema>:<class>:<bytes>, coverage:<type>."""
    a = row.get("a")
    typ = base(row.get("typ", ""))
    site = row.get("site") or ""
    panicked = bool(row.get("panic")) or bool(row.get("panics"))
    if a == "model":
        return "model:%s:%s:%s" % (row.get("sch"), row.get("cls"), row.get("hex"))
    if panicked:
        if site and site != "?" and not site.startswith("after-accept"):
            return "panic:%s" % site
        return "novalidate:%s" % typ
    if a == "rt":
        if not row.get("det") or not row.get("reenc"):
            return "no-normal-form:%s" % typ
        if not row.get("dec"):
            return "honest-encoding-rejected:%s" % typ
        if row.get("eq") == "f":
            return "not-equal:%s" % typ
        return "novalidate:%s" % typ
    if a == "mut":
        if row.get("res") == "acc" and row.get("cls") in MAL:
            return "malformed-accepted:%s:%s" % (row.get("cls"), typ)
        if row.get("res") == "acc" and row.get("cls") in ("tagdrop", "tagswap") and row.get("iface") and row.get("path") == "":
            return "tag-not-required:%s" % typ
        if row.get("res") == "acc" and row.get("valid") == "f":
            return "novalidate:%s" % typ
        return "no-normal-form:%s" % typ
    if a in ("flip", "trunc"):
        if a == "trunc" and row.get("acc"):
            return "truncation-accepted:%s" % typ
        if row.get("inv"):
            return "novalidate:%s" % typ
        return "no-normal-form:%s" % typ
    if a == "craft":
        if row.get("res") == "acc" and row.get("must") == "rej":
            return "novalidate:%s" % typ
        if row.get("res") == "acc":
            return ("novalidate:%s" if row.get("valid") == "f" else "no-normal-form:%s") % typ
        return "honest-encoding-rejected:%s" % typ
    if a == "sum":
        return "coverage:%s" % typ
    return "%s:%s" % (a, typ)


def chunks_at_sums(rows, target):
    """Split after `sum` lines (the trace spec counts sites between two sum lines)."""
    out, cur = [], []
    for r in rows:
        cur.append(r)
        if r.get("a") == "sum" and len(cur) >= target:
            out.append(cur)
            cur = []
    if cur:
        out.append(cur)
    return out


def validate(chk, name, hdr, rows, timeout=1700):
    """One TLC run over a function-shaped trace; CborTrace prints every rejected line and walks on."""
    rd = vlib.scratch(chk.prop, name)
    ev = [hdr] + rows
    vlib.write_ndjson(os.path.join(rd, "trace.ndjson"), ev)
    res = vlib.tlc(SPEC, "CborTrace", "CborTrace.cfg", workers=1, timeout=timeout, rundir=rd, heap="4g")
    if res.error:
        raise vlib.MachineryError("%s: %s" % (name, res.error))
    if res.violation:
        raise vlib.MachineryError("%s: CborTrace is written never to fail, yet %s: %s" % (name, res.violation, res.out[-1500:]))
    if res.distinct != len(ev) + 1:
        raise vlib.MachineryError("%s: trace spec walked %d of %d lines:\n%s" % (name, res.distinct - 1, len(ev), res.out[-1500:]))
    bad = sorted(set(int(x) for x in re.findall(r'<<"REJECTED", (\d+)>>', res.out)))
    for l in bad:
        row = ev[l - 1]
        chk.violation(key_of(row), "line rejected by CborTrace: %s" % json.dumps(row)[:900], row)
    chk.cov["states"] += res.distinct
    chk.cov["transitions"] += res.generated
    chk.cov["parts"][name] = {"lines": len(rows), "rejected_lines": len(bad), "wall_s": round(res.wall, 1)}
    vlib.log("[trace] %s: %d lines, %d rejected (%.1fs)" % (name, len(rows), len(bad), res.wall))
    return len(rows)


def run(chk):
    for f in os.listdir(chk.replay_path("")):       # replay files of earlier runs would be mistaken for this run's
        if re.match(r"violation-\d+\.json$", f):
            os.remove(chk.replay_path(f))
    binary = vlib.build("cbor")
    tier = chk.tier
    stats = {"lines": 0, "by_action": {}, "types": set(), "values": 0, "mut_by_class": {}}

    def account(rows):
        for r in rows:
            stats["by_action"][r["a"]] = stats["by_action"].get(r["a"], 0) + 1
            if r["a"] == "mut":
                stats["mut_by_class"][r["cls"]] = stats["mut_by_class"].get(r["cls"], 0) + 1
            if r["a"] == "rt":
                stats["types"].add(r["typ"])
                stats["values"] += 1

    # (G) design-level model checking + export of the behaviours, then their replay on the real serde
    def model():
        rd = vlib.scratch(chk.prop, "mc")
        r = vlib.tlc(SPEC, "CborMC", "CborMC.cfg", workers=4, timeout=1500, rundir=rd)
        beh = os.path.join(rd, "behaviours.ndjson")
        if r.error or r.violation or not os.path.exists(beh):
            return r, 0
        out = os.path.join(vlib.scratch(chk.prop, "drv-model"), "trace.ndjson")
        vlib.run_driver(binary, ["-out", out, "-seed", str(chk.seed), "-tier", tier, "-groups", "none", "-model", beh])
        rows = vlib.read_ndjson(out)
        account(rows[1:])
        chk.sample({"job": "model", "event": {k: v for k, v in rows[1].items() if k != "items"}})
        n = validate(chk, "trace-model", rows[0], rows[1:])
        return r, n

    def campaign(tag, groups, shard):
        def fn():
            out = os.path.join(vlib.scratch(chk.prop, "drv-" + tag), "trace.ndjson")
            vlib.run_driver(binary, ["-out", out, "-seed", str(chk.seed), "-tier", tier, "-groups", groups, "-shard", shard], timeout=3000)
            rows = vlib.read_ndjson(out)
            hdr, rows = rows[0], rows[1:]
            account(rows)
            for r in rows:
                if r["a"] == "mut" and r["res"] == "acc":
                    chk.sample({"job": tag, "event": {k: v for k, v in r.items() if k != "hex"}}, cap=8)
                    break
            parts = chunks_at_sums(rows, 30000)
            tasks = [("%s-%d" % (tag, i), (lambda p=p, i=i: validate(chk, "trace-%s-%d" % (tag, i), hdr, p))) for i, p in enumerate(parts)]
            res = vlib.parallel(tasks, max_workers=2)
            return sum(res.values())
        return fn

    jobs = []
    only = os.environ.get("C12_JOBS")          # development knob: comma separated job tags (evidence then covers only those)
    for t, g, nq, nt in JOBS:
        if only and t not in only.split(","):
            continue
        n = nq if chk.quick else nt
        jobs += [("%s.%d" % (t, i) if n > 1 else t, g, "%d/%d" % (i, n)) for i in range(n)]
    tasks = [("model", model)] + [("camp:" + t, campaign(t, g, sh)) for t, g, sh in jobs]
    res = vlib.parallel(tasks, max_workers=6)
    mc, nmodel = res["model"]
    chk.add_mc("CborMC/CborMC.cfg", mc)
    if mc.violation:
        raise vlib.MachineryError("the specification itself is inconsistent (CborMC violates %s): %s" % (mc.violation, mc.cex[-1:]))
    lines = nmodel + sum(v for k, v in res.items() if k.startswith("camp:"))
    chk.cov["traces_validated_against_impl"] = 1 + len(jobs)
    chk.cov["evaluations"] = lines
    chk.cov["distinct_nontrivial"] = lines
    chk.cov["by_action"] = stats["by_action"]
    chk.cov["mutations_by_class"] = stats["mut_by_class"]
    chk.cov["captured_types"] = len(stats["types"])
    chk.cov["captured_values"] = stats["values"]
    chk.cov["type_list"] = sorted(stats["types"])
    chk.cov["rule"] = ("model: every TLC-generated (schema, value, mutation) behaviour decoded by the real serde, result compared with Dec/Enc; "
                       "rt: one real value; mut: one structure mutation (class, variant, position) of one real encoding; flip: the 8 bit flips of one byte; "
                       "trunc: the proper prefixes of one encoding; craft: one violated constructor rule; sum: coverage of one type")
    chk.cov["exhaustive"] = (tier == "thorough")
    chk.assumptions += [
        "arbitrary byte strings beyond structure-preserving mutations (classes listed in mutations_by_class), single-bit flips and truncations are fuzzing and are not claimed",
        "values are those reachable from the generators and protocol runs of the driver (3 parties, k256 and the toy group for generic code); other instantiations share the generic code",
        "validity predicate of a type = its validating constructor re-run on the accessors of the decoded object (where the type has one) and re-encoding to a decodable fixed point",
        "type tags are required only where the decoder needs them (interface-typed targets); concrete targets with a custom unmarshaler ignore tags (specified so in Cbor.tla, TagRequired)",
        "TLC, the Cbor specification (cross-checked by CborMC and by the replay of all its behaviours on the real serde) and the 250-line CBOR walker of the driver are trusted",
    ]
    return chk.finish()


def replay(chk, path):
    """Re-run one reported case on the real code: the driver decodes the logged bytes as the logged type."""
    case = json.load(open(path))["case"]
    print(json.dumps({k: v for k, v in case.items() if k != "items"})[:2000])
    if case.get("a") in ("mut", "flip", "trunc", "rt", "craft") and case.get("hex") and not case["hex"].endswith("..."):
        binary = vlib.build("cbor")
        groups = case.get("grp") or "all"
        r = vlib.run_driver(binary, ["-groups", groups, "-only", case["typ"], "-replay", case["hex"]], ok_codes=(0, 2))
        print(r.stdout.strip() or r.stderr.strip()[-800:])
        return 1 if "res=acc" in r.stdout or "panic=true" in r.stdout else 0
    return 0

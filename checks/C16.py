"""C16 Encryption (Paillier, ElGamal) decrypts correctly; homomorphisms are exact.

G: HomEncMC (TLC) explores every programme of <= 3 operations over 2 registers of the HomEnc register machine
   (toy Paillier N = 35 with a boundary alphabet, every (m, r) pair for one-operation runs, toy ElGamal of
   order 7 with every key / message / nonce) and checks the property on the model: every register is the
   textbook encryption of its ghost plaintext under its ghost nonce, decryption and opening invert.
R: harness/homenc (test-mode binary: the 3072-bit floor is off) runs the real pkg/encryption/paillier on the
   toy keys 5*7, 11*13, 19*23 (Blum), 83*107 (safe primes) through the public-key AND the secret-key (CRT)
   path, and pkg/encryption/elgamal on the toy group; the plain binary must REFUSE the toy keys.
V: HomEncTrace (TLC) recomputes every ciphertext from the textbook formula (exact for all four moduli,
   multiplication modulo N^2 by doubling) and re-decides every decryption / opening."""
import os, json, re
import vlib
from C17 import scan_trace

SPEC = os.path.join(vlib.SPECS, "HomEnc")
CHUNK = 4000


def key_of(r):
    keep = {k: v for k, v in r.items() if k in ("m", "r", "c", "d", "arg", "x", "s", "m1", "m2", "r1", "r2", "P", "Q")}
    return "%s:%s" % (r.get("a", "?"), json.dumps(keep, sort_keys=True)[:160])


def run(chk):
    quick = chk.quick
    tbin = vlib.build("homenc", testmode=True)
    pbin = vlib.build("homenc")
    seed = ["-seed", str(chk.seed)]
    if quick:
        mcs = ["HomEncMC_p35_prog.cfg", "HomEncMC_p35_all.cfg", "HomEncMC_e7.cfg"]
        jobs = [("p35", True, ["-mode", "paillier", "-p", "5", "-q", "7", "-full", "-nprog", "120"]),
                ("p143", True, ["-mode", "paillier", "-p", "11", "-q", "13", "-nprog", "60"]),
                ("p437", True, ["-mode", "paillier", "-p", "19", "-q", "23", "-nprog", "40"]),
                ("p8881", True, ["-mode", "paillier", "-p", "83", "-q", "107", "-nprog", "40"]),
                ("e11", False, ["-mode", "elgamal", "-g", "11", "-nprog", "60"]),
                ("floor", False, ["-mode", "floor"])]
    else:
        mcs = ["HomEncMC_p35_prog.cfg", "HomEncMC_p35_all.cfg", "HomEncMC_e7.cfg", "HomEncMC_p143_all.cfg", "HomEncMC_p437.cfg",
               "HomEncMC_p8881.cfg", "HomEncMC_e11.cfg"]
        jobs = [("p35", True, ["-mode", "paillier", "-p", "5", "-q", "7", "-full", "-nprog", "1500"]),
                ("p143", True, ["-mode", "paillier", "-p", "11", "-q", "13", "-full", "-nprog", "600"]),
                ("p437", True, ["-mode", "paillier", "-p", "19", "-q", "23", "-nprog", "600"]),
                ("p8881", True, ["-mode", "paillier", "-p", "83", "-q", "107", "-nprog", "600"]),
                ("e11", False, ["-mode", "elgamal", "-g", "11", "-nprog", "300"]),
                ("e5", False, ["-mode", "elgamal", "-g", "5", "-nprog", "100"]),
                ("e251", False, ["-mode", "elgamal", "-g", "251", "-nprog", "100"]),
                ("e45971", False, ["-mode", "elgamal", "-g", "45971", "-nprog", "40"]),
                ("floor", False, ["-mode", "floor"]),
                ("big", False, ["-mode", "big"])]

    only = os.environ.get("VERIF_ONLY")      # self-test aid (mutation runs): restrict to some jobs, skip the model checking
    if only:
        jobs = [j for j in jobs if j[0] in only.split(",")]
        mcs = []

    def mc(cfg):
        return lambda: vlib.tlc(SPEC, "HomEncMC", cfg, workers=3, timeout=3000)
    tasks = [("mc:" + c, mc(c)) for c in mcs]
    stats = {"lines": 0, "by_action": {}, "rejected": 0}

    def rv(tag, testmode, args):
        def fn():
            rd = vlib.scratch(chk.prop, "drv-" + tag)
            out = os.path.join(rd, "trace.ndjson")
            vlib.run_driver(tbin if testmode else pbin, args + seed + ["-out", out], testmode=testmode, timeout=3000)
            rows = vlib.read_ndjson(out)
            hdr, rows = rows[0], rows[1:]
            for r in rows:
                stats["by_action"][r["a"]] = stats["by_action"].get(r["a"], 0) + 1
            for r in rows[len(rows) // 2: len(rows) // 2 + 1]:
                chk.sample({"job": tag, "event": r})
            chunks = [rows[i:i + CHUNK] for i in range(0, len(rows), CHUNK)] or [[]]
            res = vlib.parallel([("%s-%d" % (tag, i), (lambda i=i, p=p: scan_trace(chk, "trace-%s-%d" % (tag, i), SPEC, "HomEncTrace",
                                                                                    "HomEncTraceScan.cfg", p, hdr)))
                                 for i, p in enumerate(chunks)], max_workers=3)
            bad = [r for v in res.values() for r in v]
            per = {}
            for r in bad:                       # at most 5 reports (replay files) per action; every rejected line is counted
                if per.get(r["a"], 0) >= 5:
                    continue
                per[r["a"]] = per.get(r["a"], 0) + 1
                chk.violation(tag + ":" + key_of(r), "call rejected by HomEncTrace (key %s): %s" % (tag, json.dumps(r)[:600]), {"header": hdr, "event": r})
            stats["lines"] += len(rows)
            stats["rejected"] += len(bad)
            return len(rows)
        return fn
    tasks += [("rv:" + tag, rv(tag, tm, args)) for tag, tm, args in jobs]
    res = vlib.parallel(tasks, max_workers=5)
    for c in mcs:
        r = res["mc:" + c]
        chk.add_mc("HomEncMC/" + c, r)
        if r.violation:
            raise vlib.MachineryError("the specification itself violates %s (%s): %s" % (r.violation, c, r.cex[-1:]))
    chk.cov["traces_validated_against_impl"] = len(jobs)
    chk.cov["evaluations"] = stats["lines"]
    chk.cov["distinct_nontrivial"] = stats["lines"]
    chk.cov["rejected_lines"] = stats["rejected"]
    chk.cov["by_action"] = stats["by_action"]
    chk.cov["rule"] = ("each trace line is one real API call with distinct inputs executed through the public-key and the secret-key path; "
                       "N = 35 (and 143 in the thorough tier): every plaintext x every unit nonce; all moduli: boundary plaintexts (0, 1, N-1, ends of the "
                       "symmetric range), scalars negative / zero / larger than N, every single operation on every pair of base ciphertexts, sampled "
                       "programmes of 3 operations over 2 registers; ElGamal order 11: every key, message and nonce")
    chk.cov["exhaustive"] = True
    chk.cov["device"] = "X (exact toy instantiation); the 2048-bit key of the thorough tier is device T (math/big booleans)"
    chk.assumptions += ["toy moduli exercise the same generic Paillier / znstar / modular code production keys use; multi-limb arithmetic is covered by C17's window only",
                        "TLC and the HomEncMath definitions (model-checked by HomEncMC) are the oracle; all four toy moduli are exact (products modulo N^2 by doubling)",
                        "ElGamal is exercised over the toy group harness/toy (generic code); curve groups are not reached here"]
    return chk.finish()


def replay(chk, path):
    """Re-decide one stored case with the invariant form of the trace specification (CaseOK)."""
    case = json.load(open(path))["case"]
    rd = vlib.scratch(chk.prop, "replay")
    vlib.write_ndjson(os.path.join(rd, "trace.ndjson"), [case["header"], case["event"]])
    res = vlib.tlc(SPEC, "HomEncTrace", "HomEncTrace.cfg", workers=1, rundir=rd)
    print(json.dumps(case["event"]))
    if res.error:
        raise vlib.MachineryError(res.error)
    print("rejected" if res.violation else "accepted")
    return 1 if res.violation else 0

"""Shared runner for the checks built on specs/Lifecycle (C06, C03, C01)."""
import os
import vlib

SPEC = os.path.join(vlib.SPECS, "Lifecycle")


def key_of(hist, row, why):
    a = row.get("a", "?")
    extra = ""
    for r in hist:
        if r.get("a") == "redistR1":
            extra = r.get("kind", "")
        if r.get("a") in ("dkg", "dkgRun"):
            extra = r.get("proto", "")
    if a == "sign":
        extra = row.get("stage", "")
    return "%s:%s" % (a, extra)


def run(chk, jobs, mcs, nontrivial_actions, rule, assumptions):
    binary = vlib.build("lifecycle")
    tasks = []
    for cfg, wk in mcs:
        tasks.append(("mc:" + cfg, (lambda cfg=cfg, wk=wk: vlib.tlc(SPEC, "KeyLifecycleMC", cfg, workers=wk, timeout=3000))))
    stats = {"hist": 0, "lines": 0, "by_action": {}, "kinds": {}}

    def rv(tag, args, sub):
        def fn():
            rd = vlib.scratch(chk.prop, "drv-" + tag)
            out = os.path.join(rd, "trace.ndjson")
            vlib.run_driver(binary, args + ["-out", out, "-seed", str(chk.seed * 1000 + sub)])
            rows = vlib.read_ndjson(out)
            hdr, rows = rows[0], rows[1:]
            hs = vlib.split_histories(rows, lambda r: r.get("a") == "reset")
            for r in rows:
                stats["by_action"][r["a"]] = stats["by_action"].get(r["a"], 0) + 1
                if r["a"] == "redistR1":
                    stats["kinds"][r["kind"]] = stats["kinds"].get(r["kind"], 0) + 1
                if r["a"] in ("dkg", "dkgRun"):
                    k = r["a"] + ":" + r["proto"] + ":" + r["pol"]["kind"]
                    stats["kinds"][k] = stats["kinds"].get(k, 0) + 1
            if hs:
                chk.sample({"job": tag, "history": [dict((k, v) for k, v in r.items() if k not in ("certs",)) for r in hs[0][:5]]}, cap=3)
            n = vlib.validate_histories(chk, "trace-" + tag, SPEC, "KeyLifecycleTrace", "KeyLifecycleTrace.cfg", hdr, hs, key_of=key_of)
            stats["hist"] += n
            stats["lines"] += len(rows)
            return n
        return fn
    for i, (tag, args) in enumerate(jobs):
        tasks.append(("rv:" + tag, rv(tag, args, i)))
    res = vlib.parallel(tasks, max_workers=10)
    for cfg, _ in mcs:
        r = res["mc:" + cfg]
        chk.add_mc("KeyLifecycleMC/" + cfg, r)
        if r.violation:
            chk.violation("model:" + r.violation, "the design model itself violates %s (%s)" % (r.violation, cfg), {"cex": r.cex})
    chk.cov["traces_validated_against_impl"] = stats["hist"]
    chk.cov["evaluations"] = stats["lines"]
    chk.cov["distinct_nontrivial"] = sum(stats["by_action"].get(a, 0) for a in nontrivial_actions)
    chk.cov["by_action"] = stats["by_action"]
    chk.cov["kinds"] = stats["kinds"]
    chk.cov["rule"] = rule
    chk.assumptions += assumptions
    return chk.finish()

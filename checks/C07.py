"""C07 Protocol secrets come from, and depend on, each party's own randomness.

G: Provenance.tla + ProvenanceSrc.tla (TLC): symbolic two-run model of a round-based protocol (messages and the joint output are injective functions of
   consumed stream prefixes and received messages): others' first-round messages equal, the altered party's messages differ from its
   first randomised round on, joint output differs, no influence before the randomness can have travelled.
R: harness/cmd/tworun: every toy-capable protocol (session, HJKY, redistribution with/without anchor, Gennaro, Canetti, Lindell22) run
   from seeded per-party streams behind recording readers: twice with identical streams, and once per party with only that party's
   protocol stream replaced; toy group in 61-bit mode so that independent values never coincide by chance.
V: ProvenanceTrace (TLC): the two-run relation per protocol (leaf tables), determinism of identical-stream runs, every party consumes its
   own reader, and every sampled public value (dealing / zero columns, nonce commitments) is g^s for a chunk s its sender's reader handed out."""
import os, json
import vlib

SPEC = os.path.join(vlib.SPECS, "Provenance")


def run(chk):
    binary = vlib.build("tworun")
    if chk.quick:
        jobs = [("s%d" % i, ["-n", "6", "-seed", str(chk.seed * 10 + i)]) for i in range(2)]
    else:
        jobs = [("s%d" % i, ["-n", "25", "-seed", str(chk.seed * 100 + i)]) for i in range(8)] + [("b31", ["-n", "10", "-bits", "31", "-seed", str(chk.seed)])]
    tasks = [("mc:r1", lambda: vlib.tlc(SPEC, "ProvenanceMC", "ProvenanceMC_r1.cfg", workers=2, timeout=600)),
             ("mc:r2", lambda: vlib.tlc(SPEC, "ProvenanceMC", "ProvenanceMC_r2.cfg", workers=2, timeout=600))]
    # the relation the trace specification demands characterises "drawn from the party's own reader" (every source assignment)
    srcs = ["ProvenanceSrc_q.cfg"] if chk.quick else ["ProvenanceSrc_q.cfg", "ProvenanceSrc_r2.cfg", "ProvenanceSrc_r3.cfg"]
    for c in srcs:
        tasks.append(("mc:" + c, (lambda c=c: vlib.tlc(SPEC, "ProvenanceSrc", c, workers=3, timeout=1500))))
    stats = {"cmp": 0, "by": {}}

    def job(tag, args):
        def fn():
            rd = vlib.scratch(chk.prop, "drv-" + tag)
            out = os.path.join(rd, "trace.ndjson")
            vlib.run_driver(binary, args + ["-out", out])
            rows = vlib.read_ndjson(out)
            for r in rows[1:]:
                stats["cmp"] += 1
                k = r["proto"] + ":" + r["what"]
                stats["by"][k] = stats["by"].get(k, 0) + 1
            e = rows[len(rows) // 2]
            chk.sample({"job": tag, "k": e["k"], "leaves": len(e["LA"]), "first_leaves_A": e["LA"][:3], "first_leaves_B": e["LB"][:3], "consumedB": e["consumedB"]}, cap=3)
            return vlib.validate_chunks(chk, "trace-" + tag, SPEC, "ProvenanceTrace", "ProvenanceTrace.cfg", rows[1:], header=rows[0], chunk=120,
                                        key_of=lambda r: r.get("k"), max_workers=3)
        return fn
    for tag, args in jobs:
        tasks.append(("j:" + tag, job(tag, args)))

    # fault enumeration: one transient read fault at (a sample of) every position of every party's stream in every protocol
    def faults():
        rd = vlib.scratch(chk.prop, "drv-faults")
        out = os.path.join(rd, "trace.ndjson")
        vlib.run_driver(binary, ["-n", "0", "-faults", "12" if chk.quick else "400", "-seed", str(chk.seed), "-out", out])
        rows = vlib.read_ndjson(out)
        for r in rows[1:]:
            stats["faults"] = stats.get("faults", 0) + 1
            k = r["proto"] + ":fault"
            stats["by"][k] = stats["by"].get(k, 0) + 1
        chk.sample({"job": "faults", "event": rows[len(rows) // 2]}, cap=4)
        return vlib.validate_chunks(chk, "trace-faults", SPEC, "ProvenanceTrace", "ProvenanceTrace.cfg", rows[1:], header=rows[0], chunk=2000,
                                    key_of=lambda r: r.get("k"), max_workers=2)
    tasks.append(("j:faults", faults))
    res = vlib.parallel(tasks, max_workers=6)
    for n in ["mc:r1", "mc:r2"] + ["mc:" + c for c in srcs]:
        chk.add_mc("Provenance/" + n, res[n])
        if res[n].violation:
            chk.violation("model:" + res[n].violation, "Provenance.tla violates %s" % res[n].violation, {"cex": res[n].cex})
    chk.cov["traces_validated_against_impl"] = stats["cmp"] + stats.get("faults", 0)
    chk.cov["evaluations"] = stats["cmp"] + stats.get("faults", 0)
    chk.cov["distinct_nontrivial"] = stats["cmp"] + stats.get("faults", 0)
    chk.cov["fault_positions"] = stats.get("faults", 0)
    chk.cov["comparisons"] = stats["by"]
    chk.cov["rule"] = ("one case = one pair of real protocol runs (identical streams, or one party's protocol stream replaced), all message leaves and outputs compared as tokens; "
                       "or one run with a transient read fault at one position of one party's stream")
    chk.assumptions += ["toy group with a 61-bit modulus (no discrete logs; tokens only); curve-specific protocols (DKLs23, Lindell17, Boldyreva, OT/VOLE) are not covered",
                        "the sub-proofs of AND-composed sigma proofs draw from the party's reader in goroutine scheduling order (observed; see DESIGN.md); those leaves are exempt from run-to-run equality only",
                        "the set-up stream (session establishment, initial key material) is held fixed; the session scenario varies the session stream itself"]
    return chk.finish()


def replay(chk, path):
    c = json.load(open(path))["case"]
    print(json.dumps({k: v for k, v in c.items() if k not in ("LA", "LB")})[:3000])
    return 0

"""C13 Element encodings are faithful; decoders admit only valid elements.

G: ElemCodec (TLC): an exact small model - tiny prime fields, short-Weierstrass curves with and without a point of
   abscissa 0, a BLS-like curve with an odd cofactor, a twisted-Edwards curve with cofactor 8 and its Montgomery
   view, a multiplicative target group - and every encoding format of the library as Enc / Dec / Sem on digit
   strings.  Exhaustive over every string of length 0 .. L+1, every element, and the Choose / Encode / Mutate /
   Decode / Re-encode machine: round trip, injectivity, soundness, rejection of wrong lengths / flags / invalid
   coordinates, re-encoding, no panic, and the rule table (Verdict) equal to what C13 demands (TableJustified) and
   to what the modelled code does (CodeConforms).  Configurations that model a defect of the code must FAIL the
   named invariant (the model reproduces the defect); their "strict" variants (the proposed repairs) must pass.
X: the library's generic point code (impl/points) instantiated over the toy fields replays TLC-generated cases
   (every (x, y), every abscissa / ordinate, the multiples of G) exactly.
R: harness/cmd/elemcodec runs every public point / scalar / base-field / GT type: round trips and injectivity over
   the window [k]G, identity and special points (zero coordinate, small and composite order), and crafted
   encodings (lengths, every flag combination, off-curve / twist / torsion / unreduced / non-canonical identity)
   through FromCompressed / FromBytes / FromUncompressed / UnmarshalBinary / CBOR / FromAffine / FromAffineX, with
   independent math/big oracles evaluated into booleans and tokens.
V: ElemCodecTrace (TLC) re-decides every logged call with the rule table of the design model."""
import os, json, re, shutil
import vlib

SPEC = os.path.join(vlib.SPECS, "ElemCodec")

INV = {"strings": "S_Sound S_RejectsBad S_ReEncode S_TableJustified S_CodeConforms",
       "elems": "E_RoundTrip E_Injective E_EncSem E_NoPanic",
       "elems-modsign": "E_RoundTripModSign E_InjectiveModSign E_NoPanic",
       "machine": "M_RoundTrip M_Sound M_RejectsBad M_Conforms M_ReEncode M_Canonical"}

# (curve, format, family, expected): expected None = every invariant holds; otherwise the set of invariants one of
# which TLC must report (the configuration models a defect of the code / a format that cannot satisfy C13 as stated)
P61_DEFECT = {"S_Sound", "M_Sound", "E_RoundTrip", "E_Injective", "E_EncSem", "S_TableJustified", "S_CodeConforms", "S_ReEncode", "M_RoundTrip", "M_Conforms", "M_ReEncode", "M_Canonical"}
MONT = {"E_RoundTrip", "E_Injective", "S_ReEncode", "M_RoundTrip", "M_ReEncode", "M_Canonical", "E_NoPanic", "E_EncSem", "S_TableJustified",
        "E_RoundTripModSign", "E_InjectiveModSign"}
MC_SMALL = [
    ("K61", "Sec1c", "elems", None), ("K61", "Sec1c", "strings", None), ("K61", "Sec1c", "machine", None),
    ("K61", "Sec1u", "elems", None), ("K61", "Sec1u", "machine", None),
    ("P61", "Sec1c", "elems", P61_DEFECT), ("P61", "Sec1c", "strings", P61_DEFECT), ("P61", "Sec1c", "machine", P61_DEFECT),
    ("P61", "Sec1cStrict", "elems", None), ("P61", "Sec1cStrict", "strings", None), ("P61", "Sec1cStrict", "machine", None),
    ("P61", "Sec1u", "elems", None), ("P61", "Sec1u", "machine", None),
    ("PA31", "Pastac", "elems", None), ("PA31", "Pastac", "strings", None), ("PA31", "Pastac", "machine", None),
    ("PA31", "Pastau", "elems", None), ("PA31", "Pastau", "machine", None),
    ("E61", "Edc", "elems", None), ("E61", "Edc", "strings", None), ("E61", "Edc", "machine", None),
    ("E61P", "Edc", "elems", None), ("E61P", "Edc", "strings", None), ("E61P", "Edc", "machine", None),
    ("E61", "Edu", "elems", None), ("E61", "Edu", "machine", None), ("E61P", "Edu", "elems", None), ("E61P", "Edu", "machine", None),
    ("E61", "Montc", "elems", MONT), ("E61", "Montc", "strings", MONT), ("E61", "Montc", "machine", MONT),
    ("E61P", "Montc", "elems", MONT), ("E61P", "Montc", "elems-modsign", None), ("E61P", "Montc", "strings", None),
    ("E61", "Montc", "elems-modsign", MONT),
    ("E61", "Montu", "elems", MONT), ("E61", "Montu", "machine", None), ("E61P", "Montu", "elems", None), ("E61P", "Montu", "machine", None),
    ("B19", "Blsc", "elems", None), ("B19", "Blsc", "strings", None), ("B19", "Blsc", "machine", None),
    ("B19", "Blsu", "elems", None), ("B19", "Blsu", "strings", {"S_RejectsBad", "S_CodeConforms"}), ("B19", "Blsu", "machine", {"M_RejectsBad", "M_Conforms"}),
    ("B19", "BlsuStrict", "elems", None), ("B19", "BlsuStrict", "machine", None),
    ("K61", "Affine", "elems", None), ("K61", "Affine", "strings", None), ("B19", "Affine", "strings", None), ("E61P", "Affine", "strings", None),
    ("K61", "AffineX", "strings", None), ("B19", "AffineX", "strings", {"S_Sound", "S_RejectsBad", "S_CodeConforms"}), ("B19", "AffineXStrict", "strings", None),
    ("GT23", "Gt", "elems", None), ("GT23", "Gt", "strings", {"S_Sound", "S_RejectsBad", "S_CodeConforms"}), ("GT23", "Gt", "machine", {"M_Sound", "M_RejectsBad", "M_Conforms"}),
    ("GT23", "GtStrict", "elems", None), ("GT23", "GtStrict", "strings", None), ("GT23", "GtStrict", "machine", None),
    ("F23", "Fbe", "strings", None), ("F23", "Fbe", "elems", None), ("F23", "Fle", "strings", None), ("F23", "Fle", "elems", None),
    ("F29", "FbeTop", "strings", None), ("F23", "Fbered", "strings", None), ("F23", "Fwide", "elems", None), ("F23", "Fwide", "machine", None),
]
MC_BIG = [   # the exhaustive string enumerations of the two-coordinate formats (37 000 .. 350 000 strings each)
    ("K61", "Sec1u", "strings", None), ("P61", "Sec1u", "strings", None), ("PA31", "Pastau", "strings", None),
    ("E61", "Edu", "strings", None), ("E61P", "Edu", "strings", None), ("E61", "Montu", "strings", None), ("E61P", "Montu", "strings", None),
    ("B19", "BlsuStrict", "strings", None), ("B31", "Blsc", "strings", None), ("B31", "BlsuStrict", "strings", None),
    ("F23", "Fwide", "strings", None), ("E97", "Edc", "strings", None), ("E97P", "Edc", "elems", None), ("E97", "Montc", "elems-modsign", MONT),
    ("E97P", "Montc", "elems-modsign", None),
]
# quick tier: one exhaustive configuration of every format family and every defect model (TLC start-up dominates)
MC_QUICK = [
    ("K61", "Sec1c", "strings", None), ("K61", "Sec1c", "elems", None), ("K61", "Sec1c", "machine", None),
    ("P61", "Sec1c", "elems", P61_DEFECT), ("P61", "Sec1cStrict", "strings", None),
    ("PA31", "Pastac", "strings", None), ("PA31", "Pastac", "elems", None),
    ("E61", "Edc", "strings", None), ("E61", "Edc", "elems", None), ("E61P", "Edc", "strings", None),
    ("E61", "Montc", "elems", MONT), ("E61P", "Montc", "elems-modsign", None), ("E61", "Montu", "elems", MONT),
    ("B19", "Blsc", "strings", None), ("B19", "Blsc", "elems", None), ("B19", "Blsu", "strings", {"S_RejectsBad", "S_CodeConforms"}),
    ("K61", "Affine", "strings", None), ("B19", "AffineX", "strings", {"S_Sound", "S_RejectsBad", "S_CodeConforms"}), ("B19", "AffineXStrict", "strings", None),
    ("GT23", "Gt", "strings", {"S_Sound", "S_RejectsBad", "S_CodeConforms"}), ("GT23", "GtStrict", "strings", None),
    ("F23", "Fbe", "strings", None), ("F23", "Fle", "strings", None), ("F29", "FbeTop", "strings", None), ("F23", "Fbered", "strings", None),
]

# device X: toy curves for the generic point code
XCURVES = {"K61": ("weier", 61, 0, 7, 2, 25), "P61": ("weier", 61, 58, 3, 1, 1), "PA31": ("weier", 31, 0, 3, 1, 2),
           "B19": ("weier", 19, 0, 4, 1, 9), "E61": ("edw", 61, 60, 2, 14, 27), "E97": ("edw", 97, 96, 7, 1, 41)}

POINTS = ["k256", "p256", "pallas", "vesta", "ed25519", "ed25519-prime", "x25519", "x25519-prime", "bls-g1", "bls-g2"]
FIELDS = ["k256-scalar", "k256-base", "p256-scalar", "p256-base", "ed25519-scalar", "ed25519-base", "pasta-fp", "pasta-fq",
          "bls-scalar", "bls-g1-base", "bls-g2-base", "bls-gt"]
# one driver process (and one token table) per job
JOBS = {"k256": ["k256", "k256-scalar", "k256-base"], "p256": ["p256", "p256-scalar", "p256-base"],
        "pasta": ["pallas", "vesta", "pasta-fp", "pasta-fq"], "ed25519": ["ed25519", "ed25519-prime", "ed25519-scalar", "ed25519-base"],
        "x25519": ["x25519", "x25519-prime"], "bls-g1": ["bls-g1", "bls-scalar", "bls-g1-base"], "bls-g2": ["bls-g2", "bls-g2-base"], "bls-gt": ["bls-gt"]}


def mc_cfg(c, f, fam):
    return ("CONSTANTS\n  C <- %s\n  F <- %s\n  Family = \"%s\"\nINIT Init\nNEXT Next\nINVARIANTS %s\nCHECK_DEADLOCK FALSE\n"
            % (c, f, "elems" if fam == "elems-modsign" else fam, INV[fam]))


def flag_rule(fmt, fl):
    """Mirror of ElemCodec!FlagRule, used ONLY to name the class of a rejected line in its key (TLC decides the line)."""
    if fmt == "sec1c":
        return fl.get("prefix") in (2, 3)
    if fmt == "sec1u":
        return fl.get("prefix") == 4
    if fmt == "blsc":
        return fl.get("c") == 1 and not (fl.get("i") == 1 and fl.get("s") == 1)
    if fmt == "blsu":
        return fl.get("c") == 0 and fl.get("s") == 0
    return True


def dec_reason(r):
    len_ok = (r["len"] <= r["L"]) if r["fmt"] == "fwide" else True if r["fmt"] == "fbered" else r["len"] == r["L"]
    valid = r["onc"] and (r["promise"] != "prime" or r["insub"])
    if r.get("panic"):
        return "panic"
    if r.get("acc"):
        if not len_ok:
            return "wrong-length-accepted"
        if not flag_rule(r["fmt"], r["fl"]):
            return "wrong-flags-accepted"
        if not r["onc"]:
            return "off-curve-accepted"
        if not valid:
            return "outside-subgroup-accepted"
        if r.get("got") not in r.get("exps", []):
            return "wrong-element"
        return "invalid-element-returned"
    if len_ok and flag_rule(r["fmt"], r["fl"]) and valid and r.get("canon"):
        return "canonical-rejected"
    return "other"


def key_of(row):
    """Keys name the type / decoder / class of failure, never the instance."""
    a = row.get("a")
    if a == "dec":
        why = dec_reason(row)
        if why in ("canonical-rejected", "wrong-element") and str(row.get("cls", "")).startswith("special-"):
            why += ":" + row["cls"]          # which special element (zero coordinate, order two, ...)
        return "dec:%s:%s:%s" % (row.get("curve"), row.get("api"), why)
    if a == "rt":
        what = "identity" if row.get("label") == "identity" else "element" if row.get("label") in ("window", "large") else "special-" + str(row.get("label"))
        if row.get("stage") == "encode":
            what += ":encoder-panics" if row.get("panic") else ":encoder-fails"
        return "rt:%s:%s:%s" % (row.get("curve"), row.get("api"), what)
    if a == "inj":
        return "inj:%s:%s" % (row.get("curve"), row.get("api"))
    if a == "x":
        return "x:%s:%s" % (row.get("curve"), row.get("op"))
    if a == "build":
        return "build:%s:%s" % (row.get("curve"), row.get("label"))
    return "%s:%s" % (a, row.get("curve", ""))


def explain(row):
    a = row.get("a")
    if a == "dec":
        return ("%s.%s on a crafted %s string of class %s (%s): accepted=%s panic=%s; oracle: len %s/%s flags %s on-curve=%s in-subgroup=%s "
                "canonical=%s, type promises %s; hex=%s" % (row.get("curve"), row.get("api"), row.get("fmt"), row.get("cls"), row.get("det"),
                                                          row.get("acc"), row.get("panic"), row.get("len"), row.get("L"), row.get("fl"), row.get("onc"),
                                                          row.get("insub"), row.get("canon"), row.get("promise"), row.get("hex", "")[:200]))
    if a == "rt":
        return ("%s: encode / %s round trip of element %s k=%s: accepted=%s panic=%s stage=%s decoded-token=%s element-token=%s re-encoding=%s "
                "encoding=%s oracle-encoding=%s" % (row.get("curve"), row.get("api"), row.get("label"), row.get("k"), row.get("acc"), row.get("panic"),
                                                   row.get("stage", "decode"), row.get("dec"), row.get("elem"), row.get("re"), row.get("enc"), row.get("encx")))
    if a == "inj":
        return "%s: %s: %d elements have %d distinct encodings" % (row.get("curve"), row.get("api"), len(set(row.get("elems", []))), len(set(row.get("encs", []))))
    return json.dumps(row)[:400]


def validate_all(chk, name, rows, cfg="ElemCodecTraceAll.cfg", extra=(), chunk=25000, timeout=2400):
    """Function-shaped validation with every line an initial state and TLC -continue: one run reports every rejected
    line (vlib.validate_trace needs one run per rejected line).  Returns the number of lines examined."""
    total = 0
    for ci in range(0, max(len(rows), 1), chunk):
        part = rows[ci:ci + chunk]
        rd = vlib.scratch(chk.prop, "%s-%d" % (name, ci // chunk))
        vlib.write_ndjson(os.path.join(rd, "trace.ndjson"), part)
        res = vlib.tlc(SPEC, "ElemCodecTrace", cfg, workers=1, timeout=timeout, rundir=rd, extra_files=extra, heap="4g", tool_args=("-continue",))
        if res.error:
            raise vlib.MachineryError("%s: %s" % (name, res.error))
        if res.distinct != len(part):
            raise vlib.MachineryError("%s: TLC examined %d of %d lines:\n%s" % (name, res.distinct, len(part), res.out[-1500:]))
        bad = [int(x) for x in re.findall(r"Invariant CaseOK is violated by the initial state:\s*\n/\\ l = (\d+)", res.out)]
        if res.violation and not bad:
            raise vlib.MachineryError("%s: violation of %s but no line located:\n%s" % (name, res.violation, res.out[-1500:]))
        for l in bad:
            row = part[l - 1]
            chk.violation(key_of(row), "rejected by ElemCodecTrace: " + explain(row), row)
        chk.cov["states"] += res.distinct
        chk.cov["transitions"] += res.generated
        chk.cov["parts"][name + "-%d" % (ci // chunk)] = {"lines": len(part), "rejected_lines": len(bad), "wall_s": round(res.wall, 1)}
        vlib.log("[trace] %s-%d: %d lines, %d rejected (%.1fs)" % (name, ci // chunk, len(part), len(bad), res.wall))
        total += len(part)
    return total


def run(chk):
    binary = vlib.build("elemcodec")
    quick = chk.quick
    seed = chk.seed
    only = os.environ.get("VERIF_ONLY")          # development aid: mc | x | prod | comma separated runner names
    sel = set(only.split(",")) if only else None

    def want(part):
        return sel is None or part in sel

    stats = {"lines": 0, "by_action": {}, "by_curve": {}, "accepted": 0, "rejected": 0, "x_cases": {}, "mc_expected_failures": {}}
    tasks = []

    # ---------------- (G) the design model
    mcs = list(MC_QUICK) if quick else list(MC_SMALL) + MC_BIG
    if not want("mc"):
        mcs = []
    cfgdir = vlib.scratch(chk.prop, "cfg")

    def mc_task(c, f, fam, expected):
        def fn():
            tag = "%s-%s-%s" % (c, f, fam)
            rd = vlib.scratch(chk.prop, "mc-" + tag)
            open(os.path.join(rd, "mc.cfg"), "w").write(mc_cfg(c, f, fam))
            return vlib.tlc(SPEC, "ElemCodecMC", "mc.cfg", workers=2, timeout=3000, rundir=rd, heap="3g")
        return fn
    for c, f, fam, expected in mcs:
        tasks.append(("mc:%s-%s-%s" % (c, f, fam), mc_task(c, f, fam, expected)))

    # ---------------- (X) generic point code on the toy field
    def x_task(cname):
        kind, p, a, b, gx, gy = XCURVES[cname]
        def fn():
            rd = vlib.scratch(chk.prop, "xgen-" + cname)
            open(os.path.join(rd, "x.cfg"), "w").write(
                "CONSTANTS\n  C <- %s\n  F <- Affine\n  Family = \"xgen\"\nINIT Init\nNEXT Next\nCHECK_DEADLOCK FALSE\n" % cname)
            r = vlib.tlc(SPEC, "ElemCodecMC", "x.cfg", workers=1, timeout=1500, rundir=rd, heap="3g")
            if r.error or r.violation:
                return r, 0
            cases = os.path.join(rd, "cases.ndjson")
            n = 0
            with open(cases, "w") as fh:
                for line in r.out.splitlines():
                    if line.startswith('"{'):
                        fh.write(json.loads(line) + "\n")
                        n += 1
            r.out = ""
            if n == 0 or n != r.distinct:
                raise vlib.MachineryError("xgen %s: %d cases printed for %d states" % (cname, n, r.distinct))
            out = os.path.join(rd, "trace.ndjson")
            vlib.run_driver(binary, ["-mode", "toyx", "-kind", kind, "-name", cname, "-p", str(p), "-a", str(a), "-b", str(b),
                                     "-gx", str(gx), "-gy", str(gy), "-in", cases, "-out", out], timeout=900)
            rows = vlib.read_ndjson(out)
            if len(rows) != n + 1:
                raise vlib.MachineryError("toyx %s: %d cases generated, %d replayed" % (cname, n, len(rows) - 1))
            tcfg = os.path.join(rd, "ElemCodecTraceX.cfg")
            open(tcfg, "w").write("CONSTANTS\n  C <- %s\n  F <- Affine\n  Family = \"trace\"\nINIT TInitAll\nNEXT TStay\nINVARIANT CaseOK\nCHECK_DEADLOCK FALSE\n" % cname)
            k = validate_all(chk, "x-" + cname, rows, cfg="ElemCodecTraceX.cfg", extra=(tcfg,))
            stats["x_cases"][cname] = n
            chk.sample({"job": "x-" + cname, "event": rows[len(rows) // 2]}, cap=10)
            return r, k
        return fn
    xs = ["K61", "E61"] if quick else list(XCURVES)
    if want("x"):
        for cname in xs:
            tasks.append(("x:" + cname, x_task(cname)))

    # ---------------- (R)+(V) production types
    win_points = 96 if quick else 4096
    win_slow = 48 if quick else 1024          # BLS12-381 G2: every decompression ends with a full-length subgroup check
    win_fields = 128 if quick else 4096
    nrand = 12 if quick else 96

    def prod_task(job, names):
        def fn():
            rd = vlib.scratch(chk.prop, "drv-" + job)
            out = os.path.join(rd, "trace.ndjson")
            win = win_slow if job == "bls-g2" else win_points
            vlib.run_driver(binary, ["-mode", "prod", "-only", ",".join(names), "-win", str(win), "-fwin", str(win_fields), "-nrand", str(nrand),
                                     "-seed", str(seed), "-out", out], timeout=3000)
            rows = vlib.read_ndjson(out)
            if len(rows) < 10 or len([r for r in rows if r["a"] == "curve"]) != len(names):
                raise vlib.MachineryError("driver job %s produced %d lines" % (job, len(rows)))
            for r in rows:
                stats["by_action"][r["a"]] = stats["by_action"].get(r["a"], 0) + 1
                if r["a"] in ("rt", "dec"):
                    per = stats["by_curve"].setdefault(r["curve"], {})
                    k = "%s/%s" % (r["a"], r.get("api"))
                    per[k] = per.get(k, 0) + 1
                    stats["accepted" if r.get("acc") else "rejected"] += 1
            for r in (rows[3], rows[len(rows) // 2], rows[-2]):
                chk.sample({"job": job, "event": {k: v for k, v in r.items() if k not in ("elems", "encs")}}, cap=10)
            n = validate_all(chk, "trace-" + job, rows)
            stats["lines"] += n
            return n
        return fn
    for job, names in JOBS.items():
        names = [n for n in names if sel is None or "prod" in sel or n in sel or job in sel]
        if names:
            tasks.append(("prod:" + job, prod_task(job, names)))

    # long jobs first (production traces, the large string enumerations), the many small model runs fill the gaps
    big = {"mc:%s-%s-%s" % (c, f, fam) for c, f, fam, _ in MC_BIG}
    tasks.sort(key=lambda t: 0 if t[0].startswith("prod:") else 1 if t[0] in big else 2 if t[0].startswith("x:") else 3)
    res = vlib.parallel(tasks, max_workers=6)

    for c, f, fam, expected in mcs:
        tag = "%s-%s-%s" % (c, f, fam)
        r = res["mc:" + tag]
        vlib.need(r, "ElemCodec/" + tag)
        if expected is None:
            chk.add_mc("ElemCodec/" + tag, r)
            if r.violation:
                raise vlib.MachineryError("the specification itself is inconsistent (%s violates %s): %s" % (tag, r.violation, r.cex[-1:]))
        else:
            if r.violation not in expected:
                raise vlib.MachineryError("%s models a defect of the code and must violate one of %s, TLC says %s" % (tag, sorted(expected), r.violation))
            stats["mc_expected_failures"][tag] = r.violation
            chk.cov["parts"]["ElemCodec/" + tag] = {"expected_violation": r.violation, "distinct": r.distinct, "wall_s": round(r.wall, 1)}
            chk.cov["states"] += r.distinct
            chk.cov["transitions"] += r.generated
            vlib.log("[tlc] ElemCodec/%s: reproduces the defect (%s)" % (tag, r.violation))
    for name in xs if want("x") else []:
        r, k = res["x:" + name]
        chk.add_mc("ElemCodec/xgen-" + name, r)
        stats["lines"] += k

    chk.cov["traces_validated_against_impl"] = len([t for t in tasks if t[0].startswith(("prod:", "x:"))])
    chk.cov["evaluations"] = stats["lines"]
    chk.cov["distinct_nontrivial"] = stats["lines"]
    chk.cov["by_action"] = stats["by_action"]
    chk.cov["lines_per_type_and_api"] = stats["by_curve"]
    chk.cov["accepted_calls"] = stats["accepted"]
    chk.cov["rejected_calls"] = stats["rejected"]
    chk.cov["device_X_cases"] = stats["x_cases"]
    chk.cov["defect_models_reproduced"] = stats["mc_expected_failures"]
    chk.cov["window"] = {"points": win_points, "bls-g2": win_slow, "fields": win_fields, "random_strings_per_decoder": nrand}
    chk.cov["rule"] = ("one trace line = one real call: rt = encode / decode / re-encode of one element ([k]G over the window, identity, points with a zero "
                       "coordinate, small- and composite-order points) through one API pair; inj = all encodings of one pair; dec = one crafted string "
                       "(wrong lengths 0, 1, L-1, L+1, 2L; all 256 SEC1 prefixes / all 8 BLS flag combinations / the sign and spare top bits on three "
                       "payloads; coordinates shifted off the curve, 0, 1, 2, p-1, p, p+1, all ones; genuine elements with a coordinate written as c+p; "
                       "special points; random strings) through one decoder, judged by Verdict(LenRule, FlagRule, oracle booleans); x = one exact toy case "
                       "on the generic point code")
    chk.cov["rule_table"] = ("rej if not LenRule or not FlagRule or the bytes (coordinates read mod p, the format's identity rule) denote no valid element "
                             "of the type (off the curve / outside the promised subgroup / outside GT); acc if the string is the independent encoder's output "
                             "for the element it denotes; free otherwise (non-canonical spelling: accept => exactly the denoted element, or refuse)")
    chk.cov["exhaustive"] = True
    chk.assumptions += [
        "design model: exhaustive over toy instances only (fields F_19 .. F_97, 2- and 3-bit digits); it decides the statement for the FORMAT LOGIC "
        "(lengths, flag bits, identity forms, sign selection, reduction, membership tests), not for 256..381-bit arithmetic",
        "production types: the statement is decided for the window |k| <= %d (BLS12-381 G2 %d, fields %d), the listed special points and the crafted / "
        "random strings of this run - not for 'every element' or 'every byte string'" % (win_points, win_slow, win_fields),
        "device X reaches the generic point code (curve equation test, x -> y / y -> x recovery, affine conversion, group law) only; prefix / flag / "
        "identity handling is written per curve and is reached through the production runs only",
        "the G2-shaped format (two-component coordinates) and GT (12 components) are in the design model only in their one-component shape (B19 / GT23)",
        "free rows: where C13 is silent (unreduced coordinates, redundant identity or sign spellings) either outcome is accepted, an accepted string must "
        "decode to the denoted element; 'not of small order' is promised by no decoder of the library beyond prime-subgroup membership (the identity is accepted)",
        "FromWideBytes / FromBytesBEReduce are judged as decoders (accepted => bytes mod p); that they accept every string up to their length is observed, not demanded",
        "trusted base: TLC; math/big (field arithmetic, ModSqrt, ModInverse); the harness's affine short-Weierstrass / twisted-Edwards / Montgomery-map / F_p^2 / "
        "F_p^12 code; published constants (curve coefficients, group orders, cofactors); fxamacker/cbor for framing; elements are projected from their STORED "
        "coordinates (exported fields) through the low-level field Bytes(), not through the encoders under test",
        "CBOR: only the payload byte string is crafted here (container malformations are C12); cgo/BoringSSL variants are out of reach (purego build)",
    ]
    return chk.finish()


def replay(chk, path):
    """Re-run one recorded line on the real code is the driver's job; here the recorded case is shown and re-decided by TLC."""
    obj = json.load(open(path))
    case = obj["case"]
    print(json.dumps(case)[:2000])
    rows = [{"a": "hdr"}, case]
    n = validate_all(chk, "replay", rows)
    return 1 if chk.violations else 0

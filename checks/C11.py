"""C11 Message routing is exact under every delivery order; broadcast is consistent.

G: TLC model-checks specs/Router/Router.tla (PlusCal model of routerCore, one label per critical
   section of c.mu) and Echo.tla (3-round echo broadcast with Byzantine parties) and generates
   behaviours (seeded -simulate of the same module with a history variable, scenario scripts that force
   the known races; BFS enumeration of Byzantine echo behaviours).
R: harness/cmd/router replays the behaviours on real network.Router objects through the verif gates
   (the harness is the scheduler) and on real echo.Participant objects, and runs free (ungated, -race)
   randomized executions and protocol runners over an adversarial Delivery with the hooks in trace mode.
V: RouterTrace.tla / EchoTrace.tla (TLC) re-decide every recorded event with Router's own actions and
   check every Router invariant at every step of every real run."""
import os, json, re, random, time
import vlib

SPEC = os.path.join(vlib.SPECS, "Router")
INVS = ["TypeOK", "BufferAccounting", "BoxHistory", "NoCrossTalk", "BlamesSender", "FatalResults", "NoLostWakeup",
        "NotifyConsistent"]
ACTIONS = ["RdStart", "RdRecv", "RdDrop", "RdGarbage", "RdErr", "DepNew", "DepDupEqual", "DepConflict", "RdFail",
           "EnterFatal", "EnterBusy", "EnterAttach", "ScanPoison", "ScanOk", "ScanFatal", "ScanCtx", "ScanWait", "Park",
           "WakeToken", "WakeOther", "CleanupDelete", "CleanupKeep", "Cancel", "Close"]   # + DepOverflow (needs 10^4 buffered messages)


# ---------------------------------------------------------------- TLC helpers (local extensions of vlib.tlc)

def tlc(module, cfg, **kw):
    """vlib.tlc + recognition of TLC's wording for violated temporal properties."""
    r = vlib.tlc(SPEC, module, cfg, **kw)
    if r.error and re.search(r"Temporal propert(y|ies) .* (was|were) violated", r.out):
        r.violation, r.error = "temporal", None
        r.cex = vlib.parse_states(r.out)
    return r


def unescape(s):
    return json.loads('"' + s + '"')


def behaviours_of(out):
    """Distinct JSON behaviours printed by the PrintBehaviour invariant."""
    seen, bs = set(), []
    for b in re.findall(r'<<"BEHAVIOUR", "(.*)">>', out):
        if b in seen:
            continue
        seen.add(b)
        bs.append(json.loads(unescape(b)))
    return bs


def norm_pair(p):
    a, src = p
    return (a, src[0], src[1], tuple(sorted(src[2])))


def cov_pairs(out):
    return {norm_pair(json.loads(unescape(x))) for x in re.findall(r'<<"COV", "(.*)">>', out)}


# ---------------------------------------------------------------- router trace validation

def assemble(path):
    runs, cur = [], None
    for row in vlib.read_ndjson(path):
        if row["a"] == "reset":
            cur = [row]
            runs.append(cur)
        elif cur is not None:
            cur.append(row)
    return runs


def build_trace(runs):
    calls, quorum, lines, ends = set(), None, [], []
    for k, r in enumerate(runs, 1):
        r[0]["run"] = k
        r[-1]["run"] = k
        quorum = quorum or r[0]["quorum"]
        if r[0]["quorum"] != quorum:
            raise vlib.MachineryError("runs of one trace file must share the quorum")
        for c in r[0]["calls"]:
            calls.add(c["w"])
        for e in r:
            if "w" in e and e["w"] not in ("rd", "close"):
                calls.add(e["w"])
        lines += r
        ends.append(1 + len(lines))
    return [{"a": "hdr", "quorum": quorum, "calls": sorted(calls) or ["w1"], "ends": ends}] + lines


def event_key(mode, row):
    a = row.get("a", "?")
    if a == "stuck":
        return "router:%s:stuck-at-%s" % (mode, row.get("at"))
    if a == "ret":
        return "router:%s:ret-%s" % (mode, row.get("kind"))
    return "router:%s:%s" % (mode, a)


def validate_runs(chk, name, runs, mode, stats, chunk=400, max_workers=2):
    """Validate router runs with RouterTrace; every rejected run becomes a violation. Returns #lines."""
    chunks = [runs[i:i + chunk] for i in range(0, len(runs), chunk)]
    def mk(i, part):
        def fn():
            rows = build_trace(part)
            rd = vlib.scratch(chk.prop, "%s-%d" % (name, i))
            vlib.write_ndjson(os.path.join(rd, "trace.ndjson"), rows)
            res = vlib.tlc(SPEC, "RouterTrace", "RouterTrace.cfg", workers=1, timeout=3000, rundir=rd, heap="6g")
            if res.error:
                raise vlib.MachineryError("%s-%d: %s" % (name, i, res.error))
            ends = rows[0]["ends"]
            if res.violation and res.violation != "postcondition":
                # an invariant / step property of Router failed on a state reached by a real run
                l = None
                if res.cex:
                    mm = re.match(r"^(\d+)", res.cex[-1].get("l", ""))
                    l = int(mm.group(1)) if mm else None
                row = rows[l - 1] if l and l <= len(rows) else {}
                chk.violation("router:%s:%s" % (mode, res.violation),
                              "a real run drives Router into a state violating %s at event %s" % (res.violation, json.dumps(row)[:400]),
                              {"mode": mode, "violated": res.violation, "line": row, "cex_tail": res.cex[-2:]})
                stats["rejected_runs"] += 1
                return len(rows)
            m = re.search(r'<< ?"HW",(.*?)>> ?>>', res.out, re.S)
            if not m:
                raise vlib.MachineryError("%s-%d: no high-water marks in TLC output:\n%s" % (name, i, res.out[-1500:]))
            hw = [int(x) for x in re.findall(r"\d+", m.group(1))]
            if len(hw) != len(ends):
                raise vlib.MachineryError("%s-%d: %d high-water marks for %d runs" % (name, i, len(hw), len(ends)))
            nbad = 0
            for k, (h, e) in enumerate(zip(hw, ends)):
                if h == e + 1:
                    continue
                nbad += 1
                row = rows[h - 1] if 1 <= h <= len(rows) else {}
                run = part[k]
                chk.violation(event_key(mode, row),
                              "RouterTrace rejects event %d of run %s (%s): %s" % (h - (ends[k - 1] if k else 1), run[0].get("id"), mode, json.dumps(row)[:500]),
                              {"mode": mode, "run": run, "rejected_line": row, "behaviour": run[0].get("behaviour")})
            if nbad == 0 and res.violation:
                raise vlib.MachineryError("%s-%d: postcondition failed but all runs accepted" % (name, i))
            stats["rejected_runs"] += nbad
            chk.cov["states"] += res.distinct
            chk.cov["transitions"] += res.generated
            chk.cov["parts"]["%s-%d" % (name, i)] = {"runs": len(part), "lines": len(rows) - 1, "rejected_runs": nbad,
                                                    "distinct": res.distinct, "wall_s": round(res.wall, 1)}
            vlib.log("[trace] %s-%d: %d runs, %d lines, %d rejected (%.1fs)" % (name, i, len(part), len(rows) - 1, nbad, res.wall))
            return len(rows) - 1
        return fn
    res = vlib.parallel([("%s-%d" % (name, i), mk(i, p)) for i, p in enumerate(chunks)], max_workers=max_workers)
    n = sum(res.values())
    stats["lines"] += n
    stats["runs"] += len(runs)
    return n


# ---------------------------------------------------------------- the check

def run(chk):
    quick = chk.quick
    seed = chk.seed
    binary = vlib.build("router")
    race = None
    try:
        race = vlib.build("router", race=True)
    except vlib.MachineryError as ex:
        vlib.log("[warn] -race build not available, free runs without the race detector: %s" % str(ex)[:200])
    stats = {"lines": 0, "runs": 0, "rejected_runs": 0}
    cover = {"mc": set(), "replayed": set(), "actions": {}, "mc_actions": {}}
    tasks = []

    # ---- (G) model checking of Router
    mcs = ["RouterMC_quickA.cfg", "RouterMC_quickB.cfg", "RouterMC_quickC.cfg", "RouterMC_quickO.cfg"]
    if not quick:
        mcs += ["RouterMC_thorough.cfg", "RouterMC_thorough3.cfg"]
    def mc(cfg):
        def fn():
            r = tlc("RouterMC", cfg, workers=4 if not quick else 3, timeout=3000, heap="10g")
            pairs = cov_pairs(r.out)
            if cfg in ("RouterMC_quickA.cfg", "RouterMC_quickB.cfg", "RouterMC_quickC.cfg"):
                cover["mc"] |= pairs
            cover["mc_actions"][cfg] = sorted({p[0] for p in pairs})
            return r
        return fn
    tasks += [("mc:" + c, mc(c)) for c in mcs]
    tasks.append(("mc:unbuffered", lambda: tlc("RouterMC", "RouterMC_unbuffered.cfg", workers=1, timeout=900)))
    if not quick:
        tasks.append(("mc:live", lambda: tlc("RouterMC", "RouterMC_live.cfg", workers=4, timeout=3000, heap="10g")))
        tasks.append(("mc:live_unbuffered", lambda: tlc("RouterMC", "RouterMC_live_unbuffered.cfg", workers=2, timeout=1500)))

    # ---- (G)->(R)->(V) gated replay of generated behaviours
    if quick:
        gens = [("simA", "RouterMC_simA.cfg", 110, [1, 2]), ("simB", "RouterMC_simB.cfg", 110, [1, 2]),
                ("simC", "RouterMC_simC.cfg", 110, [1, 2]), ("simT", "RouterMC_sim.cfg", 70, [1, 2, 3]),
                ("scn", "RouterMC_scn.cfg", 60, [1, 2])]
    else:
        gens = [("simA", "RouterMC_simA.cfg", 2200, [1, 2]), ("simB", "RouterMC_simB.cfg", 2200, [1, 2]),
                ("simC", "RouterMC_simC.cfg", 2200, [1, 2]), ("simT", "RouterMC_sim.cfg", 1800, [1, 2, 3]),
                ("simT2", "RouterMC_sim.cfg", 1800, [1, 2, 3]), ("scn", "RouterMC_scn.cfg", 400, [1, 2])]
    replay_stats = {"behaviours": 0, "steps": 0, "stuck": 0, "inapplicable": 0}
    def gen_replay(tag, cfg, num, quorum, k):
        def fn():
            r = tlc("RouterMC", cfg, workers=1, timeout=3000, simulate="num=%d" % num, depth=120, seed=seed * 1000 + k)
            if r.error or r.violation:
                raise vlib.MachineryError("behaviour generation %s: %s %s" % (cfg, r.violation, r.error))
            bs = behaviours_of(r.out)
            if len(bs) < num // 2:
                raise vlib.MachineryError("behaviour generation %s produced only %d behaviours" % (cfg, len(bs)))
            rd = vlib.scratch(chk.prop, "replay-" + tag)
            bpath, tpath = os.path.join(rd, "behaviours.ndjson"), os.path.join(rd, "trace.ndjson")
            with open(bpath, "w") as f:
                for i, b in enumerate(bs):
                    f.write(json.dumps({"id": "%s-%d-%d" % (tag, seed, i), "quorum": quorum, "steps": b}) + "\n")
            out = vlib.run_driver(binary, ["-mode", "replay", "-in", bpath, "-out", tpath], ok_codes=(0,))
            info = json.loads(out.stdout.strip().splitlines()[-1])
            runs = assemble(tpath)
            if len(runs) != len(bs) and not info.get("aborted"):
                raise vlib.MachineryError("replay %s: %d runs for %d behaviours" % (tag, len(runs), len(bs)))
            bs = bs[:len(runs)]      # the driver stops after three confirmed hangs
            for b, run_ in zip(bs, runs):
                run_[0]["behaviour"] = b
                done = run_[0]["meta"]["steps"]
                for st in b[:done]:
                    cover["actions"][st["a"]] = cover["actions"].get(st["a"], 0) + 1
                    if tag in ("simA", "simB", "simC"):
                        cover["replayed"].add(norm_pair((st["a"], st["src"])))
            replay_stats["behaviours"] += len(bs)
            replay_stats["steps"] += sum(r_[0]["meta"]["steps"] for r_ in runs)
            replay_stats["stuck"] += info["stuck"]
            replay_stats["inapplicable"] += info["inapplicable"]
            if bs:
                chk.sample({"replayed_behaviour": tag, "first_steps": [[s["a"], s["p"]] for s in bs[0][:12]]})
            return validate_runs(chk, "rtrace-" + tag, runs, "replay", stats, chunk=500)
        return fn
    tasks += [("replay:" + t, gen_replay(t, c, n, q, k)) for k, (t, c, n, q) in enumerate(gens)]

    # ---- (R)->(V) free-running executions (race detector if available)
    nfree = 240 if quick else 2400
    free_stats = {"runs": 0}
    def free(part, n):
        def fn():
            rd = vlib.scratch(chk.prop, "free-%d" % part)
            tpath = os.path.join(rd, "trace.ndjson")
            vlib.run_driver(race or binary, ["-mode", "free", "-n", str(n), "-seed", str(seed * 100 + part), "-out", tpath],
                            env_extra={"GORACE": "halt_on_error=1 exitcode=66"})
            runs = assemble(tpath)
            for r_ in runs:
                r_[0]["id"] = "%s/seed%d" % (r_[0]["id"], seed * 100 + part)
            free_stats["runs"] += len(runs)
            if part == 0 and runs:
                chk.sample({"free_run_events": [e["a"] for e in runs[0][1:14]]})
            return validate_runs(chk, "ftrace-%d" % part, runs, "free", stats, chunk=400)
        return fn
    nparts = 2 if quick else 6
    tasks += [("free:%d" % p, free(p, nfree // nparts)) for p in range(nparts)]
    if not quick:
        def overflow():
            # the real bound (10 000 messages) is too large for RouterTrace's state: counting abstraction OverflowTrace
            rd = vlib.scratch(chk.prop, "overflow")
            tpath = os.path.join(rd, "trace.ndjson")
            vlib.run_driver(binary, ["-mode", "overflow", "-seed", str(seed), "-out", tpath])
            rows = vlib.read_ndjson(tpath)
            res = vlib.tlc(SPEC, "OverflowTrace", "OverflowTrace.cfg", workers=1, timeout=1500, rundir=rd)
            if res.error:
                raise vlib.MachineryError("OverflowTrace: %s" % res.error)
            cover["actions"]["DepOverflow"] = sum(1 for e in rows if e["a"] == "dep" and e.get("fatal") == "overflow")
            if res.violation:
                row = rows[res.distinct - 1] if res.distinct - 1 < len(rows) else {}
                chk.violation("router:overflow:%s" % row.get("a"), "OverflowTrace (%s) stops at line %d of the overflow run: %s" % (
                    res.violation, res.distinct, json.dumps(row)[:400]), {"mode": "overflow", "line": row})
            chk.cov["parts"]["overflow"] = {"lines": len(rows), "accepted": not res.violation, "wall_s": round(res.wall, 1)}
            stats["lines"] += len(rows)
            stats["runs"] += 1
            return len(rows)
        tasks.append(("overflow", overflow))

    # ---- Echo: (G) exhaustive MC that also prints every Byzantine behaviour, (R) real participants, (V) EchoTrace
    echo_stats = {"behaviours": 0, "rejected": 0}
    if quick:
        echos = [("n3b1", "EchoMC_gen_n3b1.cfg", None, None), ("n3b12", "EchoMC_gen_n3b12.cfg", None, None),
                 ("n4b0", "EchoMC_gen_n4b0.cfg", None, None), ("n4b1", "EchoMC_gen_n4b1.cfg", 3000, None),
                 ("n4b12s", "EchoMC_gen_n4b12.cfg", 4000, 2500)]     # two colluding Byzantine parties among four: simulated sample
    else:
        echos = [("n3b1", "EchoMC_gen_n3b1.cfg", None, None), ("n3b12", "EchoMC_gen_n3b12.cfg", None, None),
                 ("n3b0", "EchoMC_gen_n3b0.cfg", None, None), ("n4b0", "EchoMC_gen_n4b0.cfg", None, None),
                 ("n4b1", "EchoMC_gen_n4b1.cfg", None, None), ("n4b12", "EchoMC_gen_n4b12.cfg", 60000, None),
                 ("n5b12", "EchoMC_gen_n5b12.cfg", None, 4000)]
    def echo(tag, cfg, sample, simulate):
        def fn():
            kw = dict(workers=2, timeout=3000, heap="10g")
            if simulate:
                kw.update(workers=1, simulate="num=%d" % simulate, depth=5, seed=seed)
            r = tlc("EchoMC", cfg, **kw)
            if r.error:
                raise vlib.MachineryError("echo %s: %s" % (cfg, r.error))
            if r.violation:
                raise vlib.MachineryError("Echo.tla itself violates %s under %s: %s" % (r.violation, cfg, r.cex[-1:]))
            if not simulate:
                chk.add_mc("EchoMC/" + cfg, r)
            bs = [unescape(b) for b in re.findall(r'<<"BEHAVIOUR", "(.*)">>', r.out)]
            bs = sorted(set(bs))
            if sample and len(bs) > sample:
                bs = random.Random(seed).sample(bs, sample)
            if not bs:
                raise vlib.MachineryError("echo %s: no behaviours printed" % cfg)
            rd = vlib.scratch(chk.prop, "echo-" + tag)
            bpath, tpath = os.path.join(rd, "behaviours.ndjson"), os.path.join(rd, "trace.ndjson")
            open(bpath, "w").write("\n".join(bs) + "\n")
            vlib.run_driver(binary, ["-mode", "echo", "-in", bpath, "-out", tpath])
            rows = vlib.read_ndjson(tpath)
            first = json.loads(bs[0])
            rows[0] = {"a": "hdr", "n": first["n"], "byz": first["byz"]}
            vlib.write_ndjson(tpath, rows)
            res = vlib.tlc(SPEC, "EchoTrace", "EchoTrace.cfg", workers=1, timeout=3000, rundir=rd, heap="6g")
            if res.error:
                raise vlib.MachineryError("EchoTrace %s: %s" % (tag, res.error))
            if res.violation and res.violation != "postcondition":
                l = None
                if res.cex:
                    mm = re.match(r"^(\d+)", res.cex[-1].get("l", ""))
                    l = int(mm.group(1)) if mm else None
                row = rows[l - 1] if l and l <= len(rows) else {}
                chk.violation("echo:%s" % res.violation, "real echo run violates %s: %s" % (res.violation, json.dumps(row)[:500]),
                              {"mode": "echo", "line": row})
                echo_stats["rejected"] += 1
            m = re.search(r'<< ?"BAD",\s*\{(.*?)\}\s*>>', res.out, re.S)
            if not m:
                raise vlib.MachineryError("EchoTrace %s: no result register:\n%s" % (tag, res.out[-1200:]))
            bad = [int(x) for x in re.findall(r"\d+", m.group(1))]
            for l in bad[:50]:
                row = rows[l - 1]
                accs = {p: a for p, a in row["acc"]}
                kind = "accepts" if any(accs.values()) else "rejects"
                chk.violation("echo:n%d:byz%d:%s" % (row["n"], len(row["byz"]), kind),
                              "EchoTrace rejects the real participants' outcome: %s" % json.dumps(row)[:600], {"mode": "echo", "line": row})
            echo_stats["rejected"] += len(bad)
            echo_stats["behaviours"] += len(bs)
            chk.cov["states"] += res.distinct
            chk.cov["transitions"] += res.generated
            chk.cov["parts"]["etrace-" + tag] = {"behaviours": len(bs), "rejected": len(bad), "distinct": res.distinct, "wall_s": round(res.wall, 1)}
            vlib.log("[trace] echo %s: %d behaviours, %d rejected (%.1fs)" % (tag, len(bs), len(bad), res.wall))
            if tag == "n3b1":
                chk.sample({"echo_line": rows[len(rows) // 2]})
            return len(bs)
        return fn
    tasks += [("echo:" + t, echo(t, c, s, sim)) for t, c, s, sim in echos]

    # ---- Echo for ANY number of parties: TLAPS proof of Agreement / Consistency / HonestDelivered (EchoProof.tla)
    def tlaps():
        import shutil, subprocess
        rd = vlib.scratch(chk.prop, "tlaps")
        for f in ("Echo.tla", "EchoProof.tla"):
            shutil.copy(os.path.join(SPEC, f), rd)
        t0 = time.time()
        try:
            r = subprocess.run(["tlapm", "--threads", "4", "--stretch", "8", "EchoProof.tla"], cwd=rd, capture_output=True, text=True, timeout=1500)
        except (subprocess.TimeoutExpired, FileNotFoundError) as ex:
            raise vlib.MachineryError("tlapm: %r" % ex)
        out = r.stdout + r.stderr
        m = re.search(r"All (\d+) obligations? proved", out)
        if not m:
            raise vlib.MachineryError("tlapm did not prove EchoProof.tla:\n%s" % out[-2500:])
        chk.cov["parts"]["tlaps:EchoProof"] = {"obligations": int(m.group(1)), "discharged": int(m.group(1)), "wall_s": round(time.time() - t0, 1),
                                               "theorems": ["EchoAgreement", "EchoConsistency", "EchoHonestDelivered"]}
        vlib.log("[tlaps] EchoProof: all %s obligations proved (%.1fs)" % (m.group(1), time.time() - t0))
        return int(m.group(1))
    tasks.append(("proof:echo", tlaps))

    # ---- runner clause: protocol runners over an adversarial Delivery, router traces validated
    runner_stats = {}
    def runner():
        rd = vlib.scratch(chk.prop, "runner")
        tpath = os.path.join(rd, "trace.ndjson")
        out = vlib.run_driver(race or binary, ["-mode", "runner", "-n", "3" if quick else "12", "-seed", str(seed), "-out", tpath],
                              env_extra={"GORACE": "halt_on_error=1 exitcode=66"}, timeout=1500)
        info = json.loads(out.stdout.strip().splitlines()[-1])
        runner_stats.update(info)
        runs = assemble(tpath)
        return validate_runs(chk, "runner", runs, "runner", stats, chunk=60)
    tasks.append(("runner", runner))
    # development / self-test aid: C11_PARTS=replay,free,echo,runner restricts the run to the binding parts
    parts = [p for p in os.environ.get("C11_PARTS", "").split(",") if p]
    if parts:
        tasks = [t for t in tasks if t[0].split(":")[0] in parts]

    res = vlib.parallel(tasks, max_workers=5 if quick else 6)

    if parts:
        vlib.log("[partial] C11_PARTS=%s: %d runs, %d lines, %d rejected; replay %s; echo %s" % (
            ",".join(parts), stats["runs"], stats["lines"], stats["rejected_runs"], replay_stats, echo_stats))
        return chk.finish()
    # a run that already produced violations (rejected events, hangs the model does not allow) reports them: the coverage demands
    # below are about vacuity of a PASS and would otherwise mask the finding behind a machinery error (the replay driver stops
    # early after three confirmed hangs)
    if chk.violations:
        chk.cov["traces_validated_against_impl"] = stats["runs"] + echo_stats["behaviours"]
        chk.cov["evaluations"] = stats["lines"] + echo_stats["behaviours"]
        chk.cov["distinct_nontrivial"] = stats["lines"] + echo_stats["behaviours"]
        chk.cov["rule"] = "run ended with violations; coverage accounting incomplete"
        return chk.finish()
    # ---- verdicts of the model-checking part
    for c in mcs:
        r = res["mc:" + c]
        chk.add_mc("RouterMC/" + c, r)
        if r.violation:
            raise vlib.MachineryError("Router.tla itself violates %s under %s: %s" % (r.violation, c, r.cex[-1:]))
    r = vlib.need(res["mc:unbuffered"], "unbuffered")
    if r.violation != "NoLostWakeup":
        raise vlib.MachineryError("sensitivity: Router with an unbuffered notify channel must violate NoLostWakeup, got %r" % r.violation)
    chk.cov["parts"]["sensitivity_unbuffered"] = {"violates": r.violation, "after_states": r.distinct}
    if not quick:
        r = res["mc:live"]
        chk.add_mc("RouterMC/RouterMC_live.cfg", r)
        if r.violation:
            raise vlib.MachineryError("Router.tla violates its liveness properties: %s" % r.cex[-1:])
        r = vlib.need(res["mc:live_unbuffered"], "live_unbuffered")
        if r.violation != "temporal":
            raise vlib.MachineryError("sensitivity: unbuffered notify must violate NoLostWakeupLive, got %r" % r.violation)
        chk.cov["parts"]["sensitivity_unbuffered_liveness"] = {"violates": "NoLostWakeupLive"}

    # ---- coverage of the replayed schedules
    missing = [a for a in ACTIONS if not cover["actions"].get(a)]
    if missing:
        raise vlib.MachineryError("replayed schedules do not cover the Router actions %s" % missing)
    if replay_stats["behaviours"] < (300 if quick else 10000):
        raise vlib.MachineryError("only %d schedules replayed" % replay_stats["behaviours"])
    own_pc = {(a, pc) for a, pc, _, _ in cover["mc"]}
    own_pc_rep = {(a, pc) for a, pc, _, _ in cover["replayed"]}
    chk.cov["replay"] = dict(replay_stats)
    chk.cov["replay"]["actions_covered"] = cover["actions"]
    chk.cov["replay"]["action_sourcepc_pairs"] = {"model": len(own_pc), "replayed": len(own_pc & own_pc_rep)}
    chk.cov["replay"]["action_pcvector_pairs"] = {"model": len(cover["mc"]), "replayed": len(cover["mc"] & cover["replayed"]),
                                                  "fraction": round(len(cover["mc"] & cover["replayed"]) / max(1, len(cover["mc"])), 3)}
    chk.cov["mc_actions_taken"] = cover["mc_actions"]
    never = sorted(set(ACTIONS + ["DepOverflow"]) - {a for v in cover["mc_actions"].values() for a in v})
    if never:
        raise vlib.MachineryError("vacuous model checking: no configuration takes the actions %s" % never)
    chk.cov["free"] = {"runs": free_stats["runs"], "race_detector": bool(race)}
    chk.cov["echo"] = dict(echo_stats)
    chk.cov["runner"] = dict(runner_stats)
    chk.cov["traces_validated_against_impl"] = stats["runs"] + echo_stats["behaviours"]
    chk.cov["evaluations"] = stats["lines"] + echo_stats["behaviours"]
    chk.cov["distinct_nontrivial"] = stats["lines"] + echo_stats["behaviours"]
    chk.cov["rule"] = ("one trace = one real Router (or echo run) driven through one schedule: %d gated replays of TLC behaviours, %d free "
                       "randomized runs%s, %d router traces of protocol runners, %d Byzantine echo behaviours; every line is one critical "
                       "section / harness observation re-decided by TLC" % (replay_stats["behaviours"], free_stats["runs"],
                       " under -race" if race else "", runner_stats.get("router_traces", 0), echo_stats["behaviours"]))
    chk.cov["exhaustive"] = True
    chk.assumptions += [
        "scheduling below the granularity of a critical section of c.mu is not enumerated (the race detector runs on the free executions)",
        "the harness Delivery is the transport; the documented assumptions (one exchange per correlation id, fewer outstanding messages than the "
        "buffer bound, no two concurrent calls on one id) are not assumed by the model: their violation is modelled as the code behaves",
        "SHA3-256 is modelled as an injective function whose range excludes the zero digest",
        "trusted: TLC, Router.tla/Echo.tla, the 18 add-only hook lines in pkg/network/router.go"]
    vlib.log("[cov] replayed %d behaviours (%d steps, %d stuck, %d inapplicable); pairs %s; actions missing: %s" % (
        replay_stats["behaviours"], replay_stats["steps"], replay_stats["stuck"], replay_stats["inapplicable"],
        chk.cov["replay"]["action_pcvector_pairs"], missing))
    return chk.finish()


def replay(chk, path):
    """Re-validate the stored run; a stored behaviour is first driven through the current code again."""
    case = json.load(open(path))["case"]
    print(json.dumps(case.get("rejected_line") or case.get("line"), indent=1))
    if case.get("mode") == "echo":
        return 0
    run_ = case.get("run")
    if not run_:
        return 0
    if case.get("behaviour"):
        binary = vlib.build("router")
        rd = vlib.scratch(chk.prop, "replay-case")
        bpath, tpath = os.path.join(rd, "b.ndjson"), os.path.join(rd, "t.ndjson")
        open(bpath, "w").write(json.dumps({"id": run_[0].get("id", "case"), "quorum": run_[0]["quorum"], "steps": case["behaviour"]}) + "\n")
        vlib.run_driver(binary, ["-mode", "replay", "-in", bpath, "-out", tpath])
        run_ = assemble(tpath)[0]
    stats = {"lines": 0, "runs": 0, "rejected_runs": 0}
    validate_runs(chk, "replay-case-trace", [run_], case.get("mode", "replay"), stats)
    for key, text, p in chk.violations:
        print("VIOLATION reproduced: %s: %s" % (key, text[:300]))
    return 1 if chk.violations else 0

"""C20 Interpolation and linear algebra over the scalar fields are exact.

G: LinAlgMC (TLC) checks the specification's independent definitions against each other on every
   matrix of the configured shapes.  R: harness/cmd/linalg runs the real pkg/base/mat and
   pkg/base/polynomials code on the toy field Z_q (exhaustive small shapes, sampled larger ones).
V: LinAlgTrace (TLC) re-decides every logged call from the definitions."""
import os, json
import vlib

SPEC = os.path.join(vlib.SPECS, "LinAlg")


def drv(chk, binary, tag, args):
    rd = vlib.scratch(chk.prop, "drv-" + tag)
    out = os.path.join(rd, "trace.ndjson")
    vlib.run_driver(binary, args + ["-out", out, "-seed", str(chk.seed)])
    rows = vlib.read_ndjson(out)
    return rows[0], rows[1:]


def run(chk):
    binary = vlib.build("linalg")
    quick = chk.quick
    jobs = []
    if quick:
        jobs += [("exh-q3", ["-q", "3", "-mode", "exh", "-shapes", "1x1,1x2,2x1,2x2,2x3,3x2", "-mul", "2x2*2x2;1x2*2x2"]),
                 ("exh-q3-33", ["-q", "3", "-mode", "exh", "-shapes", "3x3", "-rhs", "2"]),
                 ("exh-q5", ["-q", "5", "-mode", "exh", "-shapes", "1x1,1x2,2x1,2x2", "-mul", "1x2*2x1"]),
                 ("interp-q5", ["-q", "5", "-mode", "interp", "-maxnodes", "4"]),
                 ("interp-q11", ["-q", "11", "-mode", "interp", "-maxnodes", "3"]),
                 ("sample-q251", ["-q", "251", "-mode", "sample", "-n", "150", "-maxdim", "4"]),
                 ("sample-q45971", ["-q", "45971", "-mode", "sample", "-n", "100", "-maxdim", "4"])]
        mcs = ["LinAlgMC_quick.cfg", "LinAlgMC_q5.cfg"]
    else:
        jobs += [("exh-q3", ["-q", "3", "-mode", "exh", "-shapes", "1x1,1x2,2x1,2x2,2x3,3x2,1x3,3x1", "-mul", "2x2*2x2;1x2*2x2;2x2*2x1"]),
                 ("exh-q3-33", ["-q", "3", "-mode", "exh", "-shapes", "3x3"]),
                 ("exh-q5", ["-q", "5", "-mode", "exh", "-shapes", "1x1,1x2,2x1,2x2,1x3,3x1", "-mul", "1x2*2x1;2x1*1x2"]),
                 ("exh-q5-23", ["-q", "5", "-mode", "exh", "-shapes", "2x3,3x2"]),
                 ("exh-q7", ["-q", "7", "-mode", "exh", "-shapes", "2x2", "-rhs", "3"]),
                 ("interp-q5", ["-q", "5", "-mode", "interp", "-maxnodes", "4"]),
                 ("interp-q11", ["-q", "11", "-mode", "interp", "-maxnodes", "4"]),
                 ("interp-q251", ["-q", "251", "-mode", "interp", "-maxnodes", "4"]),
                 ("interp-q45971", ["-q", "45971", "-mode", "interp", "-maxnodes", "4"]),
                 ("sample-q11", ["-q", "11", "-mode", "sample", "-n", "600", "-maxdim", "5"]),
                 ("sample-q251", ["-q", "251", "-mode", "sample", "-n", "600", "-maxdim", "5"]),
                 ("sample-q45971", ["-q", "45971", "-mode", "sample", "-n", "600", "-maxdim", "5"])]
        mcs = ["LinAlgMC_quick.cfg", "LinAlgMC_q5.cfg", "LinAlgMC_thorough.cfg"]

    # (G) design-level model checking, concurrently with (R)+(V)
    def mc(cfg):
        return lambda: vlib.tlc(SPEC, "LinAlgMC", cfg, workers=4, timeout=3000)
    tasks = [("mc:" + c, mc(c)) for c in mcs]

    stats = {"lines": 0, "by_action": {}}
    def rv(tag, args):
        def fn():
            hdr, rows = drv(chk, binary, tag, args)
            for r in rows:
                stats["by_action"][r["a"]] = stats["by_action"].get(r["a"], 0) + 1
            for r in rows[:1] + rows[len(rows) // 2: len(rows) // 2 + 1]:
                chk.sample({"job": tag, "event": r})
            n = vlib.validate_chunks(chk, "trace-" + tag, SPEC, "LinAlgTrace", "LinAlgTrace.cfg", rows, header=hdr,
                                     chunk=25000, key_of=key_of, max_workers=4)
            stats["lines"] += n
            return n
        return fn
    tasks += [("rv:" + tag, rv(tag, args)) for tag, args in jobs]
    res = vlib.parallel(tasks, max_workers=8)
    for c in mcs:
        r = res["mc:" + c]
        chk.add_mc("LinAlgMC/" + c, r)
        if r.violation:
            raise vlib.MachineryError("the specification itself is inconsistent (%s violates %s): %s" % (c, r.violation, r.cex[-1:]))
    chk.cov["traces_validated_against_impl"] = len(jobs)
    chk.cov["evaluations"] = stats["lines"]
    chk.cov["distinct_nontrivial"] = stats["lines"]
    chk.cov["by_action"] = stats["by_action"]
    chk.cov["rule"] = ("each trace line is one real call (solveR/solveL/det/inv/mul/transpose/lift/leftact/rightact/eval/"
                       "lagrange/vandermonde/birkhoff, plain and in the exponent) with distinct arguments; exhaustive over all "
                       "matrices of the listed shapes over Z_3/Z_5 and all right-hand sides, sampled (rank-deficient biased) up to 5x5 over Z_251/Z_45971")
    chk.cov["exhaustive"] = True
    chk.assumptions += ["toy field Z_q exercises the generic mat/polynomials code that production scalar fields use; field arithmetic of production fields is not covered here (C14)",
                        "TLC and the LinAlgQ definitions (cross-checked by LinAlgMC) are the oracle"]
    return chk.finish()


def key_of(row):
    # identify a failing case by action and arguments, not by its position in the run
    a = row.get("a")
    if a in ("birkhoff", "birkhoffExp"):
        return "%s:n=%d" % (a, len(row.get("xs", [])))
    return "%s:%s" % (a, json.dumps({k: v for k, v in row.items() if k not in ("k",)}, sort_keys=True)[:200])


def replay(chk, path):
    case = json.load(open(path))["case"]
    print(json.dumps(case))
    return 0

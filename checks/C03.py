"""C03 Key generation ends with one consistent, reconstructible key.

G: KeyLifecycleMC (TLC) with the DKG action (every holder deals a column; the key column is the sum) over Z_5.
R: harness/cmd/lifecycle -focus dkg: trusted dealing, Gennaro (Fiat-Shamir) and Canetti DKGs, driven round by round over CBOR
   bytes and through the networked runner API (real Routers), over threshold / unanimity / CNF / gate-tree structures with
   dense, sparse and large identifiers on the toy group; store + reload; reconstruction from every subset.
V: KeyLifecycleTrace (TLC): the span programme realises the policy, every share on the wire is the dealer's column applied to
   the recipient's rows, Pedersen vectors are consistent, all parties end with the same key = sum of the dealings, each private
   share matches its public share, exactly the qualified sets reconstruct log(pk), reloaded material is identical."""
import json
import lifecycle_common as lc
import prod_common


def run(chk):
    prod_common.background(prod_common.run_keygen, chk)    # production groups x compilers (family ProdProto)
    if chk.quick:
        jobs = [("q251", ["-q", "251", "-n", "150", "-parties", "4", "-focus", "dkg"]),
                ("q45971", ["-q", "45971", "-n", "100", "-parties", "5", "-focus", "dkg"]),
                ("q11", ["-q", "11", "-n", "60", "-parties", "3", "-focus", "dkg"])]
        mcs = [("KeyLifecycleMC_quick.cfg", 4)]
    else:
        jobs = [("q251-%d" % i, ["-q", "251", "-n", "500", "-parties", "5", "-focus", "dkg"]) for i in range(4)] + \
               [("q45971-%d" % i, ["-q", "45971", "-n", "500", "-parties", "5", "-focus", "dkg"]) for i in range(4)] + \
               [("q1019", ["-q", "1019", "-n", "500", "-parties", "5", "-focus", "dkg"]), ("q11", ["-q", "11", "-n", "400", "-parties", "4", "-focus", "dkg"])]
        mcs = [("KeyLifecycleMC_quick.cfg", 4), ("KeyLifecycleMC_rand.cfg", 6)]
    return lc.run(chk, jobs, mcs, ["dkg", "dkgRun", "deal"],
                  "a trace = one key generation (trusted dealer | Gennaro | Canetti; rounds | runner) on the real code followed by store/reload and "
                  "reconstruction from every subset of holders; non-trivial = completed key generations",
                  ["toy group instantiates the generic DKG code (k256, p256, ed25519, pasta, BLS12-381 run the same generic code; their curve arithmetic is C14)",
                   "Fiat-Shamir compiler only in this check (Fischlin variants: C08)",
                   "'independent runs produce independent keys' is covered as dependence on each party's random stream in C07"])


def replay(chk, path):
    case = json.load(open(path))["case"]
    if case.get("a") in ("sign", "keygen", "ot", "vole"):
        return 1 if prod_common.replay(case, tier=chk.tier) else 0
    print(json.dumps(case.get("failing_line", case))[:3000])
    return 0

"""C17 Big-number and modular arithmetic return the mathematically correct value.

G: SmallNumMC (TLC) cross-checks the declarative definitions of specs/SmallNum against each other
   (Bezout, gcd*lcm, Euler's criterion, Jacobi multiplicativity / reciprocity / supplementary laws,
   CRT uniqueness and round trip, uniqueness of quotient and remainder, two's complement identities).
R: harness/cmd/smallnum runs the real numct / num / modular / crt / znstar / nt.Jacobi / prime
   generators on exhaustive small boxes (signs, 0, even/odd, prime/composite moduli, operands >= modulus,
   announced capacities below/at/above the true length, aliasing) and a k*2^64 + s window.
V: SmallNumTrace (TLC) re-decides every logged call from the definitions."""
import os, json, re
import vlib

SPEC = os.path.join(vlib.SPECS, "SmallNum")
CHUNK = 15000


def jobs_for(quick):
    if quick:
        b = {"nat": 9, "int": 9, "mod": 10, "num": 9, "rat": 6, "crt": 8, "modular": 8, "znstar": 12, "jacobi": 9, "primes": 12, "wide": 12}
    else:
        b = {"nat": 20, "int": 20, "mod": 24, "num": 20, "rat": 14, "crt": 16, "modular": 24, "znstar": 12, "jacobi": 30, "primes": 24, "wide": 24}
    out = [(m, ["-mode", m, "-b", str(v)]) for m, v in b.items()]
    if not quick:
        out = [(m, a + (["-big"] if m == "primes" else [])) for m, a in out]
    return out


# ------------------------------------------------------------------ local vlib extension
def scan_trace(chk, name, specdir, module, cfg, rows, header, timeout=1800, heap="3g"):
    """One TLC pass in scan mode (NEXT NextScan, no invariant): every line rejected by Check is printed
    as <<"REJECTED", l>> and the walk continues. Returns the rejected rows. (vlib.validate_trace re-runs
    TLC once per rejected line, which is too slow when a defect rejects hundreds of lines.)"""
    rd = vlib.scratch(chk.prop, name)
    ev = [header] + rows
    vlib.write_ndjson(os.path.join(rd, "trace.ndjson"), ev)
    res = vlib.tlc(specdir, module, cfg, workers=1, timeout=timeout, rundir=rd, heap=heap)
    if res.error or res.violation:
        raise vlib.MachineryError("%s: %s" % (name, res.error or ("unexpected " + str(res.violation))))
    if res.distinct < len(ev) + 1:
        raise vlib.MachineryError("%s: scan consumed %d of %d lines:\n%s" % (name, res.distinct - 1, len(ev), res.out[-1500:]))
    bad = [ev[int(m) - 1] for m in re.findall(r'<<"REJECTED", (\d+)>>', res.out)]
    chk.cov["states"] += res.distinct
    chk.cov["transitions"] += res.generated
    chk.cov["parts"][name] = {"lines": len(rows), "rejected_lines": len(bad), "distinct": res.distinct, "wall_s": round(res.wall, 1)}
    vlib.log("[trace] %s: %d lines, %d rejected (%.1fs)" % (name, len(rows), len(bad), res.wall))
    return bad


def T(x, c):
    if c >= 31:
        return x
    s = -1 if x < 0 else 1
    return s * (abs(x) % (1 << c))


def key_of(r):
    """Stable key of a rejected line. Lines that belong to a recognised defect family share one key (so the
    family can be listed in known_findings.txt); everything else is keyed by action and operands."""
    a = r.get("a", "?")
    try:
        if a in ("n.divvt", "i.edivvt") and r.get("al") == 1:
            return "numct.divvartime-receiver-aliases-numerator"
        if a == "n.divvt" and (r.get("qa", 0) < 0 or r.get("rema", 0) < 0):
            return "numct.divvartime-negative-capacity"
        if a == "w.bin.panic" and "slice bounds" in r.get("panic", ""):
            return "numct.divvartime-negative-capacity"
        if a in ("m.sqrt.panic", "U.sqrt.panic") and r.get("m") == 2:
            return "numct.modsqrt-modulus-2-panics"
        if a == "i.negzero":
            return "numct.int-negative-zero-compare"
        if a == "i.edivvt" and T(r["x"], r["cx"]) < 0 and abs(T(r["x"], r["cx"])) < abs(T(r["y"], r["cy"])):
            return "numct.int-euclideandivvartime-negative-numerator"
        if a == "Z.bin" and r["x"] < 0 and abs(r["x"]) < abs(r["y"]) and (r["eq"], r["er"]) != (r["eqvt"], r["ervt"]):
            return "numct.int-euclideandivvartime-negative-numerator"
        if a == "N.bin" and r.get("cx") == 0:
            return "numct.divvartime-zero-capacity-numerator"
        if a == "m.un":
            X, m = T(r["x"], r["cx"]), r["m"]
            if r["invok"] != r["invalok"] and m % 2 == 1:
                return "numct.modinv-output-aliases-input"
            if r["quo"] != X // m and r["quo"] == (X // m) % (1 << m.bit_length()):
                return "numct.modulus-quo-truncated"
        if a == "m.bin" and r["m"] % 2 == 0 and r["al"] != 0 and pow(T(r["x"], r["cx"]), T(r["y"], r["cy"]), r["m"]) == 0 and r["exp"] != 0:
            return "numct.modexp-even-modulus-stale-zero"
        if a == "U.un" and r["isneg"] is False and r["sym"] < 0:
            return "num.uint-isnegative-boundary"
        if a == "pr.blum" and r.get("ok") and r["bits"] % 8 != 0 and r["bl"] and r["bl"][0] == 8 * ((r["bits"] + 7) // 8):
            return "nt.generateblumprime-bit-length"
        if a == "pr.blumpair" and r.get("hang") and (r["bits"] // 2) % 8 != 0:
            return "nt.generateblumprime-bit-length"
    except (KeyError, TypeError, ValueError):
        pass
    keep = {k: v for k, v in r.items() if k in ("x", "y", "cx", "cy", "c", "m", "e", "ce", "p", "q", "al", "s", "i", "bits", "u", "v", "a_", "b", "d", "n",
                                                "kind", "mp", "mq", "fs", "rs", "bytes", "lo", "hi")}
    return "%s:%s" % (a, json.dumps(keep, sort_keys=True)[:160])


def run(chk):
    binary = vlib.build("smallnum")
    quick = chk.quick
    jobs = jobs_for(quick)
    mcs = ["SmallNumMC_quick.cfg"] if quick else ["SmallNumMC_quick.cfg", "SmallNumMC_thorough.cfg"]
    only = os.environ.get("VERIF_ONLY")      # self-test aid (mutation runs): restrict to some driver modes, skip the model checking
    if only:
        jobs = [j for j in jobs if j[0] in only.split(",")]
        mcs = []

    def mc(cfg):
        return lambda: vlib.tlc(SPEC, "SmallNumMC", cfg, workers=4, timeout=3000)
    tasks = [("mc:" + c, mc(c)) for c in mcs]

    stats = {"lines": 0, "by_action": {}, "rejected": 0}

    def drv(tag, args):
        def fn():
            rd = vlib.scratch(chk.prop, "drv-" + tag)
            out = os.path.join(rd, "trace.ndjson")
            vlib.run_driver(binary, args + ["-out", out, "-seed", str(chk.seed)], timeout=3000)
            rows = vlib.read_ndjson(out)[1:]
            for r in rows[len(rows) // 2: len(rows) // 2 + 1]:
                chk.sample({"job": tag, "event": r})
            return rows
        return fn

    def validate_all():
        # (R) all driver modes, then (V) one pooled trace cut into chunks (fewer TLC start-ups than one trace per mode)
        dres = vlib.parallel([("drv:" + tag, drv(tag, args)) for tag, args in jobs], max_workers=4)
        rows = [r for tag, _ in jobs for r in dres["drv:" + tag]]
        for r in rows:
            stats["by_action"][r["a"]] = stats["by_action"].get(r["a"], 0) + 1
        hdr = {"a": "hdr", "k": "hdr", "seed": chk.seed}
        chunks = [rows[i:i + CHUNK] for i in range(0, len(rows), CHUNK)] or [[]]
        res = vlib.parallel([("chunk-%d" % i, (lambda i=i, p=p: scan_trace(chk, "trace-%d" % i, SPEC, "SmallNumTrace", "SmallNumTraceScan.cfg", p, hdr)))
                             for i, p in enumerate(chunks)], max_workers=4)
        bad = [r for i in range(len(chunks)) for r in res["chunk-%d" % i]]
        per = {}
        for r in bad:                       # at most 5 reports (replay files) per action; every rejected line is counted
            k = key_of(r)
            if k not in chk.known and per.get(r["a"], 0) >= 5:
                continue
            per[r["a"]] = per.get(r["a"], 0) + 1
            chk.violation(k, "call rejected by SmallNumTrace: %s" % json.dumps(r)[:600], r)
        stats["lines"] += len(rows)
        stats["rejected"] += len(bad)
        return len(rows)
    tasks += [("rv", validate_all)]
    res = vlib.parallel(tasks, max_workers=3)
    for c in mcs:
        r = res["mc:" + c]
        chk.add_mc("SmallNumMC/" + c, r)
        if r.violation:
            raise vlib.MachineryError("the specification itself is inconsistent (%s violates %s): %s" % (c, r.violation, r.cex[-1:]))
    chk.cov["traces_validated_against_impl"] = len(jobs)
    chk.cov["evaluations"] = stats["lines"]
    chk.cov["distinct_nontrivial"] = stats["lines"]
    chk.cov["rejected_lines"] = stats["rejected"]
    chk.cov["by_action"] = stats["by_action"]
    chk.cov["rule"] = ("each trace line is one real call (or one bundle of calls on the same operands) with distinct operands, capacities and "
                       "aliasing mode; exhaustive over the operand boxes of every mode (device W: small window |v| < 2^15, multi-limb only as k*2^64+s)")
    chk.cov["exhaustive"] = True
    chk.assumptions += ["TLC and the SmallNum definitions (cross-checked by SmallNumMC) are the oracle",
                        "carry chains of genuinely multi-limb operands live in the saferith dependency and are reached only through the k*2^64+s window",
                        "explicit result capacities below an operand's length for shifts, and undefined powers (negative exponent of a non-unit), are outside the claim",
                        "primes above 2^31 are judged through math/big ProbablyPrime(32) booleans logged by the driver (independent oracle)"]
    return chk.finish()


def replay(chk, path):
    """Re-decide one stored case with the invariant form of the trace specification (CaseOK)."""
    case = json.load(open(path))["case"]
    rd = vlib.scratch(chk.prop, "replay")
    vlib.write_ndjson(os.path.join(rd, "trace.ndjson"), [{"a": "hdr", "k": "hdr"}, case])
    res = vlib.tlc(SPEC, "SmallNumTrace", "SmallNumTrace.cfg", workers=1, rundir=rd)
    print(json.dumps(case))
    if res.error:
        raise vlib.MachineryError(res.error)
    print("rejected" if res.violation else "accepted")
    return 1 if res.violation else 0

"""C05 Share verification accepts exactly the dealer's shares.

G: SharingMC (TLC, VSSMC_*.cfg) checks the verification equations on the model alone: at every dealt state of every
   small policy, a Feldman share verifies iff it is the dealer's share of the claimed holder (all values of all
   coordinates, wrong lengths, other identities, outsiders), a changed verification-vector entry breaks exactly the
   holders that depend on it, wrong vector lengths never verify, combined dealings verify the sum; Pedersen likewise
   (including that binding is only computational).
R: harness/cmd/sharing -mode c05 runs feldman / pedersen Scheme.Deal / Verify / ReconstructAndVerify /
   ReconstructInTheExponent, VerificationVector.Op, feldman.NewVerificationVector and mpc.NewBaseShard on the toy
   group (every element logged as its discrete log) for every enumerated policy, holder, share coordinate and delta.
V: VSSTrace (TLC) re-decides every accept / reject from the equation lambda_k = M[k].V (mod q) on the code's own MSP."""
import vlib
import C02


def run(chk):
    T, U, C, H, G = "threshold", "unanimity", "cnf", "hier", "tree"
    if chk.quick:
        jobs = [
            ("q5", ["-q", "5", "-fams", ",".join([T, U, C, G]), "-maxn", "4", "-cnfn", "3", "-leaves", "3", "-cap", "20", "-deltas", "10"]),
            ("q11", ["-q", "11", "-fams", ",".join([T, U, C, G]), "-maxn", "4", "-cnfn", "4", "-leaves", "4", "-cap", "40", "-deltas", "10", "-ids", "dense,unsorted,large"]),
            ("q251", ["-q", "251", "-fams", ",".join([H, T]), "-maxn", "4", "-deltas", "4", "-ids", "dense,sparse"]),
            ("q45971", ["-q", "45971", "-fams", ",".join([H, T, C]), "-maxn", "4", "-cnfn", "3", "-deltas", "4", "-ids", "dense,large"]),
        ]
        mcs = ["VSSMC_q5.cfg", "VSSMC_q7.cfg"]
        chunk = 700
    else:
        jobs = [
            ("q5", ["-q", "5", "-fams", ",".join([T, U, C, G]), "-maxn", "4", "-cnfn", "4", "-leaves", "5", "-cap", "250", "-deltas", "10"]),
            ("q11-tu", ["-q", "11", "-fams", ",".join([T, U]), "-maxn", "5", "-deltas", "10"]),
            ("q11-cnf", ["-q", "11", "-fams", C, "-cnfn", "5", "-cap", "350", "-deltas", "10", "-ids", "dense,large"]),
            ("q11-tree", ["-q", "11", "-fams", G, "-maxn", "5", "-leaves", "5", "-cap", "250", "-deltas", "10", "-ids", "dense,unsorted"]),
            ("q23", ["-q", "23", "-fams", ",".join([T, U, C, G]), "-maxn", "5", "-cnfn", "4", "-leaves", "4", "-cap", "120", "-deltas", "10", "-ids", "dense,sparse"]),
            ("q251", ["-q", "251", "-fams", ",".join([H, T, U, C, G]), "-maxn", "5", "-cnfn", "4", "-leaves", "4", "-cap", "80", "-deltas", "5", "-ids", "dense,large"]),
            ("q45971", ["-q", "45971", "-fams", ",".join([H, T, U, C, G]), "-maxn", "5", "-cnfn", "4", "-leaves", "4", "-cap", "80", "-deltas", "5", "-ids", "dense,sparse"]),
        ]
        mcs = ["VSSMC_q5.cfg", "VSSMC_q7.cfg", "VSSMC_q5_thorough.cfg", "VSSMC_q7_thorough.cfg"]
        chunk = 1500
    C02.run_pipeline(chk, "c05", "VSSTrace", "VSSTrace.cfg", jobs, mcs, chunk, C02.policy_key)
    chk.cov["rule"] = ("one trace line = one dealing (Feldman / Pedersen) with all its verification cases: the honest share of every holder, "
                       "every share coordinate + every delta in Z_q\\\\{0} (sampled for large q), share too short / too long, share under every other "
                       "holder's identity and under an outsider's, every verification-vector entry + delta, vectors shorter / longer / extended by "
                       "the identity, 2 and 3 combined dealings, ReconstructAndVerify and ReconstructInTheExponent over every subset, "
                       "feldman.NewVerificationVector dimension rule, VerificationVector.Op, mpc.NewBaseShard")
    chk.cov["exhaustive"] = True
    chk.assumptions += [
        "device X: toy group of prime order q (q in {5,11,23,251,45971}); group elements are logged as discrete logarithms, Pedersen's second generator is g^eta with eta logged",
        "Pedersen binding is computational: with eta known the specification predicts (and the code shows) that a shift (d, -d/eta) of a share component still verifies; this is not reported",
        "the code's own MSP (matrix, row labelling) is taken from the log; that it realises the policy is C02",
    ]
    return chk.finish()


def replay(chk, path):
    return C02.replay_case(chk, path, "c05", "VSSTrace", "VSSTrace.cfg", C02.policy_key)

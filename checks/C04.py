"""C04 A deviating party is detected, blamed correctly, and cannot cause a bad output.

G: DeviationMC (TLC): every dealing column, every coordinate, every non-zero error over Z_5 is caught by some honest
   holder's verification equation (the mathematical content of the binding table).
R: harness/cmd/tamper: the complete single-leaf deviation matrix (CBOR walker; operators bitflip, flipHigh, zero, value of
   another sender / recipient / parallel session, truncate, extend, swap, shorten, drop, replay) on the real participants of
   session setup, HJKY, redistribution (with/without anchor), Gennaro, Canetti, Lindell22 signing + cosigning aggregation, base OT and random VOLE.
V: TamperTrace (TLC, ProtoCore.tla): no crash/hang, blame only the deviator, honest outputs valid (exact over Z_q), and every
   changed bound leaf is rejected by an honest party (the addressee for a unicast)."""
import os, json, subprocess
import vlib

SPEC = os.path.join(vlib.SPECS, "ProtoCore")


def run_tamper(chk, binary, tag, args):
    """Runs the driver; a crash of the whole process (panic inside a library goroutine) is attributed to the
    announced case, reported, and the run resumes after it."""
    rows, start, crashes = [], 0, 0
    while True:
        rd = vlib.scratch(chk.prop, "drv-%s-%d" % (tag, crashes))
        out = os.path.join(rd, "trace.ndjson")
        r = subprocess.run([binary] + args + ["-out", out, "-intent", "1", "-from", str(start)], capture_output=True, text=True, timeout=3600)
        part = vlib.read_ndjson(out) if os.path.exists(out) else []
        if r.returncode == 0:
            rows += part if not rows else part[1:]
            return rows
        last = part[-1] if part else {}
        if last.get("a") != "intent":
            raise vlib.MachineryError("tamper driver failed (%d): %s" % (r.returncode, (r.stderr or r.stdout)[-2000:]))
        crashes += 1
        chk.violation("crash:" + last["k"], "the process of an honest party crashed (panic outside the calling goroutine) on a tampered message: %s\n%s" % (
            json.dumps(last), r.stderr[-1500:]), last)
        rows += (part if not rows else part[1:])[:-1]
        start = last["case"] + 1
        if crashes > 20:
            raise vlib.MachineryError("too many crashes")


def key_of(row):
    return row.get("k", row.get("a"))


def run(chk):
    import prod_common
    prod_common.background(prod_common.run_signdev, chk)    # DKLs23 / Lindell22 on production curves with one deviating signer
    prod_common.background(prod_common.run_blsdev, chk)     # Boldyreva BLS on BLS12-381 with one deviating cosigner (family ProdProto)
    binary = vlib.build("tamper")
    main = "session,hjky,redist,redistAnchor,redistNew,gennaro,canetti,lindell22"
    if chk.quick:
        jobs = [("q45971", ["-q", "45971", "-proto", main, "-seed", str(chk.seed)]),
                ("q251", ["-q", "251", "-proto", main, "-seed", str(chk.seed + 100), "-stride", "3"]),
                ("otvole", ["-q", "45971", "-proto", "rvole,ecbbot", "-stride", "20", "-seed", str(chk.seed)])]
    else:
        jobs = [("q45971-%d" % i, ["-q", "45971", "-proto", main, "-seed", str(chk.seed * 10 + i)]) for i in range(4)] + \
               [("q251-%d" % i, ["-q", "251", "-proto", main, "-seed", str(chk.seed * 10 + i)]) for i in range(4)] + \
               [("q1019-%d" % i, ["-q", "1019", "-proto", main, "-seed", str(chk.seed * 10 + i)]) for i in range(2)] + \
               [("otvole", ["-q", "45971", "-proto", "rvole,ecbbot", "-stride", "3", "-seed", str(chk.seed)])]
    tasks = [("mc", lambda: vlib.tlc(SPEC, "DeviationMC", "DeviationMC.cfg", workers=4, timeout=1800))]
    stats = {"cases": 0, "changed_bound": 0, "by_proto": {}, "leaves": set()}

    def job(tag, args):
        def fn():
            rows = run_tamper(chk, binary, tag, args)
            hdr, body = rows[0], [r for r in rows[1:] if r.get("a") != "intent"]
            for r in body:
                if r["a"] == "tamper":
                    stats["cases"] += 1
                    stats["by_proto"][r["proto"]] = stats["by_proto"].get(r["proto"], 0) + 1
                    stats["leaves"].add((r["proto"], r["round"], r["kind"], r["leaf"]))
                    if r["changed"]:
                        stats["changed_bound"] += 1
            t = [r for r in body if r["a"] == "tamper"]
            if t:
                chk.sample({k: v for k, v in t[len(t) // 2].items() if k != "out"}, cap=4)
            return vlib.validate_chunks(chk, "trace-" + tag, SPEC, "TamperTrace", "TamperTrace.cfg", body, header=hdr, chunk=1500,
                                        key_of=key_of, max_workers=4)
        return fn
    for tag, args in jobs:
        tasks.append(("job:" + tag, job(tag, args)))
    res = vlib.parallel(tasks, max_workers=6)
    chk.add_mc("DeviationMC", res["mc"])
    if res["mc"].violation:
        chk.violation("model:" + res["mc"].violation, "DeviationMC violates %s" % res["mc"].violation, {"cex": res["mc"].cex})
    chk.cov["traces_validated_against_impl"] = stats["cases"]
    chk.cov["evaluations"] = stats["cases"]
    chk.cov["distinct_nontrivial"] = len(stats["leaves"])
    chk.cov["by_protocol"] = stats["by_proto"]
    chk.cov["rule"] = ("one case = one protocol run with one leaf (or the whole message) of one party's message of one round altered on the wire; "
                       "distinct_nontrivial = distinct (protocol, round, broadcast/unicast, leaf class) addressed")
    chk.cov["exhaustive"] = True
    chk.assumptions += ["toy-group instances of the generic protocols (session, HJKY, redistribute, Gennaro/Fiat-Shamir, Canetti, Lindell22 with generic Schnorr); "
                        "curve-specific protocols (DKLs23, Lindell17, Boldyreva, CGGMP21) are not in this matrix",
                        "single deviating party, single altered leaf per run; broadcasts altered identically for all recipients"]
    return chk.finish()


def replay(chk, path):
    print(json.dumps(json.load(open(path))["case"])[:3000])
    return 0

"""C01 Threshold signing by a qualified quorum yields a publicly valid signature.

G: KeyLifecycleMC (TLC), invariant SignAlgebra: for every qualified quorum, every challenge and zero blinding, the additive
   key shares sum to the secret and the aggregated Schnorr response verifies (Z_5, threshold and unanimity structures).
R: harness/cmd/lifecycle -focus sign: keys from trusted dealing / Gennaro / Canetti (rounds and runners) over threshold, unanimity,
   CNF and gate-tree structures (non-ideal programmes included), Lindell22 threshold Schnorr (generic Schnorr variant) with EVERY
   qualified quorum (minimal and non-minimal), unqualified quorums, empty message; plain and every cosigning aggregator.
V: KeyLifecycleTrace (TLC) recomputes every partial response s_i = k_i + e (a_i + z_i) and the aggregate mod q and is itself the
   independent verifier (g^s = R pk^e in the exponent); the library verifier must agree, and reject the signature under another message
   exactly when the equation fails for the other challenge."""
import json
import lifecycle_common as lc
import prod_common


def run(chk):
    prod_common.background(prod_common.run_sign, chk)      # production curves (family ProdProto) overlap with the toy-group part
    if chk.quick:
        jobs = [("q251", ["-q", "251", "-n", "60", "-parties", "4", "-focus", "sign"]),
                ("q45971", ["-q", "45971", "-n", "60", "-parties", "4", "-focus", "sign"]),
                ("q1019", ["-q", "1019", "-n", "40", "-parties", "5", "-focus", "sign"])]
        mcs = [("KeyLifecycleMC_quick.cfg", 4)]
    else:
        jobs = [("q251-%d" % i, ["-q", "251", "-n", "250", "-parties", "5", "-focus", "sign"]) for i in range(4)] + \
               [("q45971-%d" % i, ["-q", "45971", "-n", "250", "-parties", "5", "-focus", "sign"]) for i in range(4)] + \
               [("q1019", ["-q", "1019", "-n", "250", "-parties", "5", "-focus", "sign"]), ("q11", ["-q", "11", "-n", "200", "-parties", "4", "-focus", "sign"])]
        mcs = [("KeyLifecycleMC_quick.cfg", 4), ("KeyLifecycleMC_ops3.cfg", 6)]
    return lc.run(chk, jobs, mcs, ["sign"],
                  "a trace = one key (dealt or generated) and one Lindell22 signing run per qualified quorum of its structure (plus refused unqualified quorums); "
                  "non-trivial = signing runs",
                  ["only Lindell22 with the configurable generic Schnorr variant runs on the toy group; BIP-340 / Mina variants, DKLs23, Lindell17, Boldyreva and CGGMP21 need "
                   "production curves and are NOT covered by this check (stated in DESIGN.md)",
                   "round-by-round API for signing; key generation through rounds and runners",
                   "1/q events of the toy group are guards of the specification"])


def replay(chk, path):
    case = json.load(open(path))["case"]
    if case.get("a") in ("sign", "keygen", "ot", "vole"):
        return 1 if prod_common.replay(case, tier=chk.tier) else 0
    print(json.dumps(case.get("failing_line", case))[:3000])
    return 0

"""C15 Single-party signatures verify exactly for the signed message and key.

G: SigVerify (TLC): (a) generic Schnorr exactly over Z_q as a KeyGen/Sign/Alter/Verify state machine with a lazily
   sampled random oracle, exhaustive over keys, nonces, oracle values and alterations; (b) the decision tables of
   ECDSA / BIP-340 / Mina / plain Schnorr / BLS, every row cross-checked against an exact small model of the
   scheme's verification equation (abstract x-coordinate and parity over Z_q; BLS as bilinear forms).
R: harness/cmd/sigverify runs the real sign / verify / recover / normalise / aggregate / batch / PoP code: generic
   Schnorr on the toy group for all keys x nonces x single-component alterations (scripted reader), and the
   production schemes over the full alteration product, with independent oracles evaluated into booleans
   (math/big ECDSA and BIP-340, crypto/ecdsa, crypto/ed25519, known-secret BLS identity, published vectors).
V: SigVerifyTrace (TLC) re-decides every logged call: toy by the equation, production by table and oracle."""
import os, json
import vlib

SPEC = os.path.join(vlib.SPECS, "SigVerify")

ECDSA_QUICK = ["ecdsa-k256-sha256", "ecdsa-p256-sha256", "ecdsa-p256-sha256-det", "ecdsa-k256-sha3-256"]
ECDSA_ALL = ["ecdsa-k256-sha256", "ecdsa-k256-sha512", "ecdsa-k256-sha3-256", "ecdsa-p256-sha256", "ecdsa-p256-sha512",
             "ecdsa-p256-sha3-256", "ecdsa-p256-sha256-det"]
SCHNORR_ALL = ["bip340", "schnorr-k256-sha256", "schnorr-k256-sha256-neg", "schnorr-p256-sha3", "schnorr-pallas-sha256",
               "schnorr-ed25519-sha512le", "mina-main", "mina-test", "mina-rand"]
BLS_QUICK = ["bls-short-basic", "bls-short-pop", "bls-long-aug", "bls-long-pop"]
BLS_ALL = ["bls-short-basic", "bls-short-aug", "bls-short-pop", "bls-long-basic", "bls-long-aug", "bls-long-pop"]

# rows every production trace must contain (the driver walks the full product; a shorter trace is a machinery error)
ROWS_ECDSA = 2 * 3 * 3 * 3 * 5 * 2      # alt x strict, per original form
ROWS_SCHNORR = 2 * 4 * 4 * 5            # alt (the cached challenge is varied on top)


def key_of(row):
    a = row.get("a")
    if a in ("tverify", "tpverify"):
        return "toy:%s:neg=%s:R=%s:s=%s:pk=%s:m=%s:E=%s" % (a, row.get("neg"), row.get("R"), row.get("s"), row.get("pk"), row.get("m"), row.get("E"))
    if a in ("tsign", "tkeygen"):
        return "toy:%s:neg=%s:x=%s:script=%s:m=%s" % (a, row.get("neg"), row.get("x"), row.get("script"), row.get("m"))
    if a in ("everify", "sverify", "bverify"):
        alt = row.get("alt", {})
        return "%s:%s:%s%s" % (a, row.get("suite"), ",".join("%s=%s" % kv for kv in sorted(alt.items())),
                               ":strict" if row.get("strict") else "")
    if a == "bagg":
        return "bagg:%s:n=%s:same=%s:%s" % (row.get("suite"), row.get("n"), row.get("same"), row.get("lab"))
    if a == "ebound":
        return "ebound:%s:off=%s" % (row.get("suite"), row.get("off"))
    if a == "construct":
        return "construct:%s:%s" % (row.get("suite"), row.get("what"))
    if a == "vector":
        return "vector:%s:%s" % (row.get("kind"), row.get("file"))
    if a == "sbatch":
        return "sbatch:%s:%s" % (row.get("suite"), json.dumps(row.get("items"), sort_keys=True)[:160])
    return "%s:%s" % (a, row.get("suite", ""))


def run(chk):
    binary = vlib.build("sigverify")
    quick = chk.quick
    seed = str(chk.seed)
    T = "SigVerifyTrace_q11.cfg"
    # groups of driver jobs; the traces of one group are validated together (one TLC run per 15000 lines)
    groups = []   # (group tag, trace cfg, [(tag, driver args, row expectation)])
    if quick:
        groups.append(("toy-q11", T, [("toy-q11", ["-mode", "toy", "-q", "11", "-cross", "1"], None)]))
        groups.append(("ecdsa", T, [(s, ["-mode", "ecdsa", "-suite", s, "-n", "1"], ("everify", ROWS_ECDSA)) for s in ECDSA_QUICK]))
        groups.append(("schnorr", T, [("schnorr-a", ["-mode", "schnorr", "-suite", "schnorr-", "-n", "1"], ("sverify", ROWS_SCHNORR)),
                                      ("bip340", ["-mode", "schnorr", "-suite", "bip340", "-n", "2"], ("sverify", ROWS_SCHNORR)),
                                      ("mina", ["-mode", "schnorr", "-suite", "mina-", "-n", "1"], ("sverify", ROWS_SCHNORR)),
                                      ("vectors", ["-mode", "vectors", "-repo", vlib.REPO], None)]))
        groups.append(("bls", T, [(s, ["-mode", "bls", "-suite", s, "-n", "1", "-nagg", "2"], None) for s in BLS_QUICK]))
        mcs = [("SigVerifyMC_schnorr_q11.cfg", 4), ("SigVerifyMC_tables_q7.cfg", 2)]
    else:
        groups.append(("toy-q11", T, [("toy-q11", ["-mode", "toy", "-q", "11", "-cross", "8"], None)]))
        groups.append(("toy-q5", "SigVerifyTrace_q5.cfg", [("toy-q5", ["-mode", "toy", "-q", "5", "-cross", "8"], None)]))
        groups.append(("toy-q23", "SigVerifyTrace_q23.cfg", [("toy-q23", ["-mode", "toy", "-q", "23", "-cross", "1"], None)]))
        groups.append(("ecdsa", T, [(s, ["-mode", "ecdsa", "-suite", s, "-n", "3"], ("everify", ROWS_ECDSA)) for s in ECDSA_ALL]))
        groups.append(("schnorr", T, [(s, ["-mode", "schnorr", "-suite", s, "-n", "4"], ("sverify", ROWS_SCHNORR)) for s in SCHNORR_ALL]
                       + [("vectors", ["-mode", "vectors", "-repo", vlib.REPO], None)]))
        groups.append(("bls", T, [(s, ["-mode", "bls", "-suite", s, "-n", "2", "-nagg", "3"], None) for s in BLS_ALL]))
        mcs = [("SigVerifyMC_schnorr_q11.cfg", 4), ("SigVerifyMC_schnorr_q11neg.cfg", 4), ("SigVerifyMC_schnorr_q7x2.cfg", 4),
               ("SigVerifyMC_tables_q7.cfg", 2), ("SigVerifyMC_tables_q11.cfg", 2)]

    only = os.environ.get("VERIF_ONLY")     # development aid: run only the named driver groups, no model checking
    if only:
        groups = [g for g in groups if g[0] in only.split(",")]
        mcs = []
    tasks = [("mc:" + c, (lambda c=c, w=w: vlib.tlc(SPEC, "SigVerify", c, workers=w, timeout=1700))) for c, w in mcs]
    stats = {"lines": 0, "by_action": {}, "accepts": 0, "rows": {}, "jobs": 0}

    def drive(tag, args, expect):
        def fn():
            rd = vlib.scratch(chk.prop, "drv-" + tag)
            out = os.path.join(rd, "trace.ndjson")
            vlib.run_driver(binary, args + ["-out", out, "-seed", seed], timeout=1700)
            rows = vlib.read_ndjson(out)
            hdr, rows = rows[0], rows[1:]
            if not rows:
                raise vlib.MachineryError("driver job %s produced no events" % tag)
            distinct = set()
            for r in rows:
                r["k"] = tag + "/" + r.get("k", "")
                stats["by_action"][r["a"]] = stats["by_action"].get(r["a"], 0) + 1
                if r.get("acc") is True:
                    stats["accepts"] += 1
                if expect and r["a"] == expect[0]:
                    distinct.add(json.dumps([r.get("suite"), r.get("alt"), r.get("strict")], sort_keys=True))
            if expect:
                suites = {r.get("suite") for r in rows if r["a"] == expect[0]}
                if not suites or len(distinct) != expect[1] * len(suites):
                    raise vlib.MachineryError("job %s walked %d distinct table rows of %d suites, expected %d each" % (tag, len(distinct), len(suites), expect[1]))
                stats["rows"][tag] = len(distinct)
            for r in rows[:1] + rows[len(rows) // 2: len(rows) // 2 + 1]:
                chk.sample({"job": tag, "event": r}, cap=8)
            stats["jobs"] += 1
            return hdr, rows
        return fn

    def group(gtag, cfg, jobs):
        def fn():
            res = vlib.parallel([(tag, drive(tag, args, expect)) for tag, args, expect in jobs], max_workers=4)
            hdr, rows = None, []
            for tag, _, _ in jobs:
                h, r = res[tag]
                hdr = hdr if hdr is not None and "H" in hdr else h
                rows += r
            n = vlib.validate_chunks(chk, "trace-" + gtag, SPEC, "SigVerifyTrace", cfg, rows, header=hdr, chunk=15000,
                                     key_of=key_of, max_workers=4, timeout=1700)
            stats["lines"] += n
            return n
        return fn
    tasks += [("rv:" + gtag, group(gtag, cfg, jobs)) for gtag, cfg, jobs in groups]
    res = vlib.parallel(tasks, max_workers=7)
    for c, _ in mcs:
        r = res["mc:" + c]
        chk.add_mc("SigVerify/" + c, r)
        if r.violation:
            raise vlib.MachineryError("the specification itself is inconsistent (%s violates %s): %s" % (c, r.violation, r.cex[-1:]))
    chk.cov["traces_validated_against_impl"] = stats["jobs"]
    chk.cov["evaluations"] = stats["lines"]
    chk.cov["distinct_nontrivial"] = stats["lines"]
    chk.cov["by_action"] = stats["by_action"]
    chk.cov["accepted_presentations"] = stats["accepts"]
    chk.cov["table_rows_walked"] = stats["rows"]
    chk.cov["rule"] = ("each trace line is one real call with its outcome: toy generic Schnorr keygen/sign/verify/partial-verify/batch for every key x nonce x "
                       "message and every value of every single altered component over Z_11 (thorough: Z_5, Z_23, and full cross products for sampled "
                       "signatures); production: every row of the alteration product per suite (ECDSA 540 rows x 2 original forms x honest signatures; "
                       "Schnorr family 160 rows x 3 cached-challenge variants; BLS 120/480 single rows and every aggregate label x signer count x "
                       "same/distinct messages), constructors, normalisation, recovery, batches and the shipped/published vectors")
    chk.cov["exhaustive"] = True
    chk.assumptions += [
        "device X: generic Schnorr on a toy group runs the generic schnorrlike code production groups use; device T: production schemes are judged by "
        "alteration class and by independent-oracle booleans, so the statement for production curves is over the sampled keys/messages, not all",
        "trusted: TLC, the SigVerify tables (each row cross-checked by TLC against an exact small model), the harness's math/big short-Weierstrass, ECDSA and "
        "BIP-340 code, crypto/ecdsa, crypto/ed25519, SHA-2/SHA-3 of the Go standard library; for BLS the library's own hash-to-curve and scalar "
        "multiplication are trusted inside the known-secret identity sigma = [x]H(m) (no second pairing implementation exists in the sandbox)",
        "the cached challenge field Signature.E is not a column of the tables: no non-partial verifier reads it (it is recomputed from R, P, m), so changing "
        "it alone does not change the decoded signature (R, s); only the partial-signature verifier trusts it, which is modelled",
        "classes 'other' are fresh random values; an accidental accept there has probability about 2^-128 and would be reported (never observed)",
        "cgo/BoringSSL variants of the number layer are out of reach (purego build)",
    ]
    return chk.finish()


def replay(chk, path):
    case = json.load(open(path))["case"]
    print(json.dumps(case))
    return 0

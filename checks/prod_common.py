"""Production-curve parts (family ProdProto) of C03 / C01 / C09.

G: specs/ProdProto/SignAlgebra.tla (+ SignAlgebraMC, SA_*.cfg): design-level model over Z_q (q = 5, 7) of the signing algebra of
   DKLs23, Lindell17, Boldyreva BLS and Lindell22 with the BIP-340 / Mina parity rules, over threshold / unanimity / CNF / gate-tree
   span programmes (holders with several rows included), every qualified and unqualified quorum.
R: harness/prod (driver `prodproto`; `prod.test` = the same sources as a test binary, in which the library's key-size floors are off,
   for Lindell17 with 1024-bit Paillier keys): real honest runs on the production curves.
V: specs/ProdProto/ProdTrace.tla re-decides every recorded run: qualification is computed from the logged policy, the driver only
   logs what happened plus booleans of oracles that do not use the code under test.

run_keygen / run_sign / run_otvole add their coverage to the Check they are given and do NOT call chk.finish().
"""
import os
import vlib

SPEC = os.path.join(vlib.SPECS, "ProdProto")
CACHE = os.path.join(vlib.WORK, "cache", "prod")
FIXTURE_POOL = os.path.join(vlib.VERIF, "harness", "prod", "fixtures", "cggmp_pool_2048.cbor")

# every configuration spends one to two minutes evaluating its constants (span programmes, coefficient tables) before the first state
SA_QUICK = ["SA_bls_q5.cfg", "SA_schnorr_q5_pairs.cfg", "SA_l17_q7.cfg", "SA_dkls_q5_quick.cfg"]
SA_THOROUGH = SA_QUICK + ["SA_schnorr_q5_triples.cfg", "SA_l17_q5_smallN.cfg", "SA_bls_q7.cfg", "SA_schnorr_q7.cfg", "SA_l17_q5.cfg", "SA_dkls_q5_triples.cfg", "SA_dkls_q5_pairs.cfg", "SA_dkls_q7_pairs.cfg"]


def key_of(row):
    """Key of a rejected line (one report and one known_findings entry per key). Signing lines are keyed by protocol, variant,
    group and the stage at which the run departs from an accepted one - not by quorum / policy / message, which vary with the seed."""
    r = row
    if r.get("a") == "signdev":
        honest = [x for x in r["rejects"] if x["party"] != r["dev"]]
        bad_blame = any(b != r["dev"] for x in honest for b in x["blamed"])
        why = "panic" if any(x["panic"] for x in r["rejects"]) else ("honest-blamed" if bad_blame else ("bad-output" if r["outs"] else "not-caught"))
        return "signdev:%s:%s:%s:r%s:%s:%s:%s:%s" % (r["proto"], r["variant"], r["group"], r["dRound"], r["dKind"], r["leaf"], r["op"], why)
    if r.get("a") == "otdev":
        return "otdev:%s:%s:msg%s:%s:%s:%s" % (r["proto"], r["group"], r["msg"], r["leaf"], r["op"], "completed" if r["completed"] else ("panic" if r.get("panic") else "other"))
    if r.get("a") == "blsdev":
        return "blsdev:%s:%s:nComp%s:%s" % (r["variant"], r["kind"], ">1" if r["nComp"] > 1 else "=1", "accepted" if r["ok"] else ("panic" if r["panic"] else "blame"))
    if r.get("a") != "sign":
        return r.get("k") or r.get("a", "?")
    if "keyErr" in r:
        why = "keyErr"
    elif not r["started"]:
        oks = [c["ok"] for c in r["ctor"]]
        why = "ctor-refused" if not any(oks) else ("ctor-accepted" if all(oks) else "ctor-mixed")
    elif r["rejects"]:
        why = "reject-r%s" % min(x["round"] for x in r["rejects"])
    elif r["outErrs"]:
        why = "outErr-" + "+".join(sorted(set("plain" if o["who"] == "agg:plain" else "cosigning" for o in r["outErrs"])))
    elif len(set(o["tok"] for o in r["outs"])) > 1:
        why = "outputs-differ"
    elif not r["signed"]:
        why = "no-signature"
    else:
        why = "relations"
    return "sign:%s:%s:%s:%s" % (r["proto"], r["variant"], r["group"], why)


def _build(need_plain=True, need_test=False):
    tasks = []
    if need_plain:
        tasks.append(("plain", lambda: vlib.build("prodproto")))
    if need_test:
        tasks.append(("test", lambda: vlib.build("prod", testmode=True)))
    # with VERIF_REPO (mutant runs) vlib.build re-creates a private copy of the harness module: those builds must not overlap
    return vlib.parallel(tasks, max_workers=2 if vlib.REPO == "/repo" else 1)


def _job(chk, tag, binary, testmode, args, stats, on_rows, chunk, timeout):
    def fn():
        rd = vlib.scratch(chk.prop, "prod-" + tag)
        out = os.path.join(rd, "trace.ndjson")
        vlib.run_driver(binary, list(args) + ["-out", out, "-seed", str(chk.seed), "-tier", chk.tier], testmode=testmode, timeout=timeout)
        rows = vlib.read_ndjson(out)
        hdr, body = rows[0], rows[1:]
        for r in body:      # a round that hit the harness's per-round timeout (overloaded machine) is not a verdict
            if any(x.get("timeout") for x in r.get("rejects", []) if isinstance(x, dict)):
                raise vlib.MachineryError("round timeout in %s: %s" % (tag, r.get("k")))
        on_rows(tag, body)
        if not body:
            return 0
        # tokens are interned per driver process: the lines of one process are validated together, never mixed with another's
        return vlib.validate_chunks(chk, "ptrace-" + tag, SPEC, "ProdTrace", "ProdTrace.cfg", body, header=hdr, chunk=chunk,
                                    key_of=key_of, max_workers=3, timeout=3000)
    return fn


def _bump(d, k, n=1):
    d[k] = d.get(k, 0) + n


def _finish_part(chk, name, stats, res, nontrivial, rule):
    """The host check (C01 / C03 / C09) ASSIGNS the top-level counters of its evidence after this part has run, so the part's
    counts are added when the host finishes: chk.finish is wrapped once."""
    n = sum(v for k, v in res.items() if k.startswith("rv:"))
    stats["validated_lines"], stats["rule"] = n, rule
    chk.cov[name] = stats
    pend = _hook(chk)
    pend["n"] += n
    pend["nontrivial"] += nontrivial
    pend["rules"].append(rule)


def _hook(chk):
    """Wraps chk.finish once: join the parts started with background(), add their counts, then write the evidence."""
    pend = getattr(chk, "_prod_pending", None)
    if pend is None:
        pend = chk._prod_pending = {"n": 0, "nontrivial": 0, "rules": [], "joins": []}
        orig = chk.finish

        def finish(level="model_checking"):
            for j in pend["joins"]:
                j()
            chk.cov["traces_validated_against_impl"] += pend["n"]
            chk.cov["evaluations"] += pend["n"]
            chk.cov["distinct_nontrivial"] += pend["nontrivial"]
            chk.cov["rule"] = " | ".join([x for x in [chk.cov.get("rule")] + pend["rules"] if x])
            return orig(level)
        chk.finish = finish
    return pend


def background(part, chk):
    """Start run_keygen / run_sign / run_otvole on a thread so that it overlaps with the host check's own work; chk.finish() waits
    for it (and re-raises its MachineryError).  Usage, first line of run(chk):  prod_common.background(prod_common.run_sign, chk)"""
    import threading
    box = {}

    def target():
        try:
            part(chk)
        except BaseException as ex:      # re-raised on the main thread by finish()
            box["err"] = ex
    t = threading.Thread(target=target, name="prod-part")
    t.start()

    def join():
        t.join()
        if "err" in box:
            raise box["err"]
    _hook(chk)["joins"].append(join)
    return join


# ------------------------------------------------------------------------------------------------------------------- keygen (C03)

def run_keygen(chk):
    """Trusted dealer / Gennaro / Canetti on the seven prime-order groups (k256, P-256, ed25519 prime subgroup, pallas, vesta,
    BLS12-381 G1 and G2), Fiat-Shamir everywhere and the two Fischlin compilers on two groups; rounds and runner API."""
    binary = _build()["plain"]
    stats = {"lines": 0, "by_proto": {}, "by_group": {}, "by_api": {}, "by_policy": {}, "failed_runs": 0}

    def on_rows(tag, body):
        for r in body:
            stats["lines"] += 1
            _bump(stats["by_proto"], r["proto"] + ("/" + r["comp"] if r.get("comp") else ""))
            _bump(stats["by_group"], r["group"])
            _bump(stats["by_api"], r["api"])
            _bump(stats["by_policy"], r["polName"])
            if not r["ok"]:
                stats["failed_runs"] += 1
        if body:
            e = body[0]
            chk.sample({"prod_keygen": e["k"], "ok": e["ok"], "pkTok": e.get("pkTok"), "shareMatches": e.get("shareMatches"),
                        "subsets": [(s["set"], s["reconEqX"]) for s in e.get("subsets", [])][:7]}, cap=8)
    if chk.quick:
        groups = [["gennaro:k256", "gennaro:p256", "canetti:k256", "canetti:blsG2", "dealer:"],
                  ["gennaro:ed25519", "gennaro:pallas", "canetti:p256", "canetti:ed25519", "fischlin:k256"],
                  ["gennaro:vesta", "gennaro:blsG1", "canetti:pallas", "canetti:vesta", "randfischlin:ed25519"],
                  ["gennaro:blsG2", "canetti:blsG1"]]
        scale = 1
    else:
        groups = [["gennaro:" + g, "canetti:" + g] for g in ("k256", "p256", "ed25519", "pallas", "vesta", "blsG1", "blsG2")] + \
                 [["dealer:"], ["fischlin:k256"], ["randfischlin:ed25519"], ["fischlin:p256"], ["randfischlin:pallas"], ["gennaroall:"]]
        scale = 3
    tasks = []
    for i, only in enumerate(groups):
        tasks.append(("rv:keygen-%d" % i, _job(chk, "keygen-%d" % i, binary, False,
                                              ["-mode", "keygen", "-only", ",".join(only), "-scale", str(scale)], stats, on_rows, 2000, 3000)))
    res = vlib.parallel(tasks, max_workers=12)
    _finish_part(chk, "prod_keygen", stats, res, stats["lines"] - stats["failed_runs"],
                 "prod keygen: one case = one complete key generation on a production group followed by the projection of every party's shard, "
                 "reconstruction from every subset and store/reload")
    chk.assumptions += [
        "production-curve key generation (ProdProto): values are tokens (equal bytes <=> equal token) and booleans evaluated by oracles "
        "independent of /repo's curve arithmetic (math/big short-Weierstrass models of secp256k1, P-256, pallas, vesta, BLS12-381 G1 and an "
        "Fp2 model of G2; math/big linear algebra over Z_n); for the edwards25519 prime subgroup [k]G is computed by the library (no model)",
        "the Fischlin compilers run on two groups in the quick tier (four in thorough) with a 2-of-2 policy",
        "Lindell17 / CGGMP21 auxiliary-material key generation is exercised through the signing part (C01), not here"]
    return res


# ------------------------------------------------------------------------------------------------------------------- sign (C01)

def run_sign(chk):
    """DKLs23 (rvole/bbot and rvole/softspoken) and Lindell17 on k256 / P-256, CGGMP21 on k256 (thorough: P-256), Lindell22 with BIP-340
    (k256), Mina (pallas) and generic Schnorr (k256, P-256, Ed25519-compatible), Boldyreva BLS short / long x basic / aug / pop."""
    bins = _build(need_test=True)
    plain, test = bins["plain"], bins["test"]
    os.makedirs(CACHE, exist_ok=True)
    # CGGMP21 auxiliary material (ten 1024-bit safe / Blum prime pairs) takes minutes to sample: the quick tier starts from a pool that
    # the library's own samplers produced once (committed fixture); the thorough tier samples a fresh pool when the cache is empty
    pool = os.path.join(CACHE, "cggmp_pool_2048.cbor")
    if chk.quick and not os.path.exists(pool) and os.path.exists(FIXTURE_POOL):
        import shutil
        shutil.copy(FIXTURE_POOL, pool)
    stats = {"lines": 0, "by_proto": {}, "by_kind": {}, "by_api": {}, "by_keysrc": {}, "by_policy": {}, "signed": 0, "refused": 0,
             "three_or_more_signers_signed": 0, "replicated_policy_signed": 0, "key_errors": 0}

    def on_rows(tag, body):
        for r in body:
            stats["lines"] += 1
            _bump(stats["by_proto"], r["proto"] + ":" + r["variant"] + ":" + r["group"])
            _bump(stats["by_kind"], r["qkind"])
            if r.get("hash"):
                _bump(stats.setdefault("by_hash", {}), r["proto"] + ":" + r["hash"])
            _bump(stats["by_api"], r["api"])
            _bump(stats["by_keysrc"], r["keysrc"])
            _bump(stats["by_policy"], r["polName"])
            if "keyErr" in r:
                stats["key_errors"] += 1
            if r["signed"]:
                stats["signed"] += 1
                if len(r["quorum"]) >= 3:
                    stats["three_or_more_signers_signed"] += 1
                if r["polName"] in ("cnf3", "cnf4", "gate3"):
                    stats["replicated_policy_signed"] += 1
            elif not r["started"]:
                stats["refused"] += 1
        for e in body:
            if e["signed"]:
                chk.sample({"prod_sign": e["k"], "outs": e["outs"], "verify_lib": e["verify_lib"], "verify_indep": e["verify_indep"],
                            "verify_other_lib": e["verify_other_lib"], "indep": e.get("indep")}, cap=8)
                break
    q = chk.quick
    plan = [("dkls", plain, False, "sign:dkls23", 6 if q else 12),
            ("l17", test, True, "sign:lindell17", 3 if q else 6),
            ("l22", plain, False, "sign:lindell22", 4 if q else 4),
            ("bls", plain, False, "sign:bls", 5 if q else 8),
            ("cggmp", test, True, "sign:cggmp21", 2 if q else 6)]
    tasks = []
    big = [] if q else SA_THOROUGH[-4:]            # the four multi-million-state configurations start first, the small ones fill the tail
    mc_first, mc_last = [], []
    for cfg in (SA_QUICK if q else SA_THOROUGH):
        (mc_first if cfg in big else mc_last).append(("mc:" + cfg, (lambda cfg=cfg: vlib.tlc(SPEC, "SignAlgebraMC", cfg, workers=1 if q else 3, timeout=3400, deadlock=True,
                                                             rundir=vlib.scratch(chk.prop, "mc-" + cfg.replace(".cfg", ""))))))
    tasks += mc_first
    for tag, binary, tm, only, parts in plan:
        for i in range(parts):
            args = ["-mode", "sign", "-only", only, "-parts", str(parts), "-part", str(i), "-cache", CACHE]
            tasks.append(("rv:%s-%d" % (tag, i), _job(chk, "%s-%d" % (tag, i), binary, tm, args, stats, on_rows, 400, 3400)))
    tasks += mc_last
    res = vlib.parallel(tasks, max_workers=14)
    for name, r in res.items():
        if name.startswith("mc:"):
            chk.add_mc("SignAlgebraMC/" + name[3:], r)
            if r.violation:
                chk.violation("model:" + name[3:] + ":" + r.violation,
                              "the design model of the signing algebra violates %s (%s)" % (r.violation, name[3:]), {"cex": r.cex})
    _finish_part(chk, "prod_sign", stats, res, stats["signed"],
                 "prod sign: one case = one complete threshold-signing attempt on a production curve (constructors, all rounds, every "
                 "aggregator, both verifiers); non-trivial = runs that produced a signature")
    chk.assumptions += [
        "production-curve signing (ProdProto): tokens and oracle booleans; independent verifiers are math/big SEC 1 ECDSA verification and "
        "key recovery (+ crypto/ecdsa on P-256), BIP-340 Verify on bytes over math/big, crypto/ed25519 for the Ed25519-compatible Schnorr "
        "configuration, the Schnorr equation on math/big curve models with the challenge recomputed by the standard library's hash (for Mina "
        "the Poseidon challenge is taken from the signature: hashing is C19), sigma = [x]H(m) on math/big models of G1 / G2 with the secret "
        "reconstructed by math/big and H(m) from the library's hash-to-curve (C19)",
        "Lindell17 runs in the test-mode binary with 1024-bit Paillier keys (as the repository's tests do); CGGMP21 auxiliary material "
        "(2048-bit) is sampled once by the library's samplers and cached under work/cache/prod, base shards come from dealing / Gennaro / Canetti; "
        "CGGMP21 runs through the runner API only; Boldyreva has no runner API",
        "1/q refusals the code documents (identity / zero values, 'must be retried') are named guards of ProdTrace that apply to groups below "
        "128 bits only: on production groups they have probability < 2^-250 and an honest run that ends in one is reported",
        "the quick tier samples the (policy, quorum, key source, API, message) matrix by seed; DKLs23 / Lindell17 / CGGMP21 cost seconds to "
        "tens of seconds per run"]
    return res


# ------------------------------------------------------------------------------------------------------------------- OT / VOLE (C09)

def run_otvole(chk):
    """VSOT, the SoftSpoken extension seeded by a real VSOT batch, random VOLE over SoftSpoken; k256 and P-256."""
    binary = _build()["plain"]
    stats = {"lines": 0, "by_proto": {}, "instances": 0, "vole_components": 0, "not_completed": 0}

    def on_rows(tag, body):
        for r in body:
            stats["lines"] += 1
            _bump(stats["by_proto"], r["proto"] + ":" + r["group"])
            if not r["completed"]:
                stats["not_completed"] += 1
            elif r["a"] == "ot":
                stats["instances"] += r["xi"]
            else:
                stats["vole_components"] += r["L"]
        for e in body:
            if e["a"] == "vole" and e["completed"]:
                chk.sample({"prod_vole": e["k"], "sumOK": e["sumOK"]}, cap=8)
                break
        for e in body:
            if e["a"] == "ot" and e["completed"]:
                chk.sample({"prod_ot": e["k"], "choices": e["choices"][:8], "s0": e["s0"][:4], "s1": e["s1"][:4], "recv": e["recv"][:4]}, cap=8)
                break
    parts = 4 if chk.quick else 8
    tasks = []
    for i in range(parts):
        args = ["-mode", "otvole", "-parts", str(parts), "-part", str(i), "-scale", "1" if chk.quick else "2"]
        tasks.append(("rv:otvole-%d" % i, _job(chk, "otvole-%d" % i, binary, False, args, stats, on_rows, 40, 3000)))
    res = vlib.parallel(tasks, max_workers=10)
    _finish_part(chk, "prod_otvole", stats, res, stats["lines"] - stats["not_completed"],
                 "prod otvole: one case = one real OT batch (all instances compared) or one VOLE multiplication (all components) on k256 / P-256")
    chk.assumptions += [
        "production-curve OT / VOLE (ProdProto): VSOT, SoftSpoken (seeded by a real VSOT run), rvole/softspoken with both parties honest; "
        "OT outputs are compared as tokens by ProdTrace, c + d = a * b is evaluated with math/big modulo the group order; rvole/bbot and ecbbot "
        "on production curves run inside DKLs23 signing (C01 part)"]
    return res


# ------------------------------------------------------------------------------------------------------------------- deviating cosigner, BLS (C04)

def run_blsdev(chk):
    """Boldyreva threshold BLS with one deviating cosigner: every alteration of the partial signature (components, cancelling offsets,
    order, other message, length, proofs of possession, a peer's partial signature) against an honest aggregator; short / long keys x
    basic / aug / pop; single-component (threshold) and replicated (CNF, gate) sharings."""
    binary = _build()["plain"]
    stats = {"lines": 0, "by_kind": {}, "by_variant": {}, "by_policy": {}, "multi_component": 0, "blamed_deviator": 0}

    def on_rows(tag, body):
        for r in body:
            stats["lines"] += 1
            _bump(stats["by_kind"], r["kind"])
            _bump(stats["by_variant"], r["variant"])
            _bump(stats["by_policy"], r["polName"])
            if r["nComp"] > 1:
                stats["multi_component"] += 1
            if r["blamed"] == [r["dev"]]:
                stats["blamed_deviator"] += 1
        if body:
            e = body[len(body) // 2]
            chk.sample({"prod_blsdev": e["k"], "ok": e["ok"], "blamed": e["blamed"], "err": e["err"][:160]}, cap=8)
    variants = ["tamper:bls:%s-%s" % (v, m) for v in ("short", "long") for m in ("basic", "aug", "pop")]
    tasks = []
    for i, v in enumerate(variants):
        tasks.append(("rv:blsdev-%d" % i, _job(chk, "blsdev-%d" % i, binary, False, ["-mode", "tamper", "-only", v], stats, on_rows, 400, 3000)))
    res = vlib.parallel(tasks, max_workers=6)
    if stats["lines"] == 0 or stats["multi_component"] == 0:
        raise vlib.MachineryError("BLS deviation driver produced %d lines (%d with several components)" % (stats["lines"], stats["multi_component"]))
    _finish_part(chk, "prod_blsdev", stats, res, stats["lines"],
                 "prod blsdev: one case = one altered partial signature of one deviating cosigner presented to an honest aggregator (real pairings)")
    chk.assumptions += [
        "Boldyreva BLS deviation matrix (ProdProto, production curve BLS12-381): one deviating cosigner, alterations keep every point a valid "
        "subgroup element so that only the pairing checks can catch them; the quick tier takes two deviators per quorum and the replicated CNF "
        "policy cnf3 for every variant plus half of {th2of3, cnf4, gate3} by seed"]
    return res


# ------------------------------------------------------------------------------------------------------------------- altered OT / VOLE messages (C09)

def run_otdev(chk):
    """VSOT, SoftSpoken and rvole/softspoken on secp256k1 (thorough: and P-256): every (wire message, CBOR leaf class, first / last
    position, flip / swap) alteration between two honest endpoints must end in an abort."""
    binary = _build()["plain"]
    stats = {"lines": 0, "by_proto": {}, "by_leaf": {}, "aborted_at": {}}

    def on_rows(tag, body):
        for r in body:
            stats["lines"] += 1
            _bump(stats["by_proto"], r["proto"] + ":" + r["group"])
            _bump(stats["by_leaf"], "%s:msg%d:%s:%s" % (r["proto"], r["msg"], r["leaf"], r["op"]))
            _bump(stats["aborted_at"], "%s:msg%d->%s" % (r["proto"], r["msg"], r["failedAt"]))
        if body:
            e = body[len(body) // 2]
            chk.sample({"prod_otdev": e["k"], "completed": e["completed"], "failedAt": e["failedAt"], "err": e["err"][:120]}, cap=8)
    tasks = [("rv:otdev", _job(chk, "otdev", binary, False, ["-mode", "otdev"], stats, on_rows, 400, 3000))]
    res = vlib.parallel(tasks, max_workers=2)
    if stats["lines"] < 40:
        raise vlib.MachineryError("OT / VOLE deviation driver produced only %d lines" % stats["lines"])
    _finish_part(chk, "prod_otdev", stats, res, stats["lines"],
                 "prod otdev: one case = one run of VSOT / SoftSpoken / rvole-softspoken with one altered wire message")
    chk.assumptions += [
        "OT / VOLE deviations on production curves (ProdProto): the alteration happens in flight between two HONEST endpoints, so whoever notices "
        "first aborts (for a message whose sender also checks a later reply that can be the sender itself); 'the other side aborts' is decided as "
        "'the run does not complete, nothing panics, the first abort is at or after the altered message'. The matrix is read from the code's own "
        "messages: every byte-string leaf class (last byte changed) and every array (first and last element exchanged), first and last position"]
    return res


# ------------------------------------------------------------------------------------------------------------------- deviating signer, DKLs23 / Lindell22 (C04)

def run_signdev(chk):
    """DKLs23 (rvole/bbot on secp256k1, rvole/softspoken on P-256 over a replicated CNF sharing, three signers on secp256k1), Lindell22
    (BIP-340 on a CNF sharing, Mina with three signers) and Lindell17 (secp256k1), round API: one CBOR leaf of one message of one party altered per run."""
    binary = _build()["plain"]
    stats = {"lines": 0, "by_case": {}, "by_leaf": {}, "caught_by": {}, "plans_per_case": {}}

    def on_rows(tag, body):
        for r in body:
            stats["lines"] += 1
            case = "%s:%s:%s:n=%d" % (r["proto"], r["variant"], r["group"], len(r["quorum"]))
            _bump(stats["by_case"], case)
            stats["plans_per_case"][case] = r["plans"]
            _bump(stats["by_leaf"], "%s:r%d:%s:%s:%s" % (r["proto"], r["dRound"], r["dKind"], r["leaf"], r["op"]))
            honest = [x for x in r["rejects"] if x["party"] != r["dev"]]
            _bump(stats["caught_by"], "honest party" if honest else ("aggregator" if r["outErrs"] else ("deviator's own check" if r["rejects"] else "nobody")))
        if body:
            e = body[len(body) // 2]
            chk.sample({"prod_signdev": e["k"], "rejects": [(x["party"], x["round"], x["blamed"]) for x in e["rejects"]], "outErrs": len(e["outErrs"])}, cap=8)
    cases = ["signdev:dkls23-bbot", "signdev:dkls23-softspoken", "signdev:dkls23-three", "signdev:lindell22-bip340", "signdev:lindell22-mina"]
    take = "6" if chk.quick else "1000"      # deviations per case, spread over the case's plans by the seed (thorough: all)
    tasks = [("rv:signdev-%d" % i, _job(chk, "signdev-%d" % i, binary, False, ["-mode", "signdev", "-only", c, "-stride", take], stats, on_rows, 400, 3400))
             for i, c in enumerate(cases)]
    # Lindell17 (Fischlin-compiled proofs, Paillier ciphertext c3): the test-mode binary, 1024-bit Paillier keys; all 20 plans (12 s)
    test = vlib.build("prod", testmode=True)
    tasks.append(("rv:signdev-l17", _job(chk, "signdev-l17", test, True, ["-mode", "signdev", "-only", "signdev:lindell17", "-stride", "1000"], stats, on_rows, 400, 3400)))
    res = vlib.parallel(tasks, max_workers=5)
    if stats["lines"] < 15:
        raise vlib.MachineryError("signing deviation driver produced only %d lines" % stats["lines"])
    _finish_part(chk, "prod_signdev", stats, res, stats["lines"],
                 "prod signdev: one case = one DKLs23 / Lindell22 signing run on a production curve with one altered leaf of one message")
    chk.assumptions += [
        "DKLs23 / Lindell22 deviations on production curves (ProdProto): the altered message is the deviator's, everything else (the deviator's later "
        "rounds included) is honest code; blame is judged for the honest parties only. The quick tier takes 6 of the 18 - 120 plans of each of five "
        "cases by seed, the thorough tier all of them; Lindell17 (two parties, trusted-dealer key, test-mode binary) runs all of its 20 plans. CGGMP21 is not in this matrix"]
    return res


# ------------------------------------------------------------------------------------------------------------------- replay

def replay(case, seed=None, tier="quick"):
    """Reproduce a rejected line on the real code: re-run the slice of the matrix it belongs to (same mode, protocol and variant; the
    seed of VERIF_SEED, default 1) and print every line ProdTrace rejects.  `case` is the row stored in the replay file.
    Returns the number of rejected lines.  Usable from C01 / C03 / C09 replay():  if case.get("a") in ("sign", "keygen", "ot", "vole")."""
    seed = int(seed if seed is not None else os.environ.get("VERIF_SEED", "1"))
    a = case.get("a")
    testmode = False
    if a == "sign":
        only = "sign:%s" % case["proto"]
        if case["proto"] in ("lindell22", "bls"):
            only += ":" + case["variant"]
        testmode = case["proto"] in ("lindell17", "cggmp21")
        args = ["-mode", "sign", "-only", only, "-cache", CACHE]
    elif a == "keygen":
        args = ["-mode", "keygen", "-only", "%s:%s" % (case["proto"], case["group"] if case["proto"] != "dealer" else "")]
    else:
        args = ["-mode", "otvole"]
    binary = vlib.build("prod", testmode=True) if testmode else vlib.build("prodproto")
    chk = vlib.Check("replay_prod", tier, seed)
    rd = vlib.scratch(chk.prop, "drv")
    out = os.path.join(rd, "trace.ndjson")
    vlib.run_driver(binary, args + ["-out", out, "-seed", str(seed), "-tier", tier], testmode=testmode, timeout=3400)
    rows = vlib.read_ndjson(out)
    vlib.validate_chunks(chk, "ptrace", SPEC, "ProdTrace", "ProdTrace.cfg", rows[1:], header=rows[0], chunk=400, key_of=lambda r: r.get("k"), max_workers=3)
    want = key_of(case)
    hits = 0
    for key, text, path in chk.violations:
        row = [r for r in rows[1:] if r.get("k") == key]
        same = bool(row) and key_of(row[0]) == want
        hits += 1 if same else 0
        vlib.log("%s %s" % ("REPRODUCED" if same else "also rejected", key))
    vlib.log("replay: %d lines run, %d rejected, %d with the key of the stored case (%s)" % (len(rows) - 1, len(chk.violations), hits, want))
    return len(chk.violations)

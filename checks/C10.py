"""C10 Session setup gives all parties the same context and symmetric pairwise secrets.

G: Session.tla (TLC): commit-then-open coin tossing over symbolic values (hashes = injective constructors), 3 parties, every
   assignment of contributions, honest and with one Byzantine party that may open anything: Agreement, Symmetric, PairsDistinct,
   BlameOnlyCheater, CheaterCaught, AllHonestComplete.
R: harness/cmd/session: real setups (rounds over CBOR bytes and runner API over Routers), quorums of 2-5 parties with dense / sparse /
   large identifiers, every sub-context of every sub-quorum, pseudorandom zero shares on the toy group; plus the session rows of the
   single-leaf deviation matrix (harness/cmd/tamper -proto session).
V: SessionTrace (tokens for identifiers / transcripts / seeds, exact zero-share algebra) and TamperTrace (ProtoCore) by TLC."""
import os, json
import vlib
import C04

SPEC = os.path.join(vlib.SPECS, "Session")
PC = os.path.join(vlib.SPECS, "ProtoCore")


def run(chk):
    sbin = vlib.build("session")
    tbin = vlib.build("tamper")
    if chk.quick:
        jobs = [("q251", ["-q", "251", "-n", "40", "-parties", "4"]), ("q45971", ["-q", "45971", "-n", "25", "-parties", "5"])]
        tam = [("tamper", ["-q", "45971", "-proto", "session", "-seed", str(chk.seed)])]
    else:
        jobs = [("q251-%d" % i, ["-q", "251", "-n", "120", "-parties", "5"]) for i in range(3)] + \
               [("q45971-%d" % i, ["-q", "45971", "-n", "120", "-parties", "5"]) for i in range(3)] + [("q11", ["-q", "11", "-n", "120", "-parties", "4"])]
        tam = [("tamper-%d" % i, ["-q", "45971", "-proto", "session", "-seed", str(chk.seed * 10 + i)]) for i in range(4)]
    tasks = [("mc:honest", lambda: vlib.tlc(SPEC, "Session", "SessionMC_honest.cfg", workers=3, timeout=1200)),
             ("mc:byz", lambda: vlib.tlc(SPEC, "Session", "SessionMC_byz.cfg", workers=3, timeout=1200))]
    stats = {"sessions": 0, "subs": 0, "tamper": 0, "api": {}}

    def sess(tag, args, sub):
        def fn():
            rd = vlib.scratch(chk.prop, "drv-" + tag)
            out = os.path.join(rd, "trace.ndjson")
            vlib.run_driver(sbin, args + ["-out", out, "-seed", str(chk.seed * 100 + sub)])
            rows = vlib.read_ndjson(out)
            for r in rows[1:]:
                stats["sessions"] += 1
                stats["subs"] += len(r["subs"])
                stats["api"][r["api"]] = stats["api"].get(r["api"], 0) + 1
            chk.sample({"job": tag, "ids": rows[1]["ids"], "api": rows[1]["api"], "first": rows[1]["by"][str(rows[1]["ids"][0])]}, cap=3)
            # cross-session distinctness needs the whole file in one validation
            return vlib.validate_trace(chk, "trace-" + tag, SPEC, "SessionTrace", "SessionTrace.cfg", None, events=rows,
                                       key_of=lambda r: "session:%s" % r.get("api"))
        return fn

    def tamper(tag, args):
        def fn():
            rows = C04.run_tamper(chk, tbin, tag, args)
            hdr, body = rows[0], [r for r in rows[1:] if r.get("a") != "intent"]
            stats["tamper"] += len([r for r in body if r["a"] == "tamper"])
            return vlib.validate_chunks(chk, "trace-" + tag, PC, "TamperTrace", "TamperTrace.cfg", body, header=hdr, chunk=1500,
                                        key_of=C04.key_of, max_workers=2)
        return fn
    for i, (tag, args) in enumerate(jobs):
        tasks.append(("s:" + tag, sess(tag, args, i)))
    for tag, args in tam:
        tasks.append(("t:" + tag, tamper(tag, args)))
    res = vlib.parallel(tasks, max_workers=8)
    for n in ("mc:honest", "mc:byz"):
        chk.add_mc("Session/" + n, res[n])
        if res[n].violation:
            chk.violation("model:" + res[n].violation, "Session.tla violates %s" % res[n].violation, {"cex": res[n].cex})
    chk.cov["traces_validated_against_impl"] = stats["sessions"] + stats["tamper"]
    chk.cov["evaluations"] = stats["sessions"] + stats["subs"] + stats["tamper"]
    chk.cov["distinct_nontrivial"] = stats["sessions"] + stats["subs"]
    chk.cov["sessions"], chk.cov["subcontexts"], chk.cov["tamper_runs"], chk.cov["api"] = stats["sessions"], stats["subs"], stats["tamper"], stats["api"]
    chk.cov["rule"] = "one case = one real session (all parties, every sub-quorum's sub-context, zero shares) or one tampered session run; distinct = sessions + sub-context families"
    chk.assumptions += ["identifiers, transcripts and seeds are compared as tokens of their bytes; distinctness is asserted because the values are 32 bytes (production size) even on the toy group",
                        "zero-share algebra exact on the toy group; other groups run the same generic sampler"]
    return chk.finish()


def replay(chk, path):
    print(json.dumps(json.load(open(path))["case"])[:3000])
    return 0

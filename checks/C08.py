"""C08 Non-interactive proofs verify only for the right statement, prover and session.

G: TLC model-checks the design specifications of specs/Sigma on all (w, r, e, e') over small Z_q:
   Sigma (Maurer / batch-Schnorr three-move protocol with rewinding: completeness, special soundness,
   simulation, AND = product map), SigmaOr (OR with exactly one witness, XOR of sub-challenges),
   SigmaNI (Fiat-Shamir, Fischlin, randomised Fischlin, interactive zk compiler over symbolic hashes:
   accepted iff same context and untouched proof).
R: harness/cmd/sigma runs the real pkg/proofs code on the toy group (exact integers: every scalar, every
   group element as discrete log, raw challenge bytes) and on k256 / P-256 / BLS12-381 G1 (tokens):
   protocol level, AND / OR compositions, all compilers under every single-coordinate context
   difference and every class of single structural alteration of the proof bytes (own CBOR walker).
V: SigmaTrace (TLC) re-decides every logged call: recomputes z = r + e w, the verification equation,
   extraction, simulation, the XOR relation, and the per-compiler acceptance predicate."""
import os, re, json
import vlib

SPEC = os.path.join(vlib.SPECS, "Sigma")


# ---------------------------------------------------------------- trace validation (one TLC pass per chunk)

def outcome(row):
    return "panic" if row.get("panic") else ("accepted" if row.get("ok") else "rejected")


def leaf(shape):
    segs = [s for s in (shape or "").split("/") if s and s != "*"]
    return segs[-1] if segs else "-"


def key_of(row):
    """Stable identification of a case class: what was done, to which protocol, with which outcome
    (not the random values, not the position in the run)."""
    a = row.get("a")
    if a == "ni":
        diff = [n for n, p, v in zip(("sid", "hist", "label", "stmt", "name", "comp"), row["ctxP"], row["ctxV"]) if p != v]
        if row["xP"] != row["xV"] and "stmt" not in diff:
            diff.append("stmt")
        what = row["mut"] if row["mut"] != "none" else "ctx=" + ("+".join(diff) or "same")
        return "ni:%s:%s:%s:%s:%s" % (row["tag"], row["comp"], what, leaf(row.get("shape")), outcome(row))
    if a == "zk":
        diff = [n for n, p, v in zip(("sid", "hist", "label", "stmt", "name", "comp"), row["ctxP"], row["ctxV"]) if p != v]
        return "zk:%s:%s:tamper=%s:ctx=%s:%s" % (row["tag"], row["comp"], row["tamper"], "+".join(diff) or "same", outcome(row))
    if a in ("and", "or"):
        return "%s:%s:%s:%s" % (a, row["tag"], row["variant"], outcome(row))
    if a in ("run", "vfy", "ext"):
        # one class per protocol and per combination of the code's verdicts (the replay file holds the first such case)
        flags = ",".join("%s=%s" % (k, str(row[k]).lower()) for k in ("ok", "ok2", "xok", "sok", "panic") if k in row)
        arity = "" if a != "vfy" else ":n=%s/%s/%s" % (row.get("nx"), row.get("ncm"), row.get("nz"))
        return "%s:%s:%s%s" % (a, row["tag"], flags, arity)
    return "%s:%s" % (a, row.get("k"))


def validate(chk, name, rows, header, chunk=4000, max_workers=4, timeout=1500):
    """SigmaTrace walks the lines once and prints <<"REJECT", line, kind>> for every line it rejects."""
    chunks = [rows[i:i + chunk] for i in range(0, len(rows), chunk)] or [[]]

    def one(i, part):
        def fn():
            rd = vlib.scratch(chk.prop, "%s-%d" % (name, i))
            ev = [header] + part
            vlib.write_ndjson(os.path.join(rd, "trace.ndjson"), ev)
            res = vlib.tlc(SPEC, "SigmaTrace", "SigmaTrace.cfg", workers=1, timeout=timeout, rundir=rd, heap="3g")
            if res.error or res.violation:
                raise vlib.MachineryError("%s-%d: %s %s\n%s" % (name, i, res.error, res.violation, res.out[-1500:]))
            if res.distinct != len(ev) + 1:
                raise vlib.MachineryError("%s-%d: trace spec consumed %d of %d lines" % (name, i, res.distinct - 1, len(ev)))
            rej = re.findall(r'<<"REJECT", (\d+), "(\w+)">>', res.out)
            for ln, kind in rej:
                row = ev[int(ln) - 1]
                chk.violation(key_of(row), "trace line rejected by SigmaTrace (%s): %s" % (
                    "code differs from the specification" if kind == "case" else "property", json.dumps(row)[:900]), row)
            chk.cov["states"] += res.distinct
            chk.cov["transitions"] += res.generated
            chk.cov["parts"]["%s-%d" % (name, i)] = {"lines": len(part), "rejected_lines": len(set(l for l, _ in rej)), "wall_s": round(res.wall, 1)}
            vlib.log("[trace] %s-%d: %d lines, %d rejected (%.1fs)" % (name, i, len(part), len(set(l for l, _ in rej)), res.wall))
            return len(part)
        return fn
    res = vlib.parallel([("%s-%d" % (name, i), one(i, p)) for i, p in enumerate(chunks)], max_workers=max_workers)
    return sum(res.values())


# ---------------------------------------------------------------- the check

def run(chk):
    binary = vlib.build("sigma")
    quick = chk.quick
    S = str(chk.seed)
    if quick:
        mcs = [("SigmaMC", "SigmaMC_schnorr_q5.cfg"), ("SigmaMC", "SigmaMC_okamoto_q3.cfg"),
               ("SigmaMC", "SigmaMC_elcomop_q3.cfg"), ("SigmaMC", "SigmaMC_batch2_q5.cfg"),
               ("SigmaOrMC", "SigmaOrMC_schnorr_q3.cfg"),
               ("SigmaNIMC", "SigmaNIMC_fs_schnorr_q3.cfg"), ("SigmaNIMC", "SigmaNIMC_fs_okamoto_q3.cfg"),
               ("SigmaNIMC", "SigmaNIMC_zk_schnorr_q3.cfg"), ("SigmaNIMC", "SigmaNIMC_fischlin_schnorr_q3.cfg"),
               ("SigmaNIMC", "SigmaNIMC_randfischlin_schnorr_q3.cfg")]
        jobs = [("proto-exh-q5", ["-mode", "proto", "-q", "5", "-exh", "-protos", "schnorr", "-n", "40"]),
                ("proto-exh-q3", ["-mode", "proto", "-q", "3", "-exh", "-protos", "okamoto,elcomop,batch", "-n", "40"]),
                ("proto-q11", ["-mode", "proto", "-q", "11", "-n", "60", "-protos", "schnorr,schnorrh,okamoto,okamoto3,elcomop,batch,batch3"]),
                ("proto-q45971", ["-mode", "proto", "-q", "45971", "-n", "40", "-protos", "schnorr,schnorrh,okamoto,okamoto3,elcomop,batch,batch3"]),
                ("compose-q11", ["-mode", "compose", "-q", "11", "-n", "8"]),
                ("compose-q251", ["-mode", "compose", "-q", "251", "-n", "8"]),
                ("ni-q11-fs", ["-mode", "ni", "-q", "11", "-comps", "fs", "-proofs", "3", "-bits", "4", "-maxmut", "0", "-interactive"]),
                ("ni-q11-fischlin", ["-mode", "ni", "-q", "11", "-comps", "fischlin,randfischlin", "-proofs", "1", "-maxmut", "70"]),
                ("ni-q45971", ["-mode", "ni", "-q", "45971", "-comps", "fs", "-proofs", "2", "-bits", "4", "-maxmut", "0", "-interactive"]),
                ("nitok-q251", ["-mode", "nitok", "-q", "251", "-comps", "fs", "-proofs", "1", "-maxmut", "0", "-bits", "2"]),
                ("prod-k256", ["-mode", "prod", "-group", "k256", "-comps", "fs", "-proofs", "1", "-bits", "2", "-maxmut", "60",
                               "-protos", "schnorr,okamoto,batch,elcomop,elog,or", "-interactive"]),
                ("prod-p256", ["-mode", "prod", "-group", "p256", "-comps", "fs", "-proofs", "1", "-bits", "2", "-maxmut", "40",
                               "-protos", "schnorr,okamoto,batch"]),
                ("prod-bls", ["-mode", "prod", "-group", "bls12381g1", "-comps", "fs", "-proofs", "1", "-bits", "2", "-maxmut", "40",
                              "-protos", "schnorr,okamoto"])]
    else:
        mcs = [("SigmaMC", c) for c in ("SigmaMC_schnorr_q5.cfg", "SigmaMC_schnorr_q7.cfg", "SigmaMC_schnorr_q11.cfg", "SigmaMC_okamoto_q3.cfg",
                                        "SigmaMC_elcomop_q3.cfg", "SigmaMC_and2_q3.cfg", "SigmaMC_elog_q3.cfg", "SigmaMC_batch2_q5.cfg",
                                        "SigmaMC_batch2_q7.cfg", "SigmaMC_batch3_q5.cfg")]
        mcs += [("SigmaOrMC", "SigmaOrMC_schnorr_q3.cfg")]
        mcs += [("SigmaNIMC", c) for c in ("SigmaNIMC_fs_schnorr_q3.cfg", "SigmaNIMC_fs_schnorr_q5.cfg", "SigmaNIMC_fs_okamoto_q3.cfg",
                                          "SigmaNIMC_fs_elcomop_q3.cfg", "SigmaNIMC_zk_schnorr_q3.cfg", "SigmaNIMC_zk_schnorr_q5.cfg",
                                          "SigmaNIMC_fischlin_schnorr_q3.cfg", "SigmaNIMC_randfischlin_schnorr_q3.cfg")]
        # larger scopes that also hold but are not part of a tier (minutes each): SigmaMC_okamoto_q5 (3.3M states),
        # SigmaMC_elcomop_q5 (3.5M), SigmaOrMC_okamoto_q3 (6.1M), SigmaNIMC_fs_okamoto_q5, SigmaNIMC_*fischlin_schnorr_q5, SigmaNIMC_fischlin_okamoto_q3
        allp = "schnorr,schnorrh,okamoto,okamoto3,elcomop,batch,batch3"
        jobs = [("proto-exh-q11", ["-mode", "proto", "-q", "11", "-exh", "-protos", "schnorr", "-n", "100"]),
                ("proto-exh-q5", ["-mode", "proto", "-q", "5", "-exh", "-protos", "schnorr,schnorrh,okamoto,batch", "-n", "100"]),
                ("proto-exh-q5-elcomop", ["-mode", "proto", "-q", "5", "-exh", "-protos", "elcomop", "-n", "100"]),
                ("proto-exh-q3", ["-mode", "proto", "-q", "3", "-exh", "-protos", "okamoto,elcomop,batch", "-n", "100"]),
                ("proto-q11", ["-mode", "proto", "-q", "11", "-n", "300", "-protos", allp]),
                ("proto-q251", ["-mode", "proto", "-q", "251", "-n", "200", "-protos", allp]),
                ("proto-q45971", ["-mode", "proto", "-q", "45971", "-n", "200", "-protos", allp]),
                ("compose-q11", ["-mode", "compose", "-q", "11", "-n", "40"]),
                ("compose-q251", ["-mode", "compose", "-q", "251", "-n", "40"]),
                ("compose-q45971", ["-mode", "compose", "-q", "45971", "-n", "40"]),
                ("ni-q11-fs", ["-mode", "ni", "-q", "11", "-comps", "fs", "-proofs", "4", "-bits", "0", "-maxmut", "0", "-interactive"]),
                ("ni-q11-fischlin", ["-mode", "ni", "-q", "11", "-comps", "fischlin,randfischlin", "-proofs", "2", "-bits", "2", "-maxmut", "200"]),
                ("ni-q251", ["-mode", "ni", "-q", "251", "-comps", "fs,fischlin,randfischlin", "-proofs", "2", "-bits", "2", "-maxmut", "150", "-interactive"]),
                ("ni-q45971", ["-mode", "ni", "-q", "45971", "-comps", "fs,fischlin,randfischlin", "-proofs", "2", "-bits", "2", "-maxmut", "150", "-interactive"]),
                ("nitok-q251", ["-mode", "nitok", "-q", "251", "-comps", "fs,fischlin,randfischlin", "-proofs", "1", "-maxmut", "200", "-bits", "2"]),
                ("nitok-q45971", ["-mode", "nitok", "-q", "45971", "-comps", "fs", "-proofs", "3", "-maxmut", "0", "-bits", "4"])]
        for g in ("k256", "p256", "bls12381g1"):
            jobs.append(("prod-%s-fs" % g, ["-mode", "prod", "-group", g, "-comps", "fs", "-proofs", "2", "-bits", "16", "-maxmut", "0",
                                             "-protos", "schnorr,okamoto,batch,elcomop,elog,and,or", "-interactive"]))
            jobs.append(("prod-%s-fischlin" % g, ["-mode", "prod", "-group", g, "-comps", "fischlin,randfischlin", "-proofs", "1", "-bits", "1",
                                                   "-maxmut", "120", "-protos", "schnorr,okamoto,batch"]))

    only = [t for t in os.environ.get("C08_ONLY", "").split(",") if t]   # development aid: restrict to matching job names ("mc" = model checking)
    if only:
        jobs = [j for j in jobs if any(t in j[0] for t in only)]
        if "mc" not in only:
            mcs = []

    def mc(mod, cfg):
        return lambda: vlib.tlc(SPEC, mod, cfg, workers=2 if quick else 3, timeout=3000)
    tasks = [("mc:" + c, mc(m, c)) for m, c in mcs]

    stats = {"lines": 0, "by_action": {}, "accept": 0, "reject": 0}

    def rv(tag, args):
        def fn():
            rd = vlib.scratch(chk.prop, "drv-" + tag)
            out = os.path.join(rd, "trace.ndjson")
            vlib.run_driver(binary, args + ["-out", out, "-seed", S])
            rows = vlib.read_ndjson(out)
            hdr, rows = rows[0], rows[1:]
            for r in rows:
                stats["by_action"][r["a"]] = stats["by_action"].get(r["a"], 0) + 1
                if "ok" in r:
                    stats["accept" if r["ok"] else "reject"] += 1
            for r in rows[:1] + rows[len(rows) // 2: len(rows) // 2 + 1]:
                chk.sample({"job": tag, "event": {k: v for k, v in r.items() if k not in ("orig", "dec")}})
            n = validate(chk, "trace-" + tag, rows, hdr, chunk=2500 if quick else 6000, max_workers=2)
            stats["lines"] += n
            return n
        return fn
    tasks += [("rv:" + tag, rv(tag, args)) for tag, args in jobs]
    res = vlib.parallel(tasks, max_workers=int(os.environ.get("C08_PAR", "5" if quick else "4")))
    for m, c in mcs:
        r = res["mc:" + c]
        chk.add_mc(m + "/" + c, r)
        if r.violation:
            raise vlib.MachineryError("the specification itself is inconsistent (%s violates %s): %s" % (c, r.violation, r.cex[-1:]))
    chk.cov["traces_validated_against_impl"] = len(jobs)
    chk.cov["evaluations"] = stats["lines"]
    chk.cov["distinct_nontrivial"] = stats["lines"]
    chk.cov["by_action"] = stats["by_action"]
    chk.cov["accepted_vs_rejected_by_code"] = [stats["accept"], stats["reject"]]
    chk.cov["rule"] = ("each trace line is one real call or one real prove+verify: run = commit/respond/verify twice + extract + simulate+verify; "
                       "vfy/ext = Verify/Extract on arbitrary transcripts; and/or = composed Verify on honest, altered and simulated conversations; "
                       "ni = compiled proof verified under one context (same / one coordinate differing) or after one structural alteration of its bytes; "
                       "zk = one run of the interactive compilers. Exhaustive over (w, r, e mod q, e' mod q) for Schnorr / batch Schnorr on Z_5 (quick) and "
                       "Z_11 (thorough), Okamoto / elcomop on Z_3 (quick) and Z_5 (thorough); sampled on Z_11 / Z_251 / Z_45971; tokens on k256 / P-256 / BLS12-381 G1")
    chk.cov["exhaustive"] = True
    chk.assumptions += [
        "device X: the toy group Z_p^* subgroup of order q exercises the generic maurer09 / batch_schnorr / sigand / sigor / compiler code that production curves use",
        "hashes are modelled as injective symbolic functions: a Fischlin / randomised Fischlin hash target hit by an altered repetition (2^-8 per repetition) or an "
        "unqueried oracle point colliding is not predicted (would show as a sporadic mismatch)",
        "Paillier LP/LPDL/range/n-th-root/modulus, ring-Pedersen and CGGMP21 proofs are not driven (gap; see report)",
        "multi-leaf alterations of an Okamoto response along the kernel of phi give another valid proof (inherent); only single alterations are asserted",
    ]
    return chk.finish()


def replay(chk, path):
    case = json.load(open(path))["case"]
    print(json.dumps(case))
    return 0

"""Single source for MANIFEST.json (bin/mkmanifest writes it)."""

NOT_BUILT = "adapter not built yet in this round (planned in DESIGN.md section 2); nothing is claimed"

CHECKS = {
    "C20": dict(
        technique="TLA+ spec LinAlgQ (definitions) model-checked by TLC + TLC trace validation of real calls on a toy prime field",
        text="Every call of SolveLeft/SolveRight/Determinant/TryInv/TryMul/Transpose/Lift/LeftAction/RightAction, Polynomial.Eval and the "
             "Lagrange/Vandermonde/Birkhoff interpolators (plain and in the exponent) made by the driver on the real generic code over a toy "
             "prime field is re-decided by TLC from declarative definitions (Leibniz determinant, rank by minors, Rouche-Capelli solvability); "
             "the definitions are themselves cross-checked exhaustively by TLC (LinAlgMC). Exhaustive over all matrices of small shapes over Z_3/Z_5 "
             "with all right-hand sides, sampled up to 5x5 over Z_251/Z_45971.",
        note="Trusted: TLC, the LinAlgQ definitions, the 300-line toy field/group. Production scalar fields share this generic code but their field arithmetic is out of scope here.",
        design_ref="DESIGN.md section 2, C20",
    ),
}

CHECKS["C06"] = dict(
    technique="TLA+ state machine KeyLifecycle (epochs, 3-round redistribution) model-checked by TLC + TLC trace validation of real protocol runs on a toy group",
    text="KeyLifecycle.tla models a key epoch (span programme, dealing column = discrete logs of the verification vector, shares) and the three rounds of "
         "redistribution as the implementation's messages reveal them; TLC explores every small history (KeyLifecycleMC) and validates seeded histories "
         "(deal, refresh, recover, redistribute with/without anchor, unqualified driver, reconstruction from every subset, mixed epochs) recorded from the real "
         "session/HJKY/redistribute participants running over CBOR bytes on a toy prime-order group: every logged zero share, sub-share, blinded contribution, "
         "output share, verification vector and public key is recomputed mod q and the invariants (public key constant, shares verify, zero sharings are zero, "
         "blinded contributions sum to the secret, exactly the qualified sets reconstruct) are checked after every round.",
    note="Trusted: TLC, the spec, the toy group (device X of DESIGN.md), harness-computed span certificates (verified by TLC). Production curves execute the same generic code; "
         "curve-specific code is not reached here. Post-epoch signing is C01.",
    design_ref="DESIGN.md section 2, C06",
)

CHECKS["C04"] = dict(
    technique="TLA+ spec ProtoCore (binding table, blame, output validity) + DeviationMC model-checked by TLC + TLC trace validation of the complete single-leaf deviation matrix on real participants",
    text="ProtoCore.tla states what a run owes its honest parties when one party deviates on the wire: no crash or hang, blame only the deviator, every honest output valid "
         "(exact over Z_q: shares match the reported verification vector, redistribution keeps the key, signatures verify, session outputs agree) and every changed leaf that the "
         "binding table marks bound is rejected by an honest party (the addressee for a unicast). DeviationMC lets TLC prove the mathematical content of the table for verifiable "
         "dealing over Z_5 (all columns, coordinates, errors). The driver runs the complete (round, sender, recipient, CBOR leaf, operator) matrix - about 2500 runs per seed - on the real "
         "session, HJKY, redistribute (with/without anchor), Gennaro, Canetti and Lindell22 participants plus cosigning aggregation, and TLC validates every run.",
    note="Trusted: TLC, ProtoCore's binding table (validated against the code by the full matrix), the toy group. One deviating party and one altered leaf per run; strategies that alter several "
         "leaves consistently are not explored. Curve-specific protocols (DKLs23, Lindell17, Boldyreva, CGGMP21) are not in the matrix.",
    design_ref="DESIGN.md section 2, C04",
)

CHECKS["C03"] = dict(
    technique="TLA+ state machine KeyLifecycle (DKG action) model-checked by TLC + TLC trace validation of real DKG runs (rounds and runners) on a toy group",
    text="Real trusted-dealer, Gennaro and Canetti key generations (round-by-round over CBOR bytes, and through the networked runner API over real Routers) on a toy prime-order group, "
         "over threshold, unanimity, CNF and gate-tree structures with dense/sparse/large identifiers: TLC recomputes every dealing mod q (shares on the wire = dealer column applied to the "
         "recipient's rows, Pedersen vectors consistent under one second generator), checks that the span programme realises the policy (certificates verified by TLC), that all parties "
         "output the same key material = the sum of the dealings, that each private share matches its public share, that exactly the qualified sets reconstruct log(pk), and that stored and "
         "reloaded shards are identical. KeyLifecycleMC explores the DKG action on the design over Z_5.",
    note="Trusted: TLC, the spec, the toy group. The generic DKG code is what production groups run; curve arithmetic is not covered here. Fiat-Shamir compiler only (others: C08).",
    design_ref="DESIGN.md section 2, C03",
)
CHECKS["C01"] = dict(
    technique="TLA+ KeyLifecycle signing algebra model-checked by TLC + TLC trace validation (the spec is the independent verifier) of real Lindell22 threshold-Schnorr runs on a toy group",
    text="For keys produced by trusted dealing, Gennaro and Canetti (rounds and runners) over threshold, unanimity, CNF and gate-tree structures (non-ideal span programmes included), real "
         "Lindell22 cosigners (generic Schnorr variant) sign with EVERY qualified quorum, minimal and non-minimal; unqualified quorums must be refused. TLC recomputes each additive key share, "
         "zero blinding, partial response and the aggregate mod q, requires all aggregators (plain and every cosigning one) to output that same signature, verifies it in the exponent "
         "(g^s = R pk^e) as an independent verifier, and requires the library verifier to agree and to reject the signature under another message exactly when the equation fails. "
         "SignAlgebra is model-checked on the design over Z_5.",
    note="PARTIAL w.r.t. the property's list of protocols: only Lindell22 with the configurable generic Schnorr variant is instantiable on the toy group. BIP-340/Mina variants, DKLs23 (both multipliers), "
         "Lindell17, Boldyreva and CGGMP21 need production curves/pairings and are not decided by this check (DESIGN.md section 8). Trusted: TLC, the spec, the toy group.",
    design_ref="DESIGN.md section 2, C01",
)

CHECKS["C10"] = dict(
    technique="TLA+ state machine Session (symbolic commit-then-open coin tossing, one Byzantine party) model-checked by TLC + TLC trace validation of real session setups, sub-contexts and zero shares",
    text="Session.tla models the four rounds over symbolic values with injective hashes; TLC checks agreement on the session identifier, symmetry and pairwise distinctness of seeds, that a "
         "cheater is caught by every party that can see the mismatch and that only the cheater is blamed, for every assignment of contributions. Real setups (rounds and runner API) with 2-5 "
         "parties and dense/sparse/large identifiers are validated by TLC: same identifier and transcript for all, symmetric and pairwise-distinct seeds, nothing shared across sessions, every "
         "sub-context of every sub-quorum consistent among its members and fresh, and the pseudorandom zero shares recomputed exactly on the toy group (pair elements equal at both ends, sign by "
         "identifier order, sum = identity). Altered commitments/openings/contributions are covered by the session rows of the deviation matrix (ProtoCore).",
    note="Trusted: TLC, the spec, token interning (SHA-256 of the bytes), the toy group for zero shares.",
    design_ref="DESIGN.md section 2, C10",
)

CHECKS["C07"] = dict(
    technique="TLA+ symbolic two-run model Provenance model-checked by TLC + TLC trace validation of paired real runs behind recording readers",
    text="Provenance.tla states the two-run relation of a round-based protocol (only the altered party's stream differs): TLC checks it on the symbolic model. The driver runs the real session, HJKY, "
         "redistribution, Gennaro, Canetti and Lindell22 participants from seeded per-party streams wrapped in recording readers - twice with identical streams and once per party with only that party's "
         "stream replaced - on a 61-bit toy group, logging every CBOR leaf of every message and every output as a token. TLC validates per protocol: identical streams reproduce the run; a party that samples "
         "changes all of its randomised leaves and the joint value meant to be random (session id, zero shares, generated key, nonce point) while the key is kept by redistribution and signing; parties are not "
         "influenced before the randomness can reach them; every party consumes its own reader; and every sampled public value (dealing and zero columns, nonce commitments) equals g^s for a scalar-sized chunk "
         "s that its sender's reader handed out.",
    note="Trusted: TLC, the leaf tables of ProvenanceTrace (validated on the unchanged tree over many seeds), SHA-256 token interning. Protocols needing production curves (DKLs23, Lindell17, Boldyreva, CGGMP21, OT, VOLE) are not covered.",
    design_ref="DESIGN.md section 2, C07",
)

CHECKS["C09"] = dict(
    technique="TLA+ ProtoCore output-validity and binding predicates + TLC trace validation of real base-OT and random-VOLE runs (honest and single-leaf tampered) on a toy group",
    text="Real endemic base OT (ecbbot) batches and random-VOLE multiplications (rvole/bbot) between honest parties on the toy group are validated by TLC: for every instance and block the receiver's "
         "output equals the sender message selected by its choice bit, the two sender messages differ (61-bit field), c_k + d_k = a_k * b mod q exactly (q = 45971), and every honest run completes "
         "(61-bit field); batch sizes 8-256, block lengths 1-4, all-zero / all-one / alternating / random choices, inputs 0, 1, -1 and random. The single-leaf deviation matrix over both protocols' "
         "messages shows that altering the multiplier's check values (aTilde, eta, mu) makes Bob abort and that nothing crashes.",
    note="PARTIAL: VSOT, the SoftSpoken OT extension and rvole/softspoken are curve-/binary-field-specific and not instantiable on the toy group; they are not decided by this check. Trusted: TLC, ProtoCore, the toy group.",
    design_ref="DESIGN.md section 2, C09",
)

NOT_APPLICABLE = {
    "C13": "byte-level encode/decode fidelity of 256-381-bit curve elements: no state/transition structure and operands TLC cannot represent; a TLA+ specification would decide nothing (DESIGN.md section 3)",
}

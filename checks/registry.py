"""Single source for MANIFEST.json (bin/mkmanifest writes it)."""

NOT_BUILT = "adapter not built yet in this round (planned in DESIGN.md section 2); nothing is claimed"

CHECKS = {
    "C20": dict(
        technique="TLA+ spec LinAlgQ (definitions) model-checked by TLC + TLC trace validation of real calls on a toy prime field",
        text="Every call of SolveLeft/SolveRight/Determinant/TryInv/TryMul/Transpose/Lift/LeftAction/RightAction, Polynomial.Eval and the "
             "Lagrange/Vandermonde/Birkhoff interpolators (plain and in the exponent) made by the driver on the real generic code over a toy "
             "prime field is re-decided by TLC from declarative definitions (Leibniz determinant, rank by minors, Rouche-Capelli solvability); "
             "the definitions are themselves cross-checked exhaustively by TLC (LinAlgMC). Exhaustive over all matrices of small shapes over Z_3/Z_5 "
             "with all right-hand sides, sampled up to 5x5 over Z_251/Z_45971.",
        note="Trusted: TLC, the LinAlgQ definitions, the 300-line toy field/group. Production scalar fields share this generic code but their field arithmetic is out of scope here.",
        design_ref="DESIGN.md section 2, C20",
    ),
}

NOT_APPLICABLE = {
    "C13": "byte-level encode/decode fidelity of 256-381-bit curve elements: no state/transition structure and operands TLC cannot represent; a TLA+ specification would decide nothing (DESIGN.md section 3)",
}

"""Single source for MANIFEST.json (bin/mkmanifest writes it)."""

NOT_BUILT = "adapter not built yet in this round (planned in DESIGN.md section 2); nothing is claimed"

CHECKS = {
    "C20": dict(
        technique="TLA+ spec LinAlgQ (definitions) model-checked by TLC + TLC trace validation of real calls on a toy prime field",
        text="Every call of SolveLeft/SolveRight/Determinant/TryInv/TryMul/Transpose/Lift/LeftAction/RightAction, Polynomial.Eval and the "
             "Lagrange/Vandermonde/Birkhoff interpolators (plain and in the exponent) made by the driver on the real generic code over a toy "
             "prime field is re-decided by TLC from declarative definitions (Leibniz determinant, rank by minors, Rouche-Capelli solvability); "
             "the definitions are themselves cross-checked exhaustively by TLC (LinAlgMC). Exhaustive over all matrices of small shapes over Z_3/Z_5 "
             "with all right-hand sides, sampled up to 5x5 over Z_251/Z_45971.",
        note="Trusted: TLC, the LinAlgQ definitions, the 300-line toy field/group. Production scalar fields share this generic code but their field arithmetic is out of scope here.",
        design_ref="DESIGN.md section 2, C20",
    ),
}

CHECKS["C06"] = dict(
    technique="TLA+ state machine KeyLifecycle (epochs, 3-round redistribution) model-checked by TLC + TLC trace validation of real protocol runs on a toy group",
    text="KeyLifecycle.tla models a key epoch (span programme, dealing column = discrete logs of the verification vector, shares) and the three rounds of "
         "redistribution as the implementation's messages reveal them; TLC explores every small history (KeyLifecycleMC) and validates seeded histories "
         "(deal, refresh, recover, redistribute with/without anchor, unqualified driver, reconstruction from every subset, mixed epochs) recorded from the real "
         "session/HJKY/redistribute participants running over CBOR bytes on a toy prime-order group: every logged zero share, sub-share, blinded contribution, "
         "output share, verification vector and public key is recomputed mod q and the invariants (public key constant, shares verify, zero sharings are zero, "
         "blinded contributions sum to the secret, exactly the qualified sets reconstruct) are checked after every round.",
    note="Trusted: TLC, the spec, the toy group (device X of DESIGN.md), harness-computed span certificates (verified by TLC). Production curves execute the same generic code; "
         "curve-specific code is not reached here. Post-epoch signing is C01.",
    design_ref="DESIGN.md section 2, C06",
)

CHECKS["C04"] = dict(
    technique="TLA+ spec ProtoCore (binding table, blame, output validity) + DeviationMC model-checked by TLC + TLC trace validation of the complete single-leaf deviation matrix on real participants",
    text="ProtoCore.tla states what a run owes its honest parties when one party deviates on the wire: no crash or hang, blame only the deviator, every honest output valid "
         "(exact over Z_q: shares match the reported verification vector, redistribution keeps the key, signatures verify, session outputs agree) and every changed leaf that the "
         "binding table marks bound is rejected by an honest party (the addressee for a unicast). DeviationMC lets TLC prove the mathematical content of the table for verifiable "
         "dealing over Z_5 (all columns, coordinates, errors). The driver runs the complete (round, sender, recipient, CBOR leaf, operator) matrix - about 2500 runs per seed - on the real "
         "session, HJKY, redistribute (with/without anchor), Gennaro, Canetti and Lindell22 participants plus cosigning aggregation, and TLC validates every run. On BLS12-381 (family ProdProto) one deviating Boldyreva cosigner presents "
         "every alteration of its partial signature (a component, two components by offsets cancelling in their sum, swapped components, components signed for another message, wrong length, proofs of possession, a peer's partial "
         "signature; short / long keys x basic / aug / pop; threshold and replicated CNF / gate sharings) to an honest aggregator: ProdTrace.BlsDevOK requires rejection, blame of the deviator only, never a signature that fails verification. "
         "DKLs23 (rvole/bbot, rvole/softspoken, two and three signers, secp256k1 / P-256), Lindell22 (BIP-340, Mina) and Lindell17 run round by round with one CBOR leaf of one message of one signer altered (matrix read from a recording run of the "
         "same case): ProdTrace.SignDevOK requires no panic, honest parties blame only the deviator, any aggregated output is one valid signature, and the run is stopped by an honest party, by the aggregators or without a result.",
    note="Trusted: TLC, ProtoCore's binding table (validated against the code by the full matrix), the toy group. One deviating party and one altered leaf per run; strategies that alter several "
         "leaves consistently are explored only as the listed re-dealing / claim strategies. On production curves Boldyreva, DKLs23, Lindell22 and Lindell17 are in the matrix (DKLs23 / Lindell22 sampled by seed in the quick tier); CGGMP21 is not.",
    design_ref="DESIGN.md section 2, C04",
)

CHECKS["C03"] = dict(
    technique="TLA+ state machine KeyLifecycle (DKG action) model-checked by TLC + TLC trace validation of real DKG runs (rounds and runners) on a toy group",
    text="Real trusted-dealer, Gennaro and Canetti key generations (round-by-round over CBOR bytes, and through the networked runner API over real Routers) on a toy prime-order group, "
         "over threshold, unanimity, CNF and gate-tree structures with dense/sparse/large identifiers: TLC recomputes every dealing mod q (shares on the wire = dealer column applied to the "
         "recipient's rows, Pedersen vectors consistent under one second generator), checks that the span programme realises the policy (certificates verified by TLC), that all parties "
         "output the same key material = the sum of the dealings, that each private share matches its public share, that exactly the qualified sets reconstruct log(pk), and that stored and "
         "reloaded shards are identical. KeyLifecycleMC explores the DKG action on the design over Z_5. Family ProdProto repeats trusted dealing, Gennaro and Canetti (rounds and runners) on the seven production groups "
         "(secp256k1, P-256, edwards25519 prime subgroup, Pallas, Vesta, BLS12-381 G1 and G2; Fiat-Shamir everywhere, Fischlin and randomised Fischlin on two groups): ProdTrace requires identical public material at all parties, "
         "[share_i]G = the public share others hold, pk = [x]G for the x reconstructed by independent math/big linear algebra, reconstruction (scalar and in the exponent) exactly from the qualified subsets, distinct keys across runs, identical reload.",
    note="Trusted: TLC, the specs, the toy group, the harness's math/big curve models and linear algebra (edwards25519: [k]G by the library). Production groups are judged through tokens and oracle booleans on sampled runs.",
    design_ref="DESIGN.md section 2, C03",
)
CHECKS["C01"] = dict(
    technique="TLA+ KeyLifecycle / SignAlgebra signing algebra (Lindell22, DKLs23, Lindell17, Boldyreva BLS with BIP-340 / Mina parity rules over threshold, CNF and gate-tree span programmes) model-checked by TLC + TLC trace validation of real threshold-signing runs: exact on a toy group (Lindell22), tokens and independent-oracle booleans on production curves (DKLs23 both multipliers, Lindell17, Lindell22 BIP-340 / Mina / Schnorr, Boldyreva BLS, CGGMP21)",
    text="For keys produced by trusted dealing, Gennaro and Canetti (rounds and runners) over threshold, unanimity, CNF and gate-tree structures (non-ideal span programmes included), real "
         "Lindell22 cosigners (generic Schnorr variant) sign with EVERY qualified quorum, minimal and non-minimal; unqualified quorums must be refused. TLC recomputes each additive key share, "
         "zero blinding, partial response and the aggregate mod q, requires all aggregators (plain and every cosigning one) to output that same signature, verifies it in the exponent "
         "(g^s = R pk^e) as an independent verifier, and requires the library verifier to agree and to reject the signature under another message exactly when the equation fails. "
         "SignAlgebra is model-checked on the design over Z_5 / Z_7 (ProdProto/SignAlgebraMC: DKLs23, Lindell17, BLS, Schnorr parity rules). "
         "Family ProdProto runs the real production-curve protocols - DKLs23 with rvole/bbot and rvole/softspoken and Lindell17 on secp256k1 / P-256 (message hashes sha256, sha512, sha3-256, sha384), "
         "CGGMP21 on secp256k1 (runner API, three-signer quorums included), Lindell22 with BIP-340, Mina and generic Schnorr variants, Boldyreva BLS short / long keys x basic / aug / pop - on keys from dealing, Gennaro and "
         "Canetti over threshold, CNF and gate-tree structures; ProdTrace decides qualification from the logged policy and requires termination, one common output of every aggregator, acceptance by the library verifier "
         "and by independent verifiers (math/big SEC 1 ECDSA + key recovery, crypto/ecdsa, BIP-340 over math/big, crypto/ed25519, sigma = [x]H(m) on math/big models of G1 / G2), rejection under another message, refusal of unqualified quorums.",
    note="Toy group: exact (every scalar recomputed by TLC). Production curves: tokens and oracle booleans over the sampled (policy, quorum, key source, API, message) matrix of the seed; DKLs23 / Lindell17 / CGGMP21 cost seconds per run, so the "
         "quick tier samples them (6 / 3 / 2 driver processes). Lindell17 runs with 1024-bit Paillier keys in a test-mode binary; CGGMP21 auxiliary material is a committed fixture in the quick tier. Trusted: TLC, the specs, the toy group, the harness's math/big models, Go's standard crypto.",
    design_ref="DESIGN.md section 2, C01",
)

CHECKS["C10"] = dict(
    technique="TLA+ state machine Session (symbolic commit-then-open coin tossing, one Byzantine party) model-checked by TLC + TLC trace validation of real session setups, sub-contexts and zero shares",
    text="Session.tla models the four rounds over symbolic values with injective hashes; TLC checks agreement on the session identifier, symmetry and pairwise distinctness of seeds, that a "
         "cheater is caught by every party that can see the mismatch and that only the cheater is blamed, for every assignment of contributions. Real setups (rounds and runner API) with 2-5 "
         "parties and dense/sparse/large identifiers are validated by TLC: same identifier and transcript for all, symmetric and pairwise-distinct seeds, nothing shared across sessions, every "
         "sub-context of every sub-quorum consistent among its members and fresh, and the pseudorandom zero shares recomputed exactly on the toy group (pair elements equal at both ends, sign by "
         "identifier order, sum = identity). Altered commitments/openings/contributions are covered by the session rows of the deviation matrix (ProtoCore).",
    note="Trusted: TLC, the spec, token interning (SHA-256 of the bytes), the toy group for zero shares.",
    design_ref="DESIGN.md section 2, C10",
)

CHECKS["C07"] = dict(
    technique="TLA+ symbolic two-run model Provenance model-checked by TLC + TLC trace validation of paired real runs behind recording readers",
    text="Provenance.tla states the two-run relation of a round-based protocol (only the altered party's stream differs): TLC checks it on the symbolic model. The driver runs the real session, HJKY, "
         "redistribution, Gennaro, Canetti and Lindell22 participants from seeded per-party streams wrapped in recording readers - twice with identical streams and once per party with only that party's "
         "stream replaced - on a 61-bit toy group, logging every CBOR leaf of every message and every output as a token. TLC validates per protocol: identical streams reproduce the run; a party that samples "
         "changes all of its randomised leaves and the joint value meant to be random (session id, zero shares, generated key, nonce point) while the key is kept by redistribution and signing; parties are not "
         "influenced before the randomness can reach them; every party consumes its own reader; and every sampled public value (dealing and zero columns, nonce commitments) equals g^s for a scalar-sized chunk "
         "s that its sender's reader handed out.",
    note="Trusted: TLC, the leaf tables of ProvenanceTrace (validated on the unchanged tree over many seeds), SHA-256 token interning. Protocols needing production curves (DKLs23, Lindell17, Boldyreva, CGGMP21, OT, VOLE) are not covered.",
    design_ref="DESIGN.md section 2, C07",
)

CHECKS["C09"] = dict(
    technique="TLA+ ProtoCore output-validity and binding predicates (+ ProdTrace OtOK / VoleOK) + TLC trace validation of real base-OT, OT-extension and random-VOLE runs: exact on a toy group (ecbbot, rvole/bbot; honest and single-leaf tampered), tokens on secp256k1 / P-256 (VSOT, SoftSpoken, rvole/softspoken)",
    text="Real endemic base OT (ecbbot) batches and random-VOLE multiplications (rvole/bbot) between honest parties on the toy group are validated by TLC: for every instance and block the receiver's "
         "output equals the sender message selected by its choice bit, the two sender messages differ (61-bit field), c_k + d_k = a_k * b mod q exactly (q = 45971), and every honest run completes "
         "(61-bit field); batch sizes 8-256, block lengths 1-4, all-zero / all-one / alternating / random choices, inputs 0, 1, -1 and random. The single-leaf deviation matrix over both protocols' "
         "messages shows that altering the multiplier's check values (aTilde, eta, mu) makes Bob abort and that nothing crashes.",
    note="VSOT, the SoftSpoken extension (seeded by a real VSOT batch) and rvole/softspoken run on secp256k1 and P-256 with both parties honest (family ProdProto: receiver output = chosen sender message for every instance, the two messages differ, "
         "c + d = a * b by math/big) and with one wire message altered in flight (every byte-string leaf class and every array of every message, read from the code's own CBOR: ProdTrace.OtDevOK requires that the run does not "
         "complete, nothing panics and the first abort is at or after the altered message; two honest endpoints, so whoever notices first aborts). Trusted: TLC, ProtoCore / ProdTrace, the toy group.",
    design_ref="DESIGN.md section 2, C09",
)

CHECKS["C02"] = dict(
    technique="TLA+ specs Access/MSP/SharingMC (policies, span programmes, perfect privacy by counting) model-checked by TLC + TLC trace validation of real sharing-scheme calls on a toy prime field",
    text="SharingMC lets TLC prove, for every small policy of the simple constructions over Z_5 / Z_7, that the span programme accepts exactly the qualified sets, that every unqualified set's shares are "
         "consistent with every secret (counting), and dealing / reconstruction / additive conversion / linearity. The driver runs the real access structures (threshold, unanimity, CNF, hierarchical, gate trees) "
         "and schemes (KW/MSP, Shamir, additive, ISN, Tassa, Feldman, Pedersen) on a toy prime field for every enumerated policy x identifier assignment x subset x secret x dealer column; SharingTrace takes the "
         "code's own MSP from the log and re-decides every line: IsQualified = Accepts = CanReconstruct = spans e0 (certificates checked by TLC), reconstruction returns the dealt secret, unqualified sets have a "
         "privacy witness, share Add/ScalarMul and ConvertShareToAdditive are exact.",
    note="Trusted: TLC, the spec, the toy field. Privacy is decided structurally (kernel witness) and by counting on the model; the distribution of the library's randomness is not examined. ISN is exercised with identifiers 1..64 only.",
    design_ref="DESIGN.md section 2, C02",
)

CHECKS["C05"] = dict(
    technique="TLA+ spec VSS (verification equation in the exponent) model-checked by TLC + TLC trace validation of real Feldman / Pedersen verification calls on a toy group",
    text="VSSMC lets TLC check at every dealt state of every small policy that a Feldman / Pedersen share verifies iff it is the dealer's share of the claimed holder (all values of all coordinates, wrong lengths, "
         "other identities, outsiders), that a changed verification-vector entry breaks exactly the holders depending on it, that wrong vector lengths never verify and that combined dealings verify the sum. The driver "
         "runs the real Deal / Verify / ReconstructAndVerify / ReconstructInTheExponent / VerificationVector.Op / NewVerificationVector / NewBaseShard on the toy group (elements logged as discrete logs) for every "
         "enumerated policy, holder, coordinate and delta; VSSTrace re-decides every accept / reject from lambda_k = M[k].V mod q on the code's own MSP.",
    note="Trusted: TLC, the spec, the toy group. Pedersen binding is computational: with the second generator's logarithm known the spec predicts (and the code shows) the (d, -d/eta) shift verifies; not reported.",
    design_ref="DESIGN.md section 2, C05",
)

CHECKS["C08"] = dict(
    technique="TLA+ specs Sigma / SigmaOr / SigmaNI (three-move protocols, OR composition, compilers over symbolic hashes) model-checked by TLC + TLC trace validation of real prover / verifier / extractor / simulator calls",
    text="TLC model-checks completeness, special soundness (extraction), simulation, AND (product map), OR (XOR of sub-challenges, exactly one witness) and the acceptance predicate of the Fiat-Shamir, Fischlin, "
         "randomised Fischlin and interactive zk compilers on all (w, r, e, e') over small Z_q. The driver runs the real pkg/proofs code (Schnorr, batch Schnorr, Okamoto, elcomop, elog; sigand / sigor; all compilers) "
         "on the toy group with exact integers and on k256 / P-256 / BLS12-381 G1 with tokens: honest, altered and simulated conversations, every compiled proof verified under the same context and under every "
         "single-coordinate context difference (session, transcript state, prover id, statement) and after every class of single structural alteration of its bytes. SigmaTrace recomputes z = r + e w, the verification "
         "equation, extraction, simulation, the XOR relation and the per-compiler acceptance predicate for every logged call.",
    note="Trusted: TLC, the specs, the toy group; hashes are injective symbols (a 2^-8 Fischlin target hit by an altered repetition would show as a sporadic mismatch). Paillier-based proofs (LP, LPDL, range, n-th root, modulus), ring-Pedersen and CGGMP21 proofs are not driven.",
    design_ref="DESIGN.md section 2, C08",
)

CHECKS["C11"] = dict(
    technique="PlusCal/TLA+ spec Router (one label per critical section of routerCore) and Echo model-checked by TLC + TLC-generated schedules replayed on real Routers through verif gates + TLC trace validation of gated, free (-race) and protocol-runner executions",
    text="Router.tla models routerCore at the grain of its mutex (deposit, duplicate, conflict, overflow, enter, scan, park, wake, cleanup, cancel, close); TLC checks exact routing per correlation id, no cross-talk, "
         "blame of the conflicting sender, buffer accounting, no lost wake-up (and its liveness form in the thorough tier; the unbuffered-notify mutant of the spec must fail) and Echo.tla's agreement under Byzantine "
         "senders. TLC-generated behaviours (seeded simulation and race-forcing scenarios) are replayed on real network.Router objects with the harness as scheduler (gates at every lock acquisition), Byzantine echo "
         "behaviours (exhaustive for n=3, n=4 one Byzantine) on real echo participants, and free randomized executions and session / Gennaro / Canetti runners over an adversarial Delivery (reordering, duplication) "
         "run with hooks in trace mode under the race detector; RouterTrace / EchoTrace re-decide every recorded critical section with Router's own actions and check every invariant after every event; runner outputs must agree.",
    note="Trusted: TLC, Router.tla / Echo.tla, the add-only hook lines in pkg/network/router.go. Scheduling below a critical section of c.mu is covered by the race detector only; SHA3-256 is an injective symbol.",
    design_ref="DESIGN.md section 2, C11",
)

CHECKS["C12"] = dict(
    technique="TLA+ spec Cbor (Choose / Encode / Mutate / Decode / Reencode state machine) model-checked by TLC, its behaviours replayed on the real serde + TLC trace validation of round-trip / mutation campaigns over every serialisable type",
    text="CborMC checks on every value of the model schemas that decode(encode(v)) = v, key order is canonical, every malformed container (duplicate / unknown key, indefinite length, trailing bytes, wrong tag) is "
         "rejected and whatever is accepted has a normal form; every (schema, value, mutation) behaviour is replayed on the real pkg/base/serde. The driver captures real values of the library's serialisable types "
         "(keys, shards, shares, signatures, proofs, ciphertexts, commitments, access structures, protocol messages of runs on k256 and the toy group), round-trips them and applies structure mutations, field swaps, "
         "truncations and bit flips to their encodings, and crafts encodings violating one constructor rule each. CborTrace re-decides every line: deterministic encoding, equal after round trip, malformed => "
         "rejected, accepted => the constructor's validity predicate and a re-encoding fixed point, never a panic; per-type summary lines check the coverage of (class, position) sites.",
    note="Trusted: TLC, the Cbor spec (cross-checked against the real serde by replay), the CBOR walker of the driver. Arbitrary byte strings beyond the listed mutation classes are not claimed. Known findings (decoders that "
         "panic / do not validate) are listed in known_findings.txt by decoding site.",
    design_ref="DESIGN.md section 2, C12",
)

CHECKS["C14"] = dict(
    technique="TLA+ spec GroupProg (register programmes over an abstract cyclic group = integers) model-checked by TLC, every generated transition replayed on all curve types + TLC trace validation of the replayed registers",
    text="GroupProg explores register programmes (Add, Sub, Double, Neg, ScalarMul with 0 / 1 / order-1 / order / ..., ScalarBaseMul, MultiScalarMul of several lengths, Equal, IsOpIdentity) over discrete logarithms "
         "(a third family: multi-scalar multiplications of 2^k-1, 2^k, 2^k+1 terms for k = 4..12, one per window width of the bucket method, with full-width scalars and registers summing to zero) "
         "as unreduced integers, checks the algebraic laws on every reachable register file and prints every transition with its predicted result; a second family generates pairing programmes e([a]G1,[b]G2) = "
         "e(G1,G2)^(ab). The driver replays every step on k256, P-256, edwards25519 (+ prime subgroup), curve25519 (+ prime subgroup), Pallas, Vesta, BLS12-381 G1 / G2 / GT, projecting each real register to its integer "
         "through a reference table [k]G cross-checked against independent math/big models, and runs small-window scalar / base field operations; GroupProgTrace demands exact equality of every register after every step.",
    note="Device W: decided for operands [v]G with |v| <= 4096 and the listed scalar constants; 'every point / scalar' beyond that window is not decided. No second model for curve25519, G2 and GT in the sandbox (Add-chain vs "
         "Sub-chain vs double-and-add vs ScalarMul cross-checks only). purego build only.",
    design_ref="DESIGN.md section 2, C14",
)

CHECKS["C15"] = dict(
    technique="TLA+ spec SigVerify (Schnorr KeyGen/Sign/Alter/Verify state machine with lazily sampled oracle; decision tables of ECDSA / BIP-340 / Mina / Schnorr / BLS cross-checked against exact small models) model-checked by TLC + TLC trace validation of real sign / verify calls",
    text="TLC explores generic Schnorr exactly over Z_q for all keys, nonces, oracle values and single-component alterations, and cross-checks every row of the accept/reject tables of ECDSA (incl. the n-s / recovery-bit "
         "equivalence, strict low-S), BIP-340, Mina, plain Schnorr and BLS (aggregate, batch, PoP with missing / foreign / identity / out-of-subgroup contributors) against an exact small model of each verification "
         "equation. The driver runs the real code: generic Schnorr on the toy group for all keys x nonces x alterations through a scripted reader, and the production schemes over the full alteration product with "
         "independent oracles evaluated into booleans (math/big ECDSA and BIP-340, crypto/ecdsa, crypto/ed25519, known-secret BLS identity under the published ciphersuite tags, published vectors), recovery and normalisation, "
         "and ECDSA signatures constructed with s in a window around the middle of the scalar range (s = (n-1)/2 + off; the spec's LowAt / NegAt, tied to LowS / Neg of the model by an ASSUME). SigVerifyTrace re-decides every call.",
    note="Trusted: TLC, the SigVerify tables, the harness's math/big reference code, Go's standard crypto. Production curves are judged by alteration class over sampled keys / messages; BLS has no second pairing implementation in the sandbox.",
    design_ref="DESIGN.md section 2, C15",
)

CHECKS["C16"] = dict(
    technique="TLA+ spec HomEnc (register machine over textbook Paillier / ElGamal with ghost plaintexts and nonces) model-checked by TLC + TLC trace validation of real Paillier / ElGamal calls on toy keys",
    text="HomEncMC explores every programme of <= 3 operations over 2 registers (toy Paillier N = 35 with every (m, r), toy ElGamal of order 7 with every key / message / nonce): each register is the textbook encryption "
         "of its ghost plaintext under its ghost nonce; decryption and opening invert. The driver (test-mode binary, size floor off) runs the real pkg/encryption/paillier on toy keys 5*7, 11*13, 19*23, 83*107 through "
         "the public-key AND secret-key (CRT) paths - encrypt, decrypt, open, add, scale, shift, re-randomise - and pkg/encryption/elgamal on the toy group; the plain binary must refuse the toy keys. HomEncTrace "
         "recomputes every ciphertext as (1+N)^m r^N mod N^2 and re-decides every decryption / opening / homomorphic step exactly.",
    note="Trusted: TLC, HomEncMath. Toy moduli exercise the generic Paillier / znstar / modular code; multi-limb arithmetic is C17's window. ElGamal over curve groups is not reached.",
    design_ref="DESIGN.md section 2, C16",
)

CHECKS["C17"] = dict(
    technique="TLA+ spec SmallNum (declarative number theory: division, gcd / Bezout, Jacobi, CRT, modular roots, two's complement) cross-checked by TLC + TLC trace validation of real numct / num / modular / crt / znstar / nt calls on exhaustive small boxes",
    text="SmallNumMC cross-checks the definitions against each other (Bezout, gcd*lcm, Euler's criterion, Jacobi multiplicativity / reciprocity, CRT uniqueness, uniqueness of quotient and remainder). The driver runs the "
         "real Nat / Int / Rat / Uint / Modulus / CRT / znstar operations, nt.Jacobi and the prime / modulus generators on exhaustive small operand boxes (signs, zero, even / odd, prime / composite moduli, operands "
         ">= modulus, announced capacities below / at / above the true length, every aliasing mode) and on a k*2^64 + s window; SmallNumTrace re-decides every logged call, including 'non-invertible exactly when' "
         "and 'root returned exactly for residues modulo an odd prime'.",
    note="Device W: |v| < 2^15 and k*2^64+s; carry chains of genuinely multi-limb operands (saferith) are not decided. Primes above 2^31 are judged through logged math/big ProbablyPrime booleans.",
    design_ref="DESIGN.md section 2, C17",
)

CHECKS["C18"] = dict(
    technique="TLA+ spec Commit (Pedersen / ElGamal-based commitment algebra, equivocation, homomorphic programmes) model-checked by TLC + TLC trace validation of real pkg/commitments calls",
    text="CommitMC checks on every value of small fields that the promised opening opens, that (m2, w2) opens iff w2 is the Equivocate witness, that every single-component change fails up to exact 1/q guards, that "
         "the ElGamal-based commitment opens to exactly one pair, over all programmes of homomorphic steps (which it prints). The driver runs the real Pedersen and indcpacom-over-ElGamal code on the toy group "
         "(exhaustive single-commitment cases and the printed programmes), hashcom / Pedersen / ElGamal-based commitments over secp256k1 with tokens, ring-Pedersen (intcom) over a toy safe-prime modulus, and "
         "commitment keys derived from hagrid transcripts (equal for equal transcripts, different otherwise); CommitTrace re-decides every line.",
    note="Trusted: TLC, CommitDefs, the toy group, token interning. indcpacom over Paillier is not driven (same generic wrapper as over ElGamal).",
    design_ref="DESIGN.md section 2, C18",
)

CHECKS["C19"] = dict(
    technique="TLA+ spec Transcript (hagrid framing as an injective encoding of operation histories; clones; extraction streams) model-checked by TLC, every printed programme and critical pair replayed on real transcripts + TLC trace validation",
    text="TranscriptMC checks on every history of the configured scopes that the framing is injective (by an ambiguous parser), extraction streams are separate and extension-free and clones are independent, and prints "
         "every programme and every critical pair (histories that would collide if one framing element were dropped). The driver replays them on real hagrid transcripts, reads the absorbed bytes from the sponge state "
         "and logs outputs / states as tokens; TranscriptTrace demands absorbed bytes = Frame(op) byte for byte and tokens <-> (name, stream) one to one. Hash-to-curve (weaker, input/output only): determinism, DST "
         "dependence, prime-order membership by an independent double-and-add, and the shipped RFC 9380 vectors as H2CTrace cases.",
    note="cSHAKE256 is an injective symbol of (customisation, absorbed stream). Hash-to-curve's map is not modelled (input/output only). Known finding: curve25519 / edwards25519 default DST names the NU suite while RO is implemented.",
    design_ref="DESIGN.md section 2, C19",
)

CHECKS["C13"] = dict(
    technique="TLA+ exact small model ElemCodec of every encoding format (Enc / Dec / Sem on digit strings over toy curves; strings, elements and the mutate machine exhausted by TLC; rule table cross-checked against the model) + replay on the generic point code over a toy field + TLC trace validation of production encoders / decoders with math/big oracle booleans",
    text="ElemCodec models, over toy prime fields, short-Weierstrass curves (k256-, p256-, Pasta-, BLS-G1-like with odd cofactor), twisted-Edwards curves with cofactor 8 (with Montgomery view and prime "
         "subgroup) and a GT-like subgroup, and every format of the library as a function on digit strings with the flag bits where the library puts them (SEC1 compressed / uncompressed, Pasta, RFC 8032, "
         "Montgomery u-only, ZCash BLS12-381 C/I/S, affine constructors, GT, the field decoders incl. reducing / strict / wide). TLC exhausts every string of length 0..L+1, every element and the "
         "Choose-Encode-Mutate-Decode-Reencode machine and checks round trip, injectivity, soundness (accepted => on curve, in the promised subgroup, or the bytes mod p), rejection of wrong lengths / flags / "
         "off-curve coordinates, that the rule table equals what C13 demands and that the modelled decoder equals the table. TLC-generated cases replay exactly on the library's generic point code instantiated "
         "over a toy field. The driver runs every public point / scalar / base-field / GT type through every decoder, the affine constructors and CBOR over the window [k]G (|k| <= 4096), special points (x = 0, "
         "torsion, composite order, cofactor components) and crafted strings (all prefixes / flag combinations, shifted and unreduced coordinates, wrong lengths); ElemCodecTrace applies the rule table to the "
         "oracle booleans and decides every line (accept / reject / element token / never a panic).",
    note="Device T on production types: decided over the window, the special points and the crafted classes, not every element / byte string; G2 / GT shapes only in one-component form in the design model; uniqueness of "
         "accepted encodings is not demanded (the property excludes it). Known findings: P-256 identity encoding collides with (0, sqrt b); curve25519 u-only form (P / -P) and its order-2 point.",
    design_ref="DESIGN.md section 3 (replaced) and 9.9",
)

NOT_APPLICABLE = {
}

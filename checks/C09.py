"""C09 Oblivious transfer and multiplication outputs are correctly correlated.

G: DeviationMC / ProtoCore (shared with C04) - the binding table says the multiplier's consistency check (theta, eta, mu) binds Alice's last
   message; the base OT has no consistency check.
R: harness/cmd/otvole: honest endemic base OT (ecbbot; xi in {8,16,128,256}, L in {1,2,4}, choice patterns zeros/ones/alternating/random) and
   random-VOLE multiplication (rvole/bbot; L in {1,2,4}; inputs 0, 1, -1, random) on the toy group, exact mode (q = 45971) and 61-bit mode;
   harness/cmd/tamper -proto rvole,ecbbot: single-leaf alterations of every message of both protocols.
V: TamperTrace (TLC, ProtoCore.tla): receiver output = sender message selected by the choice bit for every instance and block, the two sender
   messages differ (61-bit mode), c_k + d_k = a_k * b mod q (exact mode), every honest run completes (61-bit mode); altered check values
   (aTilde, eta, mu) make Bob abort, never a crash."""
import os, json
import vlib
import C04
import prod_common

PC = os.path.join(vlib.SPECS, "ProtoCore")


def run(chk):
    prod_common.background(prod_common.run_otdev, chk)     # altered wire messages of the same three protocols
    prod_common.background(prod_common.run_otvole, chk)    # VSOT, SoftSpoken, rvole/softspoken on k256 / P-256 (family ProdProto)
    obin = vlib.build("otvole")
    tbin = vlib.build("tamper")
    if chk.quick:
        jobs = [("exact", ["-q", "45971", "-n", "40", "-seed", str(chk.seed)]), ("big", ["-q", "0", "-n", "25", "-seed", str(chk.seed + 1)])]
        tam = [("tamper", ["-q", "45971", "-proto", "rvole,ecbbot", "-stride", "12", "-seed", str(chk.seed)])]
    else:
        jobs = [("exact-%d" % i, ["-q", "45971", "-n", "150", "-seed", str(chk.seed * 10 + i)]) for i in range(4)] + \
               [("big-%d" % i, ["-q", "0", "-n", "100", "-seed", str(chk.seed * 10 + i)]) for i in range(3)]
        tam = [("tamper-%d" % i, ["-q", "45971", "-proto", "rvole,ecbbot", "-stride", "2", "-seed", str(chk.seed * 10 + i)]) for i in range(2)]
    tasks = [("mc", lambda: vlib.tlc(PC, "DeviationMC", "DeviationMC.cfg", workers=3, timeout=1800))]
    stats = {"ot": 0, "vole": 0, "tamper": 0, "refused_small_field": 0, "configs": set()}

    def honest(tag, args):
        def fn():
            rd = vlib.scratch(chk.prop, "drv-" + tag)
            out = os.path.join(rd, "trace.ndjson")
            vlib.run_driver(obin, args + ["-out", out])
            rows = vlib.read_ndjson(out)
            if rows[0]["q"] == 0:
                rows[0]["q"] = 45971          # 61-bit lines never reach modular arithmetic; the header value only instantiates FieldQ
            for r in rows[1:]:
                stats["ot" if r["proto"] == "ecbbot" else "vole"] += 1
                stats["configs"].add(r["k"])
                if r.get("rejected"):
                    stats["refused_small_field"] += 1
            e = rows[1]
            chk.sample({"job": tag, "k": e["k"], "completed": e["completed"], "choices": e["out"].get("choices", [])[:8], "recv0": e["out"].get("recv", [[]])[0]}, cap=3)
            return vlib.validate_chunks(chk, "trace-" + tag, PC, "TamperTrace", "TamperTrace.cfg", rows[1:], header=rows[0], chunk=40,
                                        key_of=lambda r: r.get("k"), max_workers=3)
        return fn

    def tamper(tag, args):
        def fn():
            rows = C04.run_tamper(chk, tbin, tag, args)
            hdr, body = rows[0], [r for r in rows[1:] if r.get("a") != "intent"]
            stats["tamper"] += len([r for r in body if r["a"] == "tamper"])
            return vlib.validate_chunks(chk, "trace-" + tag, PC, "TamperTrace", "TamperTrace.cfg", body, header=hdr, chunk=1500,
                                        key_of=C04.key_of, max_workers=3)
        return fn
    for tag, args in jobs:
        tasks.append(("h:" + tag, honest(tag, args)))
    for tag, args in tam:
        tasks.append(("t:" + tag, tamper(tag, args)))
    res = vlib.parallel(tasks, max_workers=6)
    chk.add_mc("DeviationMC", res["mc"])
    chk.cov["traces_validated_against_impl"] = stats["ot"] + stats["vole"] + stats["tamper"]
    chk.cov["evaluations"] = stats["ot"] + stats["vole"] + stats["tamper"]
    chk.cov["distinct_nontrivial"] = len(stats["configs"])
    chk.cov["ot_runs"], chk.cov["vole_runs"], chk.cov["tamper_runs"], chk.cov["refused_on_small_field"] = stats["ot"], stats["vole"], stats["tamper"], stats["refused_small_field"]
    chk.cov["rule"] = "one case = one real OT batch / one real VOLE multiplication (all instances and blocks checked) or one tampered run; distinct = distinct (kind, xi, L, choice pattern)"
    chk.assumptions += ["toy-group instances of ecbbot and rvole/bbot only: VSOT, the SoftSpoken extension and rvole/softspoken need production curves / binary fields and are NOT covered (DESIGN.md)",
                        "on the 45971-element field an honest run may be refused when a sampled value is zero/identity (1/q per element); completion is asserted on the 61-bit field"]
    return chk.finish()


def replay(chk, path):
    c = json.load(open(path))["case"]
    if c.get("a") in ("sign", "keygen", "ot", "vole"):
        return 1 if prod_common.replay(c, tier=chk.tier) else 0
    print(json.dumps({k: v for k, v in c.items() if k != "out"})[:3000])
    return 0

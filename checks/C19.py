"""C19 Transcripts and hash-to-curve are deterministic, unambiguous, domain-separated.

G: TranscriptMC (TLC) checks the hagrid framing on every history of the configured scopes (Enc injective
   by an ambiguous parser, extraction streams separate and extension-free, clones independent) and prints
   every programme and every *critical pair* (distinct histories that would collide if one framing
   element were dropped).
R: harness/cmd/transcript replays every printed programme (twice) and every critical pair on real hagrid
   transcripts; the absorbed bytes are read from the sponge state (reflection, no hook), outputs and
   sponge states are logged as tokens.
V: TranscriptTrace (TLC) re-decides every line: absorbed bytes = Frame(op) byte for byte, tokens <->
   <<name, stream>> one to one within a line and over each file.
Hash-to-curve (input/output only, the weaker half): determinism, DST dependence, prime-order membership
by an independent double-and-add with the group order, and the RFC 9380 vectors the repository ships, as
cases of H2CTrace."""
import os, json, random, hashlib
import vlib

SPEC = os.path.join(vlib.SPECS, "Transcript")
DROP_KINDS = ["tag", "lablen", "count", "msglen", "outlen", "cont"]


# ------------------------------------------------------------------ (G) generation

def parse_export(out):
    """programmes and critical pairs printed by ExportOK / ExportClones (PrintT(ToJson(..)))."""
    progs, pairs = [], {}
    for line in out.splitlines():
        if not line.startswith('"{'):
            continue
        try:
            obj = json.loads(json.loads(line))
        except ValueError:
            raise vlib.MachineryError("cannot parse exported behaviour: " + line[:200])
        if "prog" in obj:
            progs.append(obj["prog"])
        elif "cp" in obj:
            a = [dict(o, h=1) for o in obj["a"]]
            b = [dict(o, h=1) for o in obj["b"]]
            ka, kb = prog_key(a), prog_key(b)
            key = (obj["cp"],) + tuple(sorted([ka, kb]))
            pairs.setdefault(key, (obj["cp"], a, b))
    return progs, list(pairs.values())


def act_key(a):
    s = a["op"] + str(a.get("h", 1))
    if a["op"] != "clone":
        s += "(" + ".".join("%02x" % x for x in a["label"])
        if a["op"] in ("ab", "happ"):
            s += ";" + ",".join(".".join("%02x" % x for x in m) for m in a["msgs"])
        if a["op"] in ("ex", "hext"):
            s += ";%d" % a["n"]
        s += ")"
    return s


def prog_key(p):
    s = " ".join(act_key(a) for a in p)
    return s if len(s) <= 150 else s[:110] + "#" + hashlib.sha1(s.encode()).hexdigest()[:12]


def mc_job(cfg, workers=2, simulate=None, seed=None, depth=None):
    def fn():
        r = vlib.tlc(SPEC, "TranscriptMC", cfg, workers=workers, timeout=2400, simulate=simulate, seed=seed, depth=depth)
        if r.error and simulate and "states generated" in r.out and not r.violation and "Error:" not in r.out:
            r.error = None
        return r
    return fn


# ------------------------------------------------------------------ extra programmes (outside TLC's alphabet scope)

def A(op, label=(), msgs=(), n=0, h=1):
    return {"op": op, "h": h, "label": list(label), "msgs": [list(m) for m in msgs], "n": n}


def extra_cases(rng, n_random):
    """hand-written neighbours of the property statement + seeded random programmes with long strings
    (beyond one sponge block), the helpers of transcripts/utils.go and the n = 0 error."""
    cs = []
    def case(kind, runs, tag):
        cs.append({"k": "%s:%s" % (kind, tag), "kind": kind, "twice": True, "runs": runs})
    def R(prog, name="T"):
        return {"name": name, "prog": prog}
    lab, lab2 = [0x6c], [0x6c, 0x32]
    # how bytes are split across labels and messages
    case("split", [R([A("ab", [1, 2], [[3]])]), R([A("ab", [1], [[2, 3]])])], "label|msg")
    case("split", [R([A("ab", lab, [[1, 2], [3]])]), R([A("ab", lab, [[1], [2, 3]])])], "msg|msg")
    case("split", [R([A("ab", lab, [[1, 2, 3]])]), R([A("ab", lab, [[1, 2], [3]])])], "one|two")
    case("split", [R([A("ab", lab, [[1], [2]])]), R([A("ab", lab, [[1]]), A("ab", lab, [[2]])])], "call|calls")
    case("split", [R([A("ab", lab, [])]), R([A("ab", lab, [[]])]), R([A("ab", lab, [[], []])])], "empty")
    case("split", [R([A("ds", [1, 2])]), R([A("ds", [1]), A("ds", [2])])], "ds")
    # order and number
    case("order", [R([A("ab", lab, [[1], [2]])]), R([A("ab", lab, [[2], [1]])])], "msgs")
    case("order", [R([A("ds", [1]), A("ab", lab, [[2]])]), R([A("ab", lab, [[2]]), A("ds", [1])])], "ops")
    # prefixes of one another
    case("prefix", [R([A("ds", [1])]), R([A("ds", [1]), A("ds", [])]), R([A("ds", [1]), A("ab", [], [])])], "hist")
    # requested length, label, earlier extraction, name
    case("length", [R([A("ex", lab, n=16)]), R([A("ex", lab, n=17)]), R([A("ex", lab, n=32)]), R([A("ex", lab, n=64)])], "n")
    case("length", [R([A("ex", lab, n=1)]), R([A("ex", lab, n=0)]), R([A("ex", [], n=0), A("ex", lab, n=16)]), R([A("ex", lab, n=16)])], "zero")
    case("label", [R([A("ex", lab, n=32)]), R([A("ex", lab2, n=32)]), R([A("ex", [], n=32)])], "ex")
    case("earlier", [R([A("ex", lab, n=32), A("ex", lab, n=32)]), R([A("ex", lab2, n=32), A("ex", lab, n=32)]), R([A("ex", lab, n=32)])], "ex")
    case("name", [R([A("ds", [1]), A("ex", lab, n=32)], "T"), R([A("ds", [1]), A("ex", lab, n=32)], "U"),
                  R([A("ds", [1]), A("ex", lab, n=32)], ""), R([A("ds", [1]), A("ex", lab, n=32)], "T-")], "T|U")
    # clones
    case("clone", [R([A("ds", [1]), A("clone"), A("ab", lab, [[2]], h=1), A("ab", lab, [[3]], h=2), A("ex", lab, n=32, h=1), A("ex", lab, n=32, h=2)])], "diverge")
    case("clone", [R([A("clone"), A("ex", lab, n=32, h=1), A("ex", lab, n=32, h=2), A("ex", lab, n=32, h=2)])], "same-then-differ")
    case("clone", [R([A("clone"), A("clone", h=2), A("ds", [1], h=3), A("ds", [1], h=1), A("ex", lab, n=16, h=2)])], "chain")
    # helpers of pkg/transcripts/utils.go
    case("helper", [R([A("happ", lab, [[1], [2, 3]])]), R([A("ab", lab, [[1]]), A("ab", lab, [[2, 3]])]), R([A("ab", lab, [[1], [2, 3]])])], "append")
    case("helper", [R([A("hext", lab, n=42)]), R([A("ex", lab, n=42)]), R([A("hext", lab2, n=42)]), R([A("ds", []), A("hext", lab, n=42)])], "extract")
    case("helper", [R([A("happ", lab, [])]), R([])], "append-none")
    # long strings: labels / messages longer than a sponge block, 256 and 65536 boundaries of the length field
    for ln in (135, 136, 137, 255, 256, 257, 300):
        m = [(i * 7 + 1) % 256 for i in range(ln)]
        case("long", [R([A("ab", lab, [m]), A("ex", lab, n=32)]), R([A("ab", lab, [m[:-1]]), A("ex", lab, n=32)]),
                      R([A("ab", lab, [m[:100], m[100:]]), A("ex", lab, n=32)])], "msg%d" % ln)
        case("long", [R([A("ds", m)]), R([A("ds", m[:-1] + [m[-1] ^ 1])])], "label%d" % ln)
    case("long", [R([A("ex", lab, n=200)]), R([A("ex", lab, n=256)]), R([A("ex", lab, n=1000)])], "outlen")
    # seeded random programmes over all byte values
    def rstr(mx):
        return [rng.choice([0, 1, 2, 8, 16, 0xa0, 0xa1, 0xa2, 0xa3, 0xa4, 0xff, rng.randrange(256)]) for _ in range(rng.randrange(mx + 1))]
    for i in range(n_random):
        runs = []
        for _ in range(2):
            prog, nh = [], 1
            for _ in range(rng.randrange(1, 6)):
                h = rng.randrange(1, nh + 1)
                c = rng.random()
                if c < 0.2:
                    prog.append(A("ds", rstr(4), h=h))
                elif c < 0.55:
                    prog.append(A("ab", rstr(4), [rstr(6) for _ in range(rng.randrange(4))], h=h))
                elif c < 0.75:
                    prog.append(A("ex", rstr(3), n=rng.choice([16, 16, 32, 33, 64, 1, 0]), h=h))
                elif c < 0.85 and nh < 3:
                    prog.append(A("clone", h=h)); nh += 1
                elif c < 0.93:
                    prog.append(A("happ", rstr(3), [rstr(5) for _ in range(rng.randrange(3))], h=h))
                else:
                    prog.append(A("hext", rstr(3), n=42, h=h))
            runs.append(R(prog, rng.choice(["T", "T", "U"])))
        if rng.random() < 0.5:   # a near miss: the second run is the first with one byte / one boundary changed
            runs[1] = mutate(rng, runs[0])
        case("random", runs, str(i))
    return cs


def mutate(rng, run):
    r = json.loads(json.dumps(run))
    acts = [a for a in r["prog"] if a["op"] != "clone"]
    if not acts:
        r["name"] = r["name"] + "x"
        return r
    a = rng.choice(acts)
    c = rng.random()
    if c < 0.3 and a["label"]:
        a["label"][rng.randrange(len(a["label"]))] ^= 1 << rng.randrange(8)
    elif c < 0.5:
        a["label"] = a["label"] + [0]
    elif c < 0.8 and a["op"] in ("ab", "happ") and a["msgs"]:
        i = rng.randrange(len(a["msgs"]))
        if a["msgs"][i] and rng.random() < 0.5:   # move a boundary
            a["msgs"] = a["msgs"][:i] + [a["msgs"][i][:1], a["msgs"][i][1:]] + a["msgs"][i + 1:]
        else:
            a["msgs"][i] = a["msgs"][i] + [0]
    elif a["op"] == "ex" and a["n"] > 0:
        a["n"] += 1
    else:
        r["name"] = "U" if r["name"] != "U" else "T"
    return r


# ------------------------------------------------------------------ (R) + (V)

def key_of(row):
    return row.get("k", "?")


def validate(chk, name, module, cfg, rows, header, global_key, timeout=1800, heap="6g", specdir=SPEC, local_cfg=None, extra=()):
    """like vlib.validate_trace (a rejected line becomes a violation and validation continues without it), plus:
    GlobalOK is evaluated once after the last line; when it fails the file is re-run with `local_cfg` (the same
    condition per line) to locate the offending lines; if no single line explains it the file is reported."""
    import re
    rows = list(rows)
    total, bad, rounds = len(rows), 0, 0
    use_cfg, tried_local = cfg, False
    while True:
        rounds += 1
        rd = vlib.scratch(chk.prop, name)
        vlib.write_ndjson(os.path.join(rd, "trace.ndjson"), [header] + rows)
        res = vlib.tlc(specdir, module, use_cfg, workers=1, timeout=timeout, rundir=rd, heap=heap, extra_files=extra)
        if res.error:
            raise vlib.MachineryError("%s: %s" % (name, res.error))
        if not res.violation:
            if res.distinct < len(rows) + 2:
                raise vlib.MachineryError("%s: trace spec consumed %d of %d lines:\n%s" % (name, res.distinct - 1, len(rows) + 1, res.out[-1500:]))
            if use_cfg != cfg:      # the per-line run is clean: decide the file again
                use_cfg = cfg
                continue
            chk.cov["states"] += res.distinct
            chk.cov["transitions"] += res.generated
            chk.cov["parts"][name] = {"lines": total, "rejected_lines": bad, "distinct": res.distinct, "wall_s": round(res.wall, 1)}
            vlib.log("[trace] %s: %d lines validated, %d rejected (%.1fs, %d rounds)" % (name, total, bad, res.wall, rounds))
            return total
        if res.violation == "GlobalOK":
            if local_cfg and use_cfg == cfg and not tried_local:
                tried_local, use_cfg = True, local_cfg
                continue
            chk.violation(global_key, "tokens and <<name, stream>> are not one to one over the file %s (two different histories "
                          "gave the same output/state, or equal histories different ones)" % name, {"file": name, "lines": rows[:40]})
            return total
        l = None
        if res.cex:
            mm = re.match(r"^(\d+)", res.cex[-1].get("l", ""))
            if mm:
                l = int(mm.group(1)) - 1      # line 1 is the header
        if l is None or l < 1 or l > len(rows):
            raise vlib.MachineryError("%s: violation of %s but cannot locate the line:\n%s" % (name, res.violation, res.out[-2000:]))
        row = rows[l - 1]
        chk.violation(key_of(row), "trace line rejected by %s (%s): %s" % (module, res.violation, json.dumps(row)[:700]), row)
        bad += 1
        del rows[l - 1]
        if bad >= 8 or rounds > 12:
            vlib.log("[trace] %s: stopping after %d rejected lines" % (name, bad))
            return total


def replay_and_validate(chk, binary, tag, cases, stats, chunk=6000):
    rd = vlib.scratch(chk.prop, "drv-" + tag)
    inp, out = os.path.join(rd, "cases.ndjson"), os.path.join(rd, "trace.ndjson")
    vlib.write_ndjson(inp, cases)
    vlib.run_driver(binary, ["-mode", "replay", "-in", inp, "-out", out])
    rows = vlib.read_ndjson(out)
    hdr, rows = rows[0], rows[1:]
    if len(rows) != len(cases):
        raise vlib.MachineryError("driver returned %d lines for %d cases" % (len(rows), len(cases)))
    for r in rows:
        stats["by_kind"][r["kind"]] = stats["by_kind"].get(r["kind"], 0) + 1
        for run in r["runs"]:
            stats["calls"] += len(run["prog"])
            stats["abs_observed"] += sum(1 for o in run["obs"] if o["dok"])
    for r in rows[:1]:
        chk.sample({"job": tag, "event": r}, cap=4)
    chunks = [rows[i:i + chunk] for i in range(0, len(rows), chunk)] or [[]]
    def mk(i, part):
        return lambda: validate(chk, "trace-%s-%d" % (tag, i), "TranscriptTrace", "TranscriptTrace.cfg", part, hdr,
                                "global-token-map:" + tag, local_cfg="TranscriptTraceLocal.cfg")
    res = vlib.parallel([("%s-%d" % (tag, i), mk(i, p)) for i, p in enumerate(chunks)], max_workers=2 if len(chunks) > 4 else 1)
    return sum(res.values())


def cases_of(progs, pairs, tag):
    cs = []
    for p in progs:
        cs.append({"k": "hist:" + prog_key(p), "kind": "hist", "twice": True, "runs": [{"name": "T", "prog": p}]})
    for kind, a, b in pairs:
        cs.append({"k": "pair:%s:%s | %s" % (kind, prog_key(a), prog_key(b)), "kind": "pair-" + kind, "twice": False,
                   "runs": [{"name": "T", "prog": a}, {"name": "T", "prog": b}]})
    return cs


def run(chk):
    binary = vlib.build("transcript")
    rng = random.Random(chk.seed)
    if chk.quick:
        mcs = [("qa", {}), ("qb", {}), ("qclone", {}), ("qw1", {}), ("qframes", {})]
        n_random, h2c_n = 150, 10
    else:
        mcs = [("qa", {}), ("qb", {}), ("qclone", {}), ("qw1", {}), ("qframes", {}),
               ("t1", {}), ("t2", {}), ("t3", {}), ("t4", {}), ("tclone", {}), ("tw1", {}), ("tframes", {}),
               ("sim", {"simulate": "num=1500", "seed": chk.seed, "depth": 4})]
        n_random, h2c_n = 2000, 80
    stats = {"by_kind": {}, "calls": 0, "abs_observed": 0, "lines": 0, "programmes": 0, "critical_pairs": {}}

    def pipeline(name, kw):
        def fn():
            r = mc_job("TranscriptMC_%s.cfg" % name, **kw)()
            if r.error:
                raise vlib.MachineryError("TranscriptMC/%s: %s" % (name, r.error))
            if r.violation:
                return r, 0
            progs, pairs = parse_export(r.out)
            r.out = ""
            stats["programmes"] += len(progs)
            for k, _, _ in pairs:
                stats["critical_pairs"][k] = stats["critical_pairs"].get(k, 0) + 1
            n = 0
            if progs or pairs:
                n = replay_and_validate(chk, binary, name, cases_of(progs, pairs, name), stats)
            return r, n
        return fn

    def extras():
        return replay_and_validate(chk, binary, "extra", extra_cases(rng, n_random), stats, chunk=1500)

    tasks = [("mc:" + n, pipeline(n, kw)) for n, kw in mcs] + [("extra", extras), ("h2c", lambda: h2c(chk, binary, h2c_n))]
    res = vlib.parallel(tasks, max_workers=3)
    for n, _ in mcs:
        r, lines = res["mc:" + n]
        chk.add_mc("TranscriptMC/" + n, r)
        if r.violation:
            raise vlib.MachineryError("the specification itself is inconsistent (%s violates %s): %s" % (n, r.violation, r.cex[-1:]))
        stats["lines"] += lines
    stats["lines"] += res["extra"]
    h2c_stats = res["h2c"]
    chk.cov["traces_validated_against_impl"] = len(mcs) + 2
    chk.cov["evaluations"] = stats["lines"] + h2c_stats["lines"]
    chk.cov["distinct_nontrivial"] = stats["lines"] + h2c_stats["lines"]
    chk.cov["transcript"] = stats
    chk.cov["h2c"] = h2c_stats
    chk.cov["rule"] = ("transcript: one line = one case (a programme replayed twice, a critical pair, or a hand-written / random "
                       "group of neighbouring programmes) on real hagrid transcripts; every call's absorbed bytes (read from the "
                       "sponge state) and every output / state token are re-decided by TLC. Exhaustive over every history of the "
                       "TranscriptMC scopes. h2c: one line = one hash call or one shipped RFC 9380 vector (input/output only).")
    chk.cov["exhaustive"] = True
    chk.assumptions += [
        "cSHAKE256 is modelled as an injective function of (customisation, absorbed stream): equal tokens <=> equal streams; a 128-bit collision would be reported as a violation",
        "the absorbed bytes are read from crypto/sha3's serialised state (go1.26 layout, self-tested by the driver); calls that cross a sponge block (136 bytes) are checked through state/output tokens only",
        "hash-to-curve is checked input/output only (determinism, DST and message dependence, order*P = O by an independent double-and-add, shipped RFC 9380 vectors); the map itself is not modelled",
    ]
    return chk.finish()


# ------------------------------------------------------------------ hash to curve

def h2c(chk, binary, n):
    rd = vlib.scratch(chk.prop, "drv-h2c")
    out = os.path.join(rd, "trace.ndjson")
    vlib.run_driver(binary, ["-mode", "h2c", "-out", out, "-seed", str(chk.seed), "-n", str(n), "-vectors", vlib.REPO])
    rows = vlib.read_ndjson(out)
    hdr, rows = rows[0], rows[1:]
    by = {}
    for r in rows:
        by[r["a"]] = by.get(r["a"], 0) + 1
    chk.sample({"job": "h2c", "event": rows[len(rows) // 2]}, cap=6)
    n = validate(chk, "trace-h2c", "H2CTrace", "H2CTrace.cfg", rows, hdr, "h2c:global-token-map")
    return {"lines": n, "by_action": by, "suites": hdr.get("suites", [])}


def replay(chk, path):
    """re-run the recorded case on the current tree and re-validate it."""
    case = json.load(open(path))["case"]
    binary = vlib.build("transcript")
    if "runs" in case:
        stats = {"by_kind": {}, "calls": 0, "abs_observed": 0}
        cin = {"k": case["k"], "kind": case["kind"], "runs": [{"name": r["name"], "prog": r["prog"]} for r in case["runs"]]}
        replay_and_validate(chk, binary, "replay", [cin], stats)
    else:
        print(json.dumps(case)[:2000])
    return chk.finish()

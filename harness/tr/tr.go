// Package tr holds what every adapter needs: an ndjson trace writer, seeded
// readers, and conversions between the toy algebra and plain integers.
package tr

import (
	"bufio"
	"encoding/binary"
	"encoding/json"
	"fmt"
	"io"
	"math/rand/v2"
	"os"
	"sync"

	"github.com/bronlabs/bron-crypto/pkg/base/mat"

	"verif/harness/toy"
)

// W is an ndjson writer. Line numbering starts at 1 (TLA+ sequence index).
type W struct {
	f *os.File
	b *bufio.Writer
	N int
}

func NewW(path string) *W {
	f, err := os.Create(path)
	if err != nil {
		panic(err)
	}
	return &W{f: f, b: bufio.NewWriterSize(f, 1<<20)}
}

// Emit writes one event. Keys: "a" action name, "k" case key, rest per family.
func (w *W) Emit(ev map[string]any) {
	w.N++
	data, err := json.Marshal(ev)
	if err != nil {
		panic(err)
	}
	w.b.Write(data)
	w.b.WriteByte('\n')
}

func (w *W) Flush() { w.b.Flush() }

func (w *W) Close() {
	w.b.Flush()
	w.f.Close()
}

// Rng returns a deterministic byte stream for (seed, stream).
func Rng(seed uint64, stream uint64) io.Reader {
	var key [32]byte
	binary.LittleEndian.PutUint64(key[0:], seed)
	binary.LittleEndian.PutUint64(key[8:], stream)
	copy(key[16:], "verif-harness-rng")
	return &lockedReader{r: rand.NewChaCha8(key)}
}

// lockedReader serialises reads: parts of the library (AND-composed sigma proofs) read the caller's reader from
// several goroutines at once.
type lockedReader struct {
	mu sync.Mutex
	r  io.Reader
}

func (l *lockedReader) Read(p []byte) (int, error) {
	l.mu.Lock()
	defer l.mu.Unlock()
	return l.r.Read(p)
}

// PRand returns a deterministic math/rand generator for case selection.
func PRand(seed uint64, stream uint64) *rand.Rand {
	return rand.New(rand.NewPCG(seed, stream))
}

// ---- toy conversions ----

func S(v uint64) *toy.Scalar { return toy.FromInt(v) }

func Ss(vs []uint64) []*toy.Scalar {
	out := make([]*toy.Scalar, len(vs))
	for i, v := range vs {
		out[i] = S(v)
	}
	return out
}

func Ints(ss []*toy.Scalar) []uint64 {
	out := make([]uint64, len(ss))
	for i, s := range ss {
		out[i] = s.Int()
	}
	return out
}

func Logs(es []*toy.Elem) []uint64 {
	out := make([]uint64, len(es))
	for i, e := range es {
		out[i] = e.Log()
	}
	return out
}

// Mat builds a real library matrix from rows (must be non-empty and rectangular).
func Mat(rows [][]uint64) *mat.Matrix[*toy.Scalar] {
	mod, err := mat.NewMatrixModule(uint(len(rows)), uint(len(rows[0])), toy.NewScalarField())
	if err != nil {
		panic(fmt.Sprintf("Mat: %v", err))
	}
	flat := make([]*toy.Scalar, 0, len(rows)*len(rows[0]))
	for _, r := range rows {
		flat = append(flat, Ss(r)...)
	}
	m, err := mod.NewRowMajor(flat...)
	if err != nil {
		panic(fmt.Sprintf("Mat: %v", err))
	}
	return m
}

// MatInts projects a library matrix to integers.
func MatInts(m *mat.Matrix[*toy.Scalar]) [][]uint64 {
	r, c := m.Dimensions()
	out := make([][]uint64, r)
	for i := 0; i < r; i++ {
		out[i] = make([]uint64, c)
		for j := 0; j < c; j++ {
			v, err := m.Get(i, j)
			if err != nil {
				panic(err)
			}
			out[i][j] = v.Int()
		}
	}
	return out
}

// ElemMatLogs projects a module-valued matrix to the discrete logs of its entries.
func ElemMatLogs(m *mat.ModuleValuedMatrix[*toy.Elem, *toy.Scalar]) [][]uint64 {
	r, c := m.Dimensions()
	out := make([][]uint64, r)
	for i := 0; i < r; i++ {
		out[i] = make([]uint64, c)
		for j := 0; j < c; j++ {
			v, err := m.Get(i, j)
			if err != nil {
				panic(err)
			}
			out[i][j] = v.Log()
		}
	}
	return out
}

// ElemMat builds a module-valued matrix with entries g^{logs[i][j]}.
func ElemMat(logs [][]uint64) *mat.ModuleValuedMatrix[*toy.Elem, *toy.Scalar] {
	mod, err := mat.NewModuleValuedMatrixModule(uint(len(logs)), uint(len(logs[0])), toy.NewGroup())
	if err != nil {
		panic(err)
	}
	flat := make([]*toy.Elem, 0)
	for _, r := range logs {
		for _, v := range r {
			flat = append(flat, toy.FromLog(v))
		}
	}
	m, err := mod.NewRowMajor(flat...)
	if err != nil {
		panic(err)
	}
	return m
}

// Col converts a column/row vector matrix to a flat int slice.
func Flat(m *mat.Matrix[*toy.Scalar]) []uint64 {
	out := []uint64{}
	for v := range m.Iter() {
		out = append(out, v.Int())
	}
	return out
}

// ErrClass gives a stable short class for an error (nil -> "").
func ErrClass(err error) string {
	if err == nil {
		return ""
	}
	s := err.Error()
	if len(s) > 160 {
		s = s[:160]
	}
	return s
}

// ErrChain joins the messages of err and of everything it wraps (errs-go keeps only the outermost message in Error()).
func ErrChain(err error) string {
	if err == nil {
		return ""
	}
	out := err.Error()
	switch u := err.(type) {
	case interface{ Unwrap() []error }:
		for _, e := range u.Unwrap() {
			out += " | " + ErrChain(e)
		}
	case interface{ Unwrap() error }:
		if e := u.Unwrap(); e != nil {
			out += " | " + ErrChain(e)
		}
	}
	return out
}

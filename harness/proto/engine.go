// Package proto is a small round engine that drives bron-crypto's round-based protocol
// participants over CBOR bytes (as the library's own runners do), lets a tamper hook alter
// what one party sends, and records who rejected, in which round, and whom they blamed.
package proto

import (
	"crypto/sha256"
	"errors"
	"fmt"
	"sort"
	"sync"
	"time"

	"github.com/bronlabs/bron-crypto/pkg/base"
	ds "github.com/bronlabs/bron-crypto/pkg/base/datastructures"
	"github.com/bronlabs/bron-crypto/pkg/base/datastructures/hashmap"
	"github.com/bronlabs/bron-crypto/pkg/base/serde"
	"github.com/bronlabs/bron-crypto/pkg/mpc/sharing"
)

type ID = sharing.ID

// Party is one protocol participant seen as a machine over CBOR bytes.
type Party interface {
	ID() ID
	Rounds() int
	// Round k (1-based) consumes what the others produced in round k-1 for this party.
	Round(k int, inB, inU map[ID][]byte) (outB []byte, outU map[ID][]byte, err error)
}

// Tamper alters the messages one party (From) emits in round Round. To == 0 with Kind "b":
// the broadcast, identically for every recipient (what echo broadcast enforces);
// Kind "u": the unicast addressed to To. F returns the new bytes, or drop = true.
type Tamper struct {
	Round int
	From  ID
	To    ID
	Kind  string
	F     func(data []byte) (out []byte, drop bool)
	// All, if set, replaces F/To/Kind: it sees every message From emits in Round (a consistent multi-message strategy).
	All func(to ID, kind string, data []byte) (out []byte, drop bool)
	// AllR, if set, replaces everything above except From: it sees every message From emits in EVERY round (a strategy that
	// stays consistent over several rounds).
	AllR func(round int, to ID, kind string, data []byte) (out []byte, drop bool)
}

type Reject struct {
	Party   ID     `json:"party"`
	Round   int    `json:"round"`
	Err     string `json:"err"`
	Blamed  []ID   `json:"blamed"`
	Abort   bool   `json:"abort"`
	Panic   bool   `json:"panic"`
	Timeout bool   `json:"timeout"`
	Decode  bool   `json:"decode"`
}

type Result struct {
	Rejects   []Reject
	Completed []ID // parties that finished their last round without error
	StopRound int  // round in which the run stopped (0 = ran to the end)
}

// Observer sees every message after tampering, as delivered.
type Observer func(round int, from, to ID, kind string, data []byte)

// DecodeError marks a failure to decode an incoming message (structural rejection by the codec).
type DecodeError struct {
	From ID
	Err  error
}

func (e *DecodeError) Error() string { return fmt.Sprintf("decode message from %d: %v", e.From, e.Err) }

var RoundTimeout = 120 * time.Second

// Run executes the protocol. All parties of a round are always run; the run stops after the
// first round in which some party rejected (an aborted protocol does not continue).
func Run(parties []Party, tamper *Tamper, obs Observer) *Result {
	res := &Result{}
	n := 0
	for _, p := range parties {
		if p.Rounds() > n {
			n = p.Rounds()
		}
	}
	sort.Slice(parties, func(i, j int) bool { return parties[i].ID() < parties[j].ID() })
	inB := map[ID]map[ID][]byte{}
	inU := map[ID]map[ID][]byte{}
	for _, p := range parties {
		inB[p.ID()] = map[ID][]byte{}
		inU[p.ID()] = map[ID][]byte{}
	}
	for k := 1; k <= n; k++ {
		type outT struct {
			b   []byte
			u   map[ID][]byte
			rej *Reject
		}
		outs := map[ID]*outT{}
		var mu sync.Mutex
		var wg sync.WaitGroup
		for _, p := range parties {
			if k > p.Rounds() {
				continue
			}
			wg.Add(1)
			go func(p Party) {
				defer wg.Done()
				o := &outT{}
				done := make(chan struct{})
				go func() {
					defer close(done)
					defer func() {
						if r := recover(); r != nil {
							o.rej = &Reject{Party: p.ID(), Round: k, Err: fmt.Sprintf("panic: %v", r), Panic: true, Blamed: []ID{}}
						}
					}()
					b, u, err := p.Round(k, inB[p.ID()], inU[p.ID()])
					if err != nil {
						rej := &Reject{Party: p.ID(), Round: k, Err: clip(err.Error()), Blamed: blamed(err), Abort: errors.Is(err, base.ErrAbort)}
						var de *DecodeError
						if errors.As(err, &de) {
							rej.Decode = true
							rej.Blamed = []ID{de.From}
						}
						o.rej = rej
						return
					}
					o.b, o.u = b, u
				}()
				select {
				case <-done:
				case <-time.After(RoundTimeout):
					o = &outT{rej: &Reject{Party: p.ID(), Round: k, Err: "timeout", Timeout: true, Blamed: []ID{}}}
				}
				mu.Lock()
				outs[p.ID()] = o
				mu.Unlock()
			}(p)
		}
		wg.Wait()
		stop := false
		for _, p := range parties {
			o := outs[p.ID()]
			if o == nil {
				continue
			}
			if o.rej != nil {
				res.Rejects = append(res.Rejects, *o.rej)
				stop = true
			} else if k == p.Rounds() {
				res.Completed = append(res.Completed, p.ID())
			}
		}
		if stop {
			res.StopRound = k
			return res
		}
		// deliver
		for _, p := range parties {
			inB[p.ID()] = map[ID][]byte{}
			inU[p.ID()] = map[ID][]byte{}
		}
		for _, s := range parties {
			o := outs[s.ID()]
			if o == nil {
				continue
			}
			if o.b != nil {
				data, drop := o.b, false
				if tamper != nil && tamper.AllR != nil && tamper.From == s.ID() {
					data, drop = tamper.AllR(k, 0, "b", data)
				} else if tamper != nil && tamper.Round == k && tamper.From == s.ID() {
					if tamper.All != nil {
						data, drop = tamper.All(0, "b", data)
					} else if tamper.Kind == "b" {
						data, drop = tamper.F(data)
					}
				}
				if !drop {
					for _, r := range parties {
						if r.ID() == s.ID() {
							continue
						}
						inB[r.ID()][s.ID()] = data
						if obs != nil {
							obs(k, s.ID(), r.ID(), "b", data)
						}
					}
				}
			}
			for to, data := range o.u {
				drop := false
				if tamper != nil && tamper.AllR != nil && tamper.From == s.ID() {
					data, drop = tamper.AllR(k, to, "u", data)
				} else if tamper != nil && tamper.Round == k && tamper.From == s.ID() {
					if tamper.All != nil {
						data, drop = tamper.All(to, "u", data)
					} else if tamper.Kind == "u" && tamper.To == to {
						data, drop = tamper.F(data)
					}
				}
				if drop {
					continue
				}
				if _, ok := inU[to]; !ok {
					continue
				}
				inU[to][s.ID()] = data
				if obs != nil {
					obs(k, s.ID(), to, "u", data)
				}
			}
		}
	}
	return res
}

func clip(s string) string {
	if len(s) > 300 {
		return s[:300]
	}
	return s
}

func blamed(err error) []ID {
	ids := base.GetMaliciousIdentities[ID](err)
	seen := map[ID]bool{}
	out := []ID{}
	for _, id := range ids {
		if !seen[id] {
			seen[id] = true
			out = append(out, id)
		}
	}
	sort.Slice(out, func(i, j int) bool { return out[i] < out[j] })
	return out
}

// ---- codec helpers ----

func Enc[T any](m T) []byte {
	data, err := serde.MarshalCBOR(m)
	if err != nil {
		panic(fmt.Sprintf("proto.Enc: %v", err))
	}
	return data
}

// EncMap encodes outgoing unicasts.
func EncMap[T any](m ds.Map[ID, T]) map[ID][]byte {
	out := map[ID][]byte{}
	if m == nil {
		return out
	}
	for id, v := range m.Iter() {
		out[id] = Enc(v)
	}
	return out
}

// DecMap decodes incoming messages; a codec failure is a DecodeError naming the sender.
func DecMap[T any](in map[ID][]byte) (ds.Map[ID, T], error) {
	out := hashmap.NewComparable[ID, T]()
	ids := make([]ID, 0, len(in))
	for id := range in {
		ids = append(ids, id)
	}
	sort.Slice(ids, func(i, j int) bool { return ids[i] < ids[j] })
	for _, id := range ids {
		v, err := serde.UnmarshalCBOR[T](in[id])
		if err != nil {
			return nil, &DecodeError{From: id, Err: err}
		}
		out.Put(id, v)
	}
	return out.Freeze(), nil
}

// ---- tokens: equal bytes <=> equal token ----

var (
	tokMu sync.Mutex
	toks  = map[[32]byte]int{}
)

func Tok(data []byte) int {
	h := sha256.Sum256(data)
	tokMu.Lock()
	defer tokMu.Unlock()
	if t, ok := toks[h]; ok {
		return t
	}
	t := len(toks) + 1
	toks[h] = t
	return t
}

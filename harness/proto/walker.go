package proto

import (
	"bytes"
	"fmt"
	"regexp"
	"sort"

	"github.com/fxamacker/cbor/v2"
)

// A generic CBOR tree walker: decodes a message without any protocol knowledge, enumerates its
// leaves (byte strings, integers, text, booleans) with addressable paths, lets one leaf or one
// array be rewritten, and re-encodes with the same core-deterministic options the library uses.
// Byte strings that are themselves complete CBOR maps/arrays (embedded proofs) are descended into.

var (
	walkDec cbor.DecMode
	walkEnc cbor.EncMode
)

func init() {
	var err error
	walkDec, err = cbor.DecOptions{MaxNestedLevels: 64, MaxArrayElements: 1 << 20, MaxMapPairs: 1 << 20,
		UnrecognizedTagToAny: cbor.UnrecognizedTagContentToAny, TagsMd: cbor.TagsAllowed,
		DefaultMapType: nil}.DecMode()
	if err != nil {
		panic(err)
	}
	walkEnc, err = cbor.CoreDetEncOptions().EncMode()
	if err != nil {
		panic(err)
	}
}

type node struct {
	kind string // map, array, bytes, int, text, bool, nil, tag, embedded, other
	keys []any  // map keys in encoding order
	kids []*node
	val  any
	tag  uint64
}

func build(v any) *node {
	switch x := v.(type) {
	case map[any]any:
		n := &node{kind: "map"}
		keys := make([]any, 0, len(x))
		for k := range x {
			keys = append(keys, k)
		}
		sort.Slice(keys, func(i, j int) bool { return fmt.Sprint(keys[i]) < fmt.Sprint(keys[j]) })
		for _, k := range keys {
			n.keys = append(n.keys, k)
			n.kids = append(n.kids, build(x[k]))
		}
		return n
	case []any:
		n := &node{kind: "array"}
		for _, e := range x {
			n.kids = append(n.kids, build(e))
		}
		return n
	case cbor.Tag:
		return &node{kind: "tag", tag: x.Number, kids: []*node{build(x.Content)}}
	case []byte:
		// embedded CBOR?
		// embedded CBOR (proofs): only a map with text keys counts, so that random scalar bytes are never mistaken for structure
		if len(x) >= 12 && x[0]>>5 == 5 {
			var inner any
			if err := walkDec.Unmarshal(x, &inner); err == nil && textKeyedMap(inner) {
				if re, err := walkEnc.Marshal(unbuild(build(inner))); err == nil && bytes.Equal(re, x) {
					return &node{kind: "embedded", kids: []*node{build(inner)}}
				}
			}
		}
		return &node{kind: "bytes", val: append([]byte(nil), x...)}
	case uint64, int64:
		return &node{kind: "int", val: x}
	case string:
		return &node{kind: "text", val: x}
	case bool:
		return &node{kind: "bool", val: x}
	case nil:
		return &node{kind: "nil"}
	default:
		return &node{kind: "other", val: x}
	}
}

func textKeyedMap(v any) bool {
	m, ok := v.(map[any]any)
	if !ok || len(m) == 0 {
		return false
	}
	for k := range m {
		if _, ok := k.(string); !ok {
			return false
		}
	}
	return true
}

func unbuild(n *node) any {
	switch n.kind {
	case "map":
		m := map[any]any{}
		for i, k := range n.keys {
			m[k] = unbuild(n.kids[i])
		}
		return m
	case "array":
		a := make([]any, len(n.kids))
		for i, k := range n.kids {
			a[i] = unbuild(k)
		}
		return a
	case "tag":
		return cbor.Tag{Number: n.tag, Content: unbuild(n.kids[0])}
	case "embedded":
		b, err := walkEnc.Marshal(unbuild(n.kids[0]))
		if err != nil {
			panic(err)
		}
		return b
	default:
		return n.val
	}
}

// Leaf is an addressable leaf (or array) of a message.
type Leaf struct {
	Path  string // e.g. /verificationVector/verification_vector/data[2]/compressedBytes
	Class string // path with indices removed: .../data[]/compressedBytes
	Kind  string // bytes | int | text | bool | array
	Bytes []byte // for bytes leaves
	Int   int64
	Len   int // for arrays
	n     *node
}

var idxRe = regexp.MustCompile(`\[\d+\]`)

// Tree is a decoded message.
type Tree struct{ root *node }

func Parse(data []byte) (*Tree, error) {
	var v any
	if err := walkDec.Unmarshal(data, &v); err != nil {
		return nil, err
	}
	return &Tree{root: build(v)}, nil
}

func (t *Tree) Encode() []byte {
	b, err := walkEnc.Marshal(unbuild(t.root))
	if err != nil {
		panic(err)
	}
	return b
}

// Leaves lists all leaves and arrays in deterministic order.
func (t *Tree) Leaves() []*Leaf {
	out := []*Leaf{}
	var rec func(n *node, path string)
	rec = func(n *node, path string) {
		cls := idxRe.ReplaceAllString(path, "[]")
		switch n.kind {
		case "map":
			for i, k := range n.keys {
				rec(n.kids[i], fmt.Sprintf("%s/%v", path, k))
			}
		case "array":
			out = append(out, &Leaf{Path: path, Class: cls, Kind: "array", Len: len(n.kids), n: n})
			for i, k := range n.kids {
				rec(k, fmt.Sprintf("%s[%d]", path, i))
			}
		case "tag":
			rec(n.kids[0], fmt.Sprintf("%s#%d", path, n.tag))
		case "embedded":
			rec(n.kids[0], path+"!")
		case "bytes":
			out = append(out, &Leaf{Path: path, Class: cls, Kind: "bytes", Bytes: n.val.([]byte), n: n})
		case "int":
			var iv int64
			switch x := n.val.(type) {
			case uint64:
				iv = int64(x)
			case int64:
				iv = x
			}
			out = append(out, &Leaf{Path: path, Class: cls, Kind: "int", Int: iv, n: n})
		case "text":
			out = append(out, &Leaf{Path: path, Class: cls, Kind: "text", Bytes: []byte(n.val.(string)), n: n})
		case "bool":
			out = append(out, &Leaf{Path: path, Class: cls, Kind: "bool", n: n})
		}
	}
	rec(t.root, "")
	return out
}

// Find returns the leaf with the given path, or nil.
func (t *Tree) Find(path string) *Leaf {
	for _, l := range t.Leaves() {
		if l.Path == path {
			return l
		}
	}
	return nil
}

func (l *Leaf) SetBytes(b []byte) { l.n.val = append([]byte(nil), b...) }
func (l *Leaf) SetInt(v int64) {
	if v >= 0 {
		l.n.val = uint64(v)
	} else {
		l.n.val = v
	}
}

// Truncate drops the last element of an array; Extend duplicates it.
func (l *Leaf) Truncate() bool {
	if l.Kind != "array" || len(l.n.kids) == 0 {
		return false
	}
	l.n.kids = l.n.kids[:len(l.n.kids)-1]
	return true
}

func (l *Leaf) Extend() bool {
	if l.Kind != "array" || len(l.n.kids) == 0 {
		return false
	}
	last := l.n.kids[len(l.n.kids)-1]
	l.n.kids = append(l.n.kids, build(unbuild(last)))
	return true
}

// SwapKids swaps two elements of an array.
func (l *Leaf) SwapKids(i, j int) bool {
	if l.Kind != "array" || i >= len(l.n.kids) || j >= len(l.n.kids) {
		return false
	}
	l.n.kids[i], l.n.kids[j] = l.n.kids[j], l.n.kids[i]
	return true
}

package prod

// CGGMP21 threshold ECDSA (4 rounds, Paillier + ring-Pedersen auxiliary material) through the networked runner API. The auxiliary
// material (2048-bit Blum modulus and ring-Pedersen parameters per party; the protocol's range parameters need at least 1792 bits
// on a 256-bit curve) takes minutes to sample, so it is sampled once per process by the CGGMP21 trusted dealer and re-attached to base
// shards that come from trusted dealing, Gennaro or Canetti over the same holders.

import (
	"fmt"

	"github.com/bronlabs/bron-crypto/pkg/base/algebra"
	"github.com/bronlabs/bron-crypto/pkg/base/curves"
	"github.com/bronlabs/bron-crypto/pkg/base/prng/csprng"
	"github.com/bronlabs/bron-crypto/pkg/mpc/signatures/ecdsa/cggmp21"
	cgdealer "github.com/bronlabs/bron-crypto/pkg/mpc/signatures/ecdsa/cggmp21/keygen/trusteddealer"
	cgsigning "github.com/bronlabs/bron-crypto/pkg/mpc/signatures/ecdsa/cggmp21/signing"
	"github.com/bronlabs/bron-crypto/pkg/network"
	"github.com/bronlabs/bron-crypto/pkg/signatures/ecdsa"
)

const cggmpKeyLen = 2048

var _ = csprng.ThreadSafePrng{}

// cggmpAux: auxiliary material for holders {1,2,3}, sampled once.
func cggmpAux[P curves.Point[P, B, S], B algebra.PrimeFieldElement[B], S algebra.PrimeFieldElement[S]](d *ecDesc[P, B, S]) (map[ID]*cggmp21.AuxInfo, string) {
	ck := "cggmpaux/" + d.g.name
	type res struct {
		aux map[ID]*cggmp21.AuxInfo
		err string
	}
	if v, ok := keyCache[ck]; ok {
		r := v.(*res)
		return r.aux, r.err
	}
	r := &res{aux: map[ID]*cggmp21.AuxInfo{}}
	keyCache[ck] = r
	as, err := policyByName("th2of3").Pol.Build()
	if err != nil {
		panic(err)
	}
	shards, err := cgdealer.Deal(d.curve, as, cggmpKeyLen, reader())
	if err != nil {
		r.err = errStr(err)
		return nil, r.err
	}
	for id, sh := range shards {
		r.aux[id] = sh.AuxInfo()
	}
	return r.aux, ""
}

func signCGGMP(r int) {
	if !want("sign:cggmp21") || (!thor && len(only) == 0) {
		return // minutes of parameter sampling: thorough tier, or on request (-only sign:cggmp21)
	}
	signCGGMPOn(dK256, r)
	if thor {
		signCGGMPOn(dP256, r)
	}
}

func signCGGMPOn[P curves.Point[P, B, S], B algebra.PrimeFieldElement[B], S algebra.PrimeFieldElement[S]](d *ecDesc[P, B, S], r int) {
	for pi, pn := range []string{"th2of3", "gate3"} {
		np := policyByName(pn)
		for qi, q := range quorumCases(np, lim(1, 3), 1, 99, pi+r+int(seed)) {
			msgClass := msgClasses[(pi+qi+r)%len(msgClasses)]
			name := fmt.Sprintf("sign:cggmp21:%s:%s:%s", d.g.name, np.Name, q.kind)
			if !takeCase(name) {
				continue
			}
			cggmpLine(d, np, keyFor(d.g, np, pi+qi+int(seed)+r), q, msgClass)
		}
	}
}

func cggmpLine[P curves.Point[P, B, S], B algebra.PrimeFieldElement[B], S algebra.PrimeFieldElement[S]](d *ecDesc[P, B, S], np namedPolicy, km *keyMat[P, S], q quorumCase, msgClass string) {
	ev := newSignEv("cggmp21", "ecdsa", d.g.name, np, km.src+"+cggmpdealer-aux", q, "runner", msgClass)
	defer func() { w.Emit(ev) }()
	if km.err != "" {
		ev["keyErr"] = km.err
		return
	}
	aux, aerr := cggmpAux(d)
	if aerr != "" {
		ev["keyErr"] = aerr
		return
	}
	msg := msgOf(msgClass)
	suite := d.suite()
	ctxs := sessionsRunner(q.ids)
	shards := map[ID]*cggmp21.Shard[P, B, S]{}
	for _, id := range q.ids {
		sh, err := cggmp21.NewShard(km.shards[id], aux[id])
		if err != nil {
			ev["keyErr"] = "NewShard: " + errStr(err)
			return
		}
		shards[id] = sh
	}
	runners := map[ID]network.Runner[*cgsigning.SignResult[P, B, S]]{}
	for _, id := range q.ids {
		rn, err := cgsigning.NewRunner(ctxs[id], suite, shards[id], msg, reader())
		ev["ctor"] = append(ev["ctor"].([]any), ctorJ(id, err))
		runners[id] = rn
	}
	if !allCtorOK(ev) {
		return
	}
	out, ok := runNet(ev, q.ids, runners)
	if !ok {
		return
	}
	psigs := map[ID]*cggmp21.PartialSignature[P, B, S]{}
	for _, id := range q.ids {
		psigs[id] = out[id].PartialSignature()
	}
	var first *ecdsa.Signature[S]
	take := func(who string, sig *ecdsa.Signature[S], err error) {
		if err != nil {
			addOut(ev, who, 0, err)
			return
		}
		addOut(ev, who, tok(sig), nil)
		if first == nil {
			first = sig
		}
	}
	for _, id := range q.ids {
		sig, err := out[id].PartialSignatureCosigningAggregator().Aggregate(psigs)
		take(fmt.Sprintf("agg:%d", id), sig, err)
	}
	if plain, err := cgsigning.NewNonCosigningAggregator(d.curve); err == nil {
		sig, err := plain.Aggregate(psigs)
		take("agg:plain", sig, err)
	}
	if first != nil {
		ecdsaRelations(d, km.shards[q.ids[0]].PublicKeyValue(), km.x, first, msg, ev)
	}
}

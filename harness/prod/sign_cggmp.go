package prod

// CGGMP21 threshold ECDSA (4 rounds + red alert; Paillier and ring-Pedersen auxiliary material) through the networked runner API,
// with every cosigning aggregator and the stateless aggregator compared. Quorums of three and more signers are always included:
// the per-party accumulations of rounds 2-4 only show with at least three signers.
//
// The auxiliary material (a 2048-bit Paillier-Blum modulus and ring-Pedersen parameters over a product of two 1024-bit safe primes
// per party; the protocol's range parameters need at least 1792 bits on a 256-bit curve) takes minutes to sample. A pool for the
// holders 1..5 is therefore sampled once with the library's own samplers, kept in the driver's cache directory (-cache) as the
// CBOR encoding of the parties' AuxInfo, and re-attached - restricted to the policy's holders - to base shards that come from
// trusted dealing, Gennaro or Canetti.

import (
	"fmt"
	"io"
	"os"
	"path/filepath"
	"sync"

	"github.com/bronlabs/bron-crypto/pkg/base/algebra"
	"github.com/bronlabs/bron-crypto/pkg/base/curves"
	"github.com/bronlabs/bron-crypto/pkg/base/serde"
	"github.com/bronlabs/bron-crypto/pkg/commitments/intcom"
	"github.com/bronlabs/bron-crypto/pkg/encryption/paillier"
	"github.com/bronlabs/bron-crypto/pkg/mpc/signatures/ecdsa/cggmp21"
	cgsigning "github.com/bronlabs/bron-crypto/pkg/mpc/signatures/ecdsa/cggmp21/signing"
	"github.com/bronlabs/bron-crypto/pkg/network"
	"github.com/bronlabs/bron-crypto/pkg/signatures/ecdsa"
)

const cggmpKeyLen = 2048

var cacheDir string

type cggmpPoolT struct {
	psk     map[ID]*paillier.SecretKey
	tk      map[ID]*intcom.TrapdoorKey
	refresh []byte
	origin  string
	err     string
}

var (
	cggmpPool   *cggmpPoolT
	cggmpPoolID = []ID{1, 2, 3, 4, 5}
)

func (p *cggmpPoolT) aux(hs []ID) (map[ID]*cggmp21.AuxInfo, error) {
	out := map[ID]*cggmp21.AuxInfo{}
	for _, id := range hs {
		ppk := map[ID]*paillier.PublicKey{}
		cpk := map[ID]*intcom.CommitmentKey{}
		for _, o := range hs {
			if o != id {
				ppk[o] = p.psk[o].Public()
				cpk[o] = p.tk[o].Export()
			}
		}
		a, err := cggmp21.NewAuxInfo(p.psk[id], ppk, p.tk[id], cpk, p.refresh)
		if err != nil {
			return nil, err
		}
		out[id] = a
	}
	return out, nil
}

func loadCggmpPool() *cggmpPoolT {
	if cggmpPool != nil {
		return cggmpPool
	}
	p := &cggmpPoolT{psk: map[ID]*paillier.SecretKey{}, tk: map[ID]*intcom.TrapdoorKey{}}
	cggmpPool = p
	file := ""
	if cacheDir != "" {
		file = filepath.Join(cacheDir, fmt.Sprintf("cggmp_pool_%d.cbor", cggmpKeyLen))
		if data, err := os.ReadFile(file); err == nil {
			if m, err := serde.UnmarshalCBOR[map[uint64][]byte](data); err == nil {
				ok := true
				for _, id := range cggmpPoolID {
					a, err := serde.UnmarshalCBOR[*cggmp21.AuxInfo](m[uint64(id)])
					if err != nil || a.PaillierSecretKey() == nil || a.RingPedersenSecretKey() == nil {
						ok = false
						break
					}
					p.psk[id], p.tk[id], p.refresh = a.PaillierSecretKey(), a.RingPedersenSecretKey(), a.RefreshID()
				}
				if ok {
					p.origin = "cache"
					return p
				}
			}
		}
	}
	// sample: 2 x 5 independent samplers in parallel
	var mu sync.Mutex
	var wg sync.WaitGroup
	fail := func(err error) {
		mu.Lock()
		p.err = errChain(err)
		mu.Unlock()
	}
	for _, id := range cggmpPoolID {
		wg.Add(2)
		rd1, rd2 := reader(), reader()
		go func() {
			defer wg.Done()
			sk, err := paillier.SampleBlumSecretKey(cggmpKeyLen, rd1)
			if err != nil {
				fail(err)
				return
			}
			mu.Lock()
			p.psk[id] = sk
			mu.Unlock()
		}()
		go func() {
			defer wg.Done()
			tk, err := intcom.SampleTrapdoorKey(cggmpKeyLen, rd2)
			if err != nil {
				fail(err)
				return
			}
			mu.Lock()
			p.tk[id] = tk
			mu.Unlock()
		}()
	}
	wg.Wait()
	if p.err != "" {
		return p
	}
	p.refresh = make([]byte, 32)
	if _, err := io.ReadFull(reader(), p.refresh); err != nil {
		panic(err)
	}
	p.origin = "sampled"
	if file != "" {
		if all, err := p.aux(cggmpPoolID); err == nil {
			m := map[uint64][]byte{}
			for id, a := range all {
				data, err := serde.MarshalCBOR(a)
				if err != nil {
					return p
				}
				m[uint64(id)] = data
			}
			if data, err := serde.MarshalCBOR(m); err == nil {
				_ = os.MkdirAll(cacheDir, 0o755)
				tmp := fmt.Sprintf("%s.%d", file, os.Getpid())
				if os.WriteFile(tmp, data, 0o600) == nil {
					_ = os.Rename(tmp, file)
				}
			}
		}
	}
	return p
}

type cggmpCase struct {
	pol    string
	quorum []ID
	kind   string
	src    int
}

func signCGGMP(r int) {
	if !want("sign:cggmp21") {
		return
	}
	s := int(seed) + r
	if !thor {
		// two real runs with three signers, one refusal
		second := []cggmpCase{{"th3of5", []ID{1, 3, 5}, "minimal", 0}, {"cnf3", []ID{1, 2, 3}, "nonminimal", 1}, {"gate3", []ID{1, 2, 3}, "nonminimal", 1},
			{"th3of5", []ID{2, 3, 4}, "minimal", 2}}[s%4]
		signCGGMPOn(dK256, []cggmpCase{{"th2of3", []ID{1, 2, 3}, "nonminimal", s % 3}, second, {"th3of5", []ID{2, 5}, "unqualified", 0}})
		return
	}
	all := []cggmpCase{}
	for pi, pn := range []string{"th2of3", "cnf3", "gate3"} {
		for qi, q := range quorumCases(policyByName(pn), -1, 0, 1, s) {
			all = append(all, cggmpCase{pn, q.ids, q.kind, pi + qi + s})
		}
	}
	all = append(all, cggmpCase{"th3of5", []ID{1, 2, 3}, "minimal", s}, cggmpCase{"th3of5", []ID{2, 4, 5}, "minimal", s + 1},
		cggmpCase{"th3of5", []ID{1, 2, 4, 5}, "nonminimal", s + 1}, cggmpCase{"th3of5", []ID{3, 4}, "unqualified", s})
	signCGGMPOn(dK256, all)
	signCGGMPOn(dP256, []cggmpCase{{"th2of3", []ID{1, 2, 3}, "nonminimal", s + 1}, {"cnf3", []ID{1, 3}, "minimal", s}, {"gate3", []ID{2, 3}, "unqualified", s}})
}

func signCGGMPOn[P curves.Point[P, B, S], B algebra.PrimeFieldElement[B], S algebra.PrimeFieldElement[S]](d *ecDesc[P, B, S], cases []cggmpCase) {
	for i, c := range cases {
		np := policyByName(c.pol)
		name := fmt.Sprintf("sign:cggmp21:%s:%s:%s", d.g.name, np.Name, c.kind)
		if !takeCase(name) {
			continue
		}
		cggmpLine(d, np, keyFor(d.g, np, c.src), quorumCase{c.quorum, c.kind}, msgClasses[(i+int(seed))%len(msgClasses)])
	}
}

func cggmpLine[P curves.Point[P, B, S], B algebra.PrimeFieldElement[B], S algebra.PrimeFieldElement[S]](d *ecDesc[P, B, S], np namedPolicy, km *keyMat[P, S], q quorumCase, msgClass string) {
	d = d.withHash("cggmp" + np.Name + idsName(q.ids) + msgClass)
	ev := newSignEv("cggmp21", "ecdsa", d.g.name, np, km.src+"+aux-pool", q, "runner", msgClass)
	ev["hash"] = d.hashName()
	defer func() { w.Emit(ev) }()
	if km.err != "" {
		ev["keyErr"] = km.err
		return
	}
	pool := loadCggmpPool()
	if pool.err != "" {
		ev["keyErr"] = "aux pool: " + pool.err
		return
	}
	ev["auxOrigin"] = pool.origin
	aux, err := pool.aux(holders(np.Pol))
	if err != nil {
		ev["keyErr"] = "aux: " + errStr(err)
		return
	}
	msg := msgOf(msgClass)
	suite := d.suite()
	ctxs := sessionsRunner(q.ids)
	shards := map[ID]*cggmp21.Shard[P, B, S]{}
	for _, id := range q.ids {
		sh, err := cggmp21.NewShard(km.shards[id], aux[id])
		if err != nil {
			ev["keyErr"] = "NewShard: " + errStr(err)
			return
		}
		// a shard is stored and loaded between key generation and signing
		data, err := serde.MarshalCBOR(sh)
		if err != nil {
			ev["keyErr"] = "shard marshal: " + errStr(err)
			return
		}
		back, err := serde.UnmarshalCBOR[*cggmp21.Shard[P, B, S]](data)
		if err != nil {
			ev["keyErr"] = "shard unmarshal: " + errStr(err)
			return
		}
		shards[id] = back
	}
	runners := map[ID]network.Runner[*cgsigning.SignResult[P, B, S]]{}
	for _, id := range q.ids {
		rn, err := cgsigning.NewRunner(ctxs[id], suite, shards[id], msg, reader())
		ev["ctor"] = append(ev["ctor"].([]any), ctorJ(id, err))
		runners[id] = rn
	}
	if !allCtorOK(ev) {
		return
	}
	out, ok := runNet(ev, q.ids, runners)
	if !ok {
		return
	}
	psigs := map[ID]*cggmp21.PartialSignature[P, B, S]{}
	for _, id := range q.ids {
		psigs[id] = out[id].PartialSignature()
	}
	var first *ecdsa.Signature[S]
	take := func(who string, sig *ecdsa.Signature[S], err error) {
		if err != nil {
			addOut(ev, who, 0, err)
			return
		}
		addOut(ev, who, tok(sig), nil)
		if first == nil {
			first = sig
		}
	}
	for _, id := range q.ids {
		sig, err := out[id].PartialSignatureCosigningAggregator().Aggregate(psigs)
		take(fmt.Sprintf("agg:%d", id), sig, err)
	}
	plain, err := cgsigning.NewNonCosigningAggregator(d.curve)
	if err != nil {
		take("agg:plain", nil, err)
	} else {
		sig, err := plain.Aggregate(psigs)
		take("agg:plain", sig, err)
	}
	if first != nil {
		ecdsaRelations(d, km.shards[q.ids[0]].PublicKeyValue(), km.x, first, msg, ev)
	}
}

package prod

import (
	"fmt"
	"io"
	"math/big"
	"sort"

	"github.com/bronlabs/bron-crypto/pkg/base/algebra"
	"github.com/bronlabs/bron-crypto/pkg/base/curves"
	"github.com/bronlabs/bron-crypto/pkg/base/curves/edwards25519"
	"github.com/bronlabs/bron-crypto/pkg/base/curves/k256"
	"github.com/bronlabs/bron-crypto/pkg/base/curves/p256"
	"github.com/bronlabs/bron-crypto/pkg/base/curves/pairable/bls12381"
	"github.com/bronlabs/bron-crypto/pkg/base/curves/pasta"
	"github.com/bronlabs/bron-crypto/pkg/base/serde"
	"github.com/bronlabs/bron-crypto/pkg/mpc"
	"github.com/bronlabs/bron-crypto/pkg/mpc/dkg/canetti"
	"github.com/bronlabs/bron-crypto/pkg/mpc/dkg/gennaro"
	"github.com/bronlabs/bron-crypto/pkg/mpc/dkg/trusteddealer"
	"github.com/bronlabs/bron-crypto/pkg/mpc/session"
	"github.com/bronlabs/bron-crypto/pkg/mpc/sharing/accessstructures"
	"github.com/bronlabs/bron-crypto/pkg/mpc/sharing/scheme/kw"
	"github.com/bronlabs/bron-crypto/pkg/mpc/sharing/vss/feldman"
	"github.com/bronlabs/bron-crypto/pkg/network"
	"github.com/bronlabs/bron-crypto/pkg/proofs/sigma/compiler"

	ad "verif/harness/adapters"
	"verif/harness/proto"
)

// ---- generic DKG participants as machines over bytes (generalised copies of adapters.GennaroParty / CanettiParty) ----------

type gennaroParty[G algebra.PrimeGroupElement[G, S], S algebra.PrimeFieldElement[S]] struct {
	id  ID
	p   *gennaro.Participant[G, S]
	out *mpc.BaseShard[G, S]
}

func newGennaroParty[G algebra.PrimeGroupElement[G, S], S algebra.PrimeFieldElement[S]](ctx *session.Context, group algebra.PrimeGroup[G, S], as accessstructures.Monotone, comp compiler.Name, prng io.Reader) (*gennaroParty[G, S], error) {
	p, err := gennaro.NewParticipant(ctx, group, as, comp, prng)
	if err != nil {
		return nil, err
	}
	return &gennaroParty[G, S]{id: ctx.HolderID(), p: p}, nil
}

func (g *gennaroParty[G, S]) ID() ID      { return g.id }
func (g *gennaroParty[G, S]) Rounds() int { return 3 }
func (g *gennaroParty[G, S]) Round(k int, inB, inU map[ID][]byte) ([]byte, map[ID][]byte, error) {
	switch k {
	case 1:
		b, u, err := g.p.Round1()
		if err != nil {
			return nil, nil, err
		}
		return proto.Enc(b), proto.EncMap(u), nil
	case 2:
		b1, err := proto.DecMap[*gennaro.Round1Broadcast[G, S]](inB)
		if err != nil {
			return nil, nil, err
		}
		u1, err := proto.DecMap[*gennaro.Round1Unicast[G, S]](inU)
		if err != nil {
			return nil, nil, err
		}
		b, err := g.p.Round2(b1, u1)
		if err != nil {
			return nil, nil, err
		}
		return proto.Enc(b), nil, nil
	case 3:
		b2, err := proto.DecMap[*gennaro.Round2Broadcast[G, S]](inB)
		if err != nil {
			return nil, nil, err
		}
		out, err := g.p.Round3(b2)
		if err != nil {
			return nil, nil, err
		}
		g.out = out
		return nil, nil, nil
	}
	panic("gennaro: bad round")
}

type canettiParty[G algebra.PrimeGroupElement[G, S], S algebra.PrimeFieldElement[S]] struct {
	id  ID
	p   *canetti.Participant[G, S]
	out *mpc.BaseShard[G, S]
}

func newCanettiParty[G algebra.PrimeGroupElement[G, S], S algebra.PrimeFieldElement[S]](ctx *session.Context, group algebra.PrimeGroup[G, S], as accessstructures.Monotone, prng io.Reader) (*canettiParty[G, S], error) {
	p, err := canetti.NewParticipant(ctx, as, group, prng)
	if err != nil {
		return nil, err
	}
	return &canettiParty[G, S]{id: ctx.HolderID(), p: p}, nil
}

func (c *canettiParty[G, S]) ID() ID      { return c.id }
func (c *canettiParty[G, S]) Rounds() int { return 4 }
func (c *canettiParty[G, S]) Round(k int, inB, inU map[ID][]byte) ([]byte, map[ID][]byte, error) {
	switch k {
	case 1:
		b, err := c.p.Round1()
		if err != nil {
			return nil, nil, err
		}
		return proto.Enc(b), nil, nil
	case 2:
		b1, err := proto.DecMap[*canetti.Round1Broadcast[G, S]](inB)
		if err != nil {
			return nil, nil, err
		}
		b, u, err := c.p.Round2(b1)
		if err != nil {
			return nil, nil, err
		}
		return proto.Enc(b), proto.EncMap(u), nil
	case 3:
		b2, err := proto.DecMap[*canetti.Round2Broadcast[G, S]](inB)
		if err != nil {
			return nil, nil, err
		}
		u2, err := proto.DecMap[*canetti.Round2P2P[G, S]](inU)
		if err != nil {
			return nil, nil, err
		}
		b, err := c.p.Round3(b2, u2)
		if err != nil {
			return nil, nil, err
		}
		return proto.Enc(b), nil, nil
	case 4:
		b3, err := proto.DecMap[*canetti.Round3Broadcast[G, S]](inB)
		if err != nil {
			return nil, nil, err
		}
		out, err := c.p.Round4(b3)
		if err != nil {
			return nil, nil, err
		}
		c.out = out
		return nil, nil, nil
	}
	panic("canetti: bad round")
}

// ---- key generation: one line per run ---------------------------------------------------------------------------------------

// generate produces the shards of one key: protoName in {dealer, gennaro, canetti}, api in {rounds, runner}.
func generate[G algebra.PrimeGroupElement[G, S], S algebra.PrimeFieldElement[S]](g *groupDesc[G, S], pol *ad.Policy, protoName, api string, comp compiler.Name) (map[ID]*mpc.BaseShard[G, S], []proto.Reject, string) {
	as, err := pol.Build()
	if err != nil {
		return nil, nil, "policy: " + errStr(err)
	}
	hs := holders(pol)
	shards := map[ID]*mpc.BaseShard[G, S]{}
	switch {
	case protoName == "dealer":
		out, err := trusteddealer.Deal(g.group, as, reader())
		if err != nil {
			return nil, nil, "deal: " + errStr(err)
		}
		for id, sh := range out.Iter() {
			shards[id] = sh
		}
		return shards, nil, ""
	case api == "rounds":
		ctxs := sessions(hs)
		ps := []proto.Party{}
		get := map[ID]func() *mpc.BaseShard[G, S]{}
		for _, id := range hs {
			if protoName == "gennaro" {
				p, err := newGennaroParty(ctxs[id], g.group, as, comp, reader())
				if err != nil {
					return nil, nil, "ctor: " + errStr(err)
				}
				ps = append(ps, p)
				get[id] = func() *mpc.BaseShard[G, S] { return p.out }
			} else {
				p, err := newCanettiParty(ctxs[id], g.group, as, reader())
				if err != nil {
					return nil, nil, "ctor: " + errStr(err)
				}
				ps = append(ps, p)
				get[id] = func() *mpc.BaseShard[G, S] { return p.out }
			}
		}
		res := proto.Run(ps, nil, nil)
		if len(res.Rejects) > 0 {
			return nil, res.Rejects, ""
		}
		for _, id := range hs {
			shards[id] = get[id]()
		}
		return shards, nil, ""
	default: // runner API over real routers, session setup included
		ctxs := sessionsRunner(hs)
		out, errsBy, err := runRunners(hs, func(id ID) (network.Runner[*mpc.BaseShard[G, S]], error) {
			if protoName == "gennaro" {
				return gennaro.NewRunner(ctxs[id], g.group, as, comp, reader())
			}
			return canetti.NewRunner(ctxs[id], as, g.group, reader())
		})
		if err != nil {
			return nil, nil, "ctor: " + errStr(err)
		}
		if len(errsBy) > 0 {
			rej := []proto.Reject{}
			for id, e := range errsBy {
				rej = append(rej, proto.Reject{Party: id, Err: errStr(e), Blamed: []ID{}})
			}
			return nil, rej, ""
		}
		return out, nil, ""
	}
}

// keygenLine projects the result of one key generation: tokens of what every party reports, the relation booleans, the subset table.
func keygenLine[G algebra.PrimeGroupElement[G, S], S algebra.PrimeFieldElement[S]](g *groupDesc[G, S], np namedPolicy, protoName, api string, comp compiler.Name) {
	shards, rejects, ctorErr := generate(g, np.Pol, protoName, api, comp)
	ev := map[string]any{"a": "keygen", "k": fmt.Sprintf("keygen:%s:%s:%s:%s:%s", protoName, api, g.name, comp, np.Name), "proto": protoName, "api": api, "group": g.name, "gbits": groupBits(g.name),
		"comp": string(comp), "pol": np.Pol, "polName": np.Name, "holders": ad.IDsU(holders(np.Pol)), "ctorErr": ctorErr, "rejects": rejectsJ(rejects),
		"ok": ctorErr == "" && len(rejects) == 0, "class": ""}
	if ctorErr != "" || len(rejects) > 0 {
		// the class of a failure ("degenerate" = a value that happens to be the identity was refused, probability 1/q); the
		// specification names the guard
		cls := refusalClass(ctorErr)
		if ctorErr == "" {
			cls = classOf(rejects)
		}
		if cls == "" {
			cls = "other"
		}
		ev["class"] = cls
		w.Emit(ev)
		return
	}
	keygenProject(g, np.Pol, shards, ev)
	w.Emit(ev)
}

// keygenProject fills ev with the projection of a complete set of shards.
func keygenProject[G algebra.PrimeGroupElement[G, S], S algebra.PrimeFieldElement[S]](g *groupDesc[G, S], pol *ad.Policy, shards map[ID]*mpc.BaseShard[G, S], ev map[string]any) (x *big.Int) {
	as, _ := pol.Build()
	hs := holders(pol)
	first := shards[hs[0]]
	bm := mspBig(first.MSP())
	n := bm.n
	pkTok, vvTok, mspTok, pksTok := map[string]int{}, map[string]int{}, map[string]int{}, map[string]int{}
	shareBig := map[ID][]*big.Int{}
	for _, id := range hs {
		sh := shards[id]
		pkTok[key(id)] = tok(sh.PublicKeyValue())
		vvTok[key(id)] = tok(sh.VerificationVector())
		mspTok[key(id)] = tok(sh.MSP())
		// the public shares this party reports for every holder, in holder order
		all := []any{}
		for _, h := range hs {
			ls, ok := sh.PublicKeyShares().Get(h)
			if !ok {
				all = append(all, nil)
				continue
			}
			all = append(all, ls)
		}
		pksTok[key(id)] = tok(all)
		vals := sh.Share().Value()
		shareBig[id] = make([]*big.Int, len(vals))
		for a, v := range vals {
			shareBig[id][a] = big2(v)
		}
	}
	ev["pkTok"], ev["vvTok"], ev["mspTok"], ev["pkSharesTok"] = pkTok, vvTok, mspTok, pksTok
	ev["rows"], ev["cols"], ev["maxRows"] = len(bm.rows), len(bm.rows[0]), bm.maxRowsPerHolder()
	// rel.shareMatchesPublicShare: [share_i[a]] G equals the a-th public share of i as reported by ANOTHER party
	match := map[string]bool{}
	indep := true
	for i, id := range hs {
		other := shards[hs[(i+1)%len(hs)]]
		ls, ok := other.PublicKeyShares().Get(id)
		good := ok && len(ls.Value()) == len(shareBig[id])
		if good {
			for a, pv := range ls.Value() {
				eq, ind := g.mulGenEq(shareBig[id][a], pv)
				indep = indep && ind
				good = good && eq
			}
		}
		match[key(id)] = good
	}
	ev["shareMatches"], ev["indepArith"] = match, indep
	// the secret, reconstructed independently from all shares; [x]G must be the reported public key
	x, okAll := bm.reconstruct(hs, shareBig)
	ev["allSpan"] = okAll
	if okAll {
		eq, _ := g.mulGenEq(x, first.PublicKeyValue())
		ev["pkIsXG"] = eq
		ev["xZero"] = x.Sign() == 0
	}
	// every non-empty subset of holders
	kws, err := kw.NewInducedScheme(first.MSP())
	if err != nil {
		panic(err)
	}
	fs, err := feldman.NewSchemeFromKW(g.group, kws)
	if err != nil {
		panic(err)
	}
	subs := []any{}
	for _, s := range subsetsOf(hs) {
		row := map[string]any{"set": ad.IDsU(s), "accepts": first.MSP().Accepts(s...), "isQualified": as.IsQualified(s...)}
		xs, span := bm.reconstruct(s, shareBig)
		row["spanIndep"] = span
		row["reconIndepEq"] = span && okAll && xs.Cmp(x) == 0
		// the library: reconstruction in the exponent from the public shares, and of the scalar from the private shares
		lifted := []*feldman.LiftedShare[G, S]{}
		priv := []*kw.Share[S]{}
		for _, id := range s {
			ls, _ := first.PublicKeyShares().Get(id)
			lifted = append(lifted, ls)
			priv = append(priv, shards[id].Share())
		}
		sec, err := fs.ReconstructInTheExponent(lifted...)
		row["reconExpOK"] = err == nil
		row["reconExpEqPk"] = err == nil && sec.Value().Equal(first.PublicKeyValue())
		sc, err := fs.Reconstruct(priv...)
		row["reconOK"] = err == nil
		row["reconEqX"] = err == nil && okAll && big2(sc.Value()).Cmp(new(big.Int).Mod(x, n)) == 0
		subs = append(subs, row)
	}
	ev["subsets"] = subs
	// store and reload
	same := true
	for _, id := range hs {
		data, err := serde.MarshalCBOR(shards[id])
		if err != nil {
			same = false
			continue
		}
		data2, _ := serde.MarshalCBOR(shards[id])
		back, err := serde.UnmarshalCBOR[*mpc.BaseShard[G, S]](data)
		if err != nil {
			same = false
			continue
		}
		re, _ := serde.MarshalCBOR(back)
		same = same && string(data) == string(data2) && string(re) == string(data) && back.Equal(shards[id]) &&
			tok(back.PublicKeyValue()) == pkTok[key(id)] && tok(back.VerificationVector()) == vvTok[key(id)]
	}
	ev["reloadSame"] = same
	return x
}

// ---- the seven groups ------------------------------------------------------------------------------------------------------

func affOf[P curves.Point[P, B, S], B algebra.PrimeFieldElement[B], S algebra.PrimeFieldElement[S]](p P) apt {
	if p.IsOpIdentity() {
		return apt{inf: true}
	}
	x, err := p.AffineX()
	if err != nil {
		panic(err)
	}
	y, err := p.AffineY()
	if err != nil {
		panic(err)
	}
	return apt{x: big2(x), y: big2(y)}
}

var (
	gK256   = &groupDesc[*k256.Point, *k256.Scalar]{name: "k256", group: k256.NewCurve(), model: secp, aff: affOf[*k256.Point, *k256.BaseFieldElement, *k256.Scalar]}
	gP256   = &groupDesc[*p256.Point, *p256.Scalar]{name: "p256", group: p256.NewCurve(), model: nistp256, aff: affOf[*p256.Point, *p256.BaseFieldElement, *p256.Scalar]}
	gEd     = &groupDesc[*edwards25519.PrimeSubGroupPoint, *edwards25519.Scalar]{name: "ed25519", group: edwards25519.NewPrimeSubGroup()}
	gPallas = &groupDesc[*pasta.PallasPoint, *pasta.PallasScalar]{name: "pallas", group: pasta.NewPallasCurve(), model: pallasC, aff: affOf[*pasta.PallasPoint, *pasta.PallasBaseFieldElement, *pasta.PallasScalar]}
	gVesta  = &groupDesc[*pasta.VestaPoint, *pasta.VestaScalar]{name: "vesta", group: pasta.NewVestaCurve(), model: vestaC, aff: affOf[*pasta.VestaPoint, *pasta.VestaBaseFieldElement, *pasta.VestaScalar]}
	gG1     = &groupDesc[*bls12381.PointG1, *bls12381.Scalar]{name: "blsG1", group: bls12381.NewG1(), model: blsG1C, aff: affOf[*bls12381.PointG1, *bls12381.BaseFieldElementG1, *bls12381.Scalar]}
	gG2     = &groupDesc[*bls12381.PointG2, *bls12381.Scalar]{name: "blsG2", group: bls12381.NewG2(),
		genEq: func(k *big.Int, e *bls12381.PointG2) bool { return g2MulEq(k, bls12381.NewG2().Generator(), e) }}
)

// checkModels makes sure each math/big model describes the library's group: same order, and the library's generator is the model's.
func checkModels() {
	// bls12381.(*G1).Order() and PointG1.IsTorsionFree() dereference the package variable scalarFieldOrder, which only
	// bls12381.NewScalarField() initialises: in a fresh process NewG1().Order() panics (nil pointer). Reported; worked around here.
	_ = bls12381.NewScalarField()
	chk := func(name string, m *wcurve, order *big.Int, gen apt) {
		if m.N.Cmp(order) != 0 {
			panic("model order mismatch: " + name)
		}
		if !m.onCurve(gen) {
			panic("library generator is not on the model curve: " + name)
		}
		if m.Gx.Cmp(gen.x) != 0 || m.Gy.Cmp(gen.y) != 0 {
			// pallas / vesta: more than one generator convention exists; the model adopts the library's choice (a parameter, not arithmetic)
			if name == "pallas" || name == "vesta" {
				m.Gx, m.Gy = gen.x, gen.y
				return
			}
			panic("model generator mismatch: " + name)
		}
		if !m.mul(m.N, m.gen()).inf {
			panic("model generator does not have the model order: " + name)
		}
	}
	chk("k256", secp, gK256.group.Order().Big(), gK256.aff(gK256.group.Generator()))
	chk("p256", nistp256, gP256.group.Order().Big(), gP256.aff(gP256.group.Generator()))
	chk("pallas", pallasC, gPallas.group.Order().Big(), gPallas.aff(gPallas.group.Generator()))
	chk("vesta", vestaC, gVesta.group.Order().Big(), gVesta.aff(gVesta.group.Generator()))
	chk("blsG1", blsG1C, gG1.group.Order().Big(), gG1.aff(gG1.group.Generator()))
	for _, m := range []*wcurve{secp, nistp256, pallasC, vestaC, blsG1C} {
		// [N-1]G = -G  <=>  [N]G = O  (mul reduces its scalar mod N, so [N]G itself would be vacuous)
		g := m.gen()
		nm1 := m.mul(new(big.Int).Sub(m.N, big.NewInt(1)), g)
		if nm1.inf || nm1.x.Cmp(g.x) != 0 || new(big.Int).Add(nm1.y, g.y).Cmp(m.P) != 0 {
			panic("model generator order")
		}
	}
	checkG2Model()
}

func sortedKeys[V any](m map[ID]V) []ID {
	out := []ID{}
	for k := range m {
		out = append(out, k)
	}
	sort.Slice(out, func(i, j int) bool { return out[i] < out[j] })
	return out
}

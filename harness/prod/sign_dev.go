package prod

// Deviation mode for the production-curve signing protocols driven round by round (C04): DKLs23 with both multipliers on secp256k1 /
// P-256 and Lindell22 (BIP-340, Mina) - one party's message of one round is altered on the wire (proto.Tamper), the rest of the run is
// honest. The matrix (round, sender, recipient, broadcast / unicast, CBOR leaf class, first / last position, operator) is read from
// a recording run of the same case. ProdTrace.SignDevOK decides each line: nothing panics, whoever is blamed is the deviator, and
// whatever comes out of an aggregator is a valid signature; which alterations were rejected is counted per leaf class.

import (
	"bytes"
	"fmt"
	"sort"

	"testing"

	"github.com/bronlabs/bron-crypto/pkg/proofs/sigma/compiler/fiatshamir"
	"github.com/bronlabs/bron-crypto/pkg/proofs/sigma/compiler/fischlin"

	"verif/harness/proto"
)

type msgKey struct {
	round    int
	from, to ID
	kind     string
}

var (
	signTamper    *proto.Tamper
	signObs       proto.Observer
	signRecording bool
	signPlan      map[string]any
)

// emitSign writes the line of a signing run; a recording run writes nothing, a deviating run becomes a "signdev" line.
func emitSign(ev map[string]any) {
	if signRecording {
		return
	}
	if signPlan != nil {
		for k, v := range signPlan {
			ev[k] = v
		}
		ev["base"] = ev["k"]
		ev["k"] = fmt.Sprintf("signdev:%v:r%v:%v>%v:%v:%v:%v:%v", ev["k"], signPlan["dRound"], signPlan["dev"], signPlan["dTo"], signPlan["dKind"], signPlan["leaf"], signPlan["pos"], signPlan["op"])
		ev["a"] = "signdev"
	}
	w.Emit(ev)
}

func alterLeaf(data []byte, class, op string, pos int) (out []byte, path string, changed bool) {
	t, err := proto.Parse(data)
	if err != nil {
		return data, "", false
	}
	cands := []*proto.Leaf{}
	for _, l := range t.Leaves() {
		if l.Class == class && ((op == "flip" && l.Kind == "bytes" && len(l.Bytes) > 0) || (op == "swap" && l.Kind == "array" && l.Len >= 2)) {
			cands = append(cands, l)
		}
	}
	if len(cands) == 0 {
		return data, "", false
	}
	l := cands[0]
	if pos < 0 {
		l = cands[len(cands)-1]
	}
	switch op {
	case "flip":
		b := append([]byte(nil), l.Bytes...)
		b[len(b)-1] ^= 1
		l.SetBytes(b)
	case "swap":
		l.SwapKids(0, l.Len-1)
	}
	out = t.Encode()
	return out, l.Path, !bytes.Equal(out, data)
}

// signDevMatrix: one recording run of `run`, then `take` deviating runs chosen by the seed among all plans.
func signDevMatrix(run func(), take int) {
	type leafKey struct {
		m     msgKey
		class string
		op    string
	}
	seen := map[leafKey]bool{}
	order := []leafKey{}
	signRecording = true
	signObs = func(round int, from, to ID, kind string, data []byte) {
		t, err := proto.Parse(data)
		if err != nil {
			return
		}
		// a broadcast is observed once per recipient: key it with to = 0
		mk := msgKey{round, from, to, kind}
		if kind == "b" {
			mk.to = 0
		}
		for _, l := range t.Leaves() {
			op := ""
			switch {
			case l.Kind == "bytes" && len(l.Bytes) > 0:
				op = "flip"
			case l.Kind == "array" && l.Len >= 2:
				op = "swap"
			default:
				continue
			}
			k := leafKey{mk, l.Class, op}
			if !seen[k] {
				seen[k] = true
				order = append(order, k)
			}
		}
	}
	run()
	signRecording, signObs = false, nil
	sort.SliceStable(order, func(i, j int) bool {
		a, b := order[i], order[j]
		if a.m.round != b.m.round {
			return a.m.round < b.m.round
		}
		if a.m.from != b.m.from {
			return a.m.from < b.m.from
		}
		if a.m.to != b.m.to {
			return a.m.to < b.m.to
		}
		if a.class != b.class {
			return a.class < b.class
		}
		return a.op < b.op
	})
	if len(order) == 0 {
		return
	}
	step := 1
	if take > 0 && len(order) > take {
		step = len(order) / take
	}
	for i := int(seed) % step; i < len(order); i += step {
		k := order[i]
		pos := []int{0, -1}[(i+int(seed))%2]
		plan := map[string]any{"dev": uint64(k.m.from), "dRound": k.m.round, "dTo": uint64(k.m.to), "dKind": k.m.kind, "leaf": k.class, "op": k.op, "pos": pos,
			"applied": false, "changed": false, "path": "", "plans": len(order)}
		signPlan = plan
		signTamper = &proto.Tamper{Round: k.m.round, From: k.m.from, To: k.m.to, Kind: k.m.kind,
			F: func(data []byte) ([]byte, bool) {
				out, path, changed := alterLeaf(data, k.class, k.op, pos)
				plan["applied"], plan["path"] = true, path
				if changed {
					plan["changed"] = true
				}
				return out, false
			}}
		run()
		signTamper, signPlan = nil, nil
	}
}

func runSignDev(take int) {
	if take <= 1 {
		take = 6
	}
	if thor {
		take *= 4
	}
	np := policyByName("th2of3")
	cnf := policyByName("cnf3")
	pick := func(p namedPolicy, n int) quorumCase {
		qs := quorumCases(p, 1, 1, 0, int(seed))
		for _, q := range qs {
			if len(q.ids) == n {
				return q
			}
		}
		return qs[0]
	}
	if want("signdev:dkls23-bbot") {
		signDevMatrix(func() { dklsLine(dK256, "bbot", np, keyFor(gK256, np, 0), pick(np, 2), "rounds", "short") }, take)
	}
	if want("signdev:dkls23-softspoken") {
		signDevMatrix(func() { dklsLine(dP256, "softspoken", cnf, keyFor(gP256, cnf, 1), pick(cnf, 2), "rounds", "short") }, take)
	}
	if want("signdev:dkls23-three") {
		signDevMatrix(func() { dklsLine(dK256, "softspoken", np, keyFor(gK256, np, 1), pick(np, 3), "rounds", "kib") }, take)
	}
	if want("signdev:lindell22-bip340") {
		d := bip340Desc()
		signDevMatrix(func() { l22Line(d, cnf, keyFor(d.g, cnf, 0), pick(cnf, 2), "rounds", "short", fiatshamir.Name) }, take)
	}
	// Lindell17 needs the test-mode binary (1024-bit Paillier keys, as in the repository's own tests)
	if want("signdev:lindell17") && testing.Testing() {
		key := l17KeyFor(dK256, np, 0, false)
		signDevMatrix(func() { l17Line(dK256, np, key, pick(np, 2), "rounds", "short", fischlin.Name, int(seed)%2 == 0) }, take)
	}
	if want("signdev:lindell22-mina") {
		d := minaDesc()
		signDevMatrix(func() { l22Line(d, np, keyFor(d.g, np, 1), pick(np, 3), "rounds", "short", fiatshamir.Name) }, take)
	}
}

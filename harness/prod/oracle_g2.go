package prod

// Independent math/big model of BLS12-381 G2: E'(Fp2): y^2 = x^3 + 4(1+i), Fp2 = Fp[i]/(i^2+1). Affine textbook formulas; none of
// this calls into /repo except to read the coordinates of a library point.

import (
	"math/big"
	"slices"

	"github.com/bronlabs/bron-crypto/pkg/base/curves/pairable/bls12381"
)

type fp2 struct{ a, b *big.Int } // a + b i

var blsP = blsG1C.P

func f2(a, b *big.Int) fp2 {
	return fp2{new(big.Int).Mod(a, blsP), new(big.Int).Mod(b, blsP)}
}
func (x fp2) add(y fp2) fp2 { return f2(new(big.Int).Add(x.a, y.a), new(big.Int).Add(x.b, y.b)) }
func (x fp2) sub(y fp2) fp2 { return f2(new(big.Int).Sub(x.a, y.a), new(big.Int).Sub(x.b, y.b)) }
func (x fp2) mul(y fp2) fp2 {
	ac := new(big.Int).Mul(x.a, y.a)
	bd := new(big.Int).Mul(x.b, y.b)
	ad := new(big.Int).Mul(x.a, y.b)
	bc := new(big.Int).Mul(x.b, y.a)
	return f2(ac.Sub(ac, bd), ad.Add(ad, bc))
}
func (x fp2) isZero() bool  { return x.a.Sign() == 0 && x.b.Sign() == 0 }
func (x fp2) eq(y fp2) bool { return x.a.Cmp(y.a) == 0 && x.b.Cmp(y.b) == 0 }
func (x fp2) inv() fp2 { // 1/(a+bi) = (a-bi)/(a^2+b^2)
	n := new(big.Int).Mul(x.a, x.a)
	n.Add(n, new(big.Int).Mul(x.b, x.b))
	n.Mod(n, blsP)
	ni := new(big.Int).ModInverse(n, blsP)
	return f2(new(big.Int).Mul(x.a, ni), new(big.Int).Mul(new(big.Int).Neg(x.b), ni))
}

type apt2 struct {
	x, y fp2
	inf  bool
}

var g2B = f2(big.NewInt(4), big.NewInt(4))

func g2OnCurve(p apt2) bool {
	if p.inf {
		return true
	}
	return p.y.mul(p.y).eq(p.x.mul(p.x).mul(p.x).add(g2B))
}

func g2Add(p, q apt2) apt2 {
	if p.inf {
		return q
	}
	if q.inf {
		return p
	}
	var lam fp2
	if p.x.eq(q.x) {
		if p.y.add(q.y).isZero() {
			return apt2{inf: true}
		}
		three := f2(big.NewInt(3), big.NewInt(0))
		two := f2(big.NewInt(2), big.NewInt(0))
		lam = three.mul(p.x).mul(p.x).mul(two.mul(p.y).inv())
	} else {
		lam = q.y.sub(p.y).mul(q.x.sub(p.x).inv())
	}
	x := lam.mul(lam).sub(p.x).sub(q.x)
	y := lam.mul(p.x.sub(x)).sub(p.y)
	return apt2{x: x, y: y}
}

func g2Mul(k *big.Int, p apt2) apt2 {
	k = new(big.Int).Mod(k, blsG1C.N)
	r := apt2{inf: true}
	for i := k.BitLen() - 1; i >= 0; i-- {
		r = g2Add(r, r)
		if k.Bit(i) == 1 {
			r = g2Add(r, p)
		}
	}
	return r
}

func leInt(b []byte) *big.Int {
	c := slices.Clone(b)
	slices.Reverse(c)
	return new(big.Int).SetBytes(c)
}

// g2Aff reads the affine coordinates of a library point (the low-level field elements serialise little-endian).
func g2Aff(p *bls12381.PointG2) apt2 {
	if p.IsOpIdentity() {
		return apt2{inf: true}
	}
	x, err := p.AffineX()
	if err != nil {
		panic(err)
	}
	y, err := p.AffineY()
	if err != nil {
		panic(err)
	}
	return apt2{x: f2(leInt(x.V.U0.Bytes()), leInt(x.V.U1.Bytes())), y: f2(leInt(y.V.U0.Bytes()), leInt(y.V.U1.Bytes()))}
}

func g2Eq(a, b apt2) bool {
	if a.inf || b.inf {
		return a.inf == b.inf
	}
	return a.x.eq(b.x) && a.y.eq(b.y)
}

// g2MulEq decides [k] h == e on the model.
func g2MulEq(k *big.Int, h, e *bls12381.PointG2) bool {
	got := g2Aff(e)
	return g2OnCurve(got) && g2Eq(g2Mul(k, g2Aff(h)), got)
}

// the generator of G2 from the BLS12-381 specification
var g2Gen = apt2{
	x: f2(hexInt("024aa2b2f08f0a91260805272dc51051c6e47ad4fa403b02b4510b647ae3d1770bac0326a805bbefd48056c8c121bdb8"),
		hexInt("13e02b6052719f607dacd3a088274f65596bd0d09920b61ab5da61bbdc7f5049334cf11213945d57e5ac7d055d042b7e")),
	y: f2(hexInt("0ce5d527727d6e118cc9cdc6da2e351aadfd9baa8cbdd3a76d429a695160d12c923ac9cc3baca289e193548608b82801"),
		hexInt("0606c4a02ea734cc32acd2b02bc28b99cb3e287e85a763af267492ab572e99ab3f370d275cec1da1aaa9075ff05f79be")),
}

func checkG2Model() {
	if !g2OnCurve(g2Gen) {
		panic("G2 model: the specification's generator is not on the model curve")
	}
	nm1 := g2Mul(new(big.Int).Sub(blsG1C.N, big.NewInt(1)), g2Gen) // [N-1]G = -G  <=>  [N]G = O
	if nm1.inf || !nm1.x.eq(g2Gen.x) || !nm1.y.add(g2Gen.y).isZero() {
		panic("G2 model: generator order")
	}
	if !g2Eq(g2Aff(bls12381.NewG2().Generator()), g2Gen) {
		panic("G2 model: the library's generator is not the specification's (or the coordinate projection is wrong)")
	}
}

package prod

// Mode "sign" (C01): honest threshold-signing runs of every production-curve protocol, one trace line per run.
//
// One line = one (protocol, variant, group, key source, policy, quorum, API, message class). The driver logs what happened
// (constructor acceptance per party, rejects per round, who completed, the token of the signature every party / aggregator
// ends up with) and booleans evaluated by independent oracles; specs/ProdProto/ProdTrace.tla decides from the logged policy
// whether the quorum is qualified and what must follow.

import (
	"crypto/elliptic"
	"crypto/sha256"
	"crypto/sha3"
	"crypto/sha512"
	"fmt"
	"hash"
	"math/big"
	"sort"
	"strings"

	stdecdsa "crypto/ecdsa"

	"github.com/bronlabs/bron-crypto/pkg/base/algebra"
	"github.com/bronlabs/bron-crypto/pkg/base/curves"
	"github.com/bronlabs/bron-crypto/pkg/mpc"
	"github.com/bronlabs/bron-crypto/pkg/network"
	"github.com/bronlabs/bron-crypto/pkg/proofs/sigma/compiler/fiatshamir"
	"github.com/bronlabs/bron-crypto/pkg/signatures/ecdsa"

	ad "verif/harness/adapters"
	"verif/harness/proto"
)

var (
	part, parts int // -part i -parts n: this process takes the cases with index % n == i
	caseNo      int
)

// takeCase implements the name filter and the sharding of the case list over parallel driver processes.
func takeCase(name string) bool {
	if !want(name) {
		return false
	}
	caseNo++
	return parts <= 1 || (caseNo-1)%parts == part
}

// ---- keys --------------------------------------------------------------------------------------------------------------------

// keyMat is one generated key: the base shards of every holder and the secret reconstructed independently (math/big) from all
// shares, used only by the known-secret oracles.
type keyMat[G algebra.PrimeGroupElement[G, S], S algebra.PrimeFieldElement[S]] struct {
	shards map[ID]*mpc.BaseShard[G, S]
	x      *big.Int
	src    string
	err    string
}

var keyCache = map[string]any{}

// keySources rotate over the ways a key can come into being.
var keySources = []struct{ proto, api string }{{"dealer", "call"}, {"gennaro", "rounds"}, {"canetti", "runner"}, {"gennaro", "runner"}, {"canetti", "rounds"}}

func keyFor[G algebra.PrimeGroupElement[G, S], S algebra.PrimeFieldElement[S]](g *groupDesc[G, S], np namedPolicy, srcIdx int) *keyMat[G, S] {
	src := keySources[((srcIdx%len(keySources))+len(keySources))%len(keySources)]
	ck := g.name + "/" + np.Name + "/" + src.proto + "/" + src.api
	if v, ok := keyCache[ck]; ok {
		return v.(*keyMat[G, S])
	}
	km := &keyMat[G, S]{src: src.proto + ":" + src.api}
	shards, rejects, ctorErr := generate(g, np.Pol, src.proto, src.api, fiatshamir.Name)
	switch {
	case ctorErr != "":
		km.err = ctorErr
	case len(rejects) > 0:
		km.err = fmt.Sprint(rejects)
	default:
		km.shards = shards
		km.x = secretOf(np.Pol, shards)
	}
	keyCache[ck] = km
	return km
}

func secretOf[G algebra.PrimeGroupElement[G, S], S algebra.PrimeFieldElement[S]](pol *ad.Policy, shards map[ID]*mpc.BaseShard[G, S]) *big.Int {
	hs := holders(pol)
	bm := mspBig(shards[hs[0]].MSP())
	shareBig := map[ID][]*big.Int{}
	for _, id := range hs {
		for _, v := range shards[id].Share().Value() {
			shareBig[id] = append(shareBig[id], big2(v))
		}
	}
	x, ok := bm.reconstruct(hs, shareBig)
	if !ok {
		panic("all holders together do not span the target")
	}
	return x
}

// ---- cases -------------------------------------------------------------------------------------------------------------------

type quorumCase struct {
	ids  []ID
	kind string // minimal | nonminimal | unqualified
}

// quorumCases lists the quorums of at least two parties (a session needs two) to try for a policy. The `kind` is the harness's
// label for reporting and sampling only: ProdTrace decides qualification from the logged policy.
func quorumCases(np namedPolicy, maxMinimal, maxNonMinimal, maxUnq int, rot int) []quorumCase {
	as, err := np.Pol.Build()
	if err != nil {
		panic(err)
	}
	mn, nm, un := quorumsOf(as, holders(np.Pol), 2)
	if maxMinimal < 0 { // every qualified quorum, minimal and non-minimal
		maxMinimal, maxNonMinimal = len(mn), len(nm)
	}
	out := []quorumCase{}
	pick := func(sets [][]ID, max int, kind string) {
		if len(sets) == 0 {
			return
		}
		n := len(sets)
		if max > n {
			max = n
		}
		for i := 0; i < max; i++ {
			out = append(out, quorumCase{sets[(i+rot)%n], kind})
		}
	}
	pick(mn, maxMinimal, "minimal")
	pick(nm, maxNonMinimal, "nonminimal")
	pick(un, maxUnq, "unqualified")
	return out
}

// replicated: the span programmes in which holders own several rows and different holders hold EQUAL share components (CNF /
// replicated sharing) or one holder appears in several leaves (gate tree). Honest members of a quorum then produce equal
// partial-signature components, which must not be mistaken for a replay.
var replicatedPolicies = []string{"cnf3", "cnf4", "gate3"}

func isReplicated(np namedPolicy) bool {
	for _, n := range replicatedPolicies {
		if n == np.Name {
			return true
		}
	}
	return false
}

// planItem is one (policy, quorum, key source) of a protocol's case list.
type planItem struct {
	np     namedPolicy
	q      quorumCase
	srcIdx int
	pi, qi int
	rich   bool // Boldyreva quick tier: this run compares two aggregators and a qualified sub-collection
}

func rotatedPolicies(shift int) []namedPolicy {
	out := []namedPolicy{}
	for i := range signPolicies {
		out = append(out, policyByName(signPolicies[(i+shift+int(seed))%len(signPolicies)]))
	}
	return out
}

// planCheap (protocols that cost milliseconds per run): every policy; a replicated policy gets EVERY qualified quorum (minimal and
// non-minimal) on keys from trusted dealing and from the Gennaro DKG (thorough: also Canetti and the runner API).
func planCheap(shift int, quickSrcs []int) []planItem {
	out := []planItem{}
	for pi, np := range rotatedPolicies(shift) {
		rot := pi + shift + int(seed)
		if isReplicated(np) {
			srcs := quickSrcs
			if thor {
				srcs = []int{0, 1, 2, 3}
				if quickSrcs == nil { // Boldyreva (pairings): dealt and Gennaro keys
					srcs = []int{0, 1}
				}
			}
			for _, src := range srcs {
				for qi, q := range quorumCases(np, -1, 0, lim(2, 99), rot) {
					out = append(out, planItem{np: np, q: q, srcIdx: src, pi: pi, qi: qi + src, rich: true})
				}
			}
			continue
		}
		for qi, q := range quorumCases(np, lim(1, 10), lim(1, 2), lim(2, 99), rot) {
			src := pi + shift + int(seed)
			if thor {
				src += qi % 2
			}
			out = append(out, planItem{np: np, q: q, srcIdx: src, pi: pi, qi: qi, rich: true})
		}
	}
	return out
}

// planCostly (protocols that cost seconds per run). quick: a window of nWin policies that moves with the seed (one minimal
// quorum each, a non-minimal one on every second policy, two unqualified ones) plus one replicated policy on a Gennaro key with a
// minimal, a non-minimal and an unqualified quorum. thorough: every policy (two minimal quorums, a non-minimal one, every
// unqualified one); replicated policies with every qualified quorum on a dealt or a Gennaro key (alternating).
func planCostly(nWin, shift int) []planItem {
	out := []planItem{}
	if !thor {
		for pi, np := range policyWindow(nWin, shift) {
			for qi, q := range quorumCases(np, 1, 0, 2, pi+shift+int(seed)) {
				out = append(out, planItem{np: np, q: q, srcIdx: pi + shift + int(seed), pi: pi, qi: qi})
			}
		}
		// one replicated policy on a Gennaro key: a minimal quorum, an unqualified one and - for every second protocol variant,
		// alternating with the seed - a non-minimal one (three or more signers cost three times a pair)
		np := policyByName(replicatedPolicies[(shift+int(seed))%len(replicatedPolicies)])
		nonMin := 1
		if nWin == 1 && (shift+int(seed))%2 == 1 {
			nonMin = 0
		}
		for qi, q := range quorumCases(np, 1, nonMin, 1, shift+int(seed)) {
			out = append(out, planItem{np: np, q: q, srcIdx: 1, pi: nWin, qi: qi})
		}
		return out
	}
	for pi, np := range rotatedPolicies(shift) {
		rot := pi + shift + int(seed)
		if isReplicated(np) {
			// every qualified quorum; the key source alternates between trusted dealing and Gennaro with the protocol variant (shift)
			src := (pi + shift + int(seed)) % 2
			for qi, q := range quorumCases(np, -1, 0, 99, rot) {
				out = append(out, planItem{np: np, q: q, srcIdx: src, pi: pi, qi: qi + src, rich: true})
			}
			continue
		}
		for qi, q := range quorumCases(np, 2, 1, 99, rot) {
			out = append(out, planItem{np: np, q: q, srcIdx: pi + shift + int(seed) + qi%2, pi: pi, qi: qi})
		}
	}
	return out
}

var msgClasses = []string{"short", "kib", "empty"}

func msgOf(class string) []byte {
	switch class {
	case "empty":
		return []byte{}
	case "kib":
		return testMessages(false)[1]
	}
	return []byte("short message")
}

func idsName(ids []ID) string {
	s := []string{}
	for _, id := range ids {
		s = append(s, fmt.Sprint(uint64(id)))
	}
	return strings.Join(s, "+")
}

// newSignEv starts the line of one signing run.
func newSignEv(protoName, variant, group string, np namedPolicy, keysrc string, q quorumCase, api, msgClass string) map[string]any {
	return map[string]any{"a": "sign",
		"k":     fmt.Sprintf("sign:%s:%s:%s:%s:%s:%s:%s:%s:%s", protoName, variant, group, keysrc, np.Name, q.kind, idsName(q.ids), api, msgClass),
		"proto": protoName, "variant": variant, "group": group, "keysrc": keysrc, "pol": np.Pol, "polName": np.Name, "holders": ad.IDsU(holders(np.Pol)),
		"quorum": ad.IDsU(q.ids), "qkind": q.kind, "api": api, "msgClass": msgClass, "msgLen": len(msgOf(msgClass)), "gbits": groupBits(group),
		"ctor": []any{}, "started": false, "rejects": []any{}, "stop": 0, "completed": []uint64{}, "outs": []any{}, "outErrs": []any{}, "class": "",
		"signed": false}
}

// groupBits: the bit length of the group order (the 1/q guards of the specification only excuse refusals on small groups).
func groupBits(name string) int {
	switch name {
	case "k256":
		return gK256.group.Order().Big().BitLen()
	case "p256":
		return gP256.group.Order().Big().BitLen()
	case "ed25519":
		return gEd.group.Order().Big().BitLen()
	case "pallas":
		return gPallas.group.Order().Big().BitLen()
	case "vesta":
		return gVesta.group.Order().Big().BitLen()
	case "blsG1":
		return gG1.group.Order().Big().BitLen()
	case "blsG2":
		return gG2.group.Order().Big().BitLen()
	}
	panic("unknown group " + name)
}

func ctorJ(id ID, err error) map[string]any {
	return map[string]any{"id": uint64(id), "ok": err == nil, "err": errStr(err)}
}

func allCtorOK(ev map[string]any) bool {
	for _, c := range ev["ctor"].([]any) {
		if !c.(map[string]any)["ok"].(bool) {
			return false
		}
	}
	return len(ev["ctor"].([]any)) > 0
}

// refusalClass projects an error text to the class of documented refusals it belongs to ("" = none of them). These are the
// events of probability about 1/q that the code documents: values that happen to be zero / the identity are refused by
// validation, and two protocols ask for a retry. The table is a projection of the text, the specification names the guards.
func refusalClass(text string) string {
	switch {
	case strings.Contains(text, "must be retried"):
		return "retry"
	case strings.Contains(text, "identity element"), strings.Contains(text, "invalid BigR"), strings.Contains(text, "invalid psi"),
		strings.Contains(text, "invalid gamma"), strings.Contains(text, "invalid Pk"), strings.Contains(text, "invalid arguments"),
		strings.Contains(text, "non-identity"):
		return "degenerate"
	}
	return ""
}

func classOf(rejects []proto.Reject) string {
	cls := ""
	for _, r := range rejects {
		c := refusalClass(r.Err)
		if c == "" {
			return "other"
		}
		cls = c
	}
	return cls
}

// runParties drives the round-by-round API (messages travel as CBOR bytes) and records what happened.
func runParties(ev map[string]any, ps []proto.Party) bool {
	res := proto.Run(ps, signTamper, signObs)
	ev["started"] = true
	ev["rejects"], ev["stop"], ev["completed"] = rejectsJ(res.Rejects), res.StopRound, ad.IDsU(res.Completed)
	ev["class"] = classOf(res.Rejects)
	return len(res.Rejects) == 0
}

// runNet drives the networked runner API over real routers.
func runNet[O any](ev map[string]any, ids []ID, runners map[ID]network.Runner[O]) (map[ID]O, bool) {
	out, errsBy, err := runRunners(ids, func(id ID) (network.Runner[O], error) { return runners[id], nil })
	if err != nil {
		panic(err)
	}
	ev["started"] = true
	rej := []proto.Reject{}
	for _, id := range sortedKeys(errsBy) {
		rej = append(rej, proto.Reject{Party: id, Err: errChain(errsBy[id]), Blamed: []ID{}})
	}
	done := sortedKeys(out)
	ev["rejects"], ev["completed"], ev["class"] = rejectsJ(rej), ad.IDsU(done), classOf(rej)
	return out, len(rej) == 0
}

func errChain(err error) string {
	if err == nil {
		return ""
	}
	out := err.Error()
	switch u := err.(type) {
	case interface{ Unwrap() []error }:
		for _, e := range u.Unwrap() {
			out += " | " + errChain(e)
		}
	case interface{ Unwrap() error }:
		if e := u.Unwrap(); e != nil {
			out += " | " + errChain(e)
		}
	}
	if len(out) > 400 {
		out = out[:400]
	}
	return out
}

func addOut(ev map[string]any, who string, token int, err error) {
	if err != nil {
		ev["outErrs"] = append(ev["outErrs"].([]any), map[string]any{"who": who, "err": errChain(err), "class": refusalClass(errChain(err))})
		return
	}
	ev["outs"] = append(ev["outs"].([]any), map[string]any{"who": who, "tok": token})
}

func sortedIDs(ids []ID) []ID {
	out := append([]ID{}, ids...)
	sort.Slice(out, func(i, j int) bool { return out[i] < out[j] })
	return out
}

// ---- ECDSA oracles -----------------------------------------------------------------------------------------------------------

// ecDesc is a curve the ECDSA protocols run on: the group descriptor (with its math/big model), the library's suite (SHA-256)
// and, for P-256, the standard library's curve as a second independent verifier.
type ecDesc[P curves.Point[P, B, S], B algebra.PrimeFieldElement[B], S algebra.PrimeFieldElement[S]] struct {
	g     *groupDesc[P, S]
	curve ecdsa.Curve[P, B, S]
	std   elliptic.Curve
	hname string // "" = sha256
	hf    func() hash.Hash
}

// the message hashes the ECDSA protocols are run with: as wide as the group order, and wider (FIPS 186: the leftmost bits count)
var ecHashes = []struct {
	name string
	f    func() hash.Hash
}{{"sha256", sha256.New}, {"sha512", sha512.New}, {"sha3-256", func() hash.Hash { return sha3.New256() }}, {"sha384", sha512.New384}}

// withHash returns the descriptor with the hash selected by the case name (deterministic, rotates with the seed).
func (d *ecDesc[P, B, S]) withHash(caseName string) *ecDesc[P, B, S] {
	h := int(seed)
	for _, c := range []byte(caseName) {
		h += int(c)
	}
	c := *d
	c.hname, c.hf = ecHashes[h%len(ecHashes)].name, ecHashes[h%len(ecHashes)].f
	return &c
}

func (d *ecDesc[P, B, S]) hashName() string {
	if d.hf == nil {
		return "sha256"
	}
	return d.hname
}

func (d *ecDesc[P, B, S]) digest(m []byte) []byte {
	f := d.hf
	if f == nil {
		f = sha256.New
	}
	h := f()
	h.Write(m)
	return h.Sum(nil)
}

func (d *ecDesc[P, B, S]) suite() *ecdsa.Suite[P, B, S] {
	f := d.hf
	if f == nil {
		f = sha256.New
	}
	s, err := ecdsa.NewSuite(d.curve, f)
	if err != nil {
		panic(err)
	}
	return s
}

// ecdsaRelations evaluates the verifiers on one signature: the library's, the math/big textbook one (SEC 1), crypto/ecdsa where the
// standard library has the curve, the same under another message, public-key recovery and the low-s rule.
func ecdsaRelations[P curves.Point[P, B, S], B algebra.PrimeFieldElement[B], S algebra.PrimeFieldElement[S]](d *ecDesc[P, B, S], pkv P, x *big.Int, sig *ecdsa.Signature[S], msg []byte, ev map[string]any) {
	suite := d.suite()
	m := d.g.model
	pk, err := ecdsa.NewPublicKey(pkv)
	if err != nil {
		panic(err)
	}
	vf, err := ecdsa.NewVerifier(suite)
	if err != nil {
		panic(err)
	}
	other := otherMessage(msg)
	dg, dgo := d.digest(msg), d.digest(other)
	ev["hash"] = d.hashName()
	r, s := big2(sig.R()), big2(sig.S())
	Q := d.g.aff(pkv)
	ev["verify_lib"] = vf.Verify(sig, pk, msg) == nil
	ev["verify_other_lib"] = vf.Verify(sig, pk, other) == nil
	ev["verify_indep"] = m.ecdsaVerify(Q, dg, r, s)
	ev["verify_other_indep"] = m.ecdsaVerify(Q, dgo, r, s)
	ev["indep"] = "math/big SEC1"
	ev["verify_std"] = true
	if d.std != nil {
		ev["verify_std"] = stdecdsa.Verify(&stdecdsa.PublicKey{Curve: d.std, X: Q.x, Y: Q.y}, dg, r, s) &&
			!stdecdsa.Verify(&stdecdsa.PublicKey{Curve: d.std, X: Q.x, Y: Q.y}, dgo, r, s)
		ev["indep"] = "math/big SEC1 + crypto/ecdsa"
	}
	rec := false
	if v := sig.V(); v != nil {
		if R, ok := m.ecdsaRecover(dg, r, s, *v); ok {
			rec = !R.inf && R.x.Cmp(Q.x) == 0 && R.y.Cmp(Q.y) == 0
		}
	}
	ev["recovered_pk_ok"] = rec
	recLib := false
	if rp, err := ecdsa.RecoverPublicKey(suite, sig, msg); err == nil {
		recLib = rp.Value().Equal(pkv)
	}
	ev["recovered_lib_ok"] = recLib
	ev["low_s"] = s.Cmp(new(big.Int).Rsh(m.N, 1)) <= 0
	eq, _ := d.g.mulGenEq(x, pkv)
	ev["pkIsXG"] = eq
	ev["signed"] = true
}

// ---- dispatcher --------------------------------------------------------------------------------------------------------------

func runSign() {
	for r := 0; r < scale; r++ {
		signDKLs(r)
		signLindell17(r)
		signLindell22(r)
		signBLS(r)
		signCGGMP(r)
	}
}

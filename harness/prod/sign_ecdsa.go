package prod

// DKLs23 (both multipliers) and Lindell17 on secp256k1 and P-256.

import (
	"crypto/elliptic"
	"fmt"
	"testing"

	"github.com/bronlabs/bron-crypto/pkg/base/algebra"
	"github.com/bronlabs/bron-crypto/pkg/base/curves"
	"github.com/bronlabs/bron-crypto/pkg/base/curves/k256"
	"github.com/bronlabs/bron-crypto/pkg/base/curves/p256"
	"github.com/bronlabs/bron-crypto/pkg/base/serde"
	"github.com/bronlabs/bron-crypto/pkg/mpc"
	"github.com/bronlabs/bron-crypto/pkg/mpc/session"
	"github.com/bronlabs/bron-crypto/pkg/mpc/signatures/ecdsa/dkls23"
	dklskeygen "github.com/bronlabs/bron-crypto/pkg/mpc/signatures/ecdsa/dkls23/keygen"
	"github.com/bronlabs/bron-crypto/pkg/mpc/signatures/ecdsa/dkls23/signing_bbot"
	"github.com/bronlabs/bron-crypto/pkg/mpc/signatures/ecdsa/dkls23/signing_softspoken"
	"github.com/bronlabs/bron-crypto/pkg/mpc/signatures/ecdsa/lindell17"
	l17dkg "github.com/bronlabs/bron-crypto/pkg/mpc/signatures/ecdsa/lindell17/keygen/dkg"
	l17dealer "github.com/bronlabs/bron-crypto/pkg/mpc/signatures/ecdsa/lindell17/keygen/trusted_dealer"
	l17signing "github.com/bronlabs/bron-crypto/pkg/mpc/signatures/ecdsa/lindell17/signing"
	"github.com/bronlabs/bron-crypto/pkg/network"
	"github.com/bronlabs/bron-crypto/pkg/proofs/sigma/compiler"
	"github.com/bronlabs/bron-crypto/pkg/proofs/sigma/compiler/fiatshamir"
	"github.com/bronlabs/bron-crypto/pkg/proofs/sigma/compiler/fischlin"
	"github.com/bronlabs/bron-crypto/pkg/proofs/sigma/compiler/randfischlin"
	"github.com/bronlabs/bron-crypto/pkg/signatures/ecdsa"

	"verif/harness/proto"
)

var (
	dK256 = &ecDesc[*k256.Point, *k256.BaseFieldElement, *k256.Scalar]{g: gK256, curve: k256.NewCurve()}
	dP256 = &ecDesc[*p256.Point, *p256.BaseFieldElement, *p256.Scalar]{g: gP256, curve: p256.NewCurve(), std: elliptic.P256()}
)

// policy orders; the quick tier takes a window of it that moves with the seed
var signPolicies = []string{"th2of3", "cnf3", "th2of3sparse", "cnf4", "hier4", "gate3", "th2of2", "unan3", "th3of5"}

func policyWindow(n, shift int) []namedPolicy {
	if thor || n > len(signPolicies) {
		n = len(signPolicies)
	}
	out := []namedPolicy{}
	for i := 0; i < n; i++ {
		out = append(out, policyByName(signPolicies[(i+shift+int(seed))%len(signPolicies)]))
	}
	return out
}

func lim(quick, thorough int) int {
	if thor {
		return thorough
	}
	return quick
}

// ---- DKLs23 ------------------------------------------------------------------------------------------------------------------

type dklsBbotParty[P curves.Point[P, B, S], B algebra.PrimeFieldElement[B], S algebra.PrimeFieldElement[S]] struct {
	id  ID
	c   *signing_bbot.Cosigner[P, B, S]
	msg []byte
	out *dkls23.PartialSignature[P, B, S]
}

func (p *dklsBbotParty[P, B, S]) ID() ID      { return p.id }
func (p *dklsBbotParty[P, B, S]) Rounds() int { return 4 }
func (p *dklsBbotParty[P, B, S]) Round(k int, inB, inU map[ID][]byte) ([]byte, map[ID][]byte, error) {
	switch k {
	case 1:
		b, u, err := p.c.Round1()
		if err != nil {
			return nil, nil, err
		}
		return proto.Enc(b), proto.EncMap(u), nil
	case 2:
		b1, err := proto.DecMap[*signing_bbot.Round1Broadcast[P, B, S]](inB)
		if err != nil {
			return nil, nil, err
		}
		u1, err := proto.DecMap[*signing_bbot.Round1P2P[P, B, S]](inU)
		if err != nil {
			return nil, nil, err
		}
		b, u, err := p.c.Round2(b1, u1)
		if err != nil {
			return nil, nil, err
		}
		return proto.Enc(b), proto.EncMap(u), nil
	case 3:
		b2, err := proto.DecMap[*signing_bbot.Round2Broadcast[P, B, S]](inB)
		if err != nil {
			return nil, nil, err
		}
		u2, err := proto.DecMap[*signing_bbot.Round2P2P[P, B, S]](inU)
		if err != nil {
			return nil, nil, err
		}
		b, u, err := p.c.Round3(b2, u2)
		if err != nil {
			return nil, nil, err
		}
		return proto.Enc(b), proto.EncMap(u), nil
	case 4:
		b3, err := proto.DecMap[*signing_bbot.Round3Broadcast[P, B, S]](inB)
		if err != nil {
			return nil, nil, err
		}
		u3, err := proto.DecMap[*signing_bbot.Round3P2P[P, B, S]](inU)
		if err != nil {
			return nil, nil, err
		}
		out, err := p.c.Round4(b3, u3, p.msg)
		if err != nil {
			return nil, nil, err
		}
		p.out = out
		return nil, nil, nil
	}
	panic("dkls23 bbot: bad round")
}

type dklsSoftParty[P curves.Point[P, B, S], B algebra.PrimeFieldElement[B], S algebra.PrimeFieldElement[S]] struct {
	id  ID
	c   *signing_softspoken.Cosigner[P, B, S]
	msg []byte
	out *dkls23.PartialSignature[P, B, S]
}

func (p *dklsSoftParty[P, B, S]) ID() ID      { return p.id }
func (p *dklsSoftParty[P, B, S]) Rounds() int { return 5 }
func (p *dklsSoftParty[P, B, S]) Round(k int, inB, inU map[ID][]byte) ([]byte, map[ID][]byte, error) {
	switch k {
	case 1:
		u, err := p.c.Round1()
		if err != nil {
			return nil, nil, err
		}
		return nil, proto.EncMap(u), nil
	case 2:
		u1, err := proto.DecMap[*signing_softspoken.Round1P2P[P, B, S]](inU)
		if err != nil {
			return nil, nil, err
		}
		u, err := p.c.Round2(u1)
		if err != nil {
			return nil, nil, err
		}
		return nil, proto.EncMap(u), nil
	case 3:
		u2, err := proto.DecMap[*signing_softspoken.Round2P2P[P, B, S]](inU)
		if err != nil {
			return nil, nil, err
		}
		b, u, err := p.c.Round3(u2)
		if err != nil {
			return nil, nil, err
		}
		return proto.Enc(b), proto.EncMap(u), nil
	case 4:
		b3, err := proto.DecMap[*signing_softspoken.Round3Broadcast[P, B, S]](inB)
		if err != nil {
			return nil, nil, err
		}
		u3, err := proto.DecMap[*signing_softspoken.Round3P2P[P, B, S]](inU)
		if err != nil {
			return nil, nil, err
		}
		b, u, err := p.c.Round4(b3, u3)
		if err != nil {
			return nil, nil, err
		}
		return proto.Enc(b), proto.EncMap(u), nil
	case 5:
		b4, err := proto.DecMap[*signing_softspoken.Round4Broadcast[P, B, S]](inB)
		if err != nil {
			return nil, nil, err
		}
		u4, err := proto.DecMap[*signing_softspoken.Round4P2P[P, B, S]](inU)
		if err != nil {
			return nil, nil, err
		}
		out, err := p.c.Round5(b4, u4, p.msg)
		if err != nil {
			return nil, nil, err
		}
		p.out = out
		return nil, nil, nil
	}
	panic("dkls23 softspoken: bad round")
}

func signDKLs(r int) {
	signDKLsOn(dK256, r)
	signDKLsOn(dP256, r)
}

func signDKLsOn[P curves.Point[P, B, S], B algebra.PrimeFieldElement[B], S algebra.PrimeFieldElement[S]](d *ecDesc[P, B, S], r int) {
	for mi, mult := range []string{"bbot", "softspoken"} {
		shift := 2*mi + r
		if d.std != nil {
			shift += 5
		}
		for _, it := range planCostly(1, shift) {
			api := []string{"rounds", "runner"}[(it.pi+it.qi+mi+r)%2]
			msgClass := msgClasses[(it.pi+it.qi+r)%len(msgClasses)]
			name := fmt.Sprintf("sign:dkls23-%s:%s:%s:%s", mult, d.g.name, it.np.Name, it.q.kind)
			if !takeCase(name) {
				continue
			}
			dklsLine(d, mult, it.np, keyFor(d.g, it.np, it.srcIdx), it.q, api, msgClass)
		}
	}
}

func dklsLine[P curves.Point[P, B, S], B algebra.PrimeFieldElement[B], S algebra.PrimeFieldElement[S]](d *ecDesc[P, B, S], mult string, np namedPolicy, km *keyMat[P, S], q quorumCase, api, msgClass string) {
	d = d.withHash("dkls" + mult + np.Name + idsName(q.ids) + api + msgClass)
	ev := newSignEv("dkls23-"+mult, "ecdsa", d.g.name, np, km.src, q, api, msgClass)
	ev["hash"] = d.hashName()
	defer emitSign(ev)
	if km.err != "" {
		ev["keyErr"] = km.err
		return
	}
	msg := msgOf(msgClass)
	suite := d.suite()
	var ctxs map[ID]*session.Context
	if api == "runner" {
		ctxs = sessionsRunner(q.ids)
	} else {
		ctxs = sessions(q.ids)
	}
	shards := map[ID]*dkls23.Shard[P, B, S]{}
	for _, id := range q.ids {
		sh, err := dklskeygen.NewShard(km.shards[id])
		if err != nil {
			panic(err)
		}
		shards[id] = sh
	}
	psigs := map[ID]*dkls23.PartialSignature[P, B, S]{}
	if api == "runner" {
		runners := map[ID]network.Runner[*dkls23.PartialSignature[P, B, S]]{}
		for _, id := range q.ids {
			var rn network.Runner[*dkls23.PartialSignature[P, B, S]]
			var err error
			if mult == "bbot" {
				rn, err = signing_bbot.NewRunner(ctxs[id], suite, shards[id], msg, reader())
			} else {
				rn, err = signing_softspoken.NewRunner(ctxs[id], suite, shards[id], msg, reader())
			}
			ev["ctor"] = append(ev["ctor"].([]any), ctorJ(id, err))
			runners[id] = rn
		}
		if !allCtorOK(ev) {
			return
		}
		out, ok := runNet(ev, q.ids, runners)
		if !ok {
			return
		}
		psigs = out
	} else {
		ps := []proto.Party{}
		get := map[ID]func() *dkls23.PartialSignature[P, B, S]{}
		for _, id := range q.ids {
			if mult == "bbot" {
				c, err := signing_bbot.NewCosigner(ctxs[id], suite, shards[id], reader())
				ev["ctor"] = append(ev["ctor"].([]any), ctorJ(id, err))
				if err == nil {
					p := &dklsBbotParty[P, B, S]{id: id, c: c, msg: msg}
					ps = append(ps, p)
					get[id] = func() *dkls23.PartialSignature[P, B, S] { return p.out }
				}
			} else {
				c, err := signing_softspoken.NewCosigner(ctxs[id], suite, shards[id], reader())
				ev["ctor"] = append(ev["ctor"].([]any), ctorJ(id, err))
				if err == nil {
					p := &dklsSoftParty[P, B, S]{id: id, c: c, msg: msg}
					ps = append(ps, p)
					get[id] = func() *dkls23.PartialSignature[P, B, S] { return p.out }
				}
			}
		}
		if !allCtorOK(ev) {
			return
		}
		if !runParties(ev, ps) {
			return
		}
		for _, id := range q.ids {
			psigs[id] = get[id]()
		}
	}
	// every party aggregates for itself (its own view of the public key, its own partial signature first); the partial
	// signatures of the others arrive as CBOR bytes
	var first *ecdsa.Signature[S]
	for i, id := range q.ids {
		list := []*dkls23.PartialSignature[P, B, S]{}
		for j := range q.ids {
			o := q.ids[(i+j)%len(q.ids)]
			ps := psigs[o]
			if o != id {
				data, err := serde.MarshalCBOR(ps)
				if err != nil {
					panic(err)
				}
				ps, err = serde.UnmarshalCBOR[*dkls23.PartialSignature[P, B, S]](data)
				if err != nil {
					addOut(ev, fmt.Sprintf("agg:%d", id), 0, err)
					continue
				}
			}
			list = append(list, ps)
		}
		sig, err := dkls23.Aggregate(suite, shards[id].PublicKey(), msg, list...)
		if err != nil {
			addOut(ev, fmt.Sprintf("agg:%d", id), 0, err)
			continue
		}
		addOut(ev, fmt.Sprintf("agg:%d", id), tok(sig), nil)
		if first == nil {
			first = sig
		}
	}
	if first != nil {
		ecdsaRelations(d, km.shards[q.ids[0]].PublicKeyValue(), km.x, first, msg, ev)
	}
}

// ---- Lindell17 -----------------------------------------------------------------------------------------------------------------

const l17KeyLen = 1024 // as in the repository's own tests; only possible while testing.Testing() is true

type l17Primary[P curves.Point[P, B, S], B algebra.PrimeFieldElement[B], S algebra.PrimeFieldElement[S]] struct {
	id, other ID
	c         *l17signing.PrimaryCosigner[P, B, S]
	msg       []byte
	sig       *ecdsa.Signature[S]
}

func oneMsg[T any](in map[ID][]byte, from ID) (T, error) {
	var zero T
	data, ok := in[from]
	if !ok {
		return zero, fmt.Errorf("no message from %d", from)
	}
	v, err := serde.UnmarshalCBOR[T](data)
	if err != nil {
		return zero, &proto.DecodeError{From: from, Err: err}
	}
	return v, nil
}

func (p *l17Primary[P, B, S]) ID() ID      { return p.id }
func (p *l17Primary[P, B, S]) Rounds() int { return 5 }
func (p *l17Primary[P, B, S]) Round(k int, _, inU map[ID][]byte) ([]byte, map[ID][]byte, error) {
	switch k {
	case 1:
		o, err := p.c.Round1()
		if err != nil {
			return nil, nil, err
		}
		return nil, map[ID][]byte{p.other: proto.Enc(o)}, nil
	case 3:
		in, err := oneMsg[*l17signing.Round2OutputP2P[P, B, S]](inU, p.other)
		if err != nil {
			return nil, nil, err
		}
		o, err := p.c.Round3(in)
		if err != nil {
			return nil, nil, err
		}
		return nil, map[ID][]byte{p.other: proto.Enc(o)}, nil
	case 5:
		in, err := oneMsg[*l17signing.Round4OutputP2P[P, B, S]](inU, p.other)
		if err != nil {
			return nil, nil, err
		}
		sig, err := p.c.Round5(in, p.msg)
		if err != nil {
			return nil, nil, err
		}
		p.sig = sig
	}
	return nil, nil, nil
}

type l17Secondary[P curves.Point[P, B, S], B algebra.PrimeFieldElement[B], S algebra.PrimeFieldElement[S]] struct {
	id, other ID
	c         *l17signing.SecondaryCosigner[P, B, S]
	msg       []byte
}

func (p *l17Secondary[P, B, S]) ID() ID      { return p.id }
func (p *l17Secondary[P, B, S]) Rounds() int { return 4 }
func (p *l17Secondary[P, B, S]) Round(k int, _, inU map[ID][]byte) ([]byte, map[ID][]byte, error) {
	switch k {
	case 2:
		in, err := oneMsg[*l17signing.Round1OutputP2P[P, B, S]](inU, p.other)
		if err != nil {
			return nil, nil, err
		}
		o, err := p.c.Round2(in)
		if err != nil {
			return nil, nil, err
		}
		return nil, map[ID][]byte{p.other: proto.Enc(o)}, nil
	case 4:
		in, err := oneMsg[*l17signing.Round3OutputP2P[P, B, S]](inU, p.other)
		if err != nil {
			return nil, nil, err
		}
		o, err := p.c.Round4(in, p.msg)
		if err != nil {
			return nil, nil, err
		}
		return nil, map[ID][]byte{p.other: proto.Enc(o)}, nil
	}
	return nil, nil, nil
}

type l17Key[P curves.Point[P, B, S], B algebra.PrimeFieldElement[B], S algebra.PrimeFieldElement[S]] struct {
	shards map[ID]*lindell17.Shard[P, B, S]
	km     *keyMat[P, S]
	src    string
	err    string
}

// l17KeyFor: "dealer" = the Lindell17 trusted dealer (base dealing + Paillier material in one call); otherwise base shards from
// keyFor (trusted dealing / Gennaro / Canetti) followed by the Lindell17 DKG (Paillier keys, LP and LPDL proofs) through the runner API.
// One key (and so one set of Paillier keys) per (curve, policy, source) and process.
func l17KeyFor[P curves.Point[P, B, S], B algebra.PrimeFieldElement[B], S algebra.PrimeFieldElement[S]](d *ecDesc[P, B, S], np namedPolicy, srcIdx int, viaDKG bool) *l17Key[P, B, S] {
	ck := fmt.Sprintf("l17/%s/%s/%d/%v", d.g.name, np.Name, srcIdx%len(keySources), viaDKG)
	if v, ok := keyCache[ck]; ok {
		return v.(*l17Key[P, B, S])
	}
	out := &l17Key[P, B, S]{shards: map[ID]*lindell17.Shard[P, B, S]{}}
	keyCache[ck] = out
	if !viaDKG {
		as, err := np.Pol.Build()
		if err != nil {
			panic(err)
		}
		shards, _, err := l17dealer.DealRandom(d.curve, as, l17KeyLen, reader())
		if err != nil {
			out.err = errStr(err)
			return out
		}
		base := map[ID]*mpc.BaseShard[P, S]{}
		for id, sh := range shards.Iter() {
			out.shards[id] = sh
			base[id] = &sh.BaseShard
		}
		out.km = &keyMat[P, S]{shards: base, x: secretOf(np.Pol, base), src: "l17dealer"}
		out.src = "l17dealer"
		return out
	}
	km := keyFor(d.g, np, srcIdx)
	out.km, out.src = km, km.src+"+l17dkg"
	if km.err != "" {
		out.err = km.err
		return out
	}
	hs := holders(np.Pol)
	ctxs := sessionsRunner(hs)
	res, errsBy, err := runRunners(hs, func(id ID) (network.Runner[*lindell17.Shard[P, B, S]], error) {
		return l17dkg.NewRunner(ctxs[id], km.shards[id], l17KeyLen, d.curve, reader(), fiatshamir.Name)
	})
	if err != nil {
		out.err = "l17dkg ctor: " + errStr(err)
		return out
	}
	if len(errsBy) > 0 {
		out.err = fmt.Sprint("l17dkg: ", errsBy)
		return out
	}
	out.shards = res
	return out
}

func signLindell17(r int) {
	if !testing.Testing() {
		return // 1024-bit Paillier keys are refused outside a test binary (that refusal is C16's subject)
	}
	signL17On(dK256, r)
	signL17On(dP256, r)
}

func signL17On[P curves.Point[P, B, S], B algebra.PrimeFieldElement[B], S algebra.PrimeFieldElement[S]](d *ecDesc[P, B, S], r int) {
	shift := r
	if d.std != nil {
		shift += 4
	}
	items := planCostly(2, shift)
	dkgPolicy := "" // quick tier: the first policy of the plan with at most three holders gets its key from the Lindell17 DKG
	for _, it := range items {
		if len(it.np.Pol.IDs) <= 3 && it.q.kind != "unqualified" {
			dkgPolicy = it.np.Name
			break
		}
	}
	for _, it := range items {
		pi, qi := it.pi, it.qi
		// the Lindell17 DKG (Paillier keys, LP / LPDL proofs for every MSP row and peer) costs tens of seconds: one policy per curve in
		// the quick tier, every second policy of at most four holders in the thorough tier; the other keys come from the
		// Lindell17 trusted dealer
		viaDKG := it.np.Name == dkgPolicy && d.std == nil
		if thor {
			viaDKG = pi%2 == 0 && len(it.np.Pol.IDs) <= 4
		}
		api := []string{"rounds", "runner"}[(pi+qi+r)%2]
		msgClass := msgClasses[(pi+qi+r+1)%len(msgClasses)]
		comp := []compiler.Name{fischlin.Name, randfischlin.Name}[(pi+qi)%2]
		primaryFirst := (pi+qi+int(seed))%2 == 0
		name := fmt.Sprintf("sign:lindell17:%s:%s:%s", d.g.name, it.np.Name, it.q.kind)
		if !takeCase(name) {
			continue
		}
		l17Line(d, it.np, l17KeyFor(d, it.np, it.srcIdx, viaDKG), it.q, api, msgClass, comp, primaryFirst)
	}
}

func l17Line[P curves.Point[P, B, S], B algebra.PrimeFieldElement[B], S algebra.PrimeFieldElement[S]](d *ecDesc[P, B, S], np namedPolicy, key *l17Key[P, B, S], q quorumCase, api, msgClass string, comp compiler.Name, primaryFirst bool) {
	d = d.withHash("l17" + np.Name + idsName(q.ids) + api + msgClass + string(comp))
	ev := newSignEv("lindell17", string(comp), d.g.name, np, key.src, q, api, msgClass)
	ev["hash"] = d.hashName()
	defer emitSign(ev)
	if key.err != "" {
		ev["keyErr"] = key.err
		return
	}
	msg := msgOf(msgClass)
	suite := d.suite()
	ids := sortedIDs(q.ids)
	prim, sec := ids[0], ids[1]
	if !primaryFirst {
		prim, sec = ids[1], ids[0]
	}
	ev["primary"] = uint64(prim)
	var ctxs map[ID]*session.Context
	if api == "runner" {
		ctxs = sessionsRunner(ids)
	} else {
		ctxs = sessions(ids)
	}
	var sig *ecdsa.Signature[S]
	if api == "runner" {
		runners := map[ID]network.Runner[*ecdsa.Signature[S]]{}
		for _, id := range ids {
			var rn network.Runner[*ecdsa.Signature[S]]
			var err error
			if id == prim {
				rn, err = l17signing.NewPrimaryRunner(ctxs[id], suite, sec, key.shards[id], comp, reader(), msg)
			} else {
				rn, err = l17signing.NewSecondaryRunner(ctxs[id], suite, prim, key.shards[id], comp, reader(), msg)
			}
			ev["ctor"] = append(ev["ctor"].([]any), ctorJ(id, err))
			runners[id] = rn
		}
		if !allCtorOK(ev) {
			return
		}
		out, ok := runNet(ev, ids, runners)
		if !ok {
			return
		}
		sig = out[prim]
		if out[sec] != nil {
			addOut(ev, fmt.Sprintf("p:%d", sec), tok(out[sec]), nil) // the secondary has no output by design; logged if it ever had one
		}
	} else {
		ps := []proto.Party{}
		var pp *l17Primary[P, B, S]
		for _, id := range ids {
			if id == prim {
				c, err := l17signing.NewPrimaryCosigner(ctxs[id], suite, sec, key.shards[id], comp, reader())
				ev["ctor"] = append(ev["ctor"].([]any), ctorJ(id, err))
				if err == nil {
					pp = &l17Primary[P, B, S]{id: id, other: sec, c: c, msg: msg}
					ps = append(ps, pp)
				}
			} else {
				c, err := l17signing.NewSecondaryCosigner(ctxs[id], suite, prim, key.shards[id], comp, reader())
				ev["ctor"] = append(ev["ctor"].([]any), ctorJ(id, err))
				if err == nil {
					ps = append(ps, &l17Secondary[P, B, S]{id: id, other: prim, c: c, msg: msg})
				}
			}
		}
		if !allCtorOK(ev) {
			return
		}
		if !runParties(ev, ps) {
			return
		}
		sig = pp.sig
	}
	if sig == nil {
		addOut(ev, fmt.Sprintf("p:%d", prim), 0, fmt.Errorf("primary finished without a signature"))
		return
	}
	addOut(ev, fmt.Sprintf("p:%d", prim), tok(sig), nil)
	ecdsaRelations(d, key.shards[prim].PublicKeyValue(), key.km.x, sig, msg, ev)
}

package prod

// Mode "otvole" (C09): honest runs on secp256k1 and P-256 of the verified simplest OT (VSOT), of the SoftSpoken OT extension seeded by a
// real VSOT run, and of the random-VOLE multiplication over SoftSpoken. One line per run. OT lines carry, per instance, the
// receiver's choice bit and tokens (equal bytes <=> equal token) of the two sender messages and of the received message; VOLE lines carry
// the booleans c_i + d_i = a_i * b evaluated with math/big modulo the group order. ProdTrace decides.

import (
	"crypto/sha256"
	"fmt"
	"io"
	"math/big"

	"github.com/bronlabs/bron-crypto/pkg/base/algebra"
	"github.com/bronlabs/bron-crypto/pkg/base/curves"
	"github.com/bronlabs/bron-crypto/pkg/base/serde"
	rvole_softspoken "github.com/bronlabs/bron-crypto/pkg/mpc/rvole/softspoken"
	"github.com/bronlabs/bron-crypto/pkg/ot/base/vsot"
	"github.com/bronlabs/bron-crypto/pkg/ot/extension/softspoken"

	"verif/harness/proto"
	"verif/harness/tr"
)

// wire sends a message through its CBOR encoding, as a peer would receive it. In deviation mode (otvole_dev.go) the plan's message is
// altered on the way.
func wire[T any](v T) (T, error) {
	data, err := serde.MarshalCBOR(v)
	if err != nil {
		panic(fmt.Sprintf("wire: %v", err))
	}
	data = wireHook(data)
	return serde.UnmarshalCBOR[T](data)
}

func choicePattern(pattern string, xi int, rnd io.Reader) []byte {
	c := make([]byte, xi/8)
	for i := range c {
		switch pattern {
		case "ones":
			c[i] = 0xff
		case "alternating":
			c[i] = 0xaa
		}
	}
	if pattern == "random" {
		if _, err := io.ReadFull(rnd, c); err != nil {
			panic(err)
		}
	}
	return c
}

func catTok(blocks [][]byte) int {
	all := []byte{}
	for _, b := range blocks {
		all = append(all, byte(len(b)>>8), byte(len(b)))
		all = append(all, b...)
	}
	return proto.Tok(all)
}

func otEv(protoName, group string, xi, l int, pattern string) map[string]any {
	return map[string]any{"a": "ot", "k": fmt.Sprintf("ot:%s:%s:xi=%d:l=%d:%s", protoName, group, xi, l, pattern), "proto": protoName, "group": group,
		"xi": xi, "l": l, "pattern": pattern, "gbits": groupBits(group), "completed": false, "failedAt": "", "err": "", "class": "",
		"choices": []int{}, "s0": []int{}, "s1": []int{}, "recv": []int{}, "recvLen": []int{}}
}

func otFail(ev map[string]any, step string, err error) {
	ev["failedAt"], ev["err"], ev["class"] = step, errChain(err), refusalClass(errChain(err))
	if ev["class"] == "" {
		ev["class"] = "other"
	}
}

// otProject fills the per-instance projection of a finished batch.
func otProject(ev map[string]any, xi int, choices []byte, s [][2][][]byte, r [][][]byte, rChoices []byte) {
	bits, s0, s1, rv, rl := []int{}, []int{}, []int{}, []int{}, []int{}
	for i := 0; i < xi && i < len(s) && i < len(r); i++ {
		bits = append(bits, int((choices[i/8]>>(i%8))&1))
		s0 = append(s0, catTok(s[i][0]))
		s1 = append(s1, catTok(s[i][1]))
		rv = append(rv, catTok(r[i]))
		rl = append(rl, len(r[i]))
	}
	ev["choices"], ev["s0"], ev["s1"], ev["recv"], ev["recvLen"] = bits, s0, s1, rv, rl
	ev["nSender"], ev["nReceiver"] = len(s), len(r)
	ev["choicesKept"] = string(rChoices) == string(choices) // the receiver's output repeats its input choices
	ev["completed"] = true
}

// runVSOT runs one batch; returns the outputs for use as extension seeds.
func runVSOT[P curves.Point[P, B, S], B algebra.PrimeFieldElement[B], S algebra.PrimeFieldElement[S]](d *ecDesc[P, B, S], xi, l int, pattern string, ids []ID) (*vsot.SenderOutput, *vsot.ReceiverOutput) {
	ev := otEv("vsot", d.g.name, xi, l, pattern)
	defer emitOT(ev)
	suite, err := vsot.NewSuite(xi, l, d.curve, sha256.New)
	if err != nil {
		otFail(ev, "suite", err)
		return nil, nil
	}
	ctxs := sessions(ids)
	snd, err := vsot.NewSender(ctxs[ids[0]], suite, reader())
	if err != nil {
		otFail(ev, "newSender", err)
		return nil, nil
	}
	rcv, err := vsot.NewReceiver(ctxs[ids[1]], suite, reader())
	if err != nil {
		otFail(ev, "newReceiver", err)
		return nil, nil
	}
	choices := choicePattern(pattern, xi, reader())
	r1, err := snd.Round1()
	if err != nil {
		otFail(ev, "r1", err)
		return nil, nil
	}
	if r1, err = wire(r1); err != nil {
		otFail(ev, "r1wire", err)
		return nil, nil
	}
	r2, ro, err := rcv.Round2(r1, choices)
	if err != nil {
		otFail(ev, "r2", err)
		return nil, nil
	}
	if r2, err = wire(r2); err != nil {
		otFail(ev, "r2wire", err)
		return nil, nil
	}
	r3, so, err := snd.Round3(r2)
	if err != nil {
		otFail(ev, "r3", err)
		return nil, nil
	}
	if r3, err = wire(r3); err != nil {
		otFail(ev, "r3wire", err)
		return nil, nil
	}
	r4, err := rcv.Round4(r3)
	if err != nil {
		otFail(ev, "r4", err)
		return nil, nil
	}
	if r4, err = wire(r4); err != nil {
		otFail(ev, "r4wire", err)
		return nil, nil
	}
	r5, err := snd.Round5(r4)
	if err != nil {
		otFail(ev, "r5", err)
		return nil, nil
	}
	if r5, err = wire(r5); err != nil {
		otFail(ev, "r5wire", err)
		return nil, nil
	}
	if err := rcv.Round6(r5); err != nil {
		otFail(ev, "r6", err)
		return nil, nil
	}
	otProject(ev, xi, choices, so.Messages, ro.Messages, ro.Choices)
	return so, ro
}

// runSoftSpoken: the extension's receiver holds the base OT's sender output and vice versa.
func runSoftSpoken(group string, seedsS *vsot.SenderOutput, seedsR *vsot.ReceiverOutput, xi, l int, pattern string, ids []ID) {
	ev := otEv("softspoken", group, xi, l, pattern)
	defer emitOT(ev)
	suite, err := softspoken.NewSuite(xi, l, sha256.New)
	if err != nil {
		otFail(ev, "suite", err)
		return
	}
	ctxs := sessions(ids)
	rcv, err := softspoken.NewReceiver(ctxs[ids[0]], seedsS, suite, reader())
	if err != nil {
		otFail(ev, "newReceiver", err)
		return
	}
	snd, err := softspoken.NewSender(ctxs[ids[1]], seedsR, suite, reader())
	if err != nil {
		otFail(ev, "newSender", err)
		return
	}
	choices := choicePattern(pattern, xi, reader())
	r1, ro, err := rcv.Round1(choices)
	if err != nil {
		otFail(ev, "r1", err)
		return
	}
	if r1, err = wire(r1); err != nil {
		otFail(ev, "r1wire", err)
		return
	}
	so, err := snd.Round2(r1)
	if err != nil {
		otFail(ev, "r2", err)
		return
	}
	otProject(ev, xi, choices, so.Messages, ro.Messages, ro.Choices)
}

func runRVoleSoft[P curves.Point[P, B, S], B algebra.PrimeFieldElement[B], S algebra.PrimeFieldElement[S]](d *ecDesc[P, B, S], seedsS *vsot.SenderOutput, seedsR *vsot.ReceiverOutput, L int, kinds []string, ids []ID) {
	ev := map[string]any{"a": "vole", "k": fmt.Sprintf("vole:rvole-softspoken:%s:L=%d:%v", d.g.name, L, kinds), "proto": "rvole-softspoken", "group": d.g.name, "gbits": groupBits(d.g.name), "L": L,
		"inputs": kinds, "completed": false, "failedAt": "", "err": "", "class": "", "sumOK": []bool{}, "nC": 0, "nD": 0, "bZero": false}
	defer emitOT(ev)
	fail := func(step string, err error) { otFail(ev, step, err) }
	suite, err := rvole_softspoken.NewSuite(L, d.curve, sha256.New)
	if err != nil {
		fail("suite", err)
		return
	}
	ctxs := sessions(ids)
	alice, err := rvole_softspoken.NewAlice(ctxs[ids[1]], suite, seedsR, reader()) // the base OT receiver
	if err != nil {
		fail("newAlice", err)
		return
	}
	bob, err := rvole_softspoken.NewBob(ctxs[ids[0]], suite, seedsS, reader())
	if err != nil {
		fail("newBob", err)
		return
	}
	sf := d.curve.ScalarField()
	a := make([]S, L)
	rd := reader()
	for i := range a {
		switch kinds[i] {
		case "0":
			a[i] = sf.Zero()
		case "1":
			a[i] = sf.One()
		case "-1":
			a[i] = sf.One().Neg()
		default:
			a[i], err = sf.Random(rd)
			if err != nil {
				panic(err)
			}
		}
	}
	r1, b, err := bob.Round1()
	if err != nil {
		fail("r1", err)
		return
	}
	if r1, err = wire(r1); err != nil {
		fail("r1wire", err)
		return
	}
	r2, c, err := alice.Round2(r1, a)
	if err != nil {
		fail("r2", err)
		return
	}
	if r2, err = wire(r2); err != nil {
		fail("r2wire", err)
		return
	}
	dd, err := bob.Round3(r2)
	if err != nil {
		fail("r3", err)
		return
	}
	n := d.g.model.N
	ok := []bool{}
	bb := big2(b)
	for i := 0; i < L && i < len(c) && i < len(dd); i++ {
		lhs := new(big.Int).Add(big2(c[i]), big2(dd[i]))
		lhs.Mod(lhs, n)
		rhs := new(big.Int).Mul(big2(a[i]), bb)
		rhs.Mod(rhs, n)
		ok = append(ok, lhs.Cmp(rhs) == 0)
	}
	ev["sumOK"], ev["nC"], ev["nD"], ev["bZero"], ev["completed"] = ok, len(c), len(dd), bb.Sign() == 0, true
}

func runOTVole() {
	for r := 0; r < scale; r++ {
		otvoleOn(dK256, r)
		otvoleOn(dP256, r)
	}
}

func otvoleOn[P curves.Point[P, B, S], B algebra.PrimeFieldElement[B], S algebra.PrimeFieldElement[S]](d *ecDesc[P, B, S], r int) {
	rnd := tr.PRand(seed, 4400+uint64(r)+uint64(len(d.g.name)))
	patterns := []string{"zeros", "ones", "alternating", "random"}
	pairs := [][]ID{{1, 2}, {7, 3}, {bigID, 5}, {2, 1000003}}
	n := lim(3, 12)
	for it := 0; it < n; it++ {
		ids := pairs[(it+int(seed))%len(pairs)]
		// the seed batch: VSOT with xi = kappa, one block (what the extension requires), random choices
		if !takeCase("otvole:" + d.g.name) {
			continue
		}
		so, ro := runVSOT(d, softspoken.Kappa, 1, "random", ids)
		// other VSOT shapes
		xi := []int{8, 16, 128, 256}[rnd.IntN(4)]
		l := []int{1, 2, 4}[rnd.IntN(3)]
		runVSOT(d, xi, l, patterns[(it+r)%4], ids)
		if so == nil {
			continue
		}
		// extension: xi * l must be a multiple of 128
		for j := 0; j < lim(2, 3); j++ {
			exi := []int{128, 256, 1024, 2048}[rnd.IntN(lim(3, 4))]
			el := []int{1, 2, 4}[rnd.IntN(3)]
			runSoftSpoken(d.g.name, so, ro, exi, el, patterns[(it+j+1)%4], ids)
		}
		// multiplication
		for j := 0; j < lim(2, 4); j++ {
			L := []int{1, 2, 4}[rnd.IntN(3)]
			kinds := make([]string, L)
			for i := range kinds {
				kinds[i] = []string{"0", "1", "-1", "*", "*"}[rnd.IntN(5)]
			}
			runRVoleSoft(d, so, ro, L, kinds, ids)
		}
	}
}

package prod

// tamper mode (C04 on production curves): Boldyreva threshold BLS. The protocol is non-interactive, so the deviation matrix is over
// ONE message: the deviator's partial signature (a vector of signature-group points, one per share component, and in POP mode a vector
// of proofs of possession). Every component is bound to the matching partial public key by a pairing equation; the aggregator must
// refuse every altered partial signature, blame (at most) its sender, and never hand out a signature that fails verification.
// Alterations keep the points valid (non-identity, in the subgroup), so decoding and Validate cannot be what catches them.

import (
	"fmt"
	"sort"

	"github.com/bronlabs/bron-crypto/pkg/base"
	"github.com/bronlabs/bron-crypto/pkg/base/algebra"
	"github.com/bronlabs/bron-crypto/pkg/base/curves"
	ds "github.com/bronlabs/bron-crypto/pkg/base/datastructures"
	"github.com/bronlabs/bron-crypto/pkg/base/datastructures/hashmap"
	"github.com/bronlabs/bron-crypto/pkg/base/serde"
	"github.com/bronlabs/bron-crypto/pkg/mpc/signatures/bls/boldyreva02"
	blssigning "github.com/bronlabs/bron-crypto/pkg/mpc/signatures/bls/boldyreva02/signing"
	"github.com/bronlabs/bron-crypto/pkg/signatures/bls"

	ad "verif/harness/adapters"
)

func runTamper(stride, startAt int, announce bool) {
	for r := 0; r < scale; r++ {
		devBLSOn(blsShortDesc(), r, 0)
		devBLSOn(blsLongDesc(), r, 1)
	}
}

func blamedIDs(err error) []uint64 {
	out := []uint64{}
	seen := map[ID]bool{}
	for _, id := range base.GetMaliciousIdentities[ID](err) {
		if !seen[id] {
			seen[id] = true
			out = append(out, uint64(id))
		}
	}
	sort.Slice(out, func(i, j int) bool { return out[i] < out[j] })
	return out
}

func devBLSOn[
	PK curves.PairingFriendlyPoint[PK, PKFE, SG, SGFE, E, S], PKFE algebra.FieldElement[PKFE],
	SG curves.PairingFriendlyPoint[SG, SGFE, PK, PKFE, E, S], SGFE algebra.FieldElement[SGFE],
	E algebra.MultiplicativeGroupElement[E], S algebra.PrimeFieldElement[S],
](d *blsDesc[PK, PKFE, SG, SGFE, E, S], r, vi int) {
	// policies: one with single-component shares, the replicated ones (several components per holder)
	names := []string{"th2of3", "cnf3", "cnf4", "gate3"}
	for mi, mode := range blsModes {
		for pi, pn := range names {
			if !thor && (pi+mi+vi+int(seed)+r)%2 == 1 && pn != "cnf3" { // quick tier: cnf3 always, half of the others per (variant, mode, seed)
				continue
			}
			np := policyByName(pn)
			name := fmt.Sprintf("tamper:bls:%s-%s:%s", d.name, mode.name, pn)
			if !want(name) {
				continue
			}
			qs := quorumCases(np, 1, 1, 0, pi+mi+vi+int(seed)+r)
			for qi, q := range qs {
				if !thor && qi > 0 && pn != "cnf3" {
					continue
				}
				blsDevLines(d, mode.name, mode.alg, np, keyFor(d.g, np, (pi+mi+r)%2), q, r)
			}
		}
	}
}

func blsDevLines[
	PK curves.PairingFriendlyPoint[PK, PKFE, SG, SGFE, E, S], PKFE algebra.FieldElement[PKFE],
	SG curves.PairingFriendlyPoint[SG, SGFE, PK, PKFE, E, S], SGFE algebra.FieldElement[SGFE],
	E algebra.MultiplicativeGroupElement[E], S algebra.PrimeFieldElement[S],
](d *blsDesc[PK, PKFE, SG, SGFE, E, S], mode string, alg bls.RogueKeyPreventionAlgorithm, np namedPolicy, km *keyMat[PK, S], q quorumCase, r int) {
	if km.err != "" || q.kind == "unqualified" {
		return
	}
	type psigT = *boldyreva02.PartialSignature[SG, SGFE, PK, PKFE, E, S]
	type sigT = *bls.Signature[SG, SGFE, PK, PKFE, E, S]
	msg := msgOf("short")
	ctxs := sessions(q.ids)
	shards := map[ID]*boldyreva02.Shard[PK, PKFE, SG, SGFE, E, S]{}
	for _, id := range holders(np.Pol) {
		sh, err := d.shard(km.shards[id])
		if err != nil {
			return
		}
		shards[id] = sh
	}
	psigs := map[ID]psigT{}
	other := map[ID]psigT{} // the same cosigners' partial signatures on another message
	for _, id := range q.ids {
		c, err := d.cosigner(ctxs[id], shards[id], alg)
		if err != nil {
			return
		}
		ps, err := c.ProducePartialSignature(msg)
		if err != nil {
			return
		}
		psigs[id] = ps
		c2, err := d.cosigner(ctxs[id], shards[id], alg)
		if err != nil {
			return
		}
		po, err := c2.ProducePartialSignature(otherMessage(msg))
		if err != nil {
			return
		}
		other[id] = po
	}
	sch, err := d.scheme(alg)
	if err != nil {
		panic(err)
	}
	vf, err := sch.Verifier()
	if err != nil {
		panic(err)
	}
	pk := shards[q.ids[0]].PublicKey()
	clone := func(p psigT) psigT {
		back, err := serde.UnmarshalCBOR[psigT](mustCBOR(p))
		if err != nil {
			panic(err)
		}
		return back
	}
	gen := sch.SignatureSubGroup().Generator()
	shift := func(s sigT, neg bool) sigT {
		D := gen
		if neg {
			D = gen.Neg()
		}
		// only the point changes: whatever else the component carries (a proof of possession attached to it) is kept
		out, err := bls.NewSignature(s.Value().Op(D), s.Pop())
		if err != nil {
			panic(err)
		}
		return out
	}
	aggID := q.ids[0]
	for di, dev := range q.ids {
		if !thor && di != (int(seed)+r)%len(q.ids) && di != len(q.ids)-1 {
			continue // quick tier: two deviators per quorum (one rotating, and the last member)
		}
		if dev == aggID && len(q.ids) > 1 {
			// the aggregator is an honest party: build it from another member's public material
			aggID = q.ids[(di+1)%len(q.ids)]
		}
		nComp := len(psigs[dev].SigmaI)
		type alt struct {
			kind string
			f    func(p psigT) bool // false: not applicable
		}
		alts := []alt{
			{"comp0+D", func(p psigT) bool { p.SigmaI[0] = shift(p.SigmaI[0], false); return true }},
			{"compLast+D", func(p psigT) bool {
				if nComp < 2 {
					return false
				}
				p.SigmaI[nComp-1] = shift(p.SigmaI[nComp-1], false)
				return true
			}},
			{"cancel:+D,-D", func(p psigT) bool { // offsets that cancel in the plain sum of the components
				if nComp < 2 {
					return false
				}
				p.SigmaI[0], p.SigmaI[1] = shift(p.SigmaI[0], false), shift(p.SigmaI[1], true)
				return true
			}},
			{"swap01", func(p psigT) bool {
				if nComp < 2 || p.SigmaI[0].Value().Equal(p.SigmaI[1].Value()) {
					return false
				}
				p.SigmaI[0], p.SigmaI[1] = p.SigmaI[1], p.SigmaI[0]
				return true
			}},
			{"otherMessage", func(p psigT) bool { copy(p.SigmaI, clone(other[dev]).SigmaI); return true }},
			{"otherMessage:comp0", func(p psigT) bool {
				if nComp < 2 {
					return false
				}
				p.SigmaI[0] = clone(other[dev]).SigmaI[0]
				return true
			}},
			{"truncate", func(p psigT) bool {
				if nComp < 2 {
					return false
				}
				p.SigmaI = p.SigmaI[:nComp-1]
				if p.SigmaPopI != nil {
					p.SigmaPopI = p.SigmaPopI[:nComp-1]
				}
				return true
			}},
			{"extend", func(p psigT) bool {
				p.SigmaI = append(p.SigmaI, p.SigmaI[0])
				if p.SigmaPopI != nil {
					p.SigmaPopI = append(p.SigmaPopI, p.SigmaPopI[0])
				}
				return true
			}},
			{"pop0+D", func(p psigT) bool {
				if alg != bls.POP || len(p.SigmaPopI) == 0 {
					return false
				}
				p.SigmaPopI[0] = shift(p.SigmaPopI[0], false)
				return true
			}},
			{"pop:cancel:+D,-D", func(p psigT) bool {
				if alg != bls.POP || len(p.SigmaPopI) < 2 {
					return false
				}
				p.SigmaPopI[0], p.SigmaPopI[1] = shift(p.SigmaPopI[0], false), shift(p.SigmaPopI[1], true)
				return true
			}},
			{"pop:isMessageSignature", func(p psigT) bool { // the domain separation between signatures and proofs of possession
				if alg != bls.POP || len(p.SigmaPopI) == 0 {
					return false
				}
				p.SigmaPopI[0] = p.SigmaI[0]
				return true
			}},
		}
		if len(q.ids) > 1 {
			peer := q.ids[(di+1)%len(q.ids)]
			alts = append(alts, alt{"replay:peer", func(p psigT) bool { // another cosigner's (valid) partial signature under the deviator's identity
				if psigs[peer].Equal(p) {
					return false
				}
				c := clone(psigs[peer])
				p.SigmaI, p.SigmaPopI = c.SigmaI, c.SigmaPopI
				return true
			}})
		}
		for _, a := range alts {
			t := clone(psigs[dev])
			if !a.f(t) {
				continue
			}
			name := fmt.Sprintf("tamper:bls:%s-%s:%s:%s:dev=%d:%s", d.name, mode, np.Name, idsName(q.ids), uint64(dev), a.kind)
			if !takeCase(name) {
				continue
			}
			ev := map[string]any{"a": "blsdev", "k": name, "proto": "bls", "variant": d.name + "-" + mode, "group": d.g.name, "polName": np.Name,
				"pol": np.Pol, "quorum": ad.IDsU(q.ids), "dev": uint64(dev), "agg": uint64(aggID), "kind": a.kind, "nComp": nComp,
				"panic": false, "decoded": true, "ok": false, "blamed": []uint64{}, "verifies": false, "err": ""}
			func() {
				defer func() {
					if rec := recover(); rec != nil {
						ev["panic"], ev["err"] = true, fmt.Sprint(rec)
					}
				}()
				// over the wire, as a real aggregator would receive it
				back, err := serde.UnmarshalCBOR[psigT](mustCBOR(t))
				if err != nil {
					ev["decoded"], ev["err"] = false, errChain(err)
					return
				}
				m := hashmap.NewComparable[ID, psigT]()
				for _, id := range q.ids {
					if id == dev {
						m.Put(id, back)
					} else {
						m.Put(id, psigs[id])
					}
				}
				var fm ds.Map[ID, psigT] = m.Freeze()
				ag, err := d.aggr(shards[aggID].PublicKeyMaterial(), alg)
				if err != nil {
					panic(err)
				}
				sig, err := ag.Aggregate(fm, msg)
				if err != nil {
					ev["err"], ev["blamed"] = errChain(err), blamedIDs(err)
					return
				}
				ev["ok"] = true
				ev["verifies"] = vf.Verify(sig, pk, msg) == nil
			}()
			w.Emit(ev)
		}
	}
	_ = blssigning.ErrInvalidArgument
}

func mustCBOR(v any) []byte {
	data, err := serde.MarshalCBOR(v)
	if err != nil {
		panic(err)
	}
	return data
}

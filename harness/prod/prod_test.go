package prod

import (
	"os"
	"testing"
)

// TestMain turns the test binary into the driver: testing.Testing() is true, so the library's size floors are off
// (1024-bit Paillier keys for Lindell17, as in the repository's own tests).
func TestMain(m *testing.M) {
	args := os.Args[1:]
	for i, a := range args {
		if a == "--" {
			args = args[i+1:]
			break
		}
	}
	os.Exit(Main(args))
}

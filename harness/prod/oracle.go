package prod

// (copied from harness/cmd/sigverify/oracle.go, written by the C15 builder, and extended with the Pallas, Vesta and BLS12-381 G1
// parameters and with linear algebra over Z_n)
// Independent oracles: textbook affine short-Weierstrass arithmetic over math/big (secp256k1 and, for the
// recovery identity, P-256), textbook ECDSA verification, BIP-340 verification with its own tagged hash.
// None of this calls into /repo.

import (
	"crypto/sha256"
	"math/big"
)

type wcurve struct {
	P, N, A, B, Gx, Gy *big.Int
}

func hexInt(s string) *big.Int {
	v, ok := new(big.Int).SetString(s, 16)
	if !ok {
		panic("bad hex")
	}
	return v
}

var secp = &wcurve{
	P:  hexInt("FFFFFFFFFFFFFFFFFFFFFFFFFFFFFFFFFFFFFFFFFFFFFFFFFFFFFFFEFFFFFC2F"),
	N:  hexInt("FFFFFFFFFFFFFFFFFFFFFFFFFFFFFFFEBAAEDCE6AF48A03BBFD25E8CD0364141"),
	A:  big.NewInt(0),
	B:  big.NewInt(7),
	Gx: hexInt("79BE667EF9DCBBAC55A06295CE870B07029BFCDB2DCE28D959F2815B16F81798"),
	Gy: hexInt("483ADA7726A3C4655DA4FBFC0E1108A8FD17B448A68554199C47D08FFB10D4B8"),
}

var nistp256 = &wcurve{
	P:  hexInt("FFFFFFFF00000001000000000000000000000000FFFFFFFFFFFFFFFFFFFFFFFF"),
	N:  hexInt("FFFFFFFF00000000FFFFFFFFFFFFFFFFBCE6FAADA7179E84F3B9CAC2FC632551"),
	A:  hexInt("FFFFFFFF00000001000000000000000000000000FFFFFFFFFFFFFFFFFFFFFFFC"),
	B:  hexInt("5AC635D8AA3A93E7B3EBBD55769886BC651D06B0CC53B0F63BCE3C3E27D2604B"),
	Gx: hexInt("6B17D1F2E12C4247F8BCE6E563A440F277037D812DEB33A0F4A13945D898C296"),
	Gy: hexInt("4FE342E2FE1A7F9B8EE7EB4A7C0F9E162BCE33576B315ECECBB6406837BF51F5"),
}

// pallas / vesta: y^2 = x^3 + 5 over the two Pasta primes (each curve's order is the other's base field), generator (-1, 2)
var pastaP = hexInt("40000000000000000000000000000000224698fc094cf91b992d30ed00000001")
var pastaQ = hexInt("40000000000000000000000000000000224698fc0994a8dd8c46eb2100000001")

var pallasC = &wcurve{P: pastaP, N: pastaQ, A: big.NewInt(0), B: big.NewInt(5), Gx: new(big.Int).Sub(pastaP, big.NewInt(1)), Gy: big.NewInt(2)}
var vestaC = &wcurve{P: pastaQ, N: pastaP, A: big.NewInt(0), B: big.NewInt(5), Gx: new(big.Int).Sub(pastaQ, big.NewInt(1)), Gy: big.NewInt(2)}

// BLS12-381 G1: y^2 = x^3 + 4
var blsG1C = &wcurve{
	P:  hexInt("1a0111ea397fe69a4b1ba7b6434bacd764774b84f38512bf6730d2a0f6b0f6241eabfffeb153ffffb9feffffffffaaab"),
	N:  hexInt("73eda753299d7d483339d80809a1d80553bda402fffe5bfeffffffff00000001"),
	A:  big.NewInt(0),
	B:  big.NewInt(4),
	Gx: hexInt("17f1d3a73197d7942695638c4fa9ac0fc3688c4f9774b905a14e3a3f171bac586c55e83ff97a1aeffb3af00adb22c6bb"),
	Gy: hexInt("08b3f481e3aaa0f1a09e30ed741d8ae4fcf5e095d5d00af600db18cb2c04b3edd03cc744a2888ae40caa232946c5e7e1"),
}

// apt is an affine point; inf marks the point at infinity.
type apt struct {
	x, y *big.Int
	inf  bool
}

func (c *wcurve) mod(v *big.Int) *big.Int { return v.Mod(v, c.P) }

func (c *wcurve) onCurve(p apt) bool {
	if p.inf {
		return true
	}
	l := new(big.Int).Mul(p.y, p.y)
	r := new(big.Int).Mul(p.x, p.x)
	r.Mul(r, p.x)
	r.Add(r, new(big.Int).Mul(c.A, p.x))
	r.Add(r, c.B)
	return c.mod(l).Cmp(c.mod(r)) == 0
}

func (c *wcurve) neg(p apt) apt {
	if p.inf {
		return p
	}
	return apt{x: new(big.Int).Set(p.x), y: c.mod(new(big.Int).Neg(p.y))}
}

func (c *wcurve) add(p, q apt) apt {
	if p.inf {
		return q
	}
	if q.inf {
		return p
	}
	var lam *big.Int
	if p.x.Cmp(q.x) == 0 {
		if new(big.Int).Add(p.y, q.y).Mod(new(big.Int).Add(p.y, q.y), c.P).Sign() == 0 {
			return apt{inf: true}
		}
		num := new(big.Int).Mul(p.x, p.x)
		num.Mul(num, big.NewInt(3))
		num.Add(num, c.A)
		den := new(big.Int).Lsh(p.y, 1)
		lam = num.Mul(num, den.ModInverse(den, c.P))
	} else {
		num := new(big.Int).Sub(q.y, p.y)
		den := new(big.Int).Sub(q.x, p.x)
		den.Mod(den, c.P)
		lam = num.Mul(num, den.ModInverse(den, c.P))
	}
	c.mod(lam)
	x := new(big.Int).Mul(lam, lam)
	x.Sub(x, p.x)
	x.Sub(x, q.x)
	c.mod(x)
	y := new(big.Int).Sub(p.x, x)
	y.Mul(y, lam)
	y.Sub(y, p.y)
	c.mod(y)
	return apt{x: x, y: y}
}

func (c *wcurve) mul(k *big.Int, p apt) apt {
	k = new(big.Int).Mod(k, c.N)
	r := apt{inf: true}
	for i := k.BitLen() - 1; i >= 0; i-- {
		r = c.add(r, r)
		if k.Bit(i) == 1 {
			r = c.add(r, p)
		}
	}
	return r
}

func (c *wcurve) gen() apt { return apt{x: c.Gx, y: c.Gy} }

// liftX returns the point with the given x and even y (p = 3 mod 4 for secp256k1), ok=false if none.
func (c *wcurve) liftX(x *big.Int) (apt, bool) {
	if x.Sign() < 0 || x.Cmp(c.P) >= 0 {
		return apt{}, false
	}
	r := new(big.Int).Mul(x, x)
	r.Mul(r, x)
	r.Add(r, new(big.Int).Mul(c.A, x))
	r.Add(r, c.B)
	c.mod(r)
	y := new(big.Int).ModSqrt(r, c.P)
	if y == nil {
		return apt{}, false
	}
	if y.Bit(0) == 1 {
		y.Sub(c.P, y)
	}
	return apt{x: new(big.Int).Set(x), y: y}, true
}

// bits2int of FIPS 186 for a digest no longer than the order (both curves here have 256-bit orders).
func (c *wcurve) digestInt(d []byte) *big.Int {
	if len(d) > 32 {
		d = d[:32]
	}
	return new(big.Int).SetBytes(d)
}

// ecdsaVerify is SEC 1 section 4.1.4, literally.
func (c *wcurve) ecdsaVerify(Q apt, digest []byte, r, s *big.Int) bool {
	if Q.inf || !c.onCurve(Q) {
		return false
	}
	if r.Sign() <= 0 || r.Cmp(c.N) >= 0 || s.Sign() <= 0 || s.Cmp(c.N) >= 0 {
		return false
	}
	z := c.digestInt(digest)
	w := new(big.Int).ModInverse(s, c.N)
	u1 := new(big.Int).Mul(z, w)
	u1.Mod(u1, c.N)
	u2 := new(big.Int).Mul(r, w)
	u2.Mod(u2, c.N)
	X := c.add(c.mul(u1, c.gen()), c.mul(u2, Q))
	if X.inf {
		return false
	}
	return new(big.Int).Mod(X.x, c.N).Cmp(r) == 0
}

// ecdsaRecover is SEC 1 section 4.1.6 for recovery id v (bit 0: y parity, bit 1: x overflow).
func (c *wcurve) ecdsaRecover(digest []byte, r, s *big.Int, v int) (apt, bool) {
	x := new(big.Int).Set(r)
	if v&2 != 0 {
		x.Add(x, c.N)
	}
	R, ok := c.liftX(x)
	if !ok {
		return apt{}, false
	}
	if (v&1 != 0) != (R.y.Bit(0) == 1) {
		R = c.neg(R)
	}
	z := c.digestInt(digest)
	rinv := new(big.Int).ModInverse(r, c.N)
	if rinv == nil {
		return apt{}, false
	}
	sR := c.mul(s, R)
	zG := c.mul(z, c.gen())
	Q := c.mul(rinv, c.add(sR, c.neg(zG)))
	if Q.inf {
		return apt{}, false
	}
	return Q, true
}

func taggedHash(tag string, parts ...[]byte) []byte {
	t := sha256.Sum256([]byte(tag))
	h := sha256.New()
	h.Write(t[:])
	h.Write(t[:])
	for _, p := range parts {
		h.Write(p)
	}
	return h.Sum(nil)
}

func pad32(v *big.Int) []byte { return v.FillBytes(make([]byte, 32)) }

// bip340Verify is the Verify algorithm of BIP-340 on byte strings.
func bip340Verify(pk []byte, msg []byte, sig []byte) bool {
	if len(pk) != 32 || len(sig) != 64 {
		return false
	}
	P, ok := secp.liftX(new(big.Int).SetBytes(pk))
	if !ok {
		return false
	}
	r := new(big.Int).SetBytes(sig[:32])
	s := new(big.Int).SetBytes(sig[32:])
	if r.Cmp(secp.P) >= 0 || s.Cmp(secp.N) >= 0 {
		return false
	}
	e := new(big.Int).SetBytes(taggedHash("BIP0340/challenge", sig[:32], pk, msg))
	e.Mod(e, secp.N)
	R := secp.add(secp.mul(s, secp.gen()), secp.neg(secp.mul(e, P)))
	if R.inf || R.y.Bit(0) == 1 || R.x.Cmp(r) != 0 {
		return false
	}
	return true
}

// ---- linear algebra over Z_n with math/big (independent of pkg/base/mat) ----

// solveMod finds x with A x = b over Z_n (n prime), or nil. A is m x k.
func solveMod(A [][]*big.Int, b []*big.Int, n *big.Int) []*big.Int {
	m := len(A)
	if m == 0 {
		return nil
	}
	k := len(A[0])
	aug := make([][]*big.Int, m)
	for i := range A {
		aug[i] = make([]*big.Int, k+1)
		for j := 0; j < k; j++ {
			aug[i][j] = new(big.Int).Mod(A[i][j], n)
		}
		aug[i][k] = new(big.Int).Mod(b[i], n)
	}
	piv := []int{}
	r := 0
	for c := 0; c < k && r < m; c++ {
		p := -1
		for i := r; i < m; i++ {
			if aug[i][c].Sign() != 0 {
				p = i
				break
			}
		}
		if p < 0 {
			continue
		}
		aug[r], aug[p] = aug[p], aug[r]
		iv := new(big.Int).ModInverse(aug[r][c], n)
		for j := range aug[r] {
			aug[r][j].Mul(aug[r][j], iv).Mod(aug[r][j], n)
		}
		for i := 0; i < m; i++ {
			if i != r && aug[i][c].Sign() != 0 {
				f := new(big.Int).Set(aug[i][c])
				for j := range aug[i] {
					t := new(big.Int).Mul(f, aug[r][j])
					aug[i][j].Sub(aug[i][j], t).Mod(aug[i][j], n)
				}
			}
		}
		piv = append(piv, c)
		r++
	}
	for i := r; i < m; i++ {
		if aug[i][k].Sign() != 0 {
			return nil
		}
	}
	x := make([]*big.Int, k)
	for i := range x {
		x[i] = new(big.Int)
	}
	for i, c := range piv {
		x[c] = aug[i][k]
	}
	return x
}

// spanCoeffs returns w with w * rows = e0 over Z_n (one coefficient per row), or nil if e0 is not in the row space.
func spanCoeffs(rows [][]*big.Int, n *big.Int) []*big.Int {
	if len(rows) == 0 {
		return nil
	}
	cols := len(rows[0])
	T := make([][]*big.Int, cols)
	for j := 0; j < cols; j++ {
		T[j] = make([]*big.Int, len(rows))
		for i := range rows {
			T[j][i] = rows[i][j]
		}
	}
	e0 := make([]*big.Int, cols)
	for j := range e0 {
		e0[j] = new(big.Int)
	}
	e0[0] = big.NewInt(1)
	return solveMod(T, e0, n)
}

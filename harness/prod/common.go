// Package prod runs the protocols that need production curves (DKLs23 with both multipliers, Lindell17, Lindell22 with the BIP-340
// and Mina variants, Boldyreva BLS, the DKGs on the seven prime-order groups, VSOT, the SoftSpoken extension and random VOLE over it)
// with the real participants wrapped as proto.Party machines over CBOR bytes, and logs tokens (equal bytes <=> equal token) and
// relation booleans evaluated by independent oracles. It judges nothing: specs/ProdProto/ProdTrace.tla and specs/ProtoCore decide.
//
// The package is a library with Main(args) so that it can be linked both as a plain binary (cmd/prodproto; the library's size floors
// are on) and as a `go test -c` binary (testing.Testing() is true: 1024-bit Paillier keys for Lindell17 are possible).
package prod

import (
	"context"
	"fmt"
	"io"
	"math/big"
	"sort"
	"time"

	"github.com/bronlabs/bron-crypto/pkg/base/algebra"
	"github.com/bronlabs/bron-crypto/pkg/base/serde"
	"github.com/bronlabs/bron-crypto/pkg/mpc/session"
	"github.com/bronlabs/bron-crypto/pkg/mpc/sharing"
	"github.com/bronlabs/bron-crypto/pkg/mpc/sharing/accessstructures"
	"github.com/bronlabs/bron-crypto/pkg/mpc/sharing/scheme/kw/msp"
	"github.com/bronlabs/bron-crypto/pkg/network"
	ntu "github.com/bronlabs/bron-crypto/pkg/network/testutils"

	ad "verif/harness/adapters"
	"verif/harness/proto"
	"verif/harness/tr"
)

type ID = sharing.ID

var (
	w    *tr.W
	seed uint64
	strm uint64
)

// reader returns a fresh deterministic stream.
func reader() io.Reader { strm++; return tr.Rng(seed, 5000+strm) }

func key(i ID) string { return fmt.Sprint(uint64(i)) }

// tok interns the canonical CBOR encoding of a value (the bytes a peer would receive).
func tok(v any) int {
	data, err := serde.MarshalCBOR(v)
	if err != nil {
		panic(fmt.Sprintf("tok: %v", err))
	}
	return proto.Tok(data)
}

func big2(v interface{ Cardinal() algebra.Cardinal }) *big.Int { return v.Cardinal().Big() }

// ---- policies -------------------------------------------------------------------------------------------------------------

type namedPolicy struct {
	Name string
	Pol  *ad.Policy
}

// bigID is a shareholder identifier just below 2^31 (TLC integers are 32 bit).
const bigID = 2147483629

func policies() []namedPolicy {
	return []namedPolicy{
		{"th2of2", &ad.Policy{Kind: "threshold", T: 2, IDs: []uint64{1, 2}}},
		{"th2of3", &ad.Policy{Kind: "threshold", T: 2, IDs: []uint64{1, 2, 3}}},
		{"th3of5", &ad.Policy{Kind: "threshold", T: 3, IDs: []uint64{1, 2, 3, 4, 5}}},
		{"th2of3sparse", &ad.Policy{Kind: "threshold", T: 2, IDs: []uint64{bigID, 7, 1000003}}}, // unsorted, sparse, large
		{"unan3", &ad.Policy{Kind: "unanimity", IDs: []uint64{5, 2, 9}}},
		// replicated 2-of-3: maximal unqualified sets {1},{2},{3}; every holder owns two rows and any two holders hold one EQUAL share
		// component (holder i gets r_j for every j # i)
		{"cnf3", &ad.Policy{Kind: "cnf", IDs: []uint64{1, 2, 3}, MUS: [][]uint64{{1}, {2}, {3}}}},
		// maximal unqualified sets {1,2},{3,4},{1,4}: holders 2 and 3 own two MSP rows each (non-ideal)
		{"cnf4", &ad.Policy{Kind: "cnf", IDs: []uint64{1, 2, 3, 4}, MUS: [][]uint64{{1, 2}, {3, 4}, {1, 4}}}},
		// 2-of-(1, 2, AND(3, 1)): holder 1 appears in two leaves
		{"gate3", &ad.Policy{Kind: "gate", IDs: []uint64{1, 2, 3}, Tree: &ad.Gate{T: 2, Kids: []*ad.Gate{{ID: 1}, {ID: 2}, {T: 2, Kids: []*ad.Gate{{ID: 3}, {ID: 1}}}}}}},
		{"hier4", &ad.Policy{Kind: "hier", IDs: []uint64{1, 2, 3, 4}, Levels: []ad.Level{{T: 1, IDs: []uint64{1, 2}}, {T: 2, IDs: []uint64{3, 4}}}}},
	}
}

func policyByName(n string) namedPolicy {
	for _, p := range policies() {
		if p.Name == n {
			return p
		}
	}
	panic("unknown policy " + n)
}

func holders(p *ad.Policy) []ID {
	out := make([]ID, len(p.IDs))
	for i, u := range p.IDs {
		out[i] = ID(u)
	}
	sort.Slice(out, func(i, j int) bool { return out[i] < out[j] })
	return out
}

func subsetsOf(ids []ID) [][]ID {
	out := [][]ID{}
	for m := 1; m < 1<<len(ids); m++ {
		s := []ID{}
		for i, id := range ids {
			if m&(1<<i) != 0 {
				s = append(s, id)
			}
		}
		out = append(out, s)
	}
	return out
}

// quorumsOf: the minimal qualified sets, one non-minimal qualified set (if any) and the unqualified sets of at least `min` parties.
func quorumsOf(as accessstructures.Monotone, ids []ID, min int) (minimal, nonMinimal, unqualified [][]ID) {
	subs := subsetsOf(ids)
	isQ := func(s []ID) bool { return as.IsQualified(s...) }
	for _, s := range subs {
		if len(s) < min {
			continue
		}
		if !isQ(s) {
			unqualified = append(unqualified, s)
			continue
		}
		isMin := true
		for drop := range s {
			t := append(append([]ID{}, s[:drop]...), s[drop+1:]...)
			if len(t) > 0 && isQ(t) {
				isMin = false
			}
		}
		if isMin {
			minimal = append(minimal, s)
		} else {
			nonMinimal = append(nonMinimal, s)
		}
	}
	return
}

// ---- group descriptors ----------------------------------------------------------------------------------------------------

// groupDesc describes a prime-order group: the library structure, and (where the harness has one) the independent math/big
// short-Weierstrass model together with the projection of a library element to affine coordinates.
type groupDesc[G algebra.PrimeGroupElement[G, S], S algebra.PrimeFieldElement[S]] struct {
	name  string
	group algebra.PrimeGroup[G, S]
	model *wcurve
	aff   func(G) apt
	genEq func(k *big.Int, e G) bool // independent decision of [k]G == e where the model is not a wcurve (G2: math/big over Fp2)
}

// mulGenEq decides [k]G == e: by the math/big model when there is one (indep = true), otherwise by the library's own arithmetic.
func (g *groupDesc[G, S]) mulGenEq(k *big.Int, e G) (eq, indep bool) {
	if g.genEq != nil {
		return g.genEq(k, e), true
	}
	if g.model != nil {
		want := g.model.mul(k, g.model.gen())
		got := g.aff(e)
		if !g.model.onCurve(got) {
			return false, true
		}
		if want.inf || got.inf {
			return want.inf == got.inf, true
		}
		return want.x.Cmp(got.x) == 0 && want.y.Cmp(got.y) == 0, true
	}
	sf := g.group.ScalarStructure().(algebra.PrimeField[S])
	sc, err := sf.FromBytesBEReduce(k.Bytes())
	if err != nil {
		panic(err)
	}
	return g.group.Generator().ScalarOp(sc).Equal(e), false
}

// ---- MSP as big integers --------------------------------------------------------------------------------------------------

type bigMSP struct {
	rows [][]*big.Int
	lab  []ID
	n    *big.Int
}

func mspBig[S algebra.PrimeFieldElement[S]](m *msp.MSP[S]) *bigMSP {
	r, c := m.Matrix().Dimensions()
	out := &bigMSP{n: m.BaseField().Order().Big()}
	for i := 0; i < r; i++ {
		row := make([]*big.Int, c)
		for j := 0; j < c; j++ {
			v, err := m.Matrix().Get(i, j)
			if err != nil {
				panic(err)
			}
			row[j] = big2(v)
		}
		h, _ := m.RowsToHolders().Get(i)
		out.rows = append(out.rows, row)
		out.lab = append(out.lab, h)
	}
	return out
}

// rowsOf returns the indices of the rows owned by members of set, ascending.
func (b *bigMSP) rowsOf(set []ID) []int {
	in := map[ID]bool{}
	for _, s := range set {
		in[s] = true
	}
	out := []int{}
	for k, h := range b.lab {
		if in[h] {
			out = append(out, k)
		}
	}
	return out
}

// reconstruct: independent reconstruction of the secret from the share components of `set` (shares[id][a] belongs to the a-th row
// owned by id, ascending row order). ok = false when e0 is not in the span of the rows of `set`.
func (b *bigMSP) reconstruct(set []ID, shares map[ID][]*big.Int) (*big.Int, bool) {
	idx := b.rowsOf(set)
	rows := make([][]*big.Int, len(idx))
	for i, k := range idx {
		rows[i] = b.rows[k]
	}
	wv := spanCoeffs(rows, b.n)
	if wv == nil {
		return nil, false
	}
	seen := map[ID]int{}
	x := new(big.Int)
	for i, k := range idx {
		h := b.lab[k]
		a := seen[h]
		seen[h]++
		x.Add(x, new(big.Int).Mul(wv[i], shares[h][a]))
	}
	return x.Mod(x, b.n), true
}

func (b *bigMSP) maxRowsPerHolder() int {
	cnt := map[ID]int{}
	m := 0
	for _, h := range b.lab {
		cnt[h]++
		if cnt[h] > m {
			m = cnt[h]
		}
	}
	return m
}

// ---- runners --------------------------------------------------------------------------------------------------------------

// runRunners executes network.Runner values over real Routers and the repository's in-memory coordinator.
func runRunners[O any](ids []ID, mk func(id ID) (network.Runner[O], error)) (map[ID]O, map[ID]error, error) {
	coord := ntu.NewMockCoordinator(ids...)
	type res struct {
		id  ID
		out O
		err error
	}
	ch := make(chan res, len(ids))
	rs := map[ID]network.Runner[O]{}
	for _, id := range ids {
		r, err := mk(id)
		if err != nil {
			return nil, nil, err
		}
		rs[id] = r
	}
	for _, id := range ids {
		go func(id ID, r network.Runner[O]) {
			rt := network.NewRouter(coord.DeliveryFor(id))
			defer rt.Close()
			ctx, cancel := context.WithTimeout(context.Background(), 20*time.Minute)
			defer cancel()
			o, err := r.Run(ctx, rt, nil)
			ch <- res{id, o, err}
		}(id, rs[id])
	}
	out := map[ID]O{}
	errsBy := map[ID]error{}
	for range ids {
		r := <-ch
		if r.err != nil {
			errsBy[r.id] = r.err
		} else {
			out[r.id] = r.out
		}
	}
	return out, errsBy, nil
}

// sessions runs the real session-setup protocol among ids.
func sessions(ids []ID) map[ID]*session.Context {
	ctxs, err := ad.SetupSessions(ids, func(ID) io.Reader { return reader() })
	if err != nil {
		panic(err)
	}
	return ctxs
}

// sessionsRunner does the same through the runner API.
func sessionsRunner(ids []ID) map[ID]*session.Context {
	out, errsBy, err := runRunners(ids, func(id ID) (network.Runner[*session.Context], error) {
		return session.NewSessionRunner(id, ad.IDSet(ids...), reader())
	})
	if err != nil || len(errsBy) > 0 {
		panic(fmt.Sprintf("session runner: %v %v", err, errsBy))
	}
	return out
}

func rejectsJ(rs []proto.Reject) []any {
	out := []any{}
	for _, r := range rs {
		out = append(out, map[string]any{"party": uint64(r.Party), "round": r.Round, "blamed": ad.IDsU(r.Blamed), "abort": r.Abort, "panic": r.Panic,
			"timeout": r.Timeout, "decode": r.Decode, "err": r.Err})
	}
	return out
}

func errStr(err error) string {
	if err == nil {
		return ""
	}
	s := err.Error()
	if len(s) > 200 {
		s = s[:200]
	}
	return s
}

// messages of the three sizes the brief asks for; `allowEmpty` per scheme.
func testMessages(allowEmpty bool) [][]byte {
	kib := make([]byte, 1024)
	io.ReadFull(tr.Rng(seed, 77), kib)
	out := [][]byte{[]byte("short message"), kib}
	if allowEmpty {
		out = append([][]byte{{}}, out...)
	}
	return out
}

func otherMessage(m []byte) []byte { return append([]byte("other:"), m...) }

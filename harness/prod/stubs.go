package prod

func runSign()                                          {}
func runOTVole()                                        {}
func runTamper(stride, startAt int, announce bool)      {}

package prod

// tamper mode (C04 on production curves) is not built: see the ProdProto report.
func runTamper(stride, startAt int, announce bool) {}

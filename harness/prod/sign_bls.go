package prod

// Boldyreva threshold BLS on BLS12-381: short keys (keys in G1, signatures in G2) and long keys (keys in G2, signatures in G1), with the
// three rogue-key modes of the API (basic, message augmentation, proof of possession). Non-interactive: every cosigner produces
// a partial signature, an aggregator checks and combines them. There is no runner API for this protocol.

import (
	"fmt"
	"math/big"

	"github.com/bronlabs/bron-crypto/pkg/base/algebra"
	"github.com/bronlabs/bron-crypto/pkg/base/curves"
	"github.com/bronlabs/bron-crypto/pkg/base/curves/pairable"
	"github.com/bronlabs/bron-crypto/pkg/base/curves/pairable/bls12381"
	ds "github.com/bronlabs/bron-crypto/pkg/base/datastructures"
	"github.com/bronlabs/bron-crypto/pkg/base/datastructures/hashmap"
	"github.com/bronlabs/bron-crypto/pkg/base/serde"
	"github.com/bronlabs/bron-crypto/pkg/mpc"
	"github.com/bronlabs/bron-crypto/pkg/mpc/session"
	"github.com/bronlabs/bron-crypto/pkg/mpc/signatures/bls/boldyreva02"
	blskeygen "github.com/bronlabs/bron-crypto/pkg/mpc/signatures/bls/boldyreva02/keygen"
	blssigning "github.com/bronlabs/bron-crypto/pkg/mpc/signatures/bls/boldyreva02/signing"
	"github.com/bronlabs/bron-crypto/pkg/signatures/bls"

	ad "verif/harness/adapters"
)

var blsModes = []struct {
	name string
	alg  bls.RogueKeyPreventionAlgorithm
}{{"basic", bls.Basic}, {"aug", bls.MessageAugmentation}, {"pop", bls.POP}}

// blsDesc is one key variant; closures keep the two constructor families (short / long) apart.
type blsDesc[
	PK curves.PairingFriendlyPoint[PK, PKFE, SG, SGFE, E, S], PKFE algebra.FieldElement[PKFE],
	SG curves.PairingFriendlyPoint[SG, SGFE, PK, PKFE, E, S], SGFE algebra.FieldElement[SGFE],
	E algebra.MultiplicativeGroupElement[E], S algebra.PrimeFieldElement[S],
] struct {
	name     string
	g        *groupDesc[PK, S] // key group
	shard    func(b *mpc.BaseShard[PK, S]) (*boldyreva02.Shard[PK, PKFE, SG, SGFE, E, S], error)
	cosigner func(ctx *session.Context, sh *boldyreva02.Shard[PK, PKFE, SG, SGFE, E, S], alg bls.RogueKeyPreventionAlgorithm) (*blssigning.Cosigner[PK, PKFE, SG, SGFE, E, S], error)
	aggr     func(pm *boldyreva02.PublicMaterial[PK, PKFE, SG, SGFE, E, S], alg bls.RogueKeyPreventionAlgorithm) (*blssigning.Aggregator[PK, PKFE, SG, SGFE, E, S], error)
	scheme   func(alg bls.RogueKeyPreventionAlgorithm) (*bls.Scheme[PK, PKFE, SG, SGFE, E, S], error)
	// [x] H known-secret identity: independent (math/big) where the harness has a model of the signature group
	xH func(x *big.Int, h SG, sigma SG) (eq, indep bool)
}

type (
	tG1  = *bls12381.PointG1
	tF1  = *bls12381.BaseFieldElementG1
	tG2  = *bls12381.PointG2
	tF2  = *bls12381.BaseFieldElementG2
	tGt  = *bls12381.GtElement
	tBSc = *bls12381.Scalar
)

func scalarOfBig(x *big.Int) tBSc {
	sc, err := bls12381.NewScalarField().FromBytesBEReduce(x.Bytes())
	if err != nil {
		panic(err)
	}
	return sc
}

func blsShortDesc() *blsDesc[tG1, tF1, tG2, tF2, tGt, tBSc] {
	fam := pairable.NewBLS12381()
	return &blsDesc[tG1, tF1, tG2, tF2, tGt, tBSc]{
		name: "short", g: gG1,
		shard: func(b *mpc.BaseShard[tG1, tBSc]) (*boldyreva02.Shard[tG1, tF1, tG2, tF2, tGt, tBSc], error) {
			return blskeygen.NewShortKeyShard[tG1, tF1, tG2, tF2, tGt, tBSc](b)
		},
		cosigner: func(ctx *session.Context, sh *boldyreva02.Shard[tG1, tF1, tG2, tF2, tGt, tBSc], alg bls.RogueKeyPreventionAlgorithm) (*blssigning.Cosigner[tG1, tF1, tG2, tF2, tGt, tBSc], error) {
			return blssigning.NewShortKeyCosigner(ctx, fam, sh, alg)
		},
		aggr: func(pm *boldyreva02.PublicMaterial[tG1, tF1, tG2, tF2, tGt, tBSc], alg bls.RogueKeyPreventionAlgorithm) (*blssigning.Aggregator[tG1, tF1, tG2, tF2, tGt, tBSc], error) {
			return blssigning.NewShortKeyAggregator(fam, pm, alg)
		},
		scheme: func(alg bls.RogueKeyPreventionAlgorithm) (*bls.Scheme[tG1, tF1, tG2, tF2, tGt, tBSc], error) {
			return bls.NewShortKeyScheme(fam, alg)
		},
		// signatures in G2: the math/big Fp2 model
		xH: func(x *big.Int, h tG2, sigma tG2) (bool, bool) {
			return g2MulEq(x, h, sigma), true
		},
	}
}

func blsLongDesc() *blsDesc[tG2, tF2, tG1, tF1, tGt, tBSc] {
	fam := pairable.NewBLS12381()
	return &blsDesc[tG2, tF2, tG1, tF1, tGt, tBSc]{
		name: "long", g: gG2,
		shard: func(b *mpc.BaseShard[tG2, tBSc]) (*boldyreva02.Shard[tG2, tF2, tG1, tF1, tGt, tBSc], error) {
			return blskeygen.NewLongKeyShard[tG2, tF2, tG1, tF1, tGt, tBSc](b)
		},
		cosigner: func(ctx *session.Context, sh *boldyreva02.Shard[tG2, tF2, tG1, tF1, tGt, tBSc], alg bls.RogueKeyPreventionAlgorithm) (*blssigning.Cosigner[tG2, tF2, tG1, tF1, tGt, tBSc], error) {
			return blssigning.NewLongKeyCosigner(ctx, fam, sh, alg)
		},
		aggr: func(pm *boldyreva02.PublicMaterial[tG2, tF2, tG1, tF1, tGt, tBSc], alg bls.RogueKeyPreventionAlgorithm) (*blssigning.Aggregator[tG2, tF2, tG1, tF1, tGt, tBSc], error) {
			return blssigning.NewLongKeyAggregator(fam, pm, alg)
		},
		scheme: func(alg bls.RogueKeyPreventionAlgorithm) (*bls.Scheme[tG2, tF2, tG1, tF1, tGt, tBSc], error) {
			return bls.NewLongKeyScheme(fam, alg)
		},
		// signatures in G1: [x]H on the math/big model of G1
		xH: func(x *big.Int, h tG1, sigma tG1) (bool, bool) {
			want := blsG1C.mul(x, gG1.aff(h))
			got := gG1.aff(sigma)
			if want.inf || got.inf {
				return want.inf == got.inf, true
			}
			return blsG1C.onCurve(got) && want.x.Cmp(got.x) == 0 && want.y.Cmp(got.y) == 0, true
		},
	}
}

// planBLS: pairings cost tens of milliseconds each in the pure-Go build and one run verifies every partial-signature component in
// every aggregator, so the quick tier thins the matrix: of the three replicated policies one (rotating with the variant/mode
// combination and the seed) gets EVERY qualified quorum - on a dealt key for the short-key combinations and on a Gennaro key for
// the long-key ones, alternating with the seed - the other two a minimal and a non-minimal one, the remaining policies one
// minimal and one unqualified quorum. The thorough tier runs the full planCheap matrix.
func planBLS(combo, r int) []planItem {
	if thor {
		return planCheap(combo+r, nil)
	}
	out := []planItem{}
	full := replicatedPolicies[(combo+int(seed)+r)%len(replicatedPolicies)]
	src := ((combo / 3) + int(seed) + r) % 2
	for pi, np := range rotatedPolicies(combo + r) {
		rot := pi + combo + int(seed)
		switch {
		case np.Name == full:
			for qi, q := range quorumCases(np, -1, 0, 2, rot) {
				out = append(out, planItem{np: np, q: q, srcIdx: src, pi: pi, qi: qi, rich: true})
			}
		case isReplicated(np):
			for qi, q := range quorumCases(np, 1, 0, 1, rot) {
				out = append(out, planItem{np: np, q: q, srcIdx: 1 - src, pi: pi, qi: qi})
			}
		default:
			if (pi+combo+int(seed))%2 == 1 { // every second of the other policies (all of them over the six combinations / two seeds)
				continue
			}
			for qi, q := range quorumCases(np, 1, 0, 1, rot) {
				out = append(out, planItem{np: np, q: q, srcIdx: pi + combo + int(seed), pi: pi, qi: qi})
			}
		}
	}
	return out
}

func signBLS(r int) {
	signBLSOn(blsShortDesc(), r, 0)
	signBLSOn(blsLongDesc(), r, 1)
}

func signBLSOn[
	PK curves.PairingFriendlyPoint[PK, PKFE, SG, SGFE, E, S], PKFE algebra.FieldElement[PKFE],
	SG curves.PairingFriendlyPoint[SG, SGFE, PK, PKFE, E, S], SGFE algebra.FieldElement[SGFE],
	E algebra.MultiplicativeGroupElement[E], S algebra.PrimeFieldElement[S],
](d *blsDesc[PK, PKFE, SG, SGFE, E, S], r, vi int) {
	for mi, mode := range blsModes {
		for _, it := range planBLS(vi*3+mi, r) {
			msgClass := []string{"short", "kib", "short", "kib", "empty"}[(it.pi+it.qi+r+mi)%5]
			name := fmt.Sprintf("sign:bls:%s-%s:%s:%s", d.name, mode.name, it.np.Name, it.q.kind)
			if !takeCase(name) {
				continue
			}
			blsLine(d, mode.name, mode.alg, it.np, keyFor(d.g, it.np, it.srcIdx), it.q, msgClass, it.rich || thor)
		}
	}
}

func blsLine[
	PK curves.PairingFriendlyPoint[PK, PKFE, SG, SGFE, E, S], PKFE algebra.FieldElement[PKFE],
	SG curves.PairingFriendlyPoint[SG, SGFE, PK, PKFE, E, S], SGFE algebra.FieldElement[SGFE],
	E algebra.MultiplicativeGroupElement[E], S algebra.PrimeFieldElement[S],
](d *blsDesc[PK, PKFE, SG, SGFE, E, S], mode string, alg bls.RogueKeyPreventionAlgorithm, np namedPolicy, km *keyMat[PK, S], q quorumCase, msgClass string, rich bool) {
	ev := newSignEv("bls", d.name+"-"+mode, d.g.name, np, km.src, q, "rounds", msgClass)
	defer func() { w.Emit(ev) }()
	if km.err != "" {
		ev["keyErr"] = km.err
		return
	}
	msg := msgOf(msgClass)
	ctxs := sessions(q.ids)
	as, err := np.Pol.Build()
	if err != nil {
		panic(err)
	}
	shards := map[ID]*boldyreva02.Shard[PK, PKFE, SG, SGFE, E, S]{}
	for _, id := range holders(np.Pol) {
		sh, err := d.shard(km.shards[id])
		if err != nil {
			ev["keyErr"], ev["class"] = errStr(err), "degenerate"
			return
		}
		shards[id] = sh
	}
	cos := map[ID]*blssigning.Cosigner[PK, PKFE, SG, SGFE, E, S]{}
	for _, id := range q.ids {
		c, err := d.cosigner(ctxs[id], shards[id], alg)
		ev["ctor"] = append(ev["ctor"].([]any), ctorJ(id, err))
		cos[id] = c
	}
	if !allCtorOK(ev) {
		return
	}
	ev["started"] = true
	type psigT = *boldyreva02.PartialSignature[SG, SGFE, PK, PKFE, E, S]
	psigs := map[ID]psigT{}
	rej := []any{}
	done := []ID{}
	for _, id := range q.ids {
		ps, err := cos[id].ProducePartialSignature(msg)
		if err != nil {
			rej = append(rej, map[string]any{"party": uint64(id), "round": 1, "blamed": []uint64{}, "abort": false, "panic": false, "timeout": false, "decode": false, "err": errChain(err)})
			continue
		}
		data, err := serde.MarshalCBOR(ps)
		if err != nil {
			panic(err)
		}
		back, err := serde.UnmarshalCBOR[psigT](data)
		if err != nil {
			rej = append(rej, map[string]any{"party": uint64(id), "round": 1, "blamed": []uint64{}, "abort": false, "panic": false, "timeout": false, "decode": true, "err": errChain(err)})
			continue
		}
		psigs[id] = back
		done = append(done, id)
	}
	ev["rejects"], ev["completed"] = rej, ad.IDsU(done)
	if len(rej) > 0 {
		ev["stop"] = 1
		return
	}
	toMap := func(ids []ID) ds.Map[ID, psigT] {
		m := hashmap.NewComparable[ID, psigT]()
		for _, id := range ids {
			m.Put(id, psigs[id])
		}
		return m.Freeze()
	}
	// every cosigner's public material yields an aggregator (quick tier: the first and the last member's); all must produce the
	// same signature
	var first *bls.Signature[SG, SGFE, PK, PKFE, E, S]
	aggIDs := q.ids
	if !thor && len(aggIDs) > 2 {
		aggIDs = []ID{q.ids[0], q.ids[len(q.ids)-1]}
	}
	if !rich {
		aggIDs = aggIDs[:1]
	}
	ev["nAgg"] = len(aggIDs)
	for _, id := range aggIDs {
		who := fmt.Sprintf("agg:%d", id)
		a, err := d.aggr(shards[id].PublicKeyMaterial(), alg)
		if err != nil {
			addOut(ev, who, 0, err)
			continue
		}
		sig, err := a.Aggregate(toMap(q.ids), msg)
		if err != nil {
			addOut(ev, who, 0, err)
			continue
		}
		addOut(ev, who, tok(sig), nil)
		if first == nil {
			first = sig
		}
	}
	// a third party (a holder outside the quorum, if any) aggregates every sub-collection of the partial signatures: BLS signatures
	// are unique, so every qualified sub-collection must give the same signature and every unqualified one must be refused
	outsider := q.ids[0]
	for _, h := range holders(np.Pol) {
		in := false
		for _, id := range q.ids {
			in = in || id == h
		}
		if !in {
			outsider = h
			break
		}
	}
	subs := []any{}
	qualifiedTried := 0
	if a, err := d.aggr(shards[outsider].PublicKeyMaterial(), alg); err == nil {
		for _, s := range subsetsOf(sortedIDs(q.ids)) {
			// an unqualified sub-collection is refused before any pairing is computed; of the qualified ones (each costs the
			// verification of all its members) those that drop exactly one member are tried
			if len(s) == len(q.ids) || (as.IsQualified(s...) && len(s) != len(q.ids)-1) {
				continue
			}
			if as.IsQualified(s...) {
				if !rich || (!thor && qualifiedTried >= 1) { // quick tier: one qualified sub-collection per rich run
					continue
				}
				qualifiedTried++
			}
			sig, err := a.Aggregate(toMap(s), msg)
			row := map[string]any{"set": ad.IDsU(s), "ok": err == nil, "tok": 0}
			if err == nil {
				row["tok"] = tok(sig)
			}
			subs = append(subs, row)
		}
	}
	ev["subAgg"] = subs
	if first == nil {
		return
	}
	sch, err := d.scheme(alg)
	if err != nil {
		panic(err)
	}
	vf, err := sch.Verifier()
	if err != nil {
		panic(err)
	}
	pk := shards[q.ids[0]].PublicKey()
	other := otherMessage(msg)
	ev["verify_lib"] = vf.Verify(first, pk, msg) == nil
	ev["verify_other_lib"] = vf.Verify(first, pk, other) == nil
	// known-secret identity sigma = [x] H_dst(m') with the library's hash-to-curve (C19) and the independently reconstructed x;
	// m' = pk || m under message augmentation; with proofs of possession also pop = [x] H_pop(pk)
	dst, err := sch.CipherSuite().GetDst(alg, sch.Variant())
	if err != nil {
		panic(err)
	}
	hashTo := func(dst string, m []byte) SG {
		h, err := sch.SignatureSubGroup().HashWithDst(dst, m)
		if err != nil {
			panic(err)
		}
		return h
	}
	proc := func(m []byte) []byte {
		if alg == bls.MessageAugmentation {
			return append(append([]byte{}, pk.Value().Bytes()...), m...)
		}
		return m
	}
	eq, indep := d.xH(km.x, hashTo(dst, proc(msg)), first.Value())
	eqOther, _ := d.xH(km.x, hashTo(dst, proc(other)), first.Value())
	popOK := true
	if alg == bls.POP {
		popOK = first.Pop() != nil
		if popOK {
			popOK, _ = d.xH(km.x, hashTo(sch.CipherSuite().GetPopDst(sch.Variant()), pk.Value().Bytes()), first.Pop().Value())
		}
	}
	ev["verify_indep"], ev["verify_other_indep"], ev["popOK"], ev["indepArith"] = eq, eqOther, popOK, indep
	ev["indep"] = "sigma = [x] H(m) (x reconstructed with math/big; scalar multiplication on the math/big model; hash-to-curve from the library)"
	pkEq, _ := d.g.mulGenEq(km.x, pk.Value())
	ev["pkIsXG"] = pkEq
	ev["signed"] = true
}

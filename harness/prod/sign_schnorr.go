package prod

// Lindell22 threshold Schnorr with the BIP-340 (secp256k1), Mina (Pallas) and generic Schnorr variants (secp256k1, P-256, the prime
// subgroup of edwards25519 in the configuration that is Ed25519's verification equation).

import (
	stded "crypto/ed25519"
	"crypto/sha256"
	"crypto/sha512"
	"fmt"
	"hash"
	"math/big"
	"slices"

	"github.com/bronlabs/bron-crypto/pkg/base/algebra"
	"github.com/bronlabs/bron-crypto/pkg/base/curves/k256"
	"github.com/bronlabs/bron-crypto/pkg/base/curves/pasta"
	ds "github.com/bronlabs/bron-crypto/pkg/base/datastructures"
	"github.com/bronlabs/bron-crypto/pkg/base/datastructures/hashmap"
	"github.com/bronlabs/bron-crypto/pkg/base/serde"
	"github.com/bronlabs/bron-crypto/pkg/mpc/session"
	mpcschnorr "github.com/bronlabs/bron-crypto/pkg/mpc/signatures/schnorr"
	"github.com/bronlabs/bron-crypto/pkg/mpc/signatures/schnorr/lindell22"
	l22keygen "github.com/bronlabs/bron-crypto/pkg/mpc/signatures/schnorr/lindell22/keygen"
	l22signing "github.com/bronlabs/bron-crypto/pkg/mpc/signatures/schnorr/lindell22/signing"
	"github.com/bronlabs/bron-crypto/pkg/network"
	"github.com/bronlabs/bron-crypto/pkg/proofs/sigma/compiler"
	"github.com/bronlabs/bron-crypto/pkg/proofs/sigma/compiler/fiatshamir"
	"github.com/bronlabs/bron-crypto/pkg/proofs/sigma/compiler/fischlin"
	"github.com/bronlabs/bron-crypto/pkg/signatures/schnorrlike"
	"github.com/bronlabs/bron-crypto/pkg/signatures/schnorrlike/bip340"
	"github.com/bronlabs/bron-crypto/pkg/signatures/schnorrlike/mina"
	vanilla "github.com/bronlabs/bron-crypto/pkg/signatures/schnorrlike/schnorr"

	"verif/harness/proto"
)

type l22Party[GE algebra.PrimeGroupElement[GE, S], S algebra.PrimeFieldElement[S], M schnorrlike.Message] struct {
	id   ID
	c    *l22signing.Cosigner[GE, S, M]
	msg  M
	psig *lindell22.PartialSignature[GE, S]
}

func (l *l22Party[GE, S, M]) ID() ID      { return l.id }
func (l *l22Party[GE, S, M]) Rounds() int { return 3 }
func (l *l22Party[GE, S, M]) Round(k int, inB, inU map[ID][]byte) ([]byte, map[ID][]byte, error) {
	switch k {
	case 1:
		b, u, err := l.c.Round1()
		if err != nil {
			return nil, nil, err
		}
		return proto.Enc(b), proto.EncMap(u), nil
	case 2:
		b1, err := proto.DecMap[*l22signing.Round1Broadcast[GE, S, M]](inB)
		if err != nil {
			return nil, nil, err
		}
		u1, err := proto.DecMap[*l22signing.Round1P2P[GE, S, M]](inU)
		if err != nil {
			return nil, nil, err
		}
		b, err := l.c.Round2(b1, u1)
		if err != nil {
			return nil, nil, err
		}
		return proto.Enc(b), nil, nil
	case 3:
		b2, err := proto.DecMap[*l22signing.Round2Broadcast[GE, S, M]](inB)
		if err != nil {
			return nil, nil, err
		}
		ps, err := l.c.Round3(b2, l.msg)
		if err != nil {
			return nil, nil, err
		}
		l.psig = ps
		return nil, nil, nil
	}
	panic("lindell22: bad round")
}

type psigMap[GE algebra.PrimeGroupElement[GE, S], S algebra.PrimeFieldElement[S]] = ds.Map[ID, *lindell22.PartialSignature[GE, S]]

// l22Desc is one Schnorr variant; the closures keep the scheme's concrete type out of the generic driver.
type l22Desc[GE algebra.PrimeGroupElement[GE, S], S algebra.PrimeFieldElement[S], M schnorrlike.Message] struct {
	name       string
	g          *groupDesc[GE, S]
	allowEmpty bool
	variant    func() mpcschnorr.MPCFriendlyVariant[GE, S, M] // a fresh variant (own randomness) for one cosigner
	mkMsg      func(b []byte) M
	// aggregator for the public material, cosigning when cos != nil
	agg    func(pm *lindell22.PublicMaterial[GE, S], cos *l22signing.Cosigner[GE, S, M]) (func(psigMap[GE, S], M) (*schnorrlike.Signature[GE, S], error), error)
	verify func(sig *schnorrlike.Signature[GE, S], pk *schnorrlike.PublicKey[GE, S], m M) error
	// independent verification on bytes / math/big; `kind` names the oracle
	indep func(sig *schnorrlike.Signature[GE, S], pkv GE, msg []byte) (ok bool, kind string)
}

func x32(p *k256.Point) []byte { return p.ToCompressed()[1:] }

// schnorrEq decides s G = R + e P on the math/big model.
func schnorrEq(m *wcurve, s, e *big.Int, R, P apt) bool {
	if !m.onCurve(R) || !m.onCurve(P) || R.inf || P.inf {
		return false
	}
	l := m.mul(s, m.gen())
	r := m.add(R, m.mul(e, P))
	if l.inf || r.inf {
		return l.inf == r.inf
	}
	return l.x.Cmp(r.x) == 0 && l.y.Cmp(r.y) == 0
}

func bip340Desc() *l22Desc[*k256.Point, *k256.Scalar, []byte] {
	mk := func() *bip340.Scheme {
		s, err := bip340.NewScheme(reader())
		if err != nil {
			panic(err)
		}
		return s
	}
	return &l22Desc[*k256.Point, *k256.Scalar, []byte]{
		name: "bip340", g: gK256, allowEmpty: true,
		variant: func() mpcschnorr.MPCFriendlyVariant[*k256.Point, *k256.Scalar, []byte] { return mk().Variant() },
		mkMsg:   func(b []byte) []byte { return b },
		agg: func(pm *lindell22.PublicMaterial[*k256.Point, *k256.Scalar], cos *l22signing.Cosigner[*k256.Point, *k256.Scalar, []byte]) (func(psigMap[*k256.Point, *k256.Scalar], []byte) (*schnorrlike.Signature[*k256.Point, *k256.Scalar], error), error) {
			if cos == nil {
				a, err := l22signing.NewAggregator(pm, mk())
				if err != nil {
					return nil, err
				}
				return a.Aggregate, nil
			}
			a, err := l22signing.NewCosigningAggregator(cos, pm, mk())
			if err != nil {
				return nil, err
			}
			return a.Aggregate, nil
		},
		verify: func(sig *bip340.Signature, pk *bip340.PublicKey, m []byte) error {
			vf, err := mk().Verifier()
			if err != nil {
				return err
			}
			return vf.Verify(sig, pk, m)
		},
		indep: func(sig *bip340.Signature, pkv *k256.Point, msg []byte) (bool, string) {
			return bip340Verify(x32(pkv), msg, slices.Concat(x32(sig.R), sig.S.Bytes())), "BIP-340 Verify on bytes (math/big)"
		},
	}
}

func minaDesc() *l22Desc[*pasta.PallasPoint, *pasta.PallasScalar, *mina.ROInput] {
	mk := func() *mina.Scheme {
		s, err := mina.NewRandomisedScheme(mina.MainNet, reader())
		if err != nil {
			panic(err)
		}
		return s
	}
	return &l22Desc[*pasta.PallasPoint, *pasta.PallasScalar, *mina.ROInput]{
		name: "mina", g: gPallas, allowEmpty: false,
		variant: func() mpcschnorr.MPCFriendlyVariant[*pasta.PallasPoint, *pasta.PallasScalar, *mina.ROInput] {
			return mk().Variant()
		},
		mkMsg: func(b []byte) *mina.ROInput {
			m := new(mina.ROInput).Init()
			m.AddString(string(b))
			return m
		},
		agg: func(pm *lindell22.PublicMaterial[*pasta.PallasPoint, *pasta.PallasScalar], cos *l22signing.Cosigner[*pasta.PallasPoint, *pasta.PallasScalar, *mina.ROInput]) (func(psigMap[*pasta.PallasPoint, *pasta.PallasScalar], *mina.ROInput) (*schnorrlike.Signature[*pasta.PallasPoint, *pasta.PallasScalar], error), error) {
			if cos == nil {
				a, err := l22signing.NewAggregator(pm, mk())
				if err != nil {
					return nil, err
				}
				return a.Aggregate, nil
			}
			a, err := l22signing.NewCosigningAggregator(cos, pm, mk())
			if err != nil {
				return nil, err
			}
			return a.Aggregate, nil
		},
		verify: func(sig *mina.Signature, pk *mina.PublicKey, m *mina.ROInput) error {
			vf, err := mk().Verifier()
			if err != nil {
				return err
			}
			return vf.Verify(sig, pk, m)
		},
		// s G = R + e P on the math/big Pallas model with an even-y nonce; the challenge e (Poseidon over the packed input) is the
		// one in the signature: hashing is C19's subject, the equation and the parity rule are checked here
		indep: func(sig *mina.Signature, pkv *pasta.PallasPoint, _ []byte) (bool, string) {
			if sig.E == nil || sig.R == nil {
				return false, "mina equation"
			}
			R, P := gPallas.aff(sig.R), gPallas.aff(pkv)
			return !R.inf && R.y.Bit(0) == 0 && schnorrEq(pallasC, big2(sig.S), big2(sig.E), R, P), "s G = R + e P, even R.y (math/big Pallas model; e from the signature)"
		},
	}
}

// vanillaDesc: the configurable Schnorr scheme. The challenge is recomputed with the standard library's hash from the encodings of R
// and P; the equation is decided on the math/big model, or by crypto/ed25519 for the Ed25519-compatible configuration.
func vanillaDesc[GE algebra.PrimeGroupElement[GE, S], S algebra.PrimeFieldElement[S]](name string, g *groupDesc[GE, S], h func() hash.Hash, le bool) *l22Desc[GE, S, []byte] {
	mk := func() *vanilla.Scheme[GE, S] {
		s, err := vanilla.NewScheme(g.group, h, false, le, nil, reader())
		if err != nil {
			panic(err)
		}
		return s
	}
	return &l22Desc[GE, S, []byte]{
		name: name, g: g, allowEmpty: true,
		variant: func() mpcschnorr.MPCFriendlyVariant[GE, S, []byte] { return mk().Variant() },
		mkMsg:   func(b []byte) []byte { return b },
		agg: func(pm *lindell22.PublicMaterial[GE, S], cos *l22signing.Cosigner[GE, S, []byte]) (func(psigMap[GE, S], []byte) (*schnorrlike.Signature[GE, S], error), error) {
			if cos == nil {
				a, err := l22signing.NewAggregator(pm, mk())
				if err != nil {
					return nil, err
				}
				return a.Aggregate, nil
			}
			a, err := l22signing.NewCosigningAggregator(cos, pm, mk())
			if err != nil {
				return nil, err
			}
			return a.Aggregate, nil
		},
		verify: func(sig *schnorrlike.Signature[GE, S], pk *schnorrlike.PublicKey[GE, S], m []byte) error {
			vf, err := mk().Verifier()
			if err != nil {
				return err
			}
			return vf.Verify(sig, pk, m)
		},
		indep: func(sig *schnorrlike.Signature[GE, S], pkv GE, msg []byte) (bool, string) {
			if g.model == nil { // edwards25519 prime subgroup, SHA-512, little-endian challenge: Ed25519's equation
				s := slices.Clone(sig.S.Bytes())
				slices.Reverse(s)
				return stded.Verify(stded.PublicKey(pkv.Bytes()), msg, slices.Concat(sig.R.Bytes(), s)), "crypto/ed25519"
			}
			hh := h()
			hh.Write(sig.R.Bytes())
			hh.Write(pkv.Bytes())
			hh.Write(msg)
			dg := hh.Sum(nil)
			if le {
				slices.Reverse(dg)
			}
			e := new(big.Int).SetBytes(dg)
			e.Mod(e, g.model.N)
			return e.Cmp(big2(sig.E)) == 0 && schnorrEq(g.model, big2(sig.S), e, g.aff(sig.R), g.aff(pkv)), "e = H(R || P || m) (standard library hash), s G = R + e P (math/big model)"
		},
	}
}

func signLindell22(r int) {
	signL22On(bip340Desc(), r, 0)
	signL22On(minaDesc(), r, 1)
	signL22On(vanillaDesc("schnorr-sha256", gK256, sha256.New, false), r, 2)
	signL22On(vanillaDesc("schnorr-sha256", gP256, sha256.New, false), r, 3)
	signL22On(vanillaDesc("schnorr-sha512le", gEd, sha512.New, true), r, 4)
}

func signL22On[GE algebra.PrimeGroupElement[GE, S], S algebra.PrimeFieldElement[S], M schnorrlike.Message](d *l22Desc[GE, S, M], r, vi int) {
	for _, it := range planCheap(vi+r, []int{0, 1}) {
		pi, qi := it.pi, it.qi
		api := []string{"rounds", "runner"}[(pi+qi+vi+r)%2]
		msgClass := msgClasses[(pi+qi+r+vi)%len(msgClasses)]
		if msgClass == "empty" && !d.allowEmpty {
			msgClass = "short"
		}
		comp := fiatshamir.Name
		if thor && (pi+qi)%7 == 3 && len(it.q.ids) <= 3 {
			comp = fischlin.Name
		}
		name := fmt.Sprintf("sign:lindell22:%s:%s:%s:%s", d.name, d.g.name, it.np.Name, it.q.kind)
		if !takeCase(name) {
			continue
		}
		l22Line(d, it.np, keyFor(d.g, it.np, it.srcIdx), it.q, api, msgClass, comp)
	}
}

func l22Line[GE algebra.PrimeGroupElement[GE, S], S algebra.PrimeFieldElement[S], M schnorrlike.Message](d *l22Desc[GE, S, M], np namedPolicy, km *keyMat[GE, S], q quorumCase, api, msgClass string, comp compiler.Name) {
	ev := newSignEv("lindell22", d.name, d.g.name, np, km.src, q, api, msgClass)
	ev["comp"] = string(comp)
	defer emitSign(ev)
	if km.err != "" {
		ev["keyErr"] = km.err
		return
	}
	raw := msgOf(msgClass)
	msg := d.mkMsg(raw)
	var ctxs map[ID]*session.Context
	if api == "runner" {
		ctxs = sessionsRunner(q.ids)
	} else {
		ctxs = sessions(q.ids)
	}
	shards := map[ID]*lindell22.Shard[GE, S]{}
	for _, id := range q.ids {
		sh, err := l22keygen.NewShard(km.shards[id])
		if err != nil {
			// an identity public key cannot become a Schnorr shard (probability 1/q)
			ev["keyErr"], ev["class"] = errStr(err), "degenerate"
			return
		}
		shards[id] = sh
	}
	psigs := map[ID]*lindell22.PartialSignature[GE, S]{}
	cosigners := map[ID]*l22signing.Cosigner[GE, S, M]{}
	if api == "runner" {
		runners := map[ID]network.Runner[*lindell22.PartialSignature[GE, S]]{}
		for _, id := range q.ids {
			rn, err := l22signing.NewRunner(ctxs[id], shards[id], comp, d.variant(), msg, reader())
			ev["ctor"] = append(ev["ctor"].([]any), ctorJ(id, err))
			runners[id] = rn
		}
		if !allCtorOK(ev) {
			return
		}
		out, ok := runNet(ev, q.ids, runners)
		if !ok {
			return
		}
		psigs = out
	} else {
		ps := []proto.Party{}
		parties := map[ID]*l22Party[GE, S, M]{}
		for _, id := range q.ids {
			c, err := l22signing.NewCosigner(ctxs[id], shards[id], comp, d.variant(), reader())
			ev["ctor"] = append(ev["ctor"].([]any), ctorJ(id, err))
			if err == nil {
				p := &l22Party[GE, S, M]{id: id, c: c, msg: msg}
				parties[id] = p
				cosigners[id] = c
				ps = append(ps, p)
			}
		}
		if !allCtorOK(ev) {
			return
		}
		if !runParties(ev, ps) {
			return
		}
		for _, id := range q.ids {
			psigs[id] = parties[id].psig
		}
	}
	// the partial signatures travel to the aggregators as CBOR bytes
	pm := hashmap.NewComparable[ID, *lindell22.PartialSignature[GE, S]]()
	for _, id := range q.ids {
		data, err := serde.MarshalCBOR(psigs[id])
		if err != nil {
			panic(err)
		}
		back, err := serde.UnmarshalCBOR[*lindell22.PartialSignature[GE, S]](data)
		if err != nil {
			addOut(ev, fmt.Sprintf("psig:%d", id), 0, err)
			return
		}
		pm.Put(id, back)
	}
	frozen := pm.Freeze()
	var first *schnorrlike.Signature[GE, S]
	objToks := []int{}
	aggregate := func(who string, holder ID, cos *l22signing.Cosigner[GE, S, M]) {
		a, err := d.agg(shards[holder].PublicKeyMaterial(), cos)
		if err != nil {
			addOut(ev, who, 0, err)
			return
		}
		sig, err := a(frozen, msg)
		if err != nil {
			addOut(ev, who, 0, err)
			return
		}
		// the token of a signature is the token of its wire form (what a verifier receives); the token of the in-memory value
		// (its CBOR encoding, nonce point included) is logged next to it
		wireBytes, err := d.variant().SerializeSignature(sig)
		if err != nil {
			addOut(ev, who, 0, err)
			return
		}
		addOut(ev, who, proto.Tok(wireBytes), nil)
		objToks = append(objToks, tok(sig))
		if first == nil {
			first = sig
		}
	}
	aggregate("agg:plain", q.ids[0], nil)
	for _, id := range q.ids {
		if c, ok := cosigners[id]; ok {
			aggregate(fmt.Sprintf("agg:%d", id), id, c)
		}
	}
	ev["objToks"] = objToks
	if first == nil {
		return
	}
	pkv := km.shards[q.ids[0]].PublicKeyValue()
	pk := shards[q.ids[0]].PublicKey()
	otherRaw := otherMessage(raw)
	ev["verify_lib"] = d.verify(first, pk, msg) == nil
	ev["verify_other_lib"] = d.verify(first, pk, d.mkMsg(otherRaw)) == nil
	ok, kind := d.indep(first, pkv, raw)
	ev["verify_indep"], ev["indep"] = ok, kind
	if d.name == "mina" {
		// the equation oracle takes e from the signature, so "another message" is decided by the library's challenge for the
		// other message: e' = e would be a Poseidon collision
		e2, err := d.variant().ComputeChallenge(first.R, pkv, d.mkMsg(otherRaw))
		ev["verify_other_indep"] = err == nil && e2.Equal(first.E)
	} else {
		ok2, _ := d.indep(first, pkv, otherRaw)
		ev["verify_other_indep"] = ok2
	}
	eq, _ := d.g.mulGenEq(km.x, pkv)
	ev["pkIsXG"] = eq
	ev["signed"] = true
}

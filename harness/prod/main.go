package prod

import (
	"flag"
	"fmt"
	"strings"
	"time"

	"github.com/bronlabs/bron-crypto/pkg/proofs/sigma/compiler"
	"github.com/bronlabs/bron-crypto/pkg/proofs/sigma/compiler/fiatshamir"
	"github.com/bronlabs/bron-crypto/pkg/proofs/sigma/compiler/fischlin"
	"github.com/bronlabs/bron-crypto/pkg/proofs/sigma/compiler/randfischlin"

	"verif/harness/proto"
	"verif/harness/tr"
)

var (
	only  map[string]bool
	thor  bool
	scale int
)

func want(name string) bool {
	if len(only) == 0 {
		return true
	}
	for k := range only {
		if strings.HasPrefix(name, k) {
			return true
		}
	}
	return false
}

// Main is the driver. Modes: keygen (C03), sign (C01), otvole (C09), tamper (C04).
func Main(args []string) int {
	fs := flag.NewFlagSet("prodproto", flag.ContinueOnError)
	mode := fs.String("mode", "keygen", "keygen | sign | otvole | tamper | otdev")
	out := fs.String("out", "trace.ndjson", "trace file")
	sd := fs.Uint64("seed", 1, "seed")
	tier := fs.String("tier", "quick", "quick | thorough")
	onlyF := fs.String("only", "", "comma separated name prefixes")
	sc := fs.Int("scale", 1, "repeat factor")
	stride := fs.Int("stride", 1, "tamper: take every stride-th case")
	startAt := fs.Int("from", 0, "tamper: skip cases below")
	intent := fs.String("intent", "", "tamper: announce cases")
	partF := fs.Int("part", 0, "sign/otvole: this process takes the cases with index % parts == part")
	partsF := fs.Int("parts", 1, "sign/otvole: number of parallel driver processes")
	cacheF := fs.String("cache", "", "directory for material that takes minutes to sample (CGGMP21 auxiliary parameters)")
	if err := fs.Parse(args); err != nil {
		return 2
	}
	seed, thor, scale = *sd, *tier == "thorough", *sc
	part, parts = *partF, *partsF
	cacheDir = *cacheF
	only = map[string]bool{}
	for _, n := range strings.Split(*onlyF, ",") {
		if n != "" {
			only[n] = true
		}
	}
	checkModels()
	// a DKLs23 round among three parties takes seconds on a free machine and minutes on a loaded one; a timeout is reported by the
	// check as a machinery failure, never as a verdict
	proto.RoundTimeout = 30 * time.Minute
	w = tr.NewW(*out)
	defer w.Close()
	w.Emit(map[string]any{"a": "hdr", "q": 5, "seed": seed, "mode": *mode, "tier": *tier})
	switch *mode {
	case "keygen":
		runKeygen()
	case "sign":
		runSign()
	case "otvole":
		runOTVole()
	case "tamper":
		runTamper(*stride, *startAt, *intent != "")
	case "otdev":
		runOTVoleDev(*stride)
	case "signdev":
		runSignDev(*stride)
	default:
		fmt.Println("unknown mode")
		return 2
	}
	fmt.Printf("events=%d\n", w.N)
	return 0
}

var _ = []compiler.Name{fiatshamir.Name, fischlin.Name, randfischlin.Name}

// runKeygen: trusted dealer, Gennaro and Canetti on the seven groups; Fiat-Shamir everywhere, the Fischlin compilers on two groups.
func runKeygen() {
	rep := scale
	for r := 0; r < rep; r++ {
		pols := []string{"th2of3", "cnf4", "th2of3sparse", "gate3", "th2of2", "th3of5", "unan3", "hier4"}
		pick := func(i int) namedPolicy { return policyByName(pols[(i+r)%len(pols)]) }
		i := 0
		next := func() namedPolicy { i++; return pick(i) }
		// Gennaro / Fiat-Shamir and Canetti on every group, alternating rounds / runner
		if want("gennaro:k256") {
			keygenLine(gK256, next(), "gennaro", "rounds", fiatshamir.Name)
		}
		if want("gennaro:p256") {
			keygenLine(gP256, next(), "gennaro", "runner", fiatshamir.Name)
		}
		if want("gennaro:ed25519") {
			keygenLine(gEd, next(), "gennaro", "rounds", fiatshamir.Name)
		}
		if want("gennaro:pallas") {
			keygenLine(gPallas, next(), "gennaro", "runner", fiatshamir.Name)
		}
		if want("gennaro:vesta") {
			keygenLine(gVesta, next(), "gennaro", "rounds", fiatshamir.Name)
		}
		if want("gennaro:blsG1") {
			keygenLine(gG1, next(), "gennaro", "runner", fiatshamir.Name)
		}
		if want("gennaro:blsG2") {
			keygenLine(gG2, next(), "gennaro", "rounds", fiatshamir.Name)
		}
		if want("canetti:k256") {
			keygenLine(gK256, next(), "canetti", "runner", "")
		}
		if want("canetti:p256") {
			keygenLine(gP256, next(), "canetti", "rounds", "")
		}
		if want("canetti:ed25519") {
			keygenLine(gEd, next(), "canetti", "runner", "")
		}
		if want("canetti:pallas") {
			keygenLine(gPallas, next(), "canetti", "rounds", "")
		}
		if want("canetti:vesta") {
			keygenLine(gVesta, next(), "canetti", "runner", "")
		}
		if want("canetti:blsG1") {
			keygenLine(gG1, next(), "canetti", "rounds", "")
		}
		if want("canetti:blsG2") {
			keygenLine(gG2, next(), "canetti", "runner", "")
		}
		// the Fischlin compilers (seconds per proof): two groups
		if want("fischlin:k256") {
			keygenLine(gK256, policyByName("th2of2"), "gennaro", "rounds", fischlin.Name)
		}
		if want("randfischlin:ed25519") {
			keygenLine(gEd, policyByName("th2of2"), "gennaro", "rounds", randfischlin.Name)
		}
		// trusted dealer: every policy on rotating groups
		for j, np := range policies() {
			if !want("dealer:" + np.Name) {
				continue
			}
			switch (j + r) % 7 {
			case 0:
				keygenLine(gK256, np, "dealer", "call", "")
			case 1:
				keygenLine(gP256, np, "dealer", "call", "")
			case 2:
				keygenLine(gEd, np, "dealer", "call", "")
			case 3:
				keygenLine(gPallas, np, "dealer", "call", "")
			case 4:
				keygenLine(gVesta, np, "dealer", "call", "")
			case 5:
				keygenLine(gG1, np, "dealer", "call", "")
			case 6:
				keygenLine(gG2, np, "dealer", "call", "")
			}
		}
		if thor {
			// thorough: the full Fischlin x group pairs of the brief and Gennaro on every policy for k256
			for _, np := range policies() {
				if want("gennaroall:" + np.Name) {
					keygenLine(gK256, np, "gennaro", "rounds", fiatshamir.Name)
				}
			}
			if want("fischlin:p256") {
				keygenLine(gP256, policyByName("th2of2"), "gennaro", "runner", fischlin.Name)
			}
			if want("randfischlin:pallas") {
				keygenLine(gPallas, policyByName("th2of2"), "gennaro", "runner", randfischlin.Name)
			}
		}
	}
}

package prod

// Deviation mode for the production-curve OT / VOLE protocols (C09, third sentence: "if either side alters the messages that feed the
// protocols' consistency checks, the other side aborts"). The protocols are two-party and every message crosses wire(): a plan names
// the n-th wire message of a run, a leaf of its CBOR tree and an operator; wireHook applies it on the way. A recording run lists the
// leaves first, so the matrix is (message, leaf class, position, operator) - read from the code's own messages, not from a table.
// Operators keep the container well formed: "flip" changes the last byte of a byte-string leaf, "swap" exchanges two different
// elements of an array (both stay valid encodings: another instance's point, digest or column).

import (
	"bytes"
	"fmt"

	"github.com/bronlabs/bron-crypto/pkg/base/algebra"
	"github.com/bronlabs/bron-crypto/pkg/base/curves"
	"github.com/bronlabs/bron-crypto/pkg/ot/base/vsot"
	"github.com/bronlabs/bron-crypto/pkg/ot/extension/softspoken"

	"verif/harness/proto"
	"verif/harness/tr"
)

type wireLeaf struct {
	class, kind string
	idx         int // index among the leaves of the message
	n           int // array length
}

type wirePlan struct {
	msg     int    // 1-based index of the wire message in the run
	class   string // leaf class
	pos     int    // which leaf of that class (0 = first, -1 = last)
	op      string // flip | swap
	applied bool
	changed bool
	path    string
}

var (
	wireRecording bool
	wireSeq       int
	wireSeen      [][]wireLeaf
	wireActive    *wirePlan
)

func wireHook(data []byte) []byte {
	if !wireRecording && wireActive == nil {
		return data
	}
	wireSeq++
	t, err := proto.Parse(data)
	if err != nil {
		return data
	}
	leaves := t.Leaves()
	if wireRecording {
		ls := []wireLeaf{}
		for i, l := range leaves {
			ls = append(ls, wireLeaf{class: l.Class, kind: l.Kind, idx: i, n: l.Len})
		}
		wireSeen = append(wireSeen, ls)
		return data
	}
	pl := wireActive
	if wireSeq != pl.msg {
		return data
	}
	cands := []*proto.Leaf{}
	for _, l := range leaves {
		if l.Class == pl.class && ((pl.op == "flip" && l.Kind == "bytes" && len(l.Bytes) > 0) || (pl.op == "swap" && l.Kind == "array" && l.Len >= 2)) {
			cands = append(cands, l)
		}
	}
	if len(cands) == 0 {
		return data
	}
	l := cands[0]
	if pl.pos < 0 {
		l = cands[len(cands)-1]
	} else if pl.pos < len(cands) {
		l = cands[pl.pos]
	}
	pl.path = l.Path
	switch pl.op {
	case "flip":
		b := append([]byte(nil), l.Bytes...)
		b[len(b)-1] ^= 1
		l.SetBytes(b)
	case "swap":
		l.SwapKids(0, l.Len-1)
	}
	out := t.Encode()
	pl.applied = true
	pl.changed = !bytes.Equal(out, data)
	return out
}

// emitOT writes the line of a run; in deviation mode it becomes an "otdev" line carrying the plan.
func emitOT(ev map[string]any) {
	if wireRecording {
		return // the recording run only lists leaves
	}
	if pl := wireActive; pl != nil {
		if rec := recover(); rec != nil {
			ev["panic"], ev["err"] = true, fmt.Sprint(rec)
		} else {
			ev["panic"] = false
		}
		ev["kind"] = ev["a"] // ot | vole
		ev["a"] = "otdev"
		ev["k"] = fmt.Sprintf("otdev:%v:msg%d:%s:%d:%s", ev["k"], pl.msg, pl.class, pl.pos, pl.op)
		stage := 0
		for _, ch := range fmt.Sprint(ev["failedAt"]) {
			if ch >= '0' && ch <= '9' {
				stage = stage*10 + int(ch-'0')
			}
		}
		ev["failedStage"] = stage
		ev["msg"], ev["leaf"], ev["pos"], ev["op"], ev["applied"], ev["changed"], ev["path"] = pl.msg, pl.class, pl.pos, pl.op, pl.applied, pl.changed, pl.path
	}
	w.Emit(ev)
}

// devMatrix runs `run` once recording, then once per (message, leaf class, position, operator).
func devMatrix(run func(), stride int) {
	wireRecording, wireSeq, wireSeen = true, 0, nil
	run()
	wireRecording = false
	seen := wireSeen
	n := 0
	for mi, ls := range seen {
		done := map[string]bool{}
		for _, l := range ls {
			var op string
			switch {
			case l.kind == "bytes":
				op = "flip"
			case l.kind == "array" && l.n >= 2:
				op = "swap"
			default:
				continue
			}
			for _, pos := range []int{0, -1} {
				key := fmt.Sprintf("%s|%s|%d", l.class, op, pos)
				if done[key] {
					continue
				}
				done[key] = true
				n++
				if stride > 1 && n%stride != int(seed)%stride {
					continue
				}
				wireActive = &wirePlan{msg: mi + 1, class: l.class, pos: pos, op: op}
				wireSeq = 0
				run()
				wireActive = nil
			}
		}
	}
}

func runOTVoleDev(stride int) {
	devOn(dK256, stride)
	if thor {
		devOn(dP256, stride)
	}
}

func devOn[P curves.Point[P, B, S], B algebra.PrimeFieldElement[B], S algebra.PrimeFieldElement[S]](d *ecDesc[P, B, S], stride int) {
	rnd := tr.PRand(seed, 4700+uint64(len(d.g.name)))
	ids := [][]ID{{1, 2}, {7, 3}}[int(seed)%2]
	// honest seeds for the extension (not part of the matrix)
	var so *vsot.SenderOutput
	var ro *vsot.ReceiverOutput
	for so == nil {
		so, ro = runVSOTQuiet(d, ids)
	}
	if want("otdev:vsot") {
		xi := []int{8, 16}[rnd.IntN(2)]
		l := []int{1, 2}[rnd.IntN(2)]
		devMatrix(func() { runVSOT(d, xi, l, "random", ids) }, stride)
	}
	if want("otdev:softspoken") {
		el := []int{1, 2}[rnd.IntN(2)]
		devMatrix(func() { runSoftSpoken(d.g.name, so, ro, 128, el, "random", ids) }, stride)
	}
	if want("otdev:rvole") {
		L := []int{1, 2}[rnd.IntN(2)]
		kinds := []string{"*", "1"}[:L]
		devMatrix(func() { runRVoleSoft(d, so, ro, L, kinds, ids) }, stride)
	}
}

// runVSOTQuiet: a seed batch whose line is not written.
func runVSOTQuiet[P curves.Point[P, B, S], B algebra.PrimeFieldElement[B], S algebra.PrimeFieldElement[S]](d *ecDesc[P, B, S], ids []ID) (*vsot.SenderOutput, *vsot.ReceiverOutput) {
	wireRecording = true
	defer func() { wireRecording, wireSeen, wireSeq = false, nil, 0 }()
	return runVSOT(d, softspoken.Kappa, 1, "random", ids)
}

package homenc

import (
	"github.com/bronlabs/bron-crypto/pkg/encryption/elgamal"

	"verif/harness/toy"
	"verif/harness/tr"
)

type (
	eSK = elgamal.SecretKey[*toy.Elem, *toy.Scalar]
	ePK = elgamal.PublicKey[*toy.Elem, *toy.Scalar]
	eCT = elgamal.Ciphertext[*toy.Elem, *toy.Scalar]
)

func ept(m uint64) *elgamal.Plaintext[*toy.Elem, *toy.Scalar] {
	p, err := elgamal.NewPlaintext[*toy.Elem, *toy.Scalar](toy.FromLog(m))
	if err != nil {
		panic(err)
	}
	return p
}

func enc(r uint64) *elgamal.Nonce[*toy.Scalar] {
	n, err := elgamal.NewNonce(toy.FromInt(r))
	if err != nil {
		panic(err)
	}
	return n
}

func ect(c1, c2 uint64) *eCT {
	c, err := elgamal.NewCiphertext[*toy.Elem, *toy.Scalar](toy.FromLog(c1), toy.FromLog(c2))
	if err != nil {
		panic(err)
	}
	return c
}

func logs(c *eCT) []uint64 {
	cs := c.Value().Components()
	return []uint64{cs[0].Log(), cs[1].Log()}
}

type eop struct {
	kind string
	arg  uint64
}

func eapply(sk *eSK, pk *ePK, x uint64, o eop, a, b *eCT) *eCT {
	ev := map[string]any{"x": x, "c": logs(a), "arg": o.arg}
	var res *eCT
	name := "e." + o.kind
	safely(name, ev, func() {
		var p, s *eCT
		var err, err2 error
		switch o.kind {
		case "add":
			ev["d"] = logs(b)
			p, err = pk.CiphertextOp(a, b)
			s, err2 = sk.CiphertextOp(a, b)
		case "smul":
			p, err = pk.CiphertextScalarOp(a, toy.FromInt(o.arg))
			s, err2 = sk.CiphertextScalarOp(a, toy.FromInt(o.arg))
		case "neg":
			p, err = pk.CiphertextOpInv(a)
			s, err2 = sk.CiphertextOpInv(a)
		case "shift":
			p, err = pk.Shift(a, ept(o.arg))
			s, err2 = sk.Shift(a, ept(o.arg))
		case "rerand":
			p, err = pk.ReRandomise(a, enc(o.arg))
			s, err2 = sk.ReRandomise(a, enc(o.arg))
		}
		ev["ok"] = err == nil && err2 == nil
		if err != nil || err2 != nil {
			emit(name, ev)
			return
		}
		ev["pk"], ev["sk"] = logs(p), logs(s)
		d, derr := sk.Decrypt(p)
		ev["decok"] = derr == nil
		if derr == nil {
			ev["dec"] = d.Value().Log()
		} else {
			ev["dec"] = 0
		}
		emit(name, ev)
		res = p
	})
	return res
}

func runElGamal(g uint64, nprog int, seed uint64) {
	toy.Setup(g)
	grp := toy.NewGroup()
	rnd := tr.PRand(seed, g)
	// key constructors: 0 and 1 are refused as secret keys, the identity as public key
	for x := uint64(0); x < g; x++ {
		_, err := elgamal.NewSecretKey[*toy.Elem, *toy.Scalar](grp.Generator(), toy.FromInt(x))
		_, err2 := elgamal.NewPublicKey[*toy.Elem, *toy.Scalar](toy.FromLog(x))
		emit("e.key", map[string]any{"x": x, "skok": err == nil, "pkok": err2 == nil})
	}
	step := uint64(1)
	if g > 40 {
		step = g / 12
	}
	var keys []uint64
	for x := uint64(2); x < g; x += step {
		keys = append(keys, x)
	}
	keys = append(keys, g-1)
	for _, x := range keys {
		sk, err := elgamal.NewSecretKey[*toy.Elem, *toy.Scalar](grp.Generator(), toy.FromInt(x))
		if err != nil {
			panic(err)
		}
		pk := sk.Public()
		emit("e.pub", map[string]any{"x": x, "h": pk.Value().Log()})
		var vals []uint64
		if g <= 40 {
			for v := uint64(0); v < g; v++ {
				vals = append(vals, v)
			}
		} else {
			vals = []uint64{0, 1, 2, g / 2, g - 2, g - 1, rnd.Uint64N(g), rnd.Uint64N(g)}
		}
		// every (message, nonce): both key paths, decryption
		for _, m := range vals {
			for _, r := range vals {
				ev := map[string]any{"x": x, "m": m, "r": r}
				safely("e.enc", ev, func() {
					a, err := pk.EncryptWithNonce(ept(m), enc(r))
					b, err2 := sk.EncryptWithNonce(ept(m), enc(r))
					ev["ok"] = err == nil && err2 == nil
					ev["pk"], ev["sk"] = logs(a), logs(b)
					rep, _ := pk.Representative(ept(m))
					no, _ := pk.IdentityNoise(enc(r))
					nos, _ := sk.IdentityNoise(enc(r))
					ev["rep"], ev["noise"], ev["noisesk"] = logs(rep), logs(no), logs(nos)
					d, _ := sk.Decrypt(a)
					ev["dec"] = d.Value().Log()
					emit("e.enc", ev)
				})
			}
		}
		// plaintext / nonce operations
		for _, m := range vals[:min(len(vals), 6)] {
			for _, s := range vals[:min(len(vals), 6)] {
				p1, _ := pk.PlaintextOp(ept(m), ept(s))
				p2, _ := pk.PlaintextScalarOp(ept(m), toy.FromInt(s))
				p3, _ := pk.PlaintextOpInv(ept(m))
				n1, _ := pk.NonceOp(enc(m), enc(s))
				n2, _ := pk.NonceScalarOp(enc(m), toy.FromInt(s))
				n3, _ := pk.NonceOpInv(enc(m))
				emit("e.ptop", map[string]any{"m": m, "s": s, "padd": p1.Value().Log(), "psmul": p2.Value().Log(), "pneg": p3.Value().Log(),
					"nadd": n1.Value().Int(), "nsmul": n2.Value().Int(), "nneg": n3.Value().Int()})
			}
		}
		// single operations on every pair of a small set of ciphertexts, then sampled programmes
		var base []*eCT
		for _, m := range vals[:min(len(vals), 4)] {
			for _, r := range []uint64{0, 1, g - 1} {
				c, _ := pk.EncryptWithNonce(ept(m), enc(r))
				base = append(base, c)
			}
		}
		base = append(base, ect(3%g, 4%g)) // an arbitrary pair, not produced by Encrypt
		var ops []eop
		ops = append(ops, eop{"add", 0}, eop{"neg", 0})
		for _, s := range []uint64{0, 1, 2, g - 1, g / 2} {
			ops = append(ops, eop{"smul", s}, eop{"shift", s}, eop{"rerand", s})
		}
		for i, a := range base {
			for _, o := range ops {
				if o.kind == "add" {
					for _, b := range base {
						eapply(sk, pk, x, o, a, b)
					}
					continue
				}
				eapply(sk, pk, x, o, a, base[(i+1)%len(base)])
			}
		}
		for i := 0; i < nprog; i++ {
			regs := []*eCT{base[rnd.IntN(len(base))], base[rnd.IntN(len(base))]}
			for st := 0; st < 3; st++ {
				o := ops[rnd.IntN(len(ops))]
				src, dst, oth := rnd.IntN(2), rnd.IntN(2), rnd.IntN(2)
				res := eapply(sk, pk, x, o, regs[src], regs[oth])
				if res == nil {
					break
				}
				regs[dst] = res
			}
		}
	}
}

// Package homenc drives pkg/encryption/paillier (toy moduli, needs the test-mode build) and
// pkg/encryption/elgamal (toy group) and logs every call with its arguments and projected result
// (C16). Nothing is judged here; the TLA+ trace specification HomEncTrace decides.
package homenc

import (
	"flag"
	"fmt"
	"math/big"
	"testing"

	"github.com/bronlabs/bron-crypto/pkg/base/nt/num"
	"github.com/bronlabs/bron-crypto/pkg/base/nt/znstar"
	"github.com/bronlabs/bron-crypto/pkg/encryption/paillier"

	"verif/harness/tr"
)

var (
	w    *tr.W
	kseq int
)

func emit(a string, ev map[string]any) {
	kseq++
	ev["a"] = a
	ev["f"] = a[:1] // family: p = Paillier, e = ElGamal
	ev["k"] = fmt.Sprintf("%s#%d", a, kseq)
	w.Emit(ev)
}

func safely(name string, ev map[string]any, f func()) {
	defer func() {
		if r := recover(); r != nil {
			s := fmt.Sprint(r)
			if len(s) > 120 {
				s = s[:120]
			}
			ev["panic"] = s
			emit(name+".panic", ev)
		}
	}()
	f()
}

func np(x int64) *num.NatPlus {
	v, err := num.NPlus().FromUint64(uint64(x))
	if err != nil {
		panic(err)
	}
	return v
}

func pj(v *big.Int) int64 {
	if v == nil || v.BitLen() > 30 {
		return 2147483647
	}
	return v.Int64()
}

// Main is the driver entry point (called from TestMain in test mode and from cmd/homenc otherwise).
func Main(args []string) int {
	fs := flag.NewFlagSet("homenc", flag.ContinueOnError)
	out := fs.String("out", "trace.ndjson", "")
	mode := fs.String("mode", "paillier", "paillier|elgamal|floor|big")
	p := fs.Int64("p", 5, "")
	q := fs.Int64("q", 7, "")
	g := fs.Uint64("g", 11, "order of the toy group (elgamal)")
	full := fs.Bool("full", false, "paillier: every (m, r) pair")
	nprog := fs.Int("nprog", 300, "sampled programmes of 3 operations")
	seed := fs.Uint64("seed", 1, "")
	if err := fs.Parse(args); err != nil {
		return 2
	}
	w = tr.NewW(*out)
	defer w.Close()
	w.Emit(map[string]any{"a": "hdr", "k": "hdr", "mode": *mode, "P": *p, "Q": *q, "G": *g, "testing": testing.Testing(), "seed": *seed})
	switch *mode {
	case "paillier":
		runPaillier(*p, *q, *full, *nprog, *seed)
	case "elgamal":
		runElGamal(*g, *nprog, *seed)
	case "floor":
		runFloor()
	case "big":
		runBig(*seed)
	default:
		return 2
	}
	return 0
}

// ---------------------------------------------------------------- Paillier

type pctx struct {
	n   int64
	grp *znstar.PaillierGroupKnownOrder
	sk  *paillier.SecretKey
	pk  *paillier.PublicKey
	N   *num.NatPlus
}

func (c *pctx) pt(m int64) *paillier.Plaintext {
	v, err := paillier.NewPlaintextFromNat(num.N().FromUint64(uint64(m)), c.N)
	if err != nil {
		panic(err)
	}
	return v
}

func (c *pctx) nonce(r int64) *paillier.Nonce {
	v, err := paillier.NewNonce(c.grp, np(r))
	if err != nil {
		panic(err)
	}
	return v
}

func (c *pctx) ct(v int64) *paillier.Ciphertext {
	x, err := paillier.NewCiphertext(c.grp, np(v))
	if err != nil {
		panic(err)
	}
	return x
}

func cv(c *paillier.Ciphertext) int64 { return pj(c.Value().Value().Big()) }

// tail logs decryption and opening of a result ciphertext.
func (c *pctx) tail(ev map[string]any, ct *paillier.Ciphertext) {
	d, err := c.sk.Decrypt(ct)
	ev["decok"] = err == nil
	if err == nil {
		ev["dec"] = pj(d.Value().Big())
		ev["norm"] = pj(d.Normalise().Big())
	} else {
		ev["dec"], ev["norm"] = 0, 0
	}
	m, r, err := c.sk.Open(ct)
	ev["openok"] = err == nil
	if err == nil {
		ev["om"], ev["or"] = pj(m.Value().Big()), pj(r.Value().Value().Big())
	} else {
		ev["om"], ev["or"] = 0, 0
	}
}

func gcd(a, b int64) int64 {
	for b != 0 {
		a, b = b, a%b
	}
	return a
}

func (c *pctx) enc(m, r int64) *paillier.Ciphertext {
	ev := map[string]any{"m": m, "r": r}
	var res *paillier.Ciphertext
	safely("p.enc", ev, func() {
		pt, nc := c.pt(m), c.nonce(r)
		a, err := c.pk.EncryptWithNonce(pt, nc)
		b, err2 := c.sk.EncryptWithNonce(pt, nc)
		ev["ok"] = err == nil && err2 == nil
		ev["pk"], ev["sk"] = cv(a), cv(b)
		rep, _ := c.pk.Representative(pt)
		reps, _ := c.sk.Representative(pt)
		no, _ := c.pk.IdentityNoise(nc)
		nos, _ := c.sk.IdentityNoise(nc)
		ev["rep"], ev["repsk"], ev["noise"], ev["noisesk"] = cv(rep), cv(reps), cv(no), cv(nos)
		ev["eq"] = a.Equal(b)
		c.tail(ev, a)
		emit("p.enc", ev)
		res = a
	})
	return res
}

type pop struct {
	kind string
	arg  int64
}

// apply runs one homomorphic operation through both key paths and logs it; returns the public-path result.
func (c *pctx) apply(o pop, x, y *paillier.Ciphertext) *paillier.Ciphertext {
	ev := map[string]any{"c": cv(x), "arg": o.arg}
	var res *paillier.Ciphertext
	name := "p." + o.kind
	safely(name, ev, func() {
		var a, b *paillier.Ciphertext
		var err, err2 error
		switch o.kind {
		case "add":
			ev["d"] = cv(y)
			a, err = c.pk.CiphertextOp(x, y)
			b, err2 = c.sk.CiphertextOp(x, y)
		case "smul":
			s := num.Z().FromInt64(o.arg)
			a, err = c.pk.CiphertextScalarOp(x, s)
			b, err2 = c.sk.CiphertextScalarOp(x, s)
		case "neg":
			a, err = c.pk.CiphertextOpInv(x)
			b, err2 = c.sk.CiphertextOpInv(x)
		case "shift":
			a, err = c.pk.Shift(x, c.pt(o.arg))
			b, err2 = c.sk.Shift(x, c.pt(o.arg))
		case "rerand":
			a, err = c.pk.ReRandomise(x, c.nonce(o.arg))
			b, err2 = c.sk.ReRandomise(x, c.nonce(o.arg))
		}
		ev["ok"] = err == nil && err2 == nil
		if err != nil || err2 != nil {
			emit(name, ev)
			return
		}
		ev["pk"], ev["sk"] = cv(a), cv(b)
		// the nonce of the input, as the secret key recovers it (only constrained by the specification)
		_, rin, errO := c.sk.Open(x)
		if errO == nil {
			ev["rin"] = pj(rin.Value().Value().Big())
		} else {
			ev["rin"] = 0
		}
		if o.kind == "add" {
			_, rin2, errO2 := c.sk.Open(y)
			if errO2 == nil {
				ev["rin2"] = pj(rin2.Value().Value().Big())
			} else {
				ev["rin2"] = 0
			}
		}
		c.tail(ev, a)
		emit(name, ev)
		res = a
	})
	return res
}

func runPaillier(p, q int64, full bool, nprog int, seed uint64) {
	grp, err := znstar.NewPaillierGroup(np(p), np(q))
	ev := map[string]any{"P": p, "Q": q, "grpok": err == nil, "testing": testing.Testing()}
	if err != nil {
		ev["skok"], ev["pkok"] = false, false
		emit("p.key", ev)
		return
	}
	sk, err := paillier.NewSecretKey(grp)
	ev["skok"] = err == nil
	pkd, err2 := paillier.NewPublicKey(grp.ForgetOrder())
	ev["pkok"] = err2 == nil
	emit("p.key", ev)
	if err != nil || err2 != nil {
		return
	}
	_ = pkd
	n := p * q
	c := &pctx{n: n, grp: grp, sk: sk, pk: sk.Public(), N: np(n)}
	var units []int64
	for r := int64(1); r < n; r++ {
		if gcd(r, n) == 1 {
			units = append(units, r)
		}
	}
	half := n / 2 // symmetric range -half..half (n odd)
	msgs := []int64{0, 1, 2, half, half + 1, n - 2, n - 1}
	nonces := []int64{1, 2, n - 1, units[len(units)/2], units[len(units)/3]}
	scalars := []int64{-n - 1, -n, -2, -1, 0, 1, 2, 3, n - 1, n, n + 1, 2*n + 1}
	shifts := []int64{0, 1, half, n - 1}
	rnd := tr.PRand(seed, uint64(n))
	// constructors and range checks
	xstep := int64(1)
	if n > 500 {
		xstep = n/150 + 1 // larger moduli: a stride plus the neighbourhoods of the range ends
	}
	near := func(x int64) bool {
		for _, c := range []int64{-n, -half, 0, half, n} {
			if x >= c-3 && x <= c+3 {
				return true
			}
		}
		return false
	}
	for x := -n - 2; x <= n+2; x++ {
		if (x+n+2)%xstep != 0 && !near(x) {
			continue
		}
		e := map[string]any{"x": x}
		safely("p.pt", e, func() {
			s, err := paillier.NewPlaintextSymmetric(num.Z().FromInt64(x), c.N)
			e["symok"] = err == nil
			if err == nil {
				e["symv"], e["norm"] = pj(s.Value().Big()), pj(s.Normalise().Big())
			} else {
				e["symv"], e["norm"] = 0, 0
			}
			if x >= 0 {
				t, err := paillier.NewPlaintextFromNat(num.N().FromUint64(uint64(x)), c.N)
				e["natok"] = err == nil
				if err == nil {
					e["natv"], e["natnorm"] = pj(t.Value().Big()), pj(t.Normalise().Big())
				} else {
					e["natv"], e["natnorm"] = 0, 0
				}
			} else {
				e["natok"], e["natv"], e["natnorm"] = false, 0, 0
			}
			if x >= 1 {
				_, err := paillier.NewNonce(c.grp, np(x))
				e["ncok"] = err == nil
			} else {
				e["ncok"] = false
			}
			emit("p.pt", e)
		})
	}
	n2 := n * n
	ctProbe := []int64{1, 2, p, q, n, n + 1, 2 * n, p * p, n2 - 1, n2, n2 + 1, n2 + p}
	for i := 0; i < 40; i++ {
		ctProbe = append(ctProbe, 1+rnd.Int64N(n2))
	}
	for _, v := range ctProbe {
		e := map[string]any{"c": v}
		safely("p.ct", e, func() {
			x, err := paillier.NewCiphertext(c.grp, np(v))
			e["ok"] = err == nil
			if err == nil {
				e["v"] = cv(x)
				_, derr := c.sk.Decrypt(x)
				e["decok"] = derr == nil
			} else {
				e["v"], e["decok"] = 0, false
			}
			emit("p.ct", e)
		})
	}
	// plaintext and nonce group operations (the semantics the ciphertext operations must mirror), both key paths
	for _, m1 := range msgs {
		for _, m2 := range msgs {
			e := map[string]any{"m1": m1, "m2": m2}
			a, _ := c.pk.PlaintextOp(c.pt(m1), c.pt(m2))
			b, _ := c.pk.PlaintextOpInv(c.pt(m1))
			e["add"], e["neg"] = pj(a.Value().Big()), pj(b.Value().Big())
			emit("p.ptop", e)
		}
		for _, s := range scalars {
			a, err := c.pk.PlaintextScalarOp(c.pt(m1), num.Z().FromInt64(s))
			e := map[string]any{"m1": m1, "s": s, "ok": err == nil}
			if err == nil {
				e["smul"] = pj(a.Value().Big())
			} else {
				e["smul"] = 0
			}
			emit("p.ptsmul", e)
		}
	}
	for _, r1 := range nonces {
		for _, r2 := range nonces {
			a, _ := c.pk.NonceOp(c.nonce(r1), c.nonce(r2))
			as, _ := c.sk.NonceOp(c.nonce(r1), c.nonce(r2))
			b, _ := c.pk.NonceOpInv(c.nonce(r1))
			bs, _ := c.sk.NonceOpInv(c.nonce(r1))
			emit("p.ncop", map[string]any{"r1": r1, "r2": r2, "mul": pj(a.Value().Value().Big()), "mulsk": pj(as.Value().Value().Big()),
				"inv": pj(b.Value().Value().Big()), "invsk": pj(bs.Value().Value().Big())})
		}
		for _, s := range scalars {
			a, _ := c.pk.NonceScalarOp(c.nonce(r1), num.Z().FromInt64(s))
			as, _ := c.sk.NonceScalarOp(c.nonce(r1), num.Z().FromInt64(s))
			emit("p.ncpow", map[string]any{"r1": r1, "s": s, "pow": pj(a.Value().Value().Big()), "powsk": pj(as.Value().Value().Big())})
		}
	}
	// encryption / decryption / opening
	if full {
		for m := int64(0); m < n; m++ {
			for _, r := range units {
				c.enc(m, r)
			}
		}
	} else {
		for _, m := range msgs {
			for _, r := range nonces {
				c.enc(m, r)
			}
		}
		for i := 0; i < 300; i++ {
			c.enc(rnd.Int64N(n), units[rnd.IntN(len(units))])
		}
	}
	// every single operation on every pair of base ciphertexts
	var base []*paillier.Ciphertext
	for _, m := range msgs {
		for _, r := range nonces[:3] {
			base = append(base, c.ct(cvOf(c, m, r)))
		}
	}
	var ops []pop
	ops = append(ops, pop{"add", 0}, pop{"neg", 0})
	for _, s := range scalars {
		ops = append(ops, pop{"smul", s})
	}
	for _, d := range shifts {
		ops = append(ops, pop{"shift", d})
	}
	for _, r := range nonces {
		ops = append(ops, pop{"rerand", r})
	}
	for i, x := range base {
		for _, o := range ops {
			if o.kind == "add" {
				for _, y := range base {
					c.apply(o, x, y)
				}
				continue
			}
			c.apply(o, x, base[(i+1)%len(base)])
		}
	}
	// sampled programmes of three operations over two registers
	for i := 0; i < nprog; i++ {
		regs := []*paillier.Ciphertext{base[rnd.IntN(len(base))], base[rnd.IntN(len(base))]}
		for step := 0; step < 3; step++ {
			o := ops[rnd.IntN(len(ops))]
			src, dst, oth := rnd.IntN(2), rnd.IntN(2), rnd.IntN(2)
			res := c.apply(o, regs[src], regs[oth])
			if res == nil {
				break
			}
			regs[dst] = res
		}
	}
}

// cvOf encrypts silently (no event) to obtain a base ciphertext value.
func cvOf(c *pctx, m, r int64) int64 {
	x, err := c.pk.EncryptWithNonce(c.pt(m), c.nonce(r))
	if err != nil {
		panic(err)
	}
	return cv(x)
}

// runFloor: in the plain binary the library must refuse every toy key (3072-bit floor), also through the legacy constructors.
func runFloor() {
	for _, pq := range [][2]int64{{5, 7}, {11, 13}, {19, 23}, {83, 107}} {
		grp, err := znstar.NewPaillierGroup(np(pq[0]), np(pq[1]))
		ev := map[string]any{"P": pq[0], "Q": pq[1], "grpok": err == nil, "testing": testing.Testing()}
		if err == nil {
			_, e1 := paillier.NewSecretKey(grp)
			_, e2 := paillier.NewPublicKey(grp.ForgetOrder())
			_, e3 := paillier.NewLegacySecretKey(grp)
			_, e4 := paillier.NewLegacyPublicKey(grp.ForgetOrder())
			ev["skok"], ev["pkok"], ev["lskok"], ev["lpkok"] = e1 == nil, e2 == nil, e3 == nil, e4 == nil
		}
		emit("p.floor", ev)
	}
}

// runBig: one 2048-bit key (accepted by the legacy constructor only) judged through an independent math/big model:
// booleans only (device T).
func runBig(seed uint64) {
	prng := tr.Rng(seed, 99)
	grp, err := znstar.SamplePaillierGroup(2048, &lockedReader{r: prng})
	if err != nil {
		emit("p.big", map[string]any{"ok": false})
		return
	}
	_, errNew := paillier.NewSecretKey(grp)
	sk, errLegacy := paillier.NewLegacySecretKey(grp)
	ev := map[string]any{"ok": true, "testing": testing.Testing(), "newok": errNew == nil, "legacyok": errLegacy == nil, "nbits": grp.N().TrueLen()}
	if errLegacy != nil {
		emit("p.big", ev)
		return
	}
	pk := sk.Public()
	N := grp.N().Big()
	N2 := new(big.Int).Mul(N, N)
	rnd := tr.PRand(seed, 7)
	allEq, allDec, allOpen, allHom := true, true, true, true
	for i := 0; i < 6; i++ {
		m := new(big.Int).Rand(rndSource(rnd), N)
		if i == 0 {
			m.SetInt64(0)
		}
		if i == 1 {
			m.Sub(N, big.NewInt(1))
		}
		r := new(big.Int).Rand(rndSource(rnd), N)
		if new(big.Int).GCD(nil, nil, r, N).Cmp(big.NewInt(1)) != 0 || r.Sign() == 0 {
			r.SetInt64(2)
		}
		mN, _ := num.N().FromBig(m)
		pt, _ := paillier.NewPlaintextFromNat(mN, grp.N())
		rP, _ := num.NPlus().FromBig(r)
		nc, _ := paillier.NewNonce(grp, rP)
		a, _ := pk.EncryptWithNonce(pt, nc)
		b, _ := sk.EncryptWithNonce(pt, nc)
		// textbook (1+N)^m r^N mod N^2
		want := new(big.Int).Exp(new(big.Int).Add(N, big.NewInt(1)), m, N2)
		want.Mul(want, new(big.Int).Exp(r, N, N2)).Mod(want, N2)
		allEq = allEq && a.Value().Value().Big().Cmp(want) == 0 && b.Value().Value().Big().Cmp(want) == 0
		d, _ := sk.Decrypt(a)
		allDec = allDec && d.Value().Big().Cmp(m) == 0
		om, or, _ := sk.Open(a)
		allOpen = allOpen && om.Value().Big().Cmp(m) == 0 && or.Value().Value().Big().Cmp(r) == 0
		s := num.Z().FromInt64(-3)
		h, _ := pk.CiphertextScalarOp(a, s)
		hd, _ := sk.Decrypt(h)
		wantM := new(big.Int).Mul(m, big.NewInt(-3))
		wantM.Mod(wantM, N)
		allHom = allHom && hd.Value().Big().Cmp(wantM) == 0
	}
	ev["enceq"], ev["decok"], ev["openok"], ev["homok"] = allEq, allDec, allOpen, allHom
	emit("p.big", ev)
}

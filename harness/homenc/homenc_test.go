package homenc

import (
	"os"
	"testing"
)

// TestMain turns the test binary into the driver: testing.Testing() is true, so the library's
// Paillier key-size floor is off and toy moduli are accepted.
func TestMain(m *testing.M) {
	args := os.Args[1:]
	for i, a := range args {
		if a == "--" {
			args = args[i+1:]
			break
		}
	}
	os.Exit(Main(args))
}

package homenc

import (
	"io"
	"math/rand"
	mrand2 "math/rand/v2"
	"sync"
)

type lockedReader struct {
	mu sync.Mutex
	r  io.Reader
}

func (l *lockedReader) Read(p []byte) (int, error) {
	l.mu.Lock()
	defer l.mu.Unlock()
	return l.r.Read(p)
}

// rndSource adapts a math/rand/v2 generator to the math/rand API big.Int.Rand wants.
func rndSource(r *mrand2.Rand) *rand.Rand { return rand.New(src{r}) }

type src struct{ r *mrand2.Rand }

func (s src) Int63() int64   { return int64(s.r.Uint64() >> 1) }
func (s src) Seed(int64)     {}
func (s src) Uint64() uint64 { return s.r.Uint64() }

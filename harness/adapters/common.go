// Package adapters wraps bron-crypto's round-based participants (instantiated on the toy
// group) as proto.Party machines over CBOR bytes, and projects their messages and outputs
// to plain integers (scalars; group elements as discrete logs) and tokens (hash-like bytes).
package adapters

import (
	"fmt"
	"sort"

	ds "github.com/bronlabs/bron-crypto/pkg/base/datastructures"
	"github.com/bronlabs/bron-crypto/pkg/base/datastructures/hashset"
	"github.com/bronlabs/bron-crypto/pkg/mpc"
	"github.com/bronlabs/bron-crypto/pkg/mpc/sharing"
	"github.com/bronlabs/bron-crypto/pkg/mpc/sharing/accessstructures"
	"github.com/bronlabs/bron-crypto/pkg/mpc/sharing/accessstructures/boolexpr"
	"github.com/bronlabs/bron-crypto/pkg/mpc/sharing/accessstructures/cnf"
	"github.com/bronlabs/bron-crypto/pkg/mpc/sharing/accessstructures/hierarchical"
	"github.com/bronlabs/bron-crypto/pkg/mpc/sharing/accessstructures/threshold"
	"github.com/bronlabs/bron-crypto/pkg/mpc/sharing/accessstructures/unanimity"
	"github.com/bronlabs/bron-crypto/pkg/mpc/sharing/scheme/kw"
	"github.com/bronlabs/bron-crypto/pkg/mpc/sharing/scheme/kw/msp"
	"github.com/bronlabs/bron-crypto/pkg/mpc/sharing/vss/feldman"

	"verif/harness/proto"
	"verif/harness/toy"
	"verif/harness/tr"
)

type ID = sharing.ID

type (
	G     = *toy.Elem
	S     = *toy.Scalar
	Shard = mpc.BaseShard[G, S]
	VV    = feldman.VerificationVector[G, S]
	Share = kw.Share[S]
)

func IDSet(ids ...ID) ds.Set[ID] { return hashset.NewComparable(ids...).Freeze() }

func SortedIDs(s ds.Set[ID]) []ID {
	out := s.List()
	sort.Slice(out, func(i, j int) bool { return out[i] < out[j] })
	return out
}

func IDsU(ids []ID) []uint64 {
	out := make([]uint64, len(ids))
	for i, id := range ids {
		out[i] = uint64(id)
	}
	return out
}

// Policy is the JSON-friendly description of an access structure shared with the TLA+ side.
//
//	{"kind":"threshold","t":2,"ids":[1,2,3]}
//	{"kind":"unanimity","ids":[1,2]}
//	{"kind":"cnf","ids":[1,2,3],"mus":[[1],[2,3]]}        maximal unqualified sets
//	{"kind":"hier","ids":[..],"levels":[{"t":1,"ids":[1,2]},{"t":3,"ids":[3,4]}]}  cumulative thresholds
//	{"kind":"gate","ids":[..],"tree":{"t":2,"kids":[{"id":1},{"id":2},{"t":1,"kids":[{"id":3},{"id":1}]}]}}
type Policy struct {
	Kind   string     `json:"kind"`
	T      int        `json:"t,omitempty"`
	IDs    []uint64   `json:"ids"`
	MUS    [][]uint64 `json:"mus,omitempty"`
	Levels []Level    `json:"levels,omitempty"`
	Tree   *Gate      `json:"tree,omitempty"`
}

type Level struct {
	T   int      `json:"t"`
	IDs []uint64 `json:"ids"`
}

type Gate struct {
	ID   uint64  `json:"id,omitempty"`
	T    int     `json:"t,omitempty"`
	Kids []*Gate `json:"kids,omitempty"`
}

func toIDs(us []uint64) []ID {
	out := make([]ID, len(us))
	for i, u := range us {
		out[i] = ID(u)
	}
	return out
}

func gateNode(g *Gate) *boolexpr.Node {
	if len(g.Kids) == 0 {
		return boolexpr.ID(ID(g.ID))
	}
	kids := make([]*boolexpr.Node, len(g.Kids))
	for i, k := range g.Kids {
		kids[i] = gateNode(k)
	}
	return boolexpr.Threshold(g.T, kids...)
}

// Build constructs the real access structure.
func (p *Policy) Build() (accessstructures.Monotone, error) {
	switch p.Kind {
	case "threshold":
		return threshold.NewThresholdAccessStructure(uint(p.T), IDSet(toIDs(p.IDs)...))
	case "unanimity":
		return unanimity.NewUnanimityAccessStructure(IDSet(toIDs(p.IDs)...))
	case "cnf":
		sets := make([]ds.Set[ID], len(p.MUS))
		for i, m := range p.MUS {
			sets[i] = IDSet(toIDs(m)...)
		}
		return cnf.NewCNFAccessStructure(sets...)
	case "hier":
		lv := make([]*hierarchical.ThresholdLevel, len(p.Levels))
		for i, l := range p.Levels {
			lv[i] = hierarchical.WithLevel(l.T, toIDs(l.IDs)...)
		}
		return hierarchical.NewHierarchicalConjunctiveThresholdAccessStructure(lv...)
	case "gate":
		return boolexpr.NewThresholdGateAccessStructure(gateNode(p.Tree))
	}
	return nil, fmt.Errorf("unknown policy kind %q", p.Kind)
}

// BuildListed builds the same access structure from a different LISTING of it: sets are sets, so the order in which a party's
// configuration happens to list the shareholders of a threshold / unanimity / level, or the maximal unqualified sets of a CNF
// (and the members of each), must not matter.  perm(n) returns a permutation of 0..n-1.
func (p *Policy) BuildListed(perm func(n int) []int) (accessstructures.Monotone, error) {
	sh := func(v []uint64) []uint64 {
		out := make([]uint64, len(v))
		for i, j := range perm(len(v)) {
			out[i] = v[j]
		}
		return out
	}
	q := *p
	switch p.Kind {
	case "threshold", "unanimity":
		q.IDs = sh(p.IDs)
	case "cnf":
		q.MUS = make([][]uint64, len(p.MUS))
		for i, j := range perm(len(p.MUS)) {
			q.MUS[i] = sh(p.MUS[j])
		}
	case "hier":
		q.Levels = make([]Level, len(p.Levels))
		for i, l := range p.Levels {
			q.Levels[i] = Level{T: l.T, IDs: sh(l.IDs)}
		}
	}
	return q.Build()
}

// MSPJ projects an MSP: matrix rows and the holder of each row.
func MSPJ(m *msp.MSP[S]) map[string]any {
	rows := tr.MatInts(m.Matrix())
	lab := make([]uint64, len(rows))
	for i := range rows {
		h, _ := m.RowsToHolders().Get(i)
		lab[i] = uint64(h)
	}
	return map[string]any{"M": rows, "lab": lab}
}

func ShareJ(s *Share) []uint64 {
	if s == nil {
		return []uint64{}
	}
	return tr.Ints(s.Value())
}

// VVJ projects a verification vector to the discrete logs of its entries.
func VVJ(v *VV) []uint64 {
	if v == nil {
		return []uint64{}
	}
	out := []uint64{}
	for e := range v.Value().Iter() {
		out = append(out, e.Log())
	}
	return out
}

// ShardJ projects a key shard.
func ShardJ(sh *Shard) map[string]any {
	if sh == nil {
		return map[string]any{"nil": true}
	}
	pkShares := map[string]any{}
	for id, ls := range sh.PublicKeyShares().Iter() {
		pkShares[fmt.Sprint(id)] = tr.Logs(ls.Value())
	}
	m := MSPJ(sh.MSP())
	return map[string]any{"nil": false, "id": uint64(sh.Share().ID()), "share": ShareJ(sh.Share()), "vv": VVJ(sh.VerificationVector()),
		"pk": sh.PublicKeyValue().Log(), "M": m["M"], "lab": m["lab"], "pkShares": pkShares}
}

var _ = proto.Tok

package adapters

import (
	"io"

	"github.com/bronlabs/bron-crypto/pkg/mpc/session"

	"verif/harness/proto"
)

// SessionParty wraps session.Participant (4 rounds).
type SessionParty struct {
	Id  ID
	P   *session.Participant
	Ctx *session.Context
}

func NewSessionParty(id ID, quorum []ID, prng io.Reader) (*SessionParty, error) {
	p, err := session.NewParticipant(id, IDSet(quorum...), prng)
	if err != nil {
		return nil, err
	}
	return &SessionParty{Id: id, P: p}, nil
}

func (s *SessionParty) ID() ID      { return s.Id }
func (s *SessionParty) Rounds() int { return 4 }

func (s *SessionParty) Round(k int, inB, inU map[ID][]byte) ([]byte, map[ID][]byte, error) {
	switch k {
	case 1:
		b, err := s.P.Round1()
		if err != nil {
			return nil, nil, err
		}
		return proto.Enc(b), nil, nil
	case 2:
		b1, err := proto.DecMap[*session.Round1Broadcast](inB)
		if err != nil {
			return nil, nil, err
		}
		b, u, err := s.P.Round2(b1)
		if err != nil {
			return nil, nil, err
		}
		return proto.Enc(b), proto.EncMap(u), nil
	case 3:
		b2, err := proto.DecMap[*session.Round2Broadcast](inB)
		if err != nil {
			return nil, nil, err
		}
		u2, err := proto.DecMap[*session.Round2P2P](inU)
		if err != nil {
			return nil, nil, err
		}
		u, err := s.P.Round3(b2, u2)
		if err != nil {
			return nil, nil, err
		}
		return nil, proto.EncMap(u), nil
	case 4:
		u3, err := proto.DecMap[*session.Round3P2P](inU)
		if err != nil {
			return nil, nil, err
		}
		ctx, err := s.P.Round4(u3)
		if err != nil {
			return nil, nil, err
		}
		s.Ctx = ctx
		return nil, nil, nil
	}
	panic("session: bad round")
}

// SetupSessions runs the real session protocol among ids and returns the contexts.
func SetupSessions(ids []ID, rng func(ID) io.Reader) (map[ID]*session.Context, error) {
	ps := []proto.Party{}
	sp := map[ID]*SessionParty{}
	for _, id := range ids {
		p, err := NewSessionParty(id, ids, rng(id))
		if err != nil {
			return nil, err
		}
		sp[id] = p
		ps = append(ps, p)
	}
	res := proto.Run(ps, nil, nil)
	if len(res.Rejects) > 0 {
		return nil, &RunError{Rej: res.Rejects[0]}
	}
	out := map[ID]*session.Context{}
	for id, p := range sp {
		out[id] = p.Ctx
	}
	return out, nil
}

type RunError struct{ Rej proto.Reject }

func (e *RunError) Error() string { return "protocol rejected: " + e.Rej.Err }

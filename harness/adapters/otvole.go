package adapters

import (
	"io"

	rvole "github.com/bronlabs/bron-crypto/pkg/mpc/rvole/bbot"
	"github.com/bronlabs/bron-crypto/pkg/mpc/session"
	"github.com/bronlabs/bron-crypto/pkg/ot/base/ecbbot"

	"verif/harness/proto"
	"verif/harness/toy"
)

// Two-party protocols as proto.Party machines: the party that has nothing to do in a round returns nothing.

// OTSender: ecbbot sender (acts in rounds 1 and 3).
type OTSender struct {
	Id, Peer ID
	S        *ecbbot.Sender[G, S]
	Out      *ecbbot.SenderOutput[S]
}

// OTReceiver: ecbbot receiver (acts in round 2).
type OTReceiver struct {
	Id, Peer ID
	R        *ecbbot.Receiver[G, S]
	Choices  []byte
	Out      *ecbbot.ReceiverOutput[S]
}

func NewOTPair(cs, cr *session.Context, xi, l int, choices []byte, rs, rr io.Reader) (*OTSender, *OTReceiver, error) {
	suite, err := ecbbot.NewSuite(xi, l, toy.NewGroup())
	if err != nil {
		return nil, nil, err
	}
	s, err := ecbbot.NewSender(cs, suite, rs)
	if err != nil {
		return nil, nil, err
	}
	r, err := ecbbot.NewReceiver(cr, suite, rr)
	if err != nil {
		return nil, nil, err
	}
	return &OTSender{Id: cs.HolderID(), Peer: cr.HolderID(), S: s}, &OTReceiver{Id: cr.HolderID(), Peer: cs.HolderID(), R: r, Choices: choices}, nil
}

func (s *OTSender) ID() ID      { return s.Id }
func (s *OTSender) Rounds() int { return 3 }
func (s *OTSender) Round(k int, _, inU map[ID][]byte) ([]byte, map[ID][]byte, error) {
	switch k {
	case 1:
		m, err := s.S.Round1()
		if err != nil {
			return nil, nil, err
		}
		return nil, map[ID][]byte{s.Peer: proto.Enc(m)}, nil
	case 2:
		return nil, nil, nil
	case 3:
		in, err := proto.DecMap[*ecbbot.Round2P2P[G, S]](inU)
		if err != nil {
			return nil, nil, err
		}
		m, ok := in.Get(s.Peer)
		if !ok {
			return nil, nil, &proto.DecodeError{From: s.Peer, Err: io.ErrUnexpectedEOF}
		}
		out, err := s.S.Round3(m)
		if err != nil {
			return nil, nil, err
		}
		s.Out = out
		return nil, nil, nil
	}
	panic("ot sender: bad round")
}

func (r *OTReceiver) ID() ID      { return r.Id }
func (r *OTReceiver) Rounds() int { return 2 }
func (r *OTReceiver) Round(k int, _, inU map[ID][]byte) ([]byte, map[ID][]byte, error) {
	switch k {
	case 1:
		return nil, nil, nil
	case 2:
		in, err := proto.DecMap[*ecbbot.Round1P2P[G, S]](inU)
		if err != nil {
			return nil, nil, err
		}
		m, ok := in.Get(r.Peer)
		if !ok {
			return nil, nil, &proto.DecodeError{From: r.Peer, Err: io.ErrUnexpectedEOF}
		}
		out, ro, err := r.R.Round2(m, r.Choices)
		if err != nil {
			return nil, nil, err
		}
		r.Out = ro
		return nil, map[ID][]byte{r.Peer: proto.Enc(out)}, nil
	}
	panic("ot receiver: bad round")
}

// VoleAlice / VoleBob: random-VOLE multiplication over ecbbot (Alice acts in rounds 1 and 3, Bob in 2 and 4).
type VoleAlice struct {
	Id, Peer ID
	A        *rvole.Alice[G, S]
	In       []S
	C        []S
}

type VoleBob struct {
	Id, Peer ID
	B        *rvole.Bob[G, S]
	Bv       S
	D        []S
}

func NewVolePair(ca, cb *session.Context, l int, a []S, ra, rb io.Reader) (*VoleAlice, *VoleBob, error) {
	suite, err := rvole.NewSuite(l, toy.NewGroup())
	if err != nil {
		return nil, nil, err
	}
	al, err := rvole.NewAlice(ca, suite, ra)
	if err != nil {
		return nil, nil, err
	}
	bo, err := rvole.NewBob(cb, suite, rb)
	if err != nil {
		return nil, nil, err
	}
	return &VoleAlice{Id: ca.HolderID(), Peer: cb.HolderID(), A: al, In: a}, &VoleBob{Id: cb.HolderID(), Peer: ca.HolderID(), B: bo}, nil
}

func one[T any](in map[ID][]byte, from ID) (T, error) {
	var zero T
	m, err := proto.DecMap[T](in)
	if err != nil {
		return zero, err
	}
	v, ok := m.Get(from)
	if !ok {
		return zero, &proto.DecodeError{From: from, Err: io.ErrUnexpectedEOF}
	}
	return v, nil
}

func (a *VoleAlice) ID() ID      { return a.Id }
func (a *VoleAlice) Rounds() int { return 3 }
func (a *VoleAlice) Round(k int, _, inU map[ID][]byte) ([]byte, map[ID][]byte, error) {
	switch k {
	case 1:
		m, err := a.A.Round1()
		if err != nil {
			return nil, nil, err
		}
		return nil, map[ID][]byte{a.Peer: proto.Enc(m)}, nil
	case 2:
		return nil, nil, nil
	case 3:
		m, err := one[*rvole.Round2P2P[G, S]](inU, a.Peer)
		if err != nil {
			return nil, nil, err
		}
		out, c, err := a.A.Round3(m, a.In)
		if err != nil {
			return nil, nil, err
		}
		a.C = c
		return nil, map[ID][]byte{a.Peer: proto.Enc(out)}, nil
	}
	panic("vole alice: bad round")
}

func (b *VoleBob) ID() ID      { return b.Id }
func (b *VoleBob) Rounds() int { return 4 }
func (b *VoleBob) Round(k int, _, inU map[ID][]byte) ([]byte, map[ID][]byte, error) {
	switch k {
	case 1, 3:
		return nil, nil, nil
	case 2:
		m, err := one[*rvole.Round1P2P[G, S]](inU, b.Peer)
		if err != nil {
			return nil, nil, err
		}
		out, bv, err := b.B.Round2(m)
		if err != nil {
			return nil, nil, err
		}
		b.Bv = bv
		return nil, map[ID][]byte{b.Peer: proto.Enc(out)}, nil
	case 4:
		m, err := one[*rvole.Round3P2P[G, S]](inU, b.Peer)
		if err != nil {
			return nil, nil, err
		}
		d, err := b.B.Round4(m)
		if err != nil {
			return nil, nil, err
		}
		b.D = d
		return nil, nil, nil
	}
	panic("vole bob: bad round")
}

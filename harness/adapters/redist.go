package adapters

import (
	"io"

	"github.com/bronlabs/bron-crypto/pkg/mpc/redistribute"
	"github.com/bronlabs/bron-crypto/pkg/mpc/session"
	"github.com/bronlabs/bron-crypto/pkg/mpc/sharing/accessstructures"
	"github.com/bronlabs/bron-crypto/pkg/mpc/sharing/vss/feldman"
	"github.com/bronlabs/bron-crypto/pkg/mpc/zero/hjky"

	"verif/harness/proto"
	"verif/harness/toy"
)

// HJKYParty wraps hjky.Participant (2 rounds).
type HJKYParty struct {
	Id       ID
	P        *hjky.Participant[G, S]
	OutShare *Share
	OutVV    *VV
}

func NewHJKYParty(ctx *session.Context, as accessstructures.Monotone, prng io.Reader) (*HJKYParty, error) {
	p, err := hjky.NewParticipant(ctx, as, toy.NewGroup(), prng)
	if err != nil {
		return nil, err
	}
	return &HJKYParty{Id: ctx.HolderID(), P: p}, nil
}

func (h *HJKYParty) ID() ID      { return h.Id }
func (h *HJKYParty) Rounds() int { return 2 }
func (h *HJKYParty) Round(k int, inB, inU map[ID][]byte) ([]byte, map[ID][]byte, error) {
	switch k {
	case 1:
		b, u, err := h.P.Round1()
		if err != nil {
			return nil, nil, err
		}
		return proto.Enc(b), proto.EncMap(u), nil
	case 2:
		b1, err := proto.DecMap[*hjky.Round1Broadcast[G, S]](inB)
		if err != nil {
			return nil, nil, err
		}
		u1, err := proto.DecMap[*hjky.Round1P2P[G, S]](inU)
		if err != nil {
			return nil, nil, err
		}
		sh, vv, err := h.P.Round2(b1, u1)
		if err != nil {
			return nil, nil, err
		}
		h.OutShare, h.OutVV = sh, vv
		return nil, nil, nil
	}
	panic("hjky: bad round")
}

// RedistParty wraps redistribute.Participant (3 rounds).
type RedistParty struct {
	Id  ID
	P   *redistribute.Participant[G, S]
	Out *Shard
}

func NewRedistParty(ctx *session.Context, prev []ID, prevShard *Shard, next accessstructures.Monotone, prng io.Reader, anchor ID) (*RedistParty, error) {
	opts := []redistribute.Option{}
	if anchor != 0 {
		opts = append(opts, redistribute.WithTrustedAnchorID(anchor))
	}
	p, err := redistribute.NewParticipant(ctx, IDSet(prev...), prevShard, next, prng, opts...)
	if err != nil {
		return nil, err
	}
	return &RedistParty{Id: ctx.HolderID(), P: p}, nil
}

func (r *RedistParty) ID() ID      { return r.Id }
func (r *RedistParty) Rounds() int { return 3 }
func (r *RedistParty) Round(k int, inB, inU map[ID][]byte) ([]byte, map[ID][]byte, error) {
	switch k {
	case 1:
		b, u, err := r.P.Round1()
		if err != nil {
			return nil, nil, err
		}
		return proto.Enc(b), proto.EncMap(u), nil
	case 2:
		b1, err := proto.DecMap[*redistribute.Round1Broadcast[G, S]](inB)
		if err != nil {
			return nil, nil, err
		}
		u1, err := proto.DecMap[*redistribute.Round1P2P[G, S]](inU)
		if err != nil {
			return nil, nil, err
		}
		b, u, err := r.P.Round2(b1, u1)
		if err != nil {
			return nil, nil, err
		}
		return proto.Enc(b), proto.EncMap(u), nil
	case 3:
		b2, err := proto.DecMap[*redistribute.Round2Broadcast[G, S]](inB)
		if err != nil {
			return nil, nil, err
		}
		u2, err := proto.DecMap[*redistribute.Round2P2P[G, S]](inU)
		if err != nil {
			return nil, nil, err
		}
		out, err := r.P.Round3(b2, u2)
		if err != nil {
			return nil, nil, err
		}
		r.Out = out
		return nil, nil, nil
	}
	panic("redistribute: bad round")
}

var _ = feldman.NewScheme[G, S]

package adapters

import (
	"io"

	"github.com/bronlabs/bron-crypto/pkg/mpc/dkg/canetti"
	"github.com/bronlabs/bron-crypto/pkg/mpc/dkg/gennaro"
	"github.com/bronlabs/bron-crypto/pkg/mpc/session"
	"github.com/bronlabs/bron-crypto/pkg/mpc/sharing/accessstructures"
	"github.com/bronlabs/bron-crypto/pkg/proofs/sigma/compiler"

	"verif/harness/proto"
	"verif/harness/toy"
)

// GennaroParty wraps gennaro.Participant (3 rounds).
type GennaroParty struct {
	Id  ID
	P   *gennaro.Participant[G, S]
	Out *Shard
}

func NewGennaroParty(ctx *session.Context, as accessstructures.Monotone, comp compiler.Name, prng io.Reader) (*GennaroParty, error) {
	p, err := gennaro.NewParticipant(ctx, toy.NewGroup(), as, comp, prng)
	if err != nil {
		return nil, err
	}
	return &GennaroParty{Id: ctx.HolderID(), P: p}, nil
}

func (g *GennaroParty) ID() ID      { return g.Id }
func (g *GennaroParty) Rounds() int { return 3 }
func (g *GennaroParty) Round(k int, inB, inU map[ID][]byte) ([]byte, map[ID][]byte, error) {
	switch k {
	case 1:
		b, u, err := g.P.Round1()
		if err != nil {
			return nil, nil, err
		}
		return proto.Enc(b), proto.EncMap(u), nil
	case 2:
		b1, err := proto.DecMap[*gennaro.Round1Broadcast[G, S]](inB)
		if err != nil {
			return nil, nil, err
		}
		u1, err := proto.DecMap[*gennaro.Round1Unicast[G, S]](inU)
		if err != nil {
			return nil, nil, err
		}
		b, err := g.P.Round2(b1, u1)
		if err != nil {
			return nil, nil, err
		}
		return proto.Enc(b), nil, nil
	case 3:
		b2, err := proto.DecMap[*gennaro.Round2Broadcast[G, S]](inB)
		if err != nil {
			return nil, nil, err
		}
		out, err := g.P.Round3(b2)
		if err != nil {
			return nil, nil, err
		}
		g.Out = out
		return nil, nil, nil
	}
	panic("gennaro: bad round")
}

// CanettiParty wraps canetti.Participant (4 rounds).
type CanettiParty struct {
	Id  ID
	P   *canetti.Participant[G, S]
	Out *Shard
}

func NewCanettiParty(ctx *session.Context, as accessstructures.Monotone, prng io.Reader) (*CanettiParty, error) {
	p, err := canetti.NewParticipant(ctx, as, toy.NewGroup(), prng)
	if err != nil {
		return nil, err
	}
	return &CanettiParty{Id: ctx.HolderID(), P: p}, nil
}

func (c *CanettiParty) ID() ID      { return c.Id }
func (c *CanettiParty) Rounds() int { return 4 }
func (c *CanettiParty) Round(k int, inB, inU map[ID][]byte) ([]byte, map[ID][]byte, error) {
	switch k {
	case 1:
		b, err := c.P.Round1()
		if err != nil {
			return nil, nil, err
		}
		return proto.Enc(b), nil, nil
	case 2:
		b1, err := proto.DecMap[*canetti.Round1Broadcast[G, S]](inB)
		if err != nil {
			return nil, nil, err
		}
		b, u, err := c.P.Round2(b1)
		if err != nil {
			return nil, nil, err
		}
		return proto.Enc(b), proto.EncMap(u), nil
	case 3:
		b2, err := proto.DecMap[*canetti.Round2Broadcast[G, S]](inB)
		if err != nil {
			return nil, nil, err
		}
		u2, err := proto.DecMap[*canetti.Round2P2P[G, S]](inU)
		if err != nil {
			return nil, nil, err
		}
		b, err := c.P.Round3(b2, u2)
		if err != nil {
			return nil, nil, err
		}
		return proto.Enc(b), nil, nil
	case 4:
		b3, err := proto.DecMap[*canetti.Round3Broadcast[G, S]](inB)
		if err != nil {
			return nil, nil, err
		}
		out, err := c.P.Round4(b3)
		if err != nil {
			return nil, nil, err
		}
		c.Out = out
		return nil, nil, nil
	}
	panic("canetti: bad round")
}

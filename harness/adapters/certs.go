package adapters

import (
	"sort"

	"verif/harness/toy"
)

// Certificates for the span test "e0 is in the row space of the rows owned by S":
//   spans:     w with  w * M_S = e0             (one coefficient per selected row)
//   not spans: w with  M_S * w = 0 and w[0] = 1 (kernel vector; exists iff e0 is outside the row space)
// They are computed here by plain Gaussian elimination over Z_q and only CHECKED on the TLA+ side, so a
// mistake in this file can make a trace unverifiable (machinery error) but never make a wrong verdict pass.

type Cert struct {
	Tag   string   `json:"tag"`
	Set   []uint64 `json:"set"`
	Spans bool     `json:"spans"`
	W     []uint64 `json:"w"`
}

func inv(a uint64) uint64 {
	r, b, e := uint64(1), a%toy.Q, toy.Q-2
	for e > 0 {
		if e&1 == 1 {
			r = r * b % toy.Q
		}
		b = b * b % toy.Q
		e >>= 1
	}
	return r
}

// solve finds x with A x = b (A is m x n) or returns nil.
func solve(A [][]uint64, b []uint64) []uint64 {
	q := toy.Q
	m := len(A)
	if m == 0 {
		return nil
	}
	n := len(A[0])
	aug := make([][]uint64, m)
	for i := range A {
		aug[i] = append(append([]uint64(nil), A[i]...), b[i])
	}
	piv := []int{}
	r := 0
	for c := 0; c < n && r < m; c++ {
		p := -1
		for i := r; i < m; i++ {
			if aug[i][c] != 0 {
				p = i
				break
			}
		}
		if p < 0 {
			continue
		}
		aug[r], aug[p] = aug[p], aug[r]
		iv := inv(aug[r][c])
		for j := range aug[r] {
			aug[r][j] = aug[r][j] * iv % q
		}
		for i := 0; i < m; i++ {
			if i != r && aug[i][c] != 0 {
				f := aug[i][c]
				for j := range aug[i] {
					aug[i][j] = (aug[i][j] + q - f*aug[r][j]%q) % q
				}
			}
		}
		piv = append(piv, c)
		r++
	}
	for i := r; i < m; i++ {
		if aug[i][n] != 0 {
			return nil
		}
	}
	x := make([]uint64, n)
	for i, c := range piv {
		x[c] = aug[i][n]
	}
	return x
}

// SpanCert computes the certificate for the sub-matrix of the rows labelled by a member of set.
func SpanCert(tag string, M [][]uint64, lab []uint64, set []uint64) Cert {
	in := map[uint64]bool{}
	for _, s := range set {
		in[s] = true
	}
	rows := [][]uint64{}
	for k, h := range lab {
		if in[h] {
			rows = append(rows, M[k])
		}
	}
	ss := append([]uint64(nil), set...)
	sort.Slice(ss, func(i, j int) bool { return ss[i] < ss[j] })
	n := len(M[0])
	// w * rows = e0  <=>  rows^T w^T = e0
	T := make([][]uint64, n)
	for j := 0; j < n; j++ {
		T[j] = make([]uint64, len(rows))
		for i := range rows {
			T[j][i] = rows[i][j]
		}
	}
	e0 := make([]uint64, n)
	e0[0] = 1
	if len(rows) > 0 {
		if w := solve(T, e0); w != nil {
			return Cert{Tag: tag, Set: ss, Spans: true, W: w}
		}
	}
	// kernel vector with first coordinate 1: rows * (1, y) = 0  <=>  rows[:,1:] y = -rows[:,0]
	if n == 1 {
		// only possible if every selected first entry is zero
		return Cert{Tag: tag, Set: ss, Spans: false, W: []uint64{1}}
	}
	B := make([][]uint64, len(rows))
	c := make([]uint64, len(rows))
	for i := range rows {
		B[i] = rows[i][1:]
		c[i] = (toy.Q - rows[i][0]) % toy.Q
	}
	var y []uint64
	if len(rows) == 0 {
		y = make([]uint64, n-1)
	} else {
		y = solve(B, c)
	}
	if y == nil {
		panic("SpanCert: neither a span nor a kernel certificate exists (harness bug)")
	}
	return Cert{Tag: tag, Set: ss, Spans: false, W: append([]uint64{1}, y...)}
}

// AllCerts returns the certificates of every non-empty subset of the labels' holders.
func AllCerts(tag string, M [][]uint64, lab []uint64) []Cert {
	hs := []uint64{}
	seen := map[uint64]bool{}
	for _, h := range lab {
		if !seen[h] {
			seen[h] = true
			hs = append(hs, h)
		}
	}
	sort.Slice(hs, func(i, j int) bool { return hs[i] < hs[j] })
	out := []Cert{}
	for m := 1; m < 1<<len(hs); m++ {
		s := []uint64{}
		for i, h := range hs {
			if m&(1<<i) != 0 {
				s = append(s, h)
			}
		}
		out = append(out, SpanCert(tag, M, lab, s))
	}
	return out
}

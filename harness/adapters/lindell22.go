package adapters

import (
	"crypto/sha256"
	"io"

	"github.com/bronlabs/bron-crypto/pkg/mpc/session"
	mpcschnorr "github.com/bronlabs/bron-crypto/pkg/mpc/signatures/schnorr"
	"github.com/bronlabs/bron-crypto/pkg/mpc/signatures/schnorr/lindell22"
	"github.com/bronlabs/bron-crypto/pkg/mpc/signatures/schnorr/lindell22/signing"
	"github.com/bronlabs/bron-crypto/pkg/proofs/sigma/compiler"
	"github.com/bronlabs/bron-crypto/pkg/signatures/schnorrlike"
	vanilla "github.com/bronlabs/bron-crypto/pkg/signatures/schnorrlike/schnorr"

	"verif/harness/proto"
	"verif/harness/toy"
)

type (
	SchnorrShard = mpcschnorr.Shard[G, S]
	PSig         = lindell22.PartialSignature[G, S]
	Sig          = schnorrlike.Signature[G, S]
	Msg          = vanilla.Message
	Cosigner     = signing.Cosigner[G, S, Msg]
)

// NewSchnorrScheme: the library's configurable Schnorr scheme on the toy group (SHA-256, s = k + e x).
func NewSchnorrScheme(prng io.Reader) (*vanilla.Scheme[G, S], error) {
	return vanilla.NewScheme(toy.NewGroup(), sha256.New, false, false, nil, prng)
}

func ToSchnorrShard(sh *Shard) (*SchnorrShard, error) {
	return mpcschnorr.NewShard(sh.Share(), sh.VerificationVector(), sh.MSP())
}

// L22Party wraps signing.Cosigner (3 rounds; the partial signature is the output).
type L22Party struct {
	Id      ID
	C       *Cosigner
	Message Msg
	PSig    *PSig
}

func NewL22Party(ctx *session.Context, shard *SchnorrShard, comp compiler.Name, message []byte, prng io.Reader) (*L22Party, error) {
	sch, err := NewSchnorrScheme(prng)
	if err != nil {
		return nil, err
	}
	c, err := signing.NewCosigner(ctx, shard, comp, sch.Variant(), prng)
	if err != nil {
		return nil, err
	}
	return &L22Party{Id: ctx.HolderID(), C: c, Message: Msg(message)}, nil
}

func (l *L22Party) ID() ID      { return l.Id }
func (l *L22Party) Rounds() int { return 3 }
func (l *L22Party) Round(k int, inB, inU map[ID][]byte) ([]byte, map[ID][]byte, error) {
	switch k {
	case 1:
		b, u, err := l.C.Round1()
		if err != nil {
			return nil, nil, err
		}
		return proto.Enc(b), proto.EncMap(u), nil
	case 2:
		b1, err := proto.DecMap[*signing.Round1Broadcast[G, S, Msg]](inB)
		if err != nil {
			return nil, nil, err
		}
		u1, err := proto.DecMap[*signing.Round1P2P[G, S, Msg]](inU)
		if err != nil {
			return nil, nil, err
		}
		b, err := l.C.Round2(b1, u1)
		if err != nil {
			return nil, nil, err
		}
		return proto.Enc(b), nil, nil
	case 3:
		b2, err := proto.DecMap[*signing.Round2Broadcast[G, S, Msg]](inB)
		if err != nil {
			return nil, nil, err
		}
		ps, err := l.C.Round3(b2, l.Message)
		if err != nil {
			return nil, nil, err
		}
		l.PSig = ps
		return nil, nil, nil
	}
	panic("lindell22: bad round")
}

// Package scen builds, deterministically from seeded per-party random streams, the parties of one run of each
// toy-capable protocol; shared by the deviation-matrix driver (cmd/tamper) and the two-run driver (cmd/tworun).
package scen

import (
	"fmt"
	"io"
	"sync"

	"github.com/bronlabs/bron-crypto/pkg/base/datastructures/hashmap"
	"github.com/bronlabs/bron-crypto/pkg/base/serde"
	"github.com/bronlabs/bron-crypto/pkg/mpc/dkg/trusteddealer"
	"github.com/bronlabs/bron-crypto/pkg/mpc/sharing/vss/feldman"
	"github.com/bronlabs/bron-crypto/pkg/mpc/zero/przs"
	"github.com/bronlabs/bron-crypto/pkg/mpc/signatures/schnorr/lindell22/signing"
	"github.com/bronlabs/bron-crypto/pkg/proofs/sigma/compiler/fiatshamir"

	ad "verif/harness/adapters"
	"verif/harness/proto"
	"verif/harness/toy"
	"verif/harness/tr"
)

// A scenario builds, deterministically from a seed, the parties of one protocol run and a function
// that projects the outputs of the parties that completed.
type ID = ad.ID

type Built struct {
	Parties []proto.Party
	Outputs func(completed []ID) map[string]any
	Trusted ID          // a party that must not be the deviator (redistribution anchor), 0 if none
	IsPrev  map[ID]bool // redistribution: previous holders (nil elsewhere)
}

type Scenario struct {
	Name  string
	Build func(st *Streams) *Built
}

// Streams hands every party two deterministic random streams: a set-up stream (session establishment, dealing of
// the key material the run starts from) and a protocol stream (everything the protocol under study samples).
// Alt overrides the seed of one party's protocol stream (two-run experiments); AltSetup likewise for the set-up stream.
// Every reader handed out is recorded.
type Streams struct {
	Seed     uint64
	Alt      map[ID]uint64
	AltSetup map[ID]uint64
	Fault    map[ID]int       // one-shot read fault: the n-th Read call (1-based) of the party's protocol stream fails once
	Rec      map[ID]*Recorder // protocol-stream recorders
	nSetup   map[ID]uint64
	nProto   map[ID]uint64
}

func NewStreams(seed uint64) *Streams {
	return &Streams{Seed: seed, Alt: map[ID]uint64{}, AltSetup: map[ID]uint64{}, Fault: map[ID]int{}, Rec: map[ID]*Recorder{}, nSetup: map[ID]uint64{}, nProto: map[ID]uint64{}}
}

// Setup returns the next set-up reader of party id.
func (st *Streams) Setup(id ID) io.Reader {
	st.nSetup[id]++
	sd := st.Seed
	if a, ok := st.AltSetup[id]; ok {
		sd = a
	}
	return tr.Rng(sd, 100000+uint64(id)*1000+st.nSetup[id])
}

// Proto returns the (single, recorded) protocol reader of party id.
func (st *Streams) Proto(id ID) io.Reader {
	if r, ok := st.Rec[id]; ok {
		return r
	}
	sd := st.Seed
	if a, ok := st.Alt[id]; ok {
		sd = a
	}
	r := &Recorder{R: tr.Rng(sd, 900000+uint64(id)), FailAt: st.Fault[id]}
	st.Rec[id] = r
	return r
}

// Recorder records every read of a party's protocol stream.
type Recorder struct {
	mu    sync.Mutex
	R     io.Reader
	Round int
	Reads []Read
	ByRnd map[int]int
	// fault injection: the FailAt-th call fails once (nothing is consumed); later calls succeed again (a transient fault)
	FailAt    int
	Calls     int
	FailRound int // round in which the fault was delivered (0: never reached)
}

// ErrInjected is what a faulted read returns.
var ErrInjected = fmt.Errorf("injected read fault")

type Read struct {
	Round int
	Data  []byte
}

func (r *Recorder) Read(p []byte) (int, error) {
	r.mu.Lock()
	defer r.mu.Unlock()
	r.Calls++
	if r.FailAt > 0 && r.Calls == r.FailAt {
		r.FailRound = r.Round
		if r.FailRound == 0 {
			r.FailRound = -1 // before the first round (constructor)
		}
		return 0, ErrInjected
	}
	n, err := r.R.Read(p)
	if n > 0 {
		r.Reads = append(r.Reads, Read{Round: r.Round, Data: append([]byte(nil), p[:n]...)})
		if r.ByRnd == nil {
			r.ByRnd = map[int]int{}
		}
		r.ByRnd[r.Round] += n
	}
	return n, err
}

// tracked wraps a party so that its recorder knows the current round.
type tracked struct {
	proto.Party
	rec *Recorder
}

func (t *tracked) Round(k int, inB, inU map[ID][]byte) ([]byte, map[ID][]byte, error) {
	if t.rec != nil {
		t.rec.Round = k
	}
	return t.Party.Round(k, inB, inU)
}

func (st *Streams) track(ps []proto.Party) []proto.Party {
	out := make([]proto.Party, len(ps))
	for i, p := range ps {
		out[i] = &tracked{Party: p, rec: st.Rec[p.ID()]}
	}
	return out
}

func pol3() *ad.Policy { return &ad.Policy{Kind: "threshold", T: 2, IDs: []uint64{1, 2, 3}} }

func shardOut(get func(ID) *ad.Shard) func([]ID) map[string]any {
	return func(completed []ID) map[string]any {
		out := map[string]any{}
		for _, id := range completed {
			if sh := get(id); sh != nil {
				out[fmt.Sprint(uint64(id))] = ad.ShardJ(sh)
			}
		}
		return map[string]any{"kind": "shard", "by": out}
	}
}

func Scenarios() []Scenario {
	return []Scenario{
		{"session", func(st *Streams) *Built {
			ids := []ID{1, 2, 3}
			sp := map[ID]*ad.SessionParty{}
			ps := []proto.Party{}
			for _, id := range ids {
				p, err := ad.NewSessionParty(id, ids, st.Proto(id))
				if err != nil {
					panic(err)
				}
				sp[id] = p
				ps = append(ps, p)
			}
			return &Built{Parties: st.track(ps), Outputs: func(completed []ID) map[string]any {
				out := map[string]any{}
				for _, id := range completed {
					c := sp[id].Ctx
					sid := c.SessionID()
					seeds := map[string]any{}
					for peer, rd := range c.Seeds() {
						buf := make([]byte, 32)
						io.ReadFull(rd, buf)
						seeds[fmt.Sprint(uint64(peer))] = proto.Tok(buf)
					}
					tb, _ := c.Transcript().Clone().ExtractBytes("verif-probe", 32)
					// what a protocol derives under a sub-quorum: pairwise seeds and a pseudorandom zero share of the sub-context
					sub := map[string]any{}
					if id != 3 {
						if sc, err := c.SubContext(ad.IDSet(1, 2)); err == nil {
							for peer, rd := range sc.Seeds() {
								buf := make([]byte, 32)
								io.ReadFull(rd, buf)
								sub["seed"+fmt.Sprint(uint64(peer))] = proto.Tok(buf)
							}
							if zs, err := przs.SampleZeroShare(sc, toy.NewGroup()); err == nil {
								sub["zero"] = proto.Tok(zs.Value().Bytes())
							}
						}
					}
					out[fmt.Sprint(uint64(id))] = map[string]any{"sid": proto.Tok(sid[:]), "tr": proto.Tok(tb), "seeds": seeds, "sub": sub}
				}
				return map[string]any{"kind": "session", "by": out}
			}}
		}},
		{"hjky", func(st *Streams) *Built {
			ids := []ID{1, 2, 3}
			ctxs, err := ad.SetupSessions(ids, st.Setup)
			if err != nil {
				panic(err)
			}
			as, _ := pol3().Build()
			hp := map[ID]*ad.HJKYParty{}
			ps := []proto.Party{}
			for _, id := range ids {
				p, err := ad.NewHJKYParty(ctxs[id], as, st.Proto(id))
				if err != nil {
					panic(err)
				}
				hp[id] = p
				ps = append(ps, p)
			}
			return &Built{Parties: st.track(ps), Outputs: func(completed []ID) map[string]any {
				out := map[string]any{}
				var M, lab any
				for _, id := range completed {
					out[fmt.Sprint(uint64(id))] = map[string]any{"share": ad.ShareJ(hp[id].OutShare), "vv": ad.VVJ(hp[id].OutVV)}
				}
				sch, _ := feldman.NewScheme(toy.NewGroup(), as)
				m := ad.MSPJ(sch.MSP())
				M, lab = m["M"], m["lab"]
				return map[string]any{"kind": "zero", "by": out, "M": M, "lab": lab}
			}}
		}},
		{"redist", func(st *Streams) *Built { return buildRedist(st, []ID{1, 2}, []uint64{1, 2, 3}, 0) }},
		{"redistAnchor", func(st *Streams) *Built { return buildRedist(st, []ID{1, 2, 3}, []uint64{2, 3, 4}, 1) }},
		{"redistNew", func(st *Streams) *Built { return buildRedist(st, []ID{1, 2}, []uint64{3, 4}, 0) }}, // all receivers are newcomers without anchor
		{"gennaro", func(st *Streams) *Built {
			ids := []ID{1, 2, 3}
			ctxs, err := ad.SetupSessions(ids, st.Setup)
			if err != nil {
				panic(err)
			}
			as, _ := pol3().Build()
			gp := map[ID]*ad.GennaroParty{}
			ps := []proto.Party{}
			for _, id := range ids {
				p, err := ad.NewGennaroParty(ctxs[id], as, fiatshamir.Name, st.Proto(id))
				if err != nil {
					panic(err)
				}
				gp[id] = p
				ps = append(ps, p)
			}
			return &Built{Parties: st.track(ps), Outputs: shardOut(func(id ID) *ad.Shard { return gp[id].Out })}
		}},
		{"canetti", func(st *Streams) *Built {
			ids := []ID{1, 2, 3}
			ctxs, err := ad.SetupSessions(ids, st.Setup)
			if err != nil {
				panic(err)
			}
			as, _ := pol3().Build()
			cp := map[ID]*ad.CanettiParty{}
			ps := []proto.Party{}
			for _, id := range ids {
				p, err := ad.NewCanettiParty(ctxs[id], as, st.Proto(id))
				if err != nil {
					panic(err)
				}
				cp[id] = p
				ps = append(ps, p)
			}
			return &Built{Parties: st.track(ps), Outputs: shardOut(func(id ID) *ad.Shard { return cp[id].Out })}
		}},
		{"ecbbot", func(st *Streams) *Built {
			ids := []ID{1, 2}
			ctxs, err := ad.SetupSessions(ids, st.Setup)
			if err != nil {
				panic(err)
			}
			choices := make([]byte, 2) // xi = 16 instances
			io.ReadFull(st.Setup(2), choices)
			snd, rcv, err := ad.NewOTPair(ctxs[1], ctxs[2], 16, 2, choices, st.Proto(1), st.Proto(2))
			if err != nil {
				panic(err)
			}
			return &Built{Parties: st.track([]proto.Party{snd, rcv}), Outputs: func(completed []ID) map[string]any {
				out := map[string]any{"kind": "ot", "done": ad.IDsU(completed), "big": toy.Big}
				if snd.Out != nil && rcv.Out != nil && len(completed) == 2 {
					bits := []int{}
					for i := 0; i < 16; i++ {
						bits = append(bits, int((choices[i/8]>>(i%8))&1))
					}
					s0, s1, rv := [][]uint64{}, [][]uint64{}, [][]uint64{}
					for i := 0; i < 16; i++ {
						s0 = append(s0, tr.Ints(snd.Out.Messages[i][0]))
						s1 = append(s1, tr.Ints(snd.Out.Messages[i][1]))
						rv = append(rv, tr.Ints(rcv.Out.Messages[i]))
					}
					out["choices"], out["s0"], out["s1"], out["recv"] = bits, s0, s1, rv
				}
				return out
			}}
		}},
		{"rvole", func(st *Streams) *Built {
			ids := []ID{1, 2}
			ctxs, err := ad.SetupSessions(ids, st.Setup)
			if err != nil {
				panic(err)
			}
			L := 2
			a := make([]ad.S, L)
			for i := range a {
				a[i], _ = toy.NewScalarField().Random(st.Setup(1))
			}
			al, bo, err := ad.NewVolePair(ctxs[1], ctxs[2], L, a, st.Proto(1), st.Proto(2))
			if err != nil {
				panic(err)
			}
			return &Built{Parties: st.track([]proto.Party{al, bo}), Outputs: func(completed []ID) map[string]any {
				out := map[string]any{"kind": "vole", "done": ad.IDsU(completed), "big": toy.Big}
				if len(completed) == 2 && al.C != nil && bo.D != nil {
					out["a"], out["b"], out["c"], out["d"] = tr.Ints(a), bo.Bv.Int(), tr.Ints(al.C), tr.Ints(bo.D)
				}
				return out
			}}
		}},
		{"lindell22", func(st *Streams) *Built {
			ids := []ID{1, 2, 3}
			as, _ := pol3().Build()
			shards, err := trusteddealer.Deal(toy.NewGroup(), as, st.Setup(0))
			if err != nil {
				panic(err)
			}
			pk := uint64(0)
			for _, sh := range shards.Iter() {
				pk = sh.PublicKeyValue().Log()
			}
			ctxs, err := ad.SetupSessions(ids, st.Setup)
			if err != nil {
				panic(err)
			}
			sp := map[ID]*signParty{}
			ps := []proto.Party{}
			msg := []byte("tamper-message")
			for _, id := range ids {
				sh, _ := shards.Get(id)
				ss, err := ad.ToSchnorrShard(sh)
				if err != nil {
					return nil // identity public key (1/q): the caller picks another seed
				}
				lp, err := ad.NewL22Party(ctxs[id], ss, fiatshamir.Name, msg, st.Proto(id))
				if err != nil {
					panic(err)
				}
				p := &signParty{L22Party: lp, shard: ss, ids: ids, rd: st.Setup(id)}
				sp[id] = p
				ps = append(ps, p)
			}
			return &Built{Parties: st.track(ps), Outputs: func(completed []ID) map[string]any {
				out := map[string]any{}
				for _, id := range completed {
					if s := sp[id].sig; s != nil {
						out[fmt.Sprint(uint64(id))] = map[string]any{"R": s.R.Log(), "S": s.S.Int(), "E": s.E.Int()}
					}
				}
				return map[string]any{"kind": "sig", "by": out, "pk": pk}
			}}
		}},
	}
}

// signParty = Lindell22 cosigner plus a 4th round in which every signer acts as cosigning aggregator over the
// partial signatures broadcast in round 3.
type signParty struct {
	*ad.L22Party
	shard *ad.SchnorrShard
	ids   []ID
	rd    io.Reader
	sig   *ad.Sig
}

func (s *signParty) Rounds() int { return 4 }
func (s *signParty) Round(k int, inB, inU map[ID][]byte) ([]byte, map[ID][]byte, error) {
	switch k {
	case 1, 2:
		return s.L22Party.Round(k, inB, inU)
	case 3:
		if _, _, err := s.L22Party.Round(3, inB, inU); err != nil {
			return nil, nil, err
		}
		return proto.Enc(s.PSig), nil, nil
	case 4:
		in, err := proto.DecMap[*ad.PSig](inB)
		if err != nil {
			return nil, nil, err
		}
		pm := hashmap.NewComparable[ID, *ad.PSig]()
		for id, p := range in.Iter() {
			pm.Put(id, p)
		}
		pm.Put(s.Id, s.PSig)
		sch, err := ad.NewSchnorrScheme(s.rd)
		if err != nil {
			return nil, nil, err
		}
		agg, err := signing.NewCosigningAggregator(s.C, s.shard.PublicKeyMaterial(), sch)
		if err != nil {
			return nil, nil, err
		}
		sig, err := agg.Aggregate(pm.Freeze(), s.Message)
		if err != nil {
			return nil, nil, err
		}
		s.sig = sig
		return nil, nil, nil
	}
	panic("bad round")
}

func buildRedist(st *Streams, prev []ID, nextIDs []uint64, anchor ID) *Built {
	as, _ := pol3().Build()
	shards, err := trusteddealer.Deal(toy.NewGroup(), as, st.Setup(0))
	if err != nil {
		panic(err)
	}
	next := &ad.Policy{Kind: "threshold", T: 2, IDs: nextIDs}
	nextAS, _ := next.Build()
	all := map[ID]bool{}
	for _, i := range prev {
		all[i] = true
	}
	for _, i := range nextIDs {
		all[ID(i)] = true
	}
	parties := []ID{}
	for i := ID(1); i < 10; i++ {
		if all[i] {
			parties = append(parties, i)
		}
	}
	ctxs, err := ad.SetupSessions(parties, st.Setup)
	if err != nil {
		panic(err)
	}
	isPrev := map[ID]bool{}
	for _, i := range prev {
		isPrev[i] = true
	}
	rp := map[ID]*ad.RedistParty{}
	ps := []proto.Party{}
	for _, id := range parties {
		var sh *ad.Shard
		if isPrev[id] {
			sh, _ = shards.Get(id)
		}
		a := ID(0)
		if id != anchor { // every other party configures the anchor, holders of the previous epoch too (they have their own
			a = anchor // reference and must keep preferring it)
		}
		p, err := ad.NewRedistParty(ctxs[id], prev, sh, nextAS, st.Proto(id), a)
		if err != nil {
			panic(err)
		}
		rp[id] = p
		ps = append(ps, p)
	}
	oldPk := uint64(0)
	for _, sh := range shards.Iter() {
		oldPk = sh.PublicKeyValue().Log()
	}
	so := shardOut(func(id ID) *ad.Shard { return rp[id].Out })
	return &Built{Parties: st.track(ps), Trusted: anchor, IsPrev: isPrev, Outputs: func(completed []ID) map[string]any {
		m := so(completed)
		m["oldPk"] = oldPk
		return m
	}}
}

var _ = serde.MarshalCBOR[int]

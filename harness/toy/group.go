package toy

import (
	"crypto/sha256"
	"encoding"
	"encoding/binary"
	"errors"
	"fmt"
	"io"
	"sync"

	"github.com/bronlabs/bron-crypto/pkg/base"
	"github.com/bronlabs/bron-crypto/pkg/base/algebra"
	"github.com/bronlabs/bron-crypto/pkg/base/nt/cardinal"
)

var (
	_ algebra.PrimeGroup[*Elem, *Scalar]        = (*Group)(nil)
	_ algebra.PrimeGroupElement[*Elem, *Scalar] = (*Elem)(nil)
	_ encoding.BinaryMarshaler                  = (*Elem)(nil)
	_ encoding.BinaryUnmarshaler                = (*Elem)(nil)

	groupInstance = &Group{}
)

// ElemBytes is the fixed big-endian width of a group element.
const ElemBytes = 8

// Group is the order-q subgroup of Z_p^*, written multiplicatively inside but
// exposed through the library's abstract Op / ScalarOp interface.
type Group struct{}

func NewGroup() *Group { return groupInstance }

func (*Group) Name() string                                { return "toyGq" }
func (*Group) Order() cardinal.Cardinal                    { return cardinal.New(Q) }
func (*Group) ElementSize() int                            { return ElemBytes }
func (*Group) Contains(e *Elem) bool                       { return e != nil && InSubgroup(e.v) }
func (*Group) OpIdentity() *Elem                           { return &Elem{v: 1} }
func (*Group) Generator() *Elem                            { return &Elem{v: G} }
func (*Group) ScalarStructure() algebra.Structure[*Scalar] { return NewScalarField() }
func (*Group) ScalarBaseOp(s *Scalar) *Elem                { return &Elem{v: powmod(G, s.V.v, P)} }

func (*Group) FromBytes(data []byte) (*Elem, error) {
	if len(data) != ElemBytes {
		return nil, errors.New("toy: bad element length")
	}
	v := binary.BigEndian.Uint64(data)
	if !InSubgroup(v) {
		return nil, errors.New("toy: not a subgroup element")
	}
	return &Elem{v: v}, nil
}

func (g *Group) Random(prng io.Reader) (*Elem, error) {
	s, err := NewScalarField().Random(prng)
	if err != nil {
		return nil, err
	}
	return g.ScalarBaseOp(s), nil
}

func (g *Group) Hash(data []byte) (*Elem, error) {
	d := sha256.Sum256(append([]byte("toyGq-hash:"), data...))
	s, _ := NewScalarField().FromBytesBEReduce(d[:])
	return g.ScalarBaseOp(s), nil
}

// FromLog returns g^k.
func FromLog(k uint64) *Elem { return &Elem{v: powmod(G, k%Q, P)} }

// Elem is an element of the toy group.
type Elem struct{ v uint64 }

func (*Elem) Structure() algebra.Structure[*Elem] { return NewGroup() }
func (e *Elem) Value() uint64                     { return e.v }

// Log returns the discrete logarithm of e (table lookup). In Big mode (no table) it returns an interned token
// instead: equal elements <=> equal token, which is all the token-level specifications use.
func (e *Elem) Log() uint64 {
	if Big {
		return intern(1, e.v)
	}
	k, ok := dlog[e.v]
	if !ok {
		panic(fmt.Sprintf("toy: %d is not in the subgroup", e.v))
	}
	return k
}

func (e *Elem) Bytes() []byte {
	out := make([]byte, ElemBytes)
	binary.BigEndian.PutUint64(out, e.v)
	return out
}
func (e *Elem) Clone() *Elem                { return &Elem{v: e.v} }
func (e *Elem) Equal(x *Elem) bool          { return e.v == x.v }
func (e *Elem) HashCode() base.HashCode     { return base.HashCode(e.v * 0x9E3779B97F4A7C15) }
func (e *Elem) String() string              { return fmt.Sprintf("toy(%d)", e.v) }
func (e *Elem) Op(x *Elem) *Elem            { return &Elem{v: mulmod(e.v, x.v, P)} }
func (e *Elem) OpInv() *Elem                { return &Elem{v: powmod(e.v, P-2, P)} }
func (e *Elem) IsOpIdentity() bool          { return e.v == 1 }
func (e *Elem) ScalarOp(s *Scalar) *Elem    { return &Elem{v: powmod(e.v, s.V.v, P)} }
func (e *Elem) IsTorsionFree() bool         { return InSubgroup(e.v) }
func (e *Elem) IsDesignatedGenerator() bool { return e.v == G }

func (e *Elem) MarshalBinary() ([]byte, error) { return e.Bytes(), nil }
func (e *Elem) UnmarshalBinary(data []byte) error {
	x, err := NewGroup().FromBytes(data)
	if err != nil {
		return err
	}
	e.v = x.v
	return nil
}

var (
	internMu  sync.Mutex
	internTab = map[[2]uint64]uint64{}
)

// intern maps (namespace, value) to a small injective token.
func intern(ns, v uint64) uint64 {
	internMu.Lock()
	defer internMu.Unlock()
	k := [2]uint64{ns, v}
	if t, ok := internTab[k]; ok {
		return t
	}
	t := uint64(len(internTab) + 1)
	internTab[k] = t
	return t
}

// ReduceWide reduces little-endian bytes mod q exactly as Fq.SetRandom does with the bytes it reads.
func ReduceWide(le []byte) *Scalar {
	var s Scalar
	s.V.SetBytesWide(le)
	return &s
}

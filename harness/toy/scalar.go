package toy

import (
	"crypto/sha256"
	"encoding"
	"errors"

	"github.com/bronlabs/bron-crypto/pkg/base/algebra"
	"github.com/bronlabs/bron-crypto/pkg/base/curves/impl/traits"
	"github.com/bronlabs/bron-crypto/pkg/base/nt/cardinal"
)

var (
	_ algebra.PrimeField[*Scalar]        = (*ScalarField)(nil)
	_ algebra.PrimeFieldElement[*Scalar] = (*Scalar)(nil)
	_ encoding.BinaryMarshaler           = (*Scalar)(nil)
	_ encoding.BinaryUnmarshaler         = (*Scalar)(nil)

	scalarFieldInstance = &ScalarField{}
)

// ScalarField is Z_q wrapped by the library's own prime field trait.
type ScalarField struct {
	traits.PrimeFieldTrait[*Fq, *Scalar, Scalar]
}

func NewScalarField() *ScalarField { return scalarFieldInstance }

func (*ScalarField) Name() string                      { return "toyFq" }
func (*ScalarField) Order() cardinal.Cardinal          { return cardinal.New(Q) }
func (*ScalarField) Characteristic() cardinal.Cardinal { return cardinal.New(Q) }
func (*ScalarField) ElementSize() int                  { return FqBytes }
func (*ScalarField) WideElementSize() int              { return 2 * FqBytes }
func (*ScalarField) BitLen() int {
	n := 0
	for v := Q; v > 0; v >>= 1 {
		n++
	}
	return n
}

func (*ScalarField) FromBytesBEReduce(input []byte) (*Scalar, error) {
	var s Scalar
	var acc uint64
	for _, b := range input {
		acc = (mulmod(acc, 256, Q) + uint64(b)) % Q
	}
	s.V.v = acc
	return &s, nil
}

func (f *ScalarField) Hash(data []byte) (*Scalar, error) {
	d := sha256.Sum256(append([]byte("toyFq-hash:"), data...))
	return f.FromBytesBEReduce(d[:])
}

// FromInt builds the scalar v mod q.
func FromInt(v uint64) *Scalar {
	var s Scalar
	s.V.v = v % Q
	return &s
}

// Scalar is an element of Z_q.
type Scalar struct {
	traits.PrimeFieldElementTrait[*Fq, Fq, *Scalar, Scalar]
}

func (*Scalar) Structure() algebra.Structure[*Scalar] { return NewScalarField() }

// Int returns the value; in Big mode an interned token (equal scalars <=> equal token).
func (s *Scalar) Int() uint64 {
	if Big {
		return intern(2, s.V.v)
	}
	return s.V.v
}

func (s *Scalar) MarshalBinary() ([]byte, error) { return s.V.Bytes(), nil }
func (s *Scalar) UnmarshalBinary(data []byte) error {
	if ok := s.V.SetBytes(data); ok == 0 {
		return errors.New("toy: bad scalar bytes")
	}
	return nil
}

// Package toy provides a tiny prime field Z_q and a tiny prime-order group (the
// order-q subgroup of Z_p^*, p = 2q+1) that plug into bron-crypto's generic
// algebra traits, so that the unmodified generic protocol code runs on values
// small enough for TLC to recompute exactly.
//
// The modulus is process-global (set once with Setup) because the library's
// traits are parameterised by type, not by value.
package toy

import (
	"encoding/binary"
	"io"
	"math/big"
	"math/bits"

	"github.com/bronlabs/bron-crypto/pkg/base/ct"
)

var (
	// Q is the scalar field order (prime), P = 2Q+1 (prime), G generates the order-Q subgroup of Z_P^*.
	Q uint64 = 11
	P uint64 = 23
	G uint64 = 4

	dlog map[uint64]uint64
)

// Setup fixes the toy parameters. q and 2q+1 must both be prime. For q < 2^24 a discrete-log table is built
// (exact mode); larger q (up to 2^61) run without the table (Big mode: values are compared as tokens only).
func Setup(q uint64) {
	if !isPrime(q) || !isPrime(2*q+1) {
		panic("toy.Setup: need q and 2q+1 prime")
	}
	Q = q
	P = 2*q + 1
	G = 4 % P // 4 = 2^2 is a quadratic residue, hence in the order-q subgroup; != 1 for p > 3
	dlog = nil
	Big = q >= 1<<24
	if Big {
		return
	}
	dlog = make(map[uint64]uint64, q)
	x := uint64(1)
	for k := uint64(0); k < q; k++ {
		dlog[x] = k
		x = mulmod(x, G, P)
	}
	if len(dlog) != int(q) {
		panic("toy.Setup: generator does not have order q")
	}
}

// Big is true when no discrete-log table exists.
var Big bool

// SetupBig picks the largest q < 2^bitsN with q and 2q+1 prime.
func SetupBig(bitsN uint) {
	q := uint64(1)<<bitsN - 1
	for ; ; q -= 2 {
		if isPrime(q) && isPrime(2*q+1) {
			break
		}
	}
	Setup(q)
}

func mulmod(a, b, m uint64) uint64 {
	hi, lo := bits.Mul64(a%m, b%m)
	_, r := bits.Div64(hi, lo, m)
	return r
}

// InSubgroup reports whether v is in the order-q subgroup of Z_p^*.
func InSubgroup(v uint64) bool {
	if v == 0 || v >= P {
		return false
	}
	if !Big {
		_, ok := dlog[v]
		return ok
	}
	return powmod(v, Q, P) == 1
}

func isPrime(n uint64) bool {
	return new(big.Int).SetUint64(n).ProbablyPrime(24)
}

// Dlog returns the discrete logarithm of a subgroup element value.
func Dlog(v uint64) (uint64, bool) {
	k, ok := dlog[v]
	return k, ok
}

func powmod(b, e, m uint64) uint64 {
	r := uint64(1)
	b %= m
	for e > 0 {
		if e&1 == 1 {
			r = mulmod(r, b, m)
		}
		b = mulmod(b, b, m)
		e >>= 1
	}
	return r
}

// FqBytes is the fixed little-endian width of a field element.
const FqBytes = 8

// Fq is the low-level element of Z_q.
type Fq struct{ v uint64 }

func (e *Fq) Set(x *Fq)                    { e.v = x.v }
func (e *Fq) Uint64() uint64               { return e.v }
func (e *Fq) Select(c ct.Choice, a, b *Fq) { e.v = ct.CSelectInt(c, a.v, b.v) }
func (e *Fq) CondAssign(c ct.Choice, x *Fq) {
	e.v = ct.CSelectInt(c, e.v, x.v)
}
func (e *Fq) Equal(x *Fq) ct.Bool {
	if e.v == x.v {
		return ct.True
	}
	return ct.False
}
func (e *Fq) Add(a, b *Fq)       { e.v = (a.v + b.v) % Q }
func (e *Fq) Double(a *Fq)       { e.v = (a.v + a.v) % Q }
func (e *Fq) Sub(a, b *Fq)       { e.v = (a.v + Q - b.v) % Q }
func (e *Fq) Neg(a *Fq)          { e.v = (Q - a.v) % Q }
func (e *Fq) Mul(a, b *Fq)       { e.v = mulmod(a.v, b.v, Q) }
func (e *Fq) Square(a *Fq)       { e.v = mulmod(a.v, a.v, Q) }
func (e *Fq) SetZero()           { e.v = 0 }
func (e *Fq) SetOne()            { e.v = 1 % Q }
func (e *Fq) SetUint64(u uint64) { e.v = u % Q }
func b2c(b bool) ct.Bool {
	if b {
		return ct.True
	}
	return ct.False
}
func (e *Fq) IsZero() ct.Bool    { return b2c(e.v == 0) }
func (e *Fq) IsNonZero() ct.Bool { return b2c(e.v != 0) }
func (e *Fq) IsOne() ct.Bool     { return b2c(e.v == 1%Q) }

// SetBytes reads exactly FqBytes little-endian bytes of a canonical value.
func (e *Fq) SetBytes(data []byte) ct.Bool {
	if len(data) != FqBytes {
		return ct.False
	}
	v := binary.LittleEndian.Uint64(data)
	if v >= Q {
		return ct.False
	}
	e.v = v
	return ct.True
}

func (e *Fq) Bytes() []byte {
	out := make([]byte, FqBytes)
	binary.LittleEndian.PutUint64(out, e.v)
	return out
}

// SetBytesWide reduces an arbitrary-length little-endian integer mod q.
func (e *Fq) SetBytesWide(data []byte) ct.Bool {
	var acc uint64
	for i := len(data) - 1; i >= 0; i-- {
		acc = (mulmod(acc, 256, Q) + uint64(data[i])) % Q
	}
	e.v = acc
	return ct.True
}

func (e *Fq) SetUniformBytes(components ...[]byte) ct.Bool {
	if len(components) != 1 {
		return ct.False
	}
	return e.SetBytesWide(components[0])
}

func (e *Fq) ComponentsBytes() [][]byte { return [][]byte{e.Bytes()} }
func (e *Fq) Degree() uint64            { return 1 }
func (e *Fq) Limbs() []uint64           { return []uint64{e.v} }
func (e *Fq) SetLimbs(l []uint64) ct.Bool {
	if len(l) != 1 || l[0] >= Q {
		return ct.False
	}
	e.v = l[0]
	return ct.True
}

// SetRandom reads 16 bytes from prng and reduces them mod q (wide reduction).
func (e *Fq) SetRandom(prng io.Reader) ct.Bool {
	var buf [16]byte
	if _, err := io.ReadFull(prng, buf[:]); err != nil {
		return ct.False
	}
	return e.SetBytesWide(buf[:])
}

func (e *Fq) Inv(a *Fq) ct.Bool {
	if a.v == 0 {
		return ct.False
	}
	e.v = powmod(a.v, Q-2, Q)
	return ct.True
}

func (e *Fq) Div(a, b *Fq) ct.Bool {
	var bi Fq
	if bi.Inv(b) == ct.False {
		return ct.False
	}
	e.v = mulmod(a.v, bi.v, Q)
	return ct.True
}

func (e *Fq) Sqrt(a *Fq) ct.Bool {
	if Big { // q = 3 mod 4 is not guaranteed: Tonelli-free fallback via exponent (q+1)/4 when applicable
		if Q%4 == 3 {
			r := powmod(a.v, (Q+1)/4, Q)
			if mulmod(r, r, Q) == a.v%Q {
				e.v = r
				return ct.True
			}
		}
		return ct.False
	}
	for r := uint64(0); r < Q; r++ {
		if r*r%Q == a.v {
			e.v = r
			return ct.True
		}
	}
	return ct.False
}

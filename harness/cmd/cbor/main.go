// cbor is the plain (non-test) binary of the C12 driver: the library's size floors are active.
package main

import (
	"os"

	"verif/harness/cbor"
)

func main() { os.Exit(cbor.Main(os.Args[1:])) }

package main

// Hash-to-curve / hash-to-field of the production curves, input/output only (the weaker half of C19):
// each call is logged with tokens of its output (computed twice), the booleans of an independent
// membership oracle (order * P = O by double-and-add with the group operation and the published group
// order, not the library's scalar multiplication) and, for the RFC 9380 vectors the repository ships,
// the affine coordinates next to the expected ones.  H2CTrace decides.

import (
	"crypto/sha256"
	"crypto/sha3"
	"crypto/sha512"
	"encoding/hex"
	"encoding/json"
	"fmt"
	"math/big"
	"os"
	"path/filepath"
	"strings"

	"github.com/bronlabs/bron-crypto/pkg/base"
	"github.com/bronlabs/bron-crypto/pkg/base/curves/curve25519"
	"github.com/bronlabs/bron-crypto/pkg/base/curves/edwards25519"
	"github.com/bronlabs/bron-crypto/pkg/base/curves/impl/rfc9380"
	"github.com/bronlabs/bron-crypto/pkg/base/curves/k256"
	"github.com/bronlabs/bron-crypto/pkg/base/curves/p256"
	"github.com/bronlabs/bron-crypto/pkg/base/curves/pairable/bls12381"
	"github.com/bronlabs/bron-crypto/pkg/base/curves/pasta"

	"verif/harness/tr"
)

type gpoint[P any] interface {
	Op(P) P
	IsOpIdentity() bool
	IsTorsionFree() bool
	Bytes() []byte
}

type byteser interface{ Bytes() []byte }

type suite struct {
	name    string
	defDST  string // the DST Hash() is documented to use
	variant string // RO / NU as named by the suite constant
	order   *big.Int
	hashDst func(dst string, msg []byte) hres
	hashDef func(msg []byte) hres
	field   func(msg []byte) []byte // scalar field Hash
}

type hres struct {
	enc    []byte
	x, y   []byte
	tf     bool
	killed bool // order * P = O
	id     bool
	err    bool
}

func mulOrder[P gpoint[P]](p P, order *big.Int) P {
	// left-to-right double-and-add using the group operation only
	var acc P
	started := false
	for i := order.BitLen() - 1; i >= 0; i-- {
		if started {
			acc = acc.Op(acc)
		}
		if order.Bit(i) == 1 {
			if started {
				acc = acc.Op(p)
			} else {
				acc, started = p, true
			}
		}
	}
	return acc
}

func result[P gpoint[P], F byteser](p P, err error, ax func(P) (F, error), ay func(P) (F, error), order *big.Int) hres {
	if err != nil {
		return hres{err: true}
	}
	r := hres{enc: p.Bytes(), tf: p.IsTorsionFree(), id: p.IsOpIdentity()}
	r.killed = r.id || mulOrder(p, order).IsOpIdentity()
	if !r.id {
		if x, e := ax(p); e == nil {
			r.x = x.Bytes()
		}
		if y, e := ay(p); e == nil {
			r.y = y.Bytes()
		}
	}
	return r
}

func bigHex(s string) *big.Int {
	v, ok := new(big.Int).SetString(s, 16)
	if !ok {
		panic(s)
	}
	return v
}

var (
	ordK256   = bigHex("fffffffffffffffffffffffffffffffebaaedce6af48a03bbfd25e8cd0364141")
	ordP256   = bigHex("ffffffff00000000ffffffffffffffffbce6faada7179e84f3b9cac2fc632551")
	ord25519  = bigHex("1000000000000000000000000000000014def9dea2f79cd65812631a5cf5d3ed")
	ordBLS    = bigHex("73eda753299d7d483339d80809a1d80553bda402fffe5bfeffffffff00000001")
	ordPallas = bigHex("40000000000000000000000000000000224698fc0994a8dd8c46eb2100000001") // = Vesta base field
	ordVesta  = bigHex("40000000000000000000000000000000224698fc094cf91b992d30ed00000001") // = Pallas base field
)

func variantOf(s string) string {
	switch {
	case strings.Contains(s, "_RO_"):
		return "RO"
	case strings.Contains(s, "_NU_"):
		return "NU"
	}
	return "?"
}

func suites() []suite {
	k := k256.NewCurve()
	p := p256.NewCurve()
	e := edwards25519.NewCurve()
	es := edwards25519.NewPrimeSubGroup()
	c := curve25519.NewCurve()
	g1 := bls12381.NewG1()
	g2 := bls12381.NewG2()
	pa := pasta.NewPallasCurve()
	ve := pasta.NewVestaCurve()
	return []suite{
		{name: "k256", defDST: base.Hash2CurveAppTag + k256.Hash2CurveSuite, variant: variantOf(k256.Hash2CurveSuite), order: ordK256,
			hashDst: func(d string, m []byte) hres {
				q, err := k.HashWithDst(d, m)
				return result(q, err, (*k256.Point).AffineX, (*k256.Point).AffineY, ordK256)
			},
			hashDef: func(m []byte) hres {
				q, err := k.Hash(m)
				return result(q, err, (*k256.Point).AffineX, (*k256.Point).AffineY, ordK256)
			},
			field: func(m []byte) []byte { s, _ := k256.NewScalarField().Hash(m); return s.Bytes() }},
		{name: "p256", defDST: base.Hash2CurveAppTag + p256.Hash2CurveSuite, variant: variantOf(p256.Hash2CurveSuite), order: ordP256,
			hashDst: func(d string, m []byte) hres {
				q, err := p.HashWithDst(d, m)
				return result(q, err, (*p256.Point).AffineX, (*p256.Point).AffineY, ordP256)
			},
			hashDef: func(m []byte) hres {
				q, err := p.Hash(m)
				return result(q, err, (*p256.Point).AffineX, (*p256.Point).AffineY, ordP256)
			},
			field: func(m []byte) []byte { s, _ := p256.NewScalarField().Hash(m); return s.Bytes() }},
		{name: "edwards25519", defDST: base.Hash2CurveAppTag + edwards25519.Hash2CurveSuite, variant: variantOf(edwards25519.Hash2CurveSuite), order: ord25519,
			hashDst: func(d string, m []byte) hres {
				q, err := e.HashWithDst(d, m)
				return result(q, err, (*edwards25519.Point).AffineX, (*edwards25519.Point).AffineY, ord25519)
			},
			hashDef: func(m []byte) hres {
				q, err := e.Hash(m)
				return result(q, err, (*edwards25519.Point).AffineX, (*edwards25519.Point).AffineY, ord25519)
			},
			field: func(m []byte) []byte { s, _ := edwards25519.NewScalarField().Hash(m); return s.Bytes() }},
		{name: "edwards25519-sub", defDST: base.Hash2CurveAppTag + edwards25519.Hash2CurveSuite, variant: variantOf(edwards25519.Hash2CurveSuite), order: ord25519,
			hashDst: func(d string, m []byte) hres {
				q, err := es.HashWithDst(d, m)
				return result(q, err, (*edwards25519.PrimeSubGroupPoint).AffineX, (*edwards25519.PrimeSubGroupPoint).AffineY, ord25519)
			},
			hashDef: func(m []byte) hres {
				q, err := es.Hash(m)
				return result(q, err, (*edwards25519.PrimeSubGroupPoint).AffineX, (*edwards25519.PrimeSubGroupPoint).AffineY, ord25519)
			}},
		{name: "curve25519", defDST: base.Hash2CurveAppTag + curve25519.Hash2CurveSuite, variant: variantOf(curve25519.Hash2CurveSuite), order: ord25519,
			hashDst: func(d string, m []byte) hres {
				q, err := c.HashWithDst(d, m)
				return result(q, err, (*curve25519.Point).AffineX, (*curve25519.Point).AffineY, ord25519)
			},
			hashDef: func(m []byte) hres {
				q, err := c.Hash(m)
				return result(q, err, (*curve25519.Point).AffineX, (*curve25519.Point).AffineY, ord25519)
			}},
		{name: "bls12381g1", defDST: base.Hash2CurveAppTag + bls12381.Hash2CurveSuiteG1, variant: variantOf(bls12381.Hash2CurveSuiteG1), order: ordBLS,
			hashDst: func(d string, m []byte) hres {
				q, err := g1.HashWithDst(d, m)
				return result(q, err, (*bls12381.PointG1).AffineX, (*bls12381.PointG1).AffineY, ordBLS)
			},
			hashDef: func(m []byte) hres {
				q, err := g1.Hash(m)
				return result(q, err, (*bls12381.PointG1).AffineX, (*bls12381.PointG1).AffineY, ordBLS)
			},
			field: func(m []byte) []byte { s, _ := bls12381.NewScalarField().Hash(m); return s.Bytes() }},
		{name: "bls12381g2", defDST: base.Hash2CurveAppTag + bls12381.Hash2CurveSuiteG2, variant: variantOf(bls12381.Hash2CurveSuiteG2), order: ordBLS,
			hashDst: func(d string, m []byte) hres {
				q, err := g2.HashWithDst(d, m)
				return result(q, err, (*bls12381.PointG2).AffineX, (*bls12381.PointG2).AffineY, ordBLS)
			},
			hashDef: func(m []byte) hres {
				q, err := g2.Hash(m)
				return result(q, err, (*bls12381.PointG2).AffineX, (*bls12381.PointG2).AffineY, ordBLS)
			}},
		{name: "pallas", defDST: base.Hash2CurveAppTag + pasta.PallasHash2CurveSuite, variant: variantOf(pasta.PallasHash2CurveSuite), order: ordPallas,
			hashDst: func(d string, m []byte) hres {
				q, err := pa.HashWithDst(d, m)
				return result(q, err, (*pasta.PallasPoint).AffineX, (*pasta.PallasPoint).AffineY, ordPallas)
			},
			hashDef: func(m []byte) hres {
				q, err := pa.Hash(m)
				return result(q, err, (*pasta.PallasPoint).AffineX, (*pasta.PallasPoint).AffineY, ordPallas)
			}},
		{name: "vesta", defDST: base.Hash2CurveAppTag + pasta.VestaHash2CurveSuite, variant: variantOf(pasta.VestaHash2CurveSuite), order: ordVesta,
			hashDst: func(d string, m []byte) hres {
				q, err := ve.HashWithDst(d, m)
				return result(q, err, (*pasta.VestaPoint).AffineX, (*pasta.VestaPoint).AffineY, ordVesta)
			},
			hashDef: func(m []byte) hres {
				q, err := ve.Hash(m)
				return result(q, err, (*pasta.VestaPoint).AffineX, (*pasta.VestaPoint).AffineY, ordVesta)
			}},
	}
}

type vecFile struct {
	Suite   string `json:"suite"`
	Dst     string `json:"dst"`
	Vectors []struct {
		Msg string `json:"msg"`
		P   struct {
			X any `json:"x"`
			Y any `json:"y"`
		} `json:"p"`
	} `json:"vectors"`
}

type expFile struct {
	Dst   string `json:"dst"`
	K     uint   `json:"k"`
	Cases []struct {
		Msg          string `json:"msg"`
		LenInBytes   uint   `json:"len_in_bytes"`
		UniformBytes string `json:"uniform_bytes"`
	} `json:"cases"`
}

func coordHex(v any) []string {
	switch t := v.(type) {
	case string:
		return []string{strings.ToLower(t)}
	case []any:
		out := []string{}
		for _, e := range t {
			out = append(out, strings.ToLower(e.(string)))
		}
		return out
	}
	return nil
}

var kseq int

func emitH(w *tr.W, a string, ev map[string]any) {
	kseq++
	ev["a"] = a
	if _, ok := ev["k"]; !ok {
		ev["k"] = fmt.Sprintf("%s#%d", a, kseq)
	}
	w.Emit(ev)
}

func h2c(w *tr.W, seed uint64, n int, repo string) {
	ss := suites()
	names := []string{}
	for _, s := range ss {
		names = append(names, s.name)
	}
	w.Emit(map[string]any{"a": "hdr", "k": "hdr", "suites": names})
	rnd := tr.PRand(seed, 19)
	msgs := [][]byte{{}, []byte("abc"), {0}, {0, 0}, []byte("abcdef0123456789"), make([]byte, 200)}
	for len(msgs) < n {
		m := make([]byte, rnd.IntN(70))
		for i := range m {
			m[i] = byte(rnd.IntN(256))
		}
		msgs = append(msgs, m)
		if len(m) > 0 && rnd.IntN(2) == 0 { // a one-bit neighbour
			m2 := append([]byte(nil), m...)
			m2[rnd.IntN(len(m2))] ^= 1 << rnd.IntN(8)
			msgs = append(msgs, m2)
		}
	}
	msgs = msgs[:n]
	for _, s := range ss {
		dsts := []string{s.defDST, s.defDST + "x", "QUUX-V01-CS02-with-" + s.name, "d", strings.Repeat("long-dst-", 40)}
		for mi, m := range msgs {
			ds := dsts
			if mi >= 8 {
				ds = dsts[:2]
			}
			for _, d := range ds {
				r1, r2 := s.hashDst(d, m), s.hashDst(d, m)
				emitH(w, "hash", map[string]any{
					"k": fmt.Sprintf("hash:%s:dst=%s:msg=%s", s.name, short(d), hex.EncodeToString(m)), "suite": s.name,
					"dst": toks.tok("dst", []byte(d)), "msg": toks.tok("msg", m),
					"out": toks.tok("pt:"+s.name, r1.enc), "out2": toks.tok("pt:"+s.name, r2.enc),
					"xy":  toks.tok("xy:"+s.name, append(append([]byte{}, r1.x...), r1.y...)),
					"err": r1.err || r2.err, "tf": r1.tf, "killed": r1.killed, "id": r1.id})
			}
			// the documented default
			rd, rw := s.hashDef(m), s.hashDst(s.defDST, m)
			emitH(w, "default", map[string]any{
				"k": fmt.Sprintf("default:%s:msg=%s", s.name, hex.EncodeToString(m)), "suite": s.name,
				"out": toks.tok("pt:"+s.name, rd.enc), "outd": toks.tok("pt:"+s.name, rw.enc), "err": rd.err || rw.err,
				"tf": rd.tf, "killed": rd.killed})
			if s.field != nil {
				f1, f2 := s.field(m), s.field(m)
				emitH(w, "field", map[string]any{
					"k": fmt.Sprintf("field:%s:msg=%s", s.name, hex.EncodeToString(m)), "suite": s.name,
					"msg": toks.tok("msg", m), "out": toks.tok("sc:"+s.name, f1), "out2": toks.tok("sc:"+s.name, f2)})
			}
		}
	}
	// the shipped RFC 9380 vectors
	curvesDir := filepath.Join(repo, "pkg", "base", "curves")
	vecs := []struct{ suite, file string }{
		{"k256", "k256/impl/testvectors/secp256k1_xmd_sha256_sswu_ro.json"},
		{"p256", "p256/impl/testvectors/p256_xmd_sha256_sswu_ro.json"},
		{"bls12381g1", "pairable/bls12381/impl/testvectors/bls12381g1_xmd_sha256_sswu_ro.json"},
		{"bls12381g2", "pairable/bls12381/impl/testvectors/bls12381g2_xmd_sha256_sswu_ro.json"},
	}
	byName := map[string]suite{}
	for _, s := range ss {
		byName[s.name] = s
	}
	for _, v := range vecs {
		data, err := os.ReadFile(filepath.Join(curvesDir, v.file))
		if err != nil {
			fail("cannot read shipped vectors: " + err.Error())
		}
		var vf vecFile
		if err := json.Unmarshal(data, &vf); err != nil {
			fail("cannot parse shipped vectors: " + err.Error())
		}
		s := byName[v.suite]
		reproduces := true
		for _, c := range vf.Vectors {
			r := s.hashDst(vf.Dst, []byte(c.Msg))
			reproduces = reproduces && hex.EncodeToString(r.x) == strings.Join(coordHex(c.P.X), "") && hex.EncodeToString(r.y) == strings.Join(coordHex(c.P.Y), "")
			emitH(w, "vector", map[string]any{
				"k": fmt.Sprintf("vector:%s:%s", vf.Suite, short(c.Msg)), "suite": v.suite, "rfcsuite": vf.Suite,
				"named": s.variant, "vecvariant": variantOf(vf.Suite),
				"x": coordHex(c.P.X), "y": coordHex(c.P.Y), "gx": hex.EncodeToString(r.x), "gy": hex.EncodeToString(r.y), "err": r.err})
		}
		emitNames(w, s, variantOf(vf.Suite), reproduces)
	}
	// curve25519: the RO vectors of RFC 9380 J.4.1 as shipped in pkg/base/curves/curve25519/curve_test.go
	c25519 := []struct{ msg, x, y string }{
		{"", "2de3780abb67e861289f5749d16d3e217ffa722192d16bbd9d1bfb9d112b98c0", "3b5dc2a498941a1033d176567d457845637554a2fe7a3507d21abd1c1bd6e878"},
		{"abc", "2b4419f1f2d48f5872de692b0aca72cc7b0a60915dd70bde432e826b6abc526d", "1b8235f255a268f0a6fa8763e97eb3d22d149343d495da1160eff9703f2d07dd"},
		{"abcdef0123456789", "68ca1ea5a6acf4e9956daa101709b1eee6c1bb0df1de3b90d4602382a104c036", "2a375b656207123d10766e68b938b1812a4a6625ff83cb8d5e86f58a4be08353"},
	}
	rep25519 := true
	for _, c := range c25519 {
		s := byName["curve25519"]
		r := s.hashDst("QUUX-V01-CS02-with-curve25519_XMD:SHA-512_ELL2_RO_", []byte(c.msg))
		emitH(w, "vector", map[string]any{
			"k": "vector:curve25519_XMD:SHA-512_ELL2_RO_:" + short(c.msg), "suite": "curve25519", "rfcsuite": "curve25519_XMD:SHA-512_ELL2_RO_",
			"named": s.variant, "vecvariant": "RO",
			"x": []string{c.x}, "y": []string{c.y}, "gx": hex.EncodeToString(r.x), "gy": hex.EncodeToString(r.y), "err": r.err})
		rep25519 = rep25519 && hex.EncodeToString(r.x) == c.x && hex.EncodeToString(r.y) == c.y
	}
	emitNames(w, byName["curve25519"], "RO", rep25519)
	// expand_message vectors
	exps := []struct {
		file string
		mk   func(k uint) rfc9380.MessageExpander
	}{
		{"xmd_sha256.json", func(uint) rfc9380.MessageExpander { return rfc9380.NewXMDMessageExpander(sha256.New) }},
		{"xmd_sha256_long_dst.json", func(uint) rfc9380.MessageExpander { return rfc9380.NewXMDMessageExpander(sha256.New) }},
		{"xmd_sha512.json", func(uint) rfc9380.MessageExpander { return rfc9380.NewXMDMessageExpander(sha512.New) }},
		{"xof_shake128.json", func(k uint) rfc9380.MessageExpander { return rfc9380.NewXOFMessageExpander(sha3.NewSHAKE128(), k) }},
		{"xof_shake128_long_dst.json", func(k uint) rfc9380.MessageExpander { return rfc9380.NewXOFMessageExpander(sha3.NewSHAKE128(), k) }},
		{"xof_shake256.json", func(k uint) rfc9380.MessageExpander { return rfc9380.NewXOFMessageExpander(sha3.NewSHAKE256(), k) }},
	}
	for _, e := range exps {
		data, err := os.ReadFile(filepath.Join(curvesDir, "impl/rfc9380/expanders/testvectors", e.file))
		if err != nil {
			fail("cannot read shipped expander vectors: " + err.Error())
		}
		var ef expFile
		if err := json.Unmarshal(data, &ef); err != nil {
			fail("cannot parse shipped expander vectors: " + err.Error())
		}
		for _, c := range ef.Cases {
			got := e.mk(ef.K).ExpandMessage([]byte(ef.Dst), []byte(c.Msg), c.LenInBytes)
			emitH(w, "expand", map[string]any{
				"k": fmt.Sprintf("expand:%s:%d:%s", e.file, c.LenInBytes, short(c.Msg)), "file": e.file,
				"want": strings.ToLower(c.UniformBytes), "got": hex.EncodeToString(got), "len": int(c.LenInBytes), "gotlen": len(got)})
		}
	}
}

// emitNames logs which RFC 9380 variant the suite constant of a curve names (its default DST is built from
// it) and which variant's shipped vectors HashWithDst reproduces ("?" when it reproduces none).
func emitNames(w *tr.W, s suite, vecVariant string, reproduces bool) {
	impl := "?"
	if reproduces {
		impl = vecVariant
	}
	emitH(w, "names", map[string]any{"k": "names:" + s.name, "suite": s.name, "dst": s.defDST, "named": s.variant, "implements": impl})
}

func short(s string) string {
	if len(s) > 24 {
		return fmt.Sprintf("%s..(%d)", s[:16], len(s))
	}
	return s
}

// transcript replays TLC-generated programmes (histories of AppendDomainSeparator / AppendBytes /
// ExtractBytes / Clone and the generic helpers transcripts.Append / transcripts.Extract) on real
// hagrid transcripts and logs what the real code did (C19).  Nothing is judged here; the TLA+
// trace specification TranscriptTrace decides.
//
// Observation of the absorbed stream needs no hook in /repo: the sponge of a hagrid transcript is
// reached by reflection and its state is read with (*sha3.SHAKE).MarshalBinary.  Between two
// permutations cSHAKE XORs the input into the rate part of the state at offset n, so the bytes an
// operation absorbed are state_after[n0:n1] XOR state_before[n0:n1] as long as no permutation
// happened in between (detected by the capacity part, which a permutation changes); otherwise the
// observation is logged as not available ("dok": false).  A self-test checks this decoding against
// a sponge the driver feeds itself.
//
// mode h2c: hash-to-curve / hash-to-field of the production curves, input/output only.
package main

import (
	"bufio"
	"bytes"
	"crypto/sha3"
	"encoding/json"
	"flag"
	"fmt"
	"os"
	"reflect"

	"github.com/bronlabs/bron-crypto/pkg/base/curves/k256"
	"github.com/bronlabs/bron-crypto/pkg/transcripts"
	"github.com/bronlabs/bron-crypto/pkg/transcripts/hagrid"

	"verif/harness/tr"
)

// ---------- tokens: equal bytes <=> equal token, per namespace ----------

type interner struct {
	m map[string]int
}

func (t *interner) tok(ns string, b []byte) int {
	k := ns + ":" + string(b)
	if v, ok := t.m[k]; ok {
		return v
	}
	v := len(t.m) + 1
	t.m[k] = v
	return v
}

var toks = &interner{m: map[string]int{}}

// ---------- sponge observation ----------

const (
	offRate  = 4
	offState = 5
	offN     = 205
	offDir   = 206
	rate256  = 136
)

func spongeOf(t transcripts.Transcript) *sha3.SHAKE {
	v := reflect.ValueOf(t)
	if v.Kind() != reflect.Pointer || v.Elem().Kind() != reflect.Struct {
		fail("hagrid transcript is not a pointer to struct any more")
	}
	f := v.Elem().FieldByName("h")
	if !f.IsValid() || f.Kind() != reflect.Pointer {
		fail("hagrid transcript has no pointer field h any more")
	}
	if f.Type().Elem() != reflect.TypeOf(sha3.SHAKE{}) {
		fail("hagrid transcript field h is not *sha3.SHAKE any more")
	}
	return (*sha3.SHAKE)(f.UnsafePointer())
}

func snapshot(s *sha3.SHAKE) []byte {
	b, err := s.MarshalBinary()
	if err != nil || len(b) < offDir+1 || b[offRate] != rate256 {
		fail(fmt.Sprintf("unexpected SHAKE serialisation (err=%v len=%d)", err, len(b)))
	}
	return b
}

// absorbedBetween returns the bytes absorbed between two snapshots of the same sponge, if observable.
func absorbedBetween(before, after []byte) ([]int, bool) {
	n0, n1 := int(before[offN]), int(after[offN])
	sb, sa := before[offState:offState+200], after[offState:offState+200]
	if before[offDir] != after[offDir] || n1 < n0 {
		return []int{}, false
	}
	if !bytes.Equal(sb[rate256:], sa[rate256:]) { // a permutation happened
		return []int{}, false
	}
	for i := 0; i < rate256; i++ {
		if (i < n0 || i >= n1) && sb[i] != sa[i] {
			return []int{}, false
		}
	}
	out := make([]int, 0, n1-n0)
	for i := n0; i < n1; i++ {
		out = append(out, int(sb[i]^sa[i]))
	}
	return out, true
}

func selfTest() {
	s := sha3.NewCSHAKE256(nil, []byte("verif-selftest"))
	b0 := snapshot(s)
	msg := []byte{0, 1, 2, 0xa0, 0xff, 7}
	s.Write(msg)
	s.Write([]byte{9})
	got, ok := absorbedBetween(b0, snapshot(s))
	want := []int{0, 1, 2, 0xa0, 0xff, 7, 9}
	if !ok || fmt.Sprint(got) != fmt.Sprint(want) {
		fail(fmt.Sprintf("sponge observation self-test failed: %v %v", got, ok))
	}
	b1 := snapshot(s)
	s.Write(make([]byte, 200))
	if _, ok := absorbedBetween(b1, snapshot(s)); ok {
		fail("sponge observation self-test: permutation not detected")
	}
	// reflection reaches the real sponge of a hagrid transcript (nothing is assumed about hagrid's framing):
	// a byte written directly into the sponge found by reflection changes what the transcript extracts
	t1, t2 := hagrid.NewTranscript("selftest"), hagrid.NewTranscript("selftest")
	sp := spongeOf(t2)
	a0 := snapshot(sp)
	sp.Write([]byte{0x55})
	d, ok := absorbedBetween(a0, snapshot(sp))
	o1, e1 := t1.ExtractBytes("l", 32)
	o2, e2 := t2.ExtractBytes("l", 32)
	if !ok || len(d) != 1 || d[0] != 0x55 || e1 != nil || e2 != nil || bytes.Equal(o1, o2) {
		fail("sponge observation self-test on hagrid failed: reflection does not reach the live sponge")
	}
}

func fail(msg string) {
	fmt.Fprintln(os.Stderr, "transcript driver: "+msg)
	os.Exit(3)
}

// ---------- programmes ----------

type action struct {
	Op    string  `json:"op"`
	H     int     `json:"h"`
	Label []int   `json:"label"`
	Msgs  [][]int `json:"msgs"`
	N     int     `json:"n"`
}

type run struct {
	Name string   `json:"name"`
	Prog []action `json:"prog"`
}

type caseIn struct {
	K     string `json:"k"`
	Kind  string `json:"kind"`
	Twice bool   `json:"twice"`
	Runs  []run  `json:"runs"`
}

func toBytes(v []int) []byte {
	b := make([]byte, len(v))
	for i, x := range v {
		b[i] = byte(x)
	}
	return b
}

type bl []byte

func (b bl) Bytes() []byte { return []byte(b) }

var probeLabel = []int{0x70}

const probeLen = 32
const preLen = 16

func execRun(r run) map[string]any {
	hs := []transcripts.Transcript{hagrid.NewTranscript(r.Name)}
	obs := make([]map[string]any, 0, len(r.Prog))
	for _, a := range r.Prog {
		if a.H < 1 || a.H > len(hs) {
			fail("programme uses a handle that does not exist")
		}
		t := hs[a.H-1]
		sp := spongeOf(t)
		before := snapshot(sp)
		o := map[string]any{"err": false, "out": 0, "pre": 0, "olen": 0, "st2": 0, "panic": false}
		func() {
			defer func() {
				if r := recover(); r != nil { // a panic of the real code is an observation, not a driver failure
					o["panic"] = true
				}
			}()
			switch a.Op {
			case "ds":
				t.AppendDomainSeparator(string(toBytes(a.Label)))
			case "ab":
				ms := make([][]byte, len(a.Msgs))
				for i, m := range a.Msgs {
					ms[i] = toBytes(m)
				}
				t.AppendBytes(string(toBytes(a.Label)), ms...)
			case "happ":
				ms := make([]bl, len(a.Msgs))
				for i, m := range a.Msgs {
					ms[i] = bl(toBytes(m))
				}
				transcripts.Append(t, string(toBytes(a.Label)), ms...)
			case "ex":
				out, err := t.ExtractBytes(string(toBytes(a.Label)), uint(a.N))
				o["err"] = err != nil
				if err == nil {
					o["olen"] = len(out)
					o["out"] = toks.tok("o", out)
					if len(out) >= preLen {
						o["pre"] = toks.tok("p", out[:preLen])
					}
				}
			case "hext":
				x, err := transcripts.Extract(t, string(toBytes(a.Label)), k256.NewScalarField())
				o["err"] = err != nil
				if err == nil {
					o["olen"] = a.N
					o["out"] = toks.tok("x", x.Bytes())
				}
			case "clone":
				c := t.Clone()
				hs = append(hs, c)
				o["st2"] = toks.tok("s", snapshot(spongeOf(c)))
			default:
				fail("unknown op " + a.Op)
			}
		}()
		if o["panic"].(bool) {
			o["d"], o["dok"], o["st"] = []int{}, false, 0
			obs = append(obs, o)
			return map[string]any{"name": r.Name, "prog": r.Prog, "obs": obs, "fin": []map[string]any{}, "again": [][]int{}, "finpanic": false}
		}
		after := snapshot(sp)
		d, ok := absorbedBetween(before, after)
		o["d"], o["dok"] = d, ok
		o["st"] = toks.tok("s", after)
		obs = append(obs, o)
	}
	fin := make([]map[string]any, 0, len(hs))
	finPanic := false
	func() {
		defer func() {
			if r := recover(); r != nil { // probing a live handle must not panic either
				finPanic = true
			}
		}()
		for _, t := range hs {
			f := map[string]any{"st": toks.tok("s", snapshot(spongeOf(t)))}
			// the probe is taken on a clone so that every handle is probed in its final state
			out, err := t.Clone().ExtractBytes(string(toBytes(probeLabel)), probeLen)
			if err != nil {
				fail("probe extraction failed")
			}
			f["probe"] = toks.tok("o", out)
			f["ppre"] = toks.tok("p", out[:preLen])
			// and the handle itself is untouched by probing its clone
			f["st3"] = toks.tok("s", snapshot(spongeOf(t)))
			fin = append(fin, f)
		}
	}()
	if finPanic {
		fin = []map[string]any{}
	}
	return map[string]any{"name": r.Name, "prog": r.Prog, "obs": obs, "fin": fin, "again": [][]int{}, "finpanic": finPanic}
}

// tokensOf lists the tokens of an executed run in the order the trace specification expects.
func tokensOf(ex map[string]any) [][]int {
	out := [][]int{}
	for _, o := range ex["obs"].([]map[string]any) {
		out = append(out, []int{o["st"].(int), o["st2"].(int), o["out"].(int), o["pre"].(int)})
	}
	for _, f := range ex["fin"].([]map[string]any) {
		out = append(out, []int{f["st"].(int), f["st3"].(int), f["probe"].(int), f["ppre"].(int)})
	}
	return out
}

func main() {
	mode := flag.String("mode", "replay", "replay | h2c")
	in := flag.String("in", "", "programmes (ndjson)")
	out := flag.String("out", "trace.ndjson", "trace file")
	seed := flag.Uint64("seed", 1, "seed")
	n := flag.Int("n", 50, "h2c: messages per suite")
	vec := flag.String("vectors", "", "h2c: directory of the repository (for the shipped RFC 9380 vectors)")
	flag.Parse()
	w := tr.NewW(*out)
	defer w.Close()
	switch *mode {
	case "replay":
		selfTest()
		w.Emit(map[string]any{"a": "hdr", "k": "hdr", "probe": probeLabel, "probelen": probeLen})
		f, err := os.Open(*in)
		if err != nil {
			fail(err.Error())
		}
		sc := bufio.NewScanner(f)
		sc.Buffer(make([]byte, 1<<20), 1<<26)
		for sc.Scan() {
			if len(bytes.TrimSpace(sc.Bytes())) == 0 {
				continue
			}
			var c caseIn
			if err := json.Unmarshal(sc.Bytes(), &c); err != nil {
				fail("bad programme line: " + err.Error())
			}
			runs := make([]map[string]any, len(c.Runs))
			for i, r := range c.Runs {
				runs[i] = execRun(r)
				if c.Twice { // the same programme on a fresh transcript: its tokens are logged for comparison
					runs[i]["again"] = tokensOf(execRun(r))
				}
			}
			w.Emit(map[string]any{"a": "case", "k": c.K, "kind": c.Kind, "runs": runs})
		}
	case "h2c":
		h2c(w, *seed, *n, *vec)
	default:
		fail("unknown mode")
	}
}

// lifecycle drives key-lifecycle histories on the toy group with the real protocol code:
// trusted dealing, redistribution (refresh / recovery / new structure, with or without a trusted
// anchor) through real session setup + HJKY + redistribute participants over CBOR bytes,
// reconstruction from chosen sets and from shares of mixed epochs (C06). Every round's messages
// are projected to integers (discrete logs by table) and logged; KeyLifecycleTrace.tla recomputes.
package main

import (
	"context"
	"flag"
	"fmt"
	"io"
	"math/rand/v2"
	"os"
	"sort"
	"strings"
	"time"

	"github.com/bronlabs/bron-crypto/pkg/base/datastructures/hashmap"
	"github.com/bronlabs/bron-crypto/pkg/base/serde"
	"github.com/bronlabs/bron-crypto/pkg/mpc"
	"github.com/bronlabs/bron-crypto/pkg/mpc/dkg/canetti"
	"github.com/bronlabs/bron-crypto/pkg/mpc/dkg/gennaro"
	"github.com/bronlabs/bron-crypto/pkg/mpc/dkg/trusteddealer"
	"github.com/bronlabs/bron-crypto/pkg/mpc/redistribute"
	"github.com/bronlabs/bron-crypto/pkg/mpc/session"
	"github.com/bronlabs/bron-crypto/pkg/mpc/sharing/accessstructures"
	"github.com/bronlabs/bron-crypto/pkg/mpc/sharing/accessstructures/unanimity"
	"github.com/bronlabs/bron-crypto/pkg/mpc/sharing/vss/feldman"
	"github.com/bronlabs/bron-crypto/pkg/mpc/signatures/schnorr/lindell22/signing"
	"github.com/bronlabs/bron-crypto/pkg/network"
	ntu "github.com/bronlabs/bron-crypto/pkg/network/testutils"
	"github.com/bronlabs/bron-crypto/pkg/proofs/sigma/compiler/fiatshamir"

	ad "verif/harness/adapters"
	"verif/harness/proto"
	"verif/harness/toy"
	"verif/harness/tr"
)

type ID = ad.ID

var (
	w    *tr.W
	q    uint64
	seed uint64
	rng  *rand.Rand
	strm uint64
)

func reader() io.Reader { strm++; return tr.Rng(seed, 1000+strm) }

func key(i ID) string { return fmt.Sprint(uint64(i)) }

type epoch struct {
	pol    *ad.Policy
	as     accessstructures.Monotone
	shards map[ID]*ad.Shard
}

func holders(p *ad.Policy) []ID {
	out := make([]ID, len(p.IDs))
	for i, u := range p.IDs {
		out[i] = ID(u)
	}
	sort.Slice(out, func(i, j int) bool { return out[i] < out[j] })
	return out
}

// subsetsOf returns all non-empty subsets of ids.
func subsetsOf(ids []ID) [][]ID {
	out := [][]ID{}
	for m := 1; m < 1<<len(ids); m++ {
		s := []ID{}
		for i, id := range ids {
			if m&(1<<i) != 0 {
				s = append(s, id)
			}
		}
		out = append(out, s)
	}
	return out
}

func qualifiedSets(as accessstructures.Monotone, ids []ID) (qual, unqual [][]ID) {
	for _, s := range subsetsOf(ids) {
		if as.IsQualified(s...) {
			qual = append(qual, s)
		} else {
			unqual = append(unqual, s)
		}
	}
	return
}

// idPool: identifiers valid on Z_q (distinct, non-zero, < q).
func idPool() []ID {
	pool := []ID{}
	for i := uint64(1); i < q && i <= 7; i++ {
		pool = append(pool, ID(i))
	}
	if q > 100 {
		pool = append(pool, ID(q-1), ID(q/2), ID(97))
	}
	return pool
}

func pickIDs(n int) []ID {
	pool := idPool()
	rng.Shuffle(len(pool), func(i, j int) { pool[i], pool[j] = pool[j], pool[i] })
	if n > len(pool) {
		n = len(pool)
	}
	ids := append([]ID(nil), pool[:n]...)
	sort.Slice(ids, func(i, j int) bool { return ids[i] < ids[j] })
	return ids
}

func randPolicy(ids []ID, maxKind int) *ad.Policy {
	n := len(ids)
	u := ad.IDsU(ids)
	for {
		switch rng.IntN(maxKind) {
		case 0:
			return &ad.Policy{Kind: "threshold", T: 2 + rng.IntN(n-1), IDs: u}
		case 1:
			return &ad.Policy{Kind: "unanimity", IDs: u}
		case 2:
			if n < 3 {
				continue
			}
			// CNF by maximal unqualified sets: an antichain that does not contain the full set and covers... pick 2-3 random proper subsets, keep maximal ones
			var mus [][]uint64
			cnt := 2 + rng.IntN(3)
			for len(mus) < cnt {
				s := []uint64{}
				for _, x := range u {
					if rng.IntN(2) == 0 {
						s = append(s, x)
					}
				}
				if len(s) == 0 || len(s) == n {
					continue
				}
				mus = append(mus, s)
			}
			mus = maximal(mus)
			// every single party must be unqualified (else one-column MSP refused by design)
			cover := map[uint64]bool{}
			for _, m := range mus {
				for _, x := range m {
					cover[x] = true
				}
			}
			if len(cover) != n {
				continue
			}
			// a party contained in every maximal unqualified set is redundant (never needed, learns nothing)
			redundant := false
			for _, x := range u {
				inAll := true
				for _, m := range mus {
					if !subset([]uint64{x}, m) {
						inAll = false
					}
				}
				if inAll {
					redundant = true
				}
			}
			if redundant && rng.IntN(3) != 0 { // such a holder owns one all-zero row (identity public share); kept in a third of the draws
				continue
			}
			return &ad.Policy{Kind: "cnf", IDs: u, MUS: mus}
		case 3:
			if n < 3 {
				continue
			}
			// gate tree: (t of [leaf..., AND(a,b)])
			kids := []*ad.Gate{}
			for _, x := range u[:n-1] {
				kids = append(kids, &ad.Gate{ID: x})
			}
			kids = append(kids, &ad.Gate{T: 2, Kids: []*ad.Gate{{ID: u[n-1]}, {ID: u[0]}}})
			return &ad.Policy{Kind: "gate", IDs: u, Tree: &ad.Gate{T: 2, Kids: kids}}
		}
	}
}

func subset(a, b []uint64) bool {
	m := map[uint64]bool{}
	for _, x := range b {
		m[x] = true
	}
	for _, x := range a {
		if !m[x] {
			return false
		}
	}
	return true
}

func maximal(sets [][]uint64) [][]uint64 {
	out := [][]uint64{}
	for i, s := range sets {
		keep := true
		for j, t := range sets {
			if i != j && subset(s, t) && (len(s) < len(t) || i > j) {
				keep = false
			}
		}
		if keep {
			out = append(out, s)
		}
	}
	return out
}

func mspInts(sh *ad.Shard) ([][]uint64, []uint64) {
	m := ad.MSPJ(sh.MSP())
	return m["M"].([][]uint64), m["lab"].([]uint64)
}

func anyShard(shards map[ID]*ad.Shard) *ad.Shard {
	ids := []ID{}
	for id, sh := range shards {
		if sh != nil {
			ids = append(ids, id)
		}
	}
	if len(ids) == 0 {
		return nil
	}
	sort.Slice(ids, func(i, j int) bool { return ids[i] < ids[j] })
	return shards[ids[0]]
}

func shardsJ(shards map[ID]*ad.Shard) map[string]any {
	out := map[string]any{}
	for id, sh := range shards {
		out[key(id)] = ad.ShardJ(sh)
	}
	return out
}

func rejectsJ(rs []proto.Reject) []any {
	out := []any{}
	for _, r := range rs {
		out = append(out, map[string]any{"party": uint64(r.Party), "round": r.Round, "blamed": ad.IDsU(r.Blamed), "abort": r.Abort, "panic": r.Panic, "timeout": r.Timeout, "err": r.Err})
	}
	return out
}

func doDeal(pol *ad.Policy) *epoch {
	as, err := pol.Build()
	if err != nil {
		w.Emit(map[string]any{"a": "dealRefused", "pol": pol, "err": tr.ErrClass(err), "degenH": false})
		return nil
	}
	out, err := trusteddealer.Deal(toy.NewGroup(), as, reader())
	if err != nil {
		w.Emit(map[string]any{"a": "dealRefused", "pol": pol, "err": tr.ErrClass(err), "degenH": false})
		return nil
	}
	ep := &epoch{pol: pol, as: as, shards: map[ID]*ad.Shard{}}
	for id, sh := range out.Iter() {
		ep.shards[id] = sh
	}
	M, lab := mspInts(anyShard(ep.shards))
	w.Emit(map[string]any{"a": "deal", "pol": pol, "shards": shardsJ(ep.shards), "certs": ad.AllCerts("cur", M, lab)})
	return ep
}

// doRedist: prev (qualified set of current holders) re-shares to next policy. Returns the new epoch or nil.
func doRedist(ep *epoch, prev []ID, next *ad.Policy, anchor ID, kind string) *epoch {
	nextAS, err := next.Build()
	if err != nil {
		w.Emit(map[string]any{"a": "redistRefused", "why": "policy", "err": tr.ErrClass(err)})
		return ep
	}
	all := map[ID]bool{}
	for _, i := range prev {
		all[i] = true
	}
	for _, i := range holders(next) {
		all[i] = true
	}
	parties := []ID{}
	for i := range all {
		parties = append(parties, i)
	}
	sort.Slice(parties, func(i, j int) bool { return parties[i] < parties[j] })
	ctxs, err := ad.SetupSessions(parties, func(ID) io.Reader { return reader() })
	if err != nil {
		panic(err)
	}
	rps := map[ID]*ad.RedistParty{}
	ps := []proto.Party{}
	isPrev := map[ID]bool{}
	for _, i := range prev {
		isPrev[i] = true
	}
	for _, id := range parties {
		var shard *ad.Shard
		if isPrev[id] {
			shard = ep.shards[id]
		}
		a := ID(0)
		if !isPrev[id] {
			a = anchor
		}
		rp, err := ad.NewRedistParty(ctxs[id], prev, shard, nextAS, reader(), a)
		if err != nil {
			cm, cl := mspInts(anyShard(ep.shards))
			w.Emit(map[string]any{"a": "redistRefused", "why": "constructor", "party": uint64(id), "prev": ad.IDsU(prev), "err": tr.ErrClass(err),
				"certs": []ad.Cert{ad.SpanCert("cur", cm, cl, ad.IDsU(prev))}})
			return ep
		}
		rps[id] = rp
		ps = append(ps, rp)
	}
	// unanimity MSP over prev as the library induces it; reconstruction coefficients (public API)
	un, err := unanimity.NewUnanimityAccessStructure(ad.IDSet(prev...))
	if err != nil {
		panic(err)
	}
	zs, err := feldman.NewScheme(toy.NewGroup(), un)
	if err != nil {
		panic(err)
	}
	cS, cU := map[string]any{}, map[string]any{}
	for _, i := range prev {
		c, err := ep.shards[i].MSP().ReconstructionCoefficients(i, prev...)
		if err != nil {
			panic(err)
		}
		cS[key(i)] = tr.Ints(c)
		c2, err := zs.MSP().ReconstructionCoefficients(i, prev...)
		if err != nil {
			panic(err)
		}
		cU[key(i)] = tr.Ints(c2)
	}
	r1 := map[string]any{}
	r2 := map[string]any{}
	for _, i := range prev {
		r1[key(i)] = map[string]any{"z": []uint64{}, "zs": map[string]any{}}
		r2[key(i)] = map[string]any{"sub": map[string]any{}}
	}
	obs := func(round int, from, to ID, kind string, data []byte) {
		if !isPrev[from] {
			return
		}
		switch {
		case round == 1 && kind == "b":
			m, err := serde.UnmarshalCBOR[*redistribute.Round1Broadcast[ad.G, ad.S]](data)
			if err == nil && m.ZeroR1 != nil {
				r1[key(from)].(map[string]any)["z"] = ad.VVJ(m.ZeroR1.VerificationVector)
			}
		case round == 1 && kind == "u":
			m, err := serde.UnmarshalCBOR[*redistribute.Round1P2P[ad.G, ad.S]](data)
			if err == nil && m.ZeroR1 != nil {
				r1[key(from)].(map[string]any)["zs"].(map[string]any)[key(to)] = ad.ShareJ(m.ZeroR1.ZeroShare)
			}
		case round == 2 && kind == "b":
			m, err := serde.UnmarshalCBOR[*redistribute.Round2Broadcast[ad.G, ad.S]](data)
			if err == nil && m.PrevMSP != nil {
				e := r2[key(from)].(map[string]any)
				e["zvv"] = ad.VVJ(m.ZeroVerificationVector)
				e["d"] = ad.VVJ(m.NextVerificationVectorContribution)
				e["pvv"] = ad.VVJ(m.PrevVerificationVector)
				pm := ad.MSPJ(m.PrevMSP)
				e["pM"], e["plab"] = pm["M"], pm["lab"]
			}
		case round == 2 && kind == "u":
			m, err := serde.UnmarshalCBOR[*redistribute.Round2P2P[ad.G, ad.S]](data)
			if err == nil {
				r2[key(from)].(map[string]any)["sub"].(map[string]any)[key(to)] = ad.ShareJ(m.NextShareContribution)
			}
		}
	}
	res := proto.Run(ps, nil, obs)
	mu := ad.MSPJ(zs.MSP())
	cm, cl := mspInts(anyShard(ep.shards))
	certs1 := append([]ad.Cert{ad.SpanCert("cur", cm, cl, ad.IDsU(prev))}, ad.AllCerts("mu", mu["M"].([][]uint64), mu["lab"].([]uint64))...)
	w.Emit(map[string]any{"a": "redistR1", "certs": certs1, "kind": kind, "prev": ad.IDsU(prev), "parties": ad.IDsU(parties), "anchor": uint64(anchor),
		"next": next, "MU": mu["M"], "labU": mu["lab"], "r1": r1})
	outs := map[ID]*ad.Shard{}
	for _, id := range holders(next) {
		outs[id] = rps[id].Out
	}
	certs2 := []ad.Cert{}
	if o := anyShard(outs); o != nil {
		nm, nl := mspInts(o)
		certs2 = ad.AllCerts("next", nm, nl)
	}
	w.Emit(map[string]any{"a": "redistR2", "cS": cS, "cU": cU, "r2": r2, "certs": certs2})
	ok := len(res.Rejects) == 0
	w.Emit(map[string]any{"a": "redistR3", "ok": ok, "rejects": rejectsJ(res.Rejects), "out": shardsJ(outs)})
	if !ok {
		return ep
	}
	return &epoch{pol: next, as: nextAS, shards: outs}
}

// doReconstruct: reconstruct from the shares of set s (current epoch), through the real scheme.
func doReconstruct(ep *epoch, s []ID) {
	sc, err := feldman.NewScheme(toy.NewGroup(), ep.as)
	if err != nil {
		panic(err)
	}
	shares := []*ad.Share{}
	for _, i := range s {
		shares = append(shares, ep.shards[i].Share())
	}
	var ref *ad.VV
	for _, sh := range ep.shards {
		ref = sh.VerificationVector()
		break
	}
	sec, err := sc.ReconstructAndVerify(ref, shares...)
	cm, cl := mspInts(anyShard(ep.shards))
	ev := map[string]any{"a": "reconstruct", "certs": []ad.Cert{ad.SpanCert("cur", cm, cl, ad.IDsU(s))}, "set": ad.IDsU(s), "ok": err == nil, "v": 0, "accepts": ep.shards[s[0]].MSP().Accepts(s...), "isq": ep.as.IsQualified(s...)}
	if err == nil {
		ev["v"] = sec.Value().Int()
	}
	w.Emit(ev)
}

// doMix: reconstruct from shares where some holders use the share of an older epoch with the same structure.
func doMix(cur, old *epoch, s []ID, useOld map[ID]bool) {
	sc, err := feldman.NewScheme(toy.NewGroup(), cur.as)
	if err != nil {
		panic(err)
	}
	shares := []*ad.Share{}
	from := map[string]any{}
	for _, i := range s {
		if useOld[i] {
			shares = append(shares, old.shards[i].Share())
			from[key(i)] = ad.ShareJ(old.shards[i].Share())
		} else {
			shares = append(shares, cur.shards[i].Share())
			from[key(i)] = ad.ShareJ(cur.shards[i].Share())
		}
	}
	sec, err := sc.Reconstruct(shares...)
	ev := map[string]any{"a": "mix", "set": ad.IDsU(s), "shares": from, "ok": err == nil, "v": 0}
	if err == nil {
		ev["v"] = sec.Value().Int()
	}
	var ref *ad.VV
	for _, sh := range cur.shards {
		ref = sh.VerificationVector()
		break
	}
	_, verr := sc.ReconstructAndVerify(ref, shares...)
	ev["verified"] = verr == nil
	w.Emit(ev)
}

// listed returns the party's own access structure object, built from its own listing of the (same) policy: every party of a
// real deployment builds the structure from its own configuration, and equal structures must behave equally whatever the order
// in which shareholders and sets happen to be listed.
var listRng = tr.PRand(77, 3)

func listed(pol *ad.Policy, fallback accessstructures.Monotone) accessstructures.Monotone {
	as, err := pol.BuildListed(func(n int) []int { return listRng.Perm(n) })
	if err != nil {
		return fallback
	}
	return as
}

// degenerateH projects one specific refusal: the second Pedersen generator that Gennaro's constructor hashes out of the
// session transcript came out as g or as the identity (probability 2/q: visible on the small toy groups only).
func degenerateH(err error) bool {
	if err == nil {
		return false
	}
	s := tr.ErrChain(err)
	return strings.Contains(s, "failed to create pedersen key") &&
		(strings.Contains(s, "generators must be distinct") || strings.Contains(s, "generators must not be the identity element"))
}

// doDKG runs a real Gennaro or Canetti DKG (all parties honest) and logs every dealing column and share on the wire.
func doDKG(which string, pol *ad.Policy) *epoch {
	as, err := pol.Build()
	if err != nil {
		w.Emit(map[string]any{"a": "dealRefused", "pol": pol, "err": tr.ErrClass(err), "degenH": false})
		return nil
	}
	hs := holders(pol)
	ctxs, err := ad.SetupSessions(hs, func(ID) io.Reader { return reader() })
	if err != nil {
		panic(err)
	}
	ps := []proto.Party{}
	outOf := map[ID]func() *ad.Shard{}
	for _, id := range hs {
		switch which {
		case "gennaro":
			g, err := ad.NewGennaroParty(ctxs[id], listed(pol, as), fiatshamir.Name, reader())
			if err != nil {
				w.Emit(map[string]any{"a": "dealRefused", "pol": pol, "err": tr.ErrClass(err), "degenH": degenerateH(err)})
				return nil
			}
			ps = append(ps, g)
			outOf[id] = func() *ad.Shard { return g.Out }
		case "canetti":
			c, err := ad.NewCanettiParty(ctxs[id], listed(pol, as), reader())
			if err != nil {
				w.Emit(map[string]any{"a": "dealRefused", "pol": pol, "err": tr.ErrClass(err), "degenH": false})
				return nil
			}
			ps = append(ps, c)
			outOf[id] = func() *ad.Shard { return c.Out }
		}
	}
	cols := map[string]any{}  // i -> dealing column (Feldman verification vector logs)
	sub := map[string]any{}   // i -> j -> secret share vector on the wire
	blind := map[string]any{} // i -> j -> blinding share vector (Gennaro)
	pvv := map[string]any{}   // i -> Pedersen verification vector logs (Gennaro)
	for _, i := range hs {
		sub[key(i)] = map[string]any{}
		blind[key(i)] = map[string]any{}
	}
	obs := func(round int, from, to ID, kind string, data []byte) {
		switch which {
		case "gennaro":
			switch {
			case round == 1 && kind == "b":
				if m, err := serde.UnmarshalCBOR[*gennaro.Round1Broadcast[ad.G, ad.S]](data); err == nil {
					l := []uint64{}
					for e := range m.PedersenVerificationVector.Value().Iter() {
						l = append(l, e.Log())
					}
					pvv[key(from)] = l
				}
			case round == 1 && kind == "u":
				if m, err := serde.UnmarshalCBOR[*gennaro.Round1Unicast[ad.G, ad.S]](data); err == nil {
					sub[key(from)].(map[string]any)[key(to)] = tr.Ints(m.Share.Value())
					b := []uint64{}
					for _, x := range m.Share.Blinding() {
						b = append(b, x.Value().Int())
					}
					blind[key(from)].(map[string]any)[key(to)] = b
				}
			case round == 2 && kind == "b":
				if m, err := serde.UnmarshalCBOR[*gennaro.Round2Broadcast[ad.G, ad.S]](data); err == nil {
					cols[key(from)] = ad.VVJ(m.FeldmanVerificationVector)
				}
			}
		case "canetti":
			switch {
			case round == 2 && kind == "b":
				if m, err := serde.UnmarshalCBOR[*canetti.Round2Broadcast[ad.G, ad.S]](data); err == nil {
					cols[key(from)] = ad.VVJ(m.Message.X)
				}
			case round == 2 && kind == "u":
				if m, err := serde.UnmarshalCBOR[*canetti.Round2P2P[ad.G, ad.S]](data); err == nil {
					sub[key(from)].(map[string]any)[key(to)] = ad.ShareJ(m.Share)
				}
			}
		}
	}
	res := proto.Run(ps, nil, obs)
	shards := map[ID]*ad.Shard{}
	for _, id := range hs {
		shards[id] = outOf[id]()
	}
	ok := len(res.Rejects) == 0
	ev := map[string]any{"a": "dkg", "proto": which, "pol": pol, "cols": cols, "sub": sub, "ok": ok, "rejects": rejectsJ(res.Rejects), "shards": shardsJ(shards), "certs": []ad.Cert{}}
	if which == "gennaro" {
		ev["blind"], ev["pvv"] = blind, pvv
	}
	if ok {
		M, lab := mspInts(anyShard(shards))
		ev["certs"] = ad.AllCerts("cur", M, lab)
		if which == "gennaro" {
			// eta = log_g(h), the second Pedersen generator: solved from the first usable equation M_j.pvv_i = s_ij + eta t_ij and
			// only CHECKED (for every i, j, row) by the specification
			eta := uint64(0)
			found := false
			for _, i := range hs {
				for _, j := range hs {
					if i == j || found {
						continue
					}
					sv := sub[key(i)].(map[string]any)[key(j)].([]uint64)
					tv := blind[key(i)].(map[string]any)[key(j)].([]uint64)
					pv := pvv[key(i)].([]uint64)
					rowIdx := 0
					for k, h := range lab {
						if ID(h) != j {
							continue
						}
						lhs := uint64(0)
						for c := range M[k] {
							lhs = (lhs + M[k][c]*pv[c]) % q
						}
						if tv[rowIdx] != 0 {
							d := (lhs + q - sv[rowIdx]) % q
							eta = d * powmod(tv[rowIdx], q-2) % q
							found = true
							break
						}
						rowIdx++
					}
				}
			}
			ev["eta"], ev["etaKnown"] = eta, found
		}
	}
	w.Emit(ev)
	if !ok {
		return nil
	}
	return &epoch{pol: pol, as: as, shards: shards}
}

// runRunners executes network.Runner values over real Routers and the repository's in-memory coordinator.
func runRunners[O any](ids []ID, mk func(id ID) (network.Runner[O], error)) (map[ID]O, error) {
	coord := ntu.NewMockCoordinator(ids...)
	type res struct {
		id  ID
		out O
		err error
	}
	ch := make(chan res, len(ids))
	for _, id := range ids {
		r, err := mk(id)
		if err != nil {
			return nil, err
		}
		go func(id ID, r network.Runner[O]) {
			rt := network.NewRouter(coord.DeliveryFor(id))
			defer rt.Close()
			ctx, cancel := context.WithTimeout(context.Background(), 120*time.Second)
			defer cancel()
			o, err := r.Run(ctx, rt, nil)
			ch <- res{id, o, err}
		}(id, r)
	}
	out := map[ID]O{}
	var first error
	for range ids {
		r := <-ch
		if r.err != nil && first == nil {
			first = r.err
		}
		out[r.id] = r.out
	}
	return out, first
}

// doDKGRunner: the same DKGs through the networked runner API (session setup included); only outputs are visible.
func doDKGRunner(which string, pol *ad.Policy) *epoch {
	as, err := pol.Build()
	if err != nil {
		w.Emit(map[string]any{"a": "dealRefused", "pol": pol, "err": tr.ErrClass(err), "degenH": false})
		return nil
	}
	hs := holders(pol)
	ctxs, err := runRunners(hs, func(id ID) (network.Runner[*session.Context], error) {
		return session.NewSessionRunner(id, ad.IDSet(hs...), reader())
	})
	if err != nil {
		panic(err)
	}
	shards, err := runRunners(hs, func(id ID) (network.Runner[*mpc.BaseShard[ad.G, ad.S]], error) {
		if which == "gennaro" {
			return gennaro.NewRunner(ctxs[id], toy.NewGroup(), listed(pol, as), fiatshamir.Name, reader())
		}
		return canetti.NewRunner(ctxs[id], listed(pol, as), toy.NewGroup(), reader())
	})
	ev := map[string]any{"a": "dkgRun", "proto": which, "pol": pol, "ok": err == nil, "err": tr.ErrClass(err), "degenH": degenerateH(err), "shards": map[string]any{}, "certs": []ad.Cert{}}
	if err == nil {
		M, lab := mspInts(anyShard(shards))
		ev["shards"], ev["certs"] = shardsJ(shards), ad.AllCerts("cur", M, lab)
	}
	w.Emit(ev)
	if err != nil {
		return nil
	}
	return &epoch{pol: pol, as: as, shards: shards}
}

// doReload: store every shard (CBOR), load it again, project again.
func doReload(ep *epoch) {
	out := map[ID]*ad.Shard{}
	same := true
	for id, sh := range ep.shards {
		data, err := serde.MarshalCBOR(sh)
		if err != nil {
			panic(err)
		}
		data2, _ := serde.MarshalCBOR(sh)
		back, err := serde.UnmarshalCBOR[*ad.Shard](data)
		if err != nil {
			w.Emit(map[string]any{"a": "reload", "ok": false, "err": tr.ErrClass(err)})
			return
		}
		re, _ := serde.MarshalCBOR(back)
		same = same && string(data) == string(data2) && string(re) == string(data) && back.Equal(sh)
		out[id] = back
	}
	w.Emit(map[string]any{"a": "reload", "ok": true, "same": same, "shards": shardsJ(out)})
}

func powmod(b, e uint64) uint64 {
	r := uint64(1)
	b %= q
	for e > 0 {
		if e&1 == 1 {
			r = r * b % q
		}
		b = b * b % q
		e >>= 1
	}
	return r
}

// doSign runs Lindell22 threshold Schnorr (generic Schnorr variant, SHA-256) with quorum Q on the current epoch.
func doSign(ep *epoch, Q []ID, msg []byte) {
	cm, cl := mspInts(anyShard(ep.shards))
	cert := ad.SpanCert("cur", cm, cl, ad.IDsU(Q))
	base := map[string]any{"a": "sign", "Q": ad.IDsU(Q), "msg": proto.Tok(msg), "certs": []ad.Cert{cert}}
	if len(Q) < 2 {
		base["stage"] = "tooSmall"
		w.Emit(base)
		return
	}
	ctxs, err := ad.SetupSessions(Q, func(ID) io.Reader { return reader() })
	if err != nil {
		panic(err)
	}
	parties := map[ID]*ad.L22Party{}
	ps := []proto.Party{}
	for _, id := range Q {
		ss, err := ad.ToSchnorrShard(ep.shards[id])
		if err != nil {
			base["stage"], base["err"] = "shard", tr.ErrClass(err)
			w.Emit(base)
			return
		}
		p, err := ad.NewL22Party(ctxs[id], ss, fiatshamir.Name, msg, reader())
		if err != nil {
			base["stage"], base["err"] = "constructor", tr.ErrClass(err)
			w.Emit(base)
			return
		}
		parties[id] = p
		ps = append(ps, p)
	}
	un, _ := unanimity.NewUnanimityAccessStructure(ad.IDSet(Q...))
	zsch, err := feldman.NewScheme(toy.NewGroup(), un)
	if err != nil {
		panic(err)
	}
	mu := ad.MSPJ(zsch.MSP())
	cS, cU := map[string]any{}, map[string]any{}
	for _, i := range Q {
		c, err := ep.shards[i].MSP().ReconstructionCoefficients(i, Q...)
		if err != nil {
			panic(err)
		}
		cS[key(i)] = tr.Ints(c)
		c2, err := zsch.MSP().ReconstructionCoefficients(i, Q...)
		if err != nil {
			panic(err)
		}
		cU[key(i)] = tr.Ints(c2)
	}
	z := map[string]any{}
	k := map[string]any{}
	obs := func(round int, from, to ID, kind string, data []byte) {
		switch {
		case round == 1 && kind == "b":
			if m, err := serde.UnmarshalCBOR[*signing.Round1Broadcast[ad.G, ad.S, ad.Msg]](data); err == nil && m.ZeroR1 != nil {
				z[key(from)] = ad.VVJ(m.ZeroR1.VerificationVector)
			}
		case round == 2 && kind == "b":
			if m, err := serde.UnmarshalCBOR[*signing.Round2Broadcast[ad.G, ad.S, ad.Msg]](data); err == nil && m.BigR != nil {
				k[key(from)] = m.BigR.X.Log()
			}
		}
	}
	res := proto.Run(ps, nil, obs)
	base["stage"] = "run"
	base["MU"], base["labU"] = mu["M"], mu["lab"]
	base["cS"], base["cU"], base["z"], base["k"] = cS, cU, z, k
	base["rejects"] = rejectsJ(res.Rejects)
	base["ok"] = len(res.Rejects) == 0
	psigs := map[string]any{}
	base["psig"] = psigs
	base["sigs"] = []any{}
	if len(res.Rejects) == 0 {
		sch, err := ad.NewSchnorrScheme(reader())
		if err != nil {
			panic(err)
		}
		pm := hashmap.NewComparable[ID, *ad.PSig]()
		for _, id := range Q {
			ps := parties[id].PSig
			psigs[key(id)] = map[string]any{"R": ps.Sig.R.Log(), "S": ps.Sig.S.Int(), "E": ps.Sig.E.Int()}
			pm.Put(id, ps)
		}
		base["e"] = parties[Q[0]].PSig.Sig.E.Int()
		first, _ := ad.ToSchnorrShard(ep.shards[Q[0]])
		sigs := []any{}
		// a plain aggregator and the cosigning aggregator of every signer must output the same signature
		aggs := []string{"plain"}
		for range Q {
			aggs = append(aggs, "cosigning")
		}
		for ai, kind := range aggs {
			var sig *ad.Sig
			var aerr error
			if kind == "plain" {
				agg, err := signing.NewAggregator(first.PublicKeyMaterial(), sch)
				if err != nil {
					panic(err)
				}
				sig, aerr = agg.Aggregate(pm.Freeze(), msg)
			} else {
				agg, err := signing.NewCosigningAggregator(parties[Q[ai-1]].C, first.PublicKeyMaterial(), sch)
				if err != nil {
					panic(err)
				}
				sig, aerr = agg.Aggregate(pm.Freeze(), msg)
			}
			rec := map[string]any{"agg": kind, "ok": aerr == nil, "err": tr.ErrClass(aerr)}
			if aerr == nil {
				rec["R"], rec["S"], rec["E"] = sig.R.Log(), sig.S.Int(), sig.E.Int()
				vf, err := sch.Verifier()
				if err != nil {
					panic(err)
				}
				rec["verifyLib"] = vf.Verify(sig, first.PublicKey(), msg) == nil
				other := append([]byte("other:"), msg...)
				rec["verifyOther"] = vf.Verify(sig, first.PublicKey(), other) == nil
				eo, err := sch.Variant().ComputeChallenge(sig.R, first.PublicKey().Value(), other)
				if err != nil {
					panic(err)
				}
				rec["eOther"] = eo.Int()
			}
			sigs = append(sigs, rec)
		}
		base["sigs"] = sigs
	}
	w.Emit(base)
}

func samePolicy(a, b *ad.Policy) bool {
	return fmt.Sprint(*a) == fmt.Sprint(*b) && fmt.Sprint(a.Tree) == fmt.Sprint(b.Tree)
}

func main() {
	qf := flag.Uint64("q", 251, "toy field order")
	out := flag.String("out", "trace.ndjson", "trace file")
	sd := flag.Uint64("seed", 1, "seed")
	n := flag.Int("n", 20, "number of histories")
	maxOps := flag.Int("ops", 4, "operations per history")
	maxParties := flag.Int("parties", 4, "max holders per structure")
	kinds := flag.Int("kinds", 4, "policy families: 1 threshold, 2 +unanimity, 3 +cnf, 4 +gate")
	focus := flag.String("focus", "", "'' mixed histories | dkg (key generation + reload + reconstruction) | sign (key generation + signing with many quorums)")
	flag.Parse()
	q, seed = *qf, *sd
	toy.Setup(q)
	rng = tr.PRand(seed, 77)
	w = tr.NewW(*out)
	defer w.Close()
	w.Emit(map[string]any{"a": "hdr", "q": q, "seed": seed})
	for h := 0; h < *n; h++ {
		w.Emit(map[string]any{"a": "reset", "h": h})
		np := 2 + rng.IntN(*maxParties-1)
		ids := pickIDs(np)
		var ep *epoch
		for ep == nil {
			switch rng.IntN(5) {
			case 0:
				ep = doDeal(randPolicy(ids, *kinds))
			case 1:
				ep = doDKG("gennaro", randPolicy(ids, *kinds))
			case 2:
				ep = doDKG("canetti", randPolicy(ids, *kinds))
			case 3:
				ep = doDKGRunner("gennaro", randPolicy(ids, *kinds))
			case 4:
				ep = doDKGRunner("canetti", randPolicy(ids, *kinds))
			}
		}
		if *focus == "dkg" {
			doReload(ep)
			for _, s := range subsetsOf(holders(ep.pol)) {
				doReconstruct(ep, s)
			}
			continue
		}
		if *focus == "sign" {
			hs := holders(ep.pol)
			qual, unqual := qualifiedSets(ep.as, hs)
			for i, Q := range qual { // every qualified quorum (minimal and non-minimal)
				doSign(ep, Q, []byte(fmt.Sprintf("msg-%d-%d", h, i)))
			}
			for i, Q := range unqual {
				if i < 2 {
					doSign(ep, Q, []byte("refused"))
				}
			}
			doSign(ep, qual[0], []byte{})
			continue
		}
		var older *epoch
		for op := 0; op < *maxOps; op++ {
			hs := holders(ep.pol)
			qual, unqual := qualifiedSets(ep.as, hs)
			switch c := rng.IntN(8); {
			case c >= 6: // sign with a qualified quorum (sometimes an unqualified one: must be refused)
				Q := qual[rng.IntN(len(qual))]
				if rng.IntN(5) == 0 && len(unqual) > 0 {
					Q = unqual[rng.IntN(len(unqual))]
				}
				msg := []byte(fmt.Sprintf("message-%d-%d", h, op))
				if rng.IntN(6) == 0 {
					msg = []byte{}
				}
				doSign(ep, Q, msg)
			case c == 0: // refresh: same structure, all holders or a qualified subset drive
				prev := qual[rng.IntN(len(qual))]
				if rng.IntN(2) == 0 {
					prev = hs
				}
				anchor := ID(0)
				if len(prev) < len(hs) && rng.IntN(2) == 0 {
					anchor = prev[rng.IntN(len(prev))]
				}
				old := ep
				ep = doRedist(ep, prev, ep.pol, anchor, "refresh")
				if ep != old {
					older = old
				}
			case c == 1: // recover: one holder lost its share; a qualified set not containing it drives
				lost := hs[rng.IntN(len(hs))]
				cands := [][]ID{}
				for _, s := range qual {
					has := false
					for _, i := range s {
						if i == lost {
							has = true
						}
					}
					if !has {
						cands = append(cands, s)
					}
				}
				if len(cands) == 0 {
					continue
				}
				prev := cands[rng.IntN(len(cands))]
				anchor := ID(0)
				if rng.IntN(2) == 0 {
					anchor = prev[rng.IntN(len(prev))]
				}
				old := ep
				ep = doRedist(ep, prev, ep.pol, anchor, "recover")
				if ep != old {
					older = old
				}
			case c == 2: // redistribute to a new structure / holder set
				nn := 2 + rng.IntN(*maxParties-1)
				nids := pickIDs(nn)
				next := randPolicy(nids, *kinds)
				prev := qual[rng.IntN(len(qual))]
				anchor := ID(0)
				if rng.IntN(2) == 0 {
					anchor = prev[rng.IntN(len(prev))]
				}
				ep = doRedist(ep, prev, next, anchor, "redistribute")
				older = nil
			case c == 3: // an unqualified set tries to drive: constructor must refuse
				if len(unqual) == 0 {
					continue
				}
				prev := unqual[rng.IntN(len(unqual))]
				doRedist(ep, prev, ep.pol, 0, "unqualified")
			case c == 4:
				for _, s := range subsetsOf(hs) {
					doReconstruct(ep, s)
				}
			case c == 5:
				if older == nil || !samePolicy(older.pol, ep.pol) {
					continue
				}
				s := qual[rng.IntN(len(qual))]
				useOld := map[ID]bool{}
				for _, i := range s {
					useOld[i] = rng.IntN(2) == 0
				}
				doMix(ep, older, s, useOld)
			}
		}
		// always end with a full reconstruction sweep
		for _, s := range subsetsOf(holders(ep.pol)) {
			doReconstruct(ep, s)
		}
	}
	fmt.Fprintf(os.Stdout, "events=%d\n", w.N)
}

// Free-running mode (V): a randomized driver exercises a real network.Router with the hooks
// in trace mode (no gating; the gate hook only injects scheduling jitter). Deliveries are
// shuffled, duplicated, delayed; correlation ids live in nested namespaces; calls are
// cancelled at random points and retried; broadcasters equivocate; non-members and garbage
// are injected; the router is closed or the link fails at random points.
package main

import (
	"context"
	"fmt"
	"math/rand/v2"
	"runtime"
	"sort"
	"strings"
	"sync"
	"time"

	"github.com/bronlabs/bron-crypto/pkg/mpc/sharing"
	"github.com/bronlabs/bron-crypto/pkg/network"

	"verif/harness/tr"
)

var freeQuorum = []int{1, 2, 3, 4, 100}

var allKeys = []string{"x", "y", "a/x", "a/y", "a/b/x", "c/x"}

func spin(r *rand.Rand, max int) {
	n := r.IntN(max + 1)
	for i := 0; i < n; i++ {
		runtime.Gosched()
	}
}

type freeCall struct {
	w        string
	key      string
	froms    []int
	startAt  int  // yields before the call is made
	cancelAt int  // yields after start before cancelling; <0: never
	retry    bool // after a context error call again with the same arguments
}

func freeRun(rng *rand.Rand, in *interner, id string, overflow bool) ([]map[string]any, map[string]callInfo) {
	quorum := make([]sharing.ID, len(freeQuorum))
	for i, q := range freeQuorum {
		quorum[i] = sharing.ID(q)
	}
	self := sharing.ID(100)
	rec := &recorder{in: in}
	d := &hdelivery{id: self, quorum: quorum, in: make(chan wireMsg), quit: make(chan struct{}), rec: rec, honour: true}
	rt := network.NewRouter(d)
	d.router = rt
	core := network.VerifCoreOf(rt)
	register(core, rec)
	defer func() { unregister(core); network.VerifForget(rt) }()

	// ---- plan
	nk := 1 + rng.IntN(4)
	keys := append([]string(nil), allKeys...)
	rng.Shuffle(len(keys), func(i, j int) { keys[i], keys[j] = keys[j], keys[i] })
	keys = keys[:nk]
	var msgs []wireMsg
	payload := func() []byte {
		b := make([]byte, 2+rng.IntN(6))
		for i := range b {
			b[i] = byte(rng.IntN(256))
		}
		return b
	}
	mk := func(from int, key string, p []byte) wireMsg {
		ns, idd := splitKey(key)
		return wireMsg{from: from, cid: cidAtoms(key), pay: in.tok(p), data: encode(from, quorum, self, ns, idd, p)}
	}
	var calls []freeCall
	nc := 0
	newCall := func(key string, froms []int) *freeCall {
		nc++
		calls = append(calls, freeCall{w: fmt.Sprintf("w%d", nc), key: key, froms: froms, startAt: rng.IntN(40), cancelAt: -1})
		return &calls[len(calls)-1]
	}
	for _, k := range keys {
		perm := rng.Perm(4)
		nf := 1 + rng.IntN(3)
		froms := []int{}
		for _, p := range perm[:nf] {
			froms = append(froms, p+1)
		}
		sort.Ints(froms)
		for _, f := range froms {
			if rng.IntN(12) == 0 {
				continue // this sender never sends: the call can only end by cancellation / failure
			}
			p := payload()
			msgs = append(msgs, mk(f, k, p))
			for rng.IntN(4) == 0 { // identical retransmissions
				msgs = append(msgs, mk(f, k, p))
			}
			if rng.IntN(8) == 0 { // equivocation: same length in half of the cases
				q := payload()
				if rng.IntN(2) == 0 {
					q = append([]byte(nil), p...)
					q[rng.IntN(len(q))] ^= 1 << uint(rng.IntN(8))
				}
				msgs = append(msgs, mk(f, k, q))
			}
		}
		if rng.IntN(5) == 0 { // non-member under the same key, also for a requested sender id + 4
			msgs = append(msgs, mk(7+rng.IntN(2), k, payload()))
		}
		if rng.IntN(5) == 0 { // a message nobody asks for (other id in the same namespace)
			ns, _ := splitKey(k)
			other := "z"
			if ns != "" {
				other = ns + "/z"
			}
			msgs = append(msgs, mk(1+rng.IntN(4), other, payload()))
		}
		c := newCall(k, froms)
		if rng.IntN(3) == 0 {
			c.cancelAt = rng.IntN(60)
			c.retry = rng.IntN(10) < 7
		}
		if rng.IntN(7) == 0 { // second call on the same key: concurrent refusal or a later call
			sub := froms[:1+rng.IntN(len(froms))]
			newCall(k, append([]int(nil), sub...))
		}
	}
	if rng.IntN(25) == 0 {
		msgs = append(msgs, wireMsg{from: 1 + rng.IntN(4), cid: []string{}, bad: true, data: []byte{0xff, byte(rng.IntN(256))}})
	}
	rng.Shuffle(len(msgs), func(i, j int) { msgs[i], msgs[j] = msgs[j], msgs[i] })
	failAt := -1
	if rng.IntN(12) == 0 {
		failAt = rng.IntN(len(msgs) + 1)
	}
	closeAt := -1
	if rng.IntN(7) == 0 {
		closeAt = rng.IntN(120)
	}
	if overflow { // fill the buffer to its documented bound, then one more
		msgs = msgs[:0]
		for i := 0; i < 10001; i++ {
			msgs = append(msgs, mk(1+i%4, fmt.Sprintf("o/k%d", i/4), []byte{byte(i), byte(i >> 8), 1}))
		}
		failAt, closeAt = -1, -1
	}

	// ---- run
	info := map[string]callInfo{}
	var infoMu sync.Mutex
	var wg sync.WaitGroup
	type live struct {
		cancel context.CancelFunc
		w      string
	}
	var liveMu sync.Mutex
	lives := map[string]live{}
	doCancel := func(w string) {
		liveMu.Lock()
		l, ok := lives[w]
		liveMu.Unlock()
		if !ok {
			return
		}
		lo := network.VerifSeq(rt)
		l.cancel()
		rec.addCancel(cancelItem{w: w, lo: lo, hi: network.VerifSeq(rt)})
	}
	var nretry int
	var launch func(c freeCall, r *rand.Rand)
	launch = func(c freeCall, r *rand.Rand) {
		ctx, cancel := context.WithCancel(callCtx(context.Background(), c.w))
		liveMu.Lock()
		lives[c.w] = live{cancel, c.w}
		liveMu.Unlock()
		infoMu.Lock()
		info[c.w] = callInfo{W: c.w, Cid: cidAtoms(c.key), Froms: c.froms}
		infoMu.Unlock()
		froms := make([]sharing.ID, len(c.froms))
		for i, f := range c.froms {
			froms[i] = sharing.ID(f)
		}
		ns, idd := splitKey(c.key)
		if c.cancelAt >= 0 {
			wg.Add(1)
			go func(n int) {
				defer wg.Done()
				for i := 0; i < n; i++ {
					runtime.Gosched()
				}
				doCancel(c.w)
			}(c.cancelAt)
		}
		res, err := view(rt, ns).ReceiveFrom(ctx, idd, froms...)
		cr := classify(in, res, err)
		rec.addRet(retItem{w: c.w, res: cr})
		liveMu.Lock()
		delete(lives, c.w)
		liveMu.Unlock()
		cancel()
		if cr.Kind == "ctx" && c.retry {
			infoMu.Lock()
			nretry++
			w2 := fmt.Sprintf("r%d", nretry)
			infoMu.Unlock()
			launch(freeCall{w: w2, key: c.key, froms: c.froms, cancelAt: -1}, r)
		}
	}
	seeds := make([]uint64, len(calls)+2)
	for i := range seeds {
		seeds[i] = rng.Uint64()
	}
	for i, c := range calls {
		wg.Add(1)
		go func(c freeCall, s uint64) {
			defer wg.Done()
			r := rand.New(rand.NewPCG(s, 1))
			for j := 0; j < c.startAt; j++ {
				runtime.Gosched()
			}
			launch(c, r)
		}(c, seeds[i])
	}
	feederDone := make(chan struct{})
	go func() { // the network: delivers in the planned (shuffled) order with random pauses
		defer close(feederDone)
		r := rand.New(rand.NewPCG(seeds[len(calls)], 2))
		for i, m := range msgs {
			if i == failAt {
				select {
				case d.in <- wireMsg{err: errLinkDown}:
				case <-d.quit:
				}
				return
			}
			if !overflow {
				spin(r, 6)
			}
			select {
			case d.in <- m:
			case <-d.quit:
				return
			}
		}
		if failAt == len(msgs) {
			select {
			case d.in <- wireMsg{err: errLinkDown}:
			case <-d.quit:
			}
		}
	}()
	if closeAt >= 0 {
		wg.Add(1)
		go func() {
			defer wg.Done()
			for i := 0; i < closeAt; i++ {
				runtime.Gosched()
			}
			rt.Close()
		}()
	}
	if overflow { // the overflow run has one late call that observes the latched failure
		<-feederDone
	}
	// ---- tear-down (part of the trace): let things settle, then cancel what still waits, close
	done := make(chan struct{})
	go func() { wg.Wait(); close(done) }()
	select {
	case <-feederDone:
	case <-done:
	case <-time.After(2 * time.Second):
	}
	select {
	case <-done:
	case <-time.After(time.Duration(100+rng.IntN(300)) * time.Microsecond):
	}
	for k := 0; k < 3; k++ {
		liveMu.Lock()
		ws := []string{}
		for w := range lives {
			ws = append(ws, w)
		}
		liveMu.Unlock()
		sort.Strings(ws)
		for _, w := range ws {
			doCancel(w)
		}
		select {
		case <-done:
			k = 3
		case <-time.After(2 * time.Millisecond):
		}
	}
	rt.Close()
	close(d.quit)
	select {
	case <-done:
	case <-time.After(20 * time.Second):
		panic("free run: calls did not return after cancel + close: " + id)
	}
	<-feederDone
	// the reader's last fail() may still be running
	dl := time.Now().Add(2 * time.Second)
	for time.Now().Before(dl) {
		rec.mu.Lock()
		n := len(rec.hooks)
		started := n > 0 && rec.hooks[n-1].st.Started
		rec.mu.Unlock()
		if !started || readerEnded(rec) {
			break
		}
		time.Sleep(50 * time.Microsecond)
	}
	return rec.merged(info), info
}

// readerEnded reports whether the reader's final event (a fail, or a deposit that overflowed) was recorded.
func readerEnded(rec *recorder) bool {
	rec.mu.Lock()
	defer rec.mu.Unlock()
	for _, h := range rec.hooks {
		if h.st.Ev == "fail" || (h.st.Ev == "dep" && strings.Contains(fatalKind(h.st.Fatal), "overflow")) {
			return true
		}
	}
	return false
}

func freeMode(outPath string, seed uint64, n int) int {
	w := newOut(outPath)
	in := newInterner()
	jr := tr.PRand(seed, 77)
	var jmu sync.Mutex
	freeJitter = func(_ any, gate string) {
		jmu.Lock()
		k := jr.IntN(8)
		jmu.Unlock()
		if k >= 5 {
			for i := 0; i < k-4; i++ {
				runtime.Gosched()
			}
		}
	}
	rng := tr.PRand(seed, 1)
	for i := 0; i < n; i++ {
		id := fmt.Sprintf("free-%d-%d", seed, i)
		lines, info := freeRun(rng, in, id, false)
		w.run(id, freeQuorum, info, lines, map[string]any{"mode": "free"})
	}
	w.close()
	fmt.Printf("{\"free_runs\":%d,\"lines\":%d}\n", n, w.n)
	return 0
}

func overflowMode(outPath string, seed uint64) int {
	w := newOut(outPath)
	in := newInterner()
	rng := tr.PRand(seed, 5)
	lines, info := freeRun(rng, in, "overflow", true)
	w.run("overflow", freeQuorum, info, lines, map[string]any{"mode": "overflow"})
	w.close()
	fmt.Printf("{\"free_runs\":1,\"lines\":%d}\n", w.n)
	return 0
}

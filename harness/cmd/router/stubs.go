package main

func runnerMode(out string, seed uint64, n int, p string) int { return 2 }

// router drives pkg/network (Router, echo broadcast, protocol runners) for property C11.
//
//	-mode replay  gated replay of TLC-generated behaviours of Router.tla        (replay.go)
//	-mode free    free-running randomized executions, hooks in trace mode       (free.go)
//	-mode echo    TLC-enumerated Byzantine echo-broadcast behaviours            (echo.go)
//	-mode runner  protocol runners over an adversarial Delivery                 (runner.go)
//
// The driver judges nothing: it logs actions, arguments and the projected real state; the
// TLA+ trace specifications RouterTrace / EchoTrace decide.
package main

import (
	"bufio"
	"encoding/json"
	"flag"
	"fmt"
	"os"
	"sort"
	"time"

	"github.com/bronlabs/bron-crypto/pkg/network"
)

// out writes runs as blocks: a reset line, the events, an end line.
type outW struct {
	f *os.File
	b *bufio.Writer
	n int
	k int
}

func newOut(path string) *outW {
	f, err := os.Create(path)
	if err != nil {
		panic(err)
	}
	return &outW{f: f, b: bufio.NewWriterSize(f, 1<<20)}
}

func (o *outW) line(m map[string]any) {
	data, err := json.Marshal(m)
	if err != nil {
		panic(err)
	}
	o.b.Write(data)
	o.b.WriteByte('\n')
	o.n++
}

func (o *outW) run(id string, quorum []int, calls map[string]callInfo, lines []map[string]any, meta map[string]any) {
	o.k++
	cl := []map[string]any{}
	names := []string{}
	for w := range calls {
		names = append(names, w)
	}
	sort.Strings(names)
	for _, w := range names {
		cl = append(cl, map[string]any{"w": w, "cid": calls[w].Cid, "froms": calls[w].Froms})
	}
	o.line(map[string]any{"a": "reset", "run": o.k, "id": id, "quorum": quorum, "calls": cl, "meta": meta})
	for _, l := range lines {
		o.line(l)
	}
	o.line(map[string]any{"a": "end", "run": o.k})
}

func (o *outW) close() { o.b.Flush(); o.f.Close() }

func main() {
	mode := flag.String("mode", "replay", "replay | free | echo | runner")
	in := flag.String("in", "", "behaviours (ndjson)")
	out := flag.String("out", "trace.ndjson", "trace output")
	seed := flag.Uint64("seed", 1, "seed")
	n := flag.Int("n", 200, "number of runs")
	timeout := flag.Duration("gate-timeout", 5*time.Second, "gate timeout of the replay scheduler")
	repeat := flag.Int("repeat", 1, "replay every behaviour this many times")
	maxStuck := flag.Int("max-stuck", 3, "stop replaying after this many confirmed hangs")
	proto := flag.String("proto", "session,gennaro", "runner mode: protocols")
	flag.Parse()
	network.VerifTraceHook = traceHook
	network.VerifGateHook = gateHook
	rc := 0
	switch *mode {
	case "replay":
		rc = replayMode(*in, *out, *timeout, *repeat, *maxStuck)
	case "free":
		rc = freeMode(*out, *seed, *n)
	case "overflow":
		rc = overflowMode(*out, *seed)
	case "echo":
		rc = echoMode(*in, *out)
	case "runner":
		rc = runnerMode(*out, *seed, *n, *proto)
	default:
		fmt.Fprintln(os.Stderr, "unknown mode")
		rc = 2
	}
	os.Exit(rc)
}

// Runner mode: the repository's protocol runners (session setup, Gennaro and Canetti DKG on k256)
// are executed over an adversarial Delivery (random delivery order, delays, duplicated
// retransmissions) with the router hooks in trace mode. Every party's router trace is written as
// one run; the run ends with an "outputs" line that says whether all parties' outputs agree.
package main

import (
	"bytes"
	"context"
	"fmt"
	"math/rand/v2"
	"runtime"
	"sort"
	"strings"
	"sync"
	"time"

	"github.com/bronlabs/bron-crypto/pkg/base/curves/k256"
	"github.com/bronlabs/bron-crypto/pkg/base/datastructures/hashset"
	"github.com/bronlabs/bron-crypto/pkg/base/serde"
	"github.com/bronlabs/bron-crypto/pkg/mpc"
	"github.com/bronlabs/bron-crypto/pkg/mpc/dkg/canetti"
	"github.com/bronlabs/bron-crypto/pkg/mpc/dkg/gennaro"
	"github.com/bronlabs/bron-crypto/pkg/mpc/session"
	"github.com/bronlabs/bron-crypto/pkg/mpc/sharing"
	"github.com/bronlabs/bron-crypto/pkg/mpc/sharing/accessstructures/threshold"
	"github.com/bronlabs/bron-crypto/pkg/network"
	"github.com/bronlabs/bron-crypto/pkg/proofs/sigma/compiler/fiatshamir"

	"verif/harness/tr"
)

// wireView mirrors the router's wire format for logging only.
type wireView struct {
	From          sharing.ID `cbor:"from"`
	CorrelationID string     `cbor:"correlationID"`
	Payload       []byte     `cbor:"payload"`
}

// advNet is the adversarial network between the parties of one run.
type advNet struct {
	mu     sync.Mutex
	pools  map[sharing.ID][]wireMsg
	wake   map[sharing.ID]chan struct{}
	rng    *rand.Rand
	in     *interner
	dupes  int
	total  int
	closed chan struct{}
}

func (n *advNet) send(from, to sharing.ID, data []byte) {
	m := wireMsg{from: int(from), data: data}
	if v, err := serde.UnmarshalCBOR[wireView](data); err == nil {
		m.cid, m.pay = cidAtoms(v.CorrelationID), n.in.tok(v.Payload)
	} else {
		m.bad, m.cid = true, []string{}
	}
	n.mu.Lock()
	n.pools[to] = append(n.pools[to], m)
	n.total++
	if n.rng.IntN(4) == 0 { // retransmission: the identical message arrives twice
		n.pools[to] = append(n.pools[to], m)
		n.dupes++
	}
	ch := n.wake[to]
	n.mu.Unlock()
	select {
	case ch <- struct{}{}:
	default:
	}
}

// dispatch feeds one recipient in random order with random pauses.
func (n *advNet) dispatch(to sharing.ID, d *hdelivery) {
	for {
		n.mu.Lock()
		var m wireMsg
		ok := false
		if k := len(n.pools[to]); k > 0 && n.rng.IntN(3) > 0 { // sometimes wait for more messages to shuffle with
			i := n.rng.IntN(k)
			m, ok = n.pools[to][i], true
			n.pools[to] = append(n.pools[to][:i], n.pools[to][i+1:]...)
		}
		pending := len(n.pools[to])
		n.mu.Unlock()
		if !ok {
			if pending > 0 {
				runtime.Gosched()
				continue
			}
			select {
			case <-n.wake[to]:
				continue
			case <-n.closed:
				return
			}
		}
		select {
		case d.in <- m:
		case <-n.closed:
			return
		}
	}
}

type partyRun struct {
	id  sharing.ID
	rec *recorder
	d   *hdelivery
	rt  *network.Router
}

func runnerMode(outPath string, seed uint64, n int, protos string) int {
	w := newOut(outPath)
	in := newInterner()
	rng := tr.PRand(seed, 9)
	traces, agreeAll := 0, true
	for i := 0; i < n; i++ {
		for _, proto := range strings.Split(protos, ",") {
			np := 3
			if proto == "canetti" {
				np = 4
			}
			ok, k := runnerOne(w, in, rng, fmt.Sprintf("%s-%d-%d", proto, seed, i), proto, np)
			traces += k
			agreeAll = agreeAll && ok
		}
	}
	w.close()
	fmt.Printf("{\"router_traces\":%d,\"runs\":%d,\"outputs_agree\":%v,\"lines\":%d}\n", traces, n, agreeAll, w.n)
	return 0
}

func runnerOne(w *outW, in *interner, rng *rand.Rand, id, proto string, np int) (bool, int) {
	ids := make([]sharing.ID, np)
	qi := make([]int, np)
	for i := range ids {
		ids[i] = sharing.ID(i + 1)
		qi[i] = i + 1
	}
	quorum := hashset.NewComparable(ids...).Freeze()
	net := &advNet{pools: map[sharing.ID][]wireMsg{}, wake: map[sharing.ID]chan struct{}{}, rng: rand.New(rand.NewPCG(rng.Uint64(), 3)),
		in: in, closed: make(chan struct{})}
	parties := map[sharing.ID]*partyRun{}
	for _, p := range ids { // all wake channels exist before the first dispatcher reads the map
		net.wake[p] = make(chan struct{}, 1)
	}
	for _, p := range ids {
		rec := &recorder{in: in}
		d := &hdelivery{id: p, quorum: ids, in: make(chan wireMsg), quit: make(chan struct{}), rec: rec, honour: true}
		pp := p
		d.sendHook = func(to sharing.ID, data []byte) error {
			net.send(pp, to, append([]byte(nil), data...))
			return nil
		}
		rt := network.NewRouter(d)
		d.router = rt
		register(network.VerifCoreOf(rt), rec)
		parties[p] = &partyRun{id: p, rec: rec, d: d, rt: rt}
		go net.dispatch(p, d)
	}
	seeds := map[sharing.ID]uint64{}
	for _, p := range ids {
		seeds[p] = rng.Uint64()
	}
	ctx, cancel := context.WithTimeout(context.Background(), 120*time.Second)
	defer cancel()

	// phase 1: session setup
	type sres struct {
		id  sharing.ID
		ctx *session.Context
		err error
	}
	sch := make(chan sres, np)
	for _, p := range ids {
		go func(p sharing.ID) {
			r, err := session.NewSessionRunner(p, quorum, tr.Rng(seeds[p], 1))
			if err != nil {
				sch <- sres{p, nil, err}
				return
			}
			c, err := r.Run(ctx, parties[p].rt, nil)
			sch <- sres{p, c, err}
		}(p)
	}
	sctx := map[sharing.ID]*session.Context{}
	errsSeen := []string{}
	for range ids {
		r := <-sch
		if r.err != nil {
			errsSeen = append(errsSeen, tr.ErrClass(r.err))
		}
		sctx[r.id] = r.ctx
	}
	agree := len(errsSeen) == 0
	if agree {
		sid := sctx[ids[0]].SessionID()
		for _, p := range ids {
			agree = agree && sctx[p].SessionID() == sid
		}
	}
	// phase 2: a DKG over the same routers
	if agree && proto != "session" {
		as, err := threshold.NewThresholdAccessStructure(2, quorum)
		if err != nil {
			panic(err)
		}
		group := k256.NewCurve()
		type dres struct {
			id  sharing.ID
			sh  *mpc.BaseShard[*k256.Point, *k256.Scalar]
			err error
		}
		dch := make(chan dres, np)
		for _, p := range ids {
			go func(p sharing.ID) {
				var r network.Runner[*mpc.BaseShard[*k256.Point, *k256.Scalar]]
				var err error
				if proto == "gennaro" {
					r, err = gennaro.NewRunner(sctx[p], group, as, fiatshamir.Name, tr.Rng(seeds[p], 2))
				} else {
					r, err = canetti.NewRunner(sctx[p], as, group, tr.Rng(seeds[p], 2))
				}
				if err != nil {
					dch <- dres{p, nil, err}
					return
				}
				sh, err := r.Run(ctx, parties[p].rt, nil)
				dch <- dres{p, sh, err}
			}(p)
		}
		shards := map[sharing.ID]*mpc.BaseShard[*k256.Point, *k256.Scalar]{}
		for range ids {
			r := <-dch
			if r.err != nil {
				errsSeen = append(errsSeen, tr.ErrClass(r.err))
			}
			shards[r.id] = r.sh
		}
		agree = len(errsSeen) == 0
		if agree {
			pk := shards[ids[0]].PublicKeyValue().Bytes()
			vv := shards[ids[0]].VerificationVector()
			for _, p := range ids {
				agree = agree && bytes.Equal(shards[p].PublicKeyValue().Bytes(), pk) && shards[p].VerificationVector().Equal(vv)
			}
		}
	}
	// tear-down
	for _, p := range ids {
		parties[p].rt.Close()
	}
	close(net.closed)
	time.Sleep(300 * time.Microsecond)
	for _, p := range ids {
		pr := parties[p]
		// wait for the reader's final fail()
		dl := time.Now().Add(2 * time.Second)
		for time.Now().Before(dl) && !readerEnded(pr.rec) {
			time.Sleep(50 * time.Microsecond)
		}
		unregister(network.VerifCoreOf(pr.rt))
		network.VerifForget(pr.rt)
		calls := map[string]callInfo{}
		lines := pr.rec.merged(calls)
		sort.Strings(errsSeen)
		lines = append(lines, map[string]any{"a": "outputs", "agree": agree, "errors": errsSeen})
		w.run(fmt.Sprintf("%s/p%d", id, p), qi, calls, lines, map[string]any{"mode": "runner", "proto": proto, "party": int(p),
			"messages": net.total, "duplicated": net.dupes})
	}
	return agree, np
}

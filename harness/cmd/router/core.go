// Common machinery of the router driver (C11): a harness-controlled network.Delivery, the
// recorder fed by the verif hooks of pkg/network/router.go, and the merge of the hook
// events (ordered by the sequence number written under the router's mutex) with the
// harness's own observations (what Receive returned, cancellations, call results) into
// one trace per router. Nothing is judged here; RouterTrace.tla decides.
package main

import (
	"context"
	"errors"
	"fmt"
	"sort"
	"strconv"
	"strings"
	"sync"

	"github.com/bronlabs/errs-go/errs"

	"github.com/bronlabs/bron-crypto/pkg/base"
	"github.com/bronlabs/bron-crypto/pkg/mpc/sharing"
	"github.com/bronlabs/bron-crypto/pkg/network"
)

type ctxKey struct{}

// callCtx tags a context with the identifier of a ReceiveFrom call.
func callCtx(parent context.Context, w string) context.Context {
	return context.WithValue(parent, ctxKey{}, w)
}

func whoOf(ctx context.Context) string {
	if ctx != nil {
		if w, ok := ctx.Value(ctxKey{}).(string); ok {
			return w
		}
		if c := network.VerifCallOf(ctx); c != nil { // calls made by library code (protocol runners)
			return fmt.Sprintf("c%d", c.ID)
		}
	}
	return "rd"
}

// ---------------------------------------------------------------- payload tokens

// interner maps payload bytes to small integers (equal bytes <=> equal token).
type interner struct {
	mu   sync.Mutex
	m    map[string]int
	next int
}

func newInterner() *interner { return &interner{m: map[string]int{}, next: 1000} }

// tok returns the token of a payload; payloads that are decimal numbers < 1000 are their own token.
func (in *interner) tok(p []byte) int {
	if n, err := strconv.Atoi(string(p)); err == nil && n > 0 && n < 1000 && strconv.Itoa(n) == string(p) {
		return n
	}
	in.mu.Lock()
	defer in.mu.Unlock()
	if t, ok := in.m[string(p)]; ok {
		return t
	}
	in.next++
	in.m[string(p)] = in.next
	return in.next
}

func cidAtoms(cid string) []string {
	out := []string{}
	parts := strings.Split(cid, "/")
	for i, p := range parts {
		if i > 0 {
			out = append(out, "/")
		}
		if p != "" || i < len(parts)-1 {
			out = append(out, p)
		}
	}
	return out
}

// ---------------------------------------------------------------- error classes (projection only)

// chainHas reports whether any error of the chain has a message containing sub.
func chainHas(err error, sub string) bool {
	if err == nil {
		return false
	}
	if strings.Contains(err.Error(), sub) {
		return true
	}
	for _, e := range errs.Unwrap(err) {
		if chainHas(e, sub) {
			return true
		}
	}
	return false
}

func fatalKind(err error) string {
	switch {
	case err == nil:
		return "none"
	case errors.Is(err, network.ErrRouterClosed):
		return "closed"
	case errors.Is(err, network.ErrReceiveBufferFull):
		return "overflow"
	case chainHas(err, "failed to decode message"):
		return "decode"
	case chainHas(err, "router reader panicked"):
		return "panic"
	default:
		return "delivery"
	}
}

func blameOf(err error) int {
	if err == nil {
		return 0
	}
	if v, ok := errs.HasTag(err, base.IdentifiableAbortPartyIDTag); ok {
		if id, ok := v.(sharing.ID); ok {
			return int(id)
		}
	}
	return -1
}

type callResult struct {
	Kind  string // ok | poison | busy | ctx | fatal
	Why   string
	Blame int
	Pay   [][2]int
}

func classify(in *interner, out map[sharing.ID][]byte, err error) callResult {
	r := callResult{Why: "none", Pay: [][2]int{}}
	switch {
	case err == nil:
		r.Kind = "ok"
		for id, p := range out {
			r.Pay = append(r.Pay, [2]int{int(id), in.tok(p)})
		}
		sort.Slice(r.Pay, func(i, j int) bool { return r.Pay[i][0] < r.Pay[j][0] })
	case errors.Is(err, network.ErrDuplicateMessage):
		r.Kind = "poison"
		r.Blame = blameOf(err)
	case errors.Is(err, network.ErrInvalidArgument):
		r.Kind = "busy"
	case errors.Is(err, network.ErrRouterClosed) || errors.Is(err, network.ErrReceiveBufferFull) || errors.Is(err, errLinkDown) ||
		chainHas(err, "failed to decode message"):
		r.Kind = "fatal"
		r.Why = fatalKind(err)
	case errors.Is(err, context.Canceled) || errors.Is(err, context.DeadlineExceeded):
		r.Kind = "ctx"
	default:
		r.Kind = "fatal"
		r.Why = fatalKind(err)
	}
	return r
}

var errLinkDown = errors.New("harness: link down")

// ---------------------------------------------------------------- recorder

type hookEv struct {
	st    network.VerifState
	who   string
	froms []int // requested senders of the call (from the call's context)
}

type recvItem struct {
	after uint64 // value of the core's sequence counter when Receive returned
	from  int
	cid   []string
	pay   int
	bad   bool
	err   bool
}

type cancelItem struct {
	w      string
	lo, hi uint64
}

type retItem struct {
	w   string
	res callResult
}

// recorder collects everything observed about one router.
type recorder struct {
	mu      sync.Mutex
	in      *interner
	hooks   []hookEv
	recvs   []recvItem
	cancels []cancelItem
	rets    []retItem
	notes   []map[string]any // appended at the end (stuck reports)
}

var (
	recMu     sync.RWMutex
	recorders = map[any]*recorder{}
)

func register(core any, r *recorder) { recMu.Lock(); recorders[core] = r; recMu.Unlock() }
func unregister(core any)            { recMu.Lock(); delete(recorders, core); recMu.Unlock() }
func recorderOf(core any) *recorder  { recMu.RLock(); defer recMu.RUnlock(); return recorders[core] }

func traceHook(core any, ctx context.Context, st network.VerifState) {
	r := recorderOf(core)
	if r == nil {
		return
	}
	// called under the router's mutex: copy what may change later
	if st.Payload != nil {
		st.Payload = append([]byte(nil), st.Payload...)
	}
	r.mu.Lock()
	who := whoOf(ctx)
	if st.Ev == "close" {
		who = "close"
	}
	h := hookEv{st: st, who: who}
	if c := network.VerifCallOf(ctx); c != nil {
		for _, f := range c.Froms {
			h.froms = append(h.froms, int(f))
		}
		sort.Ints(h.froms)
	}
	r.hooks = append(r.hooks, h)
	r.mu.Unlock()
}

func (r *recorder) addRecv(it recvItem) { r.mu.Lock(); r.recvs = append(r.recvs, it); r.mu.Unlock() }
func (r *recorder) addCancel(c cancelItem) {
	r.mu.Lock()
	r.cancels = append(r.cancels, c)
	r.mu.Unlock()
}
func (r *recorder) addRet(x retItem) { r.mu.Lock(); r.rets = append(r.rets, x); r.mu.Unlock() }

// snapshot copies what has been recorded so far.
func (r *recorder) snapshot() *recorder {
	r.mu.Lock()
	defer r.mu.Unlock()
	return &recorder{in: r.in, hooks: append([]hookEv(nil), r.hooks...), recvs: append([]recvItem(nil), r.recvs...),
		cancels: append([]cancelItem(nil), r.cancels...), rets: append([]retItem(nil), r.rets...)}
}

// ---------------------------------------------------------------- delivery

type wireMsg struct {
	from int
	data []byte
	err  error
	// description for the log (what the harness put on the wire)
	cid []string
	pay int
	bad bool
}

// hdelivery is the harness's network.Delivery for the receiving party.
type hdelivery struct {
	id       sharing.ID
	quorum   []sharing.ID
	in       chan wireMsg
	rec      *recorder
	router   *network.Router // set after NewRouter; used to read the sequence counter
	honour   bool            // honour ctx cancellation (free mode)
	quit     chan struct{}   // closed at tear-down: Receive fails
	atRecv   func()          // replay mode: called on entry of Receive (blocks until released)
	sendHook func(to sharing.ID, data []byte) error
}

func (d *hdelivery) PartyID() sharing.ID  { return d.id }
func (d *hdelivery) Quorum() []sharing.ID { return append([]sharing.ID(nil), d.quorum...) }
func (d *hdelivery) Send(_ context.Context, to sharing.ID, data []byte) error {
	if d.sendHook != nil {
		return d.sendHook(to, data)
	}
	return nil
}

func (d *hdelivery) Receive(ctx context.Context) (sharing.ID, []byte, error) {
	if d.atRecv != nil {
		d.atRecv()
	}
	var m wireMsg
	var done <-chan struct{}
	if d.honour {
		done = ctx.Done()
	}
	select {
	case m = <-d.in:
	case <-done:
		m = wireMsg{err: ctx.Err()}
	case <-d.quit:
		m = wireMsg{err: errLinkDown}
	}
	it := recvItem{from: m.from, cid: m.cid, pay: m.pay, bad: m.bad, err: m.err != nil}
	if d.router != nil {
		it.after = network.VerifSeq(d.router)
	}
	d.rec.addRecv(it)
	if m.err != nil {
		return 0, nil, m.err
	}
	return sharing.ID(m.from), m.data, nil
}

// capture is the Delivery of a sending party: SendTo of a real Router (with its Namespaced
// views) produces the bytes that travel; the harness decides when they arrive.
type capture struct {
	id     sharing.ID
	quorum []sharing.ID
	out    func(to sharing.ID, data []byte)
}

func (c *capture) PartyID() sharing.ID  { return c.id }
func (c *capture) Quorum() []sharing.ID { return c.quorum }
func (c *capture) Send(_ context.Context, to sharing.ID, data []byte) error {
	c.out(to, append([]byte(nil), data...))
	return nil
}
func (c *capture) Receive(ctx context.Context) (sharing.ID, []byte, error) {
	<-ctx.Done()
	return 0, nil, ctx.Err()
}

// view returns the router view for a namespace path such as "", "a", "a/b".
func view(rt *network.Router, ns string) *network.Router {
	if ns == "" {
		return rt
	}
	for _, p := range strings.Split(ns, "/") {
		rt = rt.Namespaced(p)
	}
	return rt
}

// encode produces the wire bytes of one message through the sender's real Router.SendTo.
func encode(from int, quorum []sharing.ID, to sharing.ID, ns, id string, payload []byte) []byte {
	var got []byte
	c := &capture{id: sharing.ID(from), quorum: quorum, out: func(_ sharing.ID, data []byte) { got = data }}
	rt := network.NewRouter(c)
	if err := view(rt, ns).SendTo(context.Background(), id, map[sharing.ID][]byte{to: payload}); err != nil {
		panic(fmt.Sprintf("SendTo: %v", err))
	}
	network.VerifForget(rt)
	return got
}

// splitKey splits a full key "a/b/x" into namespace "a/b" and id "x".
func splitKey(key string) (ns, id string) {
	i := strings.LastIndex(key, "/")
	if i < 0 {
		return "", key
	}
	return key[:i], key[i+1:]
}

// ---------------------------------------------------------------- merge

func pairsOf(in *interner, m map[sharing.ID][]byte) [][2]int {
	out := make([][2]int, 0, len(m))
	for id, p := range m {
		out = append(out, [2]int{int(id), in.tok(p)})
	}
	sort.Slice(out, func(i, j int) bool { return out[i][0] < out[j][0] })
	return out
}

type callInfo struct {
	W     string
	Cid   []string
	Froms []int
}

func dedup(xs []int) []int {
	out := []int{}
	for i, x := range xs {
		if i == 0 || x != xs[i-1] {
			out = append(out, x)
		}
	}
	return out
}

// merged turns the recorder's content into trace lines (without the reset line); it fills `calls`
// with the arguments of every call that entered the router.
func (r *recorder) merged(calls map[string]callInfo) []map[string]any {
	r.mu.Lock()
	defer r.mu.Unlock()
	hooks := append([]hookEv(nil), r.hooks...)
	sort.Slice(hooks, func(i, j int) bool { return hooks[i].st.Seq < hooks[j].st.Seq })
	// calls named by the library hook ("c<global id>") are renumbered per run
	ren := map[string]string{}
	for i := range hooks {
		w := hooks[i].who
		if len(w) > 1 && w[0] == 'c' && strings.Trim(w[1:], "0123456789") == "" {
			if _, ok := ren[w]; !ok {
				ren[w] = fmt.Sprintf("c%d", len(ren)+1)
			}
			hooks[i].who = ren[w]
		}
	}
	lines := []map[string]any{}
	ri, ci := 0, 0
	cancels := append([]cancelItem(nil), r.cancels...)
	sort.SliceStable(cancels, func(i, j int) bool { return cancels[i].lo < cancels[j].lo })
	lastOf := map[string]uint64{}
	for _, h := range hooks {
		lastOf[h.who] = h.st.Seq
	}
	retOf := map[string][]retItem{}
	for _, x := range r.rets {
		retOf[x.w] = append(retOf[x.w], x)
	}
	emitRecv := func(it recvItem) {
		if it.err {
			lines = append(lines, map[string]any{"a": "rderr"})
			return
		}
		m := map[string]any{"from": it.from, "cid": it.cid, "pay": it.pay, "bad": it.bad}
		s := map[string]any{"a": "send"}
		v := map[string]any{"a": "recv"}
		for k, x := range m {
			s[k] = x
			v[k] = x
		}
		lines = append(lines, s, v)
	}
	flushCancels := func(upto uint64) {
		for ci < len(cancels) && cancels[ci].lo <= upto {
			c := cancels[ci]
			lines = append(lines, map[string]any{"a": "cancel", "w": c.w, "lo": c.lo, "hi": c.hi})
			ci++
		}
	}
	flushCancels(0)
	for _, h := range hooks {
		st := h.st
		if h.who == "rd" && (st.Ev == "dep" || st.Ev == "fail") {
			for ri < len(r.recvs) && r.recvs[ri].after < st.Seq {
				emitRecv(r.recvs[ri])
				ri++
			}
		}
		ev := map[string]any{"a": st.Ev, "seq": st.Seq, "w": h.who, "buffered": st.Buffered, "nbox": st.NBoxes,
			"started": st.Started, "fatal": fatalKind(st.Fatal), "cid": cidAtoms(st.Cid), "exists": st.Exists,
			"present": pairsOf(r.in, st.Present), "poison": blameOf(st.Poison), "notify": st.Notify, "token": st.Token}
		if st.Ev == "dep" {
			ev["from"] = int(st.From)
			ev["pay"] = r.in.tok(st.Payload)
		}
		if strings.HasPrefix(st.Ev, "en-") {
			fr := dedup(h.froms)
			ev["froms"] = fr
			calls[h.who] = callInfo{W: h.who, Cid: cidAtoms(st.Cid), Froms: fr}
		}
		lines = append(lines, ev)
		if lastOf[h.who] == st.Seq && h.who != "rd" {
			for _, x := range retOf[h.who] {
				lines = append(lines, map[string]any{"a": "ret", "w": x.w, "kind": x.res.Kind, "why": x.res.Why,
					"blame": x.res.Blame, "pay": x.res.Pay})
			}
			delete(retOf, h.who)
		}
		flushCancels(st.Seq)
	}
	for ri < len(r.recvs) {
		emitRecv(r.recvs[ri])
		ri++
	}
	flushCancels(^uint64(0))
	lines = append(lines, r.notes...)
	return lines
}

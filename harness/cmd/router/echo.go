// Echo mode: Byzantine behaviours enumerated by TLC from Echo.tla are replayed on real
// echo.Participant objects (real CBOR, real SHA3-256). Honest parties run Round1/2/3 of
// pkg/network/echo; the messages of Byzantine parties are built by the harness from the
// behaviour. Logged per behaviour: what every honest party received, echoed (digests interned
// to tokens, payload digests computed independently with crypto/sha3), accepted and delivered.
package main

import (
	"bufio"
	"crypto/sha3"
	"encoding/json"
	"fmt"
	"os"
	"sort"
	"strings"

	"github.com/bronlabs/bron-crypto/pkg/base/datastructures/hashmap"
	"github.com/bronlabs/bron-crypto/pkg/base/datastructures/hashset"
	"github.com/bronlabs/bron-crypto/pkg/base/serde"
	"github.com/bronlabs/bron-crypto/pkg/mpc/sharing"
	"github.com/bronlabs/bron-crypto/pkg/network"
	"github.com/bronlabs/bron-crypto/pkg/network/echo"
)

type echoMsg struct {
	V int `cbor:"v"`
}

type echoParty = echo.Participant[*echoMsg, *echoCtx]
type echoCtx struct{}

func (m *echoMsg) Validate(*echoCtx, sharing.ID) error { return nil }

type echoMapJ struct {
	None bool     `json:"none"`
	E    [][2]int `json:"e"`
}

type echoBeh struct {
	N     int      `json:"n"`
	Byz   []int    `json:"byz"`
	Input [][2]int `json:"input"`
	R1    [][3]int `json:"r1"`
	R2    []struct {
		E int      `json:"e"`
		P int      `json:"p"`
		M echoMapJ `json:"m"`
	} `json:"r2"`
}

type r1T = *echo.Round1P2P[*echoMsg, *echoCtx]
type r2T = *echo.Round2P2P[*echoMsg, *echoCtx]

func payloadBytes(v int) []byte {
	b, err := serde.MarshalCBOR(&echoMsg{V: v})
	if err != nil {
		panic(err)
	}
	return b
}

// digestCode interns a digest: the digest of the payload with value v is v, the zero digest 0, anything else -1.
func digestCode(d [32]byte, maxV int) int {
	if d == ([32]byte{}) {
		return 0
	}
	for v := 1; v <= maxV; v++ {
		if sha3.Sum256(payloadBytes(v)) == d {
			return v
		}
	}
	return -1
}

func echoMode(inPath, outPath string) int {
	f, err := os.Open(inPath)
	if err != nil {
		panic(err)
	}
	defer f.Close()
	w := newOut(outPath)
	w.line(map[string]any{"a": "hdr"})
	sc := bufio.NewScanner(f)
	sc.Buffer(make([]byte, 1<<20), 1<<26)
	n := 0
	for sc.Scan() {
		if len(strings.TrimSpace(sc.Text())) == 0 {
			continue
		}
		var b echoBeh
		if err := json.Unmarshal(sc.Bytes(), &b); err != nil {
			panic(err)
		}
		n++
		w.line(echoOne(b, n))
	}
	w.close()
	fmt.Printf("{\"echo_behaviours\":%d}\n", n)
	return 0
}

func echoOne(b echoBeh, k int) map[string]any {
	ids := make([]sharing.ID, b.N)
	for i := range ids {
		ids[i] = sharing.ID(i + 1)
	}
	quorum := hashset.NewComparable(ids...).Freeze()
	isByz := map[int]bool{}
	for _, x := range b.Byz {
		isByz[x] = true
	}
	input := map[int]int{}
	for _, x := range b.Input {
		input[x[0]] = x[1]
	}
	honest := []int{}
	for i := 1; i <= b.N; i++ {
		if !isByz[i] {
			honest = append(honest, i)
		}
	}
	parties := map[int]*echoParty{}
	for _, p := range honest {
		pp, err := echo.NewParticipant[*echoMsg, *echoCtx](sharing.ID(p), quorum)
		if err != nil {
			panic(err)
		}
		parties[p] = pp
	}
	// round 1
	r1out := map[int]network.OutgoingUnicasts[r1T, *echoParty]{}
	for _, p := range honest {
		o, err := parties[p].Round1(&echoMsg{V: input[p]})
		if err != nil {
			panic(err)
		}
		r1out[p] = o
	}
	byz1 := map[[2]int]int{}
	for _, x := range b.R1 {
		byz1[[2]int{x[0], x[1]}] = x[2]
	}
	ok2 := map[int]bool{}
	r2out := map[int]network.OutgoingUnicasts[r2T, *echoParty]{}
	echoLog := [][]any{}
	okLog := [][]any{}
	for _, p := range honest {
		in := map[sharing.ID]r1T{}
		for s := 1; s <= b.N; s++ {
			if s == p {
				continue
			}
			if isByz[s] {
				if v := byz1[[2]int{s, p}]; v != 0 {
					in[sharing.ID(s)] = &echo.Round1P2P[*echoMsg, *echoCtx]{Payload: payloadBytes(v)}
				}
			} else if m, ok := r1out[s].Get(sharing.ID(p)); ok {
				in[sharing.ID(s)] = m
			}
		}
		o, err := parties[p].Round2(hashmap.NewImmutableComparableFromNativeLike(in))
		ok2[p] = err == nil
		okLog = append(okLog, []any{p, err == nil})
		if err == nil {
			r2out[p] = o
			// what p echoes (must be the same map for every recipient: log the one for the first recipient and whether all agree)
			var first map[sharing.ID][32]byte
			same := true
			for _, m := range o.Iter() {
				if first == nil {
					first = m.EchoHashes
				} else if fmt.Sprint(first) != fmt.Sprint(m.EchoHashes) {
					same = false
				}
			}
			ent := [][2]int{}
			for id, d := range first {
				ent = append(ent, [2]int{int(id), digestCode(d, 2)})
			}
			sort.Slice(ent, func(i, j int) bool { return ent[i][0] < ent[j][0] })
			echoLog = append(echoLog, []any{p, ent, same, o.Size()})
		}
	}
	// round 3
	byz2 := map[[2]int]echoMapJ{}
	for _, x := range b.R2 {
		byz2[[2]int{x.E, x.P}] = x.M
	}
	accLog := [][]any{}
	outLog := [][]any{}
	for _, p := range honest {
		if !ok2[p] {
			accLog = append(accLog, []any{p, false})
			continue
		}
		in := map[sharing.ID]r2T{}
		for e := 1; e <= b.N; e++ {
			if e == p {
				continue
			}
			if isByz[e] {
				m := byz2[[2]int{e, p}]
				if m.None {
					continue
				}
				hs := map[sharing.ID][32]byte{}
				for _, x := range m.E {
					switch {
					case x[1] > 0:
						hs[sharing.ID(x[0])] = sha3.Sum256(payloadBytes(x[1]))
					case x[1] == 0: // zero digest = entry left out
					default:
						hs[sharing.ID(x[0])] = sha3.Sum256([]byte(fmt.Sprintf("other-%d-%d-%d", e, p, x[0])))
					}
				}
				in[sharing.ID(e)] = &echo.Round2P2P[*echoMsg, *echoCtx]{EchoHashes: hs}
			} else if ok2[e] {
				if m, ok := r2out[e].Get(sharing.ID(p)); ok {
					in[sharing.ID(e)] = m
				}
			}
		}
		o, err := parties[p].Round3(hashmap.NewImmutableComparableFromNativeLike(in))
		accLog = append(accLog, []any{p, err == nil})
		if err == nil {
			ent := [][2]int{}
			for id, m := range o.Iter() {
				ent = append(ent, [2]int{int(id), m.V})
			}
			sort.Slice(ent, func(i, j int) bool { return ent[i][0] < ent[j][0] })
			outLog = append(outLog, []any{p, ent})
		}
	}
	return map[string]any{"a": "echo", "k": k, "n": b.N, "byz": b.Byz, "input": b.Input, "r1": b.R1, "r2": b.R2,
		"ok2": okLog, "echo": echoLog, "acc": accLog, "out": outLog}
}

package main

// The cases, written once for every point type: round trips over the reference window and the special elements,
// crafted encodings through every decoder.  The Go side judges nothing: it logs what the real code did, how the
// independent oracle reads the bytes, and tokens (equal value <=> equal token).

import (
	"bytes"
	"fmt"
	"math/big"
	"math/rand/v2"

	"github.com/fxamacker/cbor/v2"

	"verif/harness/tr"
)

var bigEight = big.NewInt(8)

type config struct {
	win    int // reference window |k| <= win
	fwin   int // the same for field elements
	nrand  int // random strings per decoder
	seed   uint64
	only   map[string]bool
	stride int
}

type runner struct {
	name string
	run  func(w *tr.W, cfg config)
}

// guard runs f and converts a panic into a logged event.
func guard(f func()) (panicked string) {
	defer func() {
		if r := recover(); r != nil {
			panicked = fmt.Sprint(r)
			if len(panicked) > 120 {
				panicked = panicked[:120]
			}
		}
	}()
	f()
	return ""
}

// projection of a real element: the stored coordinates normalised with math/big
type projection struct {
	str   string // canonical name of the element ("" if the representation is not a point at all)
	onc   bool   // the stored coordinates satisfy the curve equation (and T Z = X Y on Edwards)
	insub bool
	p     pt
}

type decoder[P any] struct {
	api  string  // FromCompressed | FromBytes | FromUncompressed | UnmarshalBinary | UnmarshalCBOR
	fm   *format // the format of the bytes it takes (for CBOR: of the payload)
	dec  func([]byte) (P, error)
	enc  func(P) ([]byte, error) // the matching encoder
	wrap func([]byte) []byte     // payload -> what the decoder takes (CBOR framing), nil = identity
	unw  func([]byte) []byte     // encoder output -> payload
}

type pointRun[P any] struct {
	a     *papi[P]
	g     *grpModel
	w     *tr.W
	cfg   config
	known map[string]*projection // validity of projected elements, computed once each
	negOK bool
	win   []pt // oracle [k]G, index k + W
	real  []P  // library [k]G
}

func mkRunner[P any](a *papi[P]) runner {
	return runner{name: a.name, run: func(w *tr.W, cfg config) {
		r := &pointRun[P]{a: a, g: a.model, w: w, cfg: cfg, known: map[string]*projection{}}
		r.run()
	}}
}

func cborWrap(key string) func([]byte) []byte {
	return func(b []byte) []byte {
		out, err := cbor.Marshal(map[string][]byte{key: b})
		if err != nil {
			panic(err)
		}
		return out
	}
}

func cborUnwrap(key string) func([]byte) []byte {
	return func(b []byte) []byte {
		var m map[string][]byte
		if err := cbor.Unmarshal(b, &m); err != nil {
			return nil
		}
		return m[key]
	}
}

func (r *pointRun[P]) decoders() []decoder[P] {
	a := r.a
	noerr := func(f func(P) []byte) func(P) ([]byte, error) {
		return func(p P) ([]byte, error) { return f(p), nil }
	}
	ds := []decoder[P]{
		{api: "FromCompressed", fm: a.comp, dec: a.fromCompressed, enc: noerr(a.toCompressed)},
		{api: "FromBytes", fm: a.comp, dec: a.fromBytes, enc: noerr(a.toBytes)},
		{api: "FromUncompressed", fm: a.uncomp, dec: a.fromUncompressed, enc: noerr(a.toUncompressed)},
	}
	if a.unmarshalBinary != nil {
		ds = append(ds, decoder[P]{api: "UnmarshalBinary", fm: a.comp, dec: a.unmarshalBinary, enc: a.marshalBinary})
	}
	ds = append(ds, decoder[P]{api: "UnmarshalCBOR", fm: a.cborInner, dec: a.unmarshalCBOR, enc: a.marshalCBOR,
		wrap: cborWrap("compressedBytes"), unw: cborUnwrap("compressedBytes")})
	return ds
}

// project normalises the stored coordinates of a real element.
func (r *pointRun[P]) project(p P) *projection {
	var c []fe
	if msg := guard(func() { c = r.a.raw(p) }); msg != "" {
		return &projection{}
	}
	f := r.g.f()
	for i := range c { // the stored values are canonical residues already; reduce defensively
		for j := range c[i] {
			c[i][j] = f.norm(c[i][j])
		}
	}
	var q pt
	rep := true
	if f.isZero(c[2]) {
		if r.g.e != nil {
			return &projection{}
		}
		q = pt{inf: true}
	} else {
		zi, _ := f.inv(c[2])
		q = pt{x: f.mul(c[0], zi), y: f.mul(c[1], zi)}
		if r.g.e != nil { // extended coordinates: T Z = X Y
			rep = f.eq(f.mul(c[3], c[2]), f.mul(c[0], c[1]))
		}
	}
	s := ptStr(r.g.cm(), q)
	if pr, ok := r.known[s]; ok && rep {
		return pr
	}
	pr := &projection{str: s, p: q}
	pr.onc = rep && r.g.cm().onCurve(q)
	pr.insub = pr.onc && r.g.inSub(q)
	if rep {
		r.known[s] = pr
	}
	return pr
}

func (r *pointRun[P]) tokOf(pr *projection) int { return tokElem(r.g.kind(), pr.str) }

func (r *pointRun[P]) buildWindow() {
	W := r.cfg.win
	cm := r.g.cm()
	// the generator as the oracle sees it: read once from the library, checked on the independent curve
	gp := r.project(r.a.gen())
	if !gp.onc || !gp.insub || cm.isIdentity(gp.p) {
		panic(r.a.name + ": generator not a point of prime order on the reference curve")
	}
	r.g.G = gp.p
	r.win = make([]pt, 2*W+1)
	r.real = make([]P, 2*W+1)
	r.win[W] = cm.identity()
	r.real[W] = r.a.id()
	acc, accN := cm.identity(), cm.identity()
	nG := cm.neg(gp.p)
	realG := r.a.gen()
	for k := 1; k <= W; k++ {
		acc = cm.add(acc, gp.p)
		accN = cm.add(accN, nG)
		r.win[W+k], r.win[W-k] = acc, accN
		r.real[W+k] = r.a.add(r.real[W+k-1], realG)
	}
	// negative multiples of the real element: -G comes from the oracle through the affine constructor (second door: the
	// library's Neg) and is checked by G + (-G) = identity; if neither door works the window is one-sided and a
	// "build" line records it
	var ng P
	okN := false
	for _, door := range []func() (P, error){
		func() (P, error) { return r.a.fromAffine(r.affineXY(nG)) },
		func() (P, error) { return r.a.neg(realG), nil },
	} {
		var err error
		if msg := guard(func() { ng, err = door() }); msg == "" && err == nil {
			if pr := r.project(r.a.add(realG, ng)); pr.str != "" && cm.isIdentity(pr.p) {
				okN = true
				break
			}
		}
	}
	r.negOK = okN
	for k := 1; k <= W; k++ {
		if okN {
			r.real[W-k] = r.a.add(r.real[W-k+1], ng)
		} else {
			r.real[W-k] = r.real[W+k]
			r.win[W-k] = r.win[W+k]
		}
	}
	if !okN {
		r.w.Emit(map[string]any{"a": "build", "curve": r.a.name, "label": "-G", "ok": false, "panic": false, "err": "no door to -G"})
	}
	for i, p := range r.win {
		r.known[ptStr(cm, p)] = &projection{str: ptStr(cm, p), onc: true, insub: true, p: p}
		_ = i
	}
}

// affineXY gives the coordinates the type's affine constructor takes (Montgomery for curve25519).
func (r *pointRun[P]) affineXY(p pt) (fe, fe) {
	if r.a.comp == fmtMontc {
		u, v, _ := edToMont(p)
		return u, v
	}
	return p.x, p.y
}

type special struct {
	label string
	p     pt
	half  *pt // a point whose double is p: a second door when the affine constructor refuses p
}

// specials: elements outside the window that the property names (zero coordinates, small / composite order).
func (r *pointRun[P]) specials() []special {
	g, f := r.g, r.g.f()
	var out []special
	if g.w != nil {
		if p, ok := g.w.lift(f.zero()); ok { // points with x = 0
			out = append(out, special{label: "x0", p: p}, special{label: "x0", p: g.w.neg(p)})
		}
		for i := int64(1); i < 200 && len(out) < 6; i++ { // small abscissas
			if p, ok := g.w.lift(f.small(i)); ok {
				out = append(out, special{label: "smallx", p: p})
			}
		}
		if g.cof.Cmp(one) != 0 {
			n := 0
			for i := int64(1); i < 400 && n < 2; i++ {
				p, ok := g.w.lift(f.small(i))
				if !ok || g.inSub(p) {
					continue
				}
				n++
				out = append(out, special{label: "composite", p: p})
				if t := mulBig(g.w, g.order, p); !t.inf {
					out = append(out, special{label: "torsion", p: t})
				}
				out = append(out, special{label: "clearcof", p: mulBig(g.w, g.cof, p)})
			}
		}
	} else {
		t2 := special{label: "T2", p: pt{x: f.small(0), y: f.small(-1)}}
		if p, ok := g.e.liftY(f.small(0)); ok { // y = 0: order four
			t2.half = &p
			out = append(out, t2, special{label: "T4", p: p}, special{label: "T4", p: g.e.neg(p)})
		} else {
			out = append(out, t2)
		}
		for i := int64(2); i < 200; i++ {
			p, ok := g.e.liftY(f.small(i))
			if !ok || g.inSub(p) {
				continue
			}
			t := mulBig(g.e, g.order, p) // pure torsion component
			if ord8 := !g.e.isIdentity(mulBig(g.e, big.NewInt(4), t)); ord8 {
				out = append(out, special{label: "T8", p: t}, special{label: "T8x3", p: mulBig(g.e, big.NewInt(3), t)},
					special{label: "G+T8", p: g.e.add(g.G, t)}, special{label: "G+T2", p: g.e.add(g.G, pt{x: f.small(0), y: f.small(-1)})},
					special{label: "composite", p: p}, special{label: "smally", p: mulBig(g.e, bigEight, p)})
				break
			}
		}
	}
	return out
}

func (r *pointRun[P]) valid(p pt) bool {
	return r.g.cm().onCurve(p) && (!r.g.prime || r.g.inSub(p))
}

func (r *pointRun[P]) run() {
	r.buildWindow()
	g := r.g
	W := r.cfg.win
	decs := r.decoders()
	g.idEnc = map[string][]byte{}
	guard(func() { g.idEnc[r.a.comp.rule] = r.a.toCompressed(r.a.id()) })
	guard(func() { g.idEnc[r.a.uncomp.rule] = r.a.toUncompressed(r.a.id()) })
	r.w.Emit(map[string]any{"a": "curve", "curve": r.a.name, "promise": g.promise(), "win": W,
		"apis": func() []string {
			o := []string{}
			for _, d := range decs {
				o = append(o, d.api)
			}
			return append(o, "FromAffine")
		}()})

	// ---- (a) round trips and injectivity: window + specials that are elements of the type
	type elem struct {
		label string
		k     int
		p     pt
		real  P
		ok    bool
	}
	var elems []elem
	for k := -W; k <= W; k++ {
		lab := "window"
		if k == 0 {
			lab = "identity"
		}
		elems = append(elems, elem{lab, k, r.win[W+k], r.real[W+k], true})
	}
	for _, s := range r.specials() {
		if !r.valid(s.p) {
			continue
		}
		// a valid element outside the window: built through the affine constructor (the library has no other door)
		x, y := r.affineXY(s.p)
		var el P
		var err error
		msg := guard(func() { el, err = r.a.fromAffine(x, y) })
		ok := msg == "" && err == nil
		if !ok && s.half != nil { // second door: the group law
			hx, hy := r.affineXY(*s.half)
			msg = guard(func() {
				var h P
				if h, err = r.a.fromAffine(hx, hy); err == nil {
					el = r.a.add(h, h)
				}
			})
			ok = msg == "" && err == nil && r.project(el).str == ptStr(g.cm(), s.p)
		}
		elems = append(elems, elem{s.label, 0, s.p, el, ok})
		if !ok {
			r.w.Emit(map[string]any{"a": "build", "curve": r.a.name, "label": s.label, "ok": false, "panic": msg != "", "err": tr.ErrChain(err)})
		}
	}
	for _, d := range decs {
		var injE, injB []int
		for _, e := range elems {
			if !e.ok {
				continue
			}
			ev := map[string]any{"a": "rt", "curve": r.a.name, "api": d.api, "fmt": d.fm.rule, "label": e.label, "k": e.k,
				"elem": tokElem(g.kind(), ptStr(g.cm(), e.p)), "elemNeg": tokElem(g.kind(), ptStr(g.cm(), g.cm().neg(e.p)))}
			var enc []byte
			var err error
			if msg := guard(func() { enc, err = d.enc(e.real) }); msg != "" || err != nil {
				ev["panic"], ev["stage"], ev["acc"], ev["err"] = msg != "", "encode", false, msg+tr.ErrChain(err)
				r.w.Emit(ev)
				continue
			}
			payload := enc
			if d.unw != nil {
				payload = d.unw(enc)
			}
			ev["enc"] = tokBytes(payload)
			ev["encx"] = tokBytes(d.fm.enc(g, e.p)) // the oracle's own encoding of the element
			injE, injB = append(injE, ev["elem"].(int)), append(injB, ev["enc"].(int))
			var back P
			msg := guard(func() { back, err = d.dec(enc) })
			ev["panic"], ev["acc"] = msg != "", msg == "" && err == nil
			if msg == "" && err == nil {
				pr := r.project(back)
				ev["dec"], ev["decOnc"], ev["decInSub"] = r.tokOf(pr), pr.onc, pr.insub
				var re []byte
				if m2 := guard(func() { re, err = d.enc(back) }); m2 == "" && err == nil {
					if d.unw != nil {
						re = d.unw(re)
					}
					ev["re"] = tokBytes(re)
				} else {
					ev["re"] = 0
				}
			} else {
				ev["err"] = msg + tr.ErrChain(err)
			}
			r.w.Emit(ev)
		}
		r.w.Emit(map[string]any{"a": "inj", "curve": r.a.name, "api": d.api, "fmt": d.fm.rule, "elems": injE, "encs": injB})
	}
	// affine round trip: coordinates out, constructor in
	for _, e := range elems {
		if !e.ok || g.cm().isIdentity(e.p) {
			continue
		}
		if e.label == "window" && e.k%7 != 0 && e.k > 16 || e.k < -16 && e.k%7 != 0 {
			continue
		}
		x, y := r.affineXY(e.p)
		ev := map[string]any{"a": "rt", "curve": r.a.name, "api": "FromAffine", "fmt": "affine", "label": e.label, "k": e.k,
			"elem": tokElem(g.kind(), ptStr(g.cm(), e.p)), "elemNeg": 0, "enc": 1, "encx": 1, "re": 1}
		var back P
		var err error
		msg := guard(func() { back, err = r.a.fromAffine(x, y) })
		ev["panic"], ev["acc"] = msg != "", msg == "" && err == nil
		if msg == "" && err == nil {
			pr := r.project(back)
			ev["dec"], ev["decOnc"], ev["decInSub"] = r.tokOf(pr), pr.onc, pr.insub
		}
		r.w.Emit(ev)
	}

	// ---- (b) crafted encodings through every decoder
	rng := tr.PRand(r.cfg.seed, uint64(len(r.a.name)))
	crafts := map[*format][]craft{}
	for _, d := range decs {
		if _, ok := crafts[d.fm]; !ok {
			crafts[d.fm] = r.craft(d.fm, rng)
		}
		for _, c := range crafts[d.fm] {
			in := c.b
			if d.wrap != nil {
				in = d.wrap(c.b)
			}
			v := classify(g, d.fm, c.b)
			ev := map[string]any{"a": "dec", "curve": r.a.name, "api": d.api, "fmt": d.fm.rule, "cls": c.cls, "det": c.det,
				"promise": g.promise(), "len": v.Len, "L": v.L, "idenc": v.idenc, "fl": flagRec(d.fm.rule, v.fl), "idform": v.idform, "red": v.red,
				"onc": v.onc, "insub": v.insub, "small": v.small, "canon": v.canon, "exps": nz(v.exps)}
			if len(c.b) <= 200 {
				ev["hex"] = fmt.Sprintf("%x", c.b)
			}
			var back P
			var err error
			msg := guard(func() { back, err = d.dec(in) })
			ev["panic"], ev["acc"] = msg != "", msg == "" && err == nil
			ev["got"], ev["gotOnc"], ev["gotInSub"] = 0, false, false
			if msg == "" && err == nil {
				pr := r.project(back)
				ev["got"], ev["gotOnc"], ev["gotInSub"] = r.tokOf(pr), pr.onc, pr.insub
			} else {
				ev["err"] = msg + tr.ErrChain(err)
			}
			r.w.Emit(ev)
		}
	}
	// ---- (c) the affine constructors on coordinates of every class
	r.affineCases(rng)
}

func nz(a []int) []int {
	if a == nil {
		return []int{}
	}
	return a
}

// flagRec gives the flag fields the rule of the format reads (missing fields as 0).
func flagRec(rule string, fl map[string]int) map[string]int {
	switch rule {
	case "sec1c", "sec1u":
		return map[string]int{"prefix": fl["prefix"]}
	case "blsc", "blsu":
		return map[string]int{"c": fl["c"], "i": fl["i"], "s": fl["s"]}
	}
	return map[string]int{"none": 0}
}

// affineCases: FromAffine(x, y) and FromAffineX(x, parity) on coordinates that are on / off the curve, on the
// twist, of small and composite order.  The "string" is the pair of field elements; its reading is the
// uncompressed reading of the same coordinates.
func (r *pointRun[P]) affineCases(rng *rand.Rand) {
	g, f := r.g, r.g.f()
	type ac struct {
		cls  string
		x, y fe
	}
	var cs []ac
	add := func(cls string, p pt) {
		x, y := r.affineXY(p)
		cs = append(cs, ac{cls, x, y})
	}
	W := r.cfg.win
	for _, k := range []int{1, 2, 3, -1, -2, W, -W} {
		add("valid", r.win[W+k])
	}
	for _, s := range r.specials() {
		add("special-"+s.label, s.p)
	}
	gx, gy := r.affineXY(g.G)
	cs = append(cs, ac{"offcurve-y+1", gx, f.add(gy, f.small(1))}, ac{"offcurve-x+1", f.add(gx, f.small(1)), gy},
		ac{"offcurve-swapped", gy, gx}, ac{"zero-one", f.zero(), f.small(1)}, ac{"one-zero", f.small(1), f.zero()})
	if r.a.comp != fmtMontc { // (0, 0) is the Montgomery point of order two: already among the specials there
		cs = append(cs, ac{"zero-zero", f.zero(), f.zero()})
	}
	if g.w != nil { // a point of the quadratic twist: x with a non-residue right-hand side, y = sqrt(rhs * nonresidue)
		for i := int64(1); i < 100; i++ {
			x := f.add(gx, f.small(i))
			if _, ok := g.w.lift(x); !ok {
				cs = append(cs, ac{"twist", x, gy})
				break
			}
		}
	}
	for i := 0; i < r.cfg.nrand; i++ {
		cs = append(cs, ac{"random", randFe(f, rng), randFe(f, rng)})
	}
	for _, c := range cs {
		// reading of the pair: on the curve? in the subgroup?
		var cand []pt
		isID := false
		if r.a.comp == fmtMontc {
			if f.eq(f.sq(c.y), montRhs(c.x)) {
				if f.isZero(c.x) {
					cand = []pt{{x: f.small(0), y: f.small(-1)}}
				} else if p, ok := montToEd(c.x); ok {
					for _, q := range []pt{p, g.e.neg(p)} {
						if _, qv, ok := edToMont(q); ok && f.eq(qv, c.y) {
							cand = []pt{q}
						}
					}
				}
			}
		} else if p := (pt{x: c.x, y: c.y}); g.cm().onCurve(p) {
			cand = []pt{p}
		}
		onc := len(cand) > 0
		insub, small := onc, onc
		exps := []int{}
		for _, p := range cand {
			insub, small = insub && g.inSub(p), small && g.smallOrder(p)
			exps = append(exps, tokElem(g.kind(), ptStr(g.cm(), p)))
		}
		_ = isID
		ev := map[string]any{"a": "dec", "curve": r.a.name, "api": "FromAffine", "fmt": "affine", "cls": c.cls, "det": "",
			"promise": g.promise(), "len": 2, "L": 2, "idenc": false, "fl": map[string]int{"none": 0}, "idform": "no", "red": true,
			"onc": onc, "insub": insub, "small": small, "canon": onc, "exps": exps}
		var back P
		var err error
		msg := guard(func() { back, err = r.a.fromAffine(c.x, c.y) })
		ev["panic"], ev["acc"] = msg != "", msg == "" && err == nil
		ev["got"], ev["gotOnc"], ev["gotInSub"] = 0, false, false
		if msg == "" && err == nil {
			pr := r.project(back)
			ev["got"], ev["gotOnc"], ev["gotInSub"] = r.tokOf(pr), pr.onc, pr.insub
		} else {
			ev["err"] = msg + tr.ErrChain(err)
		}
		r.w.Emit(ev)
		if r.a.fromAffineX == nil || g.w == nil {
			continue
		}
		for _, odd := range []bool{false, true} {
			cx := pickW(g.w, c.x, odd, f.odd)
			xonc := len(cx) > 0
			xin, xsmall := xonc, xonc
			xexps := []int{}
			for _, p := range cx {
				xin, xsmall = xin && g.inSub(p), xsmall && g.smallOrder(p)
				xexps = append(xexps, tokElem(g.kind(), ptStr(g.cm(), p)))
			}
			ev := map[string]any{"a": "dec", "curve": r.a.name, "api": "FromAffineX", "fmt": "affinex", "cls": c.cls, "det": fmt.Sprint(odd),
				"promise": g.promise(), "len": 2, "L": 2, "idenc": false, "fl": map[string]int{"none": 0}, "idform": "no", "red": true,
				"onc": xonc, "insub": xin, "small": xsmall, "canon": xonc, "exps": xexps}
			msg := guard(func() { back, err = r.a.fromAffineX(c.x, odd) })
			ev["panic"], ev["acc"] = msg != "", msg == "" && err == nil
			ev["got"], ev["gotOnc"], ev["gotInSub"] = 0, false, false
			if msg == "" && err == nil {
				pr := r.project(back)
				ev["got"], ev["gotOnc"], ev["gotInSub"] = r.tokOf(pr), pr.onc, pr.insub
			} else {
				ev["err"] = msg + tr.ErrChain(err)
			}
			r.w.Emit(ev)
		}
	}
}

func randFe(f *field, rng *rand.Rand) fe {
	out := f.zero()
	for i := range out {
		b := make([]byte, (f.p.BitLen()+7)/8+8)
		for j := range b {
			b[j] = byte(rng.UintN(256))
		}
		out[i] = f.norm(new(big.Int).SetBytes(b))
	}
	return out
}

var _ = bytes.Equal

package main

// Scalars, base-field elements and the BLS12-381 target group: the same two kinds of lines ("rt", "dec").
// Expected values are integers computed with math/big; the real element is projected through its stored limbs.

import (
	"fmt"
	"math/big"
	"math/rand/v2"

	"github.com/bronlabs/bron-crypto/pkg/base/curves/edwards25519"
	"github.com/bronlabs/bron-crypto/pkg/base/curves/k256"
	"github.com/bronlabs/bron-crypto/pkg/base/curves/p256"
	"github.com/bronlabs/bron-crypto/pkg/base/curves/pairable/bls12381"
	"github.com/bronlabs/bron-crypto/pkg/base/curves/pasta"

	"verif/harness/tr"
)

type fapi[S any] struct {
	name       string
	mod        *big.Int
	L, wide    int
	fromUint64 func(uint64) S
	add, mul   func(a, b S) S
	neg        func(a S) S
	val        func(S) *big.Int // the stored limbs as an integer

	fromBytes, fromWide, fromBEReduce func([]byte) (S, error)
	bytes                             func(S) []byte
	unmarshalBinary                   func([]byte) (S, error)
	marshalBinary                     func(S) ([]byte, error)
	unmarshalCBOR                     func([]byte) (S, error)
	marshalCBOR                       func(S) ([]byte, error)
}

type fdecoder[S any] struct {
	api  string
	rule string
	L    int
	le   bool
	dec  func([]byte) (S, error)
	enc  func(S) ([]byte, error)
	wrap func([]byte) []byte
	unw  func([]byte) []byte
}

func (a *fapi[S]) decoders() []fdecoder[S] {
	ds := []fdecoder[S]{
		{api: "FromBytes", rule: "fbe", L: a.L, dec: a.fromBytes, enc: func(s S) ([]byte, error) { return a.bytes(s), nil }},
		{api: "FromWideBytes", rule: "fwide", L: a.wide, dec: a.fromWide, enc: func(s S) ([]byte, error) { return a.bytes(s), nil }},
		{api: "FromBytesBEReduce", rule: "fbered", L: a.L, dec: a.fromBEReduce, enc: func(s S) ([]byte, error) { return a.bytes(s), nil }},
		{api: "UnmarshalBinary", rule: "fle", L: a.L, le: true, dec: a.unmarshalBinary, enc: a.marshalBinary},
		{api: "UnmarshalCBOR", rule: "fbe", L: a.L, dec: a.unmarshalCBOR, enc: a.marshalCBOR, wrap: cborWrap("fieldBytes"), unw: cborUnwrap("fieldBytes")},
	}
	return ds
}

// mk builds the element with value v through FromUint64 / Mul / Add only (no decoder involved).
func (a *fapi[S]) mk(v *big.Int) S {
	v = new(big.Int).Mod(v, a.mod)
	acc := a.fromUint64(0)
	sh := a.fromUint64(1 << 32)
	b := v.Bytes()
	for len(b)%4 != 0 {
		b = append([]byte{0}, b...)
	}
	for i := 0; i < len(b); i += 4 {
		chunk := uint64(b[i])<<24 | uint64(b[i+1])<<16 | uint64(b[i+2])<<8 | uint64(b[i+3])
		acc = a.add(a.mul(acc, sh), a.fromUint64(chunk))
	}
	return acc
}

func fieldRunner[S any](a *fapi[S]) runner {
	return runner{name: a.name, run: func(w *tr.W, cfg config) {
		rng := tr.PRand(cfg.seed, uint64(len(a.name))+77)
		tokV := func(v *big.Int) int { return tokElem("int", v.Text(16)) }
		w.Emit(map[string]any{"a": "curve", "curve": a.name, "promise": "field", "win": cfg.fwin, "apis": []string{}})
		// ---- round trips: window, the ends of the range, random values
		var vals []*big.Int
		for k := -cfg.fwin; k <= cfg.fwin; k++ {
			vals = append(vals, new(big.Int).Mod(big.NewInt(int64(k)), a.mod))
		}
		half := new(big.Int).Rsh(a.mod, 1)
		vals = append(vals, half, new(big.Int).Add(half, one), new(big.Int).Lsh(one, uint(a.mod.BitLen()-1)),
			new(big.Int).Sub(new(big.Int).Lsh(one, uint(a.mod.BitLen()-1)), one))
		for i := 0; i < cfg.nrand; i++ {
			vals = append(vals, randFe(&field{a.mod, 1}, rng)[0])
		}
		for _, d := range a.decoders() {
			var injE, injB []int
			for i, v := range vals {
				el := a.mk(v)
				lab := "window"
				if i > 2*cfg.fwin {
					lab = "large"
				}
				ev := map[string]any{"a": "rt", "curve": a.name, "api": d.api, "fmt": d.rule, "label": lab, "k": i - cfg.fwin, "elem": tokV(v), "elemNeg": 0}
				var enc []byte
				var err error
				if msg := guard(func() { enc, err = d.enc(el) }); msg != "" || err != nil {
					ev["panic"], ev["stage"], ev["acc"] = msg != "", "encode", false
					w.Emit(ev)
					continue
				}
				payload := enc
				if d.unw != nil {
					payload = d.unw(enc)
				}
				encx := beBytes(v, a.L)
				if d.le {
					encx = leBytes(v, a.L)
				}
				ev["enc"], ev["encx"] = tokBytes(payload), tokBytes(encx)
				injE, injB = append(injE, ev["elem"].(int)), append(injB, ev["enc"].(int))
				var back S
				msg := guard(func() { back, err = d.dec(enc) })
				ev["panic"], ev["acc"] = msg != "", msg == "" && err == nil
				if msg == "" && err == nil {
					ev["dec"], ev["decOnc"], ev["decInSub"] = tokV(a.val(back)), a.val(back).Cmp(a.mod) < 0, true
					re, err2 := d.enc(back)
					if err2 == nil && d.unw != nil {
						re = d.unw(re)
					}
					ev["re"] = tokBytes(re)
				} else {
					ev["err"] = msg + tr.ErrChain(err)
				}
				w.Emit(ev)
			}
			w.Emit(map[string]any{"a": "inj", "curve": a.name, "api": d.api, "fmt": d.rule, "elems": injE, "encs": injB})
		}
		// ---- crafted strings
		for _, d := range a.decoders() {
			for _, c := range fieldCrafts(a.mod, d.L, d.rule, rng, cfg.nrand) {
				in := c.b
				if d.wrap != nil {
					in = d.wrap(c.b)
				}
				raw := fromBE(c.b)
				if d.le {
					raw = fromLE(c.b)
				}
				want := new(big.Int).Mod(raw, a.mod)
				canon := len(c.b) == a.L && raw.Cmp(a.mod) < 0 // the encoder's output for that value
				ev := map[string]any{"a": "dec", "curve": a.name, "api": d.api, "fmt": d.rule, "cls": c.cls, "det": c.det,
					"promise": "field", "len": len(c.b), "L": d.L, "idenc": false, "fl": map[string]int{"none": 0}, "idform": "no", "red": raw.Cmp(a.mod) < 0,
					"onc": true, "insub": true, "small": false, "canon": canon, "exps": []int{tokV(want)}}
				if len(c.b) <= 100 {
					ev["hex"] = fmt.Sprintf("%x", c.b)
				}
				var back S
				var err error
				msg := guard(func() { back, err = d.dec(in) })
				ev["panic"], ev["acc"] = msg != "", msg == "" && err == nil
				ev["got"], ev["gotOnc"], ev["gotInSub"] = 0, false, false
				if msg == "" && err == nil {
					ev["got"], ev["gotOnc"], ev["gotInSub"] = tokV(a.val(back)), a.val(back).Cmp(a.mod) < 0, true
				} else {
					ev["err"] = msg + tr.ErrChain(err)
				}
				w.Emit(ev)
			}
		}
	}}
}

func fieldCrafts(mod *big.Int, L int, rule string, rng *rand.Rand, nrand int) []craft {
	var out []craft
	n := (mod.BitLen() + 7) / 8
	full := new(big.Int).Sub(new(big.Int).Lsh(one, uint(8*n)), one)
	vals := map[string]*big.Int{"0": new(big.Int), "1": one, "q-1": new(big.Int).Sub(mod, one), "q": mod, "q+1": new(big.Int).Add(mod, one),
		"2q-1": new(big.Int).Sub(new(big.Int).Lsh(mod, 1), one), "ones": full, "topbit": new(big.Int).Lsh(one, uint(8*n-1))}
	for name, v := range vals {
		if v.BitLen() <= 8*n {
			cls := "value-reduced"
			if v.Cmp(mod) >= 0 {
				cls = "value-unreduced"
			}
			b := beBytes(v, n)
			if rule == "fle" {
				b = leBytes(v, n)
			}
			out = append(out, craft{cls, name, b})
		}
	}
	g := beBytes(big.NewInt(0x0102030405), n)
	lens := []int{0, 1, n - 1, n + 1, 2 * n, 2*n + 1, L, L + 1}
	if rule == "fwide" || rule == "fbered" {
		lens = append(lens, 2, n/2, L-1, 3*n)
	}
	for _, l := range lens {
		b := make([]byte, l)
		for i := range b {
			b[i] = g[i%n] | 1
		}
		out = append(out, craft{fmt.Sprintf("len-%s", lenName(l, n, L)), fmt.Sprint(l), b})
		out = append(out, craft{fmt.Sprintf("len-%s", lenName(l, n, L)), fmt.Sprint(l, "/ff"), bytesOf(0xff, l)})
		out = append(out, craft{fmt.Sprintf("len-%s", lenName(l, n, L)), fmt.Sprint(l, "/00"), bytesOf(0, l)})
	}
	for i := 0; i < nrand; i++ {
		b := make([]byte, n)
		for j := range b {
			b[j] = byte(rng.UintN(256))
		}
		out = append(out, craft{"random", "", b})
	}
	return out
}

func lenName(l, n, L int) string {
	switch {
	case l == n:
		return "n"
	case l == 0:
		return "0"
	case l < n:
		return "short"
	case l <= L:
		return "upto-L"
	}
	return "long"
}

func bytesOf(v byte, n int) []byte {
	b := make([]byte, n)
	for i := range b {
		b[i] = v
	}
	return b
}

type limbsT interface{ Bytes() []byte }

func fieldRunners() []runner {
	var out []runner
	{
		f := k256.NewScalarField()
		out = append(out, fieldRunner(&fapi[*k256.Scalar]{name: "k256-scalar", mod: nSecp, L: 32, wide: f.WideElementSize(),
			fromUint64: f.FromUint64, add: (*k256.Scalar).Add, mul: (*k256.Scalar).Mul, neg: (*k256.Scalar).Neg,
			val:       func(s *k256.Scalar) *big.Int { return fromLE(s.V.Bytes()) },
			fromBytes: f.FromBytes, fromWide: f.FromWideBytes, fromBEReduce: f.FromBytesBEReduce, bytes: (*k256.Scalar).Bytes,
			unmarshalBinary: func(b []byte) (*k256.Scalar, error) { var s k256.Scalar; err := s.UnmarshalBinary(b); return &s, err },
			marshalBinary:   (*k256.Scalar).MarshalBinary,
			unmarshalCBOR:   func(b []byte) (*k256.Scalar, error) { var s k256.Scalar; err := s.UnmarshalCBOR(b); return &s, err },
			marshalCBOR:     (*k256.Scalar).MarshalCBOR}))
	}
	{
		f := k256.NewBaseField()
		out = append(out, fieldRunner(&fapi[*k256.BaseFieldElement]{name: "k256-base", mod: fSecp.p, L: 32, wide: f.WideElementSize(),
			fromUint64: f.FromUint64, add: (*k256.BaseFieldElement).Add, mul: (*k256.BaseFieldElement).Mul, neg: (*k256.BaseFieldElement).Neg,
			val:       func(s *k256.BaseFieldElement) *big.Int { return fromLE(s.V.Bytes()) },
			fromBytes: f.FromBytes, fromWide: f.FromWideBytes, fromBEReduce: f.FromBytesBEReduce, bytes: (*k256.BaseFieldElement).Bytes,
			unmarshalBinary: func(b []byte) (*k256.BaseFieldElement, error) {
				var s k256.BaseFieldElement
				err := s.UnmarshalBinary(b)
				return &s, err
			},
			marshalBinary: (*k256.BaseFieldElement).MarshalBinary,
			unmarshalCBOR: func(b []byte) (*k256.BaseFieldElement, error) {
				var s k256.BaseFieldElement
				err := s.UnmarshalCBOR(b)
				return &s, err
			},
			marshalCBOR: (*k256.BaseFieldElement).MarshalCBOR}))
	}
	{
		f := p256.NewScalarField()
		out = append(out, fieldRunner(&fapi[*p256.Scalar]{name: "p256-scalar", mod: nP256, L: 32, wide: f.WideElementSize(),
			fromUint64: f.FromUint64, add: (*p256.Scalar).Add, mul: (*p256.Scalar).Mul, neg: (*p256.Scalar).Neg,
			val:       func(s *p256.Scalar) *big.Int { return fromLE(s.V.Bytes()) },
			fromBytes: f.FromBytes, fromWide: f.FromWideBytes, fromBEReduce: f.FromBytesBEReduce, bytes: (*p256.Scalar).Bytes,
			unmarshalBinary: func(b []byte) (*p256.Scalar, error) { var s p256.Scalar; err := s.UnmarshalBinary(b); return &s, err },
			marshalBinary:   (*p256.Scalar).MarshalBinary,
			unmarshalCBOR:   func(b []byte) (*p256.Scalar, error) { var s p256.Scalar; err := s.UnmarshalCBOR(b); return &s, err },
			marshalCBOR:     (*p256.Scalar).MarshalCBOR}))
	}
	{
		f := p256.NewBaseField()
		out = append(out, fieldRunner(&fapi[*p256.BaseFieldElement]{name: "p256-base", mod: fP256.p, L: 32, wide: f.WideElementSize(),
			fromUint64: f.FromUint64, add: (*p256.BaseFieldElement).Add, mul: (*p256.BaseFieldElement).Mul, neg: (*p256.BaseFieldElement).Neg,
			val:       func(s *p256.BaseFieldElement) *big.Int { return fromLE(s.V.Bytes()) },
			fromBytes: f.FromBytes, fromWide: f.FromWideBytes, fromBEReduce: f.FromBytesBEReduce, bytes: (*p256.BaseFieldElement).Bytes,
			unmarshalBinary: func(b []byte) (*p256.BaseFieldElement, error) {
				var s p256.BaseFieldElement
				err := s.UnmarshalBinary(b)
				return &s, err
			},
			marshalBinary: (*p256.BaseFieldElement).MarshalBinary,
			unmarshalCBOR: func(b []byte) (*p256.BaseFieldElement, error) {
				var s p256.BaseFieldElement
				err := s.UnmarshalCBOR(b)
				return &s, err
			},
			marshalCBOR: (*p256.BaseFieldElement).MarshalCBOR}))
	}
	{
		f := edwards25519.NewScalarField()
		out = append(out, fieldRunner(&fapi[*edwards25519.Scalar]{name: "ed25519-scalar", mod: n25519, L: 32, wide: f.WideElementSize(),
			fromUint64: f.FromUint64, add: (*edwards25519.Scalar).Add, mul: (*edwards25519.Scalar).Mul, neg: (*edwards25519.Scalar).Neg,
			val:       func(s *edwards25519.Scalar) *big.Int { return fromLE(s.V.Bytes()) },
			fromBytes: f.FromBytes, fromWide: f.FromWideBytes, fromBEReduce: f.FromBytesBEReduce, bytes: (*edwards25519.Scalar).Bytes,
			unmarshalBinary: func(b []byte) (*edwards25519.Scalar, error) {
				var s edwards25519.Scalar
				err := s.UnmarshalBinary(b)
				return &s, err
			},
			marshalBinary: (*edwards25519.Scalar).MarshalBinary,
			unmarshalCBOR: func(b []byte) (*edwards25519.Scalar, error) {
				var s edwards25519.Scalar
				err := s.UnmarshalCBOR(b)
				return &s, err
			},
			marshalCBOR: (*edwards25519.Scalar).MarshalCBOR}))
	}
	{
		f := edwards25519.NewBaseField()
		out = append(out, fieldRunner(&fapi[*edwards25519.BaseFieldElement]{name: "ed25519-base", mod: f25519.p, L: 32, wide: f.WideElementSize(),
			fromUint64: f.FromUint64, add: (*edwards25519.BaseFieldElement).Add, mul: (*edwards25519.BaseFieldElement).Mul, neg: (*edwards25519.BaseFieldElement).Neg,
			val:       func(s *edwards25519.BaseFieldElement) *big.Int { return fromLE(s.V.Bytes()) },
			fromBytes: f.FromBytes, fromWide: f.FromWideBytes, fromBEReduce: f.FromBytesBEReduce, bytes: (*edwards25519.BaseFieldElement).Bytes,
			unmarshalBinary: func(b []byte) (*edwards25519.BaseFieldElement, error) {
				var s edwards25519.BaseFieldElement
				err := s.UnmarshalBinary(b)
				return &s, err
			},
			marshalBinary: (*edwards25519.BaseFieldElement).MarshalBinary,
			unmarshalCBOR: func(b []byte) (*edwards25519.BaseFieldElement, error) {
				var s edwards25519.BaseFieldElement
				err := s.UnmarshalCBOR(b)
				return &s, err
			},
			marshalCBOR: (*edwards25519.BaseFieldElement).MarshalCBOR}))
	}
	{
		f := pasta.NewPallasBaseField() // = Vesta scalar field
		out = append(out, fieldRunner(&fapi[*pasta.FpFieldElement]{name: "pasta-fp", mod: fPallas.p, L: 32, wide: f.WideElementSize(),
			fromUint64: f.FromUint64, add: (*pasta.FpFieldElement).Add, mul: (*pasta.FpFieldElement).Mul, neg: (*pasta.FpFieldElement).Neg,
			val:       func(s *pasta.FpFieldElement) *big.Int { return fromLE(s.V.Bytes()) },
			fromBytes: f.FromBytes, fromWide: f.FromWideBytes, fromBEReduce: f.FromBytesBEReduce, bytes: (*pasta.FpFieldElement).Bytes,
			unmarshalBinary: func(b []byte) (*pasta.FpFieldElement, error) {
				var s pasta.FpFieldElement
				err := s.UnmarshalBinary(b)
				return &s, err
			},
			marshalBinary: (*pasta.FpFieldElement).MarshalBinary,
			unmarshalCBOR: func(b []byte) (*pasta.FpFieldElement, error) {
				var s pasta.FpFieldElement
				err := s.UnmarshalCBOR(b)
				return &s, err
			},
			marshalCBOR: (*pasta.FpFieldElement).MarshalCBOR}))
	}
	{
		f := pasta.NewVestaBaseField() // = Pallas scalar field
		out = append(out, fieldRunner(&fapi[*pasta.FqFieldElement]{name: "pasta-fq", mod: fVesta.p, L: 32, wide: f.WideElementSize(),
			fromUint64: f.FromUint64, add: (*pasta.FqFieldElement).Add, mul: (*pasta.FqFieldElement).Mul, neg: (*pasta.FqFieldElement).Neg,
			val:       func(s *pasta.FqFieldElement) *big.Int { return fromLE(s.V.Bytes()) },
			fromBytes: f.FromBytes, fromWide: f.FromWideBytes, fromBEReduce: f.FromBytesBEReduce, bytes: (*pasta.FqFieldElement).Bytes,
			unmarshalBinary: func(b []byte) (*pasta.FqFieldElement, error) {
				var s pasta.FqFieldElement
				err := s.UnmarshalBinary(b)
				return &s, err
			},
			marshalBinary: (*pasta.FqFieldElement).MarshalBinary,
			unmarshalCBOR: func(b []byte) (*pasta.FqFieldElement, error) {
				var s pasta.FqFieldElement
				err := s.UnmarshalCBOR(b)
				return &s, err
			},
			marshalCBOR: (*pasta.FqFieldElement).MarshalCBOR}))
	}
	{
		f := bls12381.NewScalarField()
		out = append(out, fieldRunner(&fapi[*bls12381.Scalar]{name: "bls-scalar", mod: nBls, L: 32, wide: f.WideElementSize(),
			fromUint64: f.FromUint64, add: (*bls12381.Scalar).Add, mul: (*bls12381.Scalar).Mul, neg: (*bls12381.Scalar).Neg,
			val:       func(s *bls12381.Scalar) *big.Int { return fromLE(s.V.Bytes()) },
			fromBytes: f.FromBytes, fromWide: f.FromWideBytes, fromBEReduce: f.FromBytesBEReduce, bytes: (*bls12381.Scalar).Bytes,
			unmarshalBinary: func(b []byte) (*bls12381.Scalar, error) {
				var s bls12381.Scalar
				err := s.UnmarshalBinary(b)
				return &s, err
			},
			marshalBinary: (*bls12381.Scalar).MarshalBinary,
			unmarshalCBOR: func(b []byte) (*bls12381.Scalar, error) {
				var s bls12381.Scalar
				err := s.UnmarshalCBOR(b)
				return &s, err
			},
			marshalCBOR: (*bls12381.Scalar).MarshalCBOR}))
	}
	{
		f := bls12381.NewG1BaseField()
		out = append(out, fieldRunner(&fapi[*bls12381.BaseFieldElementG1]{name: "bls-g1-base", mod: fBls.p, L: 48, wide: f.WideElementSize(),
			fromUint64: f.FromUint64, add: (*bls12381.BaseFieldElementG1).Add, mul: (*bls12381.BaseFieldElementG1).Mul, neg: (*bls12381.BaseFieldElementG1).Neg,
			val:       func(s *bls12381.BaseFieldElementG1) *big.Int { return fromLE(s.V.Bytes()) },
			fromBytes: f.FromBytes, fromWide: f.FromWideBytes, fromBEReduce: f.FromBytesBEReduce, bytes: (*bls12381.BaseFieldElementG1).Bytes,
			unmarshalBinary: func(b []byte) (*bls12381.BaseFieldElementG1, error) {
				var s bls12381.BaseFieldElementG1
				err := s.UnmarshalBinary(b)
				return &s, err
			},
			marshalBinary: (*bls12381.BaseFieldElementG1).MarshalBinary,
			unmarshalCBOR: func(b []byte) (*bls12381.BaseFieldElementG1, error) {
				var s bls12381.BaseFieldElementG1
				err := s.UnmarshalCBOR(b)
				return &s, err
			},
			marshalCBOR: (*bls12381.BaseFieldElementG1).MarshalCBOR}))
	}
	out = append(out, g2BaseRunner(), gtRunner())
	return out
}

// ---------------------------------------------------------------- BLS12-381 G2 base field F_p^2
// FromBytes / Bytes / CBOR: c0 || c1, big endian; MarshalBinary / UnmarshalBinary: c1 || c0, little endian.
func g2BaseRunner() runner {
	return runner{name: "bls-g2-base", run: func(w *tr.W, cfg config) {
		bf := bls12381.NewG2BaseField()
		f := fBls2
		rng := tr.PRand(cfg.seed, 4242)
		tokV := func(v fe) int { return tokElem("fp2", f.str(v)) }
		val := func(e *bls12381.BaseFieldElementG2) fe { return fe{fromLE(e.V.U0.Bytes()), fromLE(e.V.U1.Bytes())} }
		mk := func(v fe) *bls12381.BaseFieldElementG2 { // through the low-level limbs, no decoder involved
			var e bls12381.BaseFieldElementG2
			e.V.U0.SetBytesWide(leBytes(v[0], 48))
			e.V.U1.SetBytesWide(leBytes(v[1], 48))
			return &e
		}
		type gd struct {
			api, rule   string
			le, hiFirst bool
			dec         func([]byte) (*bls12381.BaseFieldElementG2, error)
			enc         func(*bls12381.BaseFieldElementG2) ([]byte, error)
			wrap, unw   func([]byte) []byte
		}
		decs := []gd{
			{api: "FromBytes", rule: "fbe", dec: bf.FromBytes, enc: func(e *bls12381.BaseFieldElementG2) ([]byte, error) { return e.Bytes(), nil }},
			{api: "UnmarshalBinary", rule: "fle", le: true, hiFirst: true,
				dec: func(b []byte) (*bls12381.BaseFieldElementG2, error) {
					var e bls12381.BaseFieldElementG2
					err := e.UnmarshalBinary(b)
					return &e, err
				},
				enc: (*bls12381.BaseFieldElementG2).MarshalBinary},
			{api: "UnmarshalCBOR", rule: "fbe",
				dec: func(b []byte) (*bls12381.BaseFieldElementG2, error) {
					var e bls12381.BaseFieldElementG2
					err := e.UnmarshalCBOR(b)
					return &e, err
				},
				enc: (*bls12381.BaseFieldElementG2).MarshalCBOR, wrap: cborWrap("fieldBytes"), unw: cborUnwrap("fieldBytes")},
		}
		encx := func(d gd, v fe) []byte {
			a, b := v[0], v[1]
			if d.hiFirst {
				a, b = b, a
			}
			if d.le {
				return append(leBytes(a, 48), leBytes(b, 48)...)
			}
			return append(beBytes(a, 48), beBytes(b, 48)...)
		}
		parse := func(d gd, b []byte) (fe, bool) {
			rd := fromBE
			if d.le {
				rd = fromLE
			}
			a, c := rd(b[:48]), rd(b[48:])
			if d.hiFirst {
				a, c = c, a
			}
			return f.fromInts(a, c), a.Cmp(f.p) < 0 && c.Cmp(f.p) < 0
		}
		w.Emit(map[string]any{"a": "curve", "curve": "bls-g2-base", "promise": "field", "win": cfg.fwin, "apis": []string{}})
		smalls := []*big.Int{new(big.Int), one, two, big.NewInt(7), new(big.Int).Sub(f.p, one), new(big.Int).Rsh(f.p, 1)}
		var vals []fe
		for _, a := range smalls {
			for _, b := range smalls {
				vals = append(vals, f.fromInts(a, b))
			}
		}
		for i := 0; i < 8*cfg.nrand; i++ {
			vals = append(vals, randFe(f, rng))
		}
		for _, d := range decs {
			var injE, injB []int
			for i, v := range vals {
				ev := map[string]any{"a": "rt", "curve": "bls-g2-base", "api": d.api, "fmt": d.rule, "label": "large", "k": i, "elem": tokV(v), "elemNeg": 0}
				el := mk(v)
				var enc []byte
				var err error
				if msg := guard(func() { enc, err = d.enc(el) }); msg != "" || err != nil {
					ev["panic"], ev["stage"], ev["acc"] = msg != "", "encode", false
					w.Emit(ev)
					continue
				}
				payload := enc
				if d.unw != nil {
					payload = d.unw(enc)
				}
				ev["enc"], ev["encx"] = tokBytes(payload), tokBytes(encx(d, v))
				injE, injB = append(injE, ev["elem"].(int)), append(injB, ev["enc"].(int))
				var back *bls12381.BaseFieldElementG2
				msg := guard(func() { back, err = d.dec(enc) })
				ev["panic"], ev["acc"] = msg != "", msg == "" && err == nil
				if msg == "" && err == nil {
					ev["dec"], ev["decOnc"], ev["decInSub"] = tokV(val(back)), true, true
					re, _ := d.enc(back)
					if d.unw != nil {
						re = d.unw(re)
					}
					ev["re"] = tokBytes(re)
				}
				w.Emit(ev)
			}
			w.Emit(map[string]any{"a": "inj", "curve": "bls-g2-base", "api": d.api, "fmt": d.rule, "elems": injE, "encs": injB})
			// crafted: lengths, unreduced components, random
			g := encx(d, f.fromInts(big.NewInt(0x010203), big.NewInt(0x040506)))
			cs := []craft{{"len-0", "", []byte{}}, {"len-short", "48", cp(g[:48])}, {"len-short", "95", cp(g[:95])}, {"len-long", "97", append(cp(g), 0)},
				{"len-long", "192", append(cp(g), g...)}, {"value-unreduced", "ones", bytesOf(0xff, 96)}}
			for _, pair := range [][2]*big.Int{{f.p, one}, {one, f.p}, {new(big.Int).Add(f.p, two), new(big.Int).Add(f.p, one)}} {
				cs = append(cs, craft{"value-unreduced", "", encx(d, fe{pair[0], pair[1]})})
			}
			for i := 0; i < cfg.nrand; i++ {
				b := make([]byte, 96)
				for j := range b {
					b[j] = byte(rng.UintN(256))
				}
				cs = append(cs, craft{"random", "", b})
			}
			for _, c := range cs {
				ev := map[string]any{"a": "dec", "curve": "bls-g2-base", "api": d.api, "fmt": d.rule, "cls": c.cls, "det": c.det, "promise": "field",
					"len": len(c.b), "L": 96, "idenc": false, "fl": map[string]int{"none": 0}, "idform": "no", "red": true, "onc": true, "insub": true,
					"small": false, "canon": false, "exps": []int{}}
				if len(c.b) == 96 {
					v, red := parse(d, c.b)
					ev["red"], ev["canon"], ev["exps"] = red, red, []int{tokV(v)}
				}
				in := c.b
				if d.wrap != nil {
					in = d.wrap(c.b)
				}
				var back *bls12381.BaseFieldElementG2
				var err error
				msg := guard(func() { back, err = d.dec(in) })
				ev["panic"], ev["acc"] = msg != "", msg == "" && err == nil
				ev["got"], ev["gotOnc"], ev["gotInSub"] = 0, false, false
				if msg == "" && err == nil {
					ev["got"], ev["gotOnc"], ev["gotInSub"] = tokV(val(back)), true, true
				} else {
					ev["err"] = msg + tr.ErrChain(err)
				}
				w.Emit(ev)
			}
		}
	}}
}

// ---------------------------------------------------------------- BLS12-381 target group
func gtRunner() runner {
	return runner{name: "bls-gt", run: func(w *tr.W, cfg config) {
		gt := bls12381.NewGt()
		gen, err := bls12381.NewG1().Generator().Pair(bls12381.NewG2().Generator())
		if err != nil {
			panic(err)
		}
		rng := tr.PRand(cfg.seed, 991)
		const L = 576
		parse := func(b []byte) (fp12, bool) { // 12 big-endian components of 48 bytes
			var o fp12
			red := true
			for i := 0; i < 12; i++ {
				v := fromBE(b[i*48 : (i+1)*48])
				red = red && v.Cmp(fBls.p) < 0
				o[i] = fBls.norm(v)
			}
			return o, red
		}
		enc12 := func(a fp12) []byte {
			var o []byte
			for _, c := range a {
				o = append(o, beBytes(c, 48)...)
			}
			return o
		}
		raw := func(e *bls12381.GtElement) fp12 { // the stored limbs, in the order of the tower
			v := &e.V
			cs := []limbsT{&v.U0.U0.U0, &v.U0.U0.U1, &v.U0.U1.U0, &v.U0.U1.U1, &v.U0.U2.U0, &v.U0.U2.U1,
				&v.U1.U0.U0, &v.U1.U0.U1, &v.U1.U1.U0, &v.U1.U1.U1, &v.U1.U2.U0, &v.U1.U2.U1}
			var o fp12
			for i, c := range cs {
				o[i] = fromLE(c.Bytes())
			}
			return o
		}
		known := map[string]bool{}
		inGroup := func(a fp12) bool { // a^r = 1 in the independent tower (which also excludes 0)
			s := a.str()
			if v, ok := known[s]; ok {
				return v
			}
			v := pow12(a, nBls).isOne()
			known[s] = v
			return v
		}
		tokG := func(a fp12) int { return tokElem("gt", a.str()) }
		w.Emit(map[string]any{"a": "curve", "curve": "bls-gt", "promise": "prime", "win": cfg.win, "apis": []string{"FromBytes", "UnmarshalBinary"}})
		// window: e^k by the group law; the oracle's tower must agree that e has order r and that the law is the tower's
		W := cfg.fwin
		if W > 64 {
			W = 64
		}
		els := make([]*bls12381.GtElement, 2*W+1)
		els[W] = gt.One()
		ginv := gen.Inv()
		for k := 1; k <= W; k++ {
			els[W+k] = els[W+k-1].Mul(gen)
			els[W-k] = els[W-k+1].Mul(ginv)
		}
		g0 := raw(gen)
		w.Emit(map[string]any{"a": "gtmodel", "genInGroup": inGroup(g0), "genNotOne": !g0.isOne(),
			"lawAgrees": tokG(mul12(g0, g0)) == tokG(raw(els[W+2])) && tokG(mul12(raw(els[W+3]), raw(els[W-3]))) == tokG(fp12One())})
		type gd struct {
			api string
			dec func([]byte) (*bls12381.GtElement, error)
			enc func(*bls12381.GtElement) ([]byte, error)
		}
		decs := []gd{
			{"FromBytes", gt.FromBytes, func(e *bls12381.GtElement) ([]byte, error) { return e.Bytes(), nil }},
			{"UnmarshalBinary", func(b []byte) (*bls12381.GtElement, error) {
				var e bls12381.GtElement
				err := e.UnmarshalBinary(b)
				return &e, err
			},
				(*bls12381.GtElement).MarshalBinary},
		}
		for _, d := range decs {
			var injE, injB []int
			for k := -W; k <= W; k++ {
				e := els[W+k]
				want := raw(e)
				known[want.str()] = true // e^k, by the law cross-checked above
				lab := "window"
				if k == 0 {
					lab = "identity"
				}
				ev := map[string]any{"a": "rt", "curve": "bls-gt", "api": d.api, "fmt": "gt", "label": lab, "k": k, "elem": tokG(want), "elemNeg": 0}
				var enc []byte
				var err error
				if msg := guard(func() { enc, err = d.enc(e) }); msg != "" || err != nil {
					ev["panic"], ev["stage"], ev["acc"] = msg != "", "encode", false
					w.Emit(ev)
					continue
				}
				ev["enc"], ev["encx"] = tokBytes(enc), tokBytes(enc12(want))
				injE, injB = append(injE, ev["elem"].(int)), append(injB, ev["enc"].(int))
				var back *bls12381.GtElement
				msg := guard(func() { back, err = d.dec(enc) })
				ev["panic"], ev["acc"] = msg != "", msg == "" && err == nil
				if msg == "" && err == nil {
					ev["dec"], ev["decOnc"], ev["decInSub"] = tokG(raw(back)), true, inGroup(raw(back))
					re, _ := d.enc(back)
					ev["re"] = tokBytes(re)
				}
				w.Emit(ev)
			}
			w.Emit(map[string]any{"a": "inj", "curve": "bls-gt", "api": d.api, "fmt": "gt", "elems": injE, "encs": injB})
		}
		// crafted
		var cs []craft
		encG := enc12(raw(gen))
		cs = append(cs, craft{"canonical", "e", cp(encG)}, craft{"canonical", "one", enc12(fp12One())},
			craft{"len-0", "", []byte{}}, craft{"len-L-1", "", cp(encG[:L-1])}, craft{"len-L+1", "", append(cp(encG), 0)},
			craft{"len-2L", "", append(cp(encG), encG...)}, craft{"len-48", "", cp(encG[:48])},
			craft{"zero", "", make([]byte, L)}, craft{"ones", "", bytesOf(0xff, L)})
		two12 := fp12One()
		two12[0] = big.NewInt(2)
		cs = append(cs, craft{"not-in-group", "2", enc12(two12)})
		for _, i := range []int{0, 1, 5, 11} {
			a := raw(gen)
			a[i] = fBls.norm(new(big.Int).Add(a[i], one))
			cs = append(cs, craft{"not-in-group", fmt.Sprintf("e+w%d", i), enc12(a)})
			b := cp(encG) // the same element with component i written as c + p (fits: p < 2^381)
			copy(b[i*48:], beBytes(new(big.Int).Add(raw(gen)[i], fBls.p), 48))
			cs = append(cs, craft{"unreduced", fmt.Sprintf("w%d", i), b})
		}
		for i := 0; i < cfg.nrand; i++ {
			var a fp12
			for j := range a {
				a[j] = randFe(fBls, rng)[0]
			}
			cs = append(cs, craft{"random", "", enc12(a)})
		}
		for _, d := range decs {
			for _, c := range cs {
				ev := map[string]any{"a": "dec", "curve": "bls-gt", "api": d.api, "fmt": "gt", "cls": c.cls, "det": c.det, "promise": "prime",
					"len": len(c.b), "L": L, "idenc": false, "fl": map[string]int{"none": 0}, "idform": "no", "red": true, "onc": false, "insub": false, "small": false,
					"canon": false, "exps": []int{}}
				if len(c.b) == L {
					a, red := parse(c.b)
					ev["red"], ev["onc"], ev["insub"] = red, true, inGroup(a)
					ev["canon"], ev["exps"] = red, []int{tokG(a)}
				}
				var back *bls12381.GtElement
				var err error
				msg := guard(func() { back, err = d.dec(c.b) })
				ev["panic"], ev["acc"] = msg != "", msg == "" && err == nil
				ev["got"], ev["gotOnc"], ev["gotInSub"] = 0, false, false
				if msg == "" && err == nil {
					ev["got"], ev["gotOnc"], ev["gotInSub"] = tokG(raw(back)), true, inGroup(raw(back))
				} else {
					ev["err"] = msg + tr.ErrChain(err)
				}
				w.Emit(ev)
			}
		}
	}}
}

package main

// The oracle's reading of every encoding format (math/big only): what a byte string DENOTES - the Go mirror of
// the operator Sem of specs/ElemCodec/ElemCodec.tla - and the independent encoders.  Nothing here judges: the
// results are logged as booleans / tokens and the trace specification decides.

import (
	"bytes"
	"math/big"
)

// grpModel is the independent description of one public group type.
type grpModel struct {
	name  string
	w     *wcurve // short Weierstrass model (nil for the 25519 types and GT)
	e     *ecurve // twisted Edwards model
	order *big.Int
	cof   *big.Int // cofactor of the curve (1 for prime-order curves)
	prime bool     // the type promises membership in the prime-order subgroup
	cl    int      // bytes of one base-field component
	G     pt       // the designated generator, as the oracle sees it
	// the reserved encodings of the identity are conventions of the library, not mathematics: they are read once from
	// the library's encoders (like the generator) and the oracle's encoders reproduce them
	idEnc map[string][]byte
}

func (g *grpModel) identityEnc(rule string, def []byte) []byte {
	if b, ok := g.idEnc[rule]; ok {
		return append([]byte{}, b...)
	}
	return def
}

func (g *grpModel) cm() curveModel {
	if g.w != nil {
		return g.w
	}
	return g.e
}
func (g *grpModel) f() *field { return g.cm().fld() }

func (g *grpModel) promise() string {
	if g.prime {
		return "prime"
	}
	return "curve"
}

func (g *grpModel) inSub(p pt) bool {
	return g.cm().isIdentity(mulBig(g.cm(), g.order, p))
}
func (g *grpModel) smallOrder(p pt) bool {
	return g.cm().isIdentity(mulBig(g.cm(), g.cof, p))
}

// sem is what the oracle says about one string under one format.
type sem struct {
	L      int            // the format's length
	fl     map[string]int // raw flag fields as the format lays them out
	idform string         // "canon" | "noncanon" | "no"
	red    bool           // every coordinate is < p
	cands  []pt           // the element(s) the string denotes after reduction, before the membership test (0, 1 or 2)
	isID   bool           // the denoted element is the identity by the format's identity rule
	note   string
}

type format struct {
	rule string // name of the rule in the specification
	L    func(g *grpModel) int
	sem  func(g *grpModel, b []byte) sem // only called with len(b) = L
	enc  func(g *grpModel, p pt) []byte  // independent encoder; nil if the element has no encoding in this format
}

// coordinate codecs: one base-field element <-> bytes
func (g *grpModel) rdBE(b []byte) (fe, bool) { // big endian; Fp2 as c1 || c0 (ZCash)
	f := g.f()
	out := f.zero()
	red := true
	for i := 0; i < f.deg; i++ {
		v := fromBE(b[i*g.cl : (i+1)*g.cl])
		red = red && v.Cmp(f.p) < 0
		out[f.deg-1-i] = f.norm(v)
	}
	return out, red
}
func (g *grpModel) wrBE(a fe) []byte {
	var out []byte
	for i := len(a) - 1; i >= 0; i-- {
		out = append(out, beBytes(a[i], g.cl)...)
	}
	return out
}
func (g *grpModel) rdLE(b []byte) (fe, bool) {
	v := fromLE(b)
	return g.f().fromInts(v), v.Cmp(g.f().p) < 0
}
func (g *grpModel) wrLE(a fe) []byte { return leBytes(a[0], g.cl) }

// pick returns the lifted point whose discriminating bit equals want (the other root is the negation).
func pickW(c *wcurve, x fe, want bool, bit func(fe) bool) []pt {
	p, ok := c.lift(x)
	if !ok {
		return nil
	}
	if c.f.isZero(p.y) {
		return []pt{p}
	}
	if bit(p.y) != want {
		p = c.neg(p)
	}
	return []pt{p}
}

// ---------------------------------------------------------------- SEC1 style (k256, p256)
var fmtSec1c = &format{
	rule: "sec1c",
	L:    func(g *grpModel) int { return 1 + g.cl },
	sem: func(g *grpModel, b []byte) sem {
		s := sem{fl: map[string]int{"prefix": int(b[0])}, idform: "no"}
		x, red := g.rdBE(b[1:])
		s.red = red
		if _, has := g.w.lift(x); g.f().isZero(x) && !has { // no point has x = 0 here: the library reads it as the identity
			s.isID = true
			s.cands = []pt{g.w.identity()}
			s.idform = "noncanon"
			return s
		}
		s.cands = pickW(g.w, x, b[0]&1 == 1, g.f().odd)
		return s
	},
	enc: func(g *grpModel, p pt) []byte {
		if p.inf {
			return g.identityEnc("sec1c", append([]byte{2}, make([]byte, g.cl)...))
		}
		pre := byte(2)
		if g.f().odd(p.y) {
			pre = 3
		}
		return append([]byte{pre}, g.wrBE(p.x)...)
	},
}

var fmtSec1u = &format{
	rule: "sec1u",
	L:    func(g *grpModel) int { return 1 + 2*g.cl },
	sem: func(g *grpModel, b []byte) sem {
		s := sem{fl: map[string]int{"prefix": int(b[0])}, idform: "no"}
		x, rx := g.rdBE(b[1 : 1+g.cl])
		y, ry := g.rdBE(b[1+g.cl:])
		s.red = rx && ry
		if g.f().isZero(x) && g.f().isZero(y) {
			s.isID = true
			s.cands = []pt{g.w.identity()}
			s.idform = "noncanon"
			if allZero(b[1:]) {
				s.idform = "canon"
			}
			return s
		}
		if p := (pt{x: x, y: y}); g.w.onCurve(p) {
			s.cands = []pt{p}
		}
		return s
	},
	enc: func(g *grpModel, p pt) []byte {
		if p.inf {
			return g.identityEnc("sec1u", append([]byte{4}, make([]byte, 2*g.cl)...))
		}
		return append(append([]byte{4}, g.wrBE(p.x)...), g.wrBE(p.y)...)
	},
}

// ---------------------------------------------------------------- ZCash Pasta style (pallas, vesta)
var fmtPastac = &format{
	rule: "pastac",
	L:    func(g *grpModel) int { return g.cl },
	sem: func(g *grpModel, b []byte) sem {
		sg := int(b[g.cl-1] >> 7)
		s := sem{fl: map[string]int{"sign": sg}, idform: "no"}
		t := append([]byte{}, b...)
		t[g.cl-1] &= 0x7f
		x, red := g.rdLE(t)
		s.red = red
		if g.f().isZero(x) && sg == 0 {
			s.isID = true
			s.cands = []pt{g.w.identity()}
			s.idform = "noncanon"
			if allZero(b) {
				s.idform = "canon"
			}
			return s
		}
		s.cands = pickW(g.w, x, sg == 1, g.f().odd)
		return s
	},
	enc: func(g *grpModel, p pt) []byte {
		if p.inf {
			return make([]byte, g.cl)
		}
		out := g.wrLE(p.x)
		if g.f().odd(p.y) {
			out[g.cl-1] |= 0x80
		}
		return out
	},
}

var fmtPastau = &format{
	rule: "pastau",
	L:    func(g *grpModel) int { return 2 * g.cl },
	sem: func(g *grpModel, b []byte) sem {
		s := sem{fl: map[string]int{}, idform: "no"}
		x, rx := g.rdLE(b[:g.cl])
		y, ry := g.rdLE(b[g.cl:])
		s.red = rx && ry
		if g.f().isZero(x) && g.f().isZero(y) {
			s.isID = true
			s.cands = []pt{g.w.identity()}
			s.idform = "noncanon"
			if allZero(b) {
				s.idform = "canon"
			}
			return s
		}
		if p := (pt{x: x, y: y}); g.w.onCurve(p) {
			s.cands = []pt{p}
		}
		return s
	},
	enc: func(g *grpModel, p pt) []byte {
		if p.inf {
			return make([]byte, 2*g.cl)
		}
		return append(g.wrLE(p.x), g.wrLE(p.y)...)
	},
}

// ---------------------------------------------------------------- RFC 8032 style (edwards25519)
var fmtEdc = &format{
	rule: "edc",
	L:    func(g *grpModel) int { return g.cl },
	sem: func(g *grpModel, b []byte) sem {
		sg := int(b[g.cl-1] >> 7)
		s := sem{fl: map[string]int{"sign": sg}, idform: "no"}
		t := append([]byte{}, b...)
		t[g.cl-1] &= 0x7f
		y, red := g.rdLE(t)
		s.red = red
		p, ok := g.e.liftY(y)
		if !ok {
			return s
		}
		if !g.f().isZero(p.x) && g.f().odd(p.x) != (sg == 1) {
			p = g.e.neg(p)
		}
		s.cands = []pt{p}
		s.isID = g.e.isIdentity(p)
		return s
	},
	enc: func(g *grpModel, p pt) []byte {
		out := g.wrLE(p.y)
		if g.f().odd(p.x) {
			out[g.cl-1] |= 0x80
		}
		return out
	},
}

var fmtEdu = &format{
	rule: "edu",
	L:    func(g *grpModel) int { return 2 * g.cl },
	sem: func(g *grpModel, b []byte) sem {
		s := sem{fl: map[string]int{}, idform: "no"}
		y, ry := g.rdLE(b[:g.cl])
		x, rx := g.rdLE(b[g.cl:])
		s.red = rx && ry
		if p := (pt{x: x, y: y}); g.e.onCurve(p) {
			s.cands = []pt{p}
			s.isID = g.e.isIdentity(p)
		}
		return s
	},
	enc: func(g *grpModel, p pt) []byte { return append(g.wrLE(p.y), g.wrLE(p.x)...) },
}

// ---------------------------------------------------------------- Montgomery forms (curve25519)
var fmtMontc = &format{
	rule: "montc",
	L:    func(g *grpModel) int { return g.cl },
	sem: func(g *grpModel, b []byte) sem {
		s := sem{fl: map[string]int{}, idform: "no"}
		if allZero(b) {
			s.isID, s.idform, s.red = true, "canon", true
			s.cands = []pt{g.e.identity()}
			return s
		}
		u, red := g.rdLE(b)
		s.red = red
		p, ok := montToEd(u)
		if !ok {
			return s
		}
		s.cands = []pt{p}
		if !g.f().isZero(p.x) {
			s.cands = append(s.cands, g.e.neg(p)) // the u-coordinate does not tell P from -P
		}
		return s
	},
	enc: func(g *grpModel, p pt) []byte {
		u, _, ok := edToMont(p)
		if !ok {
			return make([]byte, g.cl)
		}
		return g.wrLE(u)
	},
}

var fmtMontu = &format{
	rule: "montu",
	L:    func(g *grpModel) int { return 2 * g.cl },
	sem: func(g *grpModel, b []byte) sem {
		s := sem{fl: map[string]int{}, idform: "no"}
		if allZero(b) {
			s.isID, s.idform, s.red = true, "canon", true
			s.cands = []pt{g.e.identity()}
			return s
		}
		u, ru := g.rdLE(b[:g.cl])
		v, rv := g.rdLE(b[g.cl:])
		s.red = ru && rv
		f := g.f()
		if !f.eq(f.sq(v), montRhs(u)) {
			return s
		}
		if f.isZero(u) { // (0, 0): the point of order two
			s.cands = []pt{{x: f.small(0), y: f.small(-1)}}
			return s
		}
		p, ok := montToEd(u)
		if !ok {
			return s
		}
		for _, q := range []pt{p, g.e.neg(p)} {
			if _, qv, ok := edToMont(q); ok && f.eq(qv, v) {
				s.cands = []pt{q}
			}
		}
		return s
	},
	enc: func(g *grpModel, p pt) []byte {
		u, v, ok := edToMont(p)
		if !ok {
			return make([]byte, 2*g.cl)
		}
		return append(g.wrLE(u), g.wrLE(v)...)
	},
}

// ---------------------------------------------------------------- ZCash BLS12-381 style (G1, G2)
func blsFlags(b0 byte) map[string]int {
	return map[string]int{"c": int(b0>>7) & 1, "i": int(b0>>6) & 1, "s": int(b0>>5) & 1}
}

var fmtBlsc = &format{
	rule: "blsc",
	L:    func(g *grpModel) int { return g.cl * g.f().deg },
	sem: func(g *grpModel, b []byte) sem {
		s := sem{fl: blsFlags(b[0]), idform: "no"}
		t := append([]byte{}, b...)
		t[0] &= 0x1f
		x, red := g.rdBE(t)
		s.red = red
		if s.fl["i"] == 1 {
			s.isID = true
			s.cands = []pt{g.w.identity()}
			s.idform = "noncanon"
			if allZero(t) {
				s.idform = "canon"
			}
			return s
		}
		s.cands = pickW(g.w, x, s.fl["s"] == 1, g.f().negative)
		return s
	},
	enc: func(g *grpModel, p pt) []byte {
		if p.inf {
			out := make([]byte, g.cl*g.f().deg)
			out[0] = 0xc0
			return out
		}
		out := g.wrBE(p.x)
		out[0] |= 0x80
		if g.f().negative(p.y) {
			out[0] |= 0x20
		}
		return out
	},
}

var fmtBlsu = &format{
	rule: "blsu",
	L:    func(g *grpModel) int { return 2 * g.cl * g.f().deg },
	sem: func(g *grpModel, b []byte) sem {
		s := sem{fl: blsFlags(b[0]), idform: "no"}
		h := g.cl * g.f().deg
		t := append([]byte{}, b...)
		t[0] &= 0x1f
		x, rx := g.rdBE(t[:h])
		y, ry := g.rdBE(t[h:])
		s.red = rx && ry
		if s.fl["i"] == 1 {
			s.isID = true
			s.cands = []pt{g.w.identity()}
			s.idform = "noncanon"
			if allZero(t) {
				s.idform = "canon"
			}
			return s
		}
		if p := (pt{x: x, y: y}); g.w.onCurve(p) {
			s.cands = []pt{p}
		}
		return s
	},
	enc: func(g *grpModel, p pt) []byte {
		if p.inf {
			out := make([]byte, 2*g.cl*g.f().deg)
			out[0] = 0x40
			return out
		}
		return append(g.wrBE(p.x), g.wrBE(p.y)...)
	},
}

// ---------------------------------------------------------------- judged-by-nobody summary of a string
type verdictIn struct {
	Len, L                 int
	idenc                  bool // the string is the library's reserved encoding of the identity
	fl                     map[string]int
	idform                 string
	red, onc, insub, small bool
	canon                  bool
	exps                   []int // tokens of the denoted element(s)
}

// classify evaluates the oracle on b: booleans + tokens for one "dec" line.
func classify(g *grpModel, fm *format, b []byte) verdictIn {
	out := verdictIn{Len: len(b), L: fm.L(g), fl: map[string]int{}, idform: "no", red: true}
	if len(b) != out.L {
		return out
	}
	s := fm.sem(g, b)
	if id, ok := g.idEnc[fm.rule]; ok && bytes.Equal(id, b) {
		out.idenc = true
		s.cands, s.idform, s.isID = []pt{g.cm().identity()}, "canon", true
	}
	out.fl, out.idform, out.red = s.fl, s.idform, s.red
	out.onc = len(s.cands) > 0
	out.insub, out.small = out.onc, out.onc
	for _, p := range s.cands {
		out.insub = out.insub && g.inSub(p)
		out.small = out.small && g.smallOrder(p)
		out.exps = append(out.exps, tokElem(g.kind(), ptStr(g.cm(), p)))
		if e := fm.enc(g, p); e != nil && bytes.Equal(e, b) {
			out.canon = true
		}
	}
	return out
}

// kind: elements of types that share a curve share tokens (edwards25519 / curve25519 and their subgroups).
func (g *grpModel) kind() string {
	if g.e != nil {
		return "ed"
	}
	return g.name
}

package main

// Crafted encodings: every class of the specification's Mutate step, built from the oracle's own encodings by
// surgery on lengths, flag bits and coordinate slots.  The class label is a name for humans and for keys; what
// the string IS is decided by classify (the oracle) and by the trace specification, not by the label.

import (
	"fmt"
	"math/big"
	"math/rand/v2"
)

type craft struct {
	cls string // class of the mutation
	det string // detail (not part of a finding's key)
	b   []byte
}

// slot: where a coordinate lives in the string and which of its top bits are flags.
type slot struct {
	off, n int
	le     bool
	flag   int // number of flag bits on top of the coordinate (first byte when big endian, last byte when little endian)
}

func slotsOf(g *grpModel, fm *format) []slot {
	c := g.cl
	switch fm.rule {
	case "sec1c":
		return []slot{{1, c, false, 0}}
	case "sec1u":
		return []slot{{1, c, false, 0}, {1 + c, c, false, 0}}
	case "pastac", "edc":
		return []slot{{0, c, true, 1}}
	case "montc":
		return []slot{{0, c, true, 0}}
	case "pastau", "edu", "montu":
		return []slot{{0, c, true, 0}, {c, c, true, 0}}
	case "blsc":
		if g.f().deg == 2 {
			return []slot{{0, c, false, 3}, {c, c, false, 0}}
		}
		return []slot{{0, c, false, 3}}
	case "blsu":
		var out []slot
		for i := 0; i < 2*g.f().deg; i++ {
			fl := 0
			if i == 0 {
				fl = 3
			}
			out = append(out, slot{i * c, c, false, fl})
		}
		return out
	}
	return nil
}

func (s slot) get(b []byte) *big.Int {
	t := append([]byte{}, b[s.off:s.off+s.n]...)
	if s.le {
		t[s.n-1] &= byte(0xff >> s.flag)
		return fromLE(t)
	}
	t[0] &= byte(0xff >> s.flag)
	return fromBE(t)
}

// set writes v into the slot keeping the flag bits; false if v does not fit.
func (s slot) set(b []byte, v *big.Int) bool {
	if v.Sign() < 0 || v.BitLen() > 8*s.n-s.flag {
		return false
	}
	var t []byte
	if s.le {
		t = leBytes(v, s.n)
		t[s.n-1] |= b[s.off+s.n-1] &^ byte(0xff>>s.flag)
	} else {
		t = beBytes(v, s.n)
		t[0] |= b[s.off] &^ byte(0xff>>s.flag)
	}
	copy(b[s.off:], t)
	return true
}

func cp(b []byte) []byte { return append([]byte{}, b...) }

func (r *pointRun[P]) craft(fm *format, rng *rand.Rand) []craft {
	g, f := r.g, r.g.f()
	W := r.cfg.win
	L := fm.L(g)
	encG := fm.enc(g, r.win[W+1])
	encID := fm.enc(g, g.cm().identity())
	sl := slotsOf(g, fm)
	var out []craft
	add := func(cls, det string, b []byte) { out = append(out, craft{cls, det, b}) }

	// canonical encodings of elements and of the specials (valid for the type or not)
	add("canonical", "G", cp(encG))
	add("canonical", "identity", cp(encID))
	for _, k := range []int{2, -1, 3, W} {
		add("canonical", fmt.Sprint(k), fm.enc(g, r.win[W+k]))
	}
	for _, s := range r.specials() {
		if b := fm.enc(g, s.p); b != nil {
			add("special-"+s.label, "", b)
		}
	}
	// wrong lengths
	add("len-0", "", []byte{})
	add("len-1", "", cp(encG[:1]))
	add("len-L-1", "", cp(encG[:L-1]))
	add("len-L+1", "", append(cp(encG), 0))
	add("len-L+1", "ff", append(cp(encG), 0xff))
	add("len-2L", "", append(cp(encG), encG...))
	add("len-L-1", "identity", cp(encID[:L-1]))
	add("len-L+1", "identity", append(cp(encID), 0))
	// flag bits: every combination on the generator, on the identity payload and on an all-zero payload
	payloads := map[string][]byte{"G": encG, "identity": encID, "zero": make([]byte, L)}
	switch fm.rule {
	case "sec1c", "sec1u":
		for name, pl := range payloads {
			for v := 0; v < 256; v++ {
				b := cp(pl)
				b[0] = byte(v)
				cls := "prefix-other"
				if v >= 2 && v <= 4 {
					cls = fmt.Sprintf("prefix-%02d", v)
				}
				add(cls, fmt.Sprintf("%s/%02x", name, v), b)
			}
		}
	case "blsc", "blsu":
		for name, pl := range payloads {
			for v := 0; v < 8; v++ {
				b := cp(pl)
				b[0] = b[0]&0x1f | byte(v<<5)
				add(fmt.Sprintf("flags-c%di%ds%d", v>>2&1, v>>1&1, v&1), name, b)
			}
		}
	case "pastac", "edc":
		for name, pl := range payloads {
			b := cp(pl)
			b[L-1] ^= 0x80
			add("signflip", name, b)
		}
	default: // formats without flag bits: the spare top bit of every coordinate
		for name, pl := range payloads {
			for i, s := range sl {
				b := cp(pl)
				b[s.off+s.n-1] ^= 0x80
				add("topbit", fmt.Sprintf("%s/slot%d", name, i), b)
			}
		}
	}
	// coordinates: off the curve / on the twist, zero, one, p - 1, p (unreduced zero), p + 1, all ones
	pm1 := new(big.Int).Sub(f.p, one)
	pp1 := new(big.Int).Add(f.p, one)
	allOnes := func(s slot) *big.Int {
		return new(big.Int).Sub(new(big.Int).Lsh(one, uint(8*s.n-s.flag)), one)
	}
	for i, s := range sl {
		for d := int64(1); d <= 3; d++ {
			b := cp(encG)
			if s.set(b, f.norm(new(big.Int).Add(s.get(encG), big.NewInt(d)))) {
				add("coord-shift", fmt.Sprintf("slot%d+%d", i, d), b)
			}
		}
		for name, v := range map[string]*big.Int{"0": new(big.Int), "1": one, "2": two, "p-1": pm1, "p": f.p, "p+1": pp1, "ones": allOnes(s)} {
			b := cp(encG)
			if s.set(b, v) {
				add("coord-const", fmt.Sprintf("slot%d=%s", i, name), b)
			}
			if i == 0 { // the same with every other coordinate zero (identity-like spellings)
				z := make([]byte, L)
				copy(z, encID)
				for _, s2 := range sl {
					s2.set(z, new(big.Int))
				}
				if s.set(z, v) {
					add("coord-const-zero-rest", fmt.Sprintf("slot0=%s", name), z)
				}
			}
		}
	}
	// unreduced coordinates of genuine elements: coordinate + p where it fits
	n := 0
	tryUnreduced := func(label string, p pt) {
		enc := fm.enc(g, p)
		if enc == nil {
			return
		}
		for i, s := range sl {
			b := cp(enc)
			if s.set(b, new(big.Int).Add(s.get(enc), f.p)) {
				add("unreduced", fmt.Sprintf("%s/slot%d", label, i), b)
				n++
			}
		}
	}
	tryUnreduced("identity", g.cm().identity())
	for _, s := range r.specials() {
		tryUnreduced("special-"+s.label, s.p)
	}
	for k := 1; k <= W && n < 24; k++ {
		tryUnreduced(fmt.Sprint(k), r.win[W+k])
	}
	// random strings of the right length (half of them with the flag byte of a genuine encoding)
	for i := 0; i < r.cfg.nrand; i++ {
		b := make([]byte, L)
		for j := range b {
			b[j] = byte(rng.UintN(256))
		}
		if i%2 == 0 {
			switch fm.rule {
			case "sec1c", "sec1u":
				b[0] = encG[0]
			case "blsc", "blsu":
				b[0] = b[0]&0x1f | encG[0]&0xe0
			}
		}
		for _, s := range sl { // keep the coordinates inside the field in three of four cases
			if i%4 != 3 {
				s.set(b, f.norm(s.get(b)))
			}
		}
		add("random", "", b)
	}
	return out
}

package main

// Device X: the library's GENERIC point code (pkg/base/curves/impl/points: ShortWeierstrassPointImpl and
// TwistedEdwardsPointImpl - SetAffine, SetFromAffineX / SetFromAffineY, ToAffine, Add, Double, Neg, Equal, IsZero)
// instantiated over a toy prime field, so that the cases TLC generates from the exact small model replay exactly.
// The per-curve format code (prefix bytes, flag bits) is not generic and is NOT reached this way.

import (
	"bufio"
	"encoding/binary"
	"encoding/json"
	"io"
	"os"

	"github.com/bronlabs/bron-crypto/pkg/base/ct"
	pointsImpl "github.com/bronlabs/bron-crypto/pkg/base/curves/impl/points"
	h2c "github.com/bronlabs/bron-crypto/pkg/base/curves/impl/rfc9380"

	"verif/harness/tr"
)

// process-global toy parameters (the library's types are parameterised by type, not by value)
var (
	tP, tA, tB, tGx, tGy uint64
)

type tfp struct{ v uint64 }

func tb(b bool) ct.Bool {
	if b {
		return ct.True
	}
	return ct.False
}
func tpow(b, e uint64) uint64 {
	r := uint64(1)
	b %= tP
	for ; e > 0; e >>= 1 {
		if e&1 == 1 {
			r = r * b % tP
		}
		b = b * b % tP
	}
	return r
}
func (e *tfp) Set(x *tfp)                    { e.v = x.v }
func (e *tfp) Select(c ct.Choice, a, b *tfp) { e.v = ct.CSelectInt(c, a.v, b.v) }
func (e *tfp) CondAssign(c ct.Choice, x *tfp) {
	e.v = ct.CSelectInt(c, e.v, x.v)
}
func (e *tfp) Equal(x *tfp) ct.Bool { return tb(e.v == x.v) }
func (e *tfp) Add(a, b *tfp)        { e.v = (a.v + b.v) % tP }
func (e *tfp) Double(a *tfp)        { e.v = (a.v + a.v) % tP }
func (e *tfp) Sub(a, b *tfp)        { e.v = (a.v + tP - b.v) % tP }
func (e *tfp) Neg(a *tfp)           { e.v = (tP - a.v) % tP }
func (e *tfp) Mul(a, b *tfp)        { e.v = a.v * b.v % tP }
func (e *tfp) Square(a *tfp)        { e.v = a.v * a.v % tP }
func (e *tfp) SetZero()             { e.v = 0 }
func (e *tfp) SetOne()              { e.v = 1 % tP }
func (e *tfp) IsZero() ct.Bool      { return tb(e.v == 0) }
func (e *tfp) IsNonZero() ct.Bool   { return tb(e.v != 0) }
func (e *tfp) IsOne() ct.Bool       { return tb(e.v == 1%tP) }
func (e *tfp) SetBytes(d []byte) ct.Bool {
	if len(d) != 8 {
		return ct.False
	}
	e.v = binary.LittleEndian.Uint64(d) % tP
	return ct.True
}
func (e *tfp) Bytes() []byte {
	out := make([]byte, 8)
	binary.LittleEndian.PutUint64(out, e.v)
	return out
}
func (e *tfp) SetRandom(prng io.Reader) ct.Bool {
	var b [8]byte
	if _, err := io.ReadFull(prng, b[:]); err != nil {
		return ct.False
	}
	e.v = binary.LittleEndian.Uint64(b[:]) % tP
	return ct.True
}
func (e *tfp) Inv(a *tfp) ct.Bool {
	if a.v == 0 {
		return ct.False
	}
	e.v = tpow(a.v, tP-2)
	return ct.True
}
func (e *tfp) Div(a, b *tfp) ct.Bool {
	var bi tfp
	if bi.Inv(b) == ct.False {
		return ct.False
	}
	e.v = a.v * bi.v % tP
	return ct.True
}
func (e *tfp) Sqrt(a *tfp) ct.Bool {
	for r := uint64(0); r < tP; r++ {
		if r*r%tP == a.v {
			e.v = r
			return ct.True
		}
	}
	return ct.False
}
func (e *tfp) SetUniformBytes(cs ...[]byte) ct.Bool {
	if len(cs) != 1 {
		return ct.False
	}
	var acc uint64
	for i := len(cs[0]) - 1; i >= 0; i-- {
		acc = (acc*256 + uint64(cs[0][i])) % tP
	}
	e.v = acc
	return ct.True
}
func (e *tfp) ComponentsBytes() [][]byte { return [][]byte{e.Bytes()} }
func (e *tfp) Degree() uint64            { return 1 }

func tset(out *tfp, v uint64) { out.v = v % tP }

type toyHasher struct{}

func (toyHasher) L() uint64                            { return 16 }
func (toyHasher) MessageExpander() h2c.MessageExpander { return nil }

type toyMapper struct{}

func (toyMapper) Map(xn, xd, yn, yd, u *tfp) {}

// y^2 = x^3 + A x + B
type toyWParams struct{}

func (toyWParams) SetGenerator(x, y, z *tfp)                 { tset(x, tGx); tset(y, tGy); tset(z, 1) }
func (toyWParams) ClearCofactor(xo, yo, zo, xi, yi, zi *tfp) { xo.Set(xi); yo.Set(yi); zo.Set(zi) }
func (toyWParams) AddA(out, in *tfp)                         { tset(out, in.v+tA) }
func (toyWParams) AddB(out, in *tfp)                         { tset(out, in.v+tB) }
func (toyWParams) MulByA(out, in *tfp)                       { tset(out, in.v*tA) }
func (toyWParams) MulBy3B(out, in *tfp)                      { tset(out, in.v*(3*tB%tP)) }

// A x^2 + y^2 = 1 + B x^2 y^2
type toyEParams struct{}

func (toyEParams) SetGenerator(x, y, t, z *tfp) {
	tset(x, tGx)
	tset(y, tGy)
	tset(t, tGx*tGy)
	tset(z, 1)
}
func (toyEParams) ClearCofactor(xo, yo, to, zo, xi, yi, ti, zi *tfp) {
	xo.Set(xi)
	yo.Set(yi)
	to.Set(ti)
	zo.Set(zi)
}
func (toyEParams) SetA(out *tfp)        { tset(out, tA) }
func (toyEParams) MulByA(out, in *tfp)  { tset(out, in.v*tA) }
func (toyEParams) MulByD(out, in *tfp)  { tset(out, in.v*tB) }
func (toyEParams) MulBy2D(out, in *tfp) { tset(out, in.v*(2*tB%tP)) }

type toyW = pointsImpl.ShortWeierstrassPointImpl[*tfp, toyWParams, toyHasher, toyMapper, tfp]
type toyE = pointsImpl.TwistedEdwardsPointImpl[*tfp, toyEParams, toyHasher, toyMapper, tfp]

type xcase struct {
	Op string  `json:"op"`
	X  uint64  `json:"x"`
	Y  uint64  `json:"y"`
	K  int     `json:"k"`
	Ok bool    `json:"ok"`
	Pt []int64 `json:"pt"`
}

// toyX replays the cases of `in` (one JSON object per line, printed by TLC from family "xgen") on the generic code.
func toyX(kind string, p, a, b, gx, gy uint64, in, out string, name string) {
	tP, tA, tB, tGx, tGy = p, a, b, gx, gy
	w := tr.NewW(out)
	defer w.Close()
	w.Emit(map[string]any{"a": "hdr", "mode": "toyx", "curve": name, "kind": kind, "p": p})
	f, err := os.Open(in)
	if err != nil {
		panic(err)
	}
	defer f.Close()
	sc := bufio.NewScanner(f)
	sc.Buffer(make([]byte, 1<<20), 1<<20)
	for sc.Scan() {
		var raw map[string]any
		var c xcase
		if err := json.Unmarshal(sc.Bytes(), &c); err != nil {
			panic(err)
		}
		_ = json.Unmarshal(sc.Bytes(), &raw)
		ev := map[string]any{"a": "x", "curve": name, "op": c.Op, "pred": raw}
		msg := guard(func() {
			if kind == "weier" {
				toyXW(c, ev)
			} else {
				toyXE(c, ev)
			}
		})
		ev["panic"] = msg != ""
		w.Emit(ev)
	}
}

func affW(p *toyW) []int64 {
	var x, y tfp
	if p.ToAffine(&x, &y) == ct.False {
		return []int64{-1, -1}
	}
	return []int64{int64(x.v), int64(y.v)}
}

func toyXW(c xcase, ev map[string]any) {
	switch c.Op {
	case "affine":
		var p toyW
		p.SetZero()
		x, y := tfp{c.X}, tfp{c.Y}
		ok := p.SetAffine(&x, &y) == ct.True
		ev["rok"] = ok
		if ok {
			ev["rpt"] = affW(&p)
			var q, s toyW // the element must behave as the point: P - P = O, P + O = P
			q.Neg(&p)
			s.Add(&p, &q)
			ev["negZero"] = s.IsZero() == ct.True
		}
	case "fromc":
		var p toyW
		p.SetZero()
		x := tfp{c.X}
		ok := p.SetFromAffineX(&x) == ct.True
		ev["rok"] = ok
		if ok {
			ev["rpt"] = affW(&p)
		}
	case "mult":
		var g, acc, dbl toyW
		g.SetGenerator()
		acc.SetZero()
		dbl.SetZero()
		for i := 0; i < c.K; i++ {
			acc.Add(&acc, &g)
		}
		for i := 30; i >= 0; i-- { // double-and-add with Double
			dbl.Double(&dbl)
			if c.K>>uint(i)&1 == 1 {
				dbl.Add(&dbl, &g)
			}
		}
		ev["rpt"], ev["rid"], ev["same"] = affW(&acc), acc.IsZero() == ct.True, acc.Equal(&dbl) == ct.True
	}
}

func affE(p *toyE) []int64 {
	var x, y tfp
	if p.ToAffine(&x, &y) == ct.False {
		return []int64{-1, -1}
	}
	return []int64{int64(x.v), int64(y.v)}
}

func toyXE(c xcase, ev map[string]any) {
	switch c.Op {
	case "affine":
		var p toyE
		p.SetZero()
		x, y := tfp{c.X}, tfp{c.Y}
		ok := p.SetAffine(&x, &y) == ct.True
		ev["rok"] = ok
		if ok {
			ev["rpt"] = affE(&p)
			var q, s toyE
			q.Neg(&p)
			s.Add(&p, &q)
			ev["negZero"] = s.IsZero() == ct.True
		}
	case "fromc": // SetFromAffineY
		var p toyE
		p.SetZero()
		y := tfp{c.X}
		ok := p.SetFromAffineY(&y) == ct.True
		ev["rok"] = ok
		if ok {
			ev["rpt"] = affE(&p)
		}
	case "mult":
		var g, acc, dbl toyE
		g.SetGenerator()
		acc.SetZero()
		dbl.SetZero()
		for i := 0; i < c.K; i++ {
			acc.Add(&acc, &g)
		}
		for i := 30; i >= 0; i-- {
			dbl.Double(&dbl)
			if c.K>>uint(i)&1 == 1 {
				dbl.Add(&dbl, &g)
			}
		}
		ev["rpt"], ev["rid"], ev["same"] = affE(&acc), acc.IsZero() == ct.True, acc.Equal(&dbl) == ct.True
	}
}

package main

// Adapters: every public point type of /repo behind one shape (papi), so that the cases are written once.
// Only this file and fields.go call into the library.

import (
	"github.com/bronlabs/bron-crypto/pkg/base/curves/curve25519"
	"github.com/bronlabs/bron-crypto/pkg/base/curves/edwards25519"
	"github.com/bronlabs/bron-crypto/pkg/base/curves/k256"
	"github.com/bronlabs/bron-crypto/pkg/base/curves/p256"
	"github.com/bronlabs/bron-crypto/pkg/base/curves/pairable/bls12381"
	"github.com/bronlabs/bron-crypto/pkg/base/curves/pasta"
)

// papi is the public API of one point type.
type papi[P any] struct {
	name   string
	model  *grpModel
	gen    func() P
	id     func() P
	add    func(a, b P) P
	neg    func(a P) P
	raw    func(p P) []fe // projective / extended coordinates exactly as stored: X, Y, Z (, T)
	comp   *format        // rule of the compressed form
	uncomp *format

	fromCompressed, fromUncompressed, fromBytes func([]byte) (P, error)
	toCompressed, toUncompressed, toBytes       func(P) []byte
	unmarshalBinary                             func([]byte) (P, error) // nil if the type has none
	marshalBinary                               func(P) ([]byte, error)
	unmarshalCBOR                               func([]byte) (P, error)
	marshalCBOR                                 func(P) ([]byte, error)
	cborInner                                   *format // the format the CBOR payload carries
	fromAffine                                  func(x, y fe) (P, error)
	fromAffineX                                 func(x fe, odd bool) (P, error) // nil if the type has none
}

func le1(b []byte) fe { return fe{fromLE(b)} }

type bytesT interface{ Bytes() []byte }

func must[T any](v T, err error) T {
	if err != nil {
		panic(err)
	}
	return v
}

func runners() []runner {
	var out []runner
	{
		c, bf := k256.NewCurve(), k256.NewBaseField()
		m := &grpModel{name: "k256", w: wSecp, order: nSecp, cof: one, prime: true, cl: 32}
		fb := func(v fe) *k256.BaseFieldElement { return must(bf.FromBytes(beBytes(v[0], 32))) }
		out = append(out, mkRunner(&papi[*k256.Point]{
			name: "k256", model: m, gen: c.Generator, id: c.OpIdentity,
			add:  func(a, b *k256.Point) *k256.Point { return a.Add(b) },
			neg:  func(a *k256.Point) *k256.Point { return a.Neg() },
			raw:  func(p *k256.Point) []fe { return []fe{le1(p.V.X.Bytes()), le1(p.V.Y.Bytes()), le1(p.V.Z.Bytes())} },
			comp: fmtSec1c, uncomp: fmtSec1u, cborInner: fmtSec1c,
			fromCompressed: c.FromCompressed, fromUncompressed: c.FromUncompressed, fromBytes: c.FromBytes,
			toCompressed: (*k256.Point).ToCompressed, toUncompressed: (*k256.Point).ToUncompressed, toBytes: (*k256.Point).Bytes,
			unmarshalBinary: func(b []byte) (*k256.Point, error) { var p k256.Point; err := p.UnmarshalBinary(b); return &p, err },
			marshalBinary:   (*k256.Point).MarshalBinary,
			unmarshalCBOR:   func(b []byte) (*k256.Point, error) { var p k256.Point; err := p.UnmarshalCBOR(b); return &p, err },
			marshalCBOR:     (*k256.Point).MarshalCBOR,
			fromAffine:      func(x, y fe) (*k256.Point, error) { return c.FromAffine(fb(x), fb(y)) },
			fromAffineX:     func(x fe, odd bool) (*k256.Point, error) { return c.FromAffineX(fb(x), odd) },
		}))
	}
	{
		c, bf := p256.NewCurve(), p256.NewBaseField()
		m := &grpModel{name: "p256", w: wP256, order: nP256, cof: one, prime: true, cl: 32}
		fb := func(v fe) *p256.BaseFieldElement { return must(bf.FromBytes(beBytes(v[0], 32))) }
		out = append(out, mkRunner(&papi[*p256.Point]{
			name: "p256", model: m, gen: c.Generator, id: c.OpIdentity,
			add:  func(a, b *p256.Point) *p256.Point { return a.Add(b) },
			neg:  func(a *p256.Point) *p256.Point { return a.Neg() },
			raw:  func(p *p256.Point) []fe { return []fe{le1(p.V.X.Bytes()), le1(p.V.Y.Bytes()), le1(p.V.Z.Bytes())} },
			comp: fmtSec1c, uncomp: fmtSec1u, cborInner: fmtSec1c,
			fromCompressed: c.FromCompressed, fromUncompressed: c.FromUncompressed, fromBytes: c.FromBytes,
			toCompressed: (*p256.Point).ToCompressed, toUncompressed: (*p256.Point).ToUncompressed, toBytes: (*p256.Point).Bytes,
			unmarshalBinary: func(b []byte) (*p256.Point, error) { var p p256.Point; err := p.UnmarshalBinary(b); return &p, err },
			marshalBinary:   (*p256.Point).MarshalBinary,
			unmarshalCBOR:   func(b []byte) (*p256.Point, error) { var p p256.Point; err := p.UnmarshalCBOR(b); return &p, err },
			marshalCBOR:     (*p256.Point).MarshalCBOR,
			fromAffine:      func(x, y fe) (*p256.Point, error) { return c.FromAffine(fb(x), fb(y)) },
			fromAffineX:     func(x fe, odd bool) (*p256.Point, error) { return c.FromAffineX(fb(x), odd) },
		}))
	}
	{
		c, bf := pasta.NewPallasCurve(), pasta.NewPallasBaseField()
		m := &grpModel{name: "pallas", w: wPallas, order: nPallas, cof: one, prime: true, cl: 32}
		fb := func(v fe) *pasta.PallasBaseFieldElement { return must(bf.FromBytes(beBytes(v[0], 32))) }
		out = append(out, mkRunner(&papi[*pasta.PallasPoint]{
			name: "pallas", model: m, gen: c.Generator, id: c.OpIdentity,
			add: func(a, b *pasta.PallasPoint) *pasta.PallasPoint { return a.Add(b) },
			neg: func(a *pasta.PallasPoint) *pasta.PallasPoint { return a.Neg() },
			raw: func(p *pasta.PallasPoint) []fe {
				return []fe{le1(p.V.X.Bytes()), le1(p.V.Y.Bytes()), le1(p.V.Z.Bytes())}
			},
			comp: fmtPastac, uncomp: fmtPastau, cborInner: fmtPastac,
			fromCompressed: c.FromCompressed, fromUncompressed: c.FromUncompressed, fromBytes: c.FromBytes,
			toCompressed: (*pasta.PallasPoint).ToCompressed, toUncompressed: (*pasta.PallasPoint).ToUncompressed, toBytes: (*pasta.PallasPoint).Bytes,
			unmarshalBinary: func(b []byte) (*pasta.PallasPoint, error) {
				var p pasta.PallasPoint
				err := p.UnmarshalBinary(b)
				return &p, err
			},
			marshalBinary: (*pasta.PallasPoint).MarshalBinary,
			unmarshalCBOR: func(b []byte) (*pasta.PallasPoint, error) {
				var p pasta.PallasPoint
				err := p.UnmarshalCBOR(b)
				return &p, err
			},
			marshalCBOR: (*pasta.PallasPoint).MarshalCBOR,
			fromAffine:  func(x, y fe) (*pasta.PallasPoint, error) { return c.FromAffine(fb(x), fb(y)) },
			fromAffineX: func(x fe, odd bool) (*pasta.PallasPoint, error) { return c.FromAffineX(fb(x), odd) },
		}))
	}
	{
		c, bf := pasta.NewVestaCurve(), pasta.NewVestaBaseField()
		m := &grpModel{name: "vesta", w: wVesta, order: nVesta, cof: one, prime: true, cl: 32}
		fb := func(v fe) *pasta.VestaBaseFieldElement { return must(bf.FromBytes(beBytes(v[0], 32))) }
		out = append(out, mkRunner(&papi[*pasta.VestaPoint]{
			name: "vesta", model: m, gen: c.Generator, id: c.OpIdentity,
			add: func(a, b *pasta.VestaPoint) *pasta.VestaPoint { return a.Add(b) },
			neg: func(a *pasta.VestaPoint) *pasta.VestaPoint { return a.Neg() },
			raw: func(p *pasta.VestaPoint) []fe {
				return []fe{le1(p.V.X.Bytes()), le1(p.V.Y.Bytes()), le1(p.V.Z.Bytes())}
			},
			comp: fmtPastac, uncomp: fmtPastau, cborInner: fmtPastac,
			fromCompressed: c.FromCompressed, fromUncompressed: c.FromUncompressed, fromBytes: c.FromBytes,
			toCompressed: (*pasta.VestaPoint).ToCompressed, toUncompressed: (*pasta.VestaPoint).ToUncompressed, toBytes: (*pasta.VestaPoint).Bytes,
			unmarshalBinary: func(b []byte) (*pasta.VestaPoint, error) {
				var p pasta.VestaPoint
				err := p.UnmarshalBinary(b)
				return &p, err
			},
			marshalBinary: (*pasta.VestaPoint).MarshalBinary,
			unmarshalCBOR: func(b []byte) (*pasta.VestaPoint, error) {
				var p pasta.VestaPoint
				err := p.UnmarshalCBOR(b)
				return &p, err
			},
			marshalCBOR: (*pasta.VestaPoint).MarshalCBOR,
			fromAffine:  func(x, y fe) (*pasta.VestaPoint, error) { return c.FromAffine(fb(x), fb(y)) },
			fromAffineX: func(x fe, odd bool) (*pasta.VestaPoint, error) { return c.FromAffineX(fb(x), odd) },
		}))
	}
	edRaw := func(x, y, z, t bytesT) []fe {
		return []fe{le1(x.Bytes()), le1(y.Bytes()), le1(z.Bytes()), le1(t.Bytes())}
	}
	edfb := func(v fe) *edwards25519.BaseFieldElement {
		return must(edwards25519.NewBaseField().FromBytes(beBytes(v[0], 32)))
	}
	{
		c := edwards25519.NewCurve()
		m := &grpModel{name: "ed25519", e: eEd, order: n25519, cof: bigEight, prime: false, cl: 32}
		out = append(out, mkRunner(&papi[*edwards25519.Point]{
			name: "ed25519", model: m, gen: c.PrimeSubGroupGenerator, id: c.OpIdentity,
			add:  func(a, b *edwards25519.Point) *edwards25519.Point { return a.Add(b) },
			neg:  func(a *edwards25519.Point) *edwards25519.Point { return a.Neg() },
			raw:  func(p *edwards25519.Point) []fe { return edRaw(&p.V.X, &p.V.Y, &p.V.Z, &p.V.T) },
			comp: fmtEdc, uncomp: fmtEdu, cborInner: fmtEdc,
			fromCompressed: c.FromCompressed, fromUncompressed: c.FromUncompressed, fromBytes: c.FromBytes,
			toCompressed: (*edwards25519.Point).ToCompressed, toUncompressed: (*edwards25519.Point).ToUncompressed, toBytes: (*edwards25519.Point).Bytes,
			unmarshalBinary: func(b []byte) (*edwards25519.Point, error) {
				var p edwards25519.Point
				err := p.UnmarshalBinary(b)
				return &p, err
			},
			marshalBinary: (*edwards25519.Point).MarshalBinary,
			unmarshalCBOR: func(b []byte) (*edwards25519.Point, error) {
				var p edwards25519.Point
				err := p.UnmarshalCBOR(b)
				return &p, err
			},
			marshalCBOR: (*edwards25519.Point).MarshalCBOR,
			fromAffine:  func(x, y fe) (*edwards25519.Point, error) { return c.FromAffine(edfb(x), edfb(y)) },
		}))
	}
	{
		c := edwards25519.NewPrimeSubGroup()
		m := &grpModel{name: "ed25519-prime", e: eEd, order: n25519, cof: bigEight, prime: true, cl: 32}
		out = append(out, mkRunner(&papi[*edwards25519.PrimeSubGroupPoint]{
			name: "ed25519-prime", model: m, gen: c.Generator, id: c.OpIdentity,
			add:  func(a, b *edwards25519.PrimeSubGroupPoint) *edwards25519.PrimeSubGroupPoint { return a.Add(b) },
			neg:  func(a *edwards25519.PrimeSubGroupPoint) *edwards25519.PrimeSubGroupPoint { return a.Neg() },
			raw:  func(p *edwards25519.PrimeSubGroupPoint) []fe { return edRaw(&p.V.X, &p.V.Y, &p.V.Z, &p.V.T) },
			comp: fmtEdc, uncomp: fmtEdu, cborInner: fmtEdc,
			fromCompressed: c.FromCompressed, fromUncompressed: c.FromUncompressed, fromBytes: c.FromBytes,
			toCompressed: (*edwards25519.PrimeSubGroupPoint).ToCompressed, toUncompressed: (*edwards25519.PrimeSubGroupPoint).ToUncompressed,
			toBytes: (*edwards25519.PrimeSubGroupPoint).Bytes,
			unmarshalCBOR: func(b []byte) (*edwards25519.PrimeSubGroupPoint, error) {
				var p edwards25519.PrimeSubGroupPoint
				err := p.UnmarshalCBOR(b)
				return &p, err
			},
			marshalCBOR: (*edwards25519.PrimeSubGroupPoint).MarshalCBOR,
			fromAffine:  func(x, y fe) (*edwards25519.PrimeSubGroupPoint, error) { return c.FromAffine(edfb(x), edfb(y)) },
		}))
	}
	{
		c := curve25519.NewCurve()
		m := &grpModel{name: "x25519", e: eEd, order: n25519, cof: bigEight, prime: false, cl: 32}
		out = append(out, mkRunner(&papi[*curve25519.Point]{
			name: "x25519", model: m, gen: c.PrimeSubGroupGenerator, id: c.OpIdentity,
			add:  func(a, b *curve25519.Point) *curve25519.Point { return a.Add(b) },
			neg:  func(a *curve25519.Point) *curve25519.Point { return a.Neg() },
			raw:  func(p *curve25519.Point) []fe { return edRaw(&p.V.X, &p.V.Y, &p.V.Z, &p.V.T) },
			comp: fmtMontc, uncomp: fmtMontu, cborInner: fmtMontu,
			fromCompressed: c.FromCompressed, fromUncompressed: c.FromUncompressed, fromBytes: c.FromBytes,
			toCompressed: (*curve25519.Point).ToCompressed, toUncompressed: (*curve25519.Point).ToUncompressed, toBytes: (*curve25519.Point).Bytes,
			unmarshalCBOR: func(b []byte) (*curve25519.Point, error) {
				var p curve25519.Point
				err := p.UnmarshalCBOR(b)
				return &p, err
			},
			marshalCBOR: (*curve25519.Point).MarshalCBOR,
			fromAffine:  func(x, y fe) (*curve25519.Point, error) { return c.FromAffine(edfb(x), edfb(y)) },
		}))
	}
	{
		c := curve25519.NewPrimeSubGroup()
		m := &grpModel{name: "x25519-prime", e: eEd, order: n25519, cof: bigEight, prime: true, cl: 32}
		out = append(out, mkRunner(&papi[*curve25519.PrimeSubGroupPoint]{
			name: "x25519-prime", model: m, gen: c.Generator, id: c.OpIdentity,
			add:  func(a, b *curve25519.PrimeSubGroupPoint) *curve25519.PrimeSubGroupPoint { return a.Add(b) },
			neg:  func(a *curve25519.PrimeSubGroupPoint) *curve25519.PrimeSubGroupPoint { return a.Neg() },
			raw:  func(p *curve25519.PrimeSubGroupPoint) []fe { return edRaw(&p.V.X, &p.V.Y, &p.V.Z, &p.V.T) },
			comp: fmtMontc, uncomp: fmtMontu, cborInner: fmtMontu,
			fromCompressed: c.FromCompressed, fromUncompressed: c.FromUncompressed, fromBytes: c.FromBytes,
			toCompressed: (*curve25519.PrimeSubGroupPoint).ToCompressed, toUncompressed: (*curve25519.PrimeSubGroupPoint).ToUncompressed,
			toBytes: (*curve25519.PrimeSubGroupPoint).Bytes,
			unmarshalCBOR: func(b []byte) (*curve25519.PrimeSubGroupPoint, error) {
				var p curve25519.PrimeSubGroupPoint
				err := p.UnmarshalCBOR(b)
				return &p, err
			},
			marshalCBOR: (*curve25519.PrimeSubGroupPoint).MarshalCBOR,
			fromAffine:  func(x, y fe) (*curve25519.PrimeSubGroupPoint, error) { return c.FromAffine(edfb(x), edfb(y)) },
		}))
	}
	{
		c, bf := bls12381.NewG1(), bls12381.NewG1BaseField()
		m := &grpModel{name: "bls-g1", w: wBlsG1, order: nBls, cof: hexInt("396c8c005555e1568c00aaab0000aaab"), prime: true, cl: 48}
		fb := func(v fe) *bls12381.BaseFieldElementG1 { return must(bf.FromBytes(beBytes(v[0], 48))) }
		out = append(out, mkRunner(&papi[*bls12381.PointG1]{
			name: "bls-g1", model: m, gen: c.Generator, id: c.OpIdentity,
			add: func(a, b *bls12381.PointG1) *bls12381.PointG1 { return a.Add(b) },
			neg: func(a *bls12381.PointG1) *bls12381.PointG1 { return a.Neg() },
			raw: func(p *bls12381.PointG1) []fe {
				return []fe{le1(p.V.X.Bytes()), le1(p.V.Y.Bytes()), le1(p.V.Z.Bytes())}
			},
			comp: fmtBlsc, uncomp: fmtBlsu, cborInner: fmtBlsc,
			fromCompressed: c.FromCompressed, fromUncompressed: c.FromUncompressed, fromBytes: c.FromBytes,
			toCompressed: (*bls12381.PointG1).ToCompressed, toUncompressed: (*bls12381.PointG1).ToUncompressed, toBytes: (*bls12381.PointG1).Bytes,
			unmarshalBinary: func(b []byte) (*bls12381.PointG1, error) {
				var p bls12381.PointG1
				err := p.UnmarshalBinary(b)
				return &p, err
			},
			marshalBinary: (*bls12381.PointG1).MarshalBinary,
			unmarshalCBOR: func(b []byte) (*bls12381.PointG1, error) {
				var p bls12381.PointG1
				err := p.UnmarshalCBOR(b)
				return &p, err
			},
			marshalCBOR: (*bls12381.PointG1).MarshalCBOR,
			fromAffine:  func(x, y fe) (*bls12381.PointG1, error) { return c.FromAffine(fb(x), fb(y)) },
			fromAffineX: func(x fe, odd bool) (*bls12381.PointG1, error) { return c.FromAffineX(fb(x), odd) },
		}))
	}
	{
		c, bf := bls12381.NewG2(), bls12381.NewG2BaseField()
		// #E'(F_p^2) = h2 * r
		h2 := hexInt("5d543a95414e7f1091d50792876a202cd91de4547085abaa68a205b2e5a7ddfa628f1cb4d9e82ef21537e293a6691ae1616ec6e786f0c70cf1c38e31c7238e5")
		m := &grpModel{name: "bls-g2", w: wBlsG2, order: nBls, cof: h2, prime: true, cl: 48}
		fb := func(v fe) *bls12381.BaseFieldElementG2 {
			return must(bf.FromBytes(append(beBytes(v[0], 48), beBytes(v[1], 48)...)))
		}
		f2raw := func(u0, u1 bytesT) fe { return fe{fromLE(u0.Bytes()), fromLE(u1.Bytes())} }
		out = append(out, mkRunner(&papi[*bls12381.PointG2]{
			name: "bls-g2", model: m, gen: c.Generator, id: c.OpIdentity,
			add: func(a, b *bls12381.PointG2) *bls12381.PointG2 { return a.Add(b) },
			neg: func(a *bls12381.PointG2) *bls12381.PointG2 { return a.Neg() },
			raw: func(p *bls12381.PointG2) []fe {
				return []fe{f2raw(&p.V.X.U0, &p.V.X.U1), f2raw(&p.V.Y.U0, &p.V.Y.U1), f2raw(&p.V.Z.U0, &p.V.Z.U1)}
			},
			comp: fmtBlsc, uncomp: fmtBlsu, cborInner: fmtBlsc,
			fromCompressed: c.FromCompressed, fromUncompressed: c.FromUncompressed, fromBytes: c.FromBytes,
			toCompressed: (*bls12381.PointG2).ToCompressed, toUncompressed: (*bls12381.PointG2).ToUncompressed, toBytes: (*bls12381.PointG2).Bytes,
			unmarshalBinary: func(b []byte) (*bls12381.PointG2, error) {
				var p bls12381.PointG2
				err := p.UnmarshalBinary(b)
				return &p, err
			},
			marshalBinary: (*bls12381.PointG2).MarshalBinary,
			unmarshalCBOR: func(b []byte) (*bls12381.PointG2, error) {
				var p bls12381.PointG2
				err := p.UnmarshalCBOR(b)
				return &p, err
			},
			marshalCBOR: (*bls12381.PointG2).MarshalCBOR,
			fromAffine:  func(x, y fe) (*bls12381.PointG2, error) { return c.FromAffine(fb(x), fb(y)) },
		}))
	}
	return out
}

package main

// Independent reference arithmetic (math/big only; nothing in this file calls into /repo):
// prime fields and the quadratic extension F_p[u]/(u^2+1), short Weierstrass curves over either, the twisted
// Edwards curve of 25519 with its Montgomery view, a polynomial-basis tower for the BLS12-381 target field.

import (
	"fmt"
	"math/big"
	"strings"
)

func hexInt(s string) *big.Int {
	v, ok := new(big.Int).SetString(strings.ReplaceAll(s, " ", ""), 16)
	if !ok {
		panic("bad hex " + s)
	}
	return v
}

var (
	one = big.NewInt(1)
	two = big.NewInt(2)
)

// fe is an element of F_p (one coefficient) or of F_p[u]/(u^2+1) (two coefficients c0 + c1 u).
type fe []*big.Int

type field struct {
	p   *big.Int
	deg int
}

func (f *field) norm(v *big.Int) *big.Int { return new(big.Int).Mod(v, f.p) }

func (f *field) zero() fe {
	out := make(fe, f.deg)
	for i := range out {
		out[i] = new(big.Int)
	}
	return out
}

func (f *field) fromInts(cs ...*big.Int) fe {
	out := f.zero()
	for i, c := range cs {
		out[i] = f.norm(c)
	}
	return out
}

func (f *field) small(v int64) fe { return f.fromInts(big.NewInt(v)) }

func (f *field) add(a, b fe) fe {
	out := make(fe, f.deg)
	for i := range out {
		out[i] = f.norm(new(big.Int).Add(a[i], b[i]))
	}
	return out
}

func (f *field) sub(a, b fe) fe {
	out := make(fe, f.deg)
	for i := range out {
		out[i] = f.norm(new(big.Int).Sub(a[i], b[i]))
	}
	return out
}

func (f *field) neg(a fe) fe { return f.sub(f.zero(), a) }

func (f *field) mul(a, b fe) fe {
	if f.deg == 1 {
		return fe{f.norm(new(big.Int).Mul(a[0], b[0]))}
	}
	// (a0 + a1 u)(b0 + b1 u) = a0 b0 - a1 b1 + (a0 b1 + a1 b0) u
	r0 := new(big.Int).Mul(a[0], b[0])
	r0.Sub(r0, new(big.Int).Mul(a[1], b[1]))
	r1 := new(big.Int).Mul(a[0], b[1])
	r1.Add(r1, new(big.Int).Mul(a[1], b[0]))
	return fe{f.norm(r0), f.norm(r1)}
}

func (f *field) sq(a fe) fe { return f.mul(a, a) }

func (f *field) isZero(a fe) bool {
	for _, c := range a {
		if c.Sign() != 0 {
			return false
		}
	}
	return true
}

func (f *field) eq(a, b fe) bool {
	for i := range a {
		if a[i].Cmp(b[i]) != 0 {
			return false
		}
	}
	return true
}

func (f *field) inv(a fe) (fe, bool) {
	if f.isZero(a) {
		return nil, false
	}
	if f.deg == 1 {
		return fe{new(big.Int).ModInverse(a[0], f.p)}, true
	}
	// 1 / (a0 + a1 u) = (a0 - a1 u) / (a0^2 + a1^2)
	n := new(big.Int).Mul(a[0], a[0])
	n.Add(n, new(big.Int).Mul(a[1], a[1]))
	n.Mod(n, f.p)
	ni := new(big.Int).ModInverse(n, f.p)
	return fe{f.norm(new(big.Int).Mul(a[0], ni)), f.norm(new(big.Int).Mul(new(big.Int).Neg(a[1]), ni))}, true
}

func (f *field) div(a, b fe) (fe, bool) {
	bi, ok := f.inv(b)
	if !ok {
		return nil, false
	}
	return f.mul(a, bi), true
}

// sqrt returns one square root (and whether one exists); the other is its negation.
func (f *field) sqrt(a fe) (fe, bool) {
	if f.deg == 1 {
		r := new(big.Int).ModSqrt(a[0], f.p)
		if r == nil {
			return nil, false
		}
		return fe{r}, true
	}
	base := &field{f.p, 1}
	if a[1].Sign() == 0 {
		if r, ok := base.sqrt(fe{a[0]}); ok {
			return fe{r[0], new(big.Int)}, true
		}
		r, ok := base.sqrt(fe{f.norm(new(big.Int).Neg(a[0]))}) // (r u)^2 = -r^2
		if !ok {
			return nil, false
		}
		return fe{new(big.Int), r[0]}, true
	}
	n := new(big.Int).Mul(a[0], a[0])
	n.Add(n, new(big.Int).Mul(a[1], a[1]))
	n.Mod(n, f.p)
	s := new(big.Int).ModSqrt(n, f.p)
	if s == nil {
		return nil, false
	}
	half := new(big.Int).ModInverse(two, f.p)
	for _, sg := range []int64{1, -1} {
		t := new(big.Int).Mul(s, big.NewInt(sg))
		t.Add(t, a[0])
		t.Mul(t, half)
		t.Mod(t, f.p)
		x0 := new(big.Int).ModSqrt(t, f.p)
		if x0 == nil || x0.Sign() == 0 {
			continue
		}
		d := new(big.Int).Lsh(x0, 1)
		d.ModInverse(d, f.p)
		x1 := f.norm(d.Mul(d, a[1]))
		r := fe{x0, x1}
		if f.eq(f.sq(r), a) {
			return r, true
		}
	}
	return nil, false
}

// parity of the canonical integer (coefficient c0); "negative" = lexicographically largest (ZCash): compare c1 first.
func (f *field) odd(a fe) bool { return a[0].Bit(0) == 1 }

func (f *field) negative(a fe) bool {
	half := new(big.Int).Rsh(new(big.Int).Sub(f.p, one), 1)
	for i := f.deg - 1; i >= 0; i-- {
		if a[i].Sign() != 0 {
			return a[i].Cmp(half) > 0
		}
	}
	return false
}

func (f *field) str(a fe) string {
	parts := make([]string, len(a))
	for i, c := range a {
		parts[i] = c.Text(16)
	}
	return strings.Join(parts, ":")
}

// ---------------------------------------------------------------- points

// pt is an affine point; inf marks the Weierstrass point at infinity (Edwards curves have none: identity = (0, 1)).
type pt struct {
	x, y fe
	inf  bool
}

type curveModel interface {
	fld() *field
	onCurve(p pt) bool
	add(p, q pt) pt
	neg(p pt) pt
	identity() pt
	isIdentity(p pt) bool
}

func ptStr(c curveModel, p pt) string {
	if p.inf {
		return "inf"
	}
	return c.fld().str(p.x) + "," + c.fld().str(p.y)
}

func samePt(c curveModel, p, q pt) bool {
	if p.inf || q.inf {
		return p.inf == q.inf
	}
	return c.fld().eq(p.x, q.x) && c.fld().eq(p.y, q.y)
}

func mulBig(c curveModel, k *big.Int, p pt) pt {
	if k.Sign() < 0 {
		return mulBig(c, new(big.Int).Neg(k), c.neg(p))
	}
	r := c.identity()
	for i := k.BitLen() - 1; i >= 0; i-- {
		r = c.add(r, r)
		if k.Bit(i) == 1 {
			r = c.add(r, p)
		}
	}
	return r
}

// short Weierstrass y^2 = x^3 + a x + b
type wcurve struct {
	f    *field
	a, b fe
}

func (c *wcurve) fld() *field          { return c.f }
func (c *wcurve) identity() pt         { return pt{inf: true} }
func (c *wcurve) isIdentity(p pt) bool { return p.inf }

func (c *wcurve) rhs(x fe) fe {
	f := c.f
	return f.add(f.add(f.mul(f.sq(x), x), f.mul(c.a, x)), c.b)
}

func (c *wcurve) onCurve(p pt) bool {
	if p.inf {
		return true
	}
	return c.f.eq(c.f.sq(p.y), c.rhs(p.x))
}

func (c *wcurve) neg(p pt) pt {
	if p.inf {
		return p
	}
	return pt{x: p.x, y: c.f.neg(p.y)}
}

func (c *wcurve) add(p, q pt) pt {
	f := c.f
	if p.inf {
		return q
	}
	if q.inf {
		return p
	}
	var lam fe
	if f.eq(p.x, q.x) {
		if f.isZero(f.add(p.y, q.y)) {
			return pt{inf: true}
		}
		num := f.add(f.mul(f.small(3), f.sq(p.x)), c.a)
		lam, _ = f.div(num, f.add(p.y, p.y))
	} else {
		lam, _ = f.div(f.sub(q.y, p.y), f.sub(q.x, p.x))
	}
	x := f.sub(f.sub(f.sq(lam), p.x), q.x)
	y := f.sub(f.mul(lam, f.sub(p.x, x)), p.y)
	return pt{x: x, y: y}
}

// lift returns the points with abscissa x (none, one with y = 0, or a pair).
func (c *wcurve) lift(x fe) (pt, bool) {
	y, ok := c.f.sqrt(c.rhs(x))
	if !ok {
		return pt{}, false
	}
	return pt{x: x, y: y}, true
}

// twisted Edwards a x^2 + y^2 = 1 + d x^2 y^2 (complete law: a square, d non-square)
type ecurve struct {
	f    *field
	a, d fe
}

func (c *ecurve) fld() *field  { return c.f }
func (c *ecurve) identity() pt { return pt{x: c.f.small(0), y: c.f.small(1)} }
func (c *ecurve) isIdentity(p pt) bool {
	return c.f.isZero(p.x) && c.f.eq(p.y, c.f.small(1))
}

func (c *ecurve) onCurve(p pt) bool {
	f := c.f
	x2, y2 := f.sq(p.x), f.sq(p.y)
	return f.eq(f.add(f.mul(c.a, x2), y2), f.add(f.small(1), f.mul(c.d, f.mul(x2, y2))))
}

func (c *ecurve) neg(p pt) pt { return pt{x: c.f.neg(p.x), y: p.y} }

func (c *ecurve) add(p, q pt) pt {
	f := c.f
	t := f.mul(c.d, f.mul(f.mul(p.x, q.x), f.mul(p.y, q.y)))
	x, _ := f.div(f.add(f.mul(p.x, q.y), f.mul(p.y, q.x)), f.add(f.small(1), t))
	y, _ := f.div(f.sub(f.mul(p.y, q.y), f.mul(c.a, f.mul(p.x, q.x))), f.sub(f.small(1), t))
	return pt{x: x, y: y}
}

// liftY returns a point with ordinate y: x^2 = (1 - y^2) / (a - d y^2).
func (c *ecurve) liftY(y fe) (pt, bool) {
	f := c.f
	y2 := f.sq(y)
	xx, ok := f.div(f.sub(f.small(1), y2), f.sub(c.a, f.mul(c.d, y2)))
	if !ok {
		return pt{}, false
	}
	x, ok := f.sqrt(xx)
	if !ok {
		return pt{}, false
	}
	return pt{x: x, y: y}, true
}

// ---------------------------------------------------------------- the production curves

var (
	fSecp   = &field{hexInt("FFFFFFFFFFFFFFFFFFFFFFFFFFFFFFFFFFFFFFFFFFFFFFFFFFFFFFFEFFFFFC2F"), 1}
	fP256   = &field{hexInt("FFFFFFFF00000001000000000000000000000000FFFFFFFFFFFFFFFFFFFFFFFF"), 1}
	fPallas = &field{hexInt("40000000000000000000000000000000224698fc094cf91b992d30ed00000001"), 1}
	fVesta  = &field{hexInt("40000000000000000000000000000000224698fc0994a8dd8c46eb2100000001"), 1}
	fBls    = &field{hexInt("1a0111ea397fe69a4b1ba7b6434bacd764774b84f38512bf6730d2a0f6b0f6241eabfffeb153ffffb9feffffffffaaab"), 1}
	fBls2   = &field{fBls.p, 2}
	f25519  = &field{hexInt("7fffffffffffffffffffffffffffffffffffffffffffffffffffffffffffffed"), 1}

	wSecp   = &wcurve{fSecp, fSecp.small(0), fSecp.small(7)}
	wP256   = &wcurve{fP256, fP256.small(-3), fP256.fromInts(hexInt("5AC635D8AA3A93E7B3EBBD55769886BC651D06B0CC53B0F63BCE3C3E27D2604B"))}
	wPallas = &wcurve{fPallas, fPallas.small(0), fPallas.small(5)}
	wVesta  = &wcurve{fVesta, fVesta.small(0), fVesta.small(5)}
	wBlsG1  = &wcurve{fBls, fBls.small(0), fBls.small(4)}
	wBlsG2  = &wcurve{fBls2, fBls2.zero(), fBls2.fromInts(big.NewInt(4), big.NewInt(4))} // y^2 = x^3 + 4(u + 1)
	eEd     = &ecurve{f25519, f25519.small(-1), f25519.fromInts(hexInt("52036cee2b6ffe738cc740797779e89800700a4d4141d8ab75eb4dca135978a3"))}

	// group orders (the scalar-field moduli): the standard constants
	nSecp   = hexInt("FFFFFFFFFFFFFFFFFFFFFFFFFFFFFFFEBAAEDCE6AF48A03BBFD25E8CD0364141")
	nP256   = hexInt("FFFFFFFF00000000FFFFFFFFFFFFFFFFBCE6FAADA7179E84F3B9CAC2FC632551")
	nPallas = fVesta.p // the Pasta cycle: #Pallas(F_p) = q, #Vesta(F_q) = p
	nVesta  = fPallas.p
	nBls    = hexInt("73eda753299d7d483339d80809a1d80553bda402fffe5bfeffffffff00000001")
	n25519  = hexInt("1000000000000000000000000000000014def9dea2f79cd65812631a5cf5d3ed")

	// Montgomery view of edwards25519: v^2 = u^3 + 486662 u^2 + u;  u = (1 + y) / (1 - y), v = c u / x, c^2 = -486664
	montA = f25519.small(486662)
)

// montC is the square root of -486664 the library uses (its sign fixes the sign of v); read from the generator's
// coordinates at start-up and checked: c^2 = -486664.
var montC fe

func montRhs(u fe) fe {
	f := f25519
	return f.add(f.add(f.mul(f.sq(u), u), f.mul(montA, f.sq(u))), u)
}

// edToMont maps an Edwards point to its Montgomery coordinates; ok is false for the identity (point at infinity)
// and v is undefined (returned as 0) for the point of order two (0, -1) -> (0, 0).
func edToMont(p pt) (u, v fe, ok bool) {
	f := f25519
	u, ok = f.div(f.add(f.small(1), p.y), f.sub(f.small(1), p.y))
	if !ok {
		return nil, nil, false
	}
	if f.isZero(p.x) {
		return u, f.small(0), true
	}
	v, _ = f.div(f.mul(montC, u), p.x)
	return u, v, true
}

// montToEd: the Edwards points with Montgomery abscissa u (a pair +-x, a single point, or none).
func montToEd(u fe) (pt, bool) {
	f := f25519
	y, ok := f.div(f.sub(u, f.small(1)), f.add(u, f.small(1)))
	if !ok {
		return pt{}, false
	}
	return eEd.liftY(y)
}

// ---------------------------------------------------------------- BLS12-381 target field, polynomial basis
// Fp2 = Fp[u]/(u^2+1), Fp6 = Fp2[v]/(v^3 - (u+1)), Fp12 = Fp6[w]/(w^2 - v); an element is 12 coefficients in the
// order of the library's Gt.Bytes(): c[((i*3)+j)*2+k] is the coefficient of w^i v^j u^k.
type fp12 [12]*big.Int

func fp12One() fp12 {
	var o fp12
	for i := range o {
		o[i] = new(big.Int)
	}
	o[0] = big.NewInt(1)
	return o
}

type f2 = fe

func (a fp12) c6(i int) [3]f2 {
	var o [3]f2
	for j := 0; j < 3; j++ {
		o[j] = f2{a[(i*3+j)*2], a[(i*3+j)*2+1]}
	}
	return o
}

var xi = fe{big.NewInt(1), big.NewInt(1)} // u + 1

func mul6(a, b [3]f2) [3]f2 {
	f := fBls2
	t := [5]f2{f.zero(), f.zero(), f.zero(), f.zero(), f.zero()}
	for i := 0; i < 3; i++ {
		for j := 0; j < 3; j++ {
			t[i+j] = f.add(t[i+j], f.mul(a[i], b[j]))
		}
	}
	// v^3 = xi
	return [3]f2{f.add(t[0], f.mul(t[3], xi)), f.add(t[1], f.mul(t[4], xi)), t[2]}
}

func add6(a, b [3]f2) [3]f2 {
	return [3]f2{fBls2.add(a[0], b[0]), fBls2.add(a[1], b[1]), fBls2.add(a[2], b[2])}
}

func mulV(a [3]f2) [3]f2 { return [3]f2{fBls2.mul(a[2], xi), a[0], a[1]} } // a * v

func mul12(a, b fp12) fp12 {
	a0, a1, b0, b1 := a.c6(0), a.c6(1), b.c6(0), b.c6(1)
	r0 := add6(mul6(a0, b0), mulV(mul6(a1, b1))) // w^2 = v
	r1 := add6(mul6(a0, b1), mul6(a1, b0))
	var o fp12
	for j := 0; j < 3; j++ {
		o[j*2], o[j*2+1] = r0[j][0], r0[j][1]
		o[(3+j)*2], o[(3+j)*2+1] = r1[j][0], r1[j][1]
	}
	return o
}

func pow12(a fp12, k *big.Int) fp12 {
	r := fp12One()
	for i := k.BitLen() - 1; i >= 0; i-- {
		r = mul12(r, r)
		if k.Bit(i) == 1 {
			r = mul12(r, a)
		}
	}
	return r
}

func (a fp12) isOne() bool {
	if a[0].Cmp(one) != 0 {
		return false
	}
	for i := 1; i < 12; i++ {
		if a[i].Sign() != 0 {
			return false
		}
	}
	return true
}

func (a fp12) str() string {
	parts := make([]string, 12)
	for i, c := range a {
		parts[i] = c.Text(16)
	}
	return strings.Join(parts, ":")
}

// ---------------------------------------------------------------- tokens
// equal strings <=> equal token; 0 is "no value"
type interner struct {
	m map[string]int
}

func (t *interner) tok(s string) int {
	if s == "" {
		return 0
	}
	if t.m == nil {
		t.m = map[string]int{}
	}
	if v, ok := t.m[s]; ok {
		return v
	}
	v := len(t.m) + 1
	t.m[s] = v
	return v
}

var toks interner

func tokBytes(b []byte) int { return toks.tok(fmt.Sprintf("b:%x", b)) }
func tokElem(kind, s string) int {
	if s == "" {
		return 0
	}
	return toks.tok(kind + ":" + s)
}

// byte helpers
func beBytes(v *big.Int, n int) []byte { return v.FillBytes(make([]byte, n)) }
func leBytes(v *big.Int, n int) []byte {
	b := beBytes(v, n)
	for i, j := 0, len(b)-1; i < j; i, j = i+1, j-1 {
		b[i], b[j] = b[j], b[i]
	}
	return b
}
func fromBE(b []byte) *big.Int { return new(big.Int).SetBytes(b) }
func fromLE(b []byte) *big.Int {
	r := make([]byte, len(b))
	for i := range b {
		r[len(b)-1-i] = b[i]
	}
	return new(big.Int).SetBytes(r)
}
func allZero(b []byte) bool {
	for _, x := range b {
		if x != 0 {
			return false
		}
	}
	return true
}

// setupMont fixes c = sqrt(-486664).  The library's constant (pkg/base/curves/curve25519/curve.go) is the NEGATIVE of
// the root RFC 7748 uses in its birational map, so the library's v-coordinates are the negatives of the RFC's (its base
// point has v = 4311...2548, not 1478...7401).  Encoding and decoding agree with each other, which is all that C13
// asks; the oracle follows the library's convention and checks the constant: c^2 = -486664 and c = -c_RFC.
func setupMont() {
	f := f25519
	montC = f.fromInts(hexInt("0f26edf460a006bbd27b08dc03fc4f7ec5a1d3d14b7d1a82cc6e04aaff457e06"))
	rfc, _ := new(big.Int).SetString("51042569399160536130206135233146329284152202253034631822681833788666877215207", 10)
	if !f.eq(f.sq(montC), f.small(-486664)) || !f.eq(f.neg(montC), f.fromInts(rfc)) {
		panic("Montgomery constant")
	}
}

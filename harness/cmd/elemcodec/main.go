// Command elemcodec is the driver of property C13 (element encodings): it runs the real encoders and decoders of
// every public curve / field type of /repo on round trips over a reference window and on crafted encodings, and
// logs - without judging - the real outcome, the independent oracle's reading of the bytes (math/big) and tokens.
// Mode toyx replays TLC-generated exact cases on the library's generic point code over a toy field (device X).
package main

import (
	"flag"
	"fmt"
	"os"
	"strings"

	"verif/harness/tr"
)

func main() {
	mode := flag.String("mode", "prod", "prod | toyx | list")
	out := flag.String("out", "trace.ndjson", "trace file")
	seed := flag.Uint64("seed", 1, "seed of the random cases")
	win := flag.Int("win", 256, "reference window |k| <= win (points)")
	fwin := flag.Int("fwin", 256, "reference window of the scalar / base fields")
	nrand := flag.Int("nrand", 16, "random strings per decoder")
	only := flag.String("only", "", "comma separated runner names (default: all)")
	// toyx
	in := flag.String("in", "", "toyx: TLC-generated cases (ndjson)")
	kind := flag.String("kind", "weier", "toyx: weier | edw")
	name := flag.String("name", "toy", "toyx: instance name")
	var p, a, b, gx, gy uint64
	flag.Uint64Var(&p, "p", 61, "toyx: field prime")
	flag.Uint64Var(&a, "a", 0, "toyx: curve coefficient a")
	flag.Uint64Var(&b, "b", 7, "toyx: curve coefficient b (Edwards: d)")
	flag.Uint64Var(&gx, "gx", 2, "toyx: generator x")
	flag.Uint64Var(&gy, "gy", 25, "toyx: generator y")
	flag.Parse()

	all := append(runners(), fieldRunners()...)
	switch *mode {
	case "list":
		for _, r := range all {
			fmt.Println(r.name)
		}
		return
	case "toyx":
		toyX(*kind, p, a, b, gx, gy, *in, *out, *name)
		return
	}
	setupMont()
	cfg := config{win: *win, fwin: *fwin, nrand: *nrand, seed: *seed, only: map[string]bool{}}
	for _, s := range strings.Split(*only, ",") {
		if s != "" {
			cfg.only[s] = true
		}
	}
	w := tr.NewW(*out)
	defer w.Close()
	w.Emit(map[string]any{"a": "hdr", "mode": "prod", "win": *win, "seed": *seed, "only": *only})
	ran := 0
	for _, r := range all {
		if len(cfg.only) > 0 && !cfg.only[r.name] {
			continue
		}
		r.run(w, cfg)
		ran++
	}
	if ran == 0 {
		fmt.Fprintln(os.Stderr, "no runner selected")
		os.Exit(2)
	}
}

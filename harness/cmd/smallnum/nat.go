package main

import (
	"github.com/bronlabs/bron-crypto/pkg/base/ct"
	"github.com/bronlabs/bron-crypto/pkg/base/nt/numct"
)

// pick the output object according to the aliasing mode: 0 fresh, 1 the x operand, 2 the y operand,
// 3 a pre-filled unrelated value (stale content must not leak into the result)
func outNat(al int, x, y *numct.Nat) *numct.Nat {
	switch al {
	case 1:
		return x
	case 2:
		return y
	case 3:
		return natc(12345, 17)
	}
	return new(numct.Nat)
}

func natBin(name string, x int64, cx int, y int64, cy int, c int, al int, f func(out, a, b *numct.Nat, c int)) {
	ev := map[string]any{"x": x, "cx": cx, "y": y, "cy": cy, "c": c, "al": al}
	safely(name, ev, func() {
		xn, yn := natc(x, cx), natc(y, cy)
		out := outNat(al, xn, yn)
		f(out, xn, yn, c)
		ev["r"] = proj(out.Big())
		ev["ra"] = out.AnnouncedLen()
		// operands after the call (an operand that is not the output must be unchanged)
		ev["xp"], ev["yp"] = proj(xn.Big()), proj(yn.Big())
		emit(name, ev)
	})
}

func runNat() {
	B := box
	// --- construction with a capacity: the value is cut to the capacity
	for x := int64(0); x <= 4*B; x++ {
		for _, c := range append(capProfiles(x), 0, 1, 2, 5) {
			n := natc(x, c)
			emit("n.set", map[string]any{"x": x, "c": c, "r": proj(n.Big()), "ra": n.AnnouncedLen(), "tl": n.TrueLen()})
		}
	}
	// --- binary operations, every pair of the box; capacities and aliasing rotate, a small box takes all profiles
	type op struct {
		name string
		f    func(out, a, b *numct.Nat, c int)
	}
	ops := []op{
		{"n.add", func(o, a, b *numct.Nat, c int) { o.AddCap(a, b, c) }},
		{"n.sub", func(o, a, b *numct.Nat, c int) { o.SubCap(a, b, c) }},
		{"n.mul", func(o, a, b *numct.Nat, c int) { o.MulCap(a, b, c) }},
		{"n.and", func(o, a, b *numct.Nat, c int) { o.AndCap(a, b, c) }},
		{"n.or", func(o, a, b *numct.Nat, c int) { o.OrCap(a, b, c) }},
		{"n.xor", func(o, a, b *numct.Nat, c int) { o.XorCap(a, b, c) }},
	}
	resCaps := func(x, y int64, sel int) int {
		need := bitlen(x*y + x + y)
		switch sel % 4 {
		case 0:
			return -1
		case 1:
			return need
		case 2:
			return need + 5
		}
		if need >= 2 {
			return need - 1
		}
		return 1
	}
	for oi, o := range ops {
		for x := int64(0); x <= B; x++ {
			for y := int64(0); y <= B; y++ {
				sel := int(x*5+y*3) + oi
				cx, cy := capOf(x, sel), capOf(y, sel/5+1)
				c := resCaps(x, y, sel/3)
				tx, ty := trunc(x, cx), trunc(y, cy)
				if o.name == "n.sub" && tx < ty && (c >= 31 || (c < 0 && max(cx, cy) >= 31)) {
					c = bitlen(x+y) + 1 // a wrapped difference must stay inside the window
				}
				natBin(o.name, x, cx, y, cy, c, sel%4, o.f)
			}
		}
		sb := min(B/3, 6)
		for x := int64(0); x <= sb; x++ {
			for y := int64(0); y <= sb; y++ {
				for _, cx := range capProfiles(x) {
					for _, cy := range capProfiles(y) {
						for _, c := range []int{-1, 3, 8, 64} {
							if o.name == "n.sub" && trunc(x, cx) < trunc(y, cy) && (c >= 31 || (c < 0 && max(cx, cy) >= 31)) {
								continue
							}
							natBin(o.name, x, cx, y, cy, c, int(x+y)%4, o.f)
						}
					}
				}
			}
		}
	}
	// --- division (constant-time and variable-time), quotient and remainder, nil remainder, aliasing
	for x := int64(0); x <= 3*B; x++ {
		for y := int64(0); y <= B+2; y++ {
			sel := int(x*3 + y)
			cx, cy := capOf(x, sel), capOf(y, sel/2)
			for _, vt := range []bool{false, true} {
				name := "n.div"
				if vt {
					name = "n.divvt"
				}
				ev := map[string]any{"x": x, "cx": cx, "y": y, "cy": cy, "al": []int{0, 1, 3}[sel%3]}
				safely(name, ev, func() {
					xn, yn := natc(x, cx), natc(y, cy)
					q := outNat([]int{0, 1, 3}[sel%3], xn, yn)
					rem := natc(77, 9)
					var ok ct.Bool
					if vt {
						ok = q.DivVarTime(rem, xn, yn)
					} else {
						ok = q.Div(rem, xn, yn)
					}
					ev["ok"] = b2i(ok)
					ev["q"], ev["rem"] = proj(q.Big()), proj(rem.Big())
					ev["qa"], ev["rema"] = q.AnnouncedLen(), rem.AnnouncedLen()
					ev["xp"], ev["yp"] = proj(xn.Big()), proj(yn.Big())
					emit(name, ev)
				})
			}
		}
	}
	// --- gcd / lcm / coprime (Stein gcd is the repository's own algorithm): all pairs, all capacity profiles on the small box
	for x := int64(0); x <= 2*B; x++ {
		for y := int64(0); y <= 2*B; y++ {
			prof := [][2]int{{capOf(x, int(x+y)), capOf(y, int(x*y))}}
			if x <= 8 && y <= 8 {
				prof = nil
				for _, cx := range capProfiles(x) {
					for _, cy := range capProfiles(y) {
						prof = append(prof, [2]int{cx, cy})
					}
				}
			}
			for _, p := range prof {
				cx, cy := p[0], p[1]
				al := int(x+2*y) % 4
				natBin("n.gcd", x, cx, y, cy, -1, al, func(o, a, b *numct.Nat, _ int) { o.GCD(a, b) })
				ev := map[string]any{"x": x, "cx": cx, "y": y, "cy": cy}
				safely("n.coprime", ev, func() {
					ev["r"] = b2i(natc(x, cx).Coprime(natc(y, cy)))
					emit("n.coprime", ev)
				})
				natBin("n.lcm", x, cx, y, cy, -1, al, func(o, a, b *numct.Nat, _ int) { numct.LCM(o, a, b) })
			}
		}
	}
	// --- comparisons and predicates
	for x := int64(0); x <= B; x++ {
		for y := int64(0); y <= B; y++ {
			cx, cy := capOf(x, int(x+y)), capOf(y, int(x))
			xn, yn := natc(x, cx), natc(y, cy)
			lt, eq, gt := xn.Compare(yn)
			emit("n.cmp", map[string]any{"x": x, "cx": cx, "y": y, "cy": cy, "lt": b2i(lt), "eq": b2i(eq), "gt": b2i(gt), "eq2": b2i(xn.Equal(yn))})
			// select / condassign
			var s numct.Nat
			s.Select(ct.Choice(x%2), xn, yn)
			d := natc(x, cx)
			d.CondAssign(ct.Choice(y%2), yn)
			emit("n.select", map[string]any{"x": x, "cx": cx, "y": y, "cy": cy, "ch": x % 2, "r": proj(s.Big()), "ch2": y % 2, "r2": proj(d.Big())})
		}
	}
	for x := int64(0); x <= 40*B; x++ {
		for _, cx := range []int{capOf(x, 0), capOf(x, 1), capOf(x, 2), capOf(x, 3)} {
			xn := natc(x, cx)
			ev := map[string]any{"x": x, "cx": cx, "zero": b2i(xn.IsZero()), "nz": b2i(xn.IsNonZero()), "one": b2i(xn.IsOne()),
				"odd": b2i(xn.IsOdd()), "even": b2i(xn.IsEven()), "tl": xn.TrueLen(), "al": xn.AnnouncedLen(), "u64": proj(bi(int64(xn.Uint64()))),
				"prime": b2i(xn.IsProbablyPrime()), "bytes": bytesList(xn.Bytes()), "b0": int(xn.Byte(0)), "b1": int(xn.Byte(1)),
				"bit0": int(xn.Bit(0)), "bit3": int(xn.Bit(3)), "bit9": int(xn.Bit(9))}
			buf := make([]byte, 4)
			if cx <= 32 {
				ev["fill"] = bytesList(xn.FillBytes(buf))
			} else {
				ev["fill"] = []int{}
			}
			var sq numct.Nat
			sq.Set(natc(99, 7))
			ok := sq.Sqrt(xn)
			ev["sqok"], ev["sq"] = b2i(ok), proj(sq.Big())
			var dbl, inc, dec, cl numct.Nat
			dbl.Double(xn)
			inc.Set(xn)
			inc.Increment()
			dec.Set(xn)
			if x > 0 || cx < 31 {
				dec.Decrement()
			}
			cl.Set(xn.Clone())
			ev["dbl"], ev["inc"], ev["dec"], ev["deca"], ev["clone"] = proj(dbl.Big()), proj(inc.Big()), proj(dec.Big()), dec.AnnouncedLen(), proj(cl.Big())
			ev["lift"] = proj(xn.Lift().Big())
			emit("n.pred", ev)
		}
	}
	// --- bytes in
	for _, bs := range [][]byte{{}, {0}, {1}, {0, 1}, {1, 0}, {0, 0, 7}, {255}, {1, 255}, {127, 255}, {0, 128, 0}, {3, 2, 1}} {
		n := numct.NewNatFromBytes(bs)
		var m numct.Nat
		ok := m.SetBytes(bs)
		emit("n.setbytes", map[string]any{"bytes": bytesList(bs), "r": proj(n.Big()), "ra": n.AnnouncedLen(), "r2": proj(m.Big()), "ok": b2i(ok)})
	}
	// --- shifts, not, setbit, resize
	for x := int64(0); x <= 2*B; x++ {
		for s := uint(0); s <= 9; s++ {
			cx := capOf(x, int(x)+int(s))
			tx := trunc(x, capOf(x, int(x)+int(s)))
			for _, c := range []int{-1, bitlen(tx) + int(s), bitlen(tx) + int(s) + 3, 64} { // capacities below the needed length are cut at limb granularity by saferith: not exercised
				al := int(x+int64(s)) % 2
				ev := map[string]any{"x": x, "cx": cx, "s": s, "c": c, "al": al}
				safely("n.lsh", ev, func() {
					xn := natc(x, cx)
					o := outNat(al, xn, nil)
					o.LshCap(xn, s, c)
					ev["r"], ev["ra"] = proj(o.Big()), o.AnnouncedLen()
					emit("n.lsh", ev)
				})
				if c < 0 || c >= bitlen(tx>>s) {
					if c >= 0 {
						c = max(bitlen(tx>>s), c-int(s)-1)
					}
					ev2 := map[string]any{"x": x, "cx": cx, "s": s, "c": c, "al": al}
					safely("n.rsh", ev2, func() {
						xn := natc(x, cx)
						o := outNat(al, xn, nil)
						o.RshCap(xn, s, c)
						ev2["r"], ev2["ra"] = proj(o.Big()), o.AnnouncedLen()
						emit("n.rsh", ev2)
					})
				}
			}
		}
		for _, cx := range []int{bitlen(x), bitlen(x) + 3, 11} {
			if cx > 20 {
				continue
			}
			for _, c := range []int{-1, cx, cx + 2} {
				xn := natc(x, cx)
				var o numct.Nat
				if c == -1 {
					o.Not(xn)
				} else {
					o.NotCap(xn, c)
				}
				emit("n.not", map[string]any{"x": x, "cx": cx, "c": c, "r": proj(o.Big()), "ra": o.AnnouncedLen()})
			}
			for _, i := range []int{0, 1, cx - 1, cx, cx + 3} {
				if i < 0 {
					continue
				}
				for bb := uint(0); bb <= 1; bb++ {
					xn := natc(x, cx)
					xn.SetBit(i, bb)
					emit("n.setbit", map[string]any{"x": x, "cx": cx, "i": i, "bit": bb, "r": proj(xn.Big()), "ra": xn.AnnouncedLen()})
				}
			}
			for _, c := range []int{-1, cx, cx + 1, 64, 128} {
				xn := natc(x, cx)
				xn.Resize(c)
				emit("n.resize", map[string]any{"x": x, "cx": cx, "c": c, "r": proj(xn.Big()), "ra": xn.AnnouncedLen()})
			}
		}
	}
	// --- random ranges: the value the code chose is read from the log and only constrained
	r := rng(11)
	for lo := int64(0); lo <= 6; lo++ {
		for hi := int64(0); hi <= 9; hi++ {
			var n numct.Nat
			err := n.SetRandomRangeLH(natc(lo, capNT(lo, int(hi))), natc(hi, capNT(hi, int(lo))), r)
			emit("n.rand", map[string]any{"lo": lo, "hi": hi, "ok": err == nil, "r": proj(n.Big())})
		}
	}
}

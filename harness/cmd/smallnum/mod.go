package main

import (
	"github.com/bronlabs/bron-crypto/pkg/base/ct"
	"github.com/bronlabs/bron-crypto/pkg/base/nt/numct"
)

func mkMod(m int64, cm int) (*numct.Modulus, bool) {
	mm, ok := numct.NewModulus(natc(m, cm))
	return mm, b2i(ok)
}

// runMod: numct.Modulus (purego: saferith-based ModulusBasic) with operands below, at and above the modulus.
func runMod() {
	B := box
	emit("m.new", map[string]any{"m": 0, "ok": func() bool { _, ok := mkMod(0, 3); return ok }(), "bl": 0, "nat": 0})
	for m := int64(1); m <= B; m++ {
		for ci, cm := range []int{bitlen(m), bitlen(m) + 5, 64} {
			mod, ok := mkMod(m, cm)
			var sn numct.ModulusBasic
			sok := sn.SetNat(natc(m, cm))
			emit("m.new", map[string]any{"m": m, "cm": cm, "ok": ok, "bl": mod.BitLen(), "nat": proj(mod.Nat().Big()), "bytes": bytesList(mod.Bytes()),
				"setnat": b2i(sok), "setnatv": proj(sn.Nat().Big())})
			if ci != int(m)%3 { // one capacity profile of the modulus per modulus for the bulk
				continue
			}
			hi := 2*m + 3
			// unary
			for x := int64(0); x <= hi; x++ {
				cx := capOf(x, int(x+m))
				ev := map[string]any{"m": m, "x": x, "cx": cx}
				safely("m.un", ev, func() {
					xn := natc(x, cx)
					var red, neg, inv, quo numct.Nat
					var sym numct.Int
					mod.Mod(&red, xn)
					mod.ModNeg(&neg, xn)
					inv.Set(natc(123, 9))
					iok := mod.ModInv(&inv, xn)
					mod.Quo(&quo, xn)
					mod.ModSymmetric(&sym, xn)
					ev["red"], ev["neg"], ev["invok"], ev["inv"], ev["quo"], ev["sym"] = proj(red.Big()), proj(neg.Big()), b2i(iok), proj(inv.Big()), proj(quo.Big()), proj(sym.Big())
					ev["inr"], ev["unit"] = b2i(mod.IsInRange(xn)), b2i(mod.IsUnit(xn))
					// aliasing: out == x
					a1, a2 := natc(x, cx), natc(x, cx)
					mod.Mod(a1, a1)
					mod.ModNeg(a2, a2)
					ev["redal"], ev["negal"] = proj(a1.Big()), proj(a2.Big())
					a3 := natc(x, cx)
					ev["invalok"] = b2i(mod.ModInv(a3, a3))
					ev["inval"] = proj(a3.Big())
					emit("m.un", ev)
				})
			}
			for x := int64(0); x <= hi; x++ {
				cx := capOf(x, int(x+m))
				ev := map[string]any{"m": m, "x": x, "cx": cx, "al": x % 2}
				safely("m.sqrt", ev, func() {
					xn := natc(x, cx)
					rt := natc(123, 9)
					if x%2 == 1 {
						rt = xn
					}
					sok := mod.ModSqrt(rt, xn)
					ev["ok"], ev["r"] = b2i(sok), proj(rt.Big())
					emit("m.sqrt", ev)
				})
			}
			// signed operands
			for x := -hi; x <= hi; x++ {
				cx := capOf(x, int(x+m+100))
				xi := intc(x, cx)
				var red numct.Nat
				mod.ModI(&red, xi)
				emit("m.modi", map[string]any{"m": m, "x": x, "cx": cx, "red": proj(red.Big()), "insym": b2i(mod.IsInRangeSymmetric(xi))})
			}
			// binary
			for x := int64(0); x <= hi; x++ {
				for y := int64(0); y <= hi; y++ {
					sel := int(x*3 + y + m)
					cx, cy := capOf(x, sel), capOf(y, sel/3)
					al := sel % 4
					ev := map[string]any{"m": m, "x": x, "cx": cx, "y": y, "cy": cy, "al": al}
					safely("m.bin", ev, func() {
						f := func(g func(o, a, b *numct.Nat)) int64 {
							xn, yn := natc(x, cx), natc(y, cy)
							o := outNat(al, xn, yn)
							g(o, xn, yn)
							return proj(o.Big())
						}
						ev["add"] = f(func(o, a, b *numct.Nat) { mod.ModAdd(o, a, b) })
						ev["sub"] = f(func(o, a, b *numct.Nat) { mod.ModSub(o, a, b) })
						ev["mul"] = f(func(o, a, b *numct.Nat) { mod.ModMul(o, a, b) })
						var dok ct.Bool
						ev["div"] = f(func(o, a, b *numct.Nat) { dok = mod.ModDiv(o, a, b) })
						ev["divok"] = b2i(dok)
						ev["exp"] = f(func(o, a, b *numct.Nat) { mod.ModExp(o, a, b) })
						emit("m.bin", ev)
					})
				}
				// signed exponents
				for e := -6 - m; e <= 6+m; e++ {
					ce := capOf(e, int(e+100))
					ev := map[string]any{"m": m, "x": x, "cx": capOf(x, int(x)), "e": e, "ce": ce}
					safely("m.expi", ev, func() {
						var o numct.Nat
						mod.ModExpI(&o, natc(x, capOf(x, int(x))), intc(e, ce))
						ev["r"] = proj(o.Big())
						emit("m.expi", ev)
					})
				}
			}
			// multi-base exponentiation
			for e := int64(0); e <= 5; e++ {
				bases := []*numct.Nat{natc(0, 1), natc(1, 1), natc(2, 2), natc(m-1, 8), natc(m+1, 8), natc(2*m+1, 9)}
				outs := make([]*numct.Nat, len(bases))
				for i := range outs {
					outs[i] = new(numct.Nat)
				}
				ev := map[string]any{"m": m, "e": e, "bases": []int64{0, 1, 2, m - 1, m + 1, 2*m + 1}}
				safely("m.multiexp", ev, func() {
					mod.ModMultiBaseExp(outs, bases, natc(e, 4))
					rs := make([]int64, len(outs))
					for i, o := range outs {
						rs[i] = proj(o.Big())
					}
					ev["rs"] = rs
					emit("m.multiexp", ev)
				})
			}
			// random element
			rr := rng(uint64(100 + m))
			for i := 0; i < 3; i++ {
				v, err := mod.Random(rr)
				if err == nil {
					emit("m.rand", map[string]any{"m": m, "r": proj(v.Big())})
				}
			}
		}
	}
	for _, bs := range [][]byte{{}, {0}, {0, 0}, {7}, {0, 9}, {1, 0}} {
		mod, ok := numct.NewModulusFromBytesBE(bs)
		ev := map[string]any{"bytes": bytesList(bs), "ok": b2i(ok), "nat": 0}
		if b2i(ok) {
			ev["nat"] = proj(mod.Nat().Big())
		}
		emit("m.frombytes", ev)
	}
}

package main

import (
	"math/big"
	"time"

	"github.com/bronlabs/bron-crypto/pkg/base/ct"
	"github.com/bronlabs/bron-crypto/pkg/base/nt"
	"github.com/bronlabs/bron-crypto/pkg/base/nt/crt"
	"github.com/bronlabs/bron-crypto/pkg/base/nt/modular"
	"github.com/bronlabs/bron-crypto/pkg/base/nt/num"
	"github.com/bronlabs/bron-crypto/pkg/base/nt/numct"
	"github.com/bronlabs/bron-crypto/pkg/base/nt/znstar"
)

// ---------------------------------------------------------------- crt
func runCRT() {
	B := box
	for p := int64(2); p <= B; p++ { // modulus 1 is the zero ring: nothing is claimed
		for q := int64(2); q <= B; q++ {
			cp, cq := capNT(p, int(p+q)), capNT(q, int(p))
			ev := map[string]any{"p": p, "q": q}
			safely("crt.pre", ev, func() {
				prm, ok := crt.Precompute(natc(p, cp), natc(q, cq))
				ev["ok"] = b2i(ok)
				ev["qinv"] = proj(prm.QInv.Big())
				px, okx := crt.PrecomputePairExtended(natc(p, cp), natc(q, cq))
				ev["okx"], ev["mx"] = b2i(okx), proj(px.Modulus().Nat().Big())
				pm, pok := numct.NewModulus(natc(p, cp))
				qm, qok := numct.NewModulus(natc(q, cq))
				_ = pok & qok
				pe, oke := crt.NewParamsExtended(pm, qm)
				ev["oke"], ev["qinve"] = b2i(oke), proj(pe.QInv.Big())
				emit("crt.pre", ev)
				if !b2i(ok) {
					return
				}
				// every residue pair, also residues at and above the moduli; decomposition of every m below p*q
				for mp := int64(0); mp <= p+1; mp++ {
					for mq := int64(0); mq <= q+1; mq++ {
						sel := int(mp + mq)
						r1 := prm.Recombine(natc(mp, capNT(mp, sel)), natc(mq, capNT(mq, sel/2)))
						r2, ok2 := crt.Recombine(natc(mp, capNT(mp, sel/2)), natc(mq, capNT(mq, sel)), natc(p, cp), natc(q, cq))
						r3 := pe.Recombine(natc(mp, 64), natc(mq, 64))
						emit("crt.rec", map[string]any{"p": p, "q": q, "mp": mp, "mq": mq,
							"r1": proj(r1.Big()), "r2": proj(r2.Big()), "ok2": b2i(ok2), "r3": proj(r3.Big())})
					}
				}
				if p*q <= 400 {
					for m := int64(1); m < p*q+3; m++ {
						mm, _ := numct.NewModulus(natc(m, capNT(m, int(m))))
						dp, dq := px.Decompose(mm)
						sp, sq := px.DecomposeSerial(mm)
						pp, pq := px.DecomposeParallel(mm)
						emit("crt.dec", map[string]any{"p": p, "q": q, "m": m, "dp": proj(dp.Big()), "dq": proj(dq.Big()), "sp": proj(sp.Big()), "sq": proj(sq.Big()), "pp": proj(pp.Big()), "pq": proj(pq.Big())})
					}
				}
			})
		}
	}
	// multi-factor
	fsets := [][]int64{{2, 3}, {2, 3, 5}, {3, 4, 5}, {2, 3, 5, 7}, {3, 5, 7, 11, 2}, {4, 9, 5, 7, 11}, {2, 4}, {6, 9, 5}, {5}, {1, 2, 3}, {7, 2, 3, 5, 11, 13}}
	for fi, fs := range fsets {
		ev := map[string]any{"fs": fs}
		safely("crt.multipre", ev, func() {
			nats := make([]*numct.Nat, len(fs))
			for i, f := range fs {
				nats[i] = natc(f, capNT(f, i+fi))
			}
			prm, ok := crt.PrecomputeMulti(nats...)
			ev["ok"] = b2i(ok)
			emit("crt.multipre", ev)
			if !b2i(ok) {
				return
			}
			prod := int64(1)
			for _, f := range fs {
				prod *= f
			}
			step := int64(1)
			if prod > 600 {
				step = prod/600 + 1
			}
			for x := int64(0); x < prod; x += step {
				rs := make([]*numct.Nat, len(fs))
				ri := make([]int64, len(fs))
				for i, f := range fs {
					ri[i] = x % f
					if (x+int64(i))%5 == 0 {
						ri[i] += f // residue above the modulus
					}
					rs[i] = natc(ri[i], 64)
				}
				s, oks := prm.RecombineSerial(rs...)
				p, okp := prm.RecombineParallel(rs...)
				g, okg := prm.Recombine(rs...)
				mm, _ := numct.NewModulus(natc(x+1, 64))
				dec := prm.Decompose(mm)
				di := make([]int64, len(dec))
				for i, d := range dec {
					di[i] = proj(d.Big())
				}
				emit("crt.multi", map[string]any{"fs": fs, "rs": ri, "s": proj(s.Big()), "oks": b2i(oks), "p": proj(p.Big()), "okp": b2i(okp), "g": proj(g.Big()), "okg": b2i(okg),
					"m": x + 1, "dec": di})
			}
			_, okbad := prm.Recombine(natc(1, 1))
			emit("crt.multibad", map[string]any{"fs": fs, "ok": b2i(okbad)})
		})
	}
}

// ---------------------------------------------------------------- modular
type arith interface {
	ModMul(out, a, b *numct.Nat)
	ModDiv(out, a, b *numct.Nat) ct.Bool
	ModExp(out, base, exp *numct.Nat)
	ModExpI(out, base *numct.Nat, exp *numct.Int)
	MultiBaseExp(out []*numct.Nat, bases []*numct.Nat, exp *numct.Nat)
	ModInv(out, a *numct.Nat) ct.Bool
	Modulus() *numct.Modulus
}

func driveArith(kind string, a arith, p, q, m int64, full bool) {
	step := int64(1)
	if !full && m > 200 {
		step = m/xcount + 1
	}
	for x := int64(0); x < m+3; x += step {
		ev := map[string]any{"kind": kind, "p": p, "q": q, "m": m, "x": x}
		safely("ar.un", ev, func() {
			var inv numct.Nat
			ok := a.ModInv(&inv, natc(x, capNT(x, int(x))))
			ev["invok"], ev["inv"] = b2i(ok), proj(inv.Big())
			ev["mod"] = proj(a.Modulus().Nat().Big())
			emit("ar.un", ev)
		})
		ystep := step
		if !full {
			ystep = m/12 + 1
		}
		for y := int64(0); y < m+2; y += ystep {
			ev := map[string]any{"kind": kind, "p": p, "q": q, "m": m, "x": x, "y": y}
			safely("ar.bin", ev, func() {
				var mul, div numct.Nat
				a.ModMul(&mul, natc(x, 64), natc(y, 64))
				dok := a.ModDiv(&div, natc(x, 64), natc(y, 64))
				ev["mul"], ev["divok"], ev["div"] = proj(mul.Big()), b2i(dok), proj(div.Big())
				emit("ar.bin", ev)
			})
		}
		for _, e := range []int64{0, 1, 2, 3, 5, p - 1, p, q, (p - 1) * (q - 1), p * q, p*q + 1, 2*m + 1} {
			if e < 0 || e > 32000 {
				continue
			}
			ev := map[string]any{"kind": kind, "p": p, "q": q, "m": m, "x": x, "e": e}
			safely("ar.exp", ev, func() {
				var ex, ep numct.Nat
				a.ModExp(&ex, natc(x, 64), natc(e, capNT(e, int(e))))
				a.ModExpI(&ep, natc(x, 64), intc(e, 64))
				ev["exp"], ev["exppos"] = proj(ex.Big()), proj(ep.Big())
				emit("ar.exp", ev)
			})
			ev2 := map[string]any{"kind": kind, "p": p, "q": q, "m": m, "x": x, "e": -e}
			safely("ar.expneg", ev2, func() {
				var en numct.Nat
				a.ModExpI(&en, natc(x, 64), intc(-e, 64))
				ev2["r"] = proj(en.Big())
				emit("ar.expneg", ev2)
			})
		}
	}
	for _, e := range []int64{0, 1, 7, m} {
		bs := []int64{0, 1, 2, m - 1, m + 2, p, q}
		bases, outs := make([]*numct.Nat, len(bs)), make([]*numct.Nat, len(bs))
		for i, b := range bs {
			bases[i], outs[i] = natc(b, 64), new(numct.Nat)
		}
		ev := map[string]any{"kind": kind, "p": p, "q": q, "m": m, "e": e, "bases": bs}
		safely("ar.multiexp", ev, func() {
			a.MultiBaseExp(outs, bases, natc(e, 64))
			rs := make([]int64, len(outs))
			for i, o := range outs {
				rs[i] = proj(o.Big())
			}
			ev["rs"] = rs
			emit("ar.multiexp", ev)
		})
	}
}

var xcount = int64(150)

func runModular() {
	B := box
	primes := []int64{3, 5, 7, 11, 13}
	quick := B <= 12
	if quick {
		xcount = 24
	}
	for m := int64(1); m <= min(B+4, 40); m++ {
		mm, _ := numct.NewModulus(natc(m, bitlen(m)))
		s, ok := modular.NewSimple(mm)
		emit("ar.new", map[string]any{"kind": "simple", "p": 0, "q": 0, "m": m, "ok": b2i(ok)})
		driveArith("simple", s, 1, m, m, true)
		if m <= 14 {
			l, lok := s.Lift()
			emit("ar.new", map[string]any{"kind": "simplelift", "p": m, "q": m, "m": m * m, "ok": b2i(lok)})
			driveArith("simple", l, m, m, m*m, m <= 6)
		}
	}
	// constructor verdicts on every small pair (primality, distinctness, oddness)
	for p := int64(1); p <= 16; p++ {
		for q := int64(1); q <= 16; q++ {
			e1 := map[string]any{"kind": "opf", "p": p, "q": q, "m": p * q}
			safely("ar.new", e1, func() {
				_, ok := modular.NewOddPrimeFactors(natc(p, 8), natc(q, 8))
				e1["ok"] = b2i(ok)
				emit("ar.new", e1)
			})
			e2 := map[string]any{"kind": "opsf", "p": p, "q": q, "m": p * q * p * q}
			safely("ar.new", e2, func() {
				_, ok2 := modular.NewOddPrimeSquareFactors(natc(p, 8), natc(q, 8))
				e2["ok"] = b2i(ok2)
				emit("ar.new", e2)
			})
		}
		e3 := map[string]any{"kind": "ops", "p": p, "q": p, "m": p * p}
		safely("ar.new", e3, func() {
			_, ok := modular.NewOddPrimeSquare(natc(p, 8))
			e3["ok"] = b2i(ok)
			emit("ar.new", e3)
		})
	}
	for i, p := range primes {
		for j, q := range primes {
			if i == j || (quick && (i+2*j)%3 != 0 && !(p == 11 && q == 13)) {
				continue
			}
			f, ok := modular.NewOddPrimeFactors(natc(p, 8), natc(q, 8))
			if !b2i(ok) {
				continue
			}
			driveArith("opf", f, p, q, p*q, p*q <= 35)
			if p*q > 143 {
				continue
			}
			sf, ok := modular.NewOddPrimeSquareFactors(natc(p, 8), natc(q, 8))
			if !b2i(ok) {
				continue
			}
			n2 := p * q * p * q
			driveArith("opsf", sf, p, q, n2, false)
			lf, lok := f.Lift()
			emit("ar.new", map[string]any{"kind": "opflift", "p": p, "q": q, "m": n2, "ok": b2i(lok)})
			step := n2/300 + 1
			for x := int64(0); x < n2; x += step {
				var en, lp, lq, en2 numct.Nat
				sf.ExpToN(&en, natc(x, 64))
				lf.ExpToN(&en2, natc(x, 64))
				ev := map[string]any{"p": p, "q": q, "x": x, "expn": proj(en.Big()), "expn2": proj(en2.Big())}
				if x%p != 0 && x%q != 0 {
					sf.FermatQuotient(&lp, &lq, natc(x, 64))
					ev["fq"], ev["lp"], ev["lq"] = true, proj(lp.Big()), proj(lq.Big())
				} else {
					ev["fq"], ev["lp"], ev["lq"] = false, 0, 0
				}
				emit("ar.paillier", ev)
			}
		}
	}
}

// ---------------------------------------------------------------- znstar
func runZnstar() {
	pairs := [][2]int64{{3, 3}, {3, 5}, {5, 7}, {7, 5}, {11, 13}, {5, 11}, {4, 7}, {9, 11}, {2, 3}, {3, 2}, {13, 11}, {19, 23}}
	for _, pq := range pairs {
		p, q := pq[0], pq[1]
		ev := map[string]any{"p": p, "q": q}
		g, err := znstar.NewRSAGroup(nP(p), nP(q))
		ev["ok"] = err == nil
		pg, err2 := znstar.NewPaillierGroup(nP(p), nP(q))
		ev["pok"] = err2 == nil
		emit("zn.new", ev)
		if err != nil {
			continue
		}
		n := p * q
		gu := g.ForgetOrder()
		for x := int64(0); x <= n+1; x++ {
			ev := map[string]any{"p": p, "q": q, "n": n, "x": x}
			safely("zn.un", ev, func() {
				e, err := g.FromUint64(uint64(x))
				ev["unit"] = err == nil
				_, erru := gu.FromNatCT(natc(x, 64))
				ev["unitu"] = erru == nil
				if err != nil {
					ev["v"], ev["inv"], ev["jac"], ev["qr"], ev["jacu"], ev["tfu"] = 0, 0, 0, false, 0, false
					emit("zn.un", ev)
					return
				}
				ev["v"] = proj(e.Value().Big())
				ev["inv"] = proj(e.Inv().Value().Big())
				j, _ := e.Jacobi()
				qr, _ := g.IsQuadraticResidue(e)
				ev["jac"], ev["qr"] = j, qr
				eu := e.ForgetOrder()
				ju, _ := eu.Jacobi()
				ev["jacu"], ev["tfu"] = ju, eu.IsTorsionFree()
				ev["sq"], ev["squ"] = proj(e.Square().Value().Big()), proj(eu.Square().Value().Big())
				emit("zn.un", ev)
				for _, y := range []int64{1, 2, x, n - 1, (x*7 + 3) % n} {
					f, err := g.FromUint64(uint64(y))
					if err != nil {
						continue
					}
					fu := f.ForgetOrder()
					emit("zn.bin", map[string]any{"p": p, "q": q, "n": n, "x": x % n, "y": y % n, "mul": proj(e.Mul(f).Value().Big()), "mulu": proj(eu.Mul(fu).Value().Big()),
						"div": proj(e.Div(f).Value().Big()), "divu": proj(eu.Div(fu).Value().Big())})
				}
				for _, k := range []int64{0, 1, 2, -1, -2, 5, -7, (p - 1) * (q - 1), n, -n, 2*n + 1} {
					emit("zn.exp", map[string]any{"p": p, "q": q, "n": n, "x": x % n, "e": k, "r": proj(e.ExpI(nZ(k, 64)).Value().Big()), "ru": proj(eu.ExpI(nZ(k, 64)).Value().Big()),
						"rb": proj(e.ExpIBounded(nZ(k, 64), 2).Value().Big())})
				}
			})
		}
		if err2 != nil || n > 143 {
			continue
		}
		// Paillier group: representative, N-th residue (CRT fast path against the plain path), embedding
		pu := pg.ForgetOrder()
		zn, _ := num.NewZMod(nP(n))
		for x := int64(0); x < n; x++ {
			ev := map[string]any{"p": p, "q": q, "n": n, "x": x}
			safely("zn.pail", ev, func() {
				rep, err := pg.Representative(zn.FromUint64(uint64(x)))
				repu, erru := pu.Representative(zn.FromUint64(uint64(x)))
				ev["repok"], ev["repuok"] = err == nil, erru == nil
				ev["rep"], ev["repu"] = proj(rep.Value().Big()), proj(repu.Value().Big())
				r, err := gu.FromUint64(uint64(x))
				ev["unit"] = err == nil
				if err == nil {
					em, _ := pg.EmbedRSA(r)
					emu, _ := pu.EmbedRSA(r)
					nr, _ := pg.NthResidue(em)
					nru, _ := pu.NthResidue(emu)
					ev["emb"], ev["nth"], ev["nthu"] = proj(em.Value().Big()), proj(nr.Value().Big()), proj(nru.Value().Big())
				} else {
					ev["emb"], ev["nth"], ev["nthu"] = 0, 0, 0
				}
				emit("zn.pail", ev)
			})
		}
	}
}

// ---------------------------------------------------------------- Jacobi
func runJacobi() {
	B := box
	for y := int64(1); y <= 2*B+1; y++ {
		yp := nP(y)
		for x := -3*B - y; x <= 3*B+y; x++ {
			ev := map[string]any{"x": x, "y": y}
			safely("jacobi", ev, func() {
				j, err := nt.Jacobi(nZ(x, capNT(x, int(x+y)+500)), yp)
				ev["ok"], ev["j"] = err == nil, j
				emit("jacobi", ev)
			})
		}
	}
	// larger odd moduli, numerators around multiples of the modulus and far below zero
	for _, y := range []int64{45, 51, 63, 75, 91, 99, 105, 121, 143, 169, 255, 1001, 1155, 3465, 4199, 32761} {
		yp := nP(y)
		for _, x0 := range []int64{0, y, -y, 2 * y, -2 * y, 7 * y, -7 * y, 32000, -32000} {
			for d := int64(-12); d <= 12; d++ {
				x := x0 + d
				if x > 32767 || x < -32767 {
					continue
				}
				ev := map[string]any{"x": x, "y": y}
				safely("jacobi", ev, func() {
					j, err := nt.Jacobi(nZ(x, 64), yp)
					ev["ok"], ev["j"] = err == nil, j
					emit("jacobi", ev)
				})
			}
		}
	}
}

// ---------------------------------------------------------------- primes
func runPrimes(bigSizes bool) {
	// values below 2^31 are logged and judged by the specification's trial division;
	// larger ones are logged as math/big verdicts (independent oracle) and bit lengths.
	emitP := func(name string, bits uint, err error, vals ...*big.Int) {
		ev := map[string]any{"bits": bits, "ok": err == nil}
		small := true
		for _, v := range vals {
			if v == nil || v.BitLen() > 30 {
				small = false
			}
		}
		ev["small"] = small
		vs, pr, bl, m4, sg := []int64{}, []bool{}, []int{}, []int64{}, []bool{}
		for _, v := range vals {
			if v == nil {
				continue
			}
			if small {
				vs = append(vs, v.Int64())
			}
			pr = append(pr, v.ProbablyPrime(32))
			bl = append(bl, v.BitLen())
			m4 = append(m4, new(big.Int).Mod(v, bi(4)).Int64())
			h := new(big.Int).Rsh(v, 1)
			sg = append(sg, h.ProbablyPrime(32))
		}
		ev["v"], ev["prime"], ev["bl"], ev["mod4"], ev["halfprime"] = vs, pr, bl, m4, sg
		if len(vals) == 2 && vals[0] != nil && vals[1] != nil {
			ev["nbl"] = new(big.Int).Mul(vals[0], vals[1]).BitLen()
			ev["distinct"] = vals[0].Cmp(vals[1]) != 0
		}
		emit(name, ev)
	}
	bg := func(p *num.NatPlus) *big.Int {
		if p == nil {
			return nil
		}
		return p.Big()
	}
	reps := 6
	for bits := uint(2); bits <= 30; bits++ {
		for i := 0; i < reps; i++ {
			p, err := nt.GeneratePrime(num.NPlus(), bits, rng(uint64(1000+int(bits)*10+i)))
			emitP("pr.prime", bits, err, bg(p))
		}
	}
	for _, keyLen := range []uint{10, 12, 16, 20, 24, 30, 32, 40, 48, 60} { // keyLen 8 admits only p = q = 13 and the generator loops forever there
		for i := 0; i < 3; i++ {
			p, q, err := nt.GeneratePrimePair(num.NPlus(), keyLen, rng(uint64(2000+int(keyLen)*10+i)))
			emitP("pr.pair", keyLen, err, bg(p), bg(q))
		}
	}
	_, _, err := nt.GeneratePrimePair(num.NPlus(), 33, rng(1))
	emit("pr.pairodd", map[string]any{"bits": 33, "ok": err == nil})
	for bits := uint(14); bits <= 30; bits++ {
		for i := 0; i < 3; i++ {
			p, err := nt.GenerateBlumPrime(num.NPlus(), bits, rng(uint64(3000+int(bits)*10+i)))
			emitP("pr.blum", bits, err, bg(p))
		}
		if bits <= 24 {
			s, err := nt.GenerateSafePrime(num.NPlus(), bits, rng(uint64(4000+int(bits)*10)))
			emitP("pr.safe", bits, err, bg(s))
		}
	}
	// pair generators may spin forever when the single-prime generator misses the requested length:
	// each call gets a deadline and a missed deadline is logged as an event (hang = true).
	timedPair := func(name string, keyLen uint, f func() (*num.NatPlus, *num.NatPlus, error)) {
		type res struct {
			p, q *num.NatPlus
			err  error
		}
		ch := make(chan res, 1)
		go func() {
			p, q, err := f()
			ch <- res{p, q, err}
		}()
		select {
		case r := <-ch:
			emitP(name, keyLen, r.err, bg(r.p), bg(r.q))
		case <-time.After(6 * time.Second):
			emit(name, map[string]any{"bits": keyLen, "ok": false, "hang": true, "small": false, "v": []int64{}, "prime": []bool{}, "bl": []int{}, "mod4": []int64{}, "halfprime": []bool{}})
		}
	}
	for _, keyLen := range []uint{32, 40, 48} {
		timedPair("pr.blumpair", keyLen, func() (*num.NatPlus, *num.NatPlus, error) {
			return nt.GenerateBlumPrimePair(num.NPlus(), keyLen, rng(uint64(5000+int(keyLen))))
		})
		timedPair("pr.safepair", keyLen, func() (*num.NatPlus, *num.NatPlus, error) {
			return nt.GenerateSafePrimePair(num.NPlus(), keyLen, rng(uint64(6000+int(keyLen))))
		})
	}
	_, _, err = nt.GenerateBlumPrimePair(num.NPlus(), 30, rng(1))
	emit("pr.pairsmall", map[string]any{"kind": "blum", "bits": 30, "ok": err == nil})
	_, _, err = nt.GenerateSafePrimePair(num.NPlus(), 30, rng(1))
	emit("pr.pairsmall", map[string]any{"kind": "safe", "bits": 30, "ok": err == nil})
	for _, bits := range []uint{1, 16, 63, 64, 65, 127, 128, 255, 256, 511, 512, 1023, 1024, 2047, 2048, 3072, 4095, 4096, 8192} {
		emit("pr.mrchecks", map[string]any{"bits": bits, "n": nt.MillerRabinChecks(bits)})
	}
	if bigSizes {
		for _, bits := range []uint{64, 128, 256, 512} {
			p, err := nt.GeneratePrime(num.NPlus(), bits, rng(uint64(7000+int(bits))))
			emitP("pr.prime", bits, err, bg(p))
			b, err := nt.GenerateBlumPrime(num.NPlus(), bits, rng(uint64(7100+int(bits))))
			emitP("pr.blum", bits, err, bg(b))
		}
		for _, keyLen := range []uint{128, 512, 1024} {
			p, q, err := nt.GeneratePrimePair(num.NPlus(), keyLen, rng(uint64(7200+int(keyLen))))
			emitP("pr.pair", keyLen, err, bg(p), bg(q))
			p, q, err = nt.GenerateBlumPrimePair(num.NPlus(), keyLen, rng(uint64(7300+int(keyLen))))
			emitP("pr.blumpair", keyLen, err, bg(p), bg(q))
		}
		s, err := nt.GenerateSafePrime(num.NPlus(), 128, rng(7400))
		emitP("pr.safe", 128, err, bg(s))
		p, q, err := nt.GenerateSafePrimePair(num.NPlus(), 256, rng(7500))
		emitP("pr.safepair", 256, err, bg(p), bg(q))
	}
}

// smallnum drives pkg/base/nt/{numct,num,modular,crt,znstar}, nt.Jacobi and the prime generators
// on small windows and logs every call with operands and projected result (C17). Nothing is judged
// here; the TLA+ trace specification SmallNumTrace decides.
package main

import (
	"flag"
	"fmt"
	"io"
	"math/big"
	"os"
	"strings"
	"sync"

	"github.com/bronlabs/bron-crypto/pkg/base/ct"
	"github.com/bronlabs/bron-crypto/pkg/base/nt/numct"

	"verif/harness/tr"
)

var (
	w    *tr.W
	kseq int
	seed uint64
	box  int64
)

const sentinel = int64(2147483647) // "outside the window": never equal to a predicted value

func emit(a string, ev map[string]any) {
	kseq++
	ev["a"] = a
	fam := a
	if i := strings.IndexByte(a, '.'); i >= 0 {
		fam = a[:i]
	}
	ev["f"] = fam // family: selects the group of clauses in the trace specification
	ev["k"] = fmt.Sprintf("%s#%d", a, kseq)
	w.Emit(ev)
}

// proj projects a big integer to the window; values of 31 bits and more become the sentinel.
func proj(v *big.Int) int64 {
	if v == nil {
		return sentinel
	}
	if v.BitLen() > 30 {
		if v.Sign() < 0 {
			return -sentinel
		}
		return sentinel
	}
	return v.Int64()
}

func b2i(b ct.Bool) bool { return b == ct.True }

func bi(x int64) *big.Int { return big.NewInt(x) }

func bitlen(x int64) int {
	if x < 0 {
		x = -x
	}
	return big.NewInt(x).BitLen()
}

func trunc(x int64, c int) int64 {
	if c >= 31 {
		return x
	}
	s := int64(1)
	if x < 0 {
		s, x = -1, -x
	}
	return s * (x & ((int64(1) << uint(c)) - 1))
}

// natc builds a numct.Nat holding x cut to c bits, announced length c.
func natc(x int64, c int) *numct.Nat { return numct.NewNatFromBig(bi(x), c) }

// intc builds a numct.Int with magnitude |x| cut to c bits, sign of x.
func intc(x int64, c int) *numct.Int { return numct.NewIntFromBig(bi(x), c) }

// capProfiles lists announced capacities for a value: tight, loose, one limb, two limbs, one bit short.
func capProfiles(x int64) []int {
	l := bitlen(x)
	out := []int{l, l + 3, 64, 70}
	if l >= 2 {
		out = append(out, l-1)
	}
	return out
}

// capOf picks the sel-th profile (rotating selection used on the large boxes).
func capOf(x int64, sel int) int {
	p := capProfiles(x)
	if sel < 0 {
		sel = -sel
	}
	return p[sel%len(p)]
}

// capNT is capOf without the profiles that would cut the value.
func capNT(x int64, sel int) int { return max(capOf(x, sel), bitlen(x)) }

func bytesList(b []byte) []int {
	out := make([]int, len(b))
	for i, v := range b {
		out[i] = int(v)
	}
	return out
}

// lockedReader makes a deterministic stream safe for the library's concurrent prime workers.
type lockedReader struct {
	mu sync.Mutex
	r  io.Reader
}

func (l *lockedReader) Read(p []byte) (int, error) {
	l.mu.Lock()
	defer l.mu.Unlock()
	return l.r.Read(p)
}

func rng(stream uint64) io.Reader { return &lockedReader{r: tr.Rng(seed, stream)} }

func safely(name string, ev map[string]any, f func()) {
	defer func() {
		if r := recover(); r != nil {
			ev["panic"] = fmt.Sprint(r)
			if len(ev["panic"].(string)) > 120 {
				ev["panic"] = ev["panic"].(string)[:120]
			}
			emit(name+".panic", ev)
		}
	}()
	f()
}

func main() {
	out := flag.String("out", "trace.ndjson", "")
	mode := flag.String("mode", "nat", "nat|int|mod|num|rat|crt|modular|znstar|jacobi|primes|wide")
	b := flag.Int64("b", 24, "box bound")
	sd := flag.Uint64("seed", 1, "")
	big := flag.Bool("big", false, "primes: include 512/1024-bit generations")
	flag.Parse()
	seed, box = *sd, *b
	w = tr.NewW(*out)
	w.Emit(map[string]any{"a": "hdr", "k": "hdr", "mode": *mode, "b": box, "seed": seed})
	switch *mode {
	case "nat":
		runNat()
	case "int":
		runInt()
	case "mod":
		runMod()
	case "num":
		runNum()
	case "rat":
		runRat()
	case "crt":
		runCRT()
	case "modular":
		runModular()
	case "znstar":
		runZnstar()
	case "jacobi":
		runJacobi()
	case "primes":
		runPrimes(*big)
	case "wide":
		runWide()
	default:
		fmt.Fprintln(os.Stderr, "unknown mode")
		os.Exit(2)
	}
	w.Close()
}

package main

import (
	"math/big"

	"github.com/bronlabs/bron-crypto/pkg/base/nt/numct"
)

// Multi-limb window: operands k*2^64 + s (0 <= k < 2^15, |s| < 2^30). Results are projected to the same
// window form; a result outside the window is logged as k = -1 (never equal to a predicted value).
type wv struct {
	K int64 `json:"k"`
	S int64 `json:"s"`
}

var two64 = new(big.Int).Lsh(big.NewInt(1), 64)

func (v wv) big() *big.Int {
	r := new(big.Int).Mul(big.NewInt(v.K), two64)
	return r.Add(r, big.NewInt(v.S))
}

func wproj(b *big.Int) wv {
	// k = round(b / 2^64), s = b - k*2^64
	half := new(big.Int).Rsh(two64, 1)
	k := new(big.Int).Add(b, half)
	k.Div(k, two64) // floor
	s := new(big.Int).Sub(b, new(big.Int).Mul(k, two64))
	if k.Sign() < 0 || k.BitLen() > 30 || s.BitLen() > 30 {
		return wv{K: -1, S: 0}
	}
	return wv{K: k.Int64(), S: s.Int64()}
}

func wnat(v wv, extra int) *numct.Nat {
	b := v.big()
	return numct.NewNatFromBig(b, max(b.BitLen(), 1)+extra) // capacity 0 operands: see the nat mode
}

func runWide() {
	ks := []int64{0, 1, 2, 3, 255, 32767}
	ss := []int64{-3, -1, 0, 1, 2, 1000003}
	var vals []wv
	for _, k := range ks {
		for _, s := range ss {
			if k == 0 && s < 0 {
				continue
			}
			vals = append(vals, wv{k, s})
		}
	}
	for i, u := range vals {
		for j, v := range vals {
			extra := (i + j) % 3 * 31
			ev := map[string]any{"u": u, "v": v}
			safely("w.bin", ev, func() {
				a, b := wnat(u, extra), wnat(v, (i*j)%2*64)
				var add, sub, gcd numct.Nat
				add.Add(a, b)
				ev["add"] = wproj(add.Big())
				if u.big().Cmp(v.big()) >= 0 {
					sub.SubCap(a, b, -1)
					ev["sub"], ev["hassub"] = wproj(sub.Big()), true
				} else {
					ev["sub"], ev["hassub"] = wv{0, 0}, false
				}
				lt, eq, gt := a.Compare(b)
				ev["lt"], ev["eq"], ev["gt"] = b2i(lt), b2i(eq), b2i(gt)
				var q, r numct.Nat
				ok := q.Div(&r, a, b)
				ev["divok"], ev["q"], ev["r"] = b2i(ok), wproj(q.Big()), wproj(r.Big())
				var q2, r2 numct.Nat
				ok2 := q2.DivVarTime(&r2, a, b)
				ev["divvtok"], ev["q2"], ev["r2"] = b2i(ok2), wproj(q2.Big()), wproj(r2.Big())
				if v.K == 0 && v.S > 0 && v.S < 40000 {
					gcd.GCD(a, b)
					ev["gcd"], ev["hasgcd"] = proj(gcd.Big()), true
				} else {
					ev["gcd"], ev["hasgcd"] = 0, false
				}
				emit("w.bin", ev)
			})
		}
		// small factor and small moduli
		for _, c := range []int64{0, 1, 2, 3, 7, 1000} {
			var mul numct.Nat
			mul.Mul(wnat(u, i%2*5), natc(c, capNT(c, i)))
			emit("w.scale", map[string]any{"u": u, "c": c, "r": wproj(mul.Big())})
		}
		for _, m := range []int64{1, 2, 3, 7, 12, 97, 1000, 4096, 32749, 45971} {
			mod, _ := numct.NewModulus(natc(m, capNT(m, i)))
			ev := map[string]any{"u": u, "m": m}
			safely("w.mod", ev, func() {
				a := wnat(u, i%3*20)
				var red, neg, inv, sq, ex numct.Nat
				mod.Mod(&red, a)
				mod.ModNeg(&neg, a)
				iok := mod.ModInv(&inv, a)
				mod.ModMul(&sq, a, a)
				mod.ModExp(&ex, natc(3, 2), a)
				ev["red"], ev["neg"], ev["invok"], ev["inv"], ev["sq"] = proj(red.Big()), proj(neg.Big()), b2i(iok), proj(inv.Big()), proj(sq.Big())
				ev["inr"], ev["unit"] = b2i(mod.IsInRange(a)), b2i(mod.IsUnit(a))
				ai := new(numct.Int)
				ai.SetNat(a)
				ai.Neg(ai)
				var redi numct.Nat
				mod.ModI(&redi, ai)
				ev["redneg"] = proj(redi.Big())
				for _, v := range []wv{{1, 5}, {0, 9}, {32767, -1}} {
					var ad, sb, ml numct.Nat
					b := wnat(v, 0)
					mod.ModAdd(&ad, a, b)
					mod.ModSub(&sb, a, b)
					mod.ModMul(&ml, a, b)
					ev["v"] = v
					ev["add"], ev["sub"], ev["mul"] = proj(ad.Big()), proj(sb.Big()), proj(ml.Big())
					cp := map[string]any{}
					for k2, v2 := range ev {
						cp[k2] = v2
					}
					emit("w.mod", cp)
				}
			})
		}
		a := wnat(u, 0)
		emit("w.un", map[string]any{"u": u, "tl": a.TrueLen(), "odd": b2i(a.IsOdd()), "zero": b2i(a.IsZero()), "nbytes": len(a.Bytes()),
			"back": wproj(numct.NewNatFromBytes(a.Bytes()).Big()), "lift": wproj(a.Lift().Big())})
	}
}

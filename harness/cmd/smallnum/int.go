package main

import (
	"github.com/bronlabs/bron-crypto/pkg/base/ct"
	"github.com/bronlabs/bron-crypto/pkg/base/nt/numct"
)

func outInt(al int, x, y *numct.Int) *numct.Int {
	switch al {
	case 1:
		return x
	case 2:
		return y
	case 3:
		return intc(-4321, 14)
	}
	return new(numct.Int)
}

func intBin(name string, x int64, cx int, y int64, cy int, c int, al int, f func(out, a, b *numct.Int, c int)) {
	ev := map[string]any{"x": x, "cx": cx, "y": y, "cy": cy, "c": c, "al": al}
	safely(name, ev, func() {
		xn, yn := intc(x, cx), intc(y, cy)
		out := outInt(al, xn, yn)
		f(out, xn, yn, c)
		ev["r"] = proj(out.Big())
		ev["ra"] = out.AnnouncedLen()
		ev["neg"] = b2i(out.IsNegative())
		ev["xp"], ev["yp"] = proj(xn.Big()), proj(yn.Big())
		emit(name, ev)
	})
}

func runInt() {
	B := box
	for x := -2 * B; x <= 2*B; x++ {
		for _, c := range append(capProfiles(x), 0, 1, 3) {
			n := intc(x, c)
			emit("i.set", map[string]any{"x": x, "c": c, "r": proj(n.Big()), "ra": n.AnnouncedLen(), "tl": n.TrueLen(), "neg": b2i(n.IsNegative())})
		}
		n := numct.NewInt(x)
		emit("i.set", map[string]any{"x": x, "c": 64, "r": proj(n.Big()), "ra": n.AnnouncedLen(), "tl": n.TrueLen(), "neg": b2i(n.IsNegative())})
	}
	type op struct {
		name string
		f    func(out, a, b *numct.Int, c int)
	}
	ops := []op{
		{"i.add", func(o, a, b *numct.Int, c int) { o.AddCap(a, b, c) }},
		{"i.sub", func(o, a, b *numct.Int, c int) { o.SubCap(a, b, c) }},
		{"i.mul", func(o, a, b *numct.Int, c int) { o.MulCap(a, b, c) }},
		{"i.gcd", func(o, a, b *numct.Int, _ int) { o.GCD(a, b) }},
	}
	for oi, o := range ops {
		for x := -B; x <= B; x++ {
			for y := -B; y <= B; y++ {
				sel := int(x*5+y*3+200) + oi
				cx, cy := capOf(x, sel), capOf(y, sel/5+1)
				c := -1
				if sel%3 == 1 {
					c = bitlen(abs64(x*y)+abs64(x)+abs64(y)) + 2 // large enough: sums and products never wrap
				}
				if o.name == "i.mul" && sel%7 == 3 {
					c = max(bitlen(trunc(x, cx)*trunc(y, cy))-1, 1) // one bit short: magnitude is cut, sign kept
				}
				intBin(o.name, x, cx, y, cy, c, sel%4, o.f)
			}
		}
	}
	// --- bitwise operations on the two's complement representation
	bops := []op{
		{"i.and", func(o, a, b *numct.Int, c int) { o.AndCap(a, b, c) }},
		{"i.or", func(o, a, b *numct.Int, c int) { o.OrCap(a, b, c) }},
		{"i.xor", func(o, a, b *numct.Int, c int) { o.XorCap(a, b, c) }},
	}
	for oi, o := range bops {
		for x := -B; x <= B; x++ {
			for y := -B; y <= B; y++ {
				sel := int(x*5+y*3+200) + oi
				cx, cy := []int{bitlen(x), bitlen(x) + 3, 12}[sel%3], []int{bitlen(y), bitlen(y) + 2, 12}[(sel/3)%3]
				c := -1
				if sel%2 == 1 {
					c = max(cx, cy) + 2
				}
				intBin(o.name, x, cx, y, cy, c, sel%3, o.f)
			}
		}
	}
	// --- divisions: truncated (Div, DivVarTime) and Euclidean (EuclideanDiv, EuclideanDivVarTime)
	for x := -2 * B; x <= 2*B; x++ {
		for y := -B; y <= B; y++ {
			sel := int(x*3+y) + 500
			cx, cy := capOf(x, sel), capOf(y, sel/2)
			for v := 0; v < 4; v++ {
				name := []string{"i.div", "i.divvt", "i.ediv", "i.edivvt"}[v]
				ev := map[string]any{"x": x, "cx": cx, "y": y, "cy": cy, "al": []int{0, 1, 3}[sel%3]}
				safely(name, ev, func() {
					xn, yn := intc(x, cx), intc(y, cy)
					q := outInt([]int{0, 1, 3}[sel%3], xn, yn)
					var ok ct.Bool
					switch v {
					case 0, 1:
						rem := intc(-55, 9)
						if v == 0 {
							ok = q.Div(rem, xn, yn)
						} else {
							ok = q.DivVarTime(rem, xn, yn)
						}
						ev["rem"], ev["rema"] = proj(rem.Big()), rem.AnnouncedLen()
					default:
						rem := natc(55, 9)
						if v == 2 {
							ok = q.EuclideanDiv(rem, xn, yn)
						} else {
							ok = q.EuclideanDivVarTime(rem, xn, yn)
						}
						ev["rem"], ev["rema"] = proj(rem.Big()), rem.AnnouncedLen()
					}
					ev["ok"] = b2i(ok)
					ev["q"], ev["qa"] = proj(q.Big()), q.AnnouncedLen()
					ev["xp"], ev["yp"] = proj(xn.Big()), proj(yn.Big())
					emit(name, ev)
				})
			}
		}
	}
	// --- comparisons
	for x := -B; x <= B; x++ {
		for y := -B; y <= B; y++ {
			cx, cy := capOf(x, int(x+y+100)), capOf(y, int(x+50))
			xn, yn := intc(x, cx), intc(y, cy)
			lt, eq, gt := xn.Compare(yn)
			var s numct.Int
			s.Select(ct.Choice((x+100)%2), xn, yn)
			d := intc(x, cx)
			d.CondAssign(ct.Choice((y+100)%2), yn)
			emit("i.cmp", map[string]any{"x": x, "cx": cx, "y": y, "cy": cy, "lt": b2i(lt), "eq": b2i(eq), "gt": b2i(gt), "eq2": b2i(xn.Equal(yn)),
				"cop": b2i(xn.Coprime(yn)), "ch": (x + 100) % 2, "sel": proj(s.Big()), "ch2": (y + 100) % 2, "ca": proj(d.Big())})
		}
	}
	// --- negative zero: results whose magnitude vanishes while the sign bit is set must still behave as zero
	for x := -B; x <= B; x++ {
		for y := int64(1); y <= 5; y++ {
			var q, r numct.Int
			q.Div(&r, intc(x, 8), intc(y, 4)) // x<0, |x|<y : quotient "-0"; y | x : remainder "-0"
			var z numct.Int
			z.Add(&q, intc(0, 1))
			lt, eq, gt := q.Compare(intc(0, 3))
			lt2, eq2, gt2 := r.Compare(intc(0, 3))
			emit("i.negzero", map[string]any{"x": x, "y": y, "q": proj(q.Big()), "r": proj(r.Big()),
				"qz": b2i(q.IsZero()), "rz": b2i(r.IsZero()), "qeq0": b2i(q.Equal(numct.IntZero())), "req0": b2i(r.Equal(numct.IntZero())),
				"qcmp": []bool{b2i(lt), b2i(eq), b2i(gt)}, "rcmp": []bool{b2i(lt2), b2i(eq2), b2i(gt2)}, "qplus0": proj(z.Big())})
		}
	}
	// --- unary
	for x := -20 * B; x <= 20*B; x++ {
		for _, cx := range []int{capOf(x, 0), capOf(x, 1), capOf(x, 2)} {
			xn := intc(x, cx)
			ev := map[string]any{"x": x, "cx": cx}
			var neg, ab, dbl, sq, inc, dec, inv, rt, nt numct.Int
			var abn numct.Nat
			neg.Neg(xn)
			ab.Abs(xn)
			abn.Abs(xn)
			dbl.Double(xn)
			sq.Square(xn)
			inc.Set(xn)
			inc.Increment()
			dec.Set(xn)
			dec.Decrement()
			inv.Set(intc(9, 5))
			iok := inv.Inv(xn)
			rt.Set(intc(-9, 5))
			sok := rt.Sqrt(xn)
			ev["neg"], ev["abs"], ev["absn"], ev["dbl"], ev["sq"], ev["inc"], ev["dec"] = proj(neg.Big()), proj(ab.Big()), proj(abn.Big()), proj(dbl.Big()), proj(sq.Big()), proj(inc.Big()), proj(dec.Big())
			ev["invok"], ev["inv"], ev["unit"] = b2i(iok), proj(inv.Big()), b2i(xn.IsUnit())
			ev["sqrtok"], ev["sqrt"] = b2i(sok), proj(rt.Big())
			ev["isneg"], ev["zero"], ev["nz"], ev["one"], ev["odd"], ev["even"] = b2i(xn.IsNegative()), b2i(xn.IsZero()), b2i(xn.IsNonZero()), b2i(xn.IsOne()), b2i(xn.IsOdd()), b2i(xn.IsEven())
			ev["tl"], ev["al"], ev["i64"], ev["u64"] = xn.TrueLen(), xn.AnnouncedLen(), xn.Int64(), proj(bi(int64(xn.Uint64())))
			ev["prime"] = b2i(xn.IsProbablyPrime())
			bs := xn.Bytes()
			ev["bytes"] = bytesList(bs)
			var back numct.Int
			ev["backok"] = b2i(back.SetBytes(bs))
			ev["back"] = proj(back.Big())
			if cx <= 24 {
				tc := xn.TwosComplementBytesBE()
				ev["twos"] = bytesList(tc)
				var tb numct.Int
				ev["twosok"] = b2i(tb.SetTwosComplementBytesBE(tc))
				ev["twosback"] = proj(tb.Big())
				nt.Not(xn)
				ev["not"] = proj(nt.Big())
				ev["tw"] = true
			} else {
				ev["tw"] = false // 9 and more bytes of sign extension do not fit the window; not logged
			}
			var cn numct.Int
			cn.Set(xn)
			cn.CondNeg(ct.Choice((x + 1000) % 2))
			ev["cneg"] = proj(cn.Big())
			emit("i.pred", ev)
		}
	}
	// --- two's complement decoding of raw byte strings
	for _, bs := range [][]byte{{0}, {1}, {127}, {128}, {255}, {0, 128}, {255, 127}, {128, 0}, {255, 255}, {0, 0, 1}, {254, 0, 3}, {127, 255}, {128, 1}} {
		var n numct.Int
		ok := n.SetTwosComplementBytesBE(bs)
		emit("i.fromtwos", map[string]any{"bytes": bytesList(bs), "ok": b2i(ok), "r": proj(n.Big())})
	}
	var e numct.Int
	emit("i.fromtwos", map[string]any{"bytes": []int{}, "ok": b2i(e.SetTwosComplementBytesBE(nil)), "r": 0})
	// --- shifts keep the sign and shift the magnitude
	for x := -B; x <= B; x++ {
		for s := uint(0); s <= 7; s++ {
			cx := capOf(x, int(x+100)+int(s))
			for _, c := range []int{-1, bitlen(x) + int(s) + 1, 64} {
				var l, r numct.Int
				l.LshCap(intc(x, cx), s, c)
				ev := map[string]any{"x": x, "cx": cx, "s": s, "c": c, "l": proj(l.Big()), "la": l.AnnouncedLen()}
				if c >= 0 || int(s) <= cx {
					r.RshCap(intc(x, cx), s, c)
					ev["r"], ev["rsh"] = proj(r.Big()), true
				} else {
					ev["r"], ev["rsh"] = 0, false
				}
				emit("i.shift", ev)
			}
		}
	}
	// --- random ranges
	r := rng(12)
	for lo := int64(-4); lo <= 4; lo++ {
		for hi := int64(-5); hi <= 6; hi++ {
			var n numct.Int
			err := n.SetRandomRangeLH(intc(lo, 5), intc(hi, 6), r)
			emit("i.rand", map[string]any{"lo": lo, "hi": hi, "ok": err == nil, "r": proj(n.Big())})
		}
	}
}

func abs64(x int64) int64 {
	if x < 0 {
		return -x
	}
	return x
}

package main

import (
	"math/big"

	"github.com/bronlabs/bron-crypto/pkg/base/nt/num"
)

func nN(x int64, c int) *num.Nat {
	v, err := num.N().FromNatCT(natc(x, c))
	if err != nil {
		panic(err)
	}
	return v
}

func nZ(x int64, c int) *num.Int {
	v, err := num.Z().FromIntCT(intc(x, c))
	if err != nil {
		panic(err)
	}
	return v
}

func nP(x int64) *num.NatPlus {
	v, err := num.NPlus().FromUint64(uint64(x))
	if err != nil {
		panic(err)
	}
	return v
}

// opt projects "value or error" results: ok=false carries r=0.
func optN(ev map[string]any, key string, v interface{ Big() *big.Int }, err error) {
	ev[key+"ok"] = err == nil
	if err == nil {
		ev[key] = proj(v.Big())
	} else {
		ev[key] = 0
	}
}

func runNum() {
	B := box
	// ---------------- N
	for x := int64(0); x <= B; x++ {
		for y := int64(0); y <= B; y++ {
			sel := int(x*3 + y)
			cx, cy := capNT(x, sel), capNT(y, sel/2)
			ev := map[string]any{"x": x, "cx": cx, "y": y, "cy": cy}
			safely("N.bin", ev, func() {
				a, b := nN(x, cx), nN(y, cy)
				ev["add"], ev["mul"], ev["gcd"] = proj(a.Add(b).Big()), proj(a.Mul(b).Big()), proj(a.GCD(b).Big())
				s, err := a.TrySub(b)
				optN(ev, "sub", s, err)
				d, err := a.TryDiv(b)
				optN(ev, "div", d, err)
				d2, err := a.TryDivVarTime(b)
				optN(ev, "divvt", d2, err)
				r, err := a.DivRound(b)
				optN(ev, "dr", r, err)
				r2, err := a.DivRoundVarTime(b)
				optN(ev, "drvt", r2, err)
				q, rm, err := a.EuclideanDiv(b)
				optN(ev, "eq", q, err)
				optN(ev, "er", rm, err)
				q2, rm2, err := a.EuclideanDivVarTime(b)
				optN(ev, "eqvt", q2, err)
				optN(ev, "ervt", rm2, err)
				ev["cmp"], ev["le"], ev["eq_"], ev["cop"] = int(a.Compare(b)), a.IsLessThanOrEqual(b), a.Equal(b), a.Coprime(b)
				ev["smul"] = proj(a.ScalarMul(b).Big())
				if ty := trunc(y, cy); ty >= 1 {
					ev["hasmod"], ev["mod"], ev["unit"] = true, proj(a.Mod(nP(ty)).Big()), a.IsUnit(nP(ty))
				} else {
					ev["hasmod"], ev["mod"], ev["unit"] = false, 0, false
				}
				emit("N.bin", ev)
			})
		}
	}
	for x := int64(0); x <= 30*B; x++ {
		cx := capNT(x, int(x))
		a := nN(x, cx)
		ev := map[string]any{"x": x, "cx": cx}
		sq, err := a.Sqrt()
		optN(ev, "sqrt", sq, err)
		dc, err := a.Decrement()
		optN(ev, "dec", dc, err)
		iv, err := a.TryInv()
		optN(ev, "inv", iv, err)
		_, err = a.TryNeg()
		ev["negok"] = err == nil
		ev["inc"], ev["dbl"], ev["sq"] = proj(a.Increment().Big()), proj(a.Double().Big()), proj(a.Square().Big())
		ev["zero"], ev["one"], ev["pos"], ev["odd"], ev["even"], ev["prime"] = a.IsZero(), a.IsOne(), a.IsPositive(), a.IsOdd(), a.IsEven(), a.IsProbablyPrime()
		ev["tl"], ev["bytes"], ev["lift"], ev["u64"] = a.TrueLen(), bytesList(a.Bytes()), proj(a.Lift().Big()), proj(bi(int64(a.Uint64())))
		ev["lsh3"], ev["rsh2"] = proj(a.Lsh(3).Big()), proj(a.Rsh(2).Big())
		fb, err := num.N().FromBig(bi(x))
		optN(ev, "frombig", fb, err)
		fbb, err := num.N().FromBytes(bi(x).Bytes())
		optN(ev, "frombytes", fbb, err)
		fi, err := num.N().FromInt(nZ(x-10*B, capNT(x-10*B, int(x))))
		optN(ev, "fromint", fi, err)
		ev["fromintarg"] = trunc(x-10*B, capNT(x-10*B, int(x)))
		emit("N.un", ev)
	}
	// ---------------- Z
	for x := -B; x <= B; x++ {
		for y := -B; y <= B; y++ {
			sel := int(x*3+y) + 300
			cx, cy := capNT(x, sel), capNT(y, sel/2)
			ev := map[string]any{"x": x, "cx": cx, "y": y, "cy": cy}
			safely("Z.bin", ev, func() {
				a, b := nZ(x, cx), nZ(y, cy)
				ev["add"], ev["sub"], ev["mul"] = proj(a.Add(b).Big()), proj(a.Sub(b).Big()), proj(a.Mul(b).Big())
				d, err := a.TryDiv(b)
				optN(ev, "div", d, err)
				d2, err := a.TryDivVarTime(b)
				optN(ev, "divvt", d2, err)
				r, err := a.DivRound(b)
				optN(ev, "dr", r, err)
				r2, err := a.DivRoundVarTime(b)
				optN(ev, "drvt", r2, err)
				q, rm, err := a.EuclideanDiv(b)
				optN(ev, "eq", q, err)
				optN(ev, "er", rm, err)
				q2, rm2, err := a.EuclideanDivVarTime(b)
				optN(ev, "eqvt", q2, err)
				optN(ev, "ervt", rm2, err)
				ev["cmp"], ev["le"], ev["eq_"], ev["cop"] = int(a.Compare(b)), a.IsLessThanOrEqual(b), a.Equal(b), a.Coprime(b)
				ty := trunc(y, cy)
				if ty >= 1 {
					m := nP(ty)
					ev["hasmod"], ev["mod"], ev["unit"], ev["inr"], ev["insym"] = true, proj(a.Mod(m).Big()), a.IsUnit(m), a.IsInRange(m), a.IsInRangeSymmetric(m)
				} else {
					ev["hasmod"], ev["mod"], ev["unit"], ev["inr"], ev["insym"] = false, 0, false, false, false
				}
				emit("Z.bin", ev)
			})
		}
	}
	for x := -15 * B; x <= 15*B; x++ {
		cx := capNT(x, int(x)+1000)
		a := nZ(x, cx)
		ev := map[string]any{"x": x, "cx": cx}
		iv, err := a.TryInv()
		optN(ev, "inv", iv, err)
		ev["neg"], ev["abs"], ev["inc"], ev["dec"], ev["dbl"], ev["sq"] = proj(a.Neg().Big()), proj(a.Abs().Big()), proj(a.Increment().Big()), proj(a.Decrement().Big()), proj(a.Double().Big()), proj(a.Square().Big())
		ev["isneg"], ev["pos"], ev["zero"], ev["one"], ev["odd"], ev["even"], ev["prime"] = a.IsNegative(), a.IsPositive(), a.IsZero(), a.IsOne(), a.IsOdd(), a.IsEven(), a.IsProbablyPrime()
		ev["lsh2"], ev["rsh1"] = proj(a.Lsh(2).Big()), proj(a.Rsh(1).Big())
		ev["absbytes"] = bytesList(a.AbsBytesBE())
		bs := a.Bytes()
		back, err := num.Z().FromBytes(bs)
		optN(ev, "back", back, err)
		if cx <= 24 {
			tb, err := num.Z().FromTwosComplementBytesBE(a.TwosComplementBytesBE())
			optN(ev, "twosback", tb, err)
		} else {
			ev["twosback"], ev["twosbackok"] = 0, false
		}
		fb, err := num.Z().FromBig(bi(x))
		optN(ev, "frombig", fb, err)
		ev["fromi64"] = proj(num.Z().FromInt64(x).Big())
		emit("Z.un", ev)
	}
	// ---------------- NPlus
	for x := int64(1); x <= B; x++ {
		for y := int64(1); y <= B; y++ {
			a, b := nP(x), nP(y)
			ev := map[string]any{"x": x, "y": y}
			safely("P.bin", ev, func() {
				ev["add"], ev["mul"] = proj(a.Add(b).Big()), proj(a.Mul(b).Big())
				s, err := a.TrySub(b)
				optN(ev, "sub", s, err)
				d, err := a.TryDiv(b)
				optN(ev, "div", d, err)
				ev["cmp"], ev["le"], ev["eq_"], ev["unit"], ev["mod"] = int(a.Compare(b)), a.IsLessThanOrEqual(b), a.Equal(b), a.IsUnit(b), proj(a.Mod(b).Big())
				emit("P.bin", ev)
			})
		}
	}
	for x := int64(0); x <= 20*B; x++ {
		ev := map[string]any{"x": x}
		p, err := num.NPlus().FromUint64(uint64(x))
		optN(ev, "new", p, err)
		p2, err := num.NPlus().FromNat(nN(x, capNT(x, int(x))))
		optN(ev, "fromnat", p2, err)
		p3, err := num.NPlus().FromInt(nZ(x-10*B, 20))
		optN(ev, "fromint", p3, err)
		ev["fromintarg"] = x - 10*B
		p4, err := num.NPlus().FromBig(bi(x - 10*B))
		optN(ev, "frombig", p4, err)
		if x >= 1 {
			dc, err := p.Decrement()
			optN(ev, "dec", dc, err)
			rs, err := p.TryRsh(2)
			optN(ev, "rsh2", rs, err)
			iv, err := p.TryInv()
			optN(ev, "inv", iv, err)
			ev["inc"], ev["dbl"], ev["sq"], ev["lsh1"], ev["one"], ev["odd"], ev["prime"], ev["tl"] = proj(p.Increment().Big()), proj(p.Double().Big()), proj(p.Square().Big()), proj(p.Lsh(1).Big()), p.IsOne(), p.IsOdd(), p.IsProbablyPrime(), p.TrueLen()
			ev["modct"] = proj(p.ModulusCT().Nat().Big())
		}
		emit("P.un", ev)
	}
	// ---------------- sequences: a NatPlus that was already USED as a modulus (its reduction context is cached lazily), then a
	// value derived from it (Increment, Decrement, Double, Square, Lsh, TryRsh, Add, Mul, Clone) used as a modulus itself
	for x := int64(2); x <= 4*B; x++ {
		for _, opn := range []string{"inc", "dec", "dbl", "sq", "lsh1", "rsh1", "add3", "mul3", "clone"} {
			ev := map[string]any{"x": x, "op": opn}
			safely("P.seq", ev, func() {
				p := nP(x)
				// warm every lazily built cache of p
				_ = nZ(7*x+3, 40).Mod(p)
				_ = p.ModulusCT()
				if zn, err := num.NewZMod(p); err == nil {
					_, _ = zn.FromInt64(5)
				}
				var d *num.NatPlus
				var err error
				switch opn {
				case "inc":
					d = p.Increment()
				case "dec":
					d, err = p.Decrement()
				case "dbl":
					d = p.Double()
				case "sq":
					d = p.Square()
				case "lsh1":
					d = p.Lsh(1)
				case "rsh1":
					d, err = p.TryRsh(1)
				case "add3":
					d = p.Add(nP(3))
				case "mul3":
					d = p.Mul(nP(3))
				case "clone":
					d = p.Clone()
				}
				if err != nil || d == nil {
					ev["ok"] = false
					ev["d"], ev["ys"], ev["rz"], ev["rn"], ev["ru"], ev["pafter"] = 0, []int64{}, []int64{}, []int64{}, []int64{}, proj(p.Big())
					emit("P.seq", ev)
					return
				}
				ev["ok"], ev["d"] = true, proj(d.Big())
				ys := []int64{0, 1, x - 1, x, x + 1, 2*x + 1, x*x + 3, 25, 5000021 % (40 * B * B)}
				rz, rn, ru := []int64{}, []int64{}, []int64{}
				for _, y := range ys {
					rz = append(rz, proj(nZ(y, 40).Mod(d).Big()))
					rn = append(rn, proj(nN(y, capNT(y, 40)).Mod(d).Big()))
					u := int64(-1)
					if zn, err := num.NewZMod(d); err == nil {
						if v, err := zn.FromInt64(y); err == nil {
							u = proj(v.Big())
						}
					}
					ru = append(ru, u)
				}
				ev["ys"], ev["rz"], ev["rn"], ev["ru"] = ys, rz, rn, ru
				ev["pafter"] = proj(p.Big()) // the operand itself is unchanged
				emit("P.seq", ev)
			})
		}
	}
	// ---------------- Zn (Uint)
	for m := int64(1); m <= B; m++ {
		zn, err := num.NewZMod(nP(m))
		if err != nil {
			panic(err)
		}
		evr := map[string]any{"m": m}
		safely("U.ring", evr, func() {
			evr["domain"], evr["zero"], evr["one"], evr["mod"] = zn.IsDomain(), proj(zn.Zero().Big()), proj(zn.One().Big()), proj(zn.Modulus().Big())
			evr["top"] = proj(zn.Top().Big())
			emit("U.ring", evr)
		})
		for x := -m - 2; x <= 2*m+2; x++ {
			ev := map[string]any{"m": m, "x": x}
			safely("U.un", ev, func() {
				u, err := zn.FromInt64(x)
				if err != nil {
					panic(err)
				}
				ev["v"] = proj(u.Big())
				iv, err := u.TryInv()
				optN(ev, "inv", iv, err)
				ev["neg"], ev["dbl"], ev["sq"], ev["inc"], ev["dec"] = proj(u.Neg().Big()), proj(u.Double().Big()), proj(u.Square().Big()), proj(u.Increment().Big()), proj(u.Decrement().Big())
				ev["unit"], ev["zero"], ev["one"], ev["isneg"], ev["top"] = u.IsUnit(), u.IsZero(), u.IsOne(), u.IsNegative(), u.IsTop()
				ev["lift"], ev["lsh2"], ev["rsh1"] = proj(u.Lift().Big()), proj(u.Lsh(2).Big()), proj(u.Rsh(1).Big())
				sy, err := num.Z().FromUintSymmetric(u)
				optN(ev, "sym", sy, err)
				if x >= 0 {
					fr, err := zn.FromNatCTReduced(natc(x, capNT(x, int(x))))
					optN(ev, "reduced", fr, err)
					ev["reducedarg"] = trunc(x, capNT(x, int(x)))
				} else {
					ev["reducedok"], ev["reduced"], ev["reducedarg"] = false, 0, m
				}
				emit("U.un", ev)
			})
		}
		for x := int64(0); x < m; x++ {
			evs := map[string]any{"m": m, "x": x}
			safely("U.sqrt", evs, func() {
				u := zn.FromUint64(uint64(x))
				rt, err := u.Sqrt()
				optN(evs, "r", rt, err)
				evs["qr"] = u.IsQuadraticResidue()
				emit("U.sqrt", evs)
			})
			for y := int64(0); y < m; y++ {
				ev := map[string]any{"m": m, "x": x, "y": y}
				safely("U.bin", ev, func() {
					a, b := zn.FromUint64(uint64(x)), zn.FromUint64(uint64(y))
					ev["add"], ev["sub"], ev["mul"] = proj(a.Add(b).Big()), proj(a.Sub(b).Big()), proj(a.Mul(b).Big())
					d, err := a.TryDiv(b)
					optN(ev, "div", d, err)
					ev["cmp"], ev["eq_"], ev["cop"] = int(a.Compare(b)), a.Equal(b), a.Coprime(b)
					if zn.IsDomain() {
						q, r, err := a.EuclideanDiv(b)
						optN(ev, "eq", q, err)
						optN(ev, "er", r, err)
					} else {
						_, _, err := a.EuclideanDiv(b)
						ev["eqok"], ev["eq"], ev["erok"], ev["er"] = err == nil, 0, err == nil, 0
					}
					ev["dom"] = zn.IsDomain()
					emit("U.bin", ev)
				})
			}
			for e := -m - 3; e <= 2*m+3; e++ {
				ev := map[string]any{"m": m, "x": x, "e": e}
				safely("U.exp", ev, func() {
					a := zn.FromUint64(uint64(x))
					ev["expi"] = proj(a.ExpI(nZ(e, capNT(e, int(e)+77))).Big())
					if e >= 0 {
						ev["exp"] = proj(a.Exp(nN(e, capNT(e, int(e)))).Big())
						ev["smul"] = proj(a.ScalarMul(nN(e, capNT(e, int(e)))).Big())
						ev["expb"] = proj(a.ExpBounded(nN(e, 64), 3).Big()) // only the low 3 bits of the exponent
					} else {
						ev["exp"], ev["smul"], ev["expb"] = 0, 0, 0
					}
					emit("U.exp", ev)
				})
			}
		}
	}
}

func runRat() {
	B := box
	mk := func(a, b int64) *num.Rat {
		r, err := num.Q().New(nZ(a, capNT(a, int(a+b)+50)), nP(b))
		if err != nil {
			panic(err)
		}
		return r
	}
	pr := func(ev map[string]any, key string, r *num.Rat) {
		ev[key+"n"], ev[key+"d"] = proj(r.Numerator().Big()), proj(r.Denominator().Big())
	}
	for a := -B; a <= B; a++ {
		for b := int64(1); b <= B; b++ {
			r := mk(a, b)
			ev := map[string]any{"a_": a, "b": b}
			safely("Q.un", ev, func() {
				pr(ev, "can", r.Canonical())
				pr(ev, "neg", r.Neg())
				pr(ev, "dbl", r.Double())
				pr(ev, "sq", r.Square())
				iv, err := r.TryInv()
				ev["invok"] = err == nil
				if err == nil {
					pr(ev, "inv", iv)
				} else {
					ev["invn"], ev["invd"] = 0, 1
				}
				fl, err := r.Floor()
				optN(ev, "floor", fl, err)
				cl, err := r.Ceil()
				optN(ev, "ceil", cl, err)
				ev["isint"], ev["zero"], ev["one"], ev["isneg"], ev["pos"], ev["prime"] = r.IsInt(), r.IsZero(), r.IsOne(), r.IsNegative(), r.IsPositive(), r.IsProbablyPrime()
				z, err := num.Z().FromRat(r)
				optN(ev, "toint", z, err)
				n, err := num.N().FromRat(r)
				optN(ev, "tonat", n, err)
				br := r.Big()
				ev["bign"], ev["bigd"] = proj(br.Num()), proj(br.Denom())
				fb, err := num.Q().FromBigRat(big.NewRat(a, b))
				ev["frombigok"] = err == nil
				if err == nil {
					pr(ev, "frombig", fb)
				} else {
					ev["frombign"], ev["frombigd"] = 0, 1
				}
				emit("Q.un", ev)
			})
		}
	}
	sb := min(B, 7)
	for a := -sb; a <= sb; a++ {
		for b := int64(1); b <= sb; b++ {
			for c := -sb; c <= sb; c++ {
				for d := int64(1); d <= sb; d++ {
					ev := map[string]any{"a_": a, "b": b, "c": c, "d": d}
					safely("Q.bin", ev, func() {
						r, s := mk(a, b), mk(c, d)
						pr(ev, "add", r.Add(s))
						pr(ev, "sub", r.Sub(s))
						pr(ev, "mul", r.Mul(s))
						q, err := r.TryDiv(s)
						ev["divok"] = err == nil
						if err == nil {
							pr(ev, "div", q)
						} else {
							ev["divn"], ev["divd"] = 0, 1
						}
						ev["eq"], ev["le"] = r.Equal(s), r.IsLessThanOrEqual(s)
						emit("Q.bin", ev)
					})
				}
			}
		}
	}
}

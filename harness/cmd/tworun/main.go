// tworun runs every toy-capable protocol several times from seeded per-party random streams (C07):
//
//	A and C with identical streams (determinism: any hidden source of randomness shows up as a difference),
//	B_p with only party p's protocol stream replaced.
//
// It logs every leaf of every message as a token (equal bytes <=> equal token), the outputs, the bytes each party
// consumed per round and the group elements g^s for every scalar-sized chunk s each party's reader handed out.
// The toy group runs in Big mode (61-bit q) so that accidental equality of independent values is negligible.
package main

import (
	"flag"
	"fmt"
	"sort"
	"strings"

	ad "verif/harness/adapters"
	"verif/harness/proto"
	"verif/harness/scen"
	"verif/harness/toy"
	"verif/harness/tr"
)

type ID = ad.ID

type leafRec struct {
	R int    `json:"r"`
	F uint64 `json:"f"`
	T uint64 `json:"t"`
	K string `json:"k"`
	C string `json:"c"`
	I int    `json:"i"` // last array index in the path (-1 if none)
	V int    `json:"v"`
}

type runRec struct {
	ok       bool
	leaves   []leafRec
	out      map[string]any
	consumed map[string]any
	drawn    map[string]any
	parties  []ID
}

func lastIndex(path string) int {
	i := strings.LastIndex(path, "[")
	if i < 0 {
		return -1
	}
	j := strings.Index(path[i:], "]")
	n := 0
	fmt.Sscanf(path[i+1:i+j], "%d", &n)
	return n
}

func run(sc scen.Scenario, st *scen.Streams) *runRec {
	b := sc.Build(st)
	if b == nil {
		return &runRec{}
	}
	rr := &runRec{out: map[string]any{}, consumed: map[string]any{}, drawn: map[string]any{}}
	seenB := map[string]bool{}
	res := proto.Run(b.Parties, nil, func(round int, from, to ID, kind string, data []byte) {
		if kind == "b" { // a broadcast is one message
			k := fmt.Sprintf("%d:%d", round, from)
			if seenB[k] {
				return
			}
			seenB[k] = true
			to = 0
		}
		t, err := proto.Parse(data)
		if err != nil {
			panic(err)
		}
		for _, l := range t.Leaves() {
			switch l.Kind {
			case "bytes", "text":
				rr.leaves = append(rr.leaves, leafRec{round, uint64(from), uint64(to), kind, l.Class, lastIndex(l.Path), proto.Tok(l.Bytes)})
			case "int":
				rr.leaves = append(rr.leaves, leafRec{round, uint64(from), uint64(to), kind, l.Class, lastIndex(l.Path), proto.Tok([]byte(fmt.Sprintf("int:%d", l.Int)))})
			}
		}
	})
	if len(res.Rejects) > 0 {
		return &runRec{}
	}
	rr.ok = true
	// delivery order of unicasts inside the engine is a map order: normalise (path order within a message is kept)
	sort.SliceStable(rr.leaves, func(i, j int) bool {
		a, b := rr.leaves[i], rr.leaves[j]
		if a.R != b.R {
			return a.R < b.R
		}
		if a.F != b.F {
			return a.F < b.F
		}
		if a.K != b.K {
			return a.K < b.K
		}
		return a.T < b.T
	})
	for _, p := range b.Parties {
		rr.parties = append(rr.parties, p.ID())
	}
	sort.Slice(rr.parties, func(i, j int) bool { return rr.parties[i] < rr.parties[j] })
	rr.out = b.Outputs(res.Completed)
	for id, rec := range st.Rec {
		by := map[string]int{}
		for r, n := range rec.ByRnd {
			by[fmt.Sprint(r)] = n
		}
		rr.consumed[fmt.Sprint(uint64(id))] = by
		pts := []int{}
		for _, rd := range rec.Reads {
			if len(rd.Data) == 16 { // a field element is sampled from exactly 16 stream bytes
				s := toy.ReduceWide(rd.Data)
				pts = append(pts, proto.Tok(toy.NewGroup().ScalarBaseOp(s).Bytes()))
			}
		}
		rr.drawn[fmt.Sprint(uint64(id))] = pts
	}
	return rr
}

func main() {
	out := flag.String("out", "trace.ndjson", "trace file")
	seed := flag.Uint64("seed", 1, "seed")
	n := flag.Int("n", 3, "seeds per scenario")
	bitsN := flag.Uint("bits", 61, "size of the toy modulus")
	faults := flag.Int("faults", 0, "fault mode: at most this many fault positions per party and scenario (0 = off)")
	flag.Parse()
	toy.SetupBig(*bitsN)
	w := tr.NewW(*out)
	defer w.Close()
	w.Emit(map[string]any{"a": "hdr", "q": 0, "qbits": *bitsN, "seed": *seed})
	for _, sc := range scen.Scenarios() {
		for it := 0; it < *n; it++ {
			sd := *seed*1000003 + uint64(it)*7919
			a := run(sc, scen.NewStreams(sd))
			if !a.ok {
				continue // 1/q event cannot happen in Big mode; a refusal here is reported by the other checks
			}
			c := run(sc, scen.NewStreams(sd))
			w.Emit(map[string]any{"a": "cmp", "k": fmt.Sprintf("%s:determinism", sc.Name), "what": "determinism", "proto": sc.Name, "p": 0, "parties": ad.IDsU(a.parties),
				"okB": c.ok, "LA": a.leaves, "LB": c.leaves, "outA": a.out, "outB": c.out, "consumedA": a.consumed, "consumedB": c.consumed, "drawnB": c.drawn})
			for _, p := range a.parties {
				st := scen.NewStreams(sd)
				st.Alt[p] = sd + 424242
				b := run(sc, st)
				w.Emit(map[string]any{"a": "cmp", "k": fmt.Sprintf("%s:altstream:%d", sc.Name, p), "what": "altstream", "proto": sc.Name, "p": uint64(p), "parties": ad.IDsU(a.parties),
					"okB": b.ok, "LA": a.leaves, "LB": b.leaves, "outA": a.out, "outB": b.out, "consumedA": a.consumed, "consumedB": b.consumed, "drawnB": b.drawn})
			}
		}
	}
	// ---- fault mode: one transient read fault at every position of every party's protocol stream.  A party whose random source
	// failed while it was sampling must abort: going on would mean using a value that was not drawn from the source.
	if *faults > 0 {
		for _, sc := range scen.Scenarios() {
			sd := *seed*1000003 + 5
			base := scen.NewStreams(sd)
			a := run(sc, base)
			if !a.ok {
				continue
			}
			for _, p := range a.parties {
				rec := base.Rec[p]
				if rec == nil {
					continue
				}
				calls := rec.Calls
				step := 1
				if calls > *faults {
					step = (calls + *faults - 1) / *faults
				}
				pos := map[int]bool{}
				for k := 1; k <= calls; k += step {
					pos[k] = true
				}
				for _, k := range []int{1, 2, 3, 4, calls - 1, calls} { // the first and last reads always
					if k >= 1 && k <= calls {
						pos[k] = true
					}
				}
				for k := 1; k <= calls; k++ {
					if !pos[k] {
						continue
					}
					st := scen.NewStreams(sd)
					st.Fault[p] = k
					ev := faultRun(sc, st, p)
					ev["a"], ev["k"], ev["proto"], ev["p"], ev["at"], ev["calls"] = "fault", fmt.Sprintf("%s:fault:%d", sc.Name, p), sc.Name, uint64(p), k, calls
					w.Emit(ev)
				}
			}
		}
	}
	fmt.Printf("events=%d\n", w.N)
}

// faultRun runs a scenario whose party p suffers one transient read fault and projects what happened.
func faultRun(sc scen.Scenario, st *scen.Streams, p ID) map[string]any {
	ev := map[string]any{"built": true, "delivered": false, "faultRound": 0, "completed": []uint64{}, "rejects": []any{}, "pCompleted": false, "pRejected": false, "panic": false, "timeout": false}
	var b *scen.Built
	func() {
		defer func() {
			if r := recover(); r != nil { // the scenario builder panics when a constructor fails: the fault hit a constructor
				ev["built"] = false
			}
		}()
		b = sc.Build(st)
	}()
	rec := st.Rec[p]
	if rec != nil && rec.FailRound != 0 {
		ev["delivered"], ev["faultRound"] = true, rec.FailRound
	}
	if b == nil {
		ev["built"] = false
		return ev
	}
	res := proto.Run(b.Parties, nil, nil)
	if rec != nil && rec.FailRound != 0 {
		ev["delivered"], ev["faultRound"] = true, rec.FailRound
	}
	ev["completed"] = ad.IDsU(res.Completed)
	rj := []any{}
	for _, r := range res.Rejects {
		rj = append(rj, map[string]any{"party": uint64(r.Party), "round": r.Round, "err": r.Err, "panic": r.Panic, "timeout": r.Timeout})
		if r.Party == p {
			ev["pRejected"] = true
		}
		if r.Panic {
			ev["panic"] = true
		}
		if r.Timeout {
			ev["timeout"] = true
		}
	}
	ev["rejects"] = rj
	for _, id := range res.Completed {
		if id == p {
			ev["pCompleted"] = true
		}
	}
	return ev
}

// tamper runs every toy-capable protocol once honestly and then once per (round, sender, recipient,
// leaf, operator) with exactly that part of one party's outgoing message altered on the wire (C04).
// The CBOR walker needs no protocol knowledge. Each run is one trace line: who rejected, in which
// round, whom they blamed, which honest parties completed and with what output. TamperTrace.tla decides.
package main

import (
	"bytes"
	"flag"
	"fmt"
	"sort"
	"strings"

	ad "verif/harness/adapters"
	"verif/harness/proto"
	"verif/harness/scen"
	"verif/harness/toy"
	"verif/harness/tr"
)

type ID = ad.ID

type rec struct {
	round    int
	from, to ID
	kind     string
	data     []byte
}

func honestRun(sc scen.Scenario, seed uint64) (*scen.Built, []rec, *proto.Result) {
	b := sc.Build(scen.NewStreams(seed))
	if b == nil {
		return nil, nil, nil
	}
	msgs := []rec{}
	res := proto.Run(b.Parties, nil, func(round int, from, to ID, kind string, data []byte) {
		msgs = append(msgs, rec{round, from, to, kind, append([]byte(nil), data...)})
	})
	return b, msgs, res
}

func ids(xs []ID) []uint64 { return ad.IDsU(xs) }

// lastIndex returns the last array index in a leaf path (-1 if none).
func lastIndex(path string) int {
	i := strings.LastIndex(path, "[")
	if i < 0 {
		return -1
	}
	n := -1
	fmt.Sscanf(path[i+1:], "%d", &n)
	return n
}

func rejectsJ(rs []proto.Reject) []any {
	out := []any{}
	for _, r := range rs {
		out = append(out, map[string]any{"party": uint64(r.Party), "round": r.Round, "blamed": ids(r.Blamed), "abort": r.Abort,
			"panic": r.Panic, "timeout": r.Timeout, "decode": r.Decode, "err": r.Err})
	}
	return out
}

type op struct {
	name string
	// apply mutates the tree; returns false if not applicable. other: same message of another sender / recipient / session.
	apply func(t *proto.Tree, l *proto.Leaf, alt map[string]*proto.Tree) bool
}

func flipLow(b []byte) []byte {
	o := append([]byte(nil), b...)
	if len(o) == 0 {
		return o
	}
	// toy scalars are 8-byte little-endian (value in the first bytes), toy group elements 8-byte big-endian: flip the
	// low bit of the byte that carries the least significant bits so that the value usually stays decodable
	if len(o) == 8 && o[0] == 0 && o[1] == 0 && o[2] == 0 && o[3] == 0 {
		o[7] ^= 1
	} else {
		o[0] ^= 1
	}
	return o
}

func ops() []op {
	fromAlt := func(which string) func(t *proto.Tree, l *proto.Leaf, alt map[string]*proto.Tree) bool {
		return func(t *proto.Tree, l *proto.Leaf, alt map[string]*proto.Tree) bool {
			at := alt[which]
			if at == nil {
				return false
			}
			o := at.Find(l.Path)
			if o == nil || o.Kind != l.Kind {
				return false
			}
			switch l.Kind {
			case "bytes":
				l.SetBytes(o.Bytes)
			case "int":
				l.SetInt(o.Int)
			default:
				return false
			}
			return true
		}
	}
	return []op{
		{"bitflip", func(t *proto.Tree, l *proto.Leaf, _ map[string]*proto.Tree) bool {
			switch l.Kind {
			case "bytes":
				if len(l.Bytes) == 0 {
					return false
				}
				l.SetBytes(flipLow(l.Bytes))
			case "int":
				l.SetInt(l.Int ^ 1)
			default:
				return false
			}
			return true
		}},
		{"flipHigh", func(t *proto.Tree, l *proto.Leaf, _ map[string]*proto.Tree) bool {
			if l.Kind != "bytes" || len(l.Bytes) == 0 {
				return false
			}
			o := append([]byte(nil), l.Bytes...)
			o[len(o)/2] ^= 0x80
			l.SetBytes(o)
			return true
		}},
		{"zero", func(t *proto.Tree, l *proto.Leaf, _ map[string]*proto.Tree) bool {
			switch l.Kind {
			case "bytes":
				l.SetBytes(make([]byte, len(l.Bytes)))
			case "int":
				l.SetInt(0)
			default:
				return false
			}
			return true
		}},
		{"otherSender", fromAlt("sender")},
		{"otherRecipient", fromAlt("recipient")},
		{"otherSession", fromAlt("session")},
		{"truncate", func(t *proto.Tree, l *proto.Leaf, _ map[string]*proto.Tree) bool { return l.Truncate() }},
		{"extend", func(t *proto.Tree, l *proto.Leaf, _ map[string]*proto.Tree) bool { return l.Extend() }},
		{"swap01", func(t *proto.Tree, l *proto.Leaf, _ map[string]*proto.Tree) bool {
			return l.Len >= 2 && l.SwapKids(0, 1)
		}},
		{"shortenBytes", func(t *proto.Tree, l *proto.Leaf, _ map[string]*proto.Tree) bool {
			// fixed-size byte arrays are zero-padded by the decoder: dropping a trailing zero byte decodes to the very same value
			if l.Kind != "bytes" || len(l.Bytes) < 2 || l.Bytes[len(l.Bytes)-1] == 0 {
				return false
			}
			l.SetBytes(l.Bytes[:len(l.Bytes)-1])
			return true
		}},
	}
}

func main() {
	qf := flag.Uint64("q", 45971, "toy field order")
	out := flag.String("out", "trace.ndjson", "trace file")
	seed := flag.Uint64("seed", 1, "seed")
	only := flag.String("proto", "", "comma separated scenario names (default all)")
	stride := flag.Int("stride", 1, "take every stride-th tamper case (sampling for quick runs)")
	startAt := flag.Int("from", 0, "skip tamper cases with number < from (resume after a process crash)")
	intent := flag.String("intent", "", "file receiving the case about to run (so that a crash of the whole process can be attributed)")
	flag.Parse()
	toy.Setup(*qf)
	w := tr.NewW(*out)
	defer w.Close()
	w.Emit(map[string]any{"a": "hdr", "q": *qf, "seed": *seed})
	want := map[string]bool{}
	for _, n := range strings.Split(*only, ",") {
		if n != "" {
			want[n] = true
		}
	}
	caseNo := 0
	for _, sc := range scen.Scenarios() {
		if len(want) > 0 && !want[sc.Name] {
			continue
		}
		sd := *seed * 7919
		var b *scen.Built
		var msgs []rec
		var hres *proto.Result
		for {
			b, msgs, hres = honestRun(sc, sd)
			if b != nil && len(hres.Rejects) == 0 {
				break
			}
			sd++ // a 1/q event of the toy group (identity key, documented retry): take the next seed
		}
		all := []ID{}
		for _, p := range b.Parties {
			all = append(all, p.ID())
		}
		sort.Slice(all, func(i, j int) bool { return all[i] < all[j] })
		w.Emit(map[string]any{"a": "honest", "proto": sc.Name, "parties": ids(all), "completed": ids(hres.Completed), "out": b.Outputs(hres.Completed), "trusted": uint64(b.Trusted)})
		// a parallel session of the same protocol (different randomness) for replay operators
		var msgs2 []rec
		for sd2 := sd + 1000; ; sd2++ {
			b2, m2, r2 := honestRun(sc, sd2)
			if b2 != nil && len(r2.Rejects) == 0 {
				msgs2 = m2
				break
			}
		}
		find := func(ms []rec, round int, from, to ID, kind string) []byte {
			for _, m := range ms {
				if m.round == round && m.from == from && m.kind == kind && (kind == "b" || m.to == to) {
					return m.data
				}
			}
			return nil
		}
		// distinct (round, from, kind, to) messages; a broadcast is one message whatever the recipient
		type mk struct {
			round int
			from  ID
			kind  string
			to    ID
		}
		seen := map[mk]bool{}
		for _, m := range msgs {
			k := mk{m.round, m.from, m.kind, m.to}
			if m.kind == "b" {
				k.to = 0
			}
			if seen[k] {
				continue
			}
			fromTrusted := m.from == b.Trusted && b.Trusted != 0 // the anchor deviates: only blame and no-crash are owed (ProtoCore)
			seen[k] = true
			tree, err := proto.Parse(m.data)
			if err != nil {
				panic(err)
			}
			alt := func() map[string]*proto.Tree {
				a := map[string]*proto.Tree{}
				for _, o := range all { // same message of another sender
					if o != m.from && o != m.to {
						if d := find(msgs, m.round, o, m.to, m.kind); d != nil {
							a["sender"], _ = proto.Parse(d)
							break
						}
					}
				}
				if m.kind == "u" {
					for _, o := range all { // what the same sender sent to another recipient
						if o != m.from && o != m.to {
							if d := find(msgs, m.round, m.from, o, "u"); d != nil {
								a["recipient"], _ = proto.Parse(d)
								break
							}
						}
					}
				}
				if d := find(msgs2, m.round, m.from, m.to, m.kind); d != nil {
					a["session"], _ = proto.Parse(d)
				}
				return a
			}
			type tcase struct {
				leaf, path, op string
				mut            func([]byte) ([]byte, bool)
			}
			cases := []tcase{{"/", "/", "drop", func([]byte) ([]byte, bool) { return nil, true }}}
			if d := find(msgs2, m.round, m.from, m.to, m.kind); d != nil {
				cases = append(cases, tcase{"/", "/", "replayOtherSession", func([]byte) ([]byte, bool) { return d, false }})
			}
			for _, o := range all {
				if o != m.from && o != m.to {
					if d := find(msgs, m.round, o, m.to, m.kind); d != nil {
						cases = append(cases, tcase{"/", "/", "replayOtherSender", func([]byte) ([]byte, bool) { return d, false }})
						break
					}
				}
			}
			for _, l := range tree.Leaves() {
				for _, o := range ops() {
					l, o := l, o
					t2, _ := proto.Parse(m.data)
					l2 := t2.Find(l.Path)
					if l2 == nil || !o.apply(t2, l2, alt()) {
						continue
					}
					enc := t2.Encode()
					cases = append(cases, tcase{l.Class, l.Path, o.name, func([]byte) ([]byte, bool) { return enc, false }})
				}
			}
			for _, c := range cases {
				caseNo++
				if *stride > 1 && caseNo%*stride != 0 {
					continue
				}
				if caseNo < *startAt {
					continue
				}
				if *intent != "" { // so that a crash of the whole process (panic in a library goroutine) can be attributed
					w.Emit(map[string]any{"a": "intent", "case": caseNo, "k": fmt.Sprintf("%s:r%d%s:%s:%s", sc.Name, m.round, m.kind, c.leaf, c.op), "proto": sc.Name, "round": m.round,
						"kind": m.kind, "from": uint64(m.from), "to": uint64(m.to), "leaf": c.leaf, "path": c.path, "op": c.op})
					w.Flush()
				}
				bt := sc.Build(scen.NewStreams(sd))
				var sent []byte
				tam := &proto.Tamper{Round: m.round, From: m.from, To: m.to, Kind: m.kind, F: func(d []byte) ([]byte, bool) {
					o, drop := c.mut(d)
					sent = o
					return o, drop
				}}
				res := proto.Run(bt.Parties, tam, nil)
				changed := c.op == "drop" || !bytes.Equal(sent, m.data)
				comp := []ID{}
				for _, id := range res.Completed {
					if id != m.from {
						comp = append(comp, id)
					}
				}
				w.Emit(map[string]any{"a": "tamper", "case": caseNo, "k": fmt.Sprintf("%s:r%d%s:%s:%s", sc.Name, m.round, m.kind, c.leaf, c.op), "proto": sc.Name, "round": m.round, "kind": m.kind,
					"from": uint64(m.from), "to": uint64(m.to), "leaf": c.leaf, "path": c.path, "idx": lastIndex(c.path), "op": c.op, "changed": changed,
					"rejects": rejectsJ(res.Rejects), "completed": ids(comp), "out": bt.Outputs(comp), "stop": res.StopRound,
					"parties": ids(all), "senderIsPrev": bt.IsPrev == nil || bt.IsPrev[m.from], "fromTrusted": fromTrusted, "prev": prevOf(bt, all)})
			}
		}
		// ---- consistent strategies: the deviator deals a DIFFERENT value consistently (verification vector entry 0 times g^delta,
		// every share coordinate plus delta: the first coefficient of every row is 1 in the threshold programmes used here), so
		// that share verification passes and only the protocol-level checks on entry 0 can object ----
		type strat struct {
			round   int
			vvClass string
			shClass string
			claim   string // a second vector whose entry 0 is shifted too (the previous public key the deviator CLAIMS), "" if none
		}
		strats := map[string][]strat{
			"hjky":      {{1, "/verificationVector/verification_vector/data[]", "/zeroShare/value[]", ""}},
			"lindell22": {{1, "/zeroR1/verificationVector/verification_vector/data[]", "/zeroR1/zeroShare/value[]", ""}},
			"redist": {{2, "/NextVerificationVectorContribution/verification_vector/data[]", "/NextShareContribution/value[]", ""},
				{2, "/NextVerificationVectorContribution/verification_vector/data[]", "/NextShareContribution/value[]", "/PrevVerificationVector/verification_vector/data[]"}},
			"redistAnchor": {{2, "/NextVerificationVectorContribution/verification_vector/data[]", "/NextShareContribution/value[]", ""},
				{2, "/NextVerificationVectorContribution/verification_vector/data[]", "/NextShareContribution/value[]", "/PrevVerificationVector/verification_vector/data[]"}},
			"redistNew": {{2, "/NextVerificationVectorContribution/verification_vector/data[]", "/NextShareContribution/value[]", ""},
				{2, "/NextVerificationVectorContribution/verification_vector/data[]", "/NextShareContribution/value[]", "/PrevVerificationVector/verification_vector/data[]"}},
		}

		for _, stg := range strats[sc.Name] {
			for _, dev := range all {
				if dev == b.Trusted || (b.IsPrev != nil && !b.IsPrev[dev]) {
					continue
				}
				caseNo++
				if caseNo < *startAt {
					continue
				}
				delta := toy.FromInt(1 + uint64(caseNo)%5)
				bt := sc.Build(scen.NewStreams(sd))
				touched := false
				tam := &proto.Tamper{Round: stg.round, From: dev, All: func(to ID, kind string, data []byte) ([]byte, bool) {
					t, err := proto.Parse(data)
					if err != nil {
						return data, false
					}
					for _, l := range t.Leaves() {
						switch {
						case (l.Class == stg.vvClass || (stg.claim != "" && l.Class == stg.claim)) && strings.HasSuffix(l.Path, "data[0]"):
							e, err := toy.NewGroup().FromBytes(l.Bytes)
							if err == nil {
								l.SetBytes(e.Op(toy.NewGroup().ScalarBaseOp(delta)).Bytes())
								touched = true
							}
						case l.Class == stg.shClass:
							var s toy.Scalar
							if s.UnmarshalBinary(l.Bytes) == nil {
								nb, _ := s.Add(delta).MarshalBinary()
								l.SetBytes(nb)
								touched = true
							}
						}
					}
					return t.Encode(), false
				}}
				if *intent != "" {
					w.Emit(map[string]any{"a": "intent", "case": caseNo, "k": fmt.Sprintf("%s:r%d:strategy:%s", sc.Name, stg.round, stratName(stg.round, stg.claim)), "proto": sc.Name, "round": stg.round, "kind": "*", "from": uint64(dev), "to": 0, "leaf": "/strategy", "path": "/strategy", "op": "redeal"})
					w.Flush()
				}
				res := proto.Run(bt.Parties, tam, nil)
				comp := []ID{}
				for _, id := range res.Completed {
					if id != dev {
						comp = append(comp, id)
					}
				}
				w.Emit(map[string]any{"a": "tamper", "case": caseNo, "k": fmt.Sprintf("%s:r%d:strategy:%s", sc.Name, stg.round, stratName(stg.round, stg.claim)), "proto": sc.Name, "round": stg.round, "kind": "b",
					"from": uint64(dev), "to": 0, "leaf": "/strategy", "path": "/strategy", "idx": -1, "op": stratName(stg.round, stg.claim), "changed": touched,
					"rejects": rejectsJ(res.Rejects), "completed": ids(comp), "out": bt.Outputs(comp), "stop": res.StopRound,
					"parties": ids(all), "senderIsPrev": bt.IsPrev == nil || bt.IsPrev[dev], "fromTrusted": false})
			}
		}
		// ---- redistribution: the zero sharing of round 1 consistently re-dealt as a sharing of delta over the unanimity programme
		// of the previous holders (rows e_2..e_n for all but the highest identifier, (1,-1,..,-1) for the highest: only its
		// share moves), followed - when the deviator itself is that holder and so never puts the moved share on the wire - by
		// the matching re-dealt contribution in round 2.  Every Feldman check passes; only "a zero sharing commits to zero"
		// (HJKY) and "the key is unchanged" (round 3) can object.
		if sc.Name == "redist" || sc.Name == "redistAnchor" || sc.Name == "redistNew" {
			var maxPrev ID
			for _, id := range all {
				if (b.IsPrev == nil || b.IsPrev[id]) && id > maxPrev {
					maxPrev = id
				}
			}
			for _, dev := range all {
				if dev == b.Trusted || (b.IsPrev != nil && !b.IsPrev[dev]) {
					continue
				}
				caseNo++
				if caseNo < *startAt {
					continue
				}
				delta := toy.FromInt(1 + uint64(caseNo)%5)
				bt := sc.Build(scen.NewStreams(sd))
				touched := false
				shiftElem := func(l *proto.Leaf) {
					if e, err := toy.NewGroup().FromBytes(l.Bytes); err == nil {
						l.SetBytes(e.Op(toy.NewGroup().ScalarBaseOp(delta)).Bytes())
						touched = true
					}
				}
				shiftScalar := func(l *proto.Leaf) {
					var s toy.Scalar
					if s.UnmarshalBinary(l.Bytes) == nil {
						nb, _ := s.Add(delta).MarshalBinary()
						l.SetBytes(nb)
						touched = true
					}
				}
				tam := &proto.Tamper{From: dev, AllR: func(round int, to ID, kind string, data []byte) ([]byte, bool) {
					t, err := proto.Parse(data)
					if err != nil {
						return data, false
					}
					for _, l := range t.Leaves() {
						switch {
						case round == 1 && l.Class == "/ZeroR1/verificationVector/verification_vector/data[]" && strings.HasSuffix(l.Path, "data[0]"):
							shiftElem(l)
						case round == 1 && l.Class == "/ZeroR1/zeroShare/value[]" && to == maxPrev:
							shiftScalar(l)
						case round == 2 && dev == maxPrev && l.Class == "/NextVerificationVectorContribution/verification_vector/data[]" && strings.HasSuffix(l.Path, "data[0]"):
							shiftElem(l)
						case round == 2 && dev == maxPrev && l.Class == "/NextShareContribution/value[]":
							shiftScalar(l)
						}
					}
					return t.Encode(), false
				}}
				k := fmt.Sprintf("%s:r1:strategy:rezero", sc.Name)
				if *intent != "" {
					w.Emit(map[string]any{"a": "intent", "case": caseNo, "k": k, "proto": sc.Name, "round": 1, "kind": "*", "from": uint64(dev), "to": 0, "leaf": "/strategy", "path": "/strategy", "op": "rezero"})
					w.Flush()
				}
				res := proto.Run(bt.Parties, tam, nil)
				comp := []ID{}
				for _, id := range res.Completed {
					if id != dev {
						comp = append(comp, id)
					}
				}
				w.Emit(map[string]any{"a": "tamper", "case": caseNo, "k": k, "proto": sc.Name, "round": 1, "kind": "b",
					"from": uint64(dev), "to": 0, "leaf": "/strategy", "path": "/strategy", "idx": -1, "op": "rezero", "changed": touched,
					"rejects": rejectsJ(res.Rejects), "completed": ids(comp), "out": bt.Outputs(comp), "stop": res.StopRound,
					"parties": ids(all), "senderIsPrev": true, "fromTrusted": false})
			}
		}
	}
	fmt.Printf("events=%d\n", w.N)
}


// stratName names a consistent strategy: the round-1 zero sharing re-dealt, the contribution re-dealt, or re-dealt with a matching claim.
func stratName(round int, claim string) string {
	switch {
	case round == 1:
		return "rezero"
	case claim != "":
		return "redealClaim"
	}
	return "redeal"
}


// prevOf lists the parties that hold a share of the previous epoch (all parties where the scenario has no such notion).
func prevOf(b *scen.Built, all []ID) []uint64 {
	out := []uint64{}
	for _, id := range all {
		if b.IsPrev == nil || b.IsPrev[id] {
			out = append(out, uint64(id))
		}
	}
	return out
}

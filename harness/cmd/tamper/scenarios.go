package main

import (
	"fmt"
	"io"

	"github.com/bronlabs/bron-crypto/pkg/base/datastructures/hashmap"
	"github.com/bronlabs/bron-crypto/pkg/base/serde"
	"github.com/bronlabs/bron-crypto/pkg/mpc/dkg/trusteddealer"
	"github.com/bronlabs/bron-crypto/pkg/mpc/signatures/schnorr/lindell22/signing"
	"github.com/bronlabs/bron-crypto/pkg/proofs/sigma/compiler/fiatshamir"

	ad "verif/harness/adapters"
	"verif/harness/proto"
	"verif/harness/toy"
	"verif/harness/tr"
)

// A scenario builds, deterministically from a seed, the parties of one protocol run and a function
// that projects the outputs of the parties that completed.
type built struct {
	parties []proto.Party
	outputs func(completed []ID) map[string]any
	trusted ID // a party that must not be the deviator (redistribution anchor), 0 if none
	isPrev  map[ID]bool // redistribution: previous holders (nil elsewhere)
}

type scenario struct {
	name  string
	build func(seed uint64) *built
}

func rngFor(seed uint64) func(ID) io.Reader {
	n := uint64(0)
	return func(id ID) io.Reader { n++; return tr.Rng(seed, 5000+n*131+uint64(id)) }
}

func pol3() *ad.Policy { return &ad.Policy{Kind: "threshold", T: 2, IDs: []uint64{1, 2, 3}} }

func shardOut(get func(ID) *ad.Shard) func([]ID) map[string]any {
	return func(completed []ID) map[string]any {
		out := map[string]any{}
		for _, id := range completed {
			if sh := get(id); sh != nil {
				out[fmt.Sprint(uint64(id))] = ad.ShardJ(sh)
			}
		}
		return map[string]any{"kind": "shard", "by": out}
	}
}

func scenarios() []scenario {
	return []scenario{
		{"session", func(seed uint64) *built {
			ids := []ID{1, 2, 3}
			r := rngFor(seed)
			sp := map[ID]*ad.SessionParty{}
			ps := []proto.Party{}
			for _, id := range ids {
				p, err := ad.NewSessionParty(id, ids, r(id))
				if err != nil {
					panic(err)
				}
				sp[id] = p
				ps = append(ps, p)
			}
			return &built{parties: ps, outputs: func(completed []ID) map[string]any {
				out := map[string]any{}
				for _, id := range completed {
					c := sp[id].Ctx
					sid := c.SessionID()
					seeds := map[string]any{}
					for peer, rd := range c.Seeds() {
						buf := make([]byte, 32)
						io.ReadFull(rd, buf)
						seeds[fmt.Sprint(uint64(peer))] = proto.Tok(buf)
					}
					tb, _ := c.Transcript().Clone().ExtractBytes("verif-probe", 32)
					out[fmt.Sprint(uint64(id))] = map[string]any{"sid": proto.Tok(sid[:]), "tr": proto.Tok(tb), "seeds": seeds}
				}
				return map[string]any{"kind": "session", "by": out}
			}}
		}},
		{"hjky", func(seed uint64) *built {
			ids := []ID{1, 2, 3}
			r := rngFor(seed)
			ctxs, err := ad.SetupSessions(ids, r)
			if err != nil {
				panic(err)
			}
			as, _ := pol3().Build()
			hp := map[ID]*ad.HJKYParty{}
			ps := []proto.Party{}
			for _, id := range ids {
				p, err := ad.NewHJKYParty(ctxs[id], as, r(id))
				if err != nil {
					panic(err)
				}
				hp[id] = p
				ps = append(ps, p)
			}
			return &built{parties: ps, outputs: func(completed []ID) map[string]any {
				out := map[string]any{}
				var M, lab any
				for _, id := range completed {
					out[fmt.Sprint(uint64(id))] = map[string]any{"share": ad.ShareJ(hp[id].OutShare), "vv": ad.VVJ(hp[id].OutVV)}
				}
				sch, _ := newFeldman(as)
				m := ad.MSPJ(sch.MSP())
				M, lab = m["M"], m["lab"]
				return map[string]any{"kind": "zero", "by": out, "M": M, "lab": lab}
			}}
		}},
		{"redist", func(seed uint64) *built { return buildRedist(seed, []ID{1, 2}, []uint64{1, 2, 3}, 0) }},
		{"redistAnchor", func(seed uint64) *built { return buildRedist(seed, []ID{1, 2, 3}, []uint64{2, 3, 4}, 1) }},
		{"gennaro", func(seed uint64) *built {
			ids := []ID{1, 2, 3}
			r := rngFor(seed)
			ctxs, err := ad.SetupSessions(ids, r)
			if err != nil {
				panic(err)
			}
			as, _ := pol3().Build()
			gp := map[ID]*ad.GennaroParty{}
			ps := []proto.Party{}
			for _, id := range ids {
				p, err := ad.NewGennaroParty(ctxs[id], as, fiatshamir.Name, r(id))
				if err != nil {
					panic(err)
				}
				gp[id] = p
				ps = append(ps, p)
			}
			return &built{parties: ps, outputs: shardOut(func(id ID) *ad.Shard { return gp[id].Out })}
		}},
		{"canetti", func(seed uint64) *built {
			ids := []ID{1, 2, 3}
			r := rngFor(seed)
			ctxs, err := ad.SetupSessions(ids, r)
			if err != nil {
				panic(err)
			}
			as, _ := pol3().Build()
			cp := map[ID]*ad.CanettiParty{}
			ps := []proto.Party{}
			for _, id := range ids {
				p, err := ad.NewCanettiParty(ctxs[id], as, r(id))
				if err != nil {
					panic(err)
				}
				cp[id] = p
				ps = append(ps, p)
			}
			return &built{parties: ps, outputs: shardOut(func(id ID) *ad.Shard { return cp[id].Out })}
		}},
		{"lindell22", func(seed uint64) *built {
			ids := []ID{1, 2, 3}
			r := rngFor(seed)
			as, _ := pol3().Build()
			shards, err := trusteddealer.Deal(toy.NewGroup(), as, r(0))
			if err != nil {
				panic(err)
			}
			pk := uint64(0)
			for _, sh := range shards.Iter() {
				pk = sh.PublicKeyValue().Log()
			}
			ctxs, err := ad.SetupSessions(ids, r)
			if err != nil {
				panic(err)
			}
			sp := map[ID]*signParty{}
			ps := []proto.Party{}
			msg := []byte("tamper-message")
			for _, id := range ids {
				sh, _ := shards.Get(id)
				ss, err := ad.ToSchnorrShard(sh)
				if err != nil {
					return nil // identity public key (1/q): the caller picks another seed
				}
				lp, err := ad.NewL22Party(ctxs[id], ss, fiatshamir.Name, msg, r(id))
				if err != nil {
					panic(err)
				}
				p := &signParty{L22Party: lp, shard: ss, ids: ids, rd: r(id)}
				sp[id] = p
				ps = append(ps, p)
			}
			return &built{parties: ps, outputs: func(completed []ID) map[string]any {
				out := map[string]any{}
				for _, id := range completed {
					if s := sp[id].sig; s != nil {
						out[fmt.Sprint(uint64(id))] = map[string]any{"R": s.R.Log(), "S": s.S.Int(), "E": s.E.Int()}
					}
				}
				return map[string]any{"kind": "sig", "by": out, "pk": pk}
			}}
		}},
	}
}

// signParty = Lindell22 cosigner plus a 4th round in which every signer acts as cosigning aggregator over the
// partial signatures broadcast in round 3.
type signParty struct {
	*ad.L22Party
	shard *ad.SchnorrShard
	ids   []ID
	rd    io.Reader
	sig   *ad.Sig
}

func (s *signParty) Rounds() int { return 4 }
func (s *signParty) Round(k int, inB, inU map[ID][]byte) ([]byte, map[ID][]byte, error) {
	switch k {
	case 1, 2:
		return s.L22Party.Round(k, inB, inU)
	case 3:
		if _, _, err := s.L22Party.Round(3, inB, inU); err != nil {
			return nil, nil, err
		}
		return proto.Enc(s.PSig), nil, nil
	case 4:
		in, err := proto.DecMap[*ad.PSig](inB)
		if err != nil {
			return nil, nil, err
		}
		pm := hashmap.NewComparable[ID, *ad.PSig]()
		for id, p := range in.Iter() {
			pm.Put(id, p)
		}
		pm.Put(s.Id, s.PSig)
		sch, err := ad.NewSchnorrScheme(s.rd)
		if err != nil {
			return nil, nil, err
		}
		agg, err := signing.NewCosigningAggregator(s.C, s.shard.PublicKeyMaterial(), sch)
		if err != nil {
			return nil, nil, err
		}
		sig, err := agg.Aggregate(pm.Freeze(), s.Message)
		if err != nil {
			return nil, nil, err
		}
		s.sig = sig
		return nil, nil, nil
	}
	panic("bad round")
}

func buildRedist(seed uint64, prev []ID, nextIDs []uint64, anchor ID) *built {
	r := rngFor(seed)
	as, _ := pol3().Build()
	shards, err := trusteddealer.Deal(toy.NewGroup(), as, r(0))
	if err != nil {
		panic(err)
	}
	next := &ad.Policy{Kind: "threshold", T: 2, IDs: nextIDs}
	nextAS, _ := next.Build()
	all := map[ID]bool{}
	for _, i := range prev {
		all[i] = true
	}
	for _, i := range nextIDs {
		all[ID(i)] = true
	}
	parties := []ID{}
	for i := ID(1); i < 10; i++ {
		if all[i] {
			parties = append(parties, i)
		}
	}
	ctxs, err := ad.SetupSessions(parties, r)
	if err != nil {
		panic(err)
	}
	isPrev := map[ID]bool{}
	for _, i := range prev {
		isPrev[i] = true
	}
	rp := map[ID]*ad.RedistParty{}
	ps := []proto.Party{}
	for _, id := range parties {
		var sh *ad.Shard
		if isPrev[id] {
			sh, _ = shards.Get(id)
		}
		a := ID(0)
		if !isPrev[id] {
			a = anchor
		}
		p, err := ad.NewRedistParty(ctxs[id], prev, sh, nextAS, r(id), a)
		if err != nil {
			panic(err)
		}
		rp[id] = p
		ps = append(ps, p)
	}
	oldPk := uint64(0)
	for _, sh := range shards.Iter() {
		oldPk = sh.PublicKeyValue().Log()
	}
	so := shardOut(func(id ID) *ad.Shard { return rp[id].Out })
	return &built{parties: ps, trusted: anchor, isPrev: isPrev, outputs: func(completed []ID) map[string]any {
		m := so(completed)
		m["oldPk"] = oldPk
		return m
	}}
}

var _ = serde.MarshalCBOR[int]

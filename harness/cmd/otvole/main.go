// otvole runs the endemic base OT (ecbbot) and the random-VOLE multiplication built on it (rvole/bbot) with both
// parties honest, over many batch sizes, block lengths, choice patterns and inputs, on the toy group (C09).
// Exact mode (q = 45971) lets TLC check c + d = a * b; 61-bit mode makes "the two sender messages differ" meaningful.
package main

import (
	"bytes"
	"flag"
	"fmt"
	"io"

	ad "verif/harness/adapters"
	"verif/harness/proto"
	"verif/harness/toy"
	"verif/harness/tr"
)

type ID = ad.ID

func main() {
	qf := flag.Uint64("q", 45971, "toy field order (0 = 61-bit mode)")
	out := flag.String("out", "trace.ndjson", "trace file")
	seed := flag.Uint64("seed", 1, "seed")
	n := flag.Int("n", 20, "runs per kind")
	flag.Parse()
	if *qf == 0 {
		toy.SetupBig(61)
	} else {
		toy.Setup(*qf)
	}
	w := tr.NewW(*out)
	defer w.Close()
	w.Emit(map[string]any{"a": "hdr", "q": *qf, "seed": *seed})
	rng := tr.PRand(*seed, 9)
	strm := uint64(0)
	rd := func(ID) io.Reader { strm++; return tr.Rng(*seed, 77000+strm) }
	idEnc := toy.NewGroup().OpIdentity().Bytes()
	for it := 0; it < *n; it++ {
		ids := []ID{ID(1 + rng.IntN(5)), ID(10 + rng.IntN(5))}
		ctxs, err := ad.SetupSessions(ids, rd)
		if err != nil {
			panic(err)
		}
		// ---- base OT ----
		xi := []int{8, 16, 128, 256}[rng.IntN(4)]
		l := []int{1, 2, 4}[rng.IntN(3)]
		choices := make([]byte, xi/8)
		pattern := []string{"zeros", "ones", "alternating", "random"}[rng.IntN(4)]
		for i := range choices {
			switch pattern {
			case "ones":
				choices[i] = 0xff
			case "alternating":
				choices[i] = 0xaa
			case "random":
				choices[i] = byte(rng.IntN(256))
			}
		}
		snd, rcv, err := ad.NewOTPair(ctxs[ids[0]], ctxs[ids[1]], xi, l, choices, rd(0), rd(0))
		if err != nil {
			panic(err)
		}
		identity := false
		res := proto.Run([]proto.Party{snd, rcv}, nil, func(_ int, _, _ ID, _ string, data []byte) {
			if t, err := proto.Parse(data); err == nil {
				for _, lf := range t.Leaves() {
					if lf.Kind == "bytes" && bytes.Equal(lf.Bytes, idEnc) {
						identity = true
					}
				}
			}
		})
		o := map[string]any{"kind": "ot", "done": ad.IDsU(res.Completed), "big": toy.Big, "xi": xi, "l": l, "pattern": pattern}
		if len(res.Rejects) == 0 {
			bits := []int{}
			s0, s1, rv := [][]uint64{}, [][]uint64{}, [][]uint64{}
			for i := 0; i < xi; i++ {
				bits = append(bits, int((choices[i/8]>>(i%8))&1))
				s0 = append(s0, tr.Ints(snd.Out.Messages[i][0]))
				s1 = append(s1, tr.Ints(snd.Out.Messages[i][1]))
				rv = append(rv, tr.Ints(rcv.Out.Messages[i]))
			}
			o["choices"], o["s0"], o["s1"], o["recv"] = bits, s0, s1, rv
		}
		w.Emit(map[string]any{"a": "honest", "k": fmt.Sprintf("ot:xi=%d:l=%d:%s", xi, l, pattern), "proto": "ecbbot", "parties": ad.IDsU(ids), "completed": ad.IDsU(res.Completed), "out": o,
			"identitySeen": identity, "rejected": len(res.Rejects) > 0, "rejects": fmt.Sprint(res.Rejects)})
		// ---- random VOLE ----
		ctxs2, err := ad.SetupSessions(ids, rd)
		if err != nil {
			panic(err)
		}
		L := []int{1, 2, 4}[rng.IntN(3)]
		a := make([]ad.S, L)
		kinds := []string{}
		for i := range a {
			switch k := rng.IntN(4); k {
			case 0:
				a[i] = toy.FromInt(0)
				kinds = append(kinds, "0")
			case 1:
				a[i] = toy.FromInt(1)
				kinds = append(kinds, "1")
			case 2:
				a[i] = toy.FromInt(toy.Q - 1)
				kinds = append(kinds, "-1")
			default:
				a[i], _ = toy.NewScalarField().Random(rd(0))
				kinds = append(kinds, "*")
			}
		}
		al, bo, err := ad.NewVolePair(ctxs2[ids[0]], ctxs2[ids[1]], L, a, rd(0), rd(0))
		if err != nil {
			panic(err)
		}
		identity = false
		res = proto.Run([]proto.Party{al, bo}, nil, func(_ int, _, _ ID, _ string, data []byte) {
			if t, err := proto.Parse(data); err == nil {
				for _, lf := range t.Leaves() {
					if lf.Kind == "bytes" && bytes.Equal(lf.Bytes, idEnc) {
						identity = true
					}
				}
			}
		})
		o = map[string]any{"kind": "vole", "done": ad.IDsU(res.Completed), "big": toy.Big, "L": L, "inputs": kinds}
		if len(res.Rejects) == 0 {
			o["a"], o["b"], o["c"], o["d"] = tr.Ints(a), bo.Bv.Int(), tr.Ints(al.C), tr.Ints(bo.D)
		}
		w.Emit(map[string]any{"a": "honest", "k": fmt.Sprintf("vole:L=%d", L), "proto": "rvole", "parties": ad.IDsU(ids), "completed": ad.IDsU(res.Completed), "out": o,
			"identitySeen": identity, "rejected": len(res.Rejects) > 0, "rejects": fmt.Sprint(res.Rejects)})
	}
	fmt.Printf("events=%d\n", w.N)
}

// homenc (plain binary: the library's key-size floors are ON). The toy keys must be refused here;
// ElGamal has no floor and runs in either build.
package main

import (
	"os"

	"verif/harness/homenc"
)

func main() { os.Exit(homenc.Main(os.Args[1:])) }

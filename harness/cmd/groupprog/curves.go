package main

import (
	"crypto/elliptic"
	"math/big"

	"github.com/bronlabs/bron-crypto/pkg/base/curves/curve25519"
	"github.com/bronlabs/bron-crypto/pkg/base/curves/edwards25519"
	"github.com/bronlabs/bron-crypto/pkg/base/curves/k256"
	"github.com/bronlabs/bron-crypto/pkg/base/curves/p256"
	"github.com/bronlabs/bron-crypto/pkg/base/curves/pairable/bls12381"
	"github.com/bronlabs/bron-crypto/pkg/base/curves/pasta"
	"github.com/bronlabs/bron-crypto/pkg/base/utils/algebrautils"
)

type pointT[P any, S any] interface {
	Add(P) P
	Double() P
	Neg() P
	Sub(P) P
	Equal(P) bool
	IsOpIdentity() bool
	Bytes() []byte
	ScalarMul(S) P
}

type scalarT[S any] interface {
	Neg() S
	Bytes() []byte
}

type sfieldT[S any] interface {
	Zero() S
	One() S
	FromUint64(uint64) S
	FromWideBytes([]byte) (S, error)
}

// scalarsOf builds the symbolic scalar constants of the specification through the scalar field API.
func scalarsOf[S scalarT[S], F sfieldT[S]](sf F, order *big.Int) (map[string]S, func(int) S) {
	wide := func(v *big.Int) S {
		s, err := sf.FromWideBytes(v.Bytes())
		must(err)
		return s
	}
	ofInt := func(k int) S {
		if k < 0 {
			return sf.FromUint64(uint64(-k)).Neg()
		}
		return sf.FromUint64(uint64(k))
	}
	return map[string]S{
		"z0": sf.Zero(), "one": sf.One(), "two": sf.FromUint64(2), "three": sf.FromUint64(3),
		"m1": sf.One().Neg(), "m2": sf.FromUint64(2).Neg(),
		"ordw": wide(order), "om1w": wide(new(big.Int).Sub(order, big.NewInt(1))), "op2w": wide(new(big.Int).Add(order, big.NewInt(2))),
		"kk": sf.FromUint64(uint64(kk)),
	}, ofInt
}

func mkCurve[P pointT[P, S], S scalarT[S], F sfieldT[S]](name string, gen, id P, sf F, order *big.Int,
	fromBytes func([]byte) (P, error), sbase func(S) P, msm func([]S, []P) (P, error), msmu func([]S, []P) P) *grp[P] {
	codes, ofInt := scalarsOf[S, F](sf, order)
	pick := func(cs []string) []S {
		out := make([]S, len(cs))
		for i, c := range cs {
			out[i] = codes[c]
		}
		return out
	}
	g := &grp[P]{
		name: name, gen: gen, id: id,
		add: func(a, b P) P { return a.Add(b) }, sub: func(a, b P) P { return a.Sub(b) },
		dbl: func(a P) P { return a.Double() }, neg: func(a P) P { return a.Neg() },
		eq: func(a, b P) bool { return a.Equal(b) }, isid: func(a P) bool { return a.IsOpIdentity() },
		bytes: func(a P) []byte { return a.Bytes() }, fromBytes: fromBytes,
		smul:    func(a P, c string) P { return a.ScalarMul(codes[c]) },
		smulInt: func(a P, k int) P { return a.ScalarMul(ofInt(k)) },
	}
	if sbase != nil {
		g.sbase = func(c string) P { return sbase(codes[c]) }
		g.sbaseInt = func(k int) P { return sbase(ofInt(k)) }
	}
	if msm != nil {
		g.msm = func(cs []string, pts []P) (P, error) { return msm(pick(cs), pts) }
	}
	if msmu != nil {
		g.msmu = func(cs []string, pts []P) P { return msmu(pick(cs), pts) }
	}
	return g
}

type coordT interface{ Bytes() []byte }

func affineOf[P any, B coordT](ax func(P) (B, error), ay func(P) (B, error)) func(P) (*big.Int, *big.Int, bool) {
	return func(p P) (*big.Int, *big.Int, bool) {
		x, err := ax(p)
		if err != nil {
			return nil, nil, false
		}
		y, err := ay(p)
		if err != nil {
			return nil, nil, false
		}
		return new(big.Int).SetBytes(x.Bytes()), new(big.Int).SetBytes(y.Bytes()), true
	}
}

// weierIndep: independent [v]G on a short Weierstrass curve; the generator's coordinates are read from the
// library once and checked to lie on the curve by the independent arithmetic.
func weierIndep(c *wcurve, gx, gy *big.Int) func(int) (*big.Int, *big.Int, bool) {
	G := apt{x: gx, y: gy}
	if !c.onCurve(G) {
		panic("generator not on the reference curve")
	}
	return func(v int) (*big.Int, *big.Int, bool) {
		p := c.mulInt(v, G)
		return p.x, p.y, p.inf
	}
}

func allRunners() []runner {
	var out []runner
	{ // secp256k1
		c := k256.NewCurve()
		g := mkCurve("k256", c.Generator(), c.OpIdentity(), k256.NewScalarField(), c.Order().Big(), c.FromBytes, c.ScalarBaseMul, c.MultiScalarMul,
			func(s []*k256.Scalar, p []*k256.Point) *k256.Point { return algebrautils.MultiScalarMul(s, p) })
		g.affine = affineOf((*k256.Point).AffineX, (*k256.Point).AffineY)
		gx, gy, _ := g.affine(g.gen)
		g.indep, g.indepName = weierIndep(wSecp, gx, gy), "math/big affine secp256k1"
		out = append(out, mkRunner(g))
	}
	{ // P-256: math/big model and crypto/elliptic
		c := p256.NewCurve()
		g := mkCurve("p256", c.Generator(), c.OpIdentity(), p256.NewScalarField(), c.Order().Big(), c.FromBytes, c.ScalarBaseMul, c.MultiScalarMul,
			func(s []*p256.Scalar, p []*p256.Point) *p256.Point { return algebrautils.MultiScalarMul(s, p) })
		g.affine = affineOf((*p256.Point).AffineX, (*p256.Point).AffineY)
		gx, gy, _ := g.affine(g.gen)
		mine := weierIndep(wP256, gx, gy)
		std := elliptic.P256()
		g.indepName = "math/big affine P-256 and crypto/elliptic"
		g.indep = func(v int) (*big.Int, *big.Int, bool) {
			x, y, inf := mine(v)
			if !inf {
				k := big.NewInt(int64(v))
				k.Mod(k, std.Params().N)
				sx, sy := std.ScalarBaseMult(k.Bytes())
				if sx.Cmp(x) != 0 || sy.Cmp(y) != 0 {
					return big.NewInt(-1), big.NewInt(-1), false // the two references disagree: fail the cross-check
				}
			}
			return x, y, inf
		}
		out = append(out, mkRunner(g))
	}
	{ // edwards25519, prime subgroup
		c := edwards25519.NewPrimeSubGroup()
		g := mkCurve("ed25519-prime", c.Generator(), c.OpIdentity(), edwards25519.NewScalarField(), c.Order().Big(), c.FromBytes, c.ScalarBaseMul, c.MultiScalarMul,
			func(s []*edwards25519.Scalar, p []*edwards25519.PrimeSubGroupPoint) *edwards25519.PrimeSubGroupPoint {
				return algebrautils.MultiScalarMul(s, p)
			})
		g.affine = affineOf((*edwards25519.PrimeSubGroupPoint).AffineX, (*edwards25519.PrimeSubGroupPoint).AffineY)
		gx, gy, _ := g.affine(g.gen)
		G := apt{x: gx, y: gy}
		if !eEd25519.onCurve(G) {
			panic("ed25519 generator not on the reference curve")
		}
		g.indepName = "math/big affine twisted Edwards"
		g.indep = func(v int) (*big.Int, *big.Int, bool) { p := eEd25519.mulInt(v, G); return p.x, p.y, v == 0 }
		// (the library gives no affine coordinates for the identity (0, 1), so v = 0 is compared through IsOpIdentity)
		out = append(out, mkRunner(g))
	}
	{ // edwards25519, full curve (cofactor 8), generator of the prime subgroup
		c := edwards25519.NewCurve()
		g := mkCurve("ed25519-full", c.PrimeSubGroupGenerator(), c.OpIdentity(), edwards25519.NewScalarField(), edwards25519.NewPrimeSubGroup().Order().Big(),
			c.FromBytes, nil, c.MultiScalarMul,
			func(s []*edwards25519.Scalar, p []*edwards25519.Point) *edwards25519.Point {
				return algebrautils.MultiScalarMul(s, p)
			})
		g.affine = affineOf((*edwards25519.Point).AffineX, (*edwards25519.Point).AffineY)
		gx, gy, _ := g.affine(g.gen)
		G := apt{x: gx, y: gy}
		g.indepName = "math/big affine twisted Edwards"
		g.indep = func(v int) (*big.Int, *big.Int, bool) { p := eEd25519.mulInt(v, G); return p.x, p.y, v == 0 }
		out = append(out, mkRunner(g))
	}
	{ // curve25519, prime subgroup and full curve: no second model of its own, cross-checked against chains only
		c := curve25519.NewPrimeSubGroup()
		g := mkCurve("x25519-prime", c.Generator(), c.OpIdentity(), curve25519.NewScalarField(), c.Order().Big(), c.FromBytes, c.ScalarBaseMul, nil,
			func(s []*curve25519.Scalar, p []*curve25519.PrimeSubGroupPoint) *curve25519.PrimeSubGroupPoint {
				return algebrautils.MultiScalarMul(s, p)
			})
		g.bytes = func(a *curve25519.PrimeSubGroupPoint) []byte { return a.ToUncompressed() } // Bytes() is the u-coordinate only
		g.fromBytes = c.FromUncompressed
		out = append(out, mkRunner(g))
		f := curve25519.NewCurve()
		gf := mkCurve("x25519-full", f.PrimeSubGroupGenerator(), f.OpIdentity(), curve25519.NewScalarField(), c.Order().Big(), f.FromBytes, nil, nil,
			func(s []*curve25519.Scalar, p []*curve25519.Point) *curve25519.Point {
				return algebrautils.MultiScalarMul(s, p)
			})
		gf.bytes = func(a *curve25519.Point) []byte { return a.ToUncompressed() }
		gf.fromBytes = f.FromUncompressed
		out = append(out, mkRunner(gf))
	}
	{ // Pallas / Vesta
		c := pasta.NewPallasCurve()
		g := mkCurve("pallas", c.Generator(), c.OpIdentity(), pasta.NewPallasScalarField(), c.Order().Big(), c.FromBytes, c.ScalarBaseMul, c.MultiScalarMul,
			func(s []*pasta.PallasScalar, p []*pasta.PallasPoint) *pasta.PallasPoint {
				return algebrautils.MultiScalarMul(s, p)
			})
		g.affine = affineOf((*pasta.PallasPoint).AffineX, (*pasta.PallasPoint).AffineY)
		gx, gy, _ := g.affine(g.gen)
		g.indep, g.indepName = weierIndep(wPallas, gx, gy), "math/big affine Pallas"
		out = append(out, mkRunner(g))
		v := pasta.NewVestaCurve()
		gv := mkCurve("vesta", v.Generator(), v.OpIdentity(), pasta.NewVestaScalarField(), v.Order().Big(), v.FromBytes, v.ScalarBaseMul, v.MultiScalarMul,
			func(s []*pasta.VestaScalar, p []*pasta.VestaPoint) *pasta.VestaPoint {
				return algebrautils.MultiScalarMul(s, p)
			})
		gv.affine = affineOf((*pasta.VestaPoint).AffineX, (*pasta.VestaPoint).AffineY)
		vx, vy, _ := gv.affine(gv.gen)
		gv.indep, gv.indepName = weierIndep(wVesta, vx, vy), "math/big affine Vesta"
		out = append(out, mkRunner(gv))
	}
	t := allRunnersTyped()
	out = append(out, mkRunner(t.g1), mkRunner(t.g2), mkRunner(t.gt))
	return out
}

type blsGroups struct {
	g1 *grp[*bls12381.PointG1]
	g2 *grp[*bls12381.PointG2]
	gt *grp[*bls12381.GtElement]
}

func allRunnersTyped() blsGroups {
	c := bls12381.NewG1()
	g := mkCurve("bls-g1", c.Generator(), c.OpIdentity(), bls12381.NewScalarField(), c.Order().Big(), c.FromBytes, c.ScalarBaseMul, c.MultiScalarMul,
		func(s []*bls12381.Scalar, p []*bls12381.PointG1) *bls12381.PointG1 {
			return algebrautils.MultiScalarMul(s, p)
		})
	g.affine = affineOf((*bls12381.PointG1).AffineX, (*bls12381.PointG1).AffineY)
	gx, gy, _ := g.affine(g.gen)
	g.indep, g.indepName = weierIndep(wBlsG1, gx, gy), "math/big affine BLS12-381 G1"
	c2 := bls12381.NewG2()
	g2 := mkCurve("bls-g2", c2.Generator(), c2.OpIdentity(), bls12381.NewScalarField(), c2.Order().Big(), c2.FromBytes, c2.ScalarBaseMul, c2.MultiScalarMul,
		func(s []*bls12381.Scalar, p []*bls12381.PointG2) *bls12381.PointG2 {
			return algebrautils.MultiScalarMul(s, p)
		})
	// BLS12-381 target group, written multiplicatively; generator e(G1, G2)
	gt := bls12381.NewGt()
	e, err := bls12381.NewG1().Generator().Pair(bls12381.NewG2().Generator())
	must(err)
	t := &grp[*bls12381.GtElement]{
		name: "bls-gt", gen: e, id: gt.One(),
		add:   func(a, b *bls12381.GtElement) *bls12381.GtElement { return a.Mul(b) },
		sub:   func(a, b *bls12381.GtElement) *bls12381.GtElement { return a.Div(b) },
		dbl:   func(a *bls12381.GtElement) *bls12381.GtElement { return a.Square() },
		neg:   func(a *bls12381.GtElement) *bls12381.GtElement { return a.Inv() },
		eq:    func(a, b *bls12381.GtElement) bool { return a.Equal(b) },
		isid:  func(a *bls12381.GtElement) bool { return a.IsOne() && a.IsOpIdentity() },
		bytes: func(a *bls12381.GtElement) []byte { return a.Bytes() }, fromBytes: gt.FromBytes,
	}
	return blsGroups{g, g2, t}
}

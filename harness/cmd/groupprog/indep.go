package main

// Independent reference arithmetic (math/big, affine, textbook formulas); nothing here calls into /repo.

import "math/big"

func hexInt(s string) *big.Int {
	v, ok := new(big.Int).SetString(s, 16)
	if !ok {
		panic("bad hex")
	}
	return v
}

// short Weierstrass y^2 = x^3 + a x + b over F_p
type wcurve struct{ P, A, B *big.Int }

type apt struct {
	x, y *big.Int
	inf  bool
}

var (
	wSecp   = &wcurve{hexInt("FFFFFFFFFFFFFFFFFFFFFFFFFFFFFFFFFFFFFFFFFFFFFFFFFFFFFFFEFFFFFC2F"), big.NewInt(0), big.NewInt(7)}
	wP256   = &wcurve{hexInt("FFFFFFFF00000001000000000000000000000000FFFFFFFFFFFFFFFFFFFFFFFF"), hexInt("FFFFFFFF00000001000000000000000000000000FFFFFFFFFFFFFFFFFFFFFFFC"), hexInt("5AC635D8AA3A93E7B3EBBD55769886BC651D06B0CC53B0F63BCE3C3E27D2604B")}
	wPallas = &wcurve{hexInt("40000000000000000000000000000000224698fc094cf91b992d30ed00000001"), big.NewInt(0), big.NewInt(5)}
	wVesta  = &wcurve{hexInt("40000000000000000000000000000000224698fc0994a8dd8c46eb2100000001"), big.NewInt(0), big.NewInt(5)}
	wBlsG1  = &wcurve{hexInt("1a0111ea397fe69a4b1ba7b6434bacd764774b84f38512bf6730d2a0f6b0f6241eabfffeb153ffffb9feffffffffaaab"), big.NewInt(0), big.NewInt(4)}
)

func (c *wcurve) mod(v *big.Int) *big.Int { return v.Mod(v, c.P) }

func (c *wcurve) onCurve(p apt) bool {
	if p.inf {
		return true
	}
	l := new(big.Int).Mul(p.y, p.y)
	r := new(big.Int).Mul(p.x, p.x)
	r.Mul(r, p.x)
	r.Add(r, new(big.Int).Mul(c.A, p.x))
	r.Add(r, c.B)
	return c.mod(l).Cmp(c.mod(r)) == 0
}

func (c *wcurve) neg(p apt) apt {
	if p.inf {
		return p
	}
	return apt{x: new(big.Int).Set(p.x), y: c.mod(new(big.Int).Neg(p.y))}
}

func (c *wcurve) add(p, q apt) apt {
	if p.inf {
		return q
	}
	if q.inf {
		return p
	}
	var lam *big.Int
	if p.x.Cmp(q.x) == 0 {
		sum := new(big.Int).Add(p.y, q.y)
		if c.mod(sum).Sign() == 0 {
			return apt{inf: true}
		}
		num := new(big.Int).Mul(p.x, p.x)
		num.Mul(num, big.NewInt(3))
		num.Add(num, c.A)
		den := new(big.Int).Lsh(p.y, 1)
		lam = num.Mul(num, den.ModInverse(den, c.P))
	} else {
		num := new(big.Int).Sub(q.y, p.y)
		den := new(big.Int).Sub(q.x, p.x)
		den.Mod(den, c.P)
		lam = num.Mul(num, den.ModInverse(den, c.P))
	}
	c.mod(lam)
	x := new(big.Int).Mul(lam, lam)
	x.Sub(x, p.x)
	x.Sub(x, q.x)
	c.mod(x)
	y := new(big.Int).Sub(p.x, x)
	y.Mul(y, lam)
	y.Sub(y, p.y)
	c.mod(y)
	return apt{x: x, y: y}
}

// mulInt computes [k]p for a (possibly negative) machine integer by double-and-add.
func (c *wcurve) mulInt(k int, p apt) apt {
	if k < 0 {
		return c.mulInt(-k, c.neg(p))
	}
	r := apt{inf: true}
	for i := 62; i >= 0; i-- {
		r = c.add(r, r)
		if (k>>uint(i))&1 == 1 {
			r = c.add(r, p)
		}
	}
	return r
}

// twisted Edwards -x^2 + y^2 = 1 + d x^2 y^2 over F_p (edwards25519)
type ecurve struct{ P, D *big.Int }

var eEd25519 = &ecurve{hexInt("7fffffffffffffffffffffffffffffffffffffffffffffffffffffffffffffed"),
	hexInt("52036cee2b6ffe738cc740797779e89800700a4d4141d8ab75eb4dca135978a3")}

func (c *ecurve) onCurve(p apt) bool {
	x2 := new(big.Int).Mul(p.x, p.x)
	y2 := new(big.Int).Mul(p.y, p.y)
	l := new(big.Int).Sub(y2, x2)
	r := new(big.Int).Mul(x2, y2)
	r.Mul(r, c.D)
	r.Add(r, big.NewInt(1))
	return l.Mod(l, c.P).Cmp(r.Mod(r, c.P)) == 0
}

// add is the complete unified addition law (identity (0, 1)).
func (c *ecurve) add(p, q apt) apt {
	x1y2 := new(big.Int).Mul(p.x, q.y)
	y1x2 := new(big.Int).Mul(p.y, q.x)
	y1y2 := new(big.Int).Mul(p.y, q.y)
	x1x2 := new(big.Int).Mul(p.x, q.x)
	t := new(big.Int).Mul(x1x2, y1y2)
	t.Mul(t, c.D)
	t.Mod(t, c.P)
	dx := new(big.Int).Add(big.NewInt(1), t)
	dy := new(big.Int).Sub(big.NewInt(1), t)
	dx.Mod(dx, c.P)
	dy.Mod(dy, c.P)
	x := new(big.Int).Add(x1y2, y1x2)
	x.Mul(x, dx.ModInverse(dx, c.P))
	y := new(big.Int).Add(y1y2, x1x2) // a = -1
	y.Mul(y, dy.ModInverse(dy, c.P))
	return apt{x: x.Mod(x, c.P), y: y.Mod(y, c.P)}
}

func (c *ecurve) neg(p apt) apt {
	nx := new(big.Int).Neg(p.x)
	return apt{x: nx.Mod(nx, c.P), y: new(big.Int).Set(p.y)}
}

func (c *ecurve) mulInt(k int, p apt) apt {
	if k < 0 {
		return c.mulInt(-k, c.neg(p))
	}
	r := apt{x: big.NewInt(0), y: big.NewInt(1)}
	for i := 62; i >= 0; i-- {
		r = c.add(r, r)
		if (k>>uint(i))&1 == 1 {
			r = c.add(r, p)
		}
	}
	return r
}

package main

import (
	"encoding/json"

	"github.com/bronlabs/bron-crypto/pkg/base/curves/pairable/bls12381"
)

// runPair replays the pairing programmes: registers of G1 and G2 are taken from the reference tables (addition
// chains), every pairing result is projected to its exponent through the table of e(G1, G2)^v built by repeated
// multiplication. Each pairing is evaluated through the G1-side and the G2-side API.
// gtWindow bounds the reference table of the target group; GroupProg.PairW is the same number (K <= 13: three pairings of
// [K]G1 with [K]G2 and one squaring stay below it).
const gtWindow = 1024

func runPair(in string) {
	prog := readProg(in)
	g1c, g2c := bls12381.NewG1(), bls12381.NewG2()
	// reference tables
	all := allRunnersTyped()
	t1, chk1 := buildTable(all.g1, 64)
	t2, chk2 := buildTable(all.g2, 64)
	tt, chkt := buildTable(all.gt, gtWindow)
	w.Emit(map[string]any{"a": "hdr", "k": kk, "w": gtWindow, "curves": []map[string]any{}})
	for _, c := range []map[string]any{chk1, chk2, chkt} {
		c["a"] = "table"
		w.Emit(c)
	}
	// non-degeneracy on its own line: e(G1, G2) is not the identity of the target group
	w.Emit(map[string]any{"a": "nondeg", "genIsOne": all.gt.isid(all.gt.gen), "distinct": len(tt.idx) == 2*gtWindow+1})
	type gtState struct {
		regs [2]*bls12381.GtElement
		ints [2]int
	}
	states := map[string]*gtState{}
	key := func(l *progLine, gt []int, d int) string {
		b, _ := json.Marshal([]any{d, l.G1, l.G2, gt})
		return string(b)
	}
	for i := range prog {
		l := &prog[i]
		st := states[key(l, l.Gt, l.D)]
		if st == nil {
			if l.D != 0 {
				panic("pair programme state not realised")
			}
			st = &gtState{regs: [2]*bls12381.GtElement{tt.pts[0], tt.pts[0]}}
			states[key(l, l.Gt, 0)] = st
		}
		ev := map[string]any{"d": l.D, "g1": l.G1, "g2": l.G2, "gt": l.Gt, "op": l.Op, "args": l.Args}
		switch l.Op {
		case "pair", "mpair", "mpairinv":
			var pairs [][2]int
			must(json.Unmarshal(l.Args, &pairs))
			var p1 []*bls12381.PointG1
			var p2 []*bls12381.PointG2
			for _, p := range pairs {
				p1 = append(p1, t1.pts[l.G1[p[0]-1]])
				p2 = append(p2, t2.pts[l.G2[p[1]-1]])
			}
			var ra, rb *bls12381.GtElement
			var ea, eb error
			switch l.Op {
			case "pair":
				ra, ea = p1[0].Pair(p2[0])
				rb, eb = p2[0].Pair(p1[0])
			case "mpair":
				ra, ea = g1c.MultiPair(p1, p2)
				rb, eb = g2c.MultiPair(p2, p1)
			default:
				ra, ea = g1c.MultiPairAndInvertDuals(p1, p2)
				rb, eb = g2c.MultiPairAndInvertDuals(p2, p1)
			}
			ev["a"] = "pstep"
			ev["ok"] = *l.Ok
			ev["post"] = *l.Post
			ev["rok"] = []bool{ea == nil, eb == nil}
			real := []int{sentinel, sentinel}
			if ea == nil {
				real[0] = tt.proj(all.gt, ra)
			}
			if eb == nil {
				real[1] = tt.proj(all.gt, rb)
			}
			ev["real"] = real
			w.Emit(ev)
			if *l.Ok && ea == nil {
				nk := key(l, []int{l.Gt[1], *l.Post}, l.D+1)
				if states[nk] == nil {
					states[nk] = &gtState{regs: [2]*bls12381.GtElement{st.regs[1], ra}, ints: [2]int{st.ints[1], real[0]}}
				}
			}
		case "gmul", "gdiv", "ginv", "gsq", "geq", "gisid":
			var a []int
			must(json.Unmarshal(l.Args, &a))
			x := st.regs[a[0]-1]
			var res *bls12381.GtElement
			switch l.Op {
			case "gmul":
				res = x.Mul(st.regs[a[1]-1])
			case "gdiv":
				res = x.Div(st.regs[a[1]-1])
			case "ginv":
				res = x.Inv()
			case "gsq":
				res = x.Square()
			case "geq":
				ev["a"], ev["res"], ev["rres"] = "ppred", *l.Res, x.Equal(st.regs[a[1]-1])
			case "gisid":
				ev["a"], ev["res"], ev["rres"] = "ppred", *l.Res, x.IsOne()
			}
			if res == nil {
				ev["real"] = []int{tt.proj(all.gt, st.regs[0]), tt.proj(all.gt, st.regs[1])}
				w.Emit(ev)
				continue
			}
			rv := tt.proj(all.gt, res)
			ev["a"], ev["post"] = "pgt", *l.Post
			ev["real"] = []int{tt.proj(all.gt, st.regs[1]), rv}
			w.Emit(ev)
			nk := key(l, []int{l.Gt[1], *l.Post}, l.D+1)
			if states[nk] == nil {
				states[nk] = &gtState{regs: [2]*bls12381.GtElement{st.regs[1], res}, ints: [2]int{st.ints[1], rv}}
			}
		default:
			panic("unknown pairing op " + l.Op)
		}
	}
}

package main

// Small-window arithmetic of the scalar and base fields: an element stands for the integer v it was built from
// (|v| <= 2^15, built by a chain of additions of One), every operation is run for real and its result projected
// back to an integer through the table; inverses and square roots are checked through the ring identities
// x * inv(x) = 1 and r * r = x (Q embedded), quadratic residuosity through math/big's Jacobi symbol.

import (
	"math/big"

	"github.com/bronlabs/bron-crypto/pkg/base/ct"
	"github.com/bronlabs/bron-crypto/pkg/base/curves/edwards25519"
	"github.com/bronlabs/bron-crypto/pkg/base/curves/k256"
	"github.com/bronlabs/bron-crypto/pkg/base/curves/p256"
	"github.com/bronlabs/bron-crypto/pkg/base/curves/pairable/bls12381"
	"github.com/bronlabs/bron-crypto/pkg/base/curves/pasta"
)

type felemT[F any] interface {
	Add(F) F
	Sub(F) F
	Mul(F) F
	Neg() F
	Double() F
	Square() F
	TryInv() (F, error)
	TryDiv(F) (F, error)
	Equal(F) bool
	IsZero() bool
	IsOne() bool
	Bytes() []byte
}

type ffieldT[F any] interface {
	Zero() F
	One() F
	FromUint64(uint64) F
	FromWideBytes([]byte) (F, error)
}

func sqrtVia[FP interface{ Sqrt(FP) ct.Bool }, E interface{ Fp() FP }](mk func() E) func(E) (E, bool) {
	return func(x E) (E, bool) {
		r := mk()
		ok := r.Fp().Sqrt(x.Fp())
		return r, ok == 1
	}
}

const fieldW = 1 << 15

func fieldOps[F felemT[F], FF ffieldT[F]](name string, f FF, modulus *big.Int, sqrt func(F) (F, bool)) {
	pts := map[int]F{}
	idx := map[string]int{}
	put := func(v int, e F) { pts[v] = e; idx[string(e.Bytes())] = v }
	put(0, f.Zero())
	cur := f.Zero()
	for v := 1; v <= fieldW; v++ {
		cur = cur.Add(f.One())
		put(v, cur)
	}
	cur = f.Zero()
	for v := 1; v <= fieldW; v++ {
		cur = cur.Sub(f.One())
		put(-v, cur)
	}
	proj := func(e F) int {
		if v, ok := idx[string(e.Bytes())]; ok {
			return v
		}
		return sentinel
	}
	uintOK, negOK := true, true
	for _, v := range []int{0, 1, 2, 3, 7, 100, 255, 256, 65, 4095, 4096, 32767, 32768} {
		uintOK = uintOK && f.FromUint64(uint64(v)).Equal(pts[v])
		negOK = negOK && pts[v].Neg().Equal(pts[-v])
	}
	emit := func(ev map[string]any) { ev["field"] = name; w.Emit(ev) }
	emit(map[string]any{"a": "ftable", "distinct": len(idx) == 2*fieldW+1, "uintOK": uintOK, "negOK": negOK})
	box := []int{}
	for v := -8; v <= 8; v++ {
		box = append(box, v)
	}
	box = append(box, 100, -100, 127, -127, 181, -181)
	// operands: x from the addition chain, y through FromUint64 / Neg
	mk := func(v int) F {
		if v < 0 {
			return f.FromUint64(uint64(-v)).Neg()
		}
		return f.FromUint64(uint64(v))
	}
	for _, x := range box {
		X := pts[x]
		emit(map[string]any{"a": "fop", "op": "neg", "x": x, "r": proj(X.Neg())})
		emit(map[string]any{"a": "fop", "op": "dbl", "x": x, "r": proj(X.Double())})
		emit(map[string]any{"a": "fop", "op": "sq", "x": x, "r": proj(X.Square())})
		emit(map[string]any{"a": "fop", "op": "iszero", "x": x, "res": X.IsZero()})
		emit(map[string]any{"a": "fop", "op": "isone", "x": x, "res": X.IsOne()})
		inv, err := X.TryInv()
		ev := map[string]any{"a": "fop", "op": "inv", "x": x, "ok": err == nil, "chk": sentinel}
		if err == nil {
			ev["chk"] = proj(X.Mul(inv))
		}
		emit(ev)
		for _, y := range box {
			Y := mk(y)
			emit(map[string]any{"a": "fop", "op": "add", "x": x, "y": y, "r": proj(X.Add(Y))})
			emit(map[string]any{"a": "fop", "op": "sub", "x": x, "y": y, "r": proj(X.Sub(Y))})
			emit(map[string]any{"a": "fop", "op": "mul", "x": x, "y": y, "r": proj(X.Mul(Y))})
			emit(map[string]any{"a": "fop", "op": "eq", "x": x, "y": y, "res": X.Equal(Y)})
			q, err := X.TryDiv(Y)
			ev := map[string]any{"a": "fop", "op": "div", "x": x, "y": y, "ok": err == nil, "chk": sentinel}
			if err == nil {
				ev["chk"] = proj(q.Mul(Y))
			}
			emit(ev)
		}
		// operands must be unchanged by all of the above
		emit(map[string]any{"a": "fop", "op": "add", "x": x, "y": 0, "r": proj(X)})
	}
	if sqrt != nil {
		for x := -60; x <= 300; x++ {
			r, ok := sqrt(pts[x])
			xm := new(big.Int).Mod(big.NewInt(int64(x)), modulus)
			perfect := -1
			if x >= 0 {
				s := int(new(big.Int).Sqrt(big.NewInt(int64(x))).Int64())
				if s*s == x {
					perfect = s
				}
			}
			ev := map[string]any{"a": "fop", "op": "sqrt", "x": x, "ok": ok, "isQR": big.Jacobi(xm, modulus) >= 0, "perfect": perfect, "chk": sentinel, "r": sentinel}
			if ok {
				ev["chk"] = proj(r.Square())
				ev["r"] = proj(r)
			}
			emit(ev)
		}
	}
	// wide reduction: k * modulus + v reduces to v (k = 1, v = 0: "order == 0")
	ks := []*big.Int{big.NewInt(0), big.NewInt(1), big.NewInt(2), big.NewInt(3), new(big.Int).Lsh(big.NewInt(1), 64), new(big.Int).Sub(new(big.Int).Lsh(big.NewInt(1), 100), big.NewInt(1))}
	for _, k := range ks {
		for v := -3; v <= 3; v++ {
			n := new(big.Int).Mul(k, modulus)
			n.Add(n, big.NewInt(int64(v)))
			if n.Sign() < 0 {
				continue
			}
			e, err := f.FromWideBytes(n.Bytes())
			r := sentinel
			if err == nil {
				r = proj(e)
			}
			emit(map[string]any{"a": "fop", "op": "wide", "x": v, "kbits": k.BitLen(), "r": r})
		}
	}
}

func runField() {
	w.Emit(map[string]any{"a": "hdr", "k": kk, "w": winW, "curves": []map[string]any{}})
	fieldOps("k256-scalar", k256.NewScalarField(), k256.NewScalarField().Order().Big(), sqrtVia(func() *k256.Scalar { return new(k256.Scalar) }))
	fieldOps("k256-base", k256.NewBaseField(), k256.NewBaseField().Order().Big(), sqrtVia(func() *k256.BaseFieldElement { return new(k256.BaseFieldElement) }))
	fieldOps("p256-scalar", p256.NewScalarField(), p256.NewScalarField().Order().Big(), sqrtVia(func() *p256.Scalar { return new(p256.Scalar) }))
	fieldOps("p256-base", p256.NewBaseField(), p256.NewBaseField().Order().Big(), sqrtVia(func() *p256.BaseFieldElement { return new(p256.BaseFieldElement) }))
	fieldOps("ed25519-scalar", edwards25519.NewScalarField(), edwards25519.NewScalarField().Order().Big(), sqrtVia(func() *edwards25519.Scalar { return new(edwards25519.Scalar) }))
	fieldOps("ed25519-base", edwards25519.NewBaseField(), edwards25519.NewBaseField().Order().Big(), sqrtVia(func() *edwards25519.BaseFieldElement { return new(edwards25519.BaseFieldElement) }))
	fieldOps("pasta-fp", pasta.NewPallasBaseField(), pasta.NewPallasBaseField().Order().Big(), sqrtVia(func() *pasta.FpFieldElement { return new(pasta.FpFieldElement) }))
	fieldOps("pasta-fq", pasta.NewPallasScalarField(), pasta.NewPallasScalarField().Order().Big(), sqrtVia(func() *pasta.FqFieldElement { return new(pasta.FqFieldElement) }))
	fieldOps("bls12381-scalar", bls12381.NewScalarField(), bls12381.NewScalarField().Order().Big(), sqrtVia(func() *bls12381.Scalar { return new(bls12381.Scalar) }))
	fieldOps("bls12381-fp", bls12381.NewG1BaseField(), bls12381.NewG1BaseField().Order().Big(), sqrtVia(func() *bls12381.BaseFieldElementG1 { return new(bls12381.BaseFieldElementG1) }))
}

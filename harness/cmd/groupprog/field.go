package main

func runField() {}

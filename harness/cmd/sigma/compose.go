package main

import (
	"github.com/bronlabs/bron-crypto/pkg/proofs/elgamal/elog"
	"github.com/bronlabs/bron-crypto/pkg/proofs/sigma"
	"github.com/bronlabs/bron-crypto/pkg/proofs/sigma/compose/sigand"
	"github.com/bronlabs/bron-crypto/pkg/proofs/sigma/compose/sigor"

	"verif/harness/toy"
	"verif/harness/tr"
)

func br(desc map[string]any, x, cm, z []uint64, e []byte, el int) map[string]any {
	return map[string]any{"P": desc, "x": x, "cm": cm, "z": z, "e": bytesToInts(e), "el": el}
}

// exactCopy returns a copy whose capacity equals its length (what a decoder produces).
func exactCopy(b []byte) []byte {
	out := make([]byte, len(b))
	copy(out, b)
	return out
}

func flipBit(b []byte, i int) []byte {
	out := append([]byte(nil), b...)
	out[i/8] ^= 1 << (i % 8)
	return out
}

// andLevel: sigand.Compose(schnorr, n) and the Cartesian elog = elcomop AND schnorr(base h), honest
// conversations and conversations with one conjunct's response replaced.
func andLevel(n int, cases int, seed uint64) {
	rnd := tr.PRand(seed, 78)
	prng := &script{rest: tr.Rng(seed, 78)}
	q := toy.Q
	sp := toySchnorr(1, prng)
	and := must(sigand.Compose(sp.Proto, uint(n)))
	cl := and.GetChallengeBytesLength()
	for c := 0; c < cases; c++ {
		xs := make([]schX, n)
		ws := make([]schW, n)
		for i := range xs {
			xs[i], ws[i] = sp.FromW(randVec(1, rnd))
		}
		x := must(sigand.ComposeStatements(xs...))
		wt := must(sigand.ComposeWitnesses(ws...))
		a, s := must2(and.ComputeProverCommitment(x, wt))
		e := randBytes(cl, rnd)
		z := must(and.ComputeProverResponse(x, wt, a, s, e))
		log := func(variant string, zz sigand.Response[schZ], aa sigand.Commitment[schA], ee []byte) {
			brs := []map[string]any{}
			for i := range xs {
				cm, zi := []uint64{}, []uint64{}
				if i < len(aa) {
					cm = sp.PA(aa[i])
				}
				if i < len(zz) {
					zi = sp.PZ(zz[i])
				}
				brs = append(brs, br(sp.Desc, sp.PX(xs[i]), cm, zi, nil, cl))
			}
			err, pan := guard(func() error { return and.Verify(x, aa, ee, zz) })
			emit("and", map[string]any{"tag": "and-schnorr", "variant": variant, "brs": brs, "e": bytesToInts(ee),
				"lens": []int{len(x), len(aa), len(zz)}, "ok": err == nil && pan == "", "panic": pan != "", "panicmsg": pan})
		}
		log("honest", z, a, e)
		for j := 0; j < n; j++ { // one conjunct's response altered
			zz := append(sigand.Response[schZ]{}, z...)
			zz[j] = sp.MkZ([]uint64{(sp.PZ(z[j])[0] + 1 + rnd.Uint64N(q-1)) % q})
			log("resp", zz, a, e)
			aa := append(sigand.Commitment[schA]{}, a...)
			aa[j] = sp.MkA([]uint64{(sp.PA(a[j])[0] + 1 + rnd.Uint64N(q-1)) % q})
			log("com", z, aa, e)
		}
		log("chal", z, a, flipBit(e, rnd.IntN(8*cl)))
		log("short", z[:n-1], a, e)
		// simulated
		sa, sz := must2(and.RunSimulator(x, e))
		log("sim", sz, sa, e)
	}

	// elog: (elcomop (L, M) under key X = g^xi) AND (schnorr with base h = g^eta), witness bound by M' = g^y
	xi, eta := 2+rnd.Uint64N(q-2), 1+rnd.Uint64N(q-1)
	ec := toyElcomop(xi, prng)
	sh := toySchnorr(eta, prng)
	ep := must(elog.NewProtocol(toy.NewGroup(), toyElgamalKey(xi), toy.FromLog(eta), prng))
	cl = ep.GetChallengeBytesLength()
	for c := 0; c < cases; c++ {
		y, lam := rnd.Uint64N(q), rnd.Uint64N(q)
		x1, w1 := ec.FromW([]uint64{y, lam})
		x2, w2 := sh.FromW([]uint64{y})
		x := must(elog.NewStatement(x1, x2))
		wt := must(elog.NewWitness(w1, w2))
		a, s := must2(ep.ComputeProverCommitment(x, wt))
		e := randBytes(cl, rnd)
		z := must(ep.ComputeProverResponse(x, wt, a, s, e))
		log := func(variant string, z0 ecZ, z1 schZ, ee []byte) {
			zz := &sigand.ResponseCartesian[ecZ, schZ]{Z0: z0, Z1: z1}
			brs := []map[string]any{br(ec.Desc, ec.PX(x.X0), ec.PA(a.A0), ec.PZ(z0), nil, cl), br(sh.Desc, sh.PX(x.X1), sh.PA(a.A1), sh.PZ(z1), nil, cl)}
			err, pan := guard(func() error { return ep.Verify(x, a, ee, zz) })
			emit("and", map[string]any{"tag": "elog", "variant": variant, "brs": brs, "e": bytesToInts(ee), "lens": []int{2, 2, 2},
				"ok": err == nil && pan == "", "panic": pan != "", "panicmsg": pan})
		}
		log("honest", z.Z0, z.Z1, e)
		alt0 := ec.PZ(z.Z0)
		alt0[rnd.IntN(2)] = (alt0[0] + 1 + rnd.Uint64N(q-1)) % q
		log("resp", ec.MkZ(alt0), z.Z1, e)
		log("resp", z.Z0, sh.MkZ([]uint64{(sh.PZ(z.Z1)[0] + 1) % q}), e)
		log("chal", z.Z0, z.Z1, flipBit(e, rnd.IntN(8*cl)))
	}
}

// orLevel: sigor.Compose(schnorr, n) with a witness for exactly one branch, and the Cartesian
// compositions schnorr OR okamoto and schnorr OR batch-schnorr (different challenge lengths).
func orLevel(n int, cases int, seed uint64) {
	rnd := tr.PRand(seed, 79)
	prng := &script{rest: tr.Rng(seed, 79)}
	q := toy.Q
	sp := toySchnorr(1, prng)
	or := must(sigor.Compose(sp.Proto, uint(n), prng))
	cl := or.GetChallengeBytesLength()
	for c := 0; c < cases; c++ {
		b := rnd.IntN(n)
		xs := make([]schX, n)
		var wb schW
		for i := range xs {
			x, wi := sp.FromW(randVec(1, rnd))
			xs[i] = x
			if i == b {
				wb = wi
			}
		}
		x := must(sigor.ComposeStatements(xs...))
		wt := sigor.NewWitness(wb)
		a, s := must2(or.ComputeProverCommitment(x, wt))
		e := randBytes(cl, rnd)
		z := must(or.ComputeProverResponse(x, wt, a, s, e))
		log := func(variant string, aa sigor.Commitment[schA], zz *sigor.Response[schZ], ee []byte) {
			brs := []map[string]any{}
			for i := range xs {
				zi := []uint64{}
				var ei []byte
				if i < len(zz.Z) {
					zi = sp.PZ(zz.Z[i])
				}
				if i < len(zz.E) {
					ei = zz.E[i]
				}
				brs = append(brs, br(sp.Desc, sp.PX(xs[i]), sp.PA(aa[i]), zi, ei, cl))
			}
			err, pan := guard(func() error { return or.Verify(x, aa, ee, zz) })
			emit("or", map[string]any{"tag": "or-schnorr", "variant": variant, "brs": brs, "e": bytesToInts(ee), "cl": cl,
				"lens": []int{len(x), len(aa), len(zz.E), len(zz.Z)}, "ok": err == nil && pan == "", "panic": pan != "", "panicmsg": pan})
		}
		cp := func() *sigor.Response[schZ] {
			r := &sigor.Response[schZ]{E: make([][]byte, n), Z: append([]schZ{}, z.Z...)}
			for i := range z.E {
				r.E[i] = append([]byte(nil), z.E[i]...)
			}
			return r
		}
		log("honest", a, z, e)
		log("chal", a, z, flipBit(e, rnd.IntN(8*cl))) // sub-challenges no longer combine to the challenge
		j := (b + 1 + rnd.IntN(n-1)) % n
		bit := rnd.IntN(8 * cl)
		t1 := cp()
		t1.E[j] = flipBit(t1.E[j], bit)
		log("sub1", a, t1, e) // one sub-challenge altered
		t2 := cp()
		t2.E[j] = flipBit(t2.E[j], bit)
		t2.E[b] = flipBit(t2.E[b], bit)
		log("sub2", a, t2, e) // two altered consistently: they still combine, the branches no longer accept
		t3 := cp()
		t3.Z[b] = sp.MkZ([]uint64{(sp.PZ(z.Z[b])[0] + 1 + rnd.Uint64N(q-1)) % q})
		log("resp", a, t3, e)
		t4 := cp()
		t4.E[j] = exactCopy(t4.E[j][:cl-1])
		log("short", a, t4, e)
		sa, sz := must2(or.RunSimulator(x, e))
		log("sim", sa, sz, e)
	}

	orCart(toySchnorr(1, prng), toyOkamoto([]uint64{1, 2 + rnd.Uint64N(q-2)}, prng), "or-schnorr-okamoto", cases, prng, seed)
	orCart(toySchnorr(1, prng), toyBatch(1+rnd.Uint64N(q-1), 2, prng), "or-schnorr-batch", cases, prng, seed)
	orCart(toyBatch(1+rnd.Uint64N(q-1), 2, prng), toySchnorr(1, prng), "or-batch-schnorr", cases, prng, seed)
}

// orCart: sigor.CartesianCompose(p0, p1) with a witness for exactly one side.
func orCart[X0 sigma.Statement, W0 sigma.Witness, A0 sigma.Statement, S0 sigma.State, Z0 sigma.Response,
	X1 sigma.Statement, W1 sigma.Witness, A1 sigma.Statement, S1 sigma.State, Z1 sigma.Response](
	p0 *P[X0, W0, A0, S0, Z0], p1 *P[X1, W1, A1, S1, Z1], tag string, cases int, prng *script, seed uint64) {
	rnd := tr.PRand(seed, 80)
	or := must(sigor.CartesianCompose(p0.Proto, p1.Proto, prng))
	cl := or.GetChallengeBytesLength()
	l0, l1 := p0.Proto.GetChallengeBytesLength(), p1.Proto.GetChallengeBytesLength()
	for c := 0; c < cases; c++ {
		b := rnd.IntN(2)
		x0, w0 := p0.Sample(rnd)
		x1, w1 := p1.Sample(rnd)
		// the witness of the other side is replaced by one of an unrelated statement
		if b == 0 {
			for {
				xo, wo := p1.Sample(rnd)
				if string(xo.Bytes()) != string(x1.Bytes()) {
					w1 = wo
					break
				}
			}
		} else {
			for {
				xo, wo := p0.Sample(rnd)
				if string(xo.Bytes()) != string(x0.Bytes()) {
					w0 = wo
					break
				}
			}
		}
		x := must(sigor.CartesianComposeStatements(x0, x1))
		wt := must(sigor.CartesianComposeWitnesses(w0, w1))
		a, s := must2(or.ComputeProverCommitment(x, wt))
		e := randBytes(cl, rnd)
		if c%3 == 2 {
			e[cl-1] = 0
		}
		z := must(or.ComputeProverResponse(x, wt, a, s, e))
		log := func(variant string, aa *sigor.CommitmentCartesian[A0, A1], zz *sigor.ResponseCartesian[Z0, Z1], ee []byte) {
			brs := []map[string]any{br(p0.Desc, p0.PX(x0), p0.PA(aa.A0), p0.PZ(zz.Z0), zz.E0, l0), br(p1.Desc, p1.PX(x1), p1.PA(aa.A1), p1.PZ(zz.Z1), zz.E1, l1)}
			err, pan := guard(func() error { return or.Verify(x, aa, ee, zz) })
			emit("or", map[string]any{"tag": tag, "variant": variant, "brs": brs, "e": bytesToInts(ee), "cl": cl,
				"lens": []int{2, 2, 2, 2}, "ok": err == nil && pan == "", "panic": pan != "", "panicmsg": pan})
		}
		cp := func() *sigor.ResponseCartesian[Z0, Z1] {
			return &sigor.ResponseCartesian[Z0, Z1]{E0: append([]byte(nil), z.E0...), E1: append([]byte(nil), z.E1...), Z0: z.Z0, Z1: z.Z1}
		}
		log("honest", a, z, e)
		log("chal", a, z, flipBit(e, rnd.IntN(8*cl)))
		bit := rnd.IntN(8 * min(l0, l1))
		t1 := cp()
		t1.E0 = flipBit(t1.E0, bit)
		log("sub1", a, t1, e)
		t2 := cp()
		t2.E0, t2.E1 = flipBit(t2.E0, bit), flipBit(t2.E1, bit)
		log("sub2", a, t2, e)
		if e[cl-1] == 0 {
			// a sub-challenge one byte short whose missing byte would not have mattered for the combination
			t3 := cp()
			t3.E0 = exactCopy(t3.E0[:cl-1])
			t3.E1[cl-1] = 0
			log("short", a, t3, e)
		}
		sa, sz := must2(or.RunSimulator(x, e))
		log("sim", sa, sz, e)
	}
}

package main

import (
	"io"
	"math/rand/v2"

	"github.com/bronlabs/bron-crypto/pkg/base/algebra"
)

// prodLevel: the compiled protocols on a production group (tokens only).
func prodLevel[G algebra.PrimeGroupElement[G, S], S algebra.PrimeFieldElement[S]](group algebra.PrimeGroup[G, S], protos string, prng io.Reader, o niOpts, rnd *rand.Rand) {
	if has(protos, "schnorr") {
		niLevel(gSchnorr(group, prng), prng, o, rnd)
	}
	if has(protos, "okamoto") {
		niLevel(gOkamoto(group, 2, prng), prng, o, rnd)
	}
	if has(protos, "batch") {
		niLevel(gBatch(group, 2, prng), prng, o, rnd)
	}
	if has(protos, "elcomop") {
		niLevel(gElcomop(group, prng), prng, o, rnd)
	}
	if has(protos, "elog") {
		niLevel(gElog(group, prng), prng, o, rnd)
	}
	if has(protos, "and") {
		niLevel(gAnd(gSchnorr(group, prng), 2), prng, o, rnd)
	}
	if has(protos, "or") {
		niLevel(gOr(gSchnorr(group, prng), 2, prng), prng, o, rnd)
	}
}

package main

import (
	"encoding/binary"
	"fmt"
	"io"
	"math/big"
	"math/rand/v2"

	"github.com/bronlabs/bron-crypto/pkg/base/datastructures/hashset"
	"github.com/bronlabs/bron-crypto/pkg/mpc/session"
	"github.com/bronlabs/bron-crypto/pkg/mpc/sharing"
	"github.com/bronlabs/bron-crypto/pkg/proofs/sigma"

	"verif/harness/tr"
)

// P bundles one sigma protocol with what the driver needs to exercise and to project it.
// Exact mode (toy group): PX..PZ project to integers (group elements as discrete logs) and Desc
// carries the description the specification computes with. Token mode (production groups, and
// compositions): the projections are nil and values are interned through their Bytes().
type P[X sigma.Statement, W sigma.Witness, A sigma.Statement, S sigma.State, Z sigma.Response] struct {
	Tag    string
	Proto  sigma.Protocol[X, W, A, S, Z]
	Desc   map[string]any
	Sample func(r *rand.Rand) (X, W) // a valid pair, statement not the identity
	FromW  func(w []uint64) (X, W)   // exact mode: the pair for a given witness vector

	PX  func(X) []uint64
	PW  func(W) []uint64
	PA  func(A) []uint64
	PS  func(S) []uint64
	PZ  func(Z) []uint64
	MkX func([]uint64) X
	MkA func([]uint64) A
	MkZ func([]uint64) Z

	Extract func(x X, a A, es []sigma.ChallengeBytes, zs []Z) (W, error)
	NR      int  // number of field elements Commit draws from the prng (exact mode scripting)
	ZArity  bool // the response is a vector whose length the decoder does not fix (Okamoto)
	AArity  bool // the commitment / statement is such a vector (elcomop)
}

func (p *P[X, W, A, S, Z]) exact() bool { return p.PX != nil }

// ---- output ----

var (
	w    *tr.W
	kseq int
)

func emit(a string, ev map[string]any) {
	kseq++
	ev["a"] = a
	ev["k"] = fmt.Sprintf("%s#%d", a, kseq)
	w.Emit(ev)
}

func must[T any](v T, err error) T {
	if err != nil {
		panic(err)
	}
	return v
}

func must2[T, U any](v T, u U, err error) (T, U) {
	if err != nil {
		panic(err)
	}
	return v, u
}

// guard runs f and reports a panic as a string (the specification requires "no panic").
func guard(f func() error) (err error, panicked string) {
	defer func() {
		if r := recover(); r != nil {
			panicked = fmt.Sprint(r)
			if len(panicked) > 120 {
				panicked = panicked[:120]
			}
		}
	}()
	return f(), ""
}

func bytesToInts(b []byte) []int {
	out := make([]int, len(b))
	for i, v := range b {
		out[i] = int(v)
	}
	return out
}

// ---- scripted randomness ----

// script is an io.Reader that first serves queued 16-byte blocks (the toy field's SetRandom reads
// 16 bytes and reduces the little-endian value mod q) and then a seeded stream.
type script struct {
	q    [][]byte
	rest io.Reader
}

func (s *script) Read(p []byte) (int, error) {
	if len(s.q) > 0 && len(p) == len(s.q[0]) {
		copy(p, s.q[0])
		s.q = s.q[1:]
		return len(p), nil
	}
	return s.rest.Read(p)
}

func (s *script) pushScalars(vs ...uint64) {
	for _, v := range vs {
		b := make([]byte, 16)
		binary.LittleEndian.PutUint64(b, v)
		s.q = append(s.q, b)
	}
}

func (s *script) clear() { s.q = nil }

// challengeWithResidue returns n challenge bytes whose big-endian value is congruent to res mod q
// (random high part, so that the reduction actually happens).
func challengeWithResidue(n int, res, q uint64, rnd *rand.Rand) []byte {
	b := make([]byte, n)
	for i := range b {
		b[i] = byte(rnd.Uint32())
	}
	v := new(big.Int).SetBytes(b)
	qq := new(big.Int).SetUint64(q)
	cur := new(big.Int).Mod(v, qq).Uint64()
	v.Sub(v, new(big.Int).SetUint64(cur))
	v.Add(v, new(big.Int).SetUint64(res))
	if v.BitLen() > 8*n {
		v.Sub(v, qq)
	}
	if v.Sign() < 0 {
		v.Add(v, qq)
	}
	out := make([]byte, n)
	v.FillBytes(out)
	return out
}

func randBytes(n int, rnd *rand.Rand) []byte {
	b := make([]byte, n)
	for i := range b {
		b[i] = byte(rnd.Uint32())
	}
	return b
}

// ---- session contexts ----

// ctxCoord are the coordinates of a proving / verifying context the driver can vary; each value is
// a token: 0 = the prover's choice, 1 = a different one.
type ctxCoord struct {
	Sid, Hist, Label, Stmt, Name, Comp int
}

func (c ctxCoord) tokens() []int { return []int{c.Sid, c.Hist, c.Label, c.Stmt, c.Name, c.Comp} }

var coordNames = []string{"sid", "hist", "label", "stmt", "name", "comp"}

func (c ctxCoord) with(i int) ctxCoord {
	switch i {
	case 0:
		c.Sid = 1
	case 1:
		c.Hist = 1
	case 2:
		c.Label = 1
	case 3:
		c.Stmt = 1
	case 4:
		c.Name = 1
	case 5:
		c.Comp = 1
	}
	return c
}

const proverIDLabel = "VERIF_SIGMA_PROVER_ID-"

// newCtx builds a fresh session context for the coordinates: the session id comes from the common
// seed, the history is what was appended to the transcript before the proof, the prover label is
// appended to the (cloned) context the way callers do it (gennaro, lindell17).
func newCtx(c ctxCoord, run uint64) *session.Context {
	quorum := hashset.NewComparable[sharing.ID](1, 2).Freeze()
	seed := make([]byte, 64)
	binary.LittleEndian.PutUint64(seed, run)
	seed[8] = byte(c.Sid)
	copy(seed[16:], "verif-sigma-common-seed")
	ctx := must(session.NewContext(1, quorum, seed, map[sharing.ID][]byte{2: seed}))
	ctx.Transcript().AppendBytes("VERIF_SIGMA_HISTORY-", []byte("round-1-message"))
	if c.Hist == 1 {
		ctx.Transcript().AppendBytes("VERIF_SIGMA_HISTORY-", []byte("one-more-message"))
	}
	ctx.Transcript().AppendBytes(proverIDLabel, binary.LittleEndian.AppendUint64(nil, uint64(1+c.Label)))
	return ctx
}

// renamed is the same protocol under another name (the name is part of the domain separator).
type renamed[X sigma.Statement, W sigma.Witness, A sigma.Statement, S sigma.State, Z sigma.Response] struct {
	sigma.Protocol[X, W, A, S, Z]
	n sigma.Name
}

func (r renamed[X, W, A, S, Z]) Name() sigma.Name { return r.n }

// ---- interning (token mode) ----

type interner struct{ m map[string]int }

func (t *interner) tok(b []byte) int {
	if t.m == nil {
		t.m = map[string]int{}
	}
	k := string(b)
	if v, ok := t.m[k]; ok {
		return v
	}
	v := len(t.m) + 1
	t.m[k] = v
	return v
}

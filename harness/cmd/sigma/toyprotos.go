package main

import (
	"math/rand/v2"

	"github.com/bronlabs/bron-crypto/pkg/base/algebra/constructions"
	"github.com/bronlabs/bron-crypto/pkg/commitments/indcpacom"
	"github.com/bronlabs/bron-crypto/pkg/encryption/elgamal"
	"github.com/bronlabs/bron-crypto/pkg/proofs/dlog/batch_schnorr"
	"github.com/bronlabs/bron-crypto/pkg/proofs/dlog/schnorr"
	"github.com/bronlabs/bron-crypto/pkg/proofs/elgamal/elcomop"
	"github.com/bronlabs/bron-crypto/pkg/proofs/okamoto"
	"github.com/bronlabs/bron-crypto/pkg/proofs/sigma"

	"verif/harness/toy"
)

type (
	E  = *toy.Elem
	Sc = *toy.Scalar

	schX = *schnorr.Statement[E, Sc]
	schW = *schnorr.Witness[Sc]
	schA = *schnorr.Commitment[E, Sc]
	schS = *schnorr.State[Sc]
	schZ = *schnorr.Response[Sc]

	okX = *okamoto.Statement[E, Sc]
	okW = *okamoto.Witness[Sc]
	okA = *okamoto.Commitment[E, Sc]
	okS = *okamoto.State[Sc]
	okZ = *okamoto.Response[Sc]

	ecX = *elcomop.Statement[E, Sc]
	ecW = *elcomop.Witness[E, Sc]
	ecA = *elcomop.Commitment[E, Sc]
	ecS = *elcomop.State[E, Sc]
	ecZ = *elcomop.Response[E, Sc]

	bsX = *batch_schnorr.Statement[E, Sc]
	bsW = *batch_schnorr.Witness[Sc]
	bsA = *batch_schnorr.Commitment[E, Sc]
	bsS = *batch_schnorr.State[Sc]
	bsZ = *batch_schnorr.Response[Sc]
)

func scalars(vs []uint64) []Sc {
	out := make([]Sc, len(vs))
	for i, v := range vs {
		out[i] = toy.FromInt(v)
	}
	return out
}

func ints(ss []Sc) []uint64 {
	out := make([]uint64, len(ss))
	for i, s := range ss {
		out[i] = s.Int()
	}
	return out
}

func logs(es []E) []uint64 {
	out := make([]uint64, len(es))
	for i, e := range es {
		out[i] = e.Log()
	}
	return out
}

func randVec(n int, r *rand.Rand) []uint64 {
	v := make([]uint64, n)
	for i := range v {
		v[i] = r.Uint64N(toy.Q)
	}
	return v
}

func dot(a, b []uint64) uint64 {
	var s uint64
	for i := range a {
		s = (s + a[i]*b[i]) % toy.Q
	}
	return s
}

// toySchnorr is Schnorr's protocol with base g^baseLog: phi(w) = baseLog * w.
func toySchnorr(baseLog uint64, prng *script) *P[schX, schW, schA, schS, schZ] {
	pr := must(schnorr.NewProtocol(toy.FromLog(baseLog), prng))
	p := &P[schX, schW, schA, schS, schZ]{
		Tag:   "schnorr",
		Proto: pr,
		Desc:  map[string]any{"kind": "maurer", "M": [][]uint64{{baseLog}}},
		PX:    func(x schX) []uint64 { return []uint64{x.X.Log()} },
		PW:    func(w schW) []uint64 { return []uint64{w.W.Int()} },
		PA:    func(a schA) []uint64 { return []uint64{a.A.Log()} },
		PS:    func(s schS) []uint64 { return []uint64{s.S.Int()} },
		PZ:    func(z schZ) []uint64 { return []uint64{z.Z.Int()} },
		MkX:   func(v []uint64) schX { return schnorr.NewStatement[E, Sc](toy.FromLog(v[0])) },
		MkA:   func(v []uint64) schA { return &schnorr.Commitment[E, Sc]{A: toy.FromLog(v[0])} },
		MkZ:   func(v []uint64) schZ { return &schnorr.Response[Sc]{Z: toy.FromInt(v[0])} },
		NR:    1,
	}
	p.FromW = func(w []uint64) (schX, schW) {
		return schnorr.NewStatement[E, Sc](toy.FromLog(baseLog * w[0])), schnorr.NewWitness(toy.FromInt(w[0]))
	}
	p.Sample = func(r *rand.Rand) (schX, schW) { return p.FromW([]uint64{1 + r.Uint64N(toy.Q-1)}) }
	p.Extract = func(x schX, a schA, es []sigma.ChallengeBytes, zs []schZ) (schW, error) {
		return pr.Extract(x, a, es, zs)
	}
	return p
}

// toyOkamoto: generators g^gl[i]: phi(w) = sum gl[i] w[i].
func toyOkamoto(gl []uint64, prng *script) *P[okX, okW, okA, okS, okZ] {
	gens := make([]E, len(gl))
	for i, l := range gl {
		gens[i] = toy.FromLog(l)
	}
	pr := must(okamoto.NewProtocol(gens, prng))
	ring := must(constructions.NewFiniteDirectPowerRing(toy.NewScalarField(), uint(len(gl))))
	p := &P[okX, okW, okA, okS, okZ]{
		Tag:   "okamoto",
		Proto: pr,
		Desc:  map[string]any{"kind": "maurer", "M": [][]uint64{gl}},
		PX:    func(x okX) []uint64 { return []uint64{x.X.Log()} },
		PW:    func(w okW) []uint64 { return ints(w.W.Components()) },
		PA:    func(a okA) []uint64 { return []uint64{a.A.Log()} },
		PS:    func(s okS) []uint64 { return ints(s.S.Components()) },
		PZ:    func(z okZ) []uint64 { return ints(z.Z.Components()) },
		MkX:   func(v []uint64) okX { return must(okamoto.NewStatement[E, Sc](toy.FromLog(v[0]))) },
		MkA:   func(v []uint64) okA { return &okamoto.Commitment[E, Sc]{A: toy.FromLog(v[0])} },
		MkZ: func(v []uint64) okZ { // any arity: the decoder does not fix it either
			rg := ring
			if len(v) != len(gl) {
				rg = must(constructions.NewFiniteDirectPowerRing(toy.NewScalarField(), uint(len(v))))
			}
			return &okamoto.Response[Sc]{Z: must(rg.New(scalars(v)...))}
		},
		NR:     len(gl),
		ZArity: true,
	}
	p.FromW = func(w []uint64) (okX, okW) {
		return must(okamoto.NewStatement[E, Sc](toy.FromLog(dot(gl, w)))), must(okamoto.NewWitness(scalars(w)...))
	}
	p.Sample = func(r *rand.Rand) (okX, okW) {
		for {
			w := randVec(len(gl), r)
			if dot(gl, w) != 0 {
				return p.FromW(w)
			}
		}
	}
	p.Extract = func(x okX, a okA, es []sigma.ChallengeBytes, zs []okZ) (okW, error) { return pr.Extract(x, a, es, zs) }
	return p
}

// imgElem builds an element of G^len(v) (the module img when the arity matches).
func imgElem(img *constructions.FiniteDirectPowerModule[*toy.Group, E, Sc], v []uint64) *constructions.FiniteDirectPowerModuleElement[E, Sc] {
	m := img
	if len(v) != 2 {
		m = must(constructions.NewFiniteDirectPowerModule(toy.NewGroup(), uint(len(v))))
	}
	es := make([]E, len(v))
	for i := range v {
		es[i] = toy.FromLog(v[i])
	}
	return must(m.New(es...))
}

type toyCK = *indcpacom.CommitmentKey[*elgamal.PublicKey[E, Sc], *elgamal.Plaintext[E, Sc], *elgamal.Nonce[Sc], *elgamal.Ciphertext[E, Sc]]

func toyElgamalKey(xi uint64) toyCK {
	sk := must(elgamal.NewSecretKey(toy.NewGroup().Generator(), toy.FromInt(xi)))
	return must(indcpacom.NewCommitmentKey(sk.Public()))
}

// toyElcomop: ElGamal key X = g^xi (2 <= xi < q); witness (m, lam) with plaintext g^m:
// phi(m, lam) = (lam, m + xi lam).
func toyElcomop(xi uint64, prng *script) *P[ecX, ecW, ecA, ecS, ecZ] {
	g := toy.NewGroup()
	ck := toyElgamalKey(xi)
	pr := must(elcomop.NewProtocol(g, ck, prng))
	pre := must(constructions.NewFiniteDirectProductGroup(g, toy.NewScalarField()))
	img := must(constructions.NewFiniteDirectPowerModule(g, 2))
	p := &P[ecX, ecW, ecA, ecS, ecZ]{
		Tag:   "elcomop",
		Proto: pr,
		Desc:  map[string]any{"kind": "maurer", "M": [][]uint64{{0, 1}, {1, xi}}},
		PX:    func(x ecX) []uint64 { return logs(x.X.Components()) },
		PW:    func(w ecW) []uint64 { m, l := w.W.Components(); return []uint64{m.Log(), l.Int()} },
		PA:    func(a ecA) []uint64 { return logs(a.A.Components()) },
		PS:    func(s ecS) []uint64 { m, l := s.S.Components(); return []uint64{m.Log(), l.Int()} },
		PZ:    func(z ecZ) []uint64 { m, l := z.Z.Components(); return []uint64{m.Log(), l.Int()} },
		MkX:   func(v []uint64) ecX { return &elcomop.Statement[E, Sc]{X: imgElem(img, v)} },
		MkA:   func(v []uint64) ecA { return &elcomop.Commitment[E, Sc]{A: imgElem(img, v)} },
		MkZ: func(v []uint64) ecZ {
			return &elcomop.Response[E, Sc]{Z: must(pre.New(toy.FromLog(v[0]), toy.FromInt(v[1])))}
		},
		NR:     2,
		AArity: true,
	}
	p.FromW = func(w []uint64) (ecX, ecW) {
		msg := must(indcpacom.NewMessage(must(elgamal.NewPlaintext[E, Sc](toy.FromLog(w[0])))))
		nonce := must(indcpacom.NewWitness(must(elgamal.NewNonce(toy.FromInt(w[1])))))
		com := must(ck.CommitWithWitness(msg, nonce))
		return must(elcomop.NewStatement(com)), must(elcomop.NewWitness(msg, nonce))
	}
	p.Sample = func(r *rand.Rand) (ecX, ecW) {
		for {
			w := randVec(2, r)
			if w[1] != 0 && (w[0]+xi*w[1])%toy.Q != 0 {
				return p.FromW(w)
			}
		}
	}
	p.Extract = func(x ecX, a ecA, es []sigma.ChallengeBytes, zs []ecZ) (ecW, error) { return pr.Extract(x, a, es, zs) }
	return p
}

// toyBatch: batch Schnorr with generator g^gam and k witnesses.
func toyBatch(gam uint64, k int, prng *script) *P[bsX, bsW, bsA, bsS, bsZ] {
	pr := must(batch_schnorr.NewProtocol(k, toy.NewGroup(), prng))
	mkx := func(v []uint64) bsX {
		xs := make([]E, len(v))
		for i := range v {
			xs[i] = toy.FromLog(v[i])
		}
		return batch_schnorr.NewStatement[E, Sc](toy.FromLog(gam), xs...)
	}
	p := &P[bsX, bsW, bsA, bsS, bsZ]{
		Tag:   "batch",
		Proto: pr,
		Desc:  map[string]any{"kind": "batch", "gam": gam, "K": k, "M": [][]uint64{{1}}},
		PX:    func(x bsX) []uint64 { return logs(x.Xs) },
		PW:    func(w bsW) []uint64 { return ints(w.Ws) },
		PA:    func(a bsA) []uint64 { return []uint64{a.A.Log()} },
		PS:    func(s bsS) []uint64 { return []uint64{s.S.Int()} },
		PZ:    func(z bsZ) []uint64 { return []uint64{z.Z.Int()} },
		MkX:   mkx,
		MkA:   func(v []uint64) bsA { return &batch_schnorr.Commitment[E, Sc]{A: toy.FromLog(v[0])} },
		MkZ:   func(v []uint64) bsZ { return &batch_schnorr.Response[Sc]{Z: toy.FromInt(v[0])} },
		NR:    1,
	}
	p.FromW = func(w []uint64) (bsX, bsW) {
		x := make([]uint64, len(w))
		for i := range w {
			x[i] = gam * w[i] % toy.Q
		}
		return mkx(x), batch_schnorr.NewWitness(scalars(w)...)
	}
	p.Sample = func(r *rand.Rand) (bsX, bsW) {
		w := randVec(k, r)
		for i := range w {
			w[i] = 1 + r.Uint64N(toy.Q-1)
		}
		return p.FromW(w)
	}
	return p
}

package main

// A minimal CBOR tree (RFC 8949) with exact re-serialisation. It addresses every container and
// leaf of a serialised proof and produces single structural alterations of it. It is independent
// of the decoder under test (fxamacker/cbor through pkg/base/serde): whether an alteration changed
// a decoded value is decided afterwards by decoding with the library and projecting the values.

import (
	"encoding/binary"
	"errors"
	"fmt"
	"math/rand/v2"
)

type node struct {
	mt      int    // major type
	arg     uint64 // argument (value / length / tag)
	ai      int    // width class of the argument as parsed: 0 (inline), 1, 2, 4, 8 bytes
	payload []byte // bytes / text
	kids    []*node
	simple  byte // for major type 7: the initial byte's low 5 bits
}

func (n *node) clone() *node {
	c := *n
	c.payload = append([]byte(nil), n.payload...)
	c.kids = make([]*node, len(n.kids))
	for i, k := range n.kids {
		c.kids[i] = k.clone()
	}
	return &c
}

var errCBOR = errors.New("cbor walker: malformed or unsupported item")

func parseItem(b []byte, off int, depth int) (*node, int, error) {
	if depth > 40 || off >= len(b) {
		return nil, 0, errCBOR
	}
	ib := b[off]
	off++
	n := &node{mt: int(ib >> 5)}
	low := int(ib & 31)
	switch {
	case low < 24:
		n.arg, n.ai = uint64(low), 0
	case low == 24:
		if off+1 > len(b) {
			return nil, 0, errCBOR
		}
		n.arg, n.ai = uint64(b[off]), 1
		off++
	case low == 25:
		if off+2 > len(b) {
			return nil, 0, errCBOR
		}
		n.arg, n.ai = uint64(binary.BigEndian.Uint16(b[off:])), 2
		off += 2
	case low == 26:
		if off+4 > len(b) {
			return nil, 0, errCBOR
		}
		n.arg, n.ai = uint64(binary.BigEndian.Uint32(b[off:])), 4
		off += 4
	case low == 27:
		if off+8 > len(b) {
			return nil, 0, errCBOR
		}
		n.arg, n.ai = binary.BigEndian.Uint64(b[off:]), 8
		off += 8
	default:
		return nil, 0, errCBOR // indefinite lengths are never produced by the library
	}
	switch n.mt {
	case 0, 1:
	case 2, 3:
		if n.arg > uint64(len(b)-off) {
			return nil, 0, errCBOR
		}
		n.payload = append([]byte(nil), b[off:off+int(n.arg)]...)
		off += int(n.arg)
	case 4, 5:
		cnt := n.arg
		if n.mt == 5 {
			cnt *= 2
		}
		if cnt > uint64(len(b)) {
			return nil, 0, errCBOR
		}
		for i := uint64(0); i < cnt; i++ {
			k, o, err := parseItem(b, off, depth+1)
			if err != nil {
				return nil, 0, err
			}
			n.kids = append(n.kids, k)
			off = o
		}
	case 6:
		k, o, err := parseItem(b, off, depth+1)
		if err != nil {
			return nil, 0, err
		}
		n.kids = []*node{k}
		off = o
	case 7:
		n.simple = byte(low)
	}
	return n, off, nil
}

func parseCBOR(b []byte) (*node, error) {
	n, off, err := parseItem(b, 0, 0)
	if err != nil {
		return nil, err
	}
	if off != len(b) {
		return nil, errCBOR
	}
	return n, nil
}

func putHead(out []byte, mt int, arg uint64, ai int) []byte {
	// the narrowest width that holds arg, but never narrower than ai (keeps a parsed non-minimal head)
	w := 0
	switch {
	case arg < 24:
		w = 0
	case arg <= 0xff:
		w = 1
	case arg <= 0xffff:
		w = 2
	case arg <= 0xffffffff:
		w = 4
	default:
		w = 8
	}
	if ai > w {
		w = ai
	}
	m := byte(mt << 5)
	switch w {
	case 0:
		return append(out, m|byte(arg))
	case 1:
		return append(out, m|24, byte(arg))
	case 2:
		return binary.BigEndian.AppendUint16(append(out, m|25), uint16(arg))
	case 4:
		return binary.BigEndian.AppendUint32(append(out, m|26), uint32(arg))
	default:
		return binary.BigEndian.AppendUint64(append(out, m|27), arg)
	}
}

func (n *node) encode(out []byte) []byte {
	switch n.mt {
	case 0, 1:
		return putHead(out, n.mt, n.arg, n.ai)
	case 2, 3:
		out = putHead(out, n.mt, uint64(len(n.payload)), n.ai)
		return append(out, n.payload...)
	case 4:
		out = putHead(out, 4, uint64(len(n.kids)), n.ai)
	case 5:
		out = putHead(out, 5, uint64(len(n.kids)/2), n.ai)
	case 6:
		out = putHead(out, 6, n.arg, n.ai)
	case 7:
		if n.ai == 0 {
			return append(out, byte(7<<5)|n.simple)
		}
		return putHead(out, 7, n.arg, n.ai)
	}
	for _, k := range n.kids {
		out = k.encode(out)
	}
	return out
}

// addr is the position of a node: indices into kids from the root.
type addr []int

func (n *node) at(a addr) *node {
	for _, i := range a {
		n = n.kids[i]
	}
	return n
}

// pathName renders an address with map keys / array indices, and a shape that does not depend on
// which repetition or bit was hit (used in the stable key of a case).
func pathName(root *node, a addr) (full string, shape string) {
	n := root
	for _, i := range a {
		switch n.mt {
		case 5:
			key := n.kids[i-1]
			s := fmt.Sprintf("%x", key.payload)
			if key.mt == 3 {
				s = string(key.payload)
			}
			full += "/" + s
			shape += "/" + s
		case 4:
			full += fmt.Sprintf("/%d", i)
			shape += "/*"
		case 6:
			full += "/tag"
			shape += "/tag"
		}
		n = n.kids[i]
	}
	return full, shape
}

// walk visits every node that is a value (map keys are skipped).
func walk(n *node, a addr, f func(n *node, a addr)) {
	f(n, a)
	switch n.mt {
	case 4, 6:
		for i, k := range n.kids {
			walk(k, append(append(addr{}, a...), i), f)
		}
	case 5:
		for i := 1; i < len(n.kids); i += 2 {
			walk(n.kids[i], append(append(addr{}, a...), i), f)
		}
	}
}

type mutation struct {
	Class string // bitflip | trunc | extend | addq | drop | dup | swap | mapswap | mapdrop | cut | trail | nonmin | reorder
	Path  string
	Shape string
	Bytes []byte
	// Benign is what the walker intends (an encoding-only change); the specification never uses it:
	// sameness is decided from the decoded values.
	Benign bool
}

// mutations enumerates single alterations of the encoding enc. bits: how many bit positions per
// byte-string leaf (0 = all). q: toy modulus for the "addq" (unreduced scalar) class, 0 = none.
func mutations(enc []byte, bits int, q uint64, rnd *rand.Rand) ([]mutation, error) {
	root, err := parseCBOR(enc)
	if err != nil {
		return nil, err
	}
	if string(root.encode(nil)) != string(enc) {
		return nil, errors.New("cbor walker: re-encoding differs from the original")
	}
	var out []mutation
	add := func(class string, a addr, benign bool, edit func(r *node, n *node)) {
		r := root.clone()
		edit(r, r.at(a))
		full, shape := pathName(root, a)
		out = append(out, mutation{Class: class, Path: full, Shape: shape, Bytes: r.encode(nil), Benign: benign})
	}
	walk(root, addr{}, func(n *node, a addr) {
		switch n.mt {
		case 2:
			nb := len(n.payload) * 8
			var pos []int
			if bits == 0 || nb <= bits {
				for i := 0; i < nb; i++ {
					pos = append(pos, i)
				}
			} else {
				pos = append(pos, 0, nb-1)
				for len(pos) < bits {
					pos = append(pos, rnd.IntN(nb))
				}
			}
			for _, p := range pos {
				p := p
				add(fmt.Sprintf("bitflip"), a, false, func(_ *node, m *node) { m.payload[p/8] ^= 1 << (p % 8) })
			}
			if len(n.payload) > 0 {
				add("trunc", a, false, func(_ *node, m *node) { m.payload = m.payload[:len(m.payload)-1] })
			}
			add("extend", a, false, func(_ *node, m *node) { m.payload = append(m.payload, 0) })
			if q != 0 && len(n.payload) == 8 {
				v := binary.LittleEndian.Uint64(n.payload)
				if v < q { // a canonical toy scalar: the same residue, unreduced
					add("addq", a, true, func(_ *node, m *node) { binary.LittleEndian.PutUint64(m.payload, v+q) })
				}
			}
			add("nonmin", a, true, func(_ *node, m *node) { m.ai = widen(m.ai, uint64(len(m.payload))) })
		case 4:
			k := len(n.kids)
			if k > 0 {
				for _, i := range pick(k, 3, rnd) {
					i := i
					add("drop", a, false, func(_ *node, m *node) { m.kids = append(append([]*node{}, m.kids[:i]...), m.kids[i+1:]...) })
					add("dup", a, false, func(_ *node, m *node) {
						m.kids = append(append(append([]*node{}, m.kids[:i+1]...), m.kids[i].clone()), m.kids[i+1:]...)
					})
				}
			}
			if k > 1 {
				for _, i := range pick(k-1, 2, rnd) {
					i := i
					add("swap", a, false, func(_ *node, m *node) { m.kids[i], m.kids[i+1] = m.kids[i+1], m.kids[i] })
				}
				add("swap", a, false, func(_ *node, m *node) { m.kids[0], m.kids[k-1] = m.kids[k-1], m.kids[0] })
			}
			add("nonmin", a, true, func(_ *node, m *node) { m.ai = widen(m.ai, uint64(len(m.kids))) })
		case 5:
			k := len(n.kids) / 2
			for i := 0; i < k; i++ {
				i := i
				add("mapdrop", a, false, func(_ *node, m *node) { m.kids = append(append([]*node{}, m.kids[:2*i]...), m.kids[2*i+2:]...) })
				for j := i + 1; j < k; j++ {
					j := j
					add("mapswap", a, false, func(_ *node, m *node) { m.kids[2*i+1], m.kids[2*j+1] = m.kids[2*j+1], m.kids[2*i+1] })
				}
			}
			if k > 1 {
				add("reorder", a, true, func(_ *node, m *node) {
					m.kids[0], m.kids[1], m.kids[2*k-2], m.kids[2*k-1] = m.kids[2*k-2], m.kids[2*k-1], m.kids[0], m.kids[1]
				})
			}
			add("nonmin", a, true, func(_ *node, m *node) { m.ai = widen(m.ai, uint64(len(m.kids)/2)) })
		}
	})
	out = append(out, mutation{Class: "cut", Path: "", Shape: "", Bytes: append([]byte(nil), enc[:len(enc)-1]...)})
	out = append(out, mutation{Class: "trail", Path: "", Shape: "", Bytes: append(append([]byte(nil), enc...), 0)})
	return out, nil
}

func widen(ai int, arg uint64) int {
	w := 1
	if arg > 0xff {
		w = 2
	}
	if ai >= w {
		w = ai * 2
		if ai == 0 {
			w = 1
		}
	}
	if w > 8 {
		w = 8
	}
	return w
}

// pick returns up to m distinct indices < n: the first, the last and random ones.
func pick(n, m int, rnd *rand.Rand) []int {
	if n <= m {
		out := make([]int, n)
		for i := range out {
			out[i] = i
		}
		return out
	}
	seen := map[int]bool{0: true, n - 1: true}
	out := []int{0, n - 1}
	for len(out) < m {
		i := rnd.IntN(n)
		if !seen[i] {
			seen[i] = true
			out = append(out, i)
		}
	}
	return out
}

// mapValue returns the value node stored under a text key of a map node (nil if absent).
func mapValue(n *node, key string) *node {
	if n == nil || n.mt != 5 {
		return nil
	}
	for i := 0; i+1 < len(n.kids); i += 2 {
		if n.kids[i].mt == 3 && string(n.kids[i].payload) == key {
			return n.kids[i+1]
		}
	}
	return nil
}

// resimulated returns the encoding enc with the commitment and the response of repetition 0 replaced by
// the encodings newA, newZ (keys "A"/"Z" of a Fiat-Shamir proof, first elements of "a"/"z" otherwise).
func resimulated(enc []byte, fs bool, newA, newZ []byte) ([]byte, error) {
	root, err := parseCBOR(enc)
	if err != nil {
		return nil, err
	}
	na, err := parseCBOR(newA)
	if err != nil {
		return nil, err
	}
	nz, err := parseCBOR(newZ)
	if err != nil {
		return nil, err
	}
	put := func(key string, v *node) error {
		t := mapValue(root, key)
		if t == nil {
			return errCBOR
		}
		if !fs {
			if t.mt != 4 || len(t.kids) == 0 {
				return errCBOR
			}
			t = t.kids[0]
		}
		*t = *v
		return nil
	}
	ka, kz := "a", "z"
	if fs {
		ka, kz = "A", "Z"
	}
	if err := put(ka, na); err != nil {
		return nil, err
	}
	if err := put(kz, nz); err != nil {
		return nil, err
	}
	return root.encode(nil), nil
}

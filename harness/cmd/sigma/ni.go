package main

import (
	"fmt"
	"io"
	"math/rand/v2"
	"sort"

	"github.com/bronlabs/bron-crypto/pkg/base/serde"
	"github.com/bronlabs/bron-crypto/pkg/proofs/sigma"
	"github.com/bronlabs/bron-crypto/pkg/proofs/sigma/compiler"
	"github.com/bronlabs/bron-crypto/pkg/proofs/sigma/compiler/fiatshamir"
	"github.com/bronlabs/bron-crypto/pkg/proofs/sigma/compiler/fischlin"
	"github.com/bronlabs/bron-crypto/pkg/proofs/sigma/compiler/randfischlin"
	"github.com/bronlabs/bron-crypto/pkg/proofs/sigma/compiler/zk"
)

var compNames = map[string]compiler.Name{"fs": fiatshamir.Name, "fischlin": fischlin.Name, "randfischlin": randfischlin.Name}

// decodeReps decodes a compiled proof with the library's own decoder for compiler comp and returns its
// repetitions (commitment, challenge bytes, response).
func decodeReps[A sigma.Statement, Z sigma.Response](comp string, b []byte) (as []A, es [][]byte, zs []Z, err error) {
	switch comp {
	case "fs":
		pr, e := serde.UnmarshalCBOR[*fiatshamir.Proof[A, Z]](b)
		if e != nil || pr == nil {
			return nil, nil, nil, fmt.Errorf("decode: %v", e)
		}
		return []A{pr.Commitment()}, [][]byte{pr.Challenge()}, []Z{pr.Response()}, nil
	case "fischlin":
		pr, e := serde.UnmarshalCBOR[*fischlin.Proof[A, Z]](b)
		if e != nil || pr == nil {
			return nil, nil, nil, fmt.Errorf("decode: %v", e)
		}
		return pr.A, pr.E, pr.Z, nil
	default:
		pr, e := serde.UnmarshalCBOR[*randfischlin.Proof[A, Z]](b)
		if e != nil || pr == nil {
			return nil, nil, nil, fmt.Errorf("decode: %v", e)
		}
		return pr.A, pr.E, pr.Z, nil
	}
}

// project turns decoded repetitions into what is logged: exact integers (toy) or interned tokens.
func project[X sigma.Statement, W sigma.Witness, A sigma.Statement, S sigma.State, Z sigma.Response](
	p *P[X, W, A, S, Z], it *interner, as []A, es [][]byte, zs []Z) []map[string]any {
	n := max(len(as), len(es), len(zs))
	out := make([]map[string]any, n)
	for i := 0; i < n; i++ {
		r := map[string]any{}
		if p.exact() {
			r["cm"], r["e"], r["z"] = []uint64{}, []int{}, []uint64{}
			if i < len(as) {
				r["cm"] = p.PA(as[i])
			}
			if i < len(es) {
				r["e"] = bytesToInts(es[i])
			}
			if i < len(zs) {
				r["z"] = p.PZ(zs[i])
			}
		} else {
			r["cm"], r["e"], r["z"] = 0, 0, 0
			if i < len(as) {
				r["cm"] = it.tok(as[i].Bytes())
			}
			if i < len(es) {
				r["e"] = it.tok(append([]byte{0xee}, es[i]...))
			}
			if i < len(zs) {
				r["z"] = it.tok(zs[i].Bytes())
			}
		}
		out[i] = r
	}
	return out
}

type niOpts struct {
	comps    []string
	proofs   int // proofs per (protocol, compiler)
	bits     int // bit positions per byte-string leaf (0 = all)
	maxMut   int // cap on alterations per proof (0 = all)
	toyQ     uint64
	seed     uint64
	interact bool // also the interactive compilers
}

// niLevel: for every compiler, prove in one context and verify (1) in the same context, (2) in every
// context differing in exactly one coordinate, (3) in the same context after each single structural
// alteration of the proof bytes.
func niLevel[X sigma.Statement, W sigma.Witness, A sigma.Statement, S sigma.State, Z sigma.Response](
	p *P[X, W, A, S, Z], prng io.Reader, o niOpts, rnd *rand.Rand) {
	alt := renamed[X, W, A, S, Z]{Protocol: p.Proto, n: p.Proto.Name() + "-OTHER"}
	for _, comp := range o.comps {
		nic := must(compiler.Compile(compNames[comp], p.Proto, prng))
		nicAlt := must(compiler.Compile(compNames[comp], sigma.Protocol[X, W, A, S, Z](alt), prng))
		for pi := 0; pi < o.proofs; pi++ {
			run := uint64(rnd.Uint32())
			it := &interner{}
			x, wit := p.Sample(rnd)
			var x2 X
			for {
				x2, _ = p.Sample(rnd)
				if string(x2.Bytes()) != string(x.Bytes()) {
					break
				}
			}
			base := ctxCoord{}
			prover := must(nic.NewProver(newCtx(base, run)))
			proof := must(prover.Prove(x, wit))
			oa, oe, oz, err := decodeReps[A, Z](comp, proof)
			if err != nil {
				panic(fmt.Sprintf("own proof does not decode: %v", err))
			}
			orig := project(p, it, oa, oe, oz)
			common := func(ev map[string]any, xv X) map[string]any {
				ev["tag"], ev["comp"], ev["orig"], ev["exact"] = p.Tag, comp, orig, p.exact()
				if p.exact() {
					ev["P"] = p.Desc
					ev["xP"], ev["xV"] = p.PX(x), p.PX(xv)
				} else {
					ev["xP"], ev["xV"] = it.tok(x.Bytes()), it.tok(xv.Bytes())
				}
				ev["ctxP"] = base.tokens()
				return ev
			}
			verifyWith := func(vcomp string, n compiler.NonInteractiveProtocol[X, W], c ctxCoord, xv X, pb []byte) (bool, string) {
				err, pan := guard(func() error {
					v, err := n.NewVerifier(newCtx(c, run))
					if err != nil {
						return err
					}
					return v.Verify(xv, pb)
				})
				return err == nil && pan == "", pan
			}
			// (1)+(2): contexts
			for ci := -1; ci < 6; ci++ {
				c := base
				if ci >= 0 {
					c = c.with(ci)
				}
				xv, n, vcomp := x, nic, comp
				if c.Stmt == 1 {
					xv = x2
				}
				if c.Name == 1 {
					n = nicAlt
				}
				if c.Comp == 1 {
					for _, oc := range []string{"fs", "fischlin", "randfischlin"} {
						if oc == comp {
							continue
						}
						vcomp = oc
						n2 := must(compiler.Compile(compNames[oc], p.Proto, prng))
						da, de, dz, derr := decodeReps[A, Z](oc, proof)
						ok, pan := verifyWith(oc, n2, c, xv, proof)
						emit("ni", common(map[string]any{"vcomp": vcomp, "ctxV": c.tokens(), "mut": "none", "shape": "", "decok": derr == nil,
							"dec": project(p, it, da, de, dz), "ok": ok, "panic": pan != "", "panicmsg": pan}, xv))
					}
					continue
				}
				ok, pan := verifyWith(vcomp, n, c, xv, proof)
				emit("ni", common(map[string]any{"vcomp": vcomp, "ctxV": c.tokens(), "mut": "none", "shape": "", "decok": true,
					"dec": orig, "ok": ok, "panic": pan != "", "panicmsg": pan}, xv))
			}
			// (3): alterations of the bytes, same context
			muts, err := mutations(proof, o.bits, o.toyQ, rnd)
			if err != nil {
				panic(err)
			}
			if o.maxMut > 0 && len(muts) > o.maxMut {
				// keep every (class, position shape) represented: shuffle, then round-robin over them
				rnd.Shuffle(len(muts), func(i, j int) { muts[i], muts[j] = muts[j], muts[i] })
				by := map[string][]mutation{}
				var order []string
				for _, m := range muts {
					ck := m.Class + "|" + m.Shape
					if _, ok := by[ck]; !ok {
						order = append(order, ck)
					}
					by[ck] = append(by[ck], m)
				}
				sort.Strings(order)
				var sel []mutation
				for len(sel) < o.maxMut {
					progressed := false
					for _, cl := range order {
						if len(by[cl]) > 0 && len(sel) < o.maxMut {
							sel = append(sel, by[cl][0])
							by[cl] = by[cl][1:]
							progressed = true
						}
					}
					if !progressed {
						break
					}
				}
				muts = sel
			}
			// a two-leaf alteration: repetition 0 replaced by a simulated transcript for the same challenge
			// (what a prover without witness can do when the challenge does not depend on the commitment)
			{
				e0 := make([]byte, p.Proto.GetChallengeBytesLength())
				copy(e0[len(e0)-min(len(e0), len(oe[0])):], oe[0])
				sa, sz := must2(p.Proto.RunSimulator(x, e0))
				if rb, err := resimulated(proof, comp == "fs", must(serde.MarshalCBOR(sa)), must(serde.MarshalCBOR(sz))); err == nil {
					muts = append(muts, mutation{Class: "resim", Path: "/rep0", Shape: "/rep0", Bytes: rb})
				} else {
					panic(fmt.Sprintf("resimulated: %v", err))
				}
			}
			for _, m := range muts {
				da, de, dz, derr := decodeReps[A, Z](comp, m.Bytes)
				dec := []map[string]any{}
				var perr string
				if derr == nil {
					_, perr = guard(func() error { dec = project(p, it, da, de, dz); return nil })
				}
				if perr != "" { // a decoded value the projection cannot express (e.g. an empty vector): counts as changed
					dec = []map[string]any{}
				}
				ok, pan := verifyWith(comp, nic, base, x, m.Bytes)
				emit("ni", common(map[string]any{"vcomp": comp, "ctxV": base.tokens(), "mut": m.Class, "shape": m.Shape, "path": m.Path,
					"decok": derr == nil, "dec": dec, "odd": perr != "", "ok": ok, "panic": pan != "", "panicmsg": pan}, x))
			}
		}
	}
	if o.interact {
		zkLevel(p, prng, o, rnd)
	}
}

// zkLevel: the interactive zero-knowledge compiler (5 rounds) and the plain interactive sigma
// prover / verifier, between a prover context and a verifier context, with one message optionally
// replaced in flight.
func zkLevel[X sigma.Statement, W sigma.Witness, A sigma.Statement, S sigma.State, Z sigma.Response](
	p *P[X, W, A, S, Z], prng io.Reader, o niOpts, rnd *rand.Rand) {
	for pi := 0; pi < o.proofs; pi++ {
		run := uint64(rnd.Uint32())
		x, wit := p.Sample(rnd)
		var x2 X
		for {
			x2, _ = p.Sample(rnd)
			if string(x2.Bytes()) != string(x.Bytes()) {
				break
			}
		}
		base := ctxCoord{}
		alt := renamed[X, W, A, S, Z]{Protocol: p.Proto, n: p.Proto.Name() + "-OTHER"}
		type variant struct {
			c      ctxCoord
			tamper string
		}
		vs := []variant{{base, "none"}, {base, "a"}, {base, "e"}, {base, "z"}}
		if p.exact() && p.AArity {
			vs = append(vs, variant{base, "aarity"}) // the commitment arrives with one component too many
		}
		for ci := 0; ci < 5; ci++ { // no compiler coordinate here
			vs = append(vs, variant{base.with(ci), "none"})
		}
		for _, v := range vs {
			it := &interner{}
			xv := x
			if v.c.Stmt == 1 {
				xv = x2
			}
			var vproto sigma.Protocol[X, W, A, S, Z] = p.Proto
			if v.c.Name == 1 {
				vproto = alt
			}
			// an independent conversation supplies replacement values of the right types
			fa, fs := must2(p.Proto.ComputeProverCommitment(x, wit))
			for _, kind := range []string{"zk", "isig"} {
				ev := map[string]any{"tag": p.Tag, "comp": kind, "exact": p.exact(), "ctxP": base.tokens(), "ctxV": v.c.tokens(), "tamper": v.tamper}
				var cmP, cmV A
				var eV, eP []byte
				var zP, zV Z
				stage := ""
				err, pan := guard(func() error {
					if kind == "zk" {
						pr, err := zk.NewProver(newCtx(base, run), p.Proto, x, wit)
						if err != nil {
							return err
						}
						vr, err := zk.NewVerifier(newCtx(v.c, run), vproto, xv, prng)
						if err != nil {
							return err
						}
						c1, err := vr.Round1()
						if err != nil {
							return err
						}
						stage = "r2"
						if cmP, err = pr.Round2(c1); err != nil {
							return err
						}
						cmV = cmP
						if v.tamper == "a" {
							cmV = fa
						}
						if v.tamper == "aarity" {
							cmV = p.MkA(append(p.PA(cmP), 1))
						}
						stage = "r3"
						msg, wt, err := vr.Round3(cmV)
						if err != nil {
							return err
						}
						eV = append([]byte(nil), msg...)
						eP = append([]byte(nil), msg...)
						if v.tamper == "e" {
							eP = flipBit(eP, rnd.IntN(8*len(eP)))
						}
						stage = "r4"
						if zP, err = pr.Round4(eP, wt); err != nil {
							return err
						}
						zV = zP
						if v.tamper == "z" {
							zV = must(p.Proto.ComputeProverResponse(x, wit, fa, fs, eV))
						}
						stage = "r5"
						return vr.Verify(zV)
					}
					pr, err := sigma.NewProver(newCtx(base, run), p.Proto, x, wit)
					if err != nil {
						return err
					}
					vr, err := sigma.NewVerifier(newCtx(v.c, run), vproto, xv, prng)
					if err != nil {
						return err
					}
					stage = "r1"
					if cmP, err = pr.Round1(); err != nil {
						return err
					}
					cmV = cmP
					if v.tamper == "a" {
						cmV = fa
					}
					if v.tamper == "aarity" {
						cmV = p.MkA(append(p.PA(cmP), 1))
					}
					stage = "r2"
					ch, err := vr.Round2(cmV)
					if err != nil {
						return err
					}
					eV = append([]byte(nil), ch...)
					eP = append([]byte(nil), ch...)
					if v.tamper == "e" {
						eP = flipBit(eP, rnd.IntN(8*len(eP)))
					}
					stage = "r3"
					if zP, err = pr.Round3(eP); err != nil {
						return err
					}
					zV = zP
					if v.tamper == "z" {
						zV = must(p.Proto.ComputeProverResponse(x, wit, fa, fs, eV))
					}
					stage = "r4"
					return vr.Verify(zV)
				})
				ev["ok"], ev["panic"], ev["stage"], ev["panicmsg"] = err == nil && pan == "", pan != "", stage, pan
				// what each side saw (values that were never produced stay empty)
				pa := func(a A, have bool) any {
					if !have {
						if p.exact() {
							return []uint64{}
						}
						return 0
					}
					if p.exact() {
						return p.PA(a)
					}
					return it.tok(a.Bytes())
				}
				pz := func(z Z, have bool) any {
					if !have {
						if p.exact() {
							return []uint64{}
						}
						return 0
					}
					if p.exact() {
						return p.PZ(z)
					}
					return it.tok(z.Bytes())
				}
				pe := func(e []byte) any {
					if p.exact() {
						return bytesToInts(e)
					}
					return it.tok(append([]byte{0xee}, e...))
				}
				haveA := stage != "r2" || kind != "zk"
				if kind == "isig" {
					haveA = stage != "r1"
				}
				haveZ := stage == "r5" || (kind == "isig" && stage == "r4")
				ev["cmP"], ev["cmV"] = pa(cmP, haveA && stage != ""), pa(cmV, haveA && stage != "")
				ev["eV"], ev["eP"] = pe(eV), pe(eP)
				ev["zP"], ev["zV"] = pz(zP, haveZ), pz(zV, haveZ)
				if p.exact() {
					ev["P"] = p.Desc
					ev["xP"], ev["xV"] = p.PX(x), p.PX(xv)
				} else {
					ev["xP"], ev["xV"] = it.tok(x.Bytes()), it.tok(xv.Bytes())
				}
				emit("zk", ev)
			}
		}
	}
}

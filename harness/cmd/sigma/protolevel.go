package main

import (
	"math/rand/v2"

	"github.com/bronlabs/bron-crypto/pkg/proofs/sigma"

	"verif/harness/toy"
	"verif/harness/tr"
)

func withDesc(p map[string]any, ev map[string]any) map[string]any {
	ev["P"] = p
	return ev
}

// runHonest: one complete conversation of the real protocol with witness wv; the commitment
// randomness is scripted to rv (and read back from the prover state, which is what is logged),
// challenges e1 (then, after rewinding to the same commitment, e2); extraction from the two
// transcripts; a simulated transcript for challenge se.
func runHonest[X sigma.Statement, W sigma.Witness, A sigma.Statement, S sigma.State, Z sigma.Response](
	p *P[X, W, A, S, Z], prng *script, wv, rv []uint64, e1, e2, se []byte) {
	x, wit := p.FromW(wv)
	ev := map[string]any{"tag": p.Tag, "w": p.PW(wit), "x": p.PX(x), "valid": p.Proto.ValidateStatement(x, wit) == nil}
	prng.clear()
	prng.pushScalars(rv...)
	a, s, err := p.Proto.ComputeProverCommitment(x, wit)
	prng.clear()
	if err != nil {
		panic(err)
	}
	ev["r"], ev["cm"] = p.PS(s), p.PA(a)
	z1 := must(p.Proto.ComputeProverResponse(x, wit, a, s, e1))
	ev["e"], ev["z"], ev["ok"] = bytesToInts(e1), p.PZ(z1), p.Proto.Verify(x, a, e1, z1) == nil
	z2 := must(p.Proto.ComputeProverResponse(x, wit, a, s, e2))
	ev["e2"], ev["z2"], ev["ok2"] = bytesToInts(e2), p.PZ(z2), p.Proto.Verify(x, a, e2, z2) == nil
	ev["hasx"], ev["xok"], ev["wx"] = p.Extract != nil, false, []uint64{}
	if p.Extract != nil {
		wx, err := p.Extract(x, a, []sigma.ChallengeBytes{e1, e2}, []Z{z1, z2})
		if err == nil {
			ev["xok"], ev["wx"] = true, p.PW(wx)
		}
	}
	sa, sz := must2(p.Proto.RunSimulator(x, se))
	ev["se"], ev["sa"], ev["sz"], ev["sok"] = bytesToInts(se), p.PA(sa), p.PZ(sz), p.Proto.Verify(x, sa, se, sz) == nil
	emit("run", withDesc(p.Desc, ev))
}

// verifyAny: Verify on an arbitrary transcript.
func verifyAny[X sigma.Statement, W sigma.Witness, A sigma.Statement, S sigma.State, Z sigma.Response](
	p *P[X, W, A, S, Z], xv, av []uint64, e []byte, zv []uint64) {
	err, pan := guard(func() error { return p.Proto.Verify(p.MkX(xv), p.MkA(av), e, p.MkZ(zv)) })
	emit("vfy", withDesc(p.Desc, map[string]any{"tag": p.Tag, "x": xv, "cm": av, "e": bytesToInts(e), "z": zv, "ok": err == nil && pan == "",
		"panic": pan != "", "panicmsg": pan, "nx": len(xv), "ncm": len(av), "nz": len(zv)}))
}

// extractAny: Extract on two arbitrary transcripts sharing the commitment.
func extractAny[X sigma.Statement, W sigma.Witness, A sigma.Statement, S sigma.State, Z sigma.Response](
	p *P[X, W, A, S, Z], xv, av []uint64, e1 []byte, z1 []uint64, e2 []byte, z2 []uint64) {
	wx, err := p.Extract(p.MkX(xv), p.MkA(av), []sigma.ChallengeBytes{e1, e2}, []Z{p.MkZ(z1), p.MkZ(z2)})
	ev := map[string]any{"tag": p.Tag, "x": xv, "cm": av, "e": bytesToInts(e1), "z": z1, "e2": bytesToInts(e2), "z2": z2,
		"ok": err == nil, "wx": []uint64{}}
	if err == nil {
		ev["wx"] = p.PW(wx)
	}
	emit("ext", withDesc(p.Desc, ev))
}

// allVecs enumerates Z_q^n.
func allVecs(n int, f func(v []uint64)) {
	v := make([]uint64, n)
	var rec func(i int)
	rec = func(i int) {
		if i == n {
			f(append([]uint64(nil), v...))
			return
		}
		for x := uint64(0); x < toy.Q; x++ {
			v[i] = x
			rec(i + 1)
		}
	}
	rec(0)
}

// protoLevel drives one protocol: exhaustively over (w, r, e mod q, e2 mod q) when exh, with n
// sampled cases otherwise; arbitrary transcripts for Verify and Extract.
func protoLevel[X sigma.Statement, W sigma.Witness, A sigma.Statement, S sigma.State, Z sigma.Response](
	p *P[X, W, A, S, Z], prng *script, nw int, nimg int, exh bool, n int, seed uint64) {
	rnd := tr.PRand(seed, 77)
	cl := p.Proto.GetChallengeBytesLength()
	q := toy.Q
	if exh {
		allVecs(nw, func(wv []uint64) {
			allVecs(p.NR, func(rv []uint64) {
				for c1 := uint64(0); c1 < q; c1++ {
					for c2 := uint64(0); c2 < q; c2++ {
						runHonest(p, prng, wv, rv, challengeWithResidue(cl, c1, q, rnd), challengeWithResidue(cl, c2, q, rnd),
							challengeWithResidue(cl, (c1+c2)%q, q, rnd))
					}
				}
			})
		})
	} else {
		for i := 0; i < n; i++ {
			e1 := randBytes(cl, rnd)
			e2 := randBytes(cl, rnd)
			if i%7 == 0 { // same residue: extraction must refuse
				e2 = challengeWithResidue(cl, new2(e1, q), q, rnd)
			}
			runHonest(p, prng, randVec(nw, rnd), randVec(p.NR, rnd), e1, e2, randBytes(cl, rnd))
		}
	}
	// arbitrary transcripts: exhaustive over (x, a, e mod q, z) when that is small, sampled otherwise
	nz := p.NR
	total := 1
	for i := 0; i < 2*nimg+nz+1; i++ {
		total *= int(q)
		if total > 40000 {
			break
		}
	}
	if exh && total <= 40000 {
		allVecs(nimgOrK(p.Desc, nimg), func(xv []uint64) {
			allVecs(nimg, func(av []uint64) {
				for c := uint64(0); c < q; c++ {
					allVecs(nz, func(zv []uint64) { verifyAny(p, xv, av, challengeWithResidue(cl, c, q, rnd), zv) })
				}
			})
		})
	} else {
		for i := 0; i < 4*n; i++ {
			xv, av, zv := randVec(nimgOrK(p.Desc, nimg), rnd), randVec(nimg, rnd), randVec(nz, rnd)
			e := randBytes(cl, rnd)
			if i%2 == 0 && p.Desc["kind"] == "maurer" { // make it an accepting transcript: a = phi(z) - e x
				av = acceptingCommitment(p.Desc["M"].([][]uint64), xv, new2(e, q), zv)
			}
			verifyAny(p, xv, av, e, zv)
		}
	}
	// transcripts whose vectors have one component too many / too few (a decoder does not fix the arity)
	if p.Desc["kind"] == "maurer" {
		for i := 0; i < 12; i++ {
			xv, zv := randVec(nimg, rnd), randVec(nz, rnd)
			e := randBytes(cl, rnd)
			av := acceptingCommitment(p.Desc["M"].([][]uint64), xv, new2(e, q), zv)
			if p.ZArity {
				verifyAny(p, xv, av, e, append(append([]uint64{}, zv...), rnd.Uint64N(q)))
				verifyAny(p, xv, av, e, zv[:nz-1])
			}
			if p.AArity {
				verifyAny(p, xv, append(append([]uint64{}, av...), rnd.Uint64N(q)), e, zv)
				verifyAny(p, xv, av[:nimg-1], e, zv)
				verifyAny(p, append(append([]uint64{}, xv...), rnd.Uint64N(q)), av, e, zv)
				verifyAny(p, xv[:nimg-1], av, e, zv)
			}
		}
	}
	if p.Extract == nil {
		return
	}
	M := p.Desc["M"].([][]uint64)
	// the first transcript always accepts (its commitment is chosen for that), the second one as it comes
	one := func(xv, zv1 []uint64, c1, c2 uint64, zv2 []uint64) {
		e1 := challengeWithResidue(cl, c1, q, rnd)
		e2 := challengeWithResidue(cl, c2, q, rnd)
		extractAny(p, xv, acceptingCommitment(M, xv, c1, zv1), e1, zv1, e2, zv2)
	}
	if exh && int(q) <= 5 && nz == 1 && nimg == 1 {
		allVecs(1, func(xv []uint64) {
			allVecs(1, func(z1 []uint64) {
				for c1 := uint64(0); c1 < q; c1++ {
					for c2 := uint64(0); c2 < q; c2++ {
						allVecs(1, func(z2 []uint64) { one(xv, z1, c1, c2, z2) })
					}
				}
			})
		})
	} else {
		for i := 0; i < 3*n; i++ {
			xv, z1 := randVec(nimg, rnd), randVec(nz, rnd)
			c1, c2 := rnd.Uint64N(q), rnd.Uint64N(q)
			z2 := randVec(nz, rnd)
			if i%3 != 0 {
				// a second accepting transcript for the same commitment: pick w' with phi(w') = x if the
				// sampled x is in the image (always for the protocols here when some column is a unit)
				wv := randVec(nz, rnd)
				xv = matVec(M, wv)
				z2 = make([]uint64, nz)
				for j := range z2 {
					z2[j] = (z1[j] + (c2+q-c1)%q*wv[j]) % q
				}
			}
			one(xv, z1, c1, c2, z2)
		}
	}
}

func nimgOrK(desc map[string]any, nimg int) int {
	if desc["kind"] == "batch" {
		return desc["K"].(int)
	}
	return nimg
}

func matVec(M [][]uint64, v []uint64) []uint64 {
	out := make([]uint64, len(M))
	for i := range M {
		out[i] = dot(M[i], v)
	}
	return out
}

// acceptingCommitment = phi(z) - c x (so that (a, c, z) verifies for x).
func acceptingCommitment(M [][]uint64, x []uint64, c uint64, z []uint64) []uint64 {
	pz := matVec(M, z)
	out := make([]uint64, len(pz))
	for i := range pz {
		out[i] = (pz[i] + toy.Q*toy.Q - c%toy.Q*x[i]%toy.Q) % toy.Q
	}
	return out
}

// new2 reduces big-endian bytes mod q (only used to steer case generation, never logged as a result).
func new2(e []byte, q uint64) uint64 {
	var acc uint64
	for _, b := range e {
		acc = (acc*256 + uint64(b)) % q
	}
	return acc
}

var _ = rand.New

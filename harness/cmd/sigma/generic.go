package main

// Group-agnostic constructions (token mode): the same code drives the toy group and k256 / P-256 /
// BLS12-381 G1. Values are only compared (interned bytes), never computed with.

import (
	"io"
	"math/rand/v2"

	"github.com/bronlabs/bron-crypto/pkg/base/algebra"
	"github.com/bronlabs/bron-crypto/pkg/commitments/indcpacom"
	"github.com/bronlabs/bron-crypto/pkg/encryption/elgamal"
	"github.com/bronlabs/bron-crypto/pkg/proofs/dlog/batch_schnorr"
	"github.com/bronlabs/bron-crypto/pkg/proofs/dlog/schnorr"
	"github.com/bronlabs/bron-crypto/pkg/proofs/elgamal/elcomop"
	"github.com/bronlabs/bron-crypto/pkg/proofs/elgamal/elog"
	"github.com/bronlabs/bron-crypto/pkg/proofs/okamoto"
	"github.com/bronlabs/bron-crypto/pkg/proofs/sigma"
	"github.com/bronlabs/bron-crypto/pkg/proofs/sigma/compose/sigand"
	"github.com/bronlabs/bron-crypto/pkg/proofs/sigma/compose/sigor"
)

func nonZero[S algebra.PrimeFieldElement[S]](f algebra.PrimeField[S], prng io.Reader) S {
	for {
		s := must(f.Random(prng))
		if !s.IsZero() {
			return s
		}
	}
}

func fieldOf[G algebra.PrimeGroupElement[G, S], S algebra.PrimeFieldElement[S]](g algebra.PrimeGroup[G, S]) algebra.PrimeField[S] {
	return algebra.StructureMustBeAs[algebra.PrimeField[S]](g.ScalarStructure())
}

func gSchnorr[G algebra.PrimeGroupElement[G, S], S algebra.PrimeFieldElement[S]](group algebra.PrimeGroup[G, S], prng io.Reader) *P[*schnorr.Statement[G, S], *schnorr.Witness[S], *schnorr.Commitment[G, S], *schnorr.State[S], *schnorr.Response[S]] {
	f := fieldOf(group)
	base := group.Generator()
	return &P[*schnorr.Statement[G, S], *schnorr.Witness[S], *schnorr.Commitment[G, S], *schnorr.State[S], *schnorr.Response[S]]{
		Tag:   "schnorr",
		Proto: must(schnorr.NewProtocol(base, prng)),
		Sample: func(*rand.Rand) (*schnorr.Statement[G, S], *schnorr.Witness[S]) {
			w := nonZero(f, prng)
			return schnorr.NewStatement[G, S](base.ScalarOp(w)), schnorr.NewWitness(w)
		},
	}
}

func gOkamoto[G algebra.PrimeGroupElement[G, S], S algebra.PrimeFieldElement[S]](group algebra.PrimeGroup[G, S], m int, prng io.Reader) *P[*okamoto.Statement[G, S], *okamoto.Witness[S], *okamoto.Commitment[G, S], *okamoto.State[S], *okamoto.Response[S]] {
	f := fieldOf(group)
	gens := make([]G, m)
	for i := range gens {
		gens[i] = group.Generator().ScalarOp(nonZero(f, prng))
	}
	gens[0] = group.Generator()
	return &P[*okamoto.Statement[G, S], *okamoto.Witness[S], *okamoto.Commitment[G, S], *okamoto.State[S], *okamoto.Response[S]]{
		Tag:   "okamoto",
		Proto: must(okamoto.NewProtocol(gens, prng)),
		Sample: func(*rand.Rand) (*okamoto.Statement[G, S], *okamoto.Witness[S]) {
			for {
				ws := make([]S, m)
				acc := group.OpIdentity()
				for i := range ws {
					ws[i] = nonZero(f, prng)
					acc = acc.Op(gens[i].ScalarOp(ws[i]))
				}
				if !acc.IsOpIdentity() {
					return must(okamoto.NewStatement[G, S](acc)), must(okamoto.NewWitness(ws...))
				}
			}
		},
	}
}

func gBatch[G algebra.PrimeGroupElement[G, S], S algebra.PrimeFieldElement[S]](group algebra.PrimeGroup[G, S], k int, prng io.Reader) *P[*batch_schnorr.Statement[G, S], *batch_schnorr.Witness[S], *batch_schnorr.Commitment[G, S], *batch_schnorr.State[S], *batch_schnorr.Response[S]] {
	f := fieldOf(group)
	gen := group.Generator()
	return &P[*batch_schnorr.Statement[G, S], *batch_schnorr.Witness[S], *batch_schnorr.Commitment[G, S], *batch_schnorr.State[S], *batch_schnorr.Response[S]]{
		Tag:   "batch",
		Proto: must(batch_schnorr.NewProtocol(k, group, prng)),
		Sample: func(*rand.Rand) (*batch_schnorr.Statement[G, S], *batch_schnorr.Witness[S]) {
			ws := make([]S, k)
			xs := make([]G, k)
			for i := range ws {
				ws[i] = nonZero(f, prng)
				xs[i] = gen.ScalarOp(ws[i])
			}
			return batch_schnorr.NewStatement[G, S](gen, xs...), batch_schnorr.NewWitness(ws...)
		},
	}
}

type gCK[G elgamal.FiniteCyclicGroupElement[G, S], S algebra.UintLike[S]] = *indcpacom.CommitmentKey[*elgamal.PublicKey[G, S], *elgamal.Plaintext[G, S], *elgamal.Nonce[S], *elgamal.Ciphertext[G, S]]

func gElcomopSample[G algebra.PrimeGroupElement[G, S], S algebra.PrimeFieldElement[S]](group algebra.PrimeGroup[G, S], ck gCK[G, S], prng io.Reader) (*elcomop.Statement[G, S], *elcomop.Witness[G, S], S) {
	f := fieldOf(group)
	y := nonZero(f, prng)
	msg := must(indcpacom.NewMessage(must(elgamal.NewPlaintext[G, S](group.Generator().ScalarOp(y)))))
	nonce := must(indcpacom.NewWitness(must(elgamal.NewNonce(nonZero(f, prng)))))
	com := must(ck.CommitWithWitness(msg, nonce))
	return must(elcomop.NewStatement(com)), must(elcomop.NewWitness(msg, nonce)), y
}

func gKey[G algebra.PrimeGroupElement[G, S], S algebra.PrimeFieldElement[S]](group algebra.PrimeGroup[G, S], prng io.Reader) gCK[G, S] {
	f := fieldOf(group)
	for {
		a := nonZero(f, prng)
		if a.IsOne() {
			continue
		}
		sk := must(elgamal.NewSecretKey(group.Generator(), a))
		return must(indcpacom.NewCommitmentKey(sk.Public()))
	}
}

func gElcomop[G algebra.PrimeGroupElement[G, S], S algebra.PrimeFieldElement[S]](group algebra.PrimeGroup[G, S], prng io.Reader) *P[*elcomop.Statement[G, S], *elcomop.Witness[G, S], *elcomop.Commitment[G, S], *elcomop.State[G, S], *elcomop.Response[G, S]] {
	ck := gKey(group, prng)
	return &P[*elcomop.Statement[G, S], *elcomop.Witness[G, S], *elcomop.Commitment[G, S], *elcomop.State[G, S], *elcomop.Response[G, S]]{
		Tag:   "elcomop",
		Proto: must(elcomop.NewProtocol(group, ck, prng)),
		Sample: func(*rand.Rand) (*elcomop.Statement[G, S], *elcomop.Witness[G, S]) {
			x, w, _ := gElcomopSample(group, ck, prng)
			return x, w
		},
	}
}

func gElog[G algebra.PrimeGroupElement[G, S], S algebra.PrimeFieldElement[S]](group algebra.PrimeGroup[G, S], prng io.Reader) *P[*elog.Statement[G, S], *elog.Witness[G, S], *elog.Commitment[G, S], *elog.State[G, S], *elog.Response[G, S]] {
	ck := gKey(group, prng)
	f := fieldOf(group)
	h := group.Generator().ScalarOp(nonZero(f, prng))
	return &P[*elog.Statement[G, S], *elog.Witness[G, S], *elog.Commitment[G, S], *elog.State[G, S], *elog.Response[G, S]]{
		Tag:   "elog",
		Proto: must(elog.NewProtocol(group, ck, h, prng)),
		Sample: func(*rand.Rand) (*elog.Statement[G, S], *elog.Witness[G, S]) {
			x1, w1, y := gElcomopSample(group, ck, prng)
			x2, w2 := schnorr.NewStatement[G, S](h.ScalarOp(y)), schnorr.NewWitness(y)
			return must(elog.NewStatement(x1, x2)), must(elog.NewWitness(w1, w2))
		},
	}
}

// gAnd: sigand.Compose(p, n).
func gAnd[X sigma.Statement, W sigma.Witness, A sigma.Statement, S sigma.State, Z sigma.Response](p *P[X, W, A, S, Z], n int) *P[sigand.Statement[X], sigand.Witness[W], sigand.Commitment[A], sigand.State[S], sigand.Response[Z]] {
	return &P[sigand.Statement[X], sigand.Witness[W], sigand.Commitment[A], sigand.State[S], sigand.Response[Z]]{
		Tag:   "and-" + p.Tag,
		Proto: must(sigand.Compose(p.Proto, uint(n))),
		Sample: func(r *rand.Rand) (sigand.Statement[X], sigand.Witness[W]) {
			xs := make([]X, n)
			ws := make([]W, n)
			for i := range xs {
				xs[i], ws[i] = p.Sample(r)
			}
			return must(sigand.ComposeStatements(xs...)), must(sigand.ComposeWitnesses(ws...))
		},
	}
}

// gOr: sigor.Compose(p, n) with a witness for exactly one (random) branch.
func gOr[X sigma.Statement, W sigma.Witness, A sigma.Statement, S sigma.State, Z sigma.Response](p *P[X, W, A, S, Z], n int, prng io.Reader) *P[sigor.Statement[X], sigor.Witness[W], sigor.Commitment[A], *sigor.State[S, Z], *sigor.Response[Z]] {
	return &P[sigor.Statement[X], sigor.Witness[W], sigor.Commitment[A], *sigor.State[S, Z], *sigor.Response[Z]]{
		Tag:   "or-" + p.Tag,
		Proto: must(sigor.Compose(p.Proto, uint(n), prng)),
		Sample: func(r *rand.Rand) (sigor.Statement[X], sigor.Witness[W]) {
			b := r.IntN(n)
			xs := make([]X, n)
			var wb W
			for i := range xs {
				x, w := p.Sample(r)
				xs[i] = x
				if i == b {
					wb = w
				}
			}
			return must(sigor.ComposeStatements(xs...)), sigor.NewWitness(wb)
		},
	}
}

// gOrCart: sigor.CartesianCompose(p0, p1) with a witness for exactly one side.
func gOrCart[X0 sigma.Statement, W0 sigma.Witness, A0 sigma.Statement, S0 sigma.State, Z0 sigma.Response,
	X1 sigma.Statement, W1 sigma.Witness, A1 sigma.Statement, S1 sigma.State, Z1 sigma.Response](
	p0 *P[X0, W0, A0, S0, Z0], p1 *P[X1, W1, A1, S1, Z1], prng io.Reader) *P[*sigor.StatementCartesian[X0, X1], *sigor.WitnessCartesian[W0, W1], *sigor.CommitmentCartesian[A0, A1], *sigor.StateCartesian[S0, S1, Z0, Z1], *sigor.ResponseCartesian[Z0, Z1]] {
	return &P[*sigor.StatementCartesian[X0, X1], *sigor.WitnessCartesian[W0, W1], *sigor.CommitmentCartesian[A0, A1], *sigor.StateCartesian[S0, S1, Z0, Z1], *sigor.ResponseCartesian[Z0, Z1]]{
		Tag:   "orc-" + p0.Tag + "-" + p1.Tag,
		Proto: must(sigor.CartesianCompose(p0.Proto, p1.Proto, prng)),
		Sample: func(r *rand.Rand) (*sigor.StatementCartesian[X0, X1], *sigor.WitnessCartesian[W0, W1]) {
			x0, w0 := p0.Sample(r)
			x1, w1 := p1.Sample(r)
			if r.IntN(2) == 0 {
				_, w1 = p1.Sample(r)
			} else {
				_, w0 = p0.Sample(r)
			}
			return must(sigor.CartesianComposeStatements(x0, x1)), must(sigor.CartesianComposeWitnesses(w0, w1))
		},
	}
}

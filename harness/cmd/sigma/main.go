// sigma drives the sigma protocols of pkg/proofs (Schnorr, batch Schnorr, Okamoto, the ElGamal-based
// protocols), their AND / OR compositions and the compilers (Fiat-Shamir, Fischlin, randomised
// Fischlin, the interactive zero-knowledge compiler) and logs every call with its arguments and the
// projected real result (C08). Nothing is judged here; the TLA+ trace specification SigmaTrace decides.
//
//	-mode proto    toy group: protocol level (commit / respond / verify / extract / simulate), exact integers
//	-mode compose  toy group: AND / OR compositions at protocol level, exact integers
//	-mode ni       toy group: compiled proofs, contexts and byte alterations, exact integers
//	-mode nitok    toy group: compiled compositions, tokens
//	-mode prod     k256 / P-256 / BLS12-381 G1: compiled proofs, contexts and byte alterations, tokens
package main

import (
	"flag"
	"fmt"
	"os"
	"strings"

	"github.com/bronlabs/bron-crypto/pkg/base/curves/k256"
	"github.com/bronlabs/bron-crypto/pkg/base/curves/p256"
	"github.com/bronlabs/bron-crypto/pkg/base/curves/pairable/bls12381"

	"verif/harness/toy"
	"verif/harness/tr"
)

func has(list, x string) bool {
	for _, s := range strings.Split(list, ",") {
		if s == x || s == "all" {
			return true
		}
	}
	return false
}

func main() {
	var (
		out    = flag.String("out", "trace.ndjson", "output file")
		mode   = flag.String("mode", "proto", "proto | compose | ni | nitok | prod")
		q      = flag.Uint64("q", 11, "toy modulus")
		seed   = flag.Uint64("seed", 1, "seed")
		exh    = flag.Bool("exh", false, "exhaustive over (w, r, e, e')")
		n      = flag.Int("n", 100, "sampled cases")
		protos = flag.String("protos", "all", "schnorr,okamoto,elcomop,batch,...")
		comps  = flag.String("comps", "fs", "fs,fischlin,randfischlin")
		proofs = flag.Int("proofs", 2, "proofs per (protocol, compiler)")
		bits   = flag.Int("bits", 3, "bit flips per byte string (0 = all)")
		maxMut = flag.Int("maxmut", 60, "alterations per proof (0 = all)")
		inter  = flag.Bool("interactive", false, "also the interactive compilers")
		group  = flag.String("group", "k256", "k256 | p256 | bls12381g1 (mode prod)")
	)
	flag.Parse()
	toy.Setup(*q)
	w = tr.NewW(*out)
	defer w.Close()
	emit("hdr", map[string]any{"q": *q, "mode": *mode, "seed": *seed})
	rnd := tr.PRand(*seed, 5)
	prng := &script{rest: tr.Rng(*seed, 6)}
	o := niOpts{comps: strings.Split(*comps, ","), proofs: *proofs, bits: *bits, maxMut: *maxMut, toyQ: *q, seed: *seed, interact: *inter}
	eta := 2 + rnd.Uint64N(*q-2) // a generator g^eta with eta not in {0, 1}
	xi := 2 + rnd.Uint64N(*q-2)
	gam := 1 + rnd.Uint64N(*q-1)

	switch *mode {
	case "proto":
		if has(*protos, "schnorr") {
			protoLevel(toySchnorr(1, prng), prng, 1, 1, *exh, *n, *seed)
		}
		if has(*protos, "schnorrh") { // another base
			protoLevel(toySchnorr(eta, prng), prng, 1, 1, *exh, *n, *seed)
		}
		if has(*protos, "okamoto") {
			protoLevel(toyOkamoto([]uint64{1, eta}, prng), prng, 2, 1, *exh, *n, *seed)
		}
		if has(*protos, "okamoto3") {
			protoLevel(toyOkamoto([]uint64{1, eta, xi}, prng), prng, 3, 1, false, *n, *seed)
		}
		if has(*protos, "elcomop") {
			protoLevel(toyElcomop(xi, prng), prng, 2, 2, *exh, *n, *seed)
		}
		if has(*protos, "batch") {
			protoLevel(toyBatch(gam, 2, prng), prng, 2, 1, *exh, *n, *seed)
		}
		if has(*protos, "batch3") {
			protoLevel(toyBatch(gam, 3, prng), prng, 3, 1, false, *n, *seed)
		}
	case "compose":
		andLevel(2, *n, *seed)
		andLevel(3, *n/2+1, *seed+1)
		orLevel(2, *n, *seed)
		orLevel(3, *n/2+1, *seed+1)
	case "ni":
		if has(*protos, "schnorr") {
			niLevel(toySchnorr(1, prng), prng, o, rnd)
		}
		if has(*protos, "okamoto") {
			niLevel(toyOkamoto([]uint64{1, eta}, prng), prng, o, rnd)
		}
		if has(*protos, "elcomop") {
			niLevel(toyElcomop(xi, prng), prng, o, rnd)
		}
		if has(*protos, "batch") {
			niLevel(toyBatch(gam, 2, prng), prng, o, rnd)
		}
	case "nitok":
		o.toyQ = 0
		g := toy.NewGroup()
		if has(*protos, "and") {
			niLevel(gAnd(gSchnorr(g, prng), 2), prng, o, rnd)
		}
		if has(*protos, "elog") {
			niLevel(gElog(g, prng), prng, o, rnd)
		}
		if has(*protos, "or") {
			niLevel(gOr(gSchnorr(g, prng), 2, prng), prng, o, rnd)
		}
		if has(*protos, "orc") {
			niLevel(gOrCart(gSchnorr(g, prng), gOkamoto(g, 2, prng), prng), prng, o, rnd)
		}
	case "prod":
		o.toyQ = 0
		switch *group {
		case "k256":
			prodLevel(k256.NewCurve(), *protos, prng, o, rnd)
		case "p256":
			prodLevel(p256.NewCurve(), *protos, prng, o, rnd)
		case "bls12381g1":
			prodLevel(bls12381.NewG1(), *protos, prng, o, rnd)
		default:
			fmt.Fprintln(os.Stderr, "unknown group")
			os.Exit(2)
		}
	default:
		fmt.Fprintln(os.Stderr, "unknown mode")
		os.Exit(2)
	}
}

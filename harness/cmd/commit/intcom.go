package main

func intcomToy(q uint64) { fail("intcom not built yet") }

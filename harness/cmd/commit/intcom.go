package main

// Ring-Pedersen (intcom) over a toy safe-prime modulus N = p*q (p = 2p'+1, q = 2q'+1): every group
// element is logged as its residue mod N (< 2^31), messages and witnesses are small signed integers, the
// order o = p'q' of QR(N) and the trapdoor are in the header, so CommitTrace recomputes s^m * t^r mod N.

import (
	"fmt"
	"math/big"

	"github.com/bronlabs/bron-crypto/pkg/base/nt/num"
	"github.com/bronlabs/bron-crypto/pkg/base/nt/znstar"
	"github.com/bronlabs/bron-crypto/pkg/commitments"
	"github.com/bronlabs/bron-crypto/pkg/commitments/intcom"

	"verif/harness/tr"
)

func icVal(c *intcom.Commitment) uint64 { return c.Value().Value().Big().Uint64() }

func intcomToy(which uint64) {
	primes := [][2]uint64{{47, 59}, {83, 107}}
	if which >= uint64(len(primes)) {
		fail("unknown toy modulus")
	}
	p, q := primes[which][0], primes[which][1]
	N := p * q
	o := (p / 2) * (q / 2)
	group, err := znstar.NewRSAGroup(must(num.NPlus().FromUint64(p)), must(num.NPlus().FromUint64(q)))
	if err != nil {
		fail("NewRSAGroup: " + err.Error())
	}
	n := nFlag
	pr := tr.PRand(seed, 187)
	prng := tr.Rng(seed, 188)
	zo := must(num.NewZMod(must(num.NPlus().FromUint64(o))))
	w.Emit(map[string]any{"a": "hdr", "k": "hdr", "q": 3, "N": N, "o": o})
	I := func(v int64) *num.Int { return num.Z().FromInt64(v) }
	msg := func(v int64) *intcom.Message { return must(intcom.NewMessage(I(v))) }
	wit := func(v int64) *intcom.Witness { return must(intcom.NewWitness(I(v))) }
	com := func(v uint64) *intcom.Commitment {
		return must(intcom.NewCommitment(must(group.FromUint64(v)).ForgetOrder()))
	}
	for i := 0; i < n; i++ {
		// a generator t of QR(N) and a unit trapdoor lambda, chosen here; NewTrapdoorKey re-validates them
		var tk *intcom.TrapdoorKey
		var tv, lam uint64
		for {
			a := 2 + pr.Uint64N(N-2)
			tv = a * a % N
			lam = 2 + pr.Uint64N(o-2)
			te, err := group.FromUint64(tv)
			if err != nil {
				continue
			}
			tk, err = intcom.NewTrapdoorKey(te, zo.FromUint64(lam))
			if err == nil {
				break
			}
		}
		pk := tk.Export()
		sv := pk.S().Value().Big().Uint64()
		rng := int64(3 * o)
		m, r := pr.Int64N(2*rng)-rng, pr.Int64N(2*rng)-rng
		if i%7 == 0 {
			m = 0
		}
		if i%11 == 0 {
			r = 0
		}
		M, W := msg(m), wit(r)
		c := must(pk.CommitWithWitness(M, W))
		ct := must(tk.CommitWithWitness(M, W))
		cv := icVal(c)
		opens := [][]any{}
		open := func(k *intcom.CommitmentKey, cc uint64, mm, rr int64) {
			err := k.Open(com(cc), msg(mm), wit(rr))
			opens = append(opens, []any{k.S().Value().Big().Uint64(), k.T().Value().Big().Uint64(), cc, mm, rr, err == nil})
		}
		open(pk, cv, m, r)
		open(pk, icVal(ct), m, r)
		for _, d := range []int64{1, -1, 2, int64(o), -int64(o), int64(o) + 1, pr.Int64N(rng) + 1} {
			open(pk, cv, m+d, r)
			open(pk, cv, m, r+d)
		}
		for _, d := range []uint64{1, 2, N - 1} {
			if c2, err := group.FromUint64((cv + d) % N); err == nil {
				open(pk, c2.Value().Big().Uint64(), m, r)
			}
		}
		// equivocation: the witness is re-randomised inside its residue class mod o, so it is logged mod o
		equivs := [][]any{}
		for j := 0; j < 4; j++ {
			m2 := pr.Int64N(2*rng) - rng
			if j == 0 {
				m2 = m
			}
			w2, err := tk.Equivocate(M, W, msg(m2), prng)
			if err != nil {
				equivs = append(equivs, []any{m2, -1, false, false})
				continue
			}
			w2mod := new(big.Int).Mod(w2.Value().Big(), new(big.Int).SetUint64(o)).Uint64()
			okPub := pk.Open(c, msg(m2), w2) == nil
			// inside the range SampleWitness draws from: |w2| < N * 2^80
			bound := new(big.Int).Lsh(new(big.Int).SetUint64(N), 80)
			inRange := w2.Value().Big().CmpAbs(bound) <= 0
			equivs = append(equivs, []any{m2, w2mod, okPub, inRange})
		}
		// homomorphic operations on the commitment with small operands
		m3, r3 := pr.Int64N(2*rng)-rng, pr.Int64N(2*rng)-rng
		s := pr.Int64N(41) - 20
		c3 := must(pk.CommitWithWitness(msg(m3), wit(r3)))
		homs := [][]any{}
		hom := func(op string, res *intcom.Commitment, err error, mm, rr *num.Int) {
			if err != nil {
				homs = append(homs, []any{op, 0, 0, 0, false, true})
				return
			}
			ok := pk.Open(res, must(intcom.NewMessage(mm)), must(intcom.NewWitness(rr))) == nil
			mo := new(big.Int).Mod(mm.Big(), new(big.Int).SetUint64(o)).Uint64()
			ro := new(big.Int).Mod(rr.Big(), new(big.Int).SetUint64(o)).Uint64()
			homs = append(homs, []any{op, icVal(res), mo, ro, ok, false})
		}
		mOp := must(pk.MessageOp(M, msg(m3)))
		wOp := must(pk.WitnessOp(W, wit(r3)))
		r1, e1 := pk.CommitmentOp(c, c3)
		hom("op", r1, e1, mOp.Value(), wOp.Value())
		r1, e1 = tk.CommitmentOp(c, c3)
		hom("op", r1, e1, mOp.Value(), wOp.Value())
		r1, e1 = pk.CommitmentOpInv(c)
		hom("inv", r1, e1, must(pk.MessageOpInv(M)).Value(), must(pk.WitnessOpInv(W)).Value())
		r1, e1 = pk.CommitmentScalarOp(c, I(s))
		hom("scal", r1, e1, must(pk.MessageScalarOp(M, I(s))).Value(), must(pk.WitnessScalarOp(W, I(s))).Value())
		r1, e1 = pk.ReRandomise(c, wit(r3))
		hom("rerand", r1, e1, M.Value(), wOp.Value())
		r1, e1 = pk.Shift(c, msg(m3))
		hom("shift", r1, e1, mOp.Value(), W.Value())
		// commitments.Commit samples a wide witness; logged mod o
		c5, w5, err := commitments.Commit(pk, M, prng)
		if err != nil {
			fail("intcom Commit: " + err.Error())
		}
		w5mod := new(big.Int).Mod(w5.Value().Big(), new(big.Int).SetUint64(o)).Uint64()
		emit("int", fmt.Sprintf("int:N=%d:t=%d:lam=%d:m=%d:r=%d", N, tv, lam, m, r), map[string]any{
			"N": N, "o": o, "s": sv, "t": tv, "lam": lam, "m": m, "r": r, "c": cv, "ct": icVal(ct),
			"opens": opens, "equivs": equivs, "homs": homs, "m3": m3, "r3": r3, "sc": s, "c3": icVal(c3),
			"sampled": []any{w5mod, icVal(c5)}})
	}
}

// linalg drives pkg/base/mat and pkg/base/polynomials(/interpolation) on the toy field and
// logs every call with arguments and result (C20). Nothing is judged here; the TLA+ trace
// specification LinAlgTrace decides.
package main

import (
	"flag"
	"fmt"
	"os"
	"sort"
	"strconv"
	"strings"

	"github.com/bronlabs/bron-crypto/pkg/base/mat"
	"github.com/bronlabs/bron-crypto/pkg/base/polynomials"
	"github.com/bronlabs/bron-crypto/pkg/base/polynomials/interpolation/birkhoff"
	"github.com/bronlabs/bron-crypto/pkg/base/polynomials/interpolation/lagrange"
	"github.com/bronlabs/bron-crypto/pkg/base/polynomials/interpolation/vandermonde"

	"verif/harness/toy"
	"verif/harness/tr"
)

var (
	w    *tr.W
	q    uint64
	kseq int
)

func key(a string) string { kseq++; return fmt.Sprintf("%s#%d", a, kseq) }

func emit(a string, ev map[string]any) {
	ev["a"] = a
	ev["k"] = key(a)
	w.Emit(ev)
}

// allVecs enumerates Z_q^n in lexicographic order.
func allVecs(n int, f func(v []uint64)) {
	v := make([]uint64, n)
	var rec func(i int)
	rec = func(i int) {
		if i == n {
			f(append([]uint64(nil), v...))
			return
		}
		for x := uint64(0); x < q; x++ {
			v[i] = x
			rec(i + 1)
		}
	}
	rec(0)
}

func toRows(flat []uint64, m, n int) [][]uint64 {
	rows := make([][]uint64, m)
	for i := range rows {
		rows[i] = flat[i*n : (i+1)*n]
	}
	return rows
}

func colVec(v []uint64) *mat.Matrix[*toy.Scalar] {
	rows := make([][]uint64, len(v))
	for i, x := range v {
		rows[i] = []uint64{x}
	}
	return tr.Mat(rows)
}

func rowVec(v []uint64) *mat.Matrix[*toy.Scalar] { return tr.Mat([][]uint64{v}) }

func doSolveR(A [][]uint64, b []uint64) {
	x, err := mat.SolveRight(tr.Mat(A), colVec(b))
	ev := map[string]any{"A": A, "b": b, "ok": err == nil, "x": []uint64{}}
	if err == nil {
		ev["x"] = tr.Flat(x)
		r, c := x.Dimensions()
		ev["xdim"] = []int{r, c}
	}
	emit("solveR", ev)
}

func doSolveL(A [][]uint64, r []uint64) {
	c, err := mat.SolveLeft(tr.Mat(A), rowVec(r))
	ev := map[string]any{"A": A, "r": r, "ok": err == nil, "c": []uint64{}}
	if err == nil {
		ev["c"] = tr.Flat(c)
	}
	emit("solveL", ev)
}

func doSquare(A [][]uint64) {
	sq, err := tr.Mat(A).AsSquare()
	if err != nil {
		panic(err)
	}
	emit("det", map[string]any{"A": A, "d": sq.Determinant().Int()})
	inv, err := sq.TryInv()
	ev := map[string]any{"A": A, "ok": err == nil, "B": [][]uint64{}}
	if err == nil {
		ev["B"] = tr.MatInts(inv.AsRectangular())
	}
	emit("inv", ev)
}

func doTranspose(A [][]uint64) {
	emit("transpose", map[string]any{"A": A, "T": tr.MatInts(tr.Mat(A).Transpose())})
}

func doMul(A, B [][]uint64) {
	c, err := tr.Mat(A).TryMul(tr.Mat(B))
	ev := map[string]any{"A": A, "B": B, "ok": err == nil, "C": [][]uint64{}}
	if err == nil {
		ev["C"] = tr.MatInts(c)
	}
	emit("mul", ev)
}

func doLift(A [][]uint64, base uint64) {
	l, err := mat.Lift(tr.Mat(A), toy.FromLog(base))
	if err != nil {
		panic(err)
	}
	emit("lift", map[string]any{"A": A, "base": base, "L": tr.ElemMatLogs(l)})
}

func doLeftAct(A [][]uint64, X [][]uint64) {
	y, err := mat.LeftAction(tr.Mat(A), tr.ElemMat(X))
	ev := map[string]any{"A": A, "X": X, "ok": err == nil, "Y": [][]uint64{}}
	if err == nil {
		ev["Y"] = tr.ElemMatLogs(y)
	}
	emit("leftact", ev)
}

func doRightAct(X [][]uint64, A [][]uint64) {
	y, err := mat.RightAction(tr.ElemMat(X), tr.Mat(A))
	ev := map[string]any{"A": A, "X": X, "ok": err == nil, "Y": [][]uint64{}}
	if err == nil {
		ev["Y"] = tr.ElemMatLogs(y)
	}
	emit("rightact", ev)
}

func poly(coeffs []uint64) *polynomials.Polynomial[*toy.Scalar] {
	ring, err := polynomials.NewPolynomialRing(toy.NewScalarField())
	if err != nil {
		panic(err)
	}
	p, err := ring.New(tr.Ss(coeffs)...)
	if err != nil {
		panic(err)
	}
	return p
}

func coeffInts(p *polynomials.Polynomial[*toy.Scalar]) []uint64 { return tr.Ints(p.Coefficients()) }

// doInterp: polynomial p (coefficients, degree < len(nodes)) evaluated with the real Eval at
// the nodes, then interpolated with the three packages, plain and in the exponent.
func doInterp(coeffs []uint64, nodes []uint64, at uint64) {
	p := poly(coeffs)
	xs := tr.Ss(nodes)
	ys := make([]*toy.Scalar, len(xs))
	gys := make([]*toy.Elem, len(xs))
	for i, x := range xs {
		ys[i] = p.Eval(x)
		gys[i] = toy.FromLog(ys[i].Int())
	}
	emit("eval", map[string]any{"c": coeffs, "xs": nodes, "ys": tr.Ints(ys)})

	v, err := lagrange.InterpolateAt(xs, ys, tr.S(at))
	ev := map[string]any{"c": coeffs, "xs": nodes, "at": at, "ok": err == nil, "v": 0}
	if err == nil {
		ev["v"] = v.Int()
	}
	emit("lagrange", ev)

	gv, err := lagrange.InterpolateInExponentAt(toy.NewGroup(), xs, gys, tr.S(at))
	ev = map[string]any{"c": coeffs, "xs": nodes, "at": at, "ok": err == nil, "v": 0}
	if err == nil {
		ev["v"] = gv.Log()
	}
	emit("lagrangeExp", ev)

	vp, err := vandermonde.Interpolate(xs, ys, tr.S(at))
	ev = map[string]any{"c": coeffs, "xs": nodes, "ok": err == nil, "p": []uint64{}}
	if err == nil {
		ev["p"] = coeffInts(vp)
	}
	emit("vandermonde", ev)

	// lifting a polynomial commutes with evaluation
	lp, err := polynomials.LiftPolynomial(p, toy.FromLog(1))
	if err != nil {
		panic(err)
	}
	emit("liftpoly", map[string]any{"c": coeffs, "at": at, "v": lp.Eval(tr.S(at)).Log(), "lc": tr.Logs(lp.Coefficients())})
}

// doBirkhoff: nodes (x_i, j_i): y_i = p^{(j_i)}(x_i), computed with the real Derivative/Eval.
func doBirkhoff(coeffs []uint64, nodes []uint64, js []uint64) {
	p := poly(coeffs)
	xs := tr.Ss(nodes)
	ys := make([]*toy.Scalar, len(xs))
	gys := make([]*toy.Elem, len(xs))
	for i, x := range xs {
		d := p
		for k := uint64(0); k < js[i]; k++ {
			d = d.Derivative()
		}
		ys[i] = d.Eval(x)
		gys[i] = toy.FromLog(ys[i].Int())
	}
	emit("deriv", map[string]any{"c": coeffs, "xs": nodes, "js": js, "ys": tr.Ints(ys)})
	bp, err := birkhoff.Interpolate(xs, js, ys)
	ev := map[string]any{"c": coeffs, "xs": nodes, "js": js, "ok": err == nil, "p": []uint64{}}
	if err == nil {
		ev["p"] = coeffInts(bp)
	}
	emit("birkhoff", ev)
	gp, err := birkhoff.InterpolateInExponent(xs, js, gys)
	ev = map[string]any{"c": coeffs, "xs": nodes, "js": js, "ok": err == nil, "p": []uint64{}}
	if err == nil {
		ev["p"] = tr.Logs(gp.Coefficients())
	}
	emit("birkhoffExp", ev)
	bm, err := birkhoff.BuildVandermondeMatrix(xs, js, len(xs))
	if err == nil {
		emit("birkhoffMat", map[string]any{"xs": nodes, "js": js, "M": tr.MatInts(bm)})
	}
}

func parseShapes(s string) [][2]int {
	out := [][2]int{}
	for _, p := range strings.Split(s, ",") {
		if p == "" {
			continue
		}
		mn := strings.Split(p, "x")
		m, _ := strconv.Atoi(mn[0])
		n, _ := strconv.Atoi(mn[1])
		out = append(out, [2]int{m, n})
	}
	return out
}

// subsetsOf enumerates non-empty ordered selections (all permutations of all subsets) if perm, else subsets.
func subsets(universe []uint64, minSize, maxSize int, f func(s []uint64)) {
	n := len(universe)
	for mask := 1; mask < 1<<n; mask++ {
		s := []uint64{}
		for i := 0; i < n; i++ {
			if mask&(1<<i) != 0 {
				s = append(s, universe[i])
			}
		}
		if len(s) >= minSize && len(s) <= maxSize {
			f(s)
		}
	}
}

func main() {
	qf := flag.Uint64("q", 5, "toy field order")
	out := flag.String("out", "trace.ndjson", "output trace")
	mode := flag.String("mode", "exh", "exh | sample | interp")
	shapes := flag.String("shapes", "1x1,1x2,2x1,2x2", "matrix shapes for exhaustive enumeration")
	rhs := flag.Int("rhs", 0, "number of right-hand sides per matrix (0 = all)")
	mulShapes := flag.String("mul", "", "AxB shape pairs for exhaustive products, e.g. 2x2*2x2 (; separated)")
	seed := flag.Uint64("seed", 1, "seed")
	n := flag.Int("n", 200, "number of sampled cases")
	maxdim := flag.Int("maxdim", 4, "max dimension for sampled matrices")
	maxnodes := flag.Int("maxnodes", 4, "max nodes for interpolation")
	flag.Parse()
	q = *qf
	toy.Setup(q)
	w = tr.NewW(*out)
	defer w.Close()
	w.Emit(map[string]any{"a": "hdr", "k": "hdr", "q": q, "mode": *mode})
	rng := tr.PRand(*seed, 20)

	switch *mode {
	case "exh":
		for _, sh := range parseShapes(*shapes) {
			m, nn := sh[0], sh[1]
			allVecs(m*nn, func(flat []uint64) {
				A := toRows(flat, m, nn)
				doTranspose(A)
				if m == nn {
					doSquare(A)
				}
				if *rhs == 0 {
					allVecs(m, func(b []uint64) { doSolveR(A, b) })
					allVecs(nn, func(r []uint64) { doSolveL(A, r) })
				} else {
					for i := 0; i < *rhs; i++ {
						b := make([]uint64, m)
						r := make([]uint64, nn)
						for j := range b {
							b[j] = rng.Uint64N(q)
						}
						for j := range r {
							r[j] = rng.Uint64N(q)
						}
						doSolveR(A, b)
						doSolveL(A, r)
						// a right-hand side that is solvable by construction: A*x0, c0*A
						x0 := make([]uint64, nn)
						for j := range x0 {
							x0[j] = rng.Uint64N(q)
						}
						bb := make([]uint64, m)
						for i2 := range bb {
							for j := range x0 {
								bb[i2] = (bb[i2] + A[i2][j]*x0[j]) % q
							}
						}
						doSolveR(A, bb)
					}
				}
				base := 1 + rng.Uint64N(q-1)
				doLift(A, base)
			})
		}
		for _, pair := range strings.Split(*mulShapes, ";") {
			if pair == "" {
				continue
			}
			ab := strings.Split(pair, "*")
			sa, sb := parseShapes(ab[0])[0], parseShapes(ab[1])[0]
			allVecs(sa[0]*sa[1], func(fa []uint64) {
				A := toRows(fa, sa[0], sa[1])
				allVecs(sb[0]*sb[1], func(fb []uint64) {
					B := toRows(fb, sb[0], sb[1])
					doMul(A, B)
					doLeftAct(A, B)
					doRightAct(A, B)
				})
			})
		}
	case "sample":
		randMat := func(m, nn int, lowRank bool) [][]uint64 {
			A := make([][]uint64, m)
			for i := range A {
				A[i] = make([]uint64, nn)
				for j := range A[i] {
					A[i][j] = rng.Uint64N(q)
				}
			}
			if lowRank && m > 1 {
				// make the last row a combination of the others, and maybe a zero column
				a, b := rng.Uint64N(q), rng.Uint64N(q)
				for j := range A[m-1] {
					A[m-1][j] = (a*A[0][j] + b*A[(m-1)/2][j]) % q
				}
				if rng.IntN(3) == 0 {
					c := rng.IntN(nn)
					for i := range A {
						A[i][c] = 0
					}
				}
			}
			return A
		}
		for i := 0; i < *n; i++ {
			m, nn := 1+rng.IntN(*maxdim), 1+rng.IntN(*maxdim)
			A := randMat(m, nn, rng.IntN(2) == 0)
			doTranspose(A)
			b := make([]uint64, m)
			for j := range b {
				b[j] = rng.Uint64N(q)
			}
			doSolveR(A, b)
			r := make([]uint64, nn)
			for j := range r {
				r[j] = rng.Uint64N(q)
			}
			doSolveL(A, r)
			// consistent systems
			x0 := make([]uint64, nn)
			for j := range x0 {
				x0[j] = rng.Uint64N(q)
			}
			bb := make([]uint64, m)
			for i2 := range bb {
				for j := range x0 {
					bb[i2] = (bb[i2] + A[i2][j]*x0[j]) % q
				}
			}
			doSolveR(A, bb)
			c0 := make([]uint64, m)
			for j := range c0 {
				c0[j] = rng.Uint64N(q)
			}
			rr := make([]uint64, nn)
			for j := range rr {
				for i2 := range c0 {
					rr[j] = (rr[j] + c0[i2]*A[i2][j]) % q
				}
			}
			doSolveL(A, rr)
			sqn := 1 + rng.IntN(*maxdim)
			doSquare(randMat(sqn, sqn, rng.IntN(3) == 0))
			k := 1 + rng.IntN(*maxdim)
			B := randMat(nn, k, false)
			doMul(A, B)
			doLeftAct(A, B)
			doRightAct(A, B)
			doLift(A, 1+rng.Uint64N(q-1))
			if rng.IntN(4) == 0 { // dimension mismatch must be refused
				C := randMat(nn+1, k, false)
				doMul(A, C)
				doLeftAct(A, C)
				doRightAct(A, C)
			}
		}
	case "interp":
		// all node sets (as ordered, unsorted selections) out of 1..min(q-1,5), all polynomials of degree < |nodes| when q is small
		maxNode := uint64(5)
		if q-1 < maxNode {
			maxNode = q - 1
		}
		universe := []uint64{}
		for x := uint64(1); x <= maxNode; x++ {
			universe = append(universe, x)
		}
		if q > 11 { // add large nodes
			universe = append(universe[:3], q-1, q/2)
		}
		subsets(universe, 1, *maxnodes, func(s []uint64) {
			// an unsorted order as well
			orders := [][]uint64{s}
			if len(s) > 1 {
				rev := append([]uint64(nil), s...)
				sort.Slice(rev, func(i, j int) bool { return rev[i] > rev[j] })
				orders = append(orders, rev)
				if len(s) > 2 {
					rot := append(append([]uint64(nil), s[1:]...), s[0])
					orders = append(orders, rot)
				}
			}
			for _, nodes := range orders {
				np := len(nodes)
				enum := func(coeffs []uint64) {
					for _, at := range []uint64{0, 1, q - 1, rng.Uint64N(q)} {
						doInterp(coeffs, nodes, at)
					}
				}
				if q <= 5 && np <= 3 {
					allVecs(np, enum)
				} else {
					for t := 0; t < 3; t++ {
						c := make([]uint64, np)
						for j := range c {
							c[j] = rng.Uint64N(q)
						}
						if t == 1 {
							c[np-1] = 0 // degree drop
						}
						enum(c)
					}
				}
				// Birkhoff: every derivative-order pattern js with js[i] < np
				var rec func(i int, js []uint64)
				rec = func(i int, js []uint64) {
					if i == np {
						c := make([]uint64, np)
						for j := range c {
							c[j] = rng.Uint64N(q)
						}
						doBirkhoff(c, nodes, append([]uint64(nil), js...))
						return
					}
					for d := uint64(0); d < uint64(np) && d < 3; d++ {
						rec(i+1, append(js, d))
					}
				}
				if np <= 4 {
					rec(0, nil)
				}
			}
		})
	default:
		fmt.Fprintln(os.Stderr, "unknown mode")
		os.Exit(2)
	}
	fmt.Printf("events=%d\n", w.N)
}

// prodproto (plain binary: the library's key-size floors are ON; everything except Lindell17 with 1024-bit Paillier keys runs here).
package main

import (
	"os"

	"verif/harness/prod"
)

func main() { os.Exit(prod.Main(os.Args[1:])) }

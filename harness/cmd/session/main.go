// session drives the real session-setup protocol (round by round over CBOR bytes, and through the runner API
// over real Routers), derives every sub-context, samples pseudorandom zero shares on the toy group, and logs
// identifiers / transcripts / seeds as tokens (equal bytes <=> equal token) and zero-share values as discrete logs (C10).
package main

import (
	"context"
	"flag"
	"fmt"
	"io"
	"sort"
	"time"

	"github.com/bronlabs/bron-crypto/pkg/mpc/session"
	"github.com/bronlabs/bron-crypto/pkg/mpc/zero/przs"
	"github.com/bronlabs/bron-crypto/pkg/network"
	ntu "github.com/bronlabs/bron-crypto/pkg/network/testutils"

	ad "verif/harness/adapters"
	"verif/harness/proto"
	"verif/harness/toy"
	"verif/harness/tr"
)

type ID = ad.ID

func key(i ID) string { return fmt.Sprint(uint64(i)) }

func tok32(r io.Reader) int {
	buf := make([]byte, 32)
	if _, err := io.ReadFull(r, buf); err != nil {
		panic(err)
	}
	return proto.Tok(buf)
}

// ctxJ projects one context: sid, transcript state (probe extraction on a clone), per-peer seed tokens, and
// the pseudorandom pair elements / zero share on the toy group.
func ctxJ(c *session.Context) map[string]any {
	sid := c.SessionID()
	tb, err := c.Transcript().Clone().ExtractBytes("verif-probe", 32)
	if err != nil {
		panic(err)
	}
	seeds := map[string]any{}
	pair := map[string]any{}
	for peer, rd := range c.Seeds() {
		seeds[key(peer)] = tok32(rd)
	}
	for peer, rd := range c.Seeds() { // Seeds() hands out fresh clones: the element przs derives for this peer
		v, err := toy.NewGroup().Random(rd)
		if err != nil {
			panic(err)
		}
		pair[key(peer)] = v.Log()
	}
	zs, err := przs.SampleZeroShare(c, toy.NewGroup())
	if err != nil {
		panic(err)
	}
	zs2, _ := przs.SampleZeroShare(c, toy.NewGroup())
	q := []uint64{}
	for id := range c.AllPartiesOrdered() {
		q = append(q, uint64(id))
	}
	return map[string]any{"id": uint64(c.HolderID()), "quorum": q, "sid": proto.Tok(sid[:]), "tr": proto.Tok(tb), "seeds": seeds, "pair": pair,
		"zero": zs.Value().Log(), "zeroAgain": zs2.Value().Log()}
}

func subsets(ids []ID, min int) [][]ID {
	out := [][]ID{}
	for m := 1; m < 1<<len(ids); m++ {
		s := []ID{}
		for i, id := range ids {
			if m&(1<<i) != 0 {
				s = append(s, id)
			}
		}
		if len(s) >= min {
			out = append(out, s)
		}
	}
	return out
}

func viaRunner(ids []ID, rd func(ID) io.Reader) map[ID]*session.Context {
	coord := ntu.NewMockCoordinator(ids...)
	type res struct {
		id  ID
		c   *session.Context
		err error
	}
	ch := make(chan res, len(ids))
	for _, id := range ids {
		r, err := session.NewSessionRunner(id, ad.IDSet(ids...), rd(id))
		if err != nil {
			panic(err)
		}
		go func(id ID, r network.Runner[*session.Context]) {
			rt := network.NewRouter(coord.DeliveryFor(id))
			defer rt.Close()
			ctx, cancel := context.WithTimeout(context.Background(), 60*time.Second)
			defer cancel()
			c, err := r.Run(ctx, rt, nil)
			ch <- res{id, c, err}
		}(id, r)
	}
	out := map[ID]*session.Context{}
	for range ids {
		r := <-ch
		if r.err != nil {
			panic(r.err)
		}
		out[r.id] = r.c
	}
	return out
}

func main() {
	qf := flag.Uint64("q", 251, "toy field order")
	out := flag.String("out", "trace.ndjson", "trace file")
	seed := flag.Uint64("seed", 1, "seed")
	n := flag.Int("n", 30, "number of sessions")
	maxn := flag.Int("parties", 4, "max quorum size")
	flag.Parse()
	toy.Setup(*qf)
	rng := tr.PRand(*seed, 31)
	w := tr.NewW(*out)
	defer w.Close()
	w.Emit(map[string]any{"a": "hdr", "q": *qf, "seed": *seed})
	pool := []ID{1, 2, 3, 4, 5, 6, 7, 1000003, 2000000011, 77} // identifiers stay below 2^31 (TLC integers)
	for s := 0; s < *n; s++ {
		np := 2 + rng.IntN(*maxn-1)
		rng.Shuffle(len(pool), func(i, j int) { pool[i], pool[j] = pool[j], pool[i] })
		ids := append([]ID(nil), pool[:np]...)
		sort.Slice(ids, func(i, j int) bool { return ids[i] < ids[j] })
		strm := uint64(0)
		rd := func(id ID) io.Reader { strm++; return tr.Rng(*seed, uint64(s)*1000+strm*7+uint64(id%97)) }
		var ctxs map[ID]*session.Context
		api := "rounds"
		if rng.IntN(3) == 0 {
			api = "runner"
			ctxs = viaRunner(ids, rd)
		} else {
			var err error
			ctxs, err = ad.SetupSessions(ids, rd)
			if err != nil {
				panic(err)
			}
		}
		full := map[string]any{}
		for _, id := range ids {
			full[key(id)] = ctxJ(ctxs[id])
		}
		subs := []any{}
		for _, sq := range subsets(ids, 2) {
			if len(sq) == len(ids) {
				continue
			}
			by := map[string]any{}
			for _, id := range sq {
				sc, err := ctxs[id].SubContext(ad.IDSet(sq...))
				if err != nil {
					panic(err)
				}
				by[key(id)] = ctxJ(sc)
			}
			// deriving is a pure function of (session, sub-quorum): one member derives again, later and out of step with the others
			again := map[string]any{}
			first := sq[rng.IntN(len(sq))]
			sc2, err := ctxs[first].SubContext(ad.IDSet(sq...))
			if err != nil {
				panic(err)
			}
			again[key(first)] = ctxJ(sc2)
			subs = append(subs, map[string]any{"quorum": ad.IDsU(sq), "by": by, "again": again})
		}
		// ... and leaves the parent context as it was
		after := map[string]any{}
		for _, id := range ids {
			after[key(id)] = ctxJ(ctxs[id])
		}
		w.Emit(map[string]any{"a": "session", "k": fmt.Sprintf("session#%d", s), "api": api, "ids": ad.IDsU(ids), "by": full, "subs": subs, "after": after})
	}
	fmt.Printf("events=%d\n", w.N)
}
